(* C09: the composed round trip  decode (encode f)  for every well-formed 3-d field, every
   representation, extend_scalar on/off, with the subregion side-car. *)
From DF Require Import Prelude Constants_gen Region Mesh Ovf QLemmas ListLemmas C01_nd
                       C09_layout C09_codec C09_mesh C09_faults.
From Coq Require Import Ascii Arith.
Open Scope Q_scope.

(* ---------- check values: what the writer stores is what the reader expects ---------- *)
Lemma write_check_agrees (r : repr) : write_check_value r == check_value r.
Proof. destruct r; reflexivity. Qed.

Lemma write_check_accepted (r : repr) : Qeq_bool (write_check_value r) (check_value r) = true.
Proof. apply Qeq_bool_iff. apply write_check_agrees. Qed.

(* ---------- units ---------- *)
Lemma raw_words_id s : has_ws s = false -> raw_words s = [s].
Proof.
  induction s; simpl; [reflexivity|]. intros H. apply Bool.orb_false_iff in H. destruct H as [H1 H2].
  rewrite H1, (IHs H2). reflexivity.
Qed.

Lemma words_id s : has_ws s = false -> s <> ""%string -> words s = [s].
Proof.
  intros H N. unfold words. rewrite raw_words_id by exact H. simpl.
  destruct (String.eqb s "") eqn:E; [apply String.eqb_eq in E; contradiction | reflexivity].
Qed.

Lemma flat_map_words_repeat tok k :
  has_ws tok = false -> tok <> ""%string -> flat_map words (repeat tok k) = repeat tok k.
Proof. intros H N. induction k; simpl; [reflexivity|]. rewrite words_id, IHk by assumption. reflexivity. Qed.

Lemma all_eqb_repeat s k : all_eqb s (repeat s k) = true.
Proof. induction k; simpl; [reflexivity|]. rewrite String.eqb_refl. exact IHk. Qed.

Lemma read_unit_repeat tok k : (1 <= k)%nat ->
  read_unit (Some (repeat tok k)) = if String.eqb tok "None" then None else Some tok.
Proof. destruct k; [lia|]. intros _. simpl. rewrite all_eqb_repeat. reflexivity. Qed.

(* a unit (or none) is read back unchanged under the guards: not empty, not the marker 'None',
   no white space *)
Lemma unit_roundtrip u k : unit_ok u -> (1 <= k)%nat ->
  read_unit (Some (flat_map words (repeat (unit_token u) k))) = u.
Proof.
  intros Hu Hk. destruct u as [s|]; unfold unit_token.
  - simpl in Hu. destruct Hu as (N1 & N2 & W).
    destruct (String.eqb s "") eqn:E1; [apply String.eqb_eq in E1; contradiction|].
    rewrite flat_map_words_repeat by assumption. rewrite read_unit_repeat by exact Hk.
    destruct (String.eqb s "None") eqn:E2; [apply String.eqb_eq in E2; contradiction | reflexivity].
  - rewrite flat_map_words_repeat by (try reflexivity; discriminate).
    rewrite read_unit_repeat by exact Hk. reflexivity.
Qed.

(* the known finding: a unit with white space comes back as None (two components) *)
Lemma unit_whitespace_lost :
  read_unit (Some (flat_map words (repeat (unit_token (Some "A / m"%string)) 2))) = None.
Proof. reflexivity. Qed.

(* ---------- labels ---------- *)
Lemma labels_scalar : field_vdims 1 (read_vdims (Some ["field_x"%string])) = OK (Some ["x"%string]).
Proof. reflexivity. Qed.

Lemma labels_extended :
  field_vdims 3 (read_vdims (Some (repeat "field_x"%string 3))) = OK (Some ["x"; "y"; "z"]%string).
Proof. reflexivity. Qed.

Lemma labels_vector nv l : (2 <= nv)%nat -> length l = nv -> nodupb l = true -> Forall label_ok l ->
  field_vdims nv (read_vdims (Some (map field_label l))) = OK (Some l).
Proof.
  intros H2 HL HN HF. unfold read_vdims. cbv zeta. rewrite (labels_roundtrip l HF), HN.
  unfold field_vdims. destruct l as [|a t]; [simpl in HL; lia|].
  rewrite HL, Nat.eqb_refl, HN. reflexivity.
Qed.

(* ---------- region ---------- *)
Lemma Qmin_lt a b : a < b -> Qmin a b = a.
Proof.
  intros H. assert (C : Qcompare a b = Lt) by (rewrite <- Qlt_alt; exact H).
  unfold Qmin, GenericMinMax.gmin. rewrite C. reflexivity.
Qed.

Lemma Qmax_lt a b : a < b -> Qmax a b = b.
Proof.
  intros H. assert (C : Qcompare a b = Lt) by (rewrite <- Qlt_alt; exact H).
  unfold Qmax, GenericMinMax.gmax. rewrite C. reflexivity.
Qed.

Lemma Qeq_bool_pos_false a b : a < b -> Qeq_bool (b - a) 0 = false.
Proof.
  intros H. destruct (Qeq_bool (b - a) 0) eqn:E; [|reflexivity]. apply Qeq_bool_iff in E. lra.
Qed.

Lemma mk_region3 x0 y0 z0 x1 y1 z1 u tf_ : x0 < x1 -> y0 < y1 -> z0 < z1 ->
  mk_region [x0; y0; z0] [x1; y1; z1] None (Some [u; u; u]) tf_
  = OK (mkRegion [x0; y0; z0] [x1; y1; z1] ["x"; "y"; "z"]%string [u; u; u] tf_).
Proof.
  intros Hx Hy Hz. unfold mk_region.
  change (map2 Qmin [x0; y0; z0] [x1; y1; z1]) with [Qmin x0 x1; Qmin y0 y1; Qmin z0 z1].
  change (map2 Qmax [x0; y0; z0] [x1; y1; z1]) with [Qmax x0 x1; Qmax y0 y1; Qmax z0 z1].
  rewrite !Qmin_lt, !Qmax_lt by assumption.
  change (edges_of [x0; y0; z0] [x1; y1; z1]) with [x1 - x0; y1 - y0; z1 - z0].
  change (existsb (fun e => Qeq_bool e 0) [x1 - x0; y1 - y0; z1 - z0])
    with (Qeq_bool (x1 - x0) 0 || (Qeq_bool (y1 - y0) 0 || (Qeq_bool (z1 - z0) 0 || false))).
  rewrite !Qeq_bool_pos_false by assumption. reflexivity.
Qed.

Lemma all_same3 (l : list string) : length l = 3%nat -> all_same l = true -> exists u, l = [u; u; u].
Proof.
  destruct l as [|a [|b [|c [|e t]]]]; intros HL H; simpl in HL; try discriminate HL. simpl in H.
  apply Bool.andb_true_iff in H. destruct H as [H1 H]. apply Bool.andb_true_iff in H. destruct H as [H2 _].
  apply String.eqb_eq in H1. apply String.eqb_eq in H2. subst b c. exists a. reflexivity.
Qed.

(* ---------- side-car ---------- *)
Lemma sidecar_rebuilt (sc : sidecar) (ds us : list string) (t : Q) :
  map (fun sr : string * region => (fst sr, (pmin (snd sr), pmax (snd sr))))
      (map (fun e : string * (list Q * list Q) =>
              (fst e, mkRegion (fst (snd e)) (snd (snd e)) ds us t)) sc) = sc.
Proof.
  induction sc as [|[nm [a b]] sc IH]; simpl; [reflexivity|]. rewrite IH. reflexivity.
Qed.

(* ---------- counts ---------- *)
Lemma nodes3 k0 k1 k2 : (0 < k0)%Z -> (0 < k1)%Z -> (0 < k2)%Z ->
  Z.to_nat (zprod [k0; k1; k2]) = (Z.to_nat k0 * (Z.to_nat k1 * Z.to_nat k2))%nat.
Proof.
  intros. unfold zprod. simpl fold_right. rewrite Z.mul_1_r.
  rewrite !Z2Nat.inj_mul by nia. reflexivity.
Qed.

Lemma cpos_cell_lt nx ny nz i j k : (i < nx)%nat -> (j < ny)%nat -> (k < nz)%nat ->
  ((i * ny + j) * nz + k < nx * (ny * nz))%nat.
Proof.
  intros. assert (A1 : (i * ny + j + 1 <= nx * ny)%nat) by nia.
  assert (A2 : ((i * ny + j) * nz + k + 1 <= nx * ny * nz)%nat) by nia. lia.
Qed.

(* ---------- values ---------- *)
Section Values.
  Variable V : Type.
  Variables d zero : V.
  Variables nx ny nz : nat.

  Lemma from_to_map_plain nv (a : list V) (g h : V -> V) :
    length a = (nx * (ny * (nz * nv)))%nat ->
    map h (from_ovf_order d nx ny nz nv (map g (to_ovf_order d nx ny nz nv a))) = map (fun v => h (g v)) a.
  Proof.
    intros HL. pose proof (from_to_ovf_order_map V d nx ny nz nv a g h [] HL) as E.
    rewrite app_nil_r in E. rewrite firstn_all2 in E; [exact E|].
    rewrite map_length, to_ovf_order_length. apply Nat.eq_le_incl. ring.
  Qed.

  Lemma extend_vals_length (a : list V) : length (extend_vals zero a) = (length a * 3)%nat.
  Proof. unfold extend_vals. induction a; simpl; [reflexivity|]. rewrite IHa. lia. Qed.

  Lemma nth_extend_vals (a : list V) (q : nat) : (q < length a)%nat ->
    nth (q * 3 + 0) (extend_vals zero a) d = nth q a d /\
    nth (q * 3 + 1) (extend_vals zero a) d = zero /\
    nth (q * 3 + 2) (extend_vals zero a) d = zero.
  Proof.
    revert q. induction a as [|v t IH]; intros q H; simpl in H; [lia|].
    destruct q.
    - simpl. repeat split; reflexivity.
    - destruct (IH q ltac:(lia)) as (E0 & E1 & E2).
      replace (S q * 3 + 0)%nat with (S (S (S (q * 3 + 0)))) by lia.
      replace (S q * 3 + 1)%nat with (S (S (S (q * 3 + 1)))) by lia.
      replace (S q * 3 + 2)%nat with (S (S (S (q * 3 + 2)))) by lia.
      unfold extend_vals in *. simpl. repeat split; assumption.
  Qed.

  (* the rows written for an extended scalar field are the rows of the three-component array *)
  Lemma rows_extended (a : list V) : length a = (nx * (ny * (nz * 1)))%nat ->
    ovf_rows nx ny nz (row_of d zero true ny nz 1 a) = to_ovf_order d nx ny nz 3 (extend_vals zero a).
  Proof.
    intros HL. unfold to_ovf_order, ovf_rows, tab.
    apply flat_map_ext_in. intros k Hk. apply flat_map_ext_in. intros j Hj.
    apply flat_map_ext_in. intros i Hi.
    apply in_seq in Hi. apply in_seq in Hj. apply in_seq in Hk.
    assert (Hq : ((i * ny + j) * nz + k < length a)%nat).
    { rewrite HL. rewrite Nat.mul_1_r. apply cpos_cell_lt; lia. }
    destruct (nth_extend_vals a _ Hq) as (E0 & E1 & E2).
    unfold row_of, comps, cpos. simpl map.
    rewrite E0, E1, E2. rewrite Nat.mul_1_r, Nat.add_0_r. reflexivity.
  Qed.
End Values.

Lemma Forall2_3 {A B} (P : A -> B -> Prop) a b c a' b' c' :
  Forall2 P [a; b; c] [a'; b'; c'] -> P a a' /\ P b b' /\ P c c'.
Proof.
  intros H. inversion H as [|? ? ? ? H1 T1]; subst. inversion T1 as [|? ? ? ? H2 T2]; subst.
  inversion T2 as [|? ? ? ? H3 T3]; subst. repeat split; assumption.
Qed.

Lemma Forall_3 {A} (P : A -> Prop) a b c : Forall P [a; b; c] -> P a /\ P b /\ P c.
Proof.
  intros H. inversion H as [|? ? H1 T1]; subst. inversion T1 as [|? ? H2 T2]; subst.
  inversion T2 as [|? ? H3 T3]; subst. repeat split; assumption.
Qed.

Lemma labels_all (nv : nat) (vds : option (list string)) (extend : bool) :
  (1 <= nv)%nat ->
  ((2 <= nv)%nat -> exists l, vds = Some l /\ length l = nv /\ nodupb l = true /\ Forall label_ok l) ->
  exists labels vdres,
    (if ((if extend && (nv =? 1)%nat then 3%nat else nv) =? 1)%nat then OK ["field_x"%string]
     else if extend && (nv =? 1)%nat then OK (repeat "field_x"%string (if extend && (nv =? 1)%nat then 3%nat else nv))
     else match vds with Some l => OK (map field_label l) | None => Err TypeE end) = OK labels /\
    field_vdims (if extend && (nv =? 1)%nat then 3%nat else nv) (read_vdims (Some labels)) = OK vdres /\
    ((2 <= nv)%nat -> vdres = vds).
Proof.
  intros H1 Hlab. destruct (nv =? 1)%nat eqn:E.
  - apply Nat.eqb_eq in E. subst nv. destruct extend; simpl.
    + exists (repeat "field_x"%string 3), (Some ["x"; "y"; "z"]%string).
      repeat split; try reflexivity. intros; lia.
    + exists ["field_x"%string], (Some ["x"%string]). repeat split; try reflexivity. intros; lia.
  - apply Nat.eqb_neq in E. assert (H2 : (2 <= nv)%nat) by lia.
    destruct (Hlab H2) as (l & Hv & HL & HN & HF). subst vds.
    rewrite Bool.andb_false_r. assert (E1 : (nv =? 1)%nat = false) by (apply Nat.eqb_neq; exact E).
    rewrite E1. exists (map field_label l), (Some l). repeat split; try reflexivity.
    apply labels_vector; assumption.
Qed.

Lemma data_stage {V A : Type} (rp : repr) (PL : list V) (N : nat) (K : list V -> res A) :
  length PL = N ->
  (do data <-
     match rp with
     | RTxt => OK (firstn N PL)
     | RBin4 =>
         match match rp with RTxt => None | _ => Some (write_check_value rp) end with
         | Some cv => if negb (Qeq_bool cv (check_value RBin4)) then Err ValueE
                      else if (length PL <? N)%nat then Err ValueE else OK (firstn N PL)
         | None => Err ValueE
         end
     | RBin8 =>
         match match rp with RTxt => None | _ => Some (write_check_value rp) end with
         | Some cv => if negb (Qeq_bool cv (check_value RBin8)) then Err ValueE
                      else if (length PL <? N)%nat then Err ValueE else OK (firstn N PL)
         | None => Err ValueE
         end
     end; K data) = K PL.
Proof.
  intros HL.
  assert (F : firstn N PL = PL) by (apply firstn_all2; rewrite HL; apply Nat.le_refl).
  destruct rp; try rewrite write_check_accepted; cbn [negb]; rewrite ?HL, ?Nat.ltb_irrefl, F; reflexivity.
Qed.

Section Roundtrip.
  Variable V : Type.
  Variables d zero : V.
  Variables wr rd : repr -> V -> V.

  Theorem roundtrip (f : ofield V) (rp : repr) (extend : bool) :
    wf_ofield f ->
    let ext := extend && (of_nvdim f =? 1)%nat in
    exists fl sc f',
      encode d zero wr f rp extend true = OK (fl, sc) /\
      decode d rd fl sc = OK f' /\
      pmin (reg (of_mesh f')) = pmin (reg (of_mesh f)) /\
      pmax (reg (of_mesh f')) = pmax (reg (of_mesh f)) /\
      units (reg (of_mesh f')) = units (reg (of_mesh f)) /\
      n (of_mesh f') = n (of_mesh f) /\
      sidecar_of (of_mesh f') = sidecar_of (of_mesh f) /\
      of_nvdim f' = (if ext then 3%nat else of_nvdim f) /\
      ((2 <= of_nvdim f)%nat -> of_vdims f' = of_vdims f) /\
      of_unit f' = of_unit f /\
      of_vals f' = map (fun v => rd rp (wr rp v))
                       (if ext then extend_vals zero (of_vals f) else of_vals f).
  Proof.
    intros W. destruct f as [m nv vds un vals]. destruct m as [r nn b ss].
    destruct r as [pm pM ds us tfr].
    unfold wf_ofield in W. cbn [of_mesh of_nvdim of_vdims of_unit of_vals reg pmin pmax units] in W.
    destruct W as (Wm & L3 & Hsame & Hnv & Hlab & Hunit & (nx & ny & nz & Hd3 & HL)).
    unfold wf_mesh, wf_region in Wm. cbn [reg n pmin pmax units dims tf] in Wm.
    destruct Wm as ((Lp & _ & _ & Lu & _ & HF2 & Htf) & Ln & Hpos).
    destruct pm as [|x0 [|y0 [|z0 [|? ?]]]]; simpl in L3; try discriminate L3.
    destruct pM as [|x1 [|y1 [|z1 [|? ?]]]]; simpl in Lp; try discriminate Lp.
    destruct nn as [|k0 [|k1 [|k2 [|? ?]]]]; simpl in Ln; try discriminate Ln.
    destruct (all_same3 us Lu Hsame) as [u Hus]. subst us.
    apply Forall2_3 in HF2. destruct HF2 as (Hx & Hy & Hz).
    apply Forall_3 in Hpos. destruct Hpos as (P0 & P1 & P2).
    unfold dims3 in Hd3. cbn [n] in Hd3. inversion Hd3; subst nx ny nz. clear Hd3.
    cbn zeta. cbn [of_mesh of_nvdim of_vdims of_unit of_vals reg pmin pmax units n].
    destruct (labels_all nv vds extend Hnv Hlab) as (labels & vdres & EL & EV & EQ).
    set (ext := extend && (nv =? 1)%nat) in *. set (wd := if ext then 3%nat else nv) in *.
    eexists. eexists. eexists. split.
    { unfold encode.
      cbn [of_mesh of_nvdim of_vdims of_unit of_vals reg pmin pmax units n subs ndim length Nat.eqb negb].
      cbv zeta. fold ext. fold wd. rewrite EL. cbn [bind]. rewrite Hsame.
      cbn [negb dims3 n]. reflexivity. }
    split.
    { unfold decode. cbn [f_v2 f_meshunit f_base f_nodes f_step f_min f_max f_valuedim f_labels f_units
                           f_rep f_check f_payload f_cols f_tail_ok bind].
      rewrite !Nat2Z.id.
      cbn [cell map3 reg pmin pmax n length Nat.eqb andb negb hd repeat].
      rewrite mk_region3 by assumption. cbn [bind].
      assert (Hdtf : 0 <= default_tf) by (unfold default_tf, region_tf_default; discriminate).
      rewrite (reconstruct3 (mkRegion [x0; y0; z0] [x1; y1; z1] ["x"; "y"; "z"]%string [u; u; u] default_tf)
                 k0 k1 k2 x0 y0 z0 x1 y1 z1 eq_refl eq_refl Hx Hy Hz P0 P1 P2 Hdtf).
      cbn [bind dims3 n reg bc].
      rewrite (nodes3 k0 k1 k2 P0 P1 P2).
      set (nx := Z.to_nat k0) in *. set (ny := Z.to_nat k1) in *. set (nz := Z.to_nat k2) in *.
      set (PL := map (wr rp) (ovf_rows nx ny nz (row_of d zero ext ny nz nv vals))).
      assert (Hext : ext = true -> nv = 1%nat).
      { unfold ext. intros E. apply Bool.andb_true_iff in E. destruct E as [_ E].
        apply Nat.eqb_eq in E. exact E. }
      assert (Hrow : forall i j k, length (row_of d zero ext ny nz nv vals i j k) = wd).
      { intros i j k. unfold row_of, wd. cbv zeta. destruct ext.
        - rewrite (Hext eq_refl). reflexivity.
        - apply comps_length. }
      assert (HPL : length PL = (nx * (ny * nz) * wd)%nat).
      { unfold PL. rewrite map_length. rewrite (ovf_rows_length V nx ny nz _ wd Hrow). ring. }
      assert (HPL2 : length PL = (nx * ny * nz * wd)%nat) by (rewrite HPL; ring).
      assert (Hwd : (1 <= wd)%nat) by (unfold wd; destruct ext; lia).
      fold wd. rewrite (data_stage rp PL _ _ HPL). cbv beta.
      rewrite HPL2, Nat.eqb_refl. cbn [negb].
      assert (Hwd0 : (wd =? 0)%nat = false) by (apply Nat.eqb_neq; lia).
      rewrite Hwd0. rewrite EV. cbn [bind]. reflexivity. }
    cbn [of_mesh of_nvdim of_vdims of_unit of_vals].
    assert (Hwd : (1 <= wd)%nat) by (unfold wd; destruct ext; lia).
    assert (Hext : ext = true -> nv = 1%nat).
    { unfold ext. intros E. apply Bool.andb_true_iff in E. destruct E as [_ E].
      apply Nat.eqb_eq in E. exact E. }
    assert (Hvals :
      map (rd rp) (from_ovf_order d (Z.to_nat k0) (Z.to_nat k1) (Z.to_nat k2) wd
                     (map (wr rp) (ovf_rows (Z.to_nat k0) (Z.to_nat k1) (Z.to_nat k2)
                                     (row_of d zero ext (Z.to_nat k1) (Z.to_nat k2) nv vals))))
      = map (fun v => rd rp (wr rp v)) (if ext then extend_vals zero vals else vals)).
    { unfold wd. destruct ext eqn:Eext.
      - pose proof (Hext eq_refl) as N1. subst nv.
        rewrite rows_extended by exact HL. apply from_to_map_plain.
        rewrite extend_vals_length, HL. ring.
      - change (row_of d zero false (Z.to_nat k1) (Z.to_nat k2) nv vals)
          with (comps d (Z.to_nat k1) (Z.to_nat k2) nv vals).
        change (ovf_rows (Z.to_nat k0) (Z.to_nat k1) (Z.to_nat k2) (comps d (Z.to_nat k1) (Z.to_nat k2) nv vals))
          with (to_ovf_order d (Z.to_nat k0) (Z.to_nat k1) (Z.to_nat k2) nv vals).
        apply from_to_map_plain. exact HL. }
    destruct ss as [|s0 ss'].
    - cbn [length Nat.eqb negb reg pmin pmax units n subs sidecar_of map].
      repeat split; try reflexivity.
      + exact EQ.
      + apply unit_roundtrip; assumption.
      + exact Hvals.
    - cbn [length Nat.eqb negb reg pmin pmax units n subs dims tf].
      repeat split; try reflexivity.
      + unfold sidecar_of at 1. cbn [subs]. apply sidecar_rebuilt.
      + exact EQ.
      + apply unit_roundtrip; assumption.
      + exact Hvals.
  Qed.
End Roundtrip.

(* ---------- non-vacuity: the witness field of C09_codec is well formed ---------- *)
Lemma wit_wf : wf_ofield (wit_field ["a"; "b"]%string).
Proof.
  unfold wf_ofield, wit_field, wit_mesh. cbn [of_mesh of_nvdim of_vdims of_unit of_vals reg pmin pmax units n].
  split.
  { unfold wf_mesh, wf_region. cbn [reg n pmin pmax units dims tf]. repeat split; try reflexivity.
    - simpl. lia.
    - repeat constructor; simpl; intuition discriminate.
    - repeat constructor; reflexivity.
    - unfold default_tf, region_tf_default. discriminate.
    - repeat constructor; reflexivity. }
  split; [reflexivity|]. split; [reflexivity|]. split; [lia|]. split.
  { intros _. exists ["a"; "b"]%string. repeat split; try reflexivity.
    repeat constructor; reflexivity. }
  split.
  { simpl. repeat split; discriminate. }
  exists 2%nat, 1%nat, 1%nat. split; reflexivity.
Qed.

Lemma wit_file_decodes : exists fl sc f',
  encode 0 0 idQ (wit_field ["a"; "b"]%string) RBin8 false true = OK (fl, sc) /\
  decode 0 idQ fl sc = OK f' /\ C09_faults.is_binary (f_rep fl) = true /\ C09_faults.announced fl = 4%nat.
Proof. vm_compute. eexists. eexists. eexists. repeat split. Qed.
