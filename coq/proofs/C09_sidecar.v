From DF Require Import Prelude Constants_gen Region Mesh Ovf.
Open Scope Q_scope.

Lemma mesh_by_cell_subs r c m : mesh_by_cell r c = OK m -> subs m = [] /\ m = mkMesh (reg m) (n m) (bc m) [].
Proof.
  unfold mesh_by_cell. intros H.
  repeat match type of H with (if ?b then _ else _) = _ => destruct b; [discriminate H|] end.
  inversion H; subst; clear H. simpl. split; reflexivity.
Qed.

Section Sidecar.
  Variable V : Type.
  Variable d zero : V.
  Variable wr rd : repr -> V -> V.

  (* on a fresh name the side-car the model of _to_ovf returns is the disk contract with nothing before *)
  Lemma encode_sidecar_fresh (f : ofield V) rp extend ss fl sc :
    encode d zero wr f rp extend ss = OK (fl, sc) ->
    sc = sidecar_after None ss (sidecar_of (of_mesh f)).
  Proof.
    unfold encode. intros H.
    destruct (negb (ndim (reg (of_mesh f)) =? 3)%nat); [discriminate|].
    match type of H with (bind ?x _ = _) => destruct x as [labels|]; simpl in H; [|discriminate] end.
    destruct (negb (all_same _)); [discriminate|].
    destruct (dims3 (of_mesh f)) as [[[nx ny] nz]|]; [|discriminate].
    inversion H; subst; clear H. unfold sidecar_after, sidecar_of. rewrite map_length.
    rewrite Bool.orb_false_r. reflexivity.
  Qed.

  (* saving over an existing side-car always leaves the saved field's table, never the old one *)
  Lemma sidecar_overwritten (old sc : sidecar) : sidecar_after (Some old) true sc = Some sc.
  Proof. unfold sidecar_after. rewrite Bool.orb_true_r. reflexivity. Qed.

  Lemma sidecar_not_saved (before : option sidecar) (sc : sidecar) : sidecar_after before false sc = before.
  Proof. reflexivity. Qed.

  (* an empty side-car reads exactly like no side-car *)
  Lemma empty_sidecar_reads_none (fl : ovf_file V) : decode d rd fl (Some []) = decode d rd fl None.
  Proof.
    unfold decode.
    destruct (if f_v2 fl then _ else _) as [vd|]; simpl; [|reflexivity].
    destruct (negb _); [reflexivity|].
    destruct (mk_region _ _ _ _ _) as [r|]; simpl; [|reflexivity].
    destruct (mesh_by_cell r (f_step fl)) as [m|] eqn:Hm; simpl; [|reflexivity].
    destruct (mesh_by_cell_subs _ _ _ Hm) as [_ Em].
    match goal with |- bind ?x _ = bind ?x _ => destruct x as [data|]; simpl; [|reflexivity] end.
    destruct (dims3 m) as [[[nx ny] nz]|]; [|reflexivity].
    destruct (negb _); [reflexivity|]. destruct (vd =? 0)%nat; [reflexivity|].
    destruct (field_vdims vd _); simpl; [|reflexivity]. rewrite <- Em. reflexivity.
  Qed.
End Sidecar.
