(* C09: soundness of check_C09 - an accepted case certifies that what the implementation
   produced (the file written, the field read, the field read back, the side-car on disk)
   agrees with the model's value on the recorded input: Leibniz equal where the checker
   compares strings / integers / flags, == on rationals where it compares with Qeq_bool,
   within 1e-9 relative where it compares text values or inexact header numbers.  The
   transfer theorems restate C09 theorems about the OBSERVED output. *)
From DF Require Import Prelude Constants_gen Region Mesh Ovf QLemmas ListLemmas CheckSound Check_C09
                       C01_sound C09_layout C09_codec C09_faults C09_mesh C09_roundtrip C09_sidecar.
Open Scope Q_scope.

Ltac split_andb :=
  repeat match goal with
         | H : _ && _ = true |- _ => apply andb_true_iff in H; destruct H
         end.

(* ---------------------------------------------------------------- the relations certified *)
Definition opt_rel {A} (R : A -> A -> Prop) (a b : option A) : Prop :=
  match a, b with Some x, Some y => R x y | None, None => True | _, _ => False end.

Definition sidecar_agrees (a b : sidecar) : Prop :=
  Forall2 (fun x y => fst x = fst y /\ Forall2 Qeq (fst (snd x)) (fst (snd y))
                      /\ Forall2 Qeq (snd (snd x)) (snd (snd y))) a b.

Definition vclose_rel (a b : Q) : Prop := Qabs (a - b) <= rel_tol * Qabs a.

Definition vals_agree (rp : repr) (model obs : list Q) : Prop :=
  match rp with RTxt => Forall2 vclose_rel model obs | _ => Forall2 Qeq model obs end.

Definition hdr_agrees (exact : bool) (sc model obs : list Q) : Prop :=
  if exact then Forall2 Qeq model obs
  else length model = length obs /\
       forall i, (i < length model)%nat ->
         Qabs (nth i model 0 - nth i obs 0) <= rel_tol * nth i sc 0.

Record file_agrees (exact : bool) (mf ofl : ovf_file Q) : Prop := mkFA {
  fa_v2 : f_v2 mf = f_v2 ofl;
  fa_meshunit : f_meshunit mf = f_meshunit ofl;
  fa_base : hdr_agrees exact (map2 axis_scale (f_min mf) (f_max mf)) (f_base mf) (f_base ofl);
  fa_nodes : f_nodes mf = f_nodes ofl;
  fa_step : hdr_agrees exact (map2 axis_scale (f_min mf) (f_max mf)) (f_step mf) (f_step ofl);
  fa_min : Forall2 Qeq (f_min mf) (f_min ofl);
  fa_max : Forall2 Qeq (f_max mf) (f_max ofl);
  fa_valuedim : f_valuedim mf = f_valuedim ofl;
  fa_labels : f_labels mf = f_labels ofl;
  fa_units : f_units mf = f_units ofl;
  fa_rep : f_rep mf = f_rep ofl;
  fa_check : opt_rel Qeq (f_check mf) (f_check ofl);
  fa_payload : vals_agree (f_rep mf) (f_payload mf) (f_payload ofl);
  fa_cols : f_rep mf = RTxt -> f_cols mf = f_cols ofl;
  fa_tail : f_tail_ok mf = f_tail_ok ofl
}.

Record field_agrees (rp : repr) (mf : ofield Q) (o : fobs) : Prop := mkFldA {
  ga_pmin : Forall2 Qeq (pmin (reg (of_mesh mf))) (o_pmin o);
  ga_pmax : Forall2 Qeq (pmax (reg (of_mesh mf))) (o_pmax o);
  ga_n : n (of_mesh mf) = o_n o;
  ga_units : units (reg (of_mesh mf)) = o_units o;
  ga_subs : sidecar_agrees (sidecar_of (of_mesh mf)) (o_subs o);
  ga_nv : of_nvdim mf = o_nv o;
  ga_vdims : of_vdims mf = o_vdims o;
  ga_unit : of_unit mf = o_unit o;
  ga_vals : vals_agree rp (of_vals mf) (o_vals o)
}.

(* ---------------------------------------------------------------- the comparison combinators *)
Lemma opt_eqb_sound {A} (eqb : A -> A -> bool) (R : A -> A -> Prop) :
  (forall x y, eqb x y = true -> R x y) ->
  forall a b, opt_eqb eqb a b = true -> opt_rel R a b.
Proof. intros H [x|] [y|]; simpl; intro E; try discriminate; auto. Qed.

Lemma opt_eqb_eq {A} (eqb : A -> A -> bool) :
  (forall x y, eqb x y = true -> x = y) ->
  forall a b, opt_eqb eqb a b = true -> a = b.
Proof. intros H [x|] [y|]; simpl; intro E; try discriminate; [f_equal; auto | reflexivity]. Qed.

Lemma sidecar_eqb_sound a b : sidecar_eqb a b = true -> sidecar_agrees a b.
Proof.
  unfold sidecar_eqb, sidecar_agrees. apply forallb2_Forall2_gen.
  intros x y H. split_andb. repeat split.
  - apply String.eqb_eq; assumption.
  - apply qlist_eqb_sound_gen; assumption.
  - apply qlist_eqb_sound_gen; assumption.
Qed.

Lemma vclose_sound a b : vclose a b = true -> vclose_rel a b.
Proof. unfold vclose, vclose_rel. apply Qle_bool_imp_le. Qed.

Lemma vals_match_sound rp model obs : vals_match rp model obs = true -> vals_agree rp model obs.
Proof.
  destruct rp; unfold vals_match, vals_agree.
  - apply forallb2_Forall2_gen. exact vclose_sound.
  - apply qlist_eqb_sound_gen.
  - apply qlist_eqb_sound_gen.
Qed.

Lemma repr_eqb_sound a b : repr_eqb a b = true -> a = b.
Proof. destruct a, b; simpl; intro H; try discriminate; reflexivity. Qed.

Lemma map3_close_nth sc : forall model obs,
  length model = length obs -> length model = length sc ->
  forallb (fun b : bool => b) (map3 (fun s x y => qclose rel_tol s x y) sc model obs) = true ->
  forall i, (i < length model)%nat -> Qabs (nth i model 0 - nth i obs 0) <= rel_tol * nth i sc 0.
Proof.
  induction sc as [|s sc IH]; intros [|x model] [|y obs] L1 L2 H i Hi; simpl in *; try lia.
  apply andb_true_iff in H. destruct H as [H1 H2].
  destruct i as [|i].
  - apply qclose_sound. exact H1.
  - apply IH; try lia. exact H2.
Qed.

Lemma hdr_close_sound exact sc model obs :
  hdr_close exact sc model obs = true -> hdr_agrees exact sc model obs.
Proof.
  unfold hdr_close, hdr_agrees. destruct exact.
  - apply qlist_eqb_sound_gen.
  - intro H. split_andb.
    match goal with Ha : (length model =? length obs)%nat = true |- _ => apply Nat.eqb_eq in Ha end.
    match goal with Ha : (length model =? length sc)%nat = true |- _ => apply Nat.eqb_eq in Ha end.
    split; [assumption|]. apply map3_close_nth; assumption.
Qed.

Lemma file_match_sound exact mf ofl : file_match exact mf ofl = true -> file_agrees exact mf ofl.
Proof.
  unfold file_match. intro H. split_andb. constructor.
  - apply Bool.eqb_prop; assumption.
  - apply String.eqb_eq; assumption.
  - apply hdr_close_sound; assumption.
  - apply zlist_eqb_sound_gen; assumption.
  - apply hdr_close_sound; assumption.
  - apply qlist_eqb_sound_gen; assumption.
  - apply qlist_eqb_sound_gen; assumption.
  - eapply opt_eqb_eq; [|eassumption]. intros x y. apply Z.eqb_eq.
  - eapply opt_eqb_eq; [|eassumption]. exact strlist_eqb_sound_gen.
  - eapply opt_eqb_eq; [|eassumption]. exact strlist_eqb_sound_gen.
  - apply repr_eqb_sound; assumption.
  - eapply opt_eqb_sound; [|eassumption]. intros x y. apply Qeq_bool_eq.
  - apply vals_match_sound; assumption.
  - intro E.
    match goal with Ha : implb _ _ = true |- _ => rewrite E in Ha; simpl in Ha; apply Nat.eqb_eq in Ha; exact Ha end.
  - apply Bool.eqb_prop; assumption.
Qed.

Lemma field_match_sound rp mf o : field_match rp mf o = true -> field_agrees rp mf o.
Proof.
  unfold field_match. intro H. split_andb. constructor.
  - apply qlist_eqb_sound_gen; assumption.
  - apply qlist_eqb_sound_gen; assumption.
  - apply zlist_eqb_sound_gen; assumption.
  - apply strlist_eqb_sound_gen; assumption.
  - apply sidecar_eqb_sound; assumption.
  - apply Nat.eqb_eq; assumption.
  - eapply opt_eqb_eq; [|eassumption]. exact strlist_eqb_sound_gen.
  - eapply opt_eqb_eq; [|eassumption]. intros x y. apply String.eqb_eq.
  - apply vals_match_sound; assumption.
Qed.

(* ---------------------------------------------------------------- soundness of check_C09 *)
(* side-car on disk: the observed side-car is the model's disk state *)
Lemma check_sidecar_sound before ss sc obs :
  check_C09 (CSidecar before ss sc obs) = true ->
  opt_rel sidecar_agrees (sidecar_after before ss sc) obs.
Proof. cbn [check_C09]. apply opt_eqb_sound. exact sidecar_eqb_sound. Qed.

(* reader: a field was returned iff the model accepts the file, and it is the model's field *)
Lemma check_read_sound fl side o :
  check_C09 (CRead fl side (Some o)) = true ->
  exists mf, decode 0 rdQ fl side = OK mf /\ field_agrees (f_rep fl) mf o.
Proof.
  cbn [check_C09]. destruct (decode 0 rdQ fl side) as [mf|e] eqn:Ed; intro H; [|discriminate].
  exists mf. split; [reflexivity|]. apply field_match_sound. exact H.
Qed.

Lemma check_read_refused_sound fl side :
  check_C09 (CRead fl side None) = true -> is_ok (decode 0 rdQ fl side) = false.
Proof.
  cbn [check_C09]. destruct (decode 0 rdQ fl side) as [mf|e]; intro H; [discriminate|reflexivity].
Qed.

(* the converse direction on refusals: when the model refuses, only "no field" is accepted *)
Lemma check_read_refusal_observed fl side obs :
  check_C09 (CRead fl side obs) = true -> is_ok (decode 0 rdQ fl side) = false -> obs = None.
Proof.
  cbn [check_C09]. destruct (decode 0 rdQ fl side) as [mf|e]; simpl; intros H E; [discriminate|].
  destruct obs; [discriminate|reflexivity].
Qed.

(* writer *)
Lemma check_write_sound exact f rp extend ofl os :
  check_C09 (CWrite exact f rp extend (Some (ofl, os))) = true ->
  exists fld mf ms, build f = OK fld /\ encode 0 0 wrQ fld rp extend true = OK (mf, ms) /\
    file_agrees exact mf ofl /\ opt_rel sidecar_agrees ms os.
Proof.
  cbn [check_C09]. destruct (build f) as [fld|e] eqn:Eb; [|discriminate].
  destruct (encode 0 0 wrQ fld rp extend true) as [[mf ms]|e] eqn:Ee; intro H; [|discriminate].
  apply andb_true_iff in H. destruct H as [H1 H2].
  exists fld, mf, ms. split; [reflexivity|]. split; [exact Ee|]. split.
  - apply file_match_sound; exact H1.
  - revert H2. apply opt_eqb_sound. exact sidecar_eqb_sound.
Qed.

Lemma check_write_refused_sound exact f rp extend :
  check_C09 (CWrite exact f rp extend None) = true ->
  exists fld, build f = OK fld /\ is_ok (encode 0 0 wrQ fld rp extend true) = false.
Proof.
  cbn [check_C09]. destruct (build f) as [fld|e] eqn:Eb; [|discriminate].
  destruct (encode 0 0 wrQ fld rp extend true) as [[mf ms]|e] eqn:Ee; intro H; [discriminate|].
  exists fld. split; [reflexivity|]. rewrite Ee. reflexivity.
Qed.

(* round trip *)
Lemma check_round_sound f rp extend o :
  check_C09 (CRound f rp extend (Some o)) = true ->
  exists fld fl sc mf, build f = OK fld /\ encode 0 0 wrQ fld rp extend true = OK (fl, sc) /\
    decode 0 rdQ fl sc = OK mf /\ field_agrees rp mf o.
Proof.
  cbn [check_C09]. destruct (build f) as [fld|e] eqn:Eb; [|discriminate].
  cbv zeta.
  destruct (encode 0 0 wrQ fld rp extend true) as [[fl sc]|e] eqn:Ee; cbn [bind fst snd]; [|discriminate].
  destruct (decode 0 rdQ fl sc) as [mf|e] eqn:Ed; intro H; [|discriminate].
  exists fld, fl, sc, mf. split; [reflexivity|]. split; [exact Ee|]. split; [exact Ed|].
  apply field_match_sound. exact H.
Qed.

(* ---------------------------------------------------------------- what the checker's constructor call establishes *)
Lemma default_tf_nonneg : 0 <= default_tf.
Proof. unfold default_tf, region_tf_default. discriminate. Qed.

Lemma build_inv f fld : build f = OK fld ->
  exists r, mk_region (i_p1 f) (i_p2 f) None (Some (i_units f)) default_tf = OK r /\
    reg (of_mesh fld) = r /\ n (of_mesh fld) = i_n f /\ length (i_n f) = ndim r /\
    Forall (fun k => 0 < k)%Z (i_n f) /\
    of_nvdim fld = i_nv f /\ field_vdims (i_nv f) (i_vdims f) = OK (of_vdims fld) /\
    of_unit fld = i_unit f /\ of_vals fld = i_vals f /\
    sidecar_of (of_mesh fld) = i_subs f.
Proof.
  unfold build. intro H.
  destruct (mk_region (i_p1 f) (i_p2 f) None (Some (i_units f)) default_tf) as [r|e] eqn:Er; cbn [bind] in H; [|discriminate].
  destruct (mk_mesh_n r (i_n f)) as [m|e] eqn:Em; cbn [bind] in H; [|discriminate].
  destruct (field_vdims (i_nv f) (i_vdims f)) as [vds|e] eqn:Ev; cbn [bind] in H; [|discriminate].
  inversion H; subst fld; clear H.
  unfold mk_mesh_n in Em.
  destruct (negb (length (i_n f) =? ndim r)%nat) eqn:E1; [discriminate|].
  destruct (negb (forallb (fun k => (0 <? k)%Z) (i_n f))) eqn:E2; [discriminate|].
  inversion Em; subst m; clear Em. apply negb_false_iff in E1, E2. apply Nat.eqb_eq in E1.
  exists r. cbn [of_mesh reg n of_nvdim of_vdims of_unit of_vals].
  repeat split; try assumption.
  - apply Forall_forall. intros k Hk. rewrite forallb_forall in E2. apply Z.ltb_lt. apply E2. exact Hk.
  - unfold sidecar_of. cbn [subs]. rewrite map_map. cbn [fst snd pmin pmax].
    rewrite <- (map_id (i_subs f)) at 2. apply map_ext. intros [a [b c]]. reflexivity.
Qed.

(* the Region / Mesh constructor calls of the checker establish wf_mesh *)
Theorem build_wf_mesh f fld : build f = OK fld -> (length (i_p1 f) <= 10)%nat -> wf_mesh (of_mesh fld).
Proof.
  intros H Hl. destruct (build_inv f fld H) as (r & Er & Hr & Hn & Hln & Hpos & _).
  assert (Hwr : wf_region r).
  { eapply mk_region_wf; [exact Er | exact default_tf_nonneg | intros _; exact Hl]. }
  unfold wf_mesh. rewrite Hr, Hn. split; [exact Hwr|]. split; [exact Hln | exact Hpos].
Qed.

(* ... and, with the guards of C09_roundtrip stated on the RECORDED input, wf_ofield *)
Theorem build_wf_ofield f fld a b c :
  build f = OK fld ->
  length (i_p1 f) = 3%nat -> all_same (i_units f) = true -> (1 <= i_nv f)%nat ->
  ((2 <= i_nv f)%nat -> exists l, i_vdims f = Some l /\ l <> [] /\ Forall label_ok l) ->
  unit_ok (i_unit f) ->
  i_n f = [a; b; c] ->
  length (i_vals f) = (Z.to_nat a * (Z.to_nat b * (Z.to_nat c * i_nv f)))%nat ->
  wf_ofield fld.
Proof.
  intros H H3 Hu Hnv Hlab Hun Hn Hv.
  pose proof (build_wf_mesh f fld H ltac:(lia)) as Hwm.
  destruct (build_inv f fld H) as (r & Er & Hr & Hn' & Hln & Hpos & Hnv' & Hvd & Hunit & Hvals & _).
  assert (Hunits : units r = i_units f /\ length (pmin r) = 3%nat).
  { unfold mk_region in Er.
    destruct (negb (length (i_p1 f) =? length (i_p2 f))%nat) eqn:E1; [discriminate|].
    destruct (length (i_p1 f) =? 0)%nat eqn:E2; [discriminate|].
    cbn [bind] in Er.
    destruct (negb (length (i_units f) =? length (i_p1 f))%nat) eqn:E3; [discriminate|].
    cbn [bind] in Er.
    destruct (existsb _ _) eqn:E4; [discriminate|].
    inversion Er; subst r; clear Er. cbn [units pmin]. split; [reflexivity|].
    apply negb_false_iff, Nat.eqb_eq in E1. rewrite map2_length. lia. }
  destruct Hunits as [Hus Hp3].
  unfold wf_ofield. rewrite Hr, Hnv', Hunit, Hvals. cbv zeta.
  split; [exact Hwm|]. split; [exact Hp3|]. split; [rewrite Hus; exact Hu|]. split; [exact Hnv|].
  split.
  { intro H2. destruct (Hlab H2) as (l & El & Hne & Hok). exists l.
    rewrite El in Hvd. unfold field_vdims in Hvd.
    destruct l as [|h t]; [congruence|].
    destruct (negb (length (h :: t) =? i_nv f)%nat) eqn:E1; [discriminate|].
    destruct (negb (nodupb (h :: t))) eqn:E2; [discriminate|].
    apply negb_false_iff in E1, E2. apply Nat.eqb_eq in E1.
    inversion Hvd. repeat split; assumption. }
  split; [exact Hun|].
  exists (Z.to_nat a), (Z.to_nat b), (Z.to_nat c). split; [|exact Hv].
  unfold dims3. rewrite Hn', Hn. reflexivity.
Qed.

(* ---------------------------------------------------------------- transfer theorems *)
Lemma Forall2_Qeq_nth l1 l2 i : Forall2 Qeq l1 l2 -> (i < length l1)%nat -> nth i l1 0 == nth i l2 0.
Proof. intros H Hi. exact (Forall2_nth_gen Qeq l1 l2 0 0 H i Hi). Qed.

Lemma Forall2_Qeq_trans l1 l2 l3 : Forall2 Qeq l1 l2 -> Forall2 Qeq l2 l3 -> Forall2 Qeq l1 l3.
Proof.
  intro H. revert l3. induction H as [|x y l1 l2 Hxy _ IH]; intros l3 H3; inversion H3; subst; constructor.
  - rewrite Hxy. assumption.
  - apply IH. assumption.
Qed.

Lemma Forall2_Qeq_map_id (l : list Q) : Forall2 Qeq (map (fun v => v) l) l.
Proof. rewrite map_id. induction l; constructor; [reflexivity|assumption]. Qed.

Lemma cpos_lt nx ny nz nv i j k c : (i < nx)%nat -> (j < ny)%nat -> (k < nz)%nat -> (c < nv)%nat ->
  (cpos ny nz nv i j k c < nx * (ny * (nz * nv)))%nat.
Proof.
  intros Hi Hj Hk Hc. unfold cpos.
  pose proof (cpos_cell_lt nx ny nz i j k Hi Hj Hk) as H.
  replace (nx * (ny * (nz * nv)))%nat with ((nx * (ny * nz)) * nv)%nat by lia.
  nia.
Qed.

(* faults, on the observation: a binary file whose data block is shorter than announced was
   REFUSED by the implementation (the checker accepts no returned field for it) *)
Theorem accepted_short_refused fl side obs :
  check_C09 (CRead fl side obs) = true ->
  is_binary (f_rep fl) = true -> (length (f_payload fl) < announced fl)%nat ->
  obs = None.
Proof.
  intros H Hb Hs. eapply check_read_refusal_observed; [exact H|].
  apply short_block_rejected; assumption.
Qed.

(* ... and so was every binary file whose data block is not followed by the end-of-data marker *)
Theorem accepted_bad_tail_refused fl side obs :
  check_C09 (CRead fl side obs) = true ->
  is_binary (f_rep fl) = true -> f_tail_ok fl = false -> obs = None.
Proof.
  intros H Hb Hs. eapply check_read_refusal_observed; [exact H|].
  apply bad_tail_rejected; assumption.
Qed.

(* ... and every binary file with a foreign check value *)
Theorem accepted_bad_check_refused fl side obs :
  check_C09 (CRead fl side obs) = true ->
  is_binary (f_rep fl) = true ->
  (forall cv, f_check fl = Some cv -> ~ cv == check_value (f_rep fl)) -> obs = None.
Proof.
  intros H Hb Hs. eapply check_read_refusal_observed; [exact H|].
  apply bad_check_rejected; assumption.
Qed.

(* reader layout, on the observation: for an accepted binary file (own or foreign, OVF 1.0 or 2.0)
   the OBSERVED field has the header's component count and its value at cell (i,j,k), component c,
   is entry ((k*ny+j)*nx+i)*vd+c of the file's data block *)
Theorem accepted_read_layout fl side o :
  check_C09 (CRead fl side (Some o)) = true -> is_binary (f_rep fl) = true ->
  o_nv o = file_vd fl /\
  exists a b c, o_n o = [a; b; c] /\
    let nx := Z.to_nat a in let ny := Z.to_nat b in let nz := Z.to_nat c in
    length (o_vals o) = (nx * (ny * (nz * file_vd fl)))%nat /\
    forall i j k cc, (i < nx)%nat -> (j < ny)%nat -> (k < nz)%nat -> (cc < file_vd fl)%nat ->
      nth (cpos ny nz (file_vd fl) i j k cc) (o_vals o) 0
      == nth (opos nx ny (file_vd fl) i j k cc) (f_payload fl) 0.
Proof.
  intros H Hb. apply check_read_sound in H. destruct H as (mf & Hd & Ha).
  destruct (decode_layout Q 0 rdQ fl side mf Hd) as (Hnv & nx & ny & nz & Hd3 & Hlen & Hnth).
  destruct Ha as [_ _ Hn _ _ Hnv' _ _ Hvals].
  split; [congruence|].
  unfold dims3 in Hd3. rewrite Hn in Hd3.
  destruct (o_n o) as [|a [|b [|c [|? ?]]]]; try discriminate.
  inversion Hd3; subst nx ny nz; clear Hd3.
  exists a, b, c. split; [reflexivity|]. cbv zeta.
  assert (Hv : Forall2 Qeq (of_vals mf) (o_vals o)).
  { unfold vals_agree in Hvals. unfold is_binary in Hb. destruct (f_rep fl); [discriminate| |]; exact Hvals. }
  split.
  - rewrite <- (Forall2_length_gen _ _ _ Hv). exact Hlen.
  - intros i j k cc Hi Hj Hk Hc.
    pose proof (Hnth i j k cc Hi Hj Hk Hc) as E. unfold rdQ in E. rewrite <- E.
    symmetry. apply Forall2_Qeq_nth; [exact Hv|].
    rewrite Hlen. apply cpos_lt; assumption.
Qed.

(* writer header, on the observation (exact regime): the file the implementation wrote is OVF 2.0,
   announces the recorded cell counts and the representation asked for, carries the corners of
   the region and ends with the end-of-data marker *)
Theorem accepted_write_header f rp extend ofl os :
  check_C09 (CWrite true f rp extend (Some (ofl, os))) = true ->
  exists fld, build f = OK fld /\
    f_v2 ofl = true /\ f_nodes ofl = i_n f /\ f_rep ofl = rp /\ f_tail_ok ofl = true /\
    f_valuedim ofl = Some (Z.of_nat (if extend && (i_nv f =? 1)%nat then 3%nat else i_nv f)) /\
    Forall2 Qeq (pmin (reg (of_mesh fld))) (f_min ofl) /\
    Forall2 Qeq (pmax (reg (of_mesh fld))) (f_max ofl) /\
    Forall2 Qeq (cell (of_mesh fld)) (f_step ofl) /\
    opt_rel Qeq (match rp with RTxt => None | _ => Some (check_value rp) end) (f_check ofl).
Proof.
  intro H. apply check_write_sound in H. destruct H as (fld & mf & ms & Hb & He & Ha & _).
  exists fld. split; [exact Hb|].
  destruct (encode_header Q 0 0 wrQ fld rp extend true mf ms He)
    as (H1 & H2 & H3 & H4 & H5 & H6 & H7 & H8 & H9 & H10 & H11).
  destruct (build_inv f fld Hb) as (r & _ & _ & Hn & _ & _ & Hnv & _).
  destruct Ha as [A1 A2 A3 A4 A5 A6 A7 A8 A9 A10 A11 A12 A13 A14 A15].
  repeat split.
  - congruence.
  - congruence.
  - congruence.
  - congruence.
  - rewrite <- A8, H8, Hnv. reflexivity.
  - rewrite <- H5. exact A6.
  - rewrite <- H6. exact A7.
  - rewrite <- H3. exact A5.
  - rewrite H10 in A12. destruct rp; cbn [opt_rel] in *; try exact A12;
      destruct (f_check ofl); try exact A12; cbn [opt_rel] in *;
      rewrite <- A12; symmetry; apply write_check_agrees.
Qed.

(* the composed round trip, on the observation: for a recorded well-formed field saved as bin8
   without scalar extension, the field the implementation READ BACK has exactly the recorded
   values (==), cell counts, mesh units, subregions, unit, and for vector fields the labels *)
Theorem accepted_roundtrip_bin8 f extend o fld :
  check_C09 (CRound f RBin8 extend (Some o)) = true ->
  build f = OK fld -> wf_ofield fld ->
  extend && (i_nv f =? 1)%nat = false ->
  Forall2 Qeq (i_vals f) (o_vals o) /\ o_n o = i_n f /\ o_nv o = i_nv f /\ o_unit o = i_unit f /\
  sidecar_agrees (i_subs f) (o_subs o) /\
  ((2 <= i_nv f)%nat -> o_vdims o = of_vdims fld).
Proof.
  intros H Hb Hwf Hext. apply check_round_sound in H.
  destruct H as (fld' & fl & sc & mf & Hb' & He & Hd & Ha).
  rewrite Hb in Hb'. inversion Hb'; subst fld'; clear Hb'.
  destruct (roundtrip Q 0 0 wrQ rdQ fld RBin8 extend Hwf)
    as (fl2 & sc2 & f2 & He2 & Hd2 & _ & _ & _ & Rn & Rsub & Rnv & Rvd & Run & Rvals).
  rewrite He in He2. inversion He2; subst fl2 sc2; clear He2.
  rewrite Hd in Hd2. inversion Hd2; subst f2; clear Hd2.
  destruct (build_inv f fld Hb) as (r & _ & _ & Hn & _ & _ & Hnv & _ & Hunit & Hvals & Hsub).
  rewrite Hnv in Rnv, Rvd, Rvals. rewrite Hext in Rnv, Rvals.
  destruct Ha as [_ _ An _ Asub Anv Avd Aun Avals].
  repeat split.
  - cbn [vals_agree] in Avals. rewrite Rvals, Hvals in Avals.
    unfold wrQ, rdQ in Avals.
    eapply Forall2_Qeq_trans; [|exact Avals].
    clear. induction (i_vals f); constructor; [reflexivity|assumption].
  - congruence.
  - congruence.
  - congruence.
  - rewrite <- Hsub, <- Rsub. exact Asub.
  - intro H2. rewrite <- Avd. apply Rvd. exact H2.
Qed.

(* side-car contract, on the observation *)
Theorem accepted_sidecar_overwritten old sc obs :
  check_C09 (CSidecar (Some old) true sc obs) = true ->
  exists o, obs = Some o /\ sidecar_agrees sc o.
Proof.
  intro H. apply check_sidecar_sound in H. rewrite sidecar_overwritten in H.
  destruct obs as [o|]; [|contradiction]. exists o. split; [reflexivity|exact H].
Qed.

Theorem accepted_sidecar_untouched sc obs :
  check_C09 (CSidecar None false sc obs) = true -> obs = None.
Proof.
  intro H. apply check_sidecar_sound in H. rewrite sidecar_not_saved in H.
  destruct obs; [contradiction|reflexivity].
Qed.

(* ---------------------------------------------------------------- non-vacuity *)
Definition wit_in : fin :=
  mkFin [0; 0; 0] [2; 1; 1] [2; 1; 1]%Z ["m"; "m"; "m"]%string
        [("s"%string, ([0; 0; 0], [1; 1; 1]))]
        2 (Some ["a"; "b"]%string) (Some "A/m"%string) [1; 2; 3; 4].
Definition wit_obs : fobs :=
  mkFobs [0; 0; 0] [2; 1; 1] [2; 1; 1]%Z ["m"; "m"; "m"]%string
         [("s"%string, ([0; 0; 0], [1; 1; 1]))]
         2 (Some ["a"; "b"]%string) (Some "A/m"%string) [1; 2; 3; 4].

Example accepted_roundtrip_instance : check_C09 (CRound wit_in RBin8 false (Some wit_obs)) = true.
Proof. vm_compute. reflexivity. Qed.

Example accepted_roundtrip_instance_wf : exists fld, build wit_in = OK fld /\ wf_ofield fld.
Proof.
  destruct (build wit_in) as [fld|e] eqn:E; [|vm_compute in E; discriminate].
  exists fld. split; [reflexivity|].
  apply (build_wf_ofield wit_in fld 2 1 1 E); try reflexivity.
  - simpl. lia.
  - intros _. exists ["a"; "b"]%string. split; [reflexivity|]. split; [discriminate|].
    repeat constructor; reflexivity.
  - simpl. repeat split; discriminate.
Qed.

Example accepted_short_instance :
  let fl := mkFile true "m"%string [1#2; 1#2; 1#2] [2; 1; 1]%Z [1; 1; 1] [0; 0; 0] [2; 1; 1]
                   (Some 1%Z) (Some ["field_x"%string]) (Some ["None"%string]) RBin8
                   (Some (check_value RBin8)) [5] 1 true in
  check_C09 (CRead fl None None) = true /\ is_binary (f_rep fl) = true /\
  (length (f_payload fl) < announced fl)%nat.
Proof. vm_compute. repeat split. lia. Qed.

Example accepted_sidecar_instance :
  check_C09 (CSidecar (Some [("old"%string, ([0], [1]))]) true [] (Some [])) = true.
Proof. vm_compute. reflexivity. Qed.
