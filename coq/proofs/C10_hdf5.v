(* C10: proofs about the HDF5 writer / reader model (model/Hdf5.v). *)
From DF Require Import Prelude Region Mesh Hdf5.
Open Scope Q_scope.

(* ---------- integers that binary64 holds ---------- *)
Lemma round_f64_small (z : Z) : (Z.abs z < 2 ^ 53)%Z -> round_f64 z = z.
Proof.
  intro H. unfold round_f64.
  destruct (Z.ltb_spec (Z.abs z) (2 ^ 53)%Z) as [_ | H']; [reflexivity | lia].
Qed.

Lemma round_f64_exact (z : Z) : (Z.abs z <= 2 ^ 53)%Z -> round_f64 z = z.
Proof.
  intro H. destruct (Z.eq_dec (Z.abs z) (2 ^ 53)%Z) as [E | NE].
  - destruct (Z.abs_eq_or_opp z) as [A | A]; rewrite A in E.
    + subst z. vm_compute. reflexivity.
    + assert (z = (- 2 ^ 53)%Z) by lia. subst z. vm_compute. reflexivity.
  - apply round_f64_small. lia.
Qed.

(* ---------- corner ordering ---------- *)
Lemma Qmin_lt (a b : Q) : a < b -> Qmin a b = a.
Proof.
  intro H. unfold Qmin, GenericMinMax.gmin. destruct (a ?= b) eqn:E; try reflexivity.
  apply Qgt_alt in E. exfalso. lra.
Qed.
Arguments Qmin_lt {a b}.

Lemma Qmax_lt (a b : Q) : a < b -> Qmax a b = b.
Proof.
  intro H. unfold Qmax, GenericMinMax.gmax. destruct (a ?= b) eqn:E; try reflexivity.
  - apply Qeq_alt in E. exfalso. lra.
  - apply Qgt_alt in E. exfalso. lra.
Qed.
Arguments Qmax_lt {a b}.

Lemma map2_min_lt (lo hi : list Q) : Forall2 (fun a b => a < b) lo hi -> map2 Qmin lo hi = lo.
Proof. induction 1; simpl; [reflexivity|]. rewrite Qmin_lt by assumption. congruence. Qed.
Arguments map2_min_lt {lo hi}.

Lemma map2_max_lt (lo hi : list Q) : Forall2 (fun a b => a < b) lo hi -> map2 Qmax lo hi = hi.
Proof. induction 1; simpl; [reflexivity|]. rewrite Qmax_lt by assumption. congruence. Qed.
Arguments map2_max_lt {lo hi}.

Lemma forallb2_ltb (lo hi : list Q) : Forall2 (fun a b => a < b) lo hi -> forallb2 Qltb lo hi = true.
Proof.
  induction 1; simpl; [reflexivity|]. rewrite IHForall2, andb_true_r.
  unfold Qltb. apply negb_true_iff. destruct (Qle_bool y x) eqn:E; [|reflexivity].
  apply Qle_bool_iff in E. exfalso. apply (Qlt_not_le _ _ H). exact E.
Qed.
Arguments forallb2_ltb {lo hi}.

Lemma edges_nonzero (lo hi : list Q) :
  Forall2 (fun a b => a < b) lo hi -> existsb (fun e => Qeq_bool e 0) (edges_of lo hi) = false.
Proof.
  unfold edges_of. induction 1; simpl; [reflexivity|]. rewrite IHForall2, orb_false_r.
  destruct (Qeq_bool (y - x) 0) eqn:E; [|reflexivity].
  apply Qeq_bool_iff in E. exfalso. lra.
Qed.
Arguments edges_nonzero {lo hi}.

Lemma Forall2_length' {A B} (P : A -> B -> Prop) l1 l2 : Forall2 P l1 l2 -> length l1 = length l2.
Proof. induction 1; simpl; congruence. Qed.
Arguments Forall2_length' {A B P l1 l2}.

(* Region(p1 = lo, p2 = hi, dims, units, tolerance_factor) on ordered corners *)
Lemma mk_region_ordered (lo hi : list Q) (ds us : option (list string)) (t : Q) :
  Forall2 (fun a b => a < b) lo hi -> (0 < length lo)%nat ->
  match ds with Some d => length d = length lo /\ nodupb d = true | None => True end ->
  match us with Some u => length u = length lo | None => True end ->
  mk_region lo hi ds us t =
  OK (mkRegion lo hi (match ds with Some d => d | None => default_dims (length lo) end)
               (match us with Some u => u | None => repeat "m"%string (length lo) end) t).
Proof.
  intros Hlt Hpos Hd Hu. unfold mk_region.
  rewrite <- (Forall2_length' Hlt), Nat.eqb_refl. simpl negb. cbv iota.
  destruct (length lo =? 0)%nat eqn:E0; [apply Nat.eqb_eq in E0; lia|].
  rewrite (map2_min_lt Hlt), (map2_max_lt Hlt).
  destruct ds as [d|].
  - destruct Hd as [Hd1 Hd2]. rewrite Hd1, Nat.eqb_refl, Hd2. simpl.
    destruct us as [u|]; simpl.
    + rewrite Hu, Nat.eqb_refl. simpl. rewrite (edges_nonzero Hlt). reflexivity.
    + rewrite (edges_nonzero Hlt). reflexivity.
  - simpl. destruct us as [u|]; simpl.
    + rewrite Hu, Nat.eqb_refl. simpl. rewrite (edges_nonzero Hlt). reflexivity.
    + rewrite (edges_nonzero Hlt). reflexivity.
Qed.
Arguments mk_region_ordered {lo hi} ds us t.

(* Region(pmin = lo, pmax = hi, …): the strict-order test passes on ordered corners *)
Lemma mk_region_minmax_ordered (lo hi : list Q) (ds us : option (list string)) (t : Q) :
  Forall2 (fun a b => a < b) lo hi -> (0 < length lo)%nat ->
  match ds with Some d => length d = length lo /\ nodupb d = true | None => True end ->
  match us with Some u => length u = length lo | None => True end ->
  mk_region_minmax lo hi ds us t =
  OK (mkRegion lo hi (match ds with Some d => d | None => default_dims (length lo) end)
               (match us with Some u => u | None => repeat "m"%string (length lo) end) t).
Proof.
  intros Hlt Hpos Hd Hu. unfold mk_region_minmax.
  rewrite (forallb2_ltb Hlt). simpl. apply mk_region_ordered; assumption.
Qed.
Arguments mk_region_minmax_ordered {lo hi} ds us t.

(* … and rejects corners that are not strictly ordered (same length) *)
Lemma mk_region_minmax_unordered (lo hi : list Q) ds us t :
  length lo = length hi -> forallb2 Qltb lo hi = false -> mk_region_minmax lo hi ds us t = Err ValueE.
Proof.
  intros HL HF. unfold mk_region_minmax. rewrite HF, HL, Nat.eqb_refl. reflexivity.
Qed.

(* ---------- the subregion table ---------- *)
Lemma truncQ_inject (z : Z) : truncQ (inject_Z z) = z.
Proof.
  unfold truncQ, inject_Z, Qle_bool, Qceiling, Qfloor, Qopp. simpl.
  destruct (0 <=? z * 1)%Z; rewrite ?Z.div_1_r; lia.
Qed.

Lemma cast_integral (k : ckind) (x : Q) : integral x -> cast k x = x.
Proof. intros [z ->]. destruct k; simpl; [rewrite truncQ_inject|]; reflexivity. Qed.

Lemma cast_float (x : Q) : cast KFloat x = x.
Proof. reflexivity. Qed.

Lemma table_kind_int (ck : ckind) (sk : list ckind) :
  table_kind ck sk = KInt -> ck = KInt /\ Forall (fun k => k = KInt) sk.
Proof.
  unfold table_kind. induction sk as [|k sk IH]; simpl; intro H.
  - split; [assumption | constructor].
  - destruct k; simpl in H.
    + destruct (fold_right kjoin ck sk) eqn:E; [|discriminate].
      destruct (IH eq_refl) as [A B]. split; [assumption | constructor; auto].
    + discriminate.
Qed.

Lemma table_kind_member (ck : ckind) (sk : list ckind) (k : ckind) :
  In k sk -> table_kind ck sk = KInt -> k = KInt.
Proof.
  intros Hin H. destruct (table_kind_int ck sk H) as [_ F].
  rewrite Forall_forall in F. auto.
Qed.

(* the table's dtype holds every corner written into it: nothing is truncated *)
Lemma cast_corners (tk k : ckind) (lo hi : list Q) :
  wf_corners k lo hi -> (tk = KInt -> k = KInt) -> map (cast tk) (lo ++ hi) = lo ++ hi.
Proof.
  intros (_ & _ & Hint) Himp. destruct tk; [|apply map_id].
  destruct (Hint (Himp eq_refl)) as [A B].
  rewrite <- (map_id (lo ++ hi)) at 2. apply map_ext_in. intros x Hx.
  apply cast_integral. apply in_app_or in Hx. rewrite Forall_forall in A, B. destruct Hx; auto.
Qed.
Arguments cast_corners {tk k lo hi}.

Lemma firstn_app_exact {A} (l1 l2 : list A) : firstn (length l1) (l1 ++ l2) = l1.
Proof. rewrite firstn_app, Nat.sub_diag, firstn_all. simpl. apply app_nil_r. Qed.

Lemma skipn_app_exact {A} (l1 l2 : list A) : skipn (length l1) (l1 ++ l2) = l2.
Proof. rewrite skipn_app, Nat.sub_diag, skipn_all. reflexivity. Qed.

Lemma load_sub_row (r : region) (tk k : ckind) (s : string * region) :
  (0 < length (pmin r))%nat -> wf_sub r k s -> (tk = KInt -> k = KInt) ->
  load_sub r (sub_row tk s) = OK (snd s).
Proof.
  intros Hpos (Hlen & Hc & Hd & Hu & Ht) Himp. unfold load_sub, sub_row.
  rewrite (cast_corners Hc Himp). unfold ndim. rewrite <- Hlen.
  rewrite firstn_app_exact, skipn_app_exact.
  destruct Hc as (Hl & Hlt & _).
  rewrite (mk_region_ordered None None default_tf Hlt); [| lia | exact I | exact I].
  simpl. unfold adopt. simpl. rewrite <- Hd, <- Hu, <- Ht. destruct s as [nm [a b c d e]]. reflexivity.
Qed.

Lemma load_rows (r : region) (tk : ckind) (sk : list ckind) (ss : list (string * region)) :
  (0 < length (pmin r))%nat -> Forall2 (wf_sub r) sk ss -> (tk = KInt -> Forall (fun k => k = KInt) sk) ->
  mapM (load_sub r) (map (sub_row tk) ss) = OK (map snd ss).
Proof.
  intros Hpos H. induction H as [|k s sk ss Hw _ IH]; intro Himp; simpl; [reflexivity|].
  rewrite (@load_sub_row r tk k s Hpos Hw).
  - simpl. rewrite IH; [reflexivity|]. intro E. specialize (Himp E). inversion Himp; assumption.
  - intro E. specialize (Himp E). inversion Himp; assumption.
Qed.

Lemma rows_exact (r : region) (tk : ckind) (sk : list ckind) (ss : list (string * region)) :
  Forall2 (wf_sub r) sk ss -> (tk = KInt -> Forall (fun k => k = KInt) sk) ->
  map (sub_row tk) ss = map (fun s => pmin (snd s) ++ pmax (snd s)) ss.
Proof.
  intro H. induction H as [|k s sk ss Hw _ IH]; intro Himp; simpl; [reflexivity|].
  f_equal.
  - unfold sub_row. destruct Hw as (_ & Hc & _). apply (cast_corners Hc).
    intro E. specialize (Himp E). inversion Himp; assumption.
  - apply IH. intro E. specialize (Himp E). inversion Himp; assumption.
Qed.
Arguments rows_exact {r tk sk ss}.

Lemma combine_fst_snd {A B} (l : list (A * B)) : combine (map fst l) (map snd l) = l.
Proof. induction l as [|[a b] l IH]; simpl; congruence. Qed.

(* ---------- small facts about the constructors ---------- *)
Lemma zlist_eqb_refl (l : list Z) : zlist_eqb l l = true.
Proof. unfold zlist_eqb. induction l; simpl; [reflexivity|]. rewrite Z.eqb_refl. assumption. Qed.

Lemma forallb_pos (l : list Z) : Forall (fun k => 0 < k)%Z l -> forallb (fun k => (0 <? k)%Z) l = true.
Proof. induction 1; simpl; [reflexivity|]. rewrite IHForall, andb_true_r. apply Z.ltb_lt. assumption. Qed.
Arguments forallb_pos {l}.

Lemma mk_mesh_n_ok (r : region) (ns : list Z) :
  length ns = length (pmin r) -> Forall (fun k => 0 < k)%Z ns -> mk_mesh_n r ns = OK (mkMesh r ns "" []).
Proof.
  intros HL HP. unfold mk_mesh_n, ndim. rewrite HL, Nat.eqb_refl, (forallb_pos HP). reflexivity.
Qed.

(* the labels the reader hands to the constructor: the stored list, or [] for the marker *)
Definition attr_vdims (vd : option (list string)) : option (list string) :=
  match vd with None => Some [] | Some l => Some l end.

Lemma set_vdims_wf (nv : Z) (vd : option (list string)) :
  match vd with
  | None => True
  | Some l => l <> [] /\ Z.of_nat (length l) = nv /\ nodupb l = true
  end -> set_vdims nv (attr_vdims vd) = OK vd.
Proof.
  destruct vd as [l|]; simpl; [|reflexivity].
  intros (Hne & Hl & Hd). destruct l as [|a l]; [congruence|].
  rewrite Hl, Z.eqb_refl, Hd. reflexivity.
Qed.

(* ---------- the round trip ---------- *)
Section Roundtrip.
  Context {V : Type} (conv : V -> V).

  Theorem roundtrip (f : fstate V) :
    wf_field f -> f_unit f <> Some none_marker ->
    decode conv (NewFile (encode f)) = OK (canon f).
  Proof.
    intros (Hc & Hpos & Hdl & Hdd & Hul & Hnl & Hnp & Hsubs & Hnv & Hvd) Hunit.
    destruct f as [ck m sk nv vd un dk vals valid]. simpl in *.
    destruct m as [r ns b ss]. simpl in *.
    destruct r as [lo hi ds us t]. simpl in *.
    destruct Hc as (Hl & Hlt & Hint).
    unfold decode, decode_new, encode. simpl.
    (* vdims / unit attributes *)
    assert (Hvattr :
      match (match vd with None => AStr none_marker | Some l => AStrs l end) with
      | AStr s => if String.eqb s none_marker then OK (Some []) else Err TypeE
      | AStrs l => OK (Some l)
      end = OK (attr_vdims vd)) by (destruct vd; reflexivity).
    rewrite Hvattr. simpl.
    assert (Huattr :
      (if String.eqb (match un with None => none_marker | Some u => u end) none_marker
       then None else Some (match un with None => none_marker | Some u => u end)) = un).
    { destruct un as [u|]; [|reflexivity].
      destruct (String.eqb u none_marker) eqn:E; [|reflexivity].
      apply String.eqb_eq in E. subst u. congruence. }
    rewrite Huattr.
    (* region *)
    unfold load_region. simpl.
    rewrite (mk_region_minmax_ordered (Some ds) (Some us) t Hlt Hpos (conj Hdl Hdd) Hul). simpl.
    set (r := mkRegion lo hi ds us t).
    set (tk := table_kind ck sk).
    (* subregions *)
    assert (Hsb : load_subs r (match ss with
                               | [] => None
                               | _ => Some (map fst ss, (tk, map (sub_row tk) ss))
                               end) = OK (ss, repeat tk (length ss))).
    { destruct ss as [|s0 ss0]; [reflexivity|].
      unfold load_subs.
      rewrite (@load_rows r tk sk (s0 :: ss0) Hpos Hsubs).
      - simpl bind. rewrite combine_fst_snd. destruct s0. reflexivity.
      - intro E. apply (table_kind_int ck sk E). }
    rewrite Hsb. simpl.
    rewrite (mk_mesh_n_ok r ns Hnl Hnp). simpl.
    (* field *)
    unfold mk_field. simpl.
    assert (H1 : (1 <=? nv)%Z = true) by (apply Z.leb_le; assumption).
    rewrite H1. simpl. rewrite !zlist_eqb_refl. simpl.
    assert (Hvd' : match vd with
                   | None => True
                   | Some l => l <> [] /\ Z.of_nat (length l) = nv /\ nodupb l = true
                   end) by (destruct vd; [assumption | exact I]).
    rewrite (set_vdims_wf nv vd Hvd'). simpl.
    (* vdim_mapping setter *)
    assert (Hmap : match vd with
                   | None => negb (nv =? 1)%Z && (nv =? Z.of_nat (ndim r))%Z
                   | Some _ => false
                   end = false).
    { destruct vd as [l|]; [reflexivity|]. unfold ndim, r. simpl.
      destruct Hvd as [E | NE].
      - subst nv. reflexivity.
      - apply Z.eqb_neq in NE. rewrite NE. apply andb_false_r. }
    rewrite Hmap. unfold canon. simpl. reflexivity.
  Qed.

  (* what [canon] keeps: everything the property lists, including the payload and its dtype kind *)
  Lemma canon_keeps (f : fstate V) :
    let g := canon f in
    f_ck g = f_ck f /\ f_mesh g = f_mesh f /\ f_nvdim g = f_nvdim f /\ f_vdims g = f_vdims f /\
    f_unit g = f_unit f /\ f_vals g = f_vals f /\ f_valid g = f_valid f /\ f_dk g = f_dk f.
  Proof. simpl. repeat split. Qed.

  Theorem roundtrip_state (f : fstate V) :
    wf_field f -> f_unit f <> Some none_marker ->
    exists g, decode conv (NewFile (encode f)) = OK g /\
      f_ck g = f_ck f /\ f_mesh g = f_mesh f /\ f_nvdim g = f_nvdim f /\ f_vdims g = f_vdims f /\
      f_unit g = f_unit f /\ f_vals g = f_vals f /\ f_valid g = f_valid f /\ f_dk g = f_dk f.
  Proof.
    intros Hwf Hu. exists (canon f). split; [apply roundtrip; assumption|]. apply canon_keeps.
  Qed.

  (* the numbers in the written table are the subregion corners themselves *)
  Theorem table_exact (f : fstate V) :
    wf_field f -> subs (f_mesh f) <> [] ->
    h_subs (encode f) =
    Some (map fst (subs (f_mesh f)),
          (table_kind (f_ck f) (f_subk f),
           map (fun s => pmin (snd s) ++ pmax (snd s)) (subs (f_mesh f)))).
  Proof.
    intros (_ & _ & _ & _ & _ & _ & _ & Hsubs & _) Hne. unfold encode. simpl.
    assert (Himp : table_kind (f_ck f) (f_subk f) = KInt -> Forall (fun k => k = KInt) (f_subk f))
      by (intro E'; apply (table_kind_int _ _ E')).
    rewrite (rows_exact Hsubs Himp).
    destruct (subs (f_mesh f)); [congruence | reflexivity].
  Qed.
End Roundtrip.

(* ---------- legacy layout ---------- *)
Lemma Qmin_max_distinct (a b : Q) : ~ a == b -> Qmin a b < Qmax a b.
Proof.
  intro H. unfold Qmin, Qmax, GenericMinMax.gmin, GenericMinMax.gmax.
  destruct (a ?= b) eqn:E.
  - apply Qeq_alt in E. contradiction.
  - apply Qlt_alt in E. assumption.
  - apply Qgt_alt in E. assumption.
Qed.

Lemma minmax_ordered (p1 p2 : list Q) :
  Forall2 (fun a b => ~ a == b) p1 p2 -> Forall2 (fun a b => a < b) (map2 Qmin p1 p2) (map2 Qmax p1 p2).
Proof. induction 1; simpl; constructor; auto using Qmin_max_distinct. Qed.

Lemma Qmin_idem_lt (a b : Q) : a < b -> Qmin (Qmin a b) (Qmax a b) = Qmin a b /\ Qmax (Qmin a b) (Qmax a b) = Qmax a b.
Proof. intro H. rewrite (Qmin_lt H), (Qmax_lt H), (Qmin_lt H), (Qmax_lt H). split; reflexivity. Qed.

Lemma map2_length_eq {A B C} (g : A -> B -> C) l1 l2 : length l1 = length l2 -> length (map2 g l1 l2) = length l1.
Proof. revert l2. induction l1; destruct l2; simpl; intros; try discriminate; auto. Qed.

Lemma edges_nonzero_minmax (p1 p2 : list Q) :
  Forall2 (fun a b => ~ a == b) p1 p2 ->
  existsb (fun e => Qeq_bool e 0) (edges_of (map2 Qmin p1 p2) (map2 Qmax p1 p2)) = false.
Proof. intro H. apply edges_nonzero. apply minmax_ordered. assumption. Qed.
Arguments edges_nonzero_minmax {p1 p2}.

(* Region(p1, p2) with the corners in any order *)
Lemma mk_region_any_order (p1 p2 : list Q) (t : Q) :
  Forall2 (fun a b => ~ a == b) p1 p2 -> (0 < length p1)%nat ->
  mk_region p1 p2 None None t =
  OK (mkRegion (map2 Qmin p1 p2) (map2 Qmax p1 p2) (default_dims (length p1))
               (repeat "m"%string (length p1)) t).
Proof.
  intros H Hpos. unfold mk_region.
  rewrite <- (Forall2_length' H), Nat.eqb_refl. simpl negb. cbv iota.
  destruct (length p1 =? 0)%nat eqn:E0; [apply Nat.eqb_eq in E0; lia|].
  simpl. rewrite (edges_nonzero_minmax H). reflexivity.
Qed.
Arguments mk_region_any_order {p1 p2} t.

Definition wf_side (nd : nat) (s : side_region) : Prop :=
  Forall2 (fun a b => a < b) (sd_pmin s) (sd_pmax s) /\ length (sd_pmin s) = nd /\
  length (sd_dims s) = nd /\ nodupb (sd_dims s) = true /\ length (sd_units s) = nd.

Lemma load_side_ok (r : region) (s : side_region) :
  (0 < length (pmin r))%nat -> wf_side (length (pmin r)) s ->
  load_side r s = OK (sd_name s, mkRegion (sd_pmin s) (sd_pmax s) (dims r) (units r) (tf r)).
Proof.
  intros Hpos (Hlt & Hl & Hd & Hdd & Hu). unfold load_side.
  rewrite (mk_region_minmax_ordered (Some (sd_dims s)) (Some (sd_units s)) (sd_tf s) Hlt);
    [reflexivity | lia | split; [congruence | assumption] | congruence].
Qed.

Lemma load_sides_ok (r : region) (items : list side_region) :
  (0 < length (pmin r))%nat -> Forall (wf_side (length (pmin r))) items ->
  mapM (load_side r) items =
  OK (map (fun s => (sd_name s, mkRegion (sd_pmin s) (sd_pmax s) (dims r) (units r) (tf r))) items).
Proof.
  intros Hpos H. induction H as [|s items Hs _ IH]; simpl; [reflexivity|].
  rewrite (load_side_ok r s Hpos Hs). simpl. rewrite IH. reflexivity.
Qed.

Definition legacy_region (l_p1 l_p2 : list Q) : region :=
  mkRegion (map2 Qmin l_p1 l_p2) (map2 Qmax l_p1 l_p2) (default_dims (length l_p1))
           (repeat "m"%string (length l_p1)) default_tf.

Definition legacy_subs (r : region) (side : option (list side_region)) : list (string * region) :=
  match side with
  | None => []
  | Some items => map (fun s => (sd_name s, mkRegion (sd_pmin s) (sd_pmax s) (dims r) (units r) (tf r))) items
  end.

Theorem legacy_read {V} (conv : V -> V) (l : h5legacy V) :
  Forall2 (fun a b => ~ a == b) (l_p1 l) (l_p2 l) -> (0 < length (l_p1 l))%nat ->
  length (l_n l) = length (l_p1 l) -> Forall (fun k => 0 < k)%Z (l_n l) ->
  (1 <= l_dim l)%Z -> l_shape l = l_n l ++ [l_dim l] ->
  match l_side l with None => True | Some items => Forall (wf_side (length (l_p1 l))) items end ->
  let r := legacy_region (l_p1 l) (l_p2 l) in
  decode conv (LegacyFile l) =
  OK (mkF (kjoin (l_ck1 l) (l_ck2 l))
          (mkMesh r (l_n l) "" (legacy_subs r (l_side l)))
          (match l_side l with None => [] | Some items => map sd_ck items end)
          (l_dim l) (default_vdims (l_dim l)) None (conv_dk (l_dk l))
          (conv_vals conv (l_dk l) (l_arr l))
          (repeat true (Z.to_nat (zprod (l_n l))))).
Proof.
  intros Hne Hpos Hnl Hnp Hdim Hshape Hside r. subst r.
  unfold decode, decode_legacy, legacy_region.
  rewrite (mk_region_any_order default_tf Hne Hpos). simpl bind.
  set (r := mkRegion (map2 Qmin (l_p1 l) (l_p2 l)) _ _ _ _).
  assert (Hrl : length (pmin r) = length (l_p1 l)).
  { unfold r. simpl. apply map2_length_eq. apply (Forall2_length' Hne). }
  rewrite (mk_mesh_n_ok r (l_n l)) by (rewrite ?Hrl; assumption). simpl bind.
  assert (Hss : match l_side l with None => OK [] | Some items => mapM (load_side r) items end
                = OK (legacy_subs r (l_side l))).
  { destruct (l_side l) as [items|]; [|reflexivity].
    simpl. apply load_sides_ok; rewrite Hrl; assumption. }
  rewrite Hss. simpl bind.
  unfold mk_field. simpl.
  assert (H1 : (1 <=? l_dim l)%Z = true) by (apply Z.leb_le; assumption).
  rewrite H1, Hshape, !zlist_eqb_refl. simpl.
  (* default labels exist for every vector field, so the vdim_mapping test passes *)
  assert (Hmap : match default_vdims (l_dim l) with
                 | None => negb (l_dim l =? 1)%Z && (l_dim l =? Z.of_nat (ndim r))%Z
                 | Some _ => false
                 end = false).
  { unfold default_vdims. destruct (l_dim l =? 1)%Z eqn:E1; [reflexivity|].
    destruct (l_dim l <=? 3)%Z; reflexivity. }
  rewrite Hmap. reflexivity.
Qed.

(* ---------- the limits of the format, as witnesses on the model ---------- *)
Definition unit_mesh : mesh := mkMesh (mkRegion [0] [1] ["x"%string] ["m"%string] default_tf) [1%Z] "" [].

(* (a) a unit whose text is the marker itself *)
Definition w_marker : fstate Z :=
  mkF KInt unit_mesh [] 1%Z None (Some none_marker) DFloat [0%Z] [true].

(* (b) an integer payload beyond 2^53 (kept exactly since commit 66ed56c8) *)
Definition w_bigint : fstate Z :=
  mkF KInt unit_mesh [] 1%Z None None DInt [(2 ^ 53 + 1)%Z] [true].

(* (c) a 3-vector on a 1-d mesh without labels (stays unlabelled since commit 8f3270c2) *)
Definition w_nolabels : fstate Z :=
  mkF KInt unit_mesh [] 3%Z None None DFloat [0%Z; 0%Z; 0%Z] [true].

Lemma unit_mesh_wf_parts :
  wf_corners KInt [0] [1] /\ Forall2 (wf_sub (reg unit_mesh)) [] (subs unit_mesh).
Proof.
  split; [|constructor]. split; [reflexivity|]. split.
  - constructor; [reflexivity | constructor].
  - intros _. split; constructor; try constructor; [exists 0%Z | exists 1%Z]; reflexivity.
Qed.

Lemma w_marker_wf : wf_field w_marker.
Proof.
  destruct unit_mesh_wf_parts as [A B]. unfold wf_field. simpl.
  repeat split; auto; try lia; try (constructor; [lia | constructor]); try apply A; try reflexivity.
Qed.

Lemma w_bigint_wf : wf_field w_bigint.
Proof.
  destruct unit_mesh_wf_parts as [A B]. unfold wf_field. simpl.
  repeat split; auto; try lia; try (constructor; [lia | constructor]); try apply A; try reflexivity.
Qed.

Lemma marker_refuted :
  exists f : fstate Z, wf_field f /\
    exists g, decode round_f64 (NewFile (encode f)) = OK g /\ f_unit g <> f_unit f.
Proof.
  exists w_marker. split; [apply w_marker_wf|].
  eexists. split; [vm_compute; reflexivity|]. simpl. discriminate.
Qed.

Lemma w_nolabels_wf : wf_field w_nolabels.
Proof.
  destruct unit_mesh_wf_parts as [A B]. unfold wf_field. simpl.
  repeat split; auto; try lia; try (constructor; [lia | constructor]); try apply A; try reflexivity.
Qed.

(* the two former limits now hold (instances of [roundtrip], evaluated) *)
Lemma bigint_kept :
  wf_field w_bigint /\ decode round_f64 (NewFile (encode w_bigint)) = OK w_bigint /\
  round_f64 (2 ^ 53 + 1) <> (2 ^ 53 + 1)%Z.
Proof. split; [apply w_bigint_wf|]. split; vm_compute; [reflexivity | discriminate]. Qed.

Lemma nolabels_kept :
  wf_field w_nolabels /\ f_vdims w_nolabels = None /\ f_nvdim w_nolabels = 3%Z /\
  decode round_f64 (NewFile (encode w_nolabels)) = OK w_nolabels.
Proof. split; [apply w_nolabels_wf|]. repeat split. Qed.

(* a table typed after the region corners alone (the layout before commit 04fe8f0c) would
   truncate a fractional corner: the reason [table_kind] joins over all corners *)
Lemma region_typed_table_truncates : cast KInt (1 # 2) == 0 /\ ~ cast KInt (1 # 2) == (1 # 2).
Proof. split; vm_compute; [reflexivity | discriminate]. Qed.

(* non-vacuity: a well-formed field with an integer-typed region, one integer-cornered and one
   fractional subregion, labels, a unit, complex data *)
Definition w_rich : fstate Z :=
  let r := mkRegion [0; 0] [2; 1] ["a"; "b"]%string ["nm"; "m"]%string (1 # 1000) in
  mkF KInt
      (mkMesh r [4%Z; 1%Z] "a"
         [("s1"%string, mkRegion [0; 0] [1; 1] ["a"; "b"]%string ["nm"; "m"]%string (1 # 1000));
          ("s2"%string, mkRegion [1 # 2; 0] [3 # 2; 1] ["a"; "b"]%string ["nm"; "m"]%string (1 # 1000))])
      [KInt; KFloat] 2%Z (Some ["p"; "q"]%string) (Some "T"%string) DComplex
      [1; 2; 3; 4; 5; 6; 7; 8]%Z [true; false; true; true].

Lemma w_rich_wf : wf_field w_rich.
Proof.
  unfold wf_field, w_rich. simpl.
  assert (I0 : integral 0) by (exists 0%Z; reflexivity).
  assert (I1 : integral 1) by (exists 1%Z; reflexivity).
  assert (I2 : integral 2) by (exists 2%Z; reflexivity).
  repeat split; simpl; auto; try lia; try discriminate;
    repeat (constructor; try reflexivity; try lia; auto);
    unfold wf_sub, wf_corners; simpl;
    repeat split; auto; try discriminate;
    repeat (constructor; try reflexivity; auto).
Qed.

Lemma w_rich_nonvacuous :
  wf_field w_rich /\ f_unit w_rich <> Some none_marker /\ f_ck w_rich = KInt /\
  f_subk w_rich = [KInt; KFloat] /\ f_dk w_rich = DComplex.
Proof. split; [apply w_rich_wf|]. split; [discriminate|]. repeat split. Qed.

(* the file determines the state: two well-formed fields that produce the same file agree on
   everything [canon] keeps, i.e. on everything the property lists *)
Lemma encode_injective {V} (conv : V -> V) (f1 f2 : fstate V) :
  wf_field f1 -> wf_field f2 -> f_unit f1 <> Some none_marker -> f_unit f2 <> Some none_marker ->
  encode f1 = encode f2 -> canon f1 = canon f2.
Proof.
  intros W1 W2 U1 U2 E.
  pose proof (roundtrip conv f1 W1 U1) as R1. pose proof (roundtrip conv f2 W2 U2) as R2.
  rewrite E in R1. congruence.
Qed.

(* files of another type / another layout version are refused *)
Lemma decode_refuses_type {V} (conv : V -> V) (h : h5new V) :
  h_type h <> file_type -> decode conv (NewFile h) = Err ValueE.
Proof.
  intro H. unfold decode, decode_new. apply String.eqb_neq in H. rewrite H. reflexivity.
Qed.

Lemma decode_refuses_version {V} (conv : V -> V) (h : h5new V) :
  h_type h = file_type -> h_version h <> file_version -> decode conv (NewFile h) = Err RuntimeE.
Proof.
  intros T H. unfold decode, decode_new. rewrite T, String.eqb_refl.
  apply String.eqb_neq in H. rewrite H. reflexivity.
Qed.

(* ---------- stability: what the reader returns is a fixed point of write-then-read ---------- *)
Lemma table_kind_repeat (ck : ckind) (sk : list ckind) :
  table_kind ck (repeat (table_kind ck sk) (length sk)) = table_kind ck sk.
Proof.
  destruct (table_kind ck sk) eqn:E.
  - destruct (table_kind_int ck sk E) as [-> _]. unfold table_kind.
    induction (length sk); simpl; [reflexivity|]. rewrite IHn. reflexivity.
  - destruct sk as [|k sk]; simpl in *; [assumption|]. unfold table_kind. simpl. reflexivity.
Qed.

Lemma wf_sub_weaken (r : region) (k tk : ckind) (s : string * region) :
  wf_sub r k s -> (tk = KInt -> k = KInt) -> wf_sub r tk s.
Proof.
  intros (A & (B1 & B2 & B3) & C) Himp. split; [assumption|]. split; [|assumption].
  split; [assumption|]. split; [assumption|]. intro E. apply B3. apply Himp. assumption.
Qed.

Lemma wf_subs_repeat (r : region) (tk : ckind) (sk : list ckind) (ss : list (string * region)) :
  Forall2 (wf_sub r) sk ss -> (tk = KInt -> Forall (fun k => k = KInt) sk) ->
  Forall2 (wf_sub r) (repeat tk (length ss)) ss.
Proof.
  intro H. induction H as [|k s sk ss Hw _ IH]; intro Himp; simpl; constructor.
  - apply (wf_sub_weaken r k tk s Hw). intro E. specialize (Himp E). inversion Himp; assumption.
  - apply IH. intro E. specialize (Himp E). inversion Himp; assumption.
Qed.

Lemma canon_wf {V} (f : fstate V) : wf_field f -> wf_field (canon f).
Proof.
  intros (A & B & C & D & E & F & G & H & I & J). unfold wf_field, canon. simpl.
  repeat (split; [assumption|]). split; [|split; assumption].
  apply (wf_subs_repeat _ _ _ _ H). intro E'. apply (table_kind_int _ _ E').
Qed.

Lemma canon_idempotent {V} (f : fstate V) :
  Forall2 (wf_sub (reg (f_mesh f))) (f_subk f) (subs (f_mesh f)) ->
  canon (canon f) = canon f.
Proof.
  intro H. unfold canon. simpl.
  rewrite <- (Forall2_length' H). rewrite table_kind_repeat. reflexivity.
Qed.

(* reading the file written from a read-back field returns that field again, exactly *)
Theorem second_generation {V} (conv : V -> V) (f : fstate V) :
  wf_field f -> f_unit f <> Some none_marker ->
  decode conv (NewFile (encode (canon f))) = OK (canon f).
Proof.
  intros W U. rewrite (roundtrip conv (canon f) (canon_wf f W) U).
  f_equal. apply canon_idempotent. destruct W as (_ & _ & _ & _ & _ & _ & _ & H & _). exact H.
Qed.

(* ---------- soundness of the decidable well-formedness test ---------- *)
Lemma is_int_sound (x : Q) : is_int x = true -> integral x.
Proof.
  destruct x as [a d]. unfold is_int. intro H. apply Pos.eqb_eq in H. simpl in H. subst d.
  exists a. reflexivity.
Qed.

Lemma forallb_is_int (l : list Q) : forallb is_int l = true -> Forall integral l.
Proof.
  induction l; simpl; intro H; constructor; apply andb_true_iff in H; destruct H;
    auto using is_int_sound.
Qed.

Lemma forallb2_ltb_sound (lo hi : list Q) : forallb2 Qltb lo hi = true -> Forall2 (fun a b => a < b) lo hi.
Proof.
  revert hi. induction lo as [|a lo IH]; destruct hi as [|b hi]; simpl; intro H; try discriminate; constructor.
  - apply andb_true_iff in H. destruct H as [H _]. unfold Qltb in H. apply negb_true_iff in H.
    apply Qnot_le_lt. intro L. apply Qle_bool_iff in L. congruence.
  - apply IH. apply andb_true_iff in H. tauto.
Qed.

Lemma strlist_eqb_sound (a b : list string) : strlist_eqb a b = true -> a = b.
Proof.
  unfold strlist_eqb. revert b. induction a as [|x a IH]; destruct b as [|y b]; simpl; intro H;
    try discriminate; [reflexivity|].
  apply andb_true_iff in H. destruct H as [H1 H2]. apply String.eqb_eq in H1. f_equal; auto.
Qed.

Lemma Qsame_sound (a b : Q) : Qsame a b = true -> a = b.
Proof.
  destruct a, b. unfold Qsame. simpl. intro H. apply andb_true_iff in H. destruct H as [H1 H2].
  apply Z.eqb_eq in H1. apply Pos.eqb_eq in H2. congruence.
Qed.

Lemma wf_cornersb_sound (k : ckind) (lo hi : list Q) : wf_cornersb k lo hi = true -> wf_corners k lo hi.
Proof.
  unfold wf_cornersb, wf_corners. intro H.
  apply andb_true_iff in H. destruct H as [H H3]. apply andb_true_iff in H. destruct H as [H1 H2].
  split; [apply Nat.eqb_eq; assumption|]. split; [apply forallb2_ltb_sound; assumption|].
  intro E. subst k. apply andb_true_iff in H3. destruct H3. split; apply forallb_is_int; assumption.
Qed.

Lemma wf_subb_sound (r : region) (k : ckind) (s : string * region) : wf_subb r k s = true -> wf_sub r k s.
Proof.
  unfold wf_subb, wf_sub. intro H.
  repeat (let X := fresh "X" in apply andb_true_iff in H; destruct H as [H X]).
  split; [apply Nat.eqb_eq; assumption|]. split; [apply wf_cornersb_sound; assumption|].
  split; [apply strlist_eqb_sound; assumption|]. split; [apply strlist_eqb_sound; assumption|].
  apply Qsame_sound; assumption.
Qed.

Lemma forallb2_Forall2 {A B} (p : A -> B -> bool) (P : A -> B -> Prop) :
  (forall a b, p a b = true -> P a b) -> forall l1 l2, forallb2 p l1 l2 = true -> Forall2 P l1 l2.
Proof.
  intros Hp. induction l1 as [|a l1 IH]; destruct l2 as [|b l2]; simpl; intro H; try discriminate;
    constructor; apply andb_true_iff in H; destruct H; auto.
Qed.

Lemma forallb_pos_sound (l : list Z) : forallb (fun k => (0 <? k)%Z) l = true -> Forall (fun k => 0 < k)%Z l.
Proof.
  induction l; simpl; intro H; constructor; apply andb_true_iff in H; destruct H; auto.
  apply Z.ltb_lt. assumption.
Qed.

Theorem wf_fieldb_sound {V} (f : fstate V) : wf_fieldb f = true -> wf_field f.
Proof.
  unfold wf_fieldb, wf_field. intro H.
  repeat (let X := fresh "X" in apply andb_true_iff in H; destruct H as [H X]).
  split.
  { split; [apply Nat.eqb_eq; exact H|]. split; [apply forallb2_ltb_sound; exact X9|].
    intro E. rewrite E in X8. apply andb_true_iff in X8. destruct X8.
    split; apply forallb_is_int; assumption. }
  split; [apply (proj1 (Nat.ltb_lt _ _)); assumption|].
  split; [apply Nat.eqb_eq; assumption|]. split; [assumption|].
  split; [apply Nat.eqb_eq; assumption|]. split; [apply Nat.eqb_eq; assumption|].
  split; [apply forallb_pos_sound; assumption|].
  split; [apply (forallb2_Forall2 _ _ (wf_subb_sound (reg (f_mesh f)))); assumption|].
  split; [apply Z.leb_le; assumption|].
  destruct (f_vdims f) as [l|].
  - repeat (let Y := fresh "Y" in apply andb_true_iff in X; destruct X as [X Y]).
    split; [|split; [apply Z.eqb_eq; assumption | assumption]].
    intro E. subst l. discriminate.
  - apply orb_true_iff in X. destruct X as [X | X]; [left; apply Z.eqb_eq; assumption|].
    right. apply negb_true_iff in X. apply Z.eqb_neq. assumption.
Qed.
