(* C10: lemmas about the HDF5 writer / reader model. *)
From DF Require Import Prelude Region Mesh Hdf5.
Open Scope Q_scope.

Lemma round_f64_small (z : Z) : (Z.abs z < 2 ^ 53)%Z -> round_f64 z = z.
Proof.
  intro H. unfold round_f64.
  destruct (Z.ltb_spec (Z.abs z) (2 ^ 53)%Z) as [_ | H']; [reflexivity | lia].
Qed.
