(* C10: soundness of check_C10 - an accepted case certifies that (1) the file the implementation
   wrote is the model writer's file, (2) the state the implementation read back is the model
   reader's state of that file, (3) for an in-domain case the recorded field is well-formed, its
   unit is not the marker text, and the read-back state is [canon f]; so the C10 theorems apply to
   the OBSERVED file and the OBSERVED read-back state themselves.

   "Is" means the relation the checker's comparisons decide, spelled out below as Props:
   Leibniz equality on every attribute except (a) rational numbers, compared by value (Qeq),
   (b) the int/float tag of SUBREGION corners (f_subk / the table's kind), not compared,
   (c) the data kind, compared only as real versus complex.  (b) and (c) are the two places where
   an accepted observation is coarser than the model's value. *)
From DF Require Import Prelude Region Mesh Hdf5 CheckSound Check_C10 C10_hdf5.
Open Scope Q_scope.

Ltac split_andb :=
  repeat match goal with
         | H : _ && _ = true |- _ => apply andb_true_iff in H; destruct H
         end.

(* ---------- the relations the comparisons decide ---------- *)
Definition region_sim (r s : region) : Prop :=
  Forall2 Qeq (pmin r) (pmin s) /\ Forall2 Qeq (pmax r) (pmax s) /\
  dims r = dims s /\ units r = units s /\ tf r == tf s.

Definition sub_sim (a b : string * region) : Prop := fst a = fst b /\ region_sim (snd a) (snd b).

Definition mesh_sim (a b : mesh) : Prop :=
  region_sim (reg a) (reg b) /\ n a = n b /\ bc a = bc b /\ Forall2 sub_sim (subs a) (subs b).

Definition fstate_sim (a b : fstate cval) : Prop :=
  f_ck a = f_ck b /\ mesh_sim (f_mesh a) (f_mesh b) /\ f_nvdim a = f_nvdim b /\
  f_vdims a = f_vdims b /\ f_unit a = f_unit b /\ is_complex (f_dk a) = is_complex (f_dk b) /\
  f_vals a = f_vals b /\ f_valid a = f_valid b.

Definition h5reg_sim (a b : h5reg) : Prop :=
  hr_ck a = hr_ck b /\ Forall2 Qeq (hr_pmin a) (hr_pmin b) /\ Forall2 Qeq (hr_pmax a) (hr_pmax b) /\
  hr_dims a = hr_dims b /\ hr_ndim a = hr_ndim b /\ hr_units a = hr_units b /\ hr_tf a == hr_tf b.

Definition table_sim (a b : option (list string * (ckind * list (list Q)))) : Prop :=
  match a, b with
  | Some x, Some y => fst x = fst y /\ Forall2 (Forall2 Qeq) (snd (snd x)) (snd (snd y))
  | None, None => True
  | _, _ => False
  end.

Definition h5new_sim (a b : h5new cval) : Prop :=
  h_type a = h_type b /\ h_version a = h_version b /\ h5reg_sim (h_reg a) (h_reg b) /\
  h_n a = h_n b /\ h_bc a = h_bc b /\ table_sim (h_subs a) (h_subs b) /\
  h_nvdim a = h_nvdim b /\ h_vdims a = h_vdims b /\ h_unit a = h_unit b /\
  is_complex (h_dk a) = is_complex (h_dk b) /\ h_shape a = h_shape b /\ h_arr a = h_arr b /\
  h_vshape a = h_vshape b /\ h_valid a = h_valid b.

(* model result against observation: both a state (related), or the model fails and the
   implementation raised *)
Definition back_rel (model : res (fstate cval)) (obs : option (fstate cval)) : Prop :=
  match model, obs with
  | OK a, Some b => fstate_sim a b
  | Err _, None => True
  | _, _ => False
  end.

(* ---------- soundness of the comparisons ---------- *)
Lemma num_eqb_sound (a b : num) : num_eqb a b = true -> a = b.
Proof.
  destruct a as [s m e|s|], b as [t m' e'|t|]; simpl; intro H; try discriminate; try reflexivity.
  - split_andb.
    match goal with Hs : Bool.eqb _ _ = true |- _ => apply Bool.eqb_prop in Hs end.
    repeat match goal with Hz : (_ =? _)%Z = true |- _ => apply Z.eqb_eq in Hz end.
    subst. reflexivity.
  - apply Bool.eqb_prop in H. subst. reflexivity.
Qed.

Lemma cval_eqb_sound (a b : cval) : cval_eqb a b = true -> a = b.
Proof.
  destruct a as [a1 a2], b as [b1 b2]. unfold cval_eqb. simpl. intro H. split_andb.
  f_equal; apply num_eqb_sound; assumption.
Qed.

Lemma cvals_eqb_sound (l1 l2 : list cval) : forallb2 cval_eqb l1 l2 = true -> l1 = l2.
Proof. intro H. apply Forall2_eq_gen. revert H. apply forallb2_Forall2_gen. exact cval_eqb_sound. Qed.

Lemma opt_eqb_sound {A} (eqb : A -> A -> bool) :
  (forall x y, eqb x y = true -> x = y) -> forall a b, opt_eqb eqb a b = true -> a = b.
Proof.
  intros Hs [x|] [y|]; simpl; intro H; try discriminate; [|reflexivity].
  f_equal. apply Hs. exact H.
Qed.

Lemma ckind_eqb_sound (a b : ckind) : ckind_eqb a b = true -> a = b.
Proof. destruct a, b; simpl; intro H; try discriminate; reflexivity. Qed.

Lemma region_full_eqb_sound (r s : region) : region_full_eqb r s = true -> region_sim r s.
Proof.
  unfold region_full_eqb, region_sim. intro H. split_andb.
  repeat split.
  - apply qlist_eqb_sound_gen; assumption.
  - apply qlist_eqb_sound_gen; assumption.
  - apply strlist_eqb_sound_gen; assumption.
  - apply strlist_eqb_sound_gen; assumption.
  - apply Qeq_bool_eq; assumption.
Qed.

Lemma sub_eqb_sound (a b : string * region) : sub_eqb a b = true -> sub_sim a b.
Proof.
  unfold sub_eqb, sub_sim. intro H. split_andb. split.
  - apply String.eqb_eq; assumption.
  - apply region_full_eqb_sound; assumption.
Qed.

Lemma mesh_eqb_sound (a b : mesh) : mesh_eqb a b = true -> mesh_sim a b.
Proof.
  unfold mesh_eqb, mesh_sim. intro H. split_andb.
  split; [apply region_full_eqb_sound; assumption|].
  split; [apply zlist_eqb_sound_gen; assumption|].
  split; [apply String.eqb_eq; assumption|].
  match goal with Hf : forallb2 sub_eqb _ _ = true |- _ =>
    revert Hf; apply forallb2_Forall2_gen; exact sub_eqb_sound end.
Qed.

Lemma fstate_eqb_sound (a b : fstate cval) : fstate_eqb a b = true -> fstate_sim a b.
Proof.
  unfold fstate_eqb, fstate_sim. intro H. split_andb.
  split; [apply ckind_eqb_sound; assumption|].
  split; [apply mesh_eqb_sound; assumption|].
  split; [apply Z.eqb_eq; assumption|].
  split; [eapply opt_eqb_sound; [exact strlist_eqb_sound_gen | eassumption]|].
  split; [eapply opt_eqb_sound; [|eassumption]; intros x y; apply String.eqb_eq|].
  split; [apply Bool.eqb_prop; assumption|].
  split; [apply cvals_eqb_sound; assumption|].
  apply boollist_eqb_sound; assumption.
Qed.

Lemma sattr_eqb_sound (a b : sattr) : sattr_eqb a b = true -> a = b.
Proof.
  destruct a as [x|x], b as [y|y]; simpl; intro H; try discriminate; f_equal.
  - apply String.eqb_eq; assumption.
  - apply strlist_eqb_sound_gen; assumption.
Qed.

Lemma h5reg_eqb_sound (a b : h5reg) : h5reg_eqb a b = true -> h5reg_sim a b.
Proof.
  unfold h5reg_eqb, h5reg_sim. intro H. split_andb. repeat split.
  - apply ckind_eqb_sound; assumption.
  - apply qlist_eqb_sound_gen; assumption.
  - apply qlist_eqb_sound_gen; assumption.
  - apply strlist_eqb_sound_gen; assumption.
  - apply Z.eqb_eq; assumption.
  - apply strlist_eqb_sound_gen; assumption.
  - apply Qeq_bool_eq; assumption.
Qed.

Lemma subs_eqb_sound a b : subs_eqb a b = true -> table_sim a b.
Proof.
  unfold subs_eqb, table_sim. destruct a as [x|], b as [y|]; simpl; intro H; try discriminate; [|exact I].
  split_andb. split.
  - apply strlist_eqb_sound_gen; assumption.
  - match goal with Hf : forallb2 qlist_eqb _ _ = true |- _ =>
      revert Hf; apply forallb2_Forall2_gen; exact qlist_eqb_sound_gen end.
Qed.

Lemma h5new_eqb_sound (a b : h5new cval) : h5new_eqb a b = true -> h5new_sim a b.
Proof.
  unfold h5new_eqb, h5new_sim. intro H. split_andb.
  split; [apply String.eqb_eq; assumption|].
  split; [apply String.eqb_eq; assumption|].
  split; [apply h5reg_eqb_sound; assumption|].
  split; [apply zlist_eqb_sound_gen; assumption|].
  split; [apply String.eqb_eq; assumption|].
  split; [apply subs_eqb_sound; assumption|].
  split; [apply Z.eqb_eq; assumption|].
  split; [apply sattr_eqb_sound; assumption|].
  split; [apply String.eqb_eq; assumption|].
  split; [apply Bool.eqb_prop; assumption|].
  split; [apply zlist_eqb_sound_gen; assumption|].
  split; [apply cvals_eqb_sound; assumption|].
  split; [apply zlist_eqb_sound_gen; assumption|].
  apply boollist_eqb_sound; assumption.
Qed.

Lemma back_ok_sound model obs : back_ok model obs = true -> back_rel model obs.
Proof.
  unfold back_ok, back_rel. destruct model as [a|e], obs as [b|]; intro H; try discriminate; [|exact I].
  apply fstate_eqb_sound. exact H.
Qed.

(* ---------- soundness of check_C10, constructor by constructor ---------- *)
(* a write-then-read case: the observed file is the model writer's file, the observed read-back
   state is the model reader's state OF THE OBSERVED FILE (or both refuse) *)
Lemma check_round_sound dom f file back :
  check_C10 (CRound dom f (Some file) back) = true ->
  h5new_sim (encode f) file /\ back_rel (decode cval_conv (NewFile file)) back.
Proof.
  cbn [check_C10]. intro H. split_andb. split.
  - apply h5new_eqb_sound; assumption.
  - apply back_ok_sound; assumption.
Qed.

(* in-domain: additionally the recorded field is well-formed and the read-back state is [canon f] *)
Lemma check_round_domain_sound f file back :
  check_C10 (CRound true f (Some file) back) = true ->
  wf_field f /\ exists b, back = Some b /\ fstate_sim (canon f) b.
Proof.
  cbn [check_C10]. intro H. split_andb. split.
  - apply wf_fieldb_sound; assumption.
  - match goal with Hb : back_ok (OK _) back = true |- _ => apply back_ok_sound in Hb; rename Hb into B end.
    destruct back as [b|]; [|destruct B]. exists b. split; [reflexivity | exact B].
Qed.

(* a case without a written file is never accepted *)
Lemma check_round_nofile dom f back : check_C10 (CRound dom f None back) = false.
Proof. reflexivity. Qed.

(* a read-only case (foreign or legacy file) *)
Lemma check_read_sound file back :
  check_C10 (CRead file back) = true -> back_rel (decode cval_conv file) back.
Proof. cbn [check_C10]. apply back_ok_sound. Qed.

(* ---------- the unit guard is established by the accepted case itself ---------- *)
Lemma decode_new_unit {V} (conv : V -> V) (h : h5new V) (a : fstate V) :
  decode_new conv h = OK a ->
  f_unit a = if String.eqb (h_unit h) none_marker then None else Some (h_unit h).
Proof.
  unfold decode_new.
  destruct (negb (String.eqb (h_type h) file_type)); [discriminate|].
  destruct (negb (String.eqb (h_version h) file_version)); [discriminate|].
  destruct (match h_vdims h with
            | AStr s => if String.eqb s none_marker then OK (Some []) else Err TypeE
            | AStrs l => OK (Some l)
            end) as [vd|]; [|discriminate].
  cbn [bind].
  destruct (load_region (h_reg h)) as [r|]; [|discriminate]. cbn [bind].
  destruct (load_subs r (h_subs h)) as [sb|]; [|discriminate]. cbn [bind].
  destruct (mk_mesh_n r (h_n h)) as [m0|]; [|discriminate]. cbn [bind].
  unfold mk_field.
  destruct (negb (1 <=? h_nvdim h)%Z); [discriminate|].
  match goal with |- context [if negb (?c) then Err ValueE else _] => destruct (negb c) end; [discriminate|].
  match goal with |- context [if negb (?c) then Err ValueE else _] => destruct (negb c) end; [discriminate|].
  destruct (set_vdims (h_nvdim h) vd) as [vd'|]; [|discriminate]. cbn [bind].
  match goal with |- context [if ?c then Err TypeE else _] => destruct c end; [discriminate|].
  intro E. inversion E. reflexivity.
Qed.

Theorem accepted_unit_guard f file back :
  check_C10 (CRound true f (Some file) back) = true -> f_unit f <> Some none_marker.
Proof.
  intros H Hu.
  destruct (check_round_sound _ _ _ _ H) as [Hfile Hback].
  destruct (check_round_domain_sound _ _ _ H) as [_ (b & -> & Hb)].
  destruct Hfile as (_ & _ & _ & _ & _ & _ & _ & _ & Hunit & _).
  destruct Hb as (_ & _ & _ & _ & Hbu & _).
  unfold back_rel, decode in Hback.
  destruct (decode_new cval_conv file) as [a|e] eqn:D; [|destruct Hback].
  destruct Hback as (_ & _ & _ & _ & Hau & _).
  apply decode_new_unit in D.
  cbn [canon f_unit] in Hbu. cbn [encode h_unit] in Hunit.
  rewrite Hu in Hunit, Hbu. rewrite <- Hunit in D.
  rewrite String.eqb_refl in D. congruence.
Qed.

Theorem accepted_in_domain f file back :
  check_C10 (CRound true f (Some file) back) = true ->
  wf_field f /\ f_unit f <> Some none_marker.
Proof.
  intro H. split; [exact (proj1 (check_round_domain_sound _ _ _ H)) | exact (accepted_unit_guard _ _ _ H)].
Qed.

(* ---------- transfer theorems ---------- *)
(* C10_roundtrip / C10_roundtrip_state on the observation: the state the implementation read back
   is the model's read (write f), and attribute by attribute it is the field that was written *)
Theorem accepted_roundtrip f file back :
  check_C10 (CRound true f (Some file) back) = true ->
  exists b, back = Some b /\
    (exists g, decode cval_conv (NewFile (encode f)) = OK g /\ fstate_sim g b) /\
    f_ck b = f_ck f /\ mesh_sim (f_mesh f) (f_mesh b) /\ f_nvdim b = f_nvdim f /\
    f_vdims b = f_vdims f /\ f_unit b = f_unit f /\ f_vals b = f_vals f /\ f_valid b = f_valid f /\
    is_complex (f_dk b) = is_complex (f_dk f).
Proof.
  intro H. destruct (accepted_in_domain _ _ _ H) as [W U].
  destruct (check_round_domain_sound _ _ _ H) as [_ (b & -> & Hb)].
  exists b. split; [reflexivity|]. split.
  - exists (canon f). split; [apply roundtrip; assumption | exact Hb].
  - destruct Hb as (A & B & C & D & E & F & G & I). cbn [canon f_ck f_mesh f_nvdim f_vdims f_unit f_dk f_vals f_valid] in *.
    repeat split; try (symmetry; assumption); apply B.
Qed.

(* C10_second_generation on the observation: the observed read-back state is (related to) a
   well-formed field that is a fixed point of write-then-read *)
Theorem accepted_second_generation f file back :
  check_C10 (CRound true f (Some file) back) = true ->
  exists b, back = Some b /\ fstate_sim (canon f) b /\ wf_field (canon f) /\
    decode cval_conv (NewFile (encode (canon f))) = OK (canon f).
Proof.
  intro H. destruct (accepted_in_domain _ _ _ H) as [W U].
  destruct (check_round_domain_sound _ _ _ H) as [_ (b & -> & Hb)].
  exists b. split; [reflexivity|]. split; [exact Hb|]. split.
  - apply canon_wf; assumption.
  - apply second_generation; assumption.
Qed.

(* C10_table_exact on the observation: the subregion table of the OBSERVED file names the
   subregions in order and holds every corner exactly *)
Theorem accepted_table_exact f file back :
  check_C10 (CRound true f (Some file) back) = true -> subs (f_mesh f) <> [] ->
  exists names k rows, h_subs file = Some (names, (k, rows)) /\
    names = map fst (subs (f_mesh f)) /\
    Forall2 (Forall2 Qeq) (map (fun s => pmin (snd s) ++ pmax (snd s)) (subs (f_mesh f))) rows.
Proof.
  intros H Hne. destruct (accepted_in_domain _ _ _ H) as [W _].
  destruct (check_round_sound _ _ _ _ H) as [Hfile _].
  destruct Hfile as (_ & _ & _ & _ & _ & Ht & _).
  rewrite (table_exact f W Hne) in Ht. unfold table_sim in Ht.
  destruct (h_subs file) as [[names [k rows]]|]; [|destruct Ht].
  cbn [fst snd] in Ht. destruct Ht as [Hn Hr].
  exists names, k, rows. split; [reflexivity|]. split; [symmetry; exact Hn | exact Hr].
Qed.

(* the file header of every accepted written file: type and layout version the reader accepts *)
Theorem accepted_file_header dom f file back :
  check_C10 (CRound dom f (Some file) back) = true ->
  h_type file = file_type /\ h_version file = file_version /\
  h_shape file = n (f_mesh f) ++ [f_nvdim f] /\ h_arr file = f_vals f /\ h_valid file = f_valid f.
Proof.
  intro H. destruct (check_round_sound _ _ _ _ H) as [Hfile _].
  destruct Hfile as (A & B & _ & _ & _ & _ & _ & _ & _ & _ & C & D & _ & E).
  cbn [encode h_type h_version h_shape h_arr h_valid] in *.
  repeat split; symmetry; assumption.
Qed.

(* C10_reader_refuses_other_types / _versions on the observation: the implementation raised *)
Theorem accepted_refused_type h back :
  check_C10 (CRead (NewFile h) back) = true -> h_type h <> file_type -> back = None.
Proof.
  intros H T. apply check_read_sound in H. rewrite (decode_refuses_type cval_conv h T) in H.
  destruct back; [destruct H | reflexivity].
Qed.

Theorem accepted_refused_version h back :
  check_C10 (CRead (NewFile h) back) = true -> h_type h = file_type -> h_version h <> file_version ->
  back = None.
Proof.
  intros H T Vn. apply check_read_sound in H. rewrite (decode_refuses_version cval_conv h T Vn) in H.
  destruct back; [destruct H | reflexivity].
Qed.

(* C10_legacy on the observation: what the implementation read from a legacy file *)
Theorem accepted_legacy (l : h5legacy cval) back :
  check_C10 (CRead (LegacyFile l) back) = true ->
  Forall2 (fun a b => ~ a == b) (l_p1 l) (l_p2 l) -> (0 < length (l_p1 l))%nat ->
  length (l_n l) = length (l_p1 l) -> Forall (fun k => 0 < k)%Z (l_n l) ->
  (1 <= l_dim l)%Z -> l_shape l = l_n l ++ [l_dim l] ->
  match l_side l with None => True | Some items => Forall (wf_side (length (l_p1 l))) items end ->
  let r := legacy_region (l_p1 l) (l_p2 l) in
  exists b, back = Some b /\
    fstate_sim (mkF (kjoin (l_ck1 l) (l_ck2 l))
                    (mkMesh r (l_n l) "" (legacy_subs r (l_side l)))
                    (match l_side l with None => [] | Some items => map sd_ck items end)
                    (l_dim l) (default_vdims (l_dim l)) None (conv_dk (l_dk l))
                    (conv_vals cval_conv (l_dk l) (l_arr l))
                    (repeat true (Z.to_nat (zprod (l_n l))))) b.
Proof.
  intros H H1 H2 H3 H4 H5 H6 H7 r. apply check_read_sound in H.
  rewrite (legacy_read cval_conv l H1 H2 H3 H4 H5 H6 H7) in H.
  destruct back as [b|]; [|destruct H]. exists b. split; [reflexivity | exact H].
Qed.

(* ---------- non-vacuity: concrete accepted cases ---------- *)
Definition ex_reg : region := mkRegion [0; 1 # 2] [2; 3] ["x"; "y"]%string ["m"; "s"]%string default_tf.
Definition ex_sub : region := mkRegion [0; 1 # 2] [1; 2] ["x"; "y"]%string ["m"; "s"]%string default_tf.
Definition ex_vals : list cval :=
  [rp 1 0; rn 3 (-1); rv (Inf true); rn 0 0; rp 5 2; rv NaN; rp 0 0; rn 1 (-1074)]%Z.
Definition ex_ivals : list cval := [rp 1 0; rn 3 0; rp 0 0; rp 5 2; rp 1 1; rn 1 0; rp 7 0; rp 1 3]%Z.
Definition ex_field (sk : list ckind) (dk : dkind) (vals : list cval) : fstate cval :=
  mkF KFloat (mkMesh ex_reg [2; 1]%Z "xy" [("left"%string, ex_sub)]) sk 4
      (Some ["a"; "b"; "c"; "d"]%string) (Some "A/m"%string) dk vals [true; false].
Definition ex_file (dk : dkind) (vals : list cval) : h5new cval :=
  mkH5 "discretisedfield.Field" "0.1"
       (mkH5Reg KFloat [0; 1 # 2] [2; 3] ["x"; "y"]%string 2 ["m"; "s"]%string default_tf)
       [2; 1]%Z "xy" (Some (["left"%string], (KFloat, [[0; 1 # 2; 1; 2]])))
       4 (AStrs ["a"; "b"; "c"; "d"]%string) "A/m" dk [2; 1; 4]%Z vals [2; 1]%Z [true; false].

Example accepted_round_instance :
  check_C10 (CRound true (ex_field [KFloat] DFloat ex_vals) (Some (ex_file DFloat ex_vals))
                    (Some (ex_field [KFloat] DFloat ex_vals))) = true.
Proof. vm_compute. reflexivity. Qed.

(* a file of another type, refused by the model and by the implementation *)
Example accepted_refusal_instance :
  check_C10 (CRead (NewFile (mkH5 "discretisedfield.Mesh" "0.1"
       (mkH5Reg KFloat [0; 1 # 2] [2; 3] ["x"; "y"]%string 2 ["m"; "s"]%string default_tf)
       [2; 1]%Z "xy" None 4 (AStrs ["a"; "b"; "c"; "d"]%string) "A/m" DFloat [2; 1; 4]%Z ex_vals
       [2; 1]%Z [true; false])) None) = true.
Proof. vm_compute. reflexivity. Qed.

(* ---------- how coarse an accepted case is, by example ---------- *)
(* the integer / floating kind of the payload is not certified: an integer field whose read-back
   state is tagged floating (same values) is accepted, although the model's value [canon f] and
   C10_roundtrip_state say the kind comes back *)
Example coarse_data_kind_instance :
  let f := ex_field [KFloat] DInt ex_ivals in
  let b := ex_field [KFloat] DFloat ex_ivals in
  check_C10 (CRound true f (Some (ex_file DInt ex_ivals)) (Some b)) = true /\
  f_dk b <> f_dk (canon f).
Proof. split; [vm_compute; reflexivity | discriminate]. Qed.

(* neither is the kind of the written array dataset, beyond real versus complex *)
Example coarse_file_kind_instance :
  check_C10 (CRound true (ex_field [KFloat] DInt ex_ivals) (Some (ex_file DFloat ex_ivals))
                    (Some (ex_field [KFloat] DInt ex_ivals))) = true /\
  h_dk (ex_file DFloat ex_ivals) <> h_dk (encode (ex_field [KFloat] DInt ex_ivals)).
Proof. split; [vm_compute; reflexivity | discriminate]. Qed.

(* the int / float tag of subregion corners is not certified either (documented in Check_C10) *)
Example coarse_subregion_kind_instance :
  let f := ex_field [KFloat] DFloat ex_vals in
  let b := ex_field [KInt] DFloat ex_vals in
  check_C10 (CRound true f (Some (ex_file DFloat ex_vals)) (Some b)) = true /\
  f_subk b <> f_subk (canon f).
Proof. split; [vm_compute; reflexivity | discriminate]. Qed.
