(* C11: n-d arrangement of DFT bins in the arrays of the four transforms, for every shape:
   C-order enumeration lemmas, the inverse arrangement undoes the forward one (shifts on all
   axes, resp. on axes[:-1] for the real kind, odd sizes included), the real transform is the
   non-negative half of the full one. *)
From DF Require Import Prelude Constants_gen Region Mesh Fft ListLemmas C11_shift.
Open Scope Z_scope.

Notation inb := (Forall2 (fun k i : Z => 0 <= i < k)).

(* ---------- C-order enumeration ---------- *)
Lemma nth_flat_map_uniform {A B} (f : A -> list B) (P : nat) (l : list A) :
  (forall i, length (f i) = P) ->
  forall a q d d', (a < length l)%nat -> (q < P)%nat ->
  nth (a * P + q) (flat_map f l) d = nth q (f (nth a l d')) d.
Proof.
  intros HP. induction l as [|h t IH]; intros a q d d' Ha Hq; [simpl in Ha; lia|].
  destruct a as [|a]; simpl.
  - rewrite app_nth1 by (rewrite HP; exact Hq). reflexivity.
  - rewrite app_nth2 by (rewrite HP; lia). rewrite HP.
    replace (P + a * P + q - P)%nat with (a * P + q)%nat by lia.
    apply IH; [simpl in Ha; lia | exact Hq].
Qed.

Lemma flat_map_length_uniform {A B} (f : A -> list B) (P : nat) (l : list A) :
  (forall i, length (f i) = P) -> length (flat_map f l) = (length l * P)%nat.
Proof. intro H. induction l; simpl; [reflexivity|]. rewrite app_length, H, IHl. reflexivity. Qed.

Lemma zprod_pos ns m : inb ns m -> 0 < zprod ns.
Proof. induction 1; simpl; [lia|]. unfold zprod in *. simpl. nia. Qed.

Lemma indices_c_length ns : Forall (fun k => 0 <= k) ns -> length (indices_c ns) = Z.to_nat (zprod ns).
Proof.
  induction 1 as [|k ns Hk H IH]; [reflexivity|]. simpl indices_c.
  rewrite (flat_map_length_uniform _ (Z.to_nat (zprod ns))) by (intro; rewrite map_length; exact IH).
  rewrite ziota_length. unfold zprod. simpl. fold (zprod ns).
  assert (0 <= zprod ns).
  { clear -H. induction H; unfold zprod in *; simpl; [lia | nia]. }
  rewrite Z2Nat.inj_mul by lia. reflexivity.
Qed.

Lemma inb_nonneg ns m : inb ns m -> Forall (fun k => 0 <= k) ns.
Proof. induction 1; constructor; [lia | assumption]. Qed.

Lemma ravel_c_range ns m : inb ns m -> 0 <= ravel_c ns m < zprod ns.
Proof.
  induction 1 as [|k j ns m Hj H IH]; [unfold zprod; simpl; lia|].
  simpl ravel_c. unfold zprod. simpl. fold (zprod ns). nia.
Qed.

Lemma nth_ravel ns m : inb ns m -> forall d, nth (Z.to_nat (ravel_c ns m)) (indices_c ns) d = m.
Proof.
  induction 1 as [|k j ns m Hj H IH]; intro d; [reflexivity|].
  simpl ravel_c. simpl indices_c.
  pose proof (ravel_c_range _ _ H) as R. pose proof (zprod_pos _ _ H) as Pp.
  rewrite Z2Nat.inj_add by nia. rewrite Z2Nat.inj_mul by lia.
  rewrite (nth_flat_map_uniform _ (Z.to_nat (zprod ns))) with (d' := 0).
  - rewrite nth_ziota by lia. rewrite Z2Nat.id by lia. simpl.
    rewrite (nth_indep _ d (j :: d)) by (rewrite map_length, (indices_c_length _ (inb_nonneg _ _ H)); lia).
    rewrite (map_nth (cons j)). rewrite IH. reflexivity.
  - intro i. rewrite map_length. apply indices_c_length. exact (inb_nonneg _ _ H).
  - rewrite ziota_length. lia.
  - lia.
Qed.

Lemma In_indices_c ns : forall m, In m (indices_c ns) -> inb ns m.
Proof.
  induction ns as [|k ns IH]; intros m H.
  - simpl in H. destruct H as [<-|[]]. constructor.
  - simpl in H. apply in_flat_map in H. destruct H as [i [Hi H]]. apply in_map_iff in H.
    destruct H as [t [<- Ht]]. apply In_ziota in Hi.
    constructor; [|apply IH; exact Ht].
    lia.
Qed.

Lemma nth_map_indices {V} (f : list Z -> V) ks j d : inb ks j ->
  nth (Z.to_nat (ravel_c ks j)) (map f (indices_c ks)) d = f j.
Proof.
  intro H. pose proof (ravel_c_range _ _ H) as R.
  rewrite (nth_indep _ d (f [])) by (rewrite map_length, (indices_c_length _ (inb_nonneg _ _ H)); lia).
  rewrite map_nth. rewrite nth_ravel by exact H. reflexivity.
Qed.

(* ---------- the index maps with an arbitrary list of "is the real last axis" flags ---------- *)
Definition srcg (real : bool) (fl : list bool) (ns j : list Z) : list Z :=
  map3 (fun k (l : bool) i => src_axis (real && l) k i) ns fl j.
Definition isrcg (real : bool) (fl : list bool) (ks j : list Z) : list Z :=
  map3 (fun k (l : bool) i => isrc_axis (real && l) k i) ks fl j.
Definition kshapeg (real : bool) (fl : list bool) (ns : list Z) : list Z :=
  map2 (fun k (l : bool) => if real && l then k / 2 + 1 else k) ns fl.
Definition tofullg (fl : list bool) (ns t : list Z) : list Z :=
  map3 (fun k (l : bool) i => if l then ifftshift_src k i else i) ns fl t.

Lemma half_le k : 1 <= k -> k / 2 + 1 <= k.
Proof.
  intro H. pose proof (Z.div_mod k 2 ltac:(lia)). pose proof (Z.mod_pos_bound k 2 ltac:(lia)).
  destruct (Z.eq_dec k 1) as [->|]; [reflexivity | lia].
Qed.

Lemma half_pos k i : 0 <= i < k / 2 + 1 -> 1 <= k \/ k <= 0.
Proof. lia. Qed.

(* positions of the k-space array stay in range under the inverse shift *)
Lemma isrcg_range real : forall ns fl m, length fl = length ns ->
  inb (kshapeg real fl ns) m -> inb (kshapeg real fl ns) (isrcg real fl (kshapeg real fl ns) m).
Proof.
  induction ns as [|k ns IH]; intros fl m Hl H; destruct fl as [|l fl]; try discriminate.
  - inversion H. constructor.
  - simpl in H. inversion H as [|? i ? m' Hi Hm]; subst. simpl. constructor.
    + unfold isrc_axis. destruct (real && l); [exact Hi | apply ifftshift_src_range; lia].
    + apply IH; [simpl in Hl; lia | exact Hm].
Qed.

(* the bins read by the forward arrangement are in range of the natural-order spectrum *)
Lemma srcg_range real : forall ns fl t, length fl = length ns -> Forall (fun k => 1 <= k) ns ->
  inb (kshapeg real fl ns) t -> inb ns (srcg real fl ns t).
Proof.
  induction ns as [|k ns IH]; intros fl t Hl Hp H; destruct fl as [|l fl]; try discriminate.
  - inversion H. constructor.
  - simpl in H. inversion H as [|? i ? t' Hi Ht]; subst. inversion Hp; subst. simpl. constructor.
    + unfold src_axis. destruct (real && l).
      * pose proof (half_le _ H2). lia.
      * apply fftshift_src_range. lia.
    + apply IH; [simpl in Hl; lia | assumption | exact Ht].
Qed.

(* forward source of the inverse source is the position itself *)
Lemma srcg_isrcg real : forall ns fl m, length fl = length ns ->
  inb (kshapeg real fl ns) m -> srcg real fl ns (isrcg real fl (kshapeg real fl ns) m) = m.
Proof.
  induction ns as [|k ns IH]; intros fl m Hl H; destruct fl as [|l fl]; try discriminate.
  - inversion H. reflexivity.
  - unfold srcg, isrcg, kshapeg in *. simpl in H. inversion H as [|? i ? m' Hi Hm]; subst. simpl. f_equal.
    + unfold src_axis, isrc_axis. destruct (real && l); [reflexivity|].
      apply fftshift_ifftshift; lia.
    + apply IH; [simpl in Hl; lia | exact Hm].
Qed.

Lemma kshapeg_false fl : forall ns, length fl = length ns -> kshapeg false fl ns = ns.
Proof.
  induction fl as [|l fl IH]; intros ns H; destruct ns; try discriminate; [reflexivity|].
  unfold kshapeg in *. simpl. f_equal. apply IH. simpl in H. lia.
Qed.

Lemma tofullg_range : forall ns fl t, length fl = length ns -> Forall (fun k => 1 <= k) ns ->
  inb (kshapeg true fl ns) t -> inb ns (tofullg fl ns t).
Proof.
  induction ns as [|k ns IH]; intros fl t Hl Hp H; destruct fl as [|l fl]; try discriminate.
  - inversion H. constructor.
  - simpl in H. inversion H as [|? i ? t' Hi Ht]; subst. inversion Hp; subst. simpl. constructor.
    + destruct l; simpl in Hi; [apply ifftshift_src_range; lia | exact Hi].
    + apply IH; [simpl in Hl; lia | assumption | exact Ht].
Qed.

Lemma srcg_tofullg : forall ns fl t, length fl = length ns -> Forall (fun k => 1 <= k) ns ->
  inb (kshapeg true fl ns) t -> srcg false fl ns (tofullg fl ns t) = srcg true fl ns t.
Proof.
  induction ns as [|k ns IH]; intros fl t Hl Hp H; destruct fl as [|l fl]; try discriminate.
  - inversion H. reflexivity.
  - unfold srcg, tofullg, kshapeg in *. simpl in H. inversion H as [|? i ? t' Hi Ht]; subst. inversion Hp; subst. simpl. f_equal.
    + destruct l; simpl in *; [|reflexivity]. unfold src_axis.
      pose proof (half_le _ H2). apply fftshift_ifftshift; lia.
    + apply IH; [simpl in Hl; lia | assumption | exact Ht].
Qed.

Lemma last_flags_length n : length (last_flags n) = n.
Proof.
  induction n as [|n IH]; [reflexivity|]. destruct n; [reflexivity|].
  change (length (last_flags (S (S n)))) with (S (length (last_flags (S n)))). rewrite IH. reflexivity.
Qed.

Lemma kshape_length real ns : length (kshape real ns) = length ns.
Proof. unfold kshape. rewrite map2_length, last_flags_length. apply Nat.min_id. Qed.

(* ---------- exported statements ---------- *)
(* un-shifting the array of a forward transform gives back the natural-order (half) spectrum:
   the shifts of Field.ifftn / irfftn undo those of Field.fftn / rfftn on every axis, for every
   shape (odd sizes included) *)
Theorem unarrange_arrange {V} (d : V) real ns bins : Forall (fun k => 1 <= k) ns ->
  unarrange d real (kshape real ns) (arrange d real ns bins) = half_spectrum d real ns bins.
Proof.
  intro Hp. unfold unarrange, half_spectrum. apply map_ext_in. intros m Hm.
  apply In_indices_c in Hm.
  assert (Hl : length (last_flags (length ns)) = length ns) by apply last_flags_length.
  unfold isrc_index. rewrite kshape_length.
  change (kshape real ns) with (kshapeg real (last_flags (length ns)) ns) in *.
  fold (isrcg real (last_flags (length ns)) (kshapeg real (last_flags (length ns)) ns) m).
  unfold arrange. change (kshape real ns) with (kshapeg real (last_flags (length ns)) ns).
  rewrite nth_map_indices by (apply isrcg_range; assumption).
  unfold src_index.
  fold (srcg real (last_flags (length ns)) ns
             (isrcg real (last_flags (length ns)) (kshapeg real (last_flags (length ns)) ns) m)).
  rewrite srcg_isrcg by assumption. reflexivity.
Qed.

(* the real transform is the non-negative-frequency half of the full one along the last axis:
   position t holds what the full, shifted transform holds at t with the last entry moved to
   ifftshift_src n t (the other axes are shifted alike) *)
Definition to_full (ns t : list Z) : list Z := tofullg (last_flags (length ns)) ns t.

Theorem real_half_nd {V} (d : V) ns bins : Forall (fun k => 1 <= k) ns ->
  arrange d true ns bins =
  map (fun t => nth (Z.to_nat (ravel_c ns (to_full ns t))) (arrange d false ns bins) d)
      (indices_c (kshape true ns)).
Proof.
  intro Hp. unfold arrange at 1. apply map_ext_in. intros t Ht. apply In_indices_c in Ht.
  assert (Hl : length (last_flags (length ns)) = length ns) by apply last_flags_length.
  change (kshape true ns) with (kshapeg true (last_flags (length ns)) ns) in Ht.
  unfold arrange. change (kshape false ns) with (kshapeg false (last_flags (length ns)) ns).
  rewrite kshapeg_false by exact Hl.
  rewrite nth_map_indices by (apply tofullg_range; assumption).
  unfold src_index, to_full.
  fold (srcg false (last_flags (length ns)) ns (tofullg (last_flags (length ns)) ns t)).
  rewrite srcg_tofullg by assumption. reflexivity.
Qed.

(* ---------- the full "half" is everything ---------- *)
Lemma ziota_app a m n : ziota a (m + n) = ziota a m ++ ziota (a + Z.of_nat m) n.
Proof.
  revert a. induction m; intro a; simpl.
  - f_equal. lia.
  - f_equal. rewrite IHm. f_equal. f_equal. lia.
Qed.

Lemma map_add_ziota c a n : map (fun q => c + q) (ziota a n) = ziota (c + a) n.
Proof.
  revert a. induction n; intro a; simpl; [reflexivity|]. f_equal. rewrite IHn. f_equal. lia.
Qed.

Lemma flat_ziota P : forall K a,
  flat_map (fun i => ziota (i * Z.of_nat P) P) (ziota a K) = ziota (a * Z.of_nat P) (K * P).
Proof.
  induction K; intro a; simpl; [reflexivity|].
  rewrite ziota_app, IHK. f_equal. f_equal. lia.
Qed.

Lemma zprod_nonneg ns : Forall (fun k => 0 <= k) ns -> 0 <= zprod ns.
Proof. induction 1; unfold zprod in *; simpl; [lia | nia]. Qed.

Lemma ravel_enum ns : Forall (fun k => 0 <= k) ns ->
  map (ravel_c ns) (indices_c ns) = ziota 0 (Z.to_nat (zprod ns)).
Proof.
  induction 1 as [|k ns Hk H IH]; [reflexivity|].
  pose proof (zprod_nonneg _ H) as Pn.
  simpl indices_c. rewrite flat_map_concat_map, concat_map, map_map, <- flat_map_concat_map.
  rewrite (flat_map_ext _ (fun i => ziota (i * Z.of_nat (Z.to_nat (zprod ns))) (Z.to_nat (zprod ns)))).
  - rewrite flat_ziota. unfold zprod at 3. simpl. fold (zprod ns).
    rewrite Z2Nat.inj_mul by lia. reflexivity.
  - intro i. rewrite map_map. simpl ravel_c.
    rewrite <- (map_map (ravel_c ns) (fun q => i * zprod ns + q)), IH, map_add_ziota.
    rewrite Z2Nat.id by lia. f_equal. lia.
Qed.

Lemma nth_map_ziota_gen {V} (f : Z -> V) k a d : (a < k)%nat -> nth a (map f (ziota 0 k)) d = f (Z.of_nat a).
Proof.
  intro H. rewrite (nth_indep _ d (f 0%Z)) by (rewrite map_length, ziota_length; exact H).
  rewrite map_nth. rewrite nth_ziota by exact H. reflexivity.
Qed.

Lemma nth_enum {V} (l : list V) d : map (fun p => nth (Z.to_nat p) l d) (ziota 0 (length l)) = l.
Proof.
  apply nth_ext with (d := d) (d' := d); [rewrite map_length, ziota_length; reflexivity|].
  intros i Hi. rewrite map_length, ziota_length in Hi.
  rewrite nth_map_ziota_gen by exact Hi. f_equal. lia.
Qed.

Lemma half_full {V} (d : V) ns bins : Forall (fun k => 1 <= k) ns ->
  length bins = Z.to_nat (zprod ns) -> half_spectrum d false ns bins = bins.
Proof.
  intros Hp Hl. unfold half_spectrum.
  change (kshape false ns) with (kshapeg false (last_flags (length ns)) ns).
  rewrite kshapeg_false by apply last_flags_length.
  rewrite <- (map_map (ravel_c ns) (fun p => nth (Z.to_nat p) bins d)).
  rewrite ravel_enum by (eapply Forall_impl; [|exact Hp]; simpl; intros; lia).
  rewrite <- Hl. apply nth_enum.
Qed.

(* ---------- inverse transforms undo forward ones, on the arrays ---------- *)
Section Field.
Variable V : Type.
Variable d : V.
(* scipy's part: an n-d transform F on natural-order arrays with a complex inverse Gc and a real
   inverse Gr that recovers "real" data from the half spectrum given the original shape *)
Variables (F Gc Gr : list Z -> list V -> list V) (isreal : list V -> Prop).
Hypothesis HF : forall ns x, length x = Z.to_nat (zprod ns) -> length (F ns x) = Z.to_nat (zprod ns).
Hypothesis HGc : forall ns x, length x = Z.to_nat (zprod ns) -> Gc ns (F ns x) = x.
Hypothesis HGr : forall ns x, length x = Z.to_nat (zprod ns) -> isreal x ->
  Gr ns (half_spectrum d true ns (F ns x)) = x.

Theorem ifftn_fftn ns x : Forall (fun k => 1 <= k) ns -> length x = Z.to_nat (zprod ns) ->
  field_ifftn Gc d (kshape false ns) (field_fftn F d false ns x) = x.
Proof.
  intros Hp Hl. unfold field_ifftn, field_fftn. rewrite unarrange_arrange by exact Hp.
  rewrite half_full by (try exact Hp; apply HF; exact Hl).
  change (kshape false ns) with (kshapeg false (last_flags (length ns)) ns).
  rewrite kshapeg_false by apply last_flags_length. apply HGc. exact Hl.
Qed.

(* the real pair, for EVERY last-axis size (odd ones too) once the original shape is supplied *)
Theorem irfftn_rfftn ns x : Forall (fun k => 1 <= k) ns -> length x = Z.to_nat (zprod ns) -> isreal x ->
  field_irfftn Gr d ns (kshape true ns) (field_fftn F d true ns x) = x.
Proof.
  intros Hp Hl Hr. unfold field_irfftn, field_fftn. rewrite unarrange_arrange by exact Hp.
  apply HGr; assumption.
Qed.
End Field.

(* the hypotheses of the Field section are satisfiable (one-point values: every array of the
   right length is the same array) *)
Lemma unit_list_eq (x : list unit) : x = repeat tt (length x).
Proof. induction x as [|[] x IH]; simpl; [reflexivity | f_equal; exact IH]. Qed.

Lemma field_hyps_nonvacuous :
  let F := fun (_ : list Z) (x : list unit) => x in
  let Gc := fun (_ : list Z) (y : list unit) => y in
  let Gr := fun (ns : list Z) (_ : list unit) => repeat tt (Z.to_nat (zprod ns)) in
  (forall ns x, length x = Z.to_nat (zprod ns) -> length (F ns x) = Z.to_nat (zprod ns)) /\
  (forall ns x, length x = Z.to_nat (zprod ns) -> Gc ns (F ns x) = x) /\
  (forall ns x, length x = Z.to_nat (zprod ns) -> True -> Gr ns (half_spectrum tt true ns (F ns x)) = x).
Proof.
  simpl. split; [auto|]. split; [auto|]. intros ns x H _. rewrite <- H. symmetry. apply unit_list_eq.
Qed.
