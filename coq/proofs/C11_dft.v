(* C11: algebra of the discrete Fourier transform over ANY commutative ring with an element w
   such that w^n = 1 and sum_{k<n} w^(d k) = 0 for 0 < d < n  (what scipy.fft computes with
   w = exp(-2 pi i / n); that identification is the trusted part, validated numerically by the
   correspondence).  Linearity, zero bin, inversion; one axis and any number of axes. *)
From Coq Require Import List Arith Lia Ring.
Import ListNotations.

Section DFT.
Variable K : Type.
Variables (k0 k1 : K) (kadd kmul ksub : K -> K -> K) (kopp : K -> K).
Hypothesis KR : ring_theory k0 k1 kadd kmul ksub kopp eq.
Add Ring KRing : KR.
Infix "+" := kadd.
Infix "*" := kmul.

Fixpoint kpow (w : K) (e : nat) : K := match e with O => k1 | S e' => w * kpow w e' end.
Fixpoint ksum (n : nat) (f : nat -> K) : K := match n with O => k0 | S n' => ksum n' f + f n' end.
Definition ofnat (n : nat) : K := ksum n (fun _ => k1).

(* the transform along one axis: X[k] = sum_j x[j] w^(j k) *)
Definition dft (w : K) (n : nat) (x : nat -> K) (k : nat) : K :=
  ksum n (fun j => x j * kpow w (j * k)%nat).

(* ---------- sums ---------- *)
Lemma ksum_ext n f g : (forall j, (j < n)%nat -> f j = g j) -> ksum n f = ksum n g.
Proof.
  induction n; simpl; intro H; [reflexivity|]. rewrite IHn by (intros; apply H; lia).
  rewrite H by lia. reflexivity.
Qed.

Lemma ksum_add n f g : ksum n (fun j => f j + g j) = ksum n f + ksum n g.
Proof. induction n; simpl; [ring|]. rewrite IHn. ring. Qed.

Lemma ksum_scal n a f : ksum n (fun j => a * f j) = a * ksum n f.
Proof. induction n; simpl; [ring|]. rewrite IHn. ring. Qed.

Lemma ksum_scal_r n a f : ksum n (fun j => f j * a) = ksum n f * a.
Proof. induction n; simpl; [ring|]. rewrite IHn. ring. Qed.

Lemma ksum_zero n : ksum n (fun _ => k0) = k0.
Proof. induction n; simpl; [reflexivity|]. rewrite IHn. ring. Qed.

Lemma ksum_swap n m (f : nat -> nat -> K) :
  ksum n (fun i => ksum m (fun j => f i j)) = ksum m (fun j => ksum n (fun i => f i j)).
Proof.
  induction n; simpl.
  - symmetry. apply ksum_zero.
  - rewrite IHn. rewrite <- ksum_add. reflexivity.
Qed.

Lemma ksum_delta n r (x : nat -> K) a : (r < n)%nat ->
  ksum n (fun j => x j * (if Nat.eqb j r then a else k0)) = x r * a.
Proof.
  induction n; intro H; [lia|]. simpl.
  destruct (Nat.eq_dec r n) as [->|Hne].
  - rewrite Nat.eqb_refl.
    rewrite (ksum_ext n _ (fun _ => k0)).
    + rewrite ksum_zero. ring.
    + intros j Hj. destruct (Nat.eqb j n) eqn:E; [apply Nat.eqb_eq in E; lia | ring].
  - rewrite IHn by lia. destruct (Nat.eqb n r) eqn:E; [apply Nat.eqb_eq in E; lia | ring].
Qed.

(* ---------- powers ---------- *)
Lemma kpow_add w a b : kpow w (a + b)%nat = kpow w a * kpow w b.
Proof. induction a; simpl; [ring|]. rewrite IHa. ring. Qed.

Lemma kpow_one e : kpow k1 e = k1.
Proof. induction e; simpl; [reflexivity|]. rewrite IHe. ring. Qed.

Lemma kpow_mul_base a b e : kpow (a * b) e = kpow a e * kpow b e.
Proof. induction e; simpl; [ring|]. rewrite IHe. ring. Qed.

Lemma kpow_mul w a b : kpow w (a * b)%nat = kpow (kpow w a) b.
Proof.
  induction b; simpl.
  - rewrite Nat.mul_0_r. reflexivity.
  - rewrite Nat.mul_succ_r, Nat.add_comm, kpow_add, IHb. reflexivity.
Qed.

(* ---------- linearity, zero bin ---------- *)
Theorem dft_linear w n a b x y k :
  dft w n (fun j => a * x j + b * y j) k = a * dft w n x k + b * dft w n y k.
Proof.
  unfold dft. rewrite <- !ksum_scal, <- ksum_add. apply ksum_ext. intros. ring.
Qed.

Theorem dft_zero_bin w n x : dft w n x 0 = ksum n x.
Proof. unfold dft. apply ksum_ext. intros. rewrite Nat.mul_0_r. simpl. ring. Qed.

(* ---------- inversion ---------- *)
Section Root.
Variables (w : K) (n : nat).
Hypothesis Hn : (1 <= n)%nat.
Hypothesis Hroot : kpow w n = k1.
Hypothesis Horth : forall d, (0 < d < n)%nat -> ksum n (fun k => kpow w (d * k)%nat) = k0.

(* the inverse root is w^(n-1) *)
Definition winv : K := kpow w (n - 1).

Lemma w_winv : w * winv = k1.
Proof.
  unfold winv. change (w * kpow w (n - 1)) with (kpow w (S (n - 1))).
  replace (S (n - 1)) with n by lia. exact Hroot.
Qed.

Lemma pow_cancel e : kpow w e * kpow winv e = k1.
Proof. rewrite <- kpow_mul_base, w_winv. apply kpow_one. Qed.

Lemma winv_pow d k : (d <= n)%nat -> kpow winv (d * k)%nat = kpow w ((n - d) * k)%nat.
Proof.
  intro Hd.
  assert (A : kpow w (n * k)%nat = k1) by (rewrite kpow_mul, Hroot; apply kpow_one).
  assert (B : kpow w (n * k)%nat = kpow w (d * k)%nat * kpow w ((n - d) * k)%nat).
  { rewrite <- kpow_add. f_equal. nia. }
  pose proof (pow_cancel (d * k)) as C.
  transitivity (kpow winv (d * k)%nat * kpow w (n * k)%nat); [rewrite A; ring|].
  rewrite B.
  transitivity ((kpow w (d * k)%nat * kpow winv (d * k)%nat) * kpow w ((n - d) * k)%nat); [ring|].
  rewrite C. ring.
Qed.

Lemma orthogonality j r : (j < n)%nat -> (r < n)%nat ->
  ksum n (fun k => kpow w (j * k)%nat * kpow winv (r * k)%nat) = if Nat.eqb j r then ofnat n else k0.
Proof.
  intros Hj Hr. destruct (Nat.eqb j r) eqn:E.
  - apply Nat.eqb_eq in E. subst r. unfold ofnat. apply ksum_ext. intros. apply pow_cancel.
  - apply Nat.eqb_neq in E. destruct (Nat.lt_ge_cases r j) as [Hlt|Hge].
    + rewrite <- (Horth (j - r)) by lia. apply ksum_ext. intros k _.
      replace (j * k)%nat with ((j - r) * k + r * k)%nat by nia.
      rewrite kpow_add.
      transitivity (kpow w ((j - r) * k)%nat * (kpow w (r * k)%nat * kpow winv (r * k)%nat)); [ring|].
      rewrite pow_cancel. ring.
    + rewrite <- (Horth (n - (r - j))) by lia. apply ksum_ext. intros k _.
      replace (r * k)%nat with ((r - j) * k + j * k)%nat by nia.
      rewrite kpow_add.
      transitivity (kpow winv ((r - j) * k)%nat * (kpow w (j * k)%nat * kpow winv (j * k)%nat)); [ring|].
      rewrite pow_cancel. rewrite winv_pow by lia. ring.
Qed.

(* sum_k X[k] w^(-r k) = n x[r]:  the inverse transform (1/n) sum_k X[k] w^(-r k) undoes the
   forward one wherever n is invertible *)
Theorem dft_inverse x r : (r < n)%nat ->
  ksum n (fun k => dft w n x k * kpow winv (r * k)%nat) = x r * ofnat n.
Proof.
  intro Hr. unfold dft.
  rewrite (ksum_ext n _ (fun k => ksum n (fun j => x j * (kpow w (j * k)%nat * kpow winv (r * k)%nat)))).
  2:{ intros k _. rewrite <- ksum_scal_r. apply ksum_ext. intros. ring. }
  rewrite ksum_swap.
  rewrite (ksum_ext n _ (fun j => x j * (if Nat.eqb j r then ofnat n else k0))).
  2:{ intros j Hj. rewrite ksum_scal. rewrite orthogonality by assumption. reflexivity. }
  apply ksum_delta. exact Hr.
Qed.

(* and the forward transform undoes the inverse one: the two are mutually inverse bijections *)
Theorem dft_inverse_r X k : (k < n)%nat ->
  dft w n (fun r => ksum n (fun m => X m * kpow winv (r * m)%nat)) k = X k * ofnat n.
Proof.
  intro Hk. unfold dft.
  rewrite (ksum_ext n _ (fun r => ksum n (fun m => X m * (kpow w (k * r)%nat * kpow winv (m * r)%nat)))).
  2:{ intros r _. rewrite <- ksum_scal_r. apply ksum_ext. intros m _.
      rewrite (Nat.mul_comm r k), (Nat.mul_comm r m). ring. }
  rewrite ksum_swap.
  rewrite (ksum_ext n _ (fun m => X m * (if Nat.eqb m k then ofnat n else k0))).
  2:{ intros m Hm. rewrite ksum_scal. rewrite orthogonality by assumption.
      rewrite Nat.eqb_sym. reflexivity. }
  apply ksum_delta. exact Hk.
Qed.

(* Hermitian half: bins n - k and k of the transform determine each other through the
   conjugate root, so the real transform may keep bins 0..n/2 only: X[n-k] uses w^-1 *)
Theorem dft_mirror x k : (0 < k <= n)%nat ->
  dft w n x (n - k) = ksum n (fun j => x j * kpow winv (j * k)%nat).
Proof.
  intro Hk. unfold dft. apply ksum_ext. intros j _. f_equal.
  rewrite (Nat.mul_comm j k), winv_pow by lia. f_equal. apply Nat.mul_comm.
Qed.

End Root.
End DFT.

Arguments kpow {K}.
Arguments ksum {K}.
Arguments ofnat {K}.
Arguments dft {K}.
Arguments winv {K}.
