(* C11: the transform over any number of axes (iterated along the axes, one root per axis):
   linearity and the zero bin, for every shape. *)
From Coq Require Import List Arith Lia Ring.
From DF Require Import C11_dft.
Import ListNotations.

Section DFTN.
Variable K : Type.
Variables (k0 k1 : K) (kadd kmul ksub : K -> K -> K) (kopp : K -> K).
Hypothesis KR : ring_theory k0 k1 kadd kmul ksub kopp eq.
Add Ring KRingN : KR.
Infix "+" := kadd.
Infix "*" := kmul.
Notation ksum := (ksum k0 kadd).
Notation kpow := (kpow k1 kmul).

(* X[k1..kd] = sum_{j1} w1^(j1 k1) ... sum_{jd} wd^(jd kd) x[j1..jd] *)
Fixpoint dftn (ws : list K) (ns : list nat) (x : list nat -> K) (k : list nat) : K :=
  match ws, ns, k with
  | w :: ws', n :: ns', kk :: k' =>
      ksum n (fun j => kpow w (j * kk) * dftn ws' ns' (fun js => x (j :: js)) k')
  | _, _, _ => x []
  end.

(* plain sum over all cells of a shape *)
Fixpoint ksumn (ns : list nat) (x : list nat -> K) : K :=
  match ns with
  | [] => x []
  | n :: ns' => ksum n (fun j => ksumn ns' (fun js => x (j :: js)))
  end.

Theorem dftn_linear ws : forall ns a b x y k,
  dftn ws ns (fun i => a * x i + b * y i) k = a * dftn ws ns x k + b * dftn ws ns y k.
Proof.
  induction ws as [|w ws IH]; intros ns a b x y k; [reflexivity|].
  destruct ns as [|n ns]; [reflexivity|]. destruct k as [|kk k]; [reflexivity|]. simpl.
  rewrite <- !(ksum_scal K k0 k1 kadd kmul ksub kopp KR), <- (ksum_add K k0 k1 kadd kmul ksub kopp KR).
  apply ksum_ext. intros j _. rewrite IH. ring.
Qed.

Theorem dftn_zero_bin ws : forall ns x, length ws = length ns ->
  dftn ws ns x (repeat 0 (length ns)) = ksumn ns x.
Proof.
  induction ws as [|w ws IH]; intros ns x H; destruct ns as [|n ns]; try discriminate; [reflexivity|].
  simpl. apply ksum_ext. intros j _. rewrite Nat.mul_0_r. simpl.
  rewrite IH by (simpl in H; lia). ring.
Qed.

End DFTN.
Arguments dftn {K}.
Arguments ksumn {K}.
