(* C11: the transform over any number of axes (iterated along the axes, one root per axis):
   linearity and the zero bin, for every shape. *)
From Coq Require Import List Arith Lia Ring.
From DF Require Import C11_dft.
Import ListNotations.

Section DFTN.
Variable K : Type.
Variables (k0 k1 : K) (kadd kmul ksub : K -> K -> K) (kopp : K -> K).
Hypothesis KR : ring_theory k0 k1 kadd kmul ksub kopp eq.
Add Ring KRingN : KR.
Infix "+" := kadd.
Infix "*" := kmul.
Notation ksum := (ksum k0 kadd).
Notation kpow := (kpow k1 kmul).

(* X[k1..kd] = sum_{j1} w1^(j1 k1) ... sum_{jd} wd^(jd kd) x[j1..jd] *)
Fixpoint dftn (ws : list K) (ns : list nat) (x : list nat -> K) (k : list nat) : K :=
  match ws, ns, k with
  | w :: ws', n :: ns', kk :: k' =>
      ksum n (fun j => kpow w (j * kk) * dftn ws' ns' (fun js => x (j :: js)) k')
  | _, _, _ => x []
  end.

(* plain sum over all cells of a shape *)
Fixpoint ksumn (ns : list nat) (x : list nat -> K) : K :=
  match ns with
  | [] => x []
  | n :: ns' => ksum n (fun j => ksumn ns' (fun js => x (j :: js)))
  end.

Theorem dftn_linear ws : forall ns a b x y k,
  dftn ws ns (fun i => a * x i + b * y i) k = a * dftn ws ns x k + b * dftn ws ns y k.
Proof.
  induction ws as [|w ws IH]; intros ns a b x y k; [reflexivity|].
  destruct ns as [|n ns]; [reflexivity|]. destruct k as [|kk k]; [reflexivity|]. simpl.
  rewrite <- !(ksum_scal K k0 k1 kadd kmul ksub kopp KR), <- (ksum_add K k0 k1 kadd kmul ksub kopp KR).
  apply ksum_ext. intros j _. rewrite IH. ring.
Qed.

Theorem dftn_zero_bin ws : forall ns x, length ws = length ns ->
  dftn ws ns x (repeat 0 (length ns)) = ksumn ns x.
Proof.
  induction ws as [|w ws IH]; intros ns x H; destruct ns as [|n ns]; try discriminate; [reflexivity|].
  simpl. apply ksum_ext. intros j _. rewrite Nat.mul_0_r. simpl.
  rewrite IH by (simpl in H; lia). ring.
Qed.

(* ---------- helpers: extensionality, zero, finite sums pass through the transform ---------- *)
Lemma dftn_ext ws : forall ns x y k, (forall i, x i = y i) -> dftn ws ns x k = dftn ws ns y k.
Proof.
  induction ws as [|w ws IH]; intros ns x y k H; [apply H|].
  destruct ns as [|n ns]; [apply H|]. destruct k as [|kk k]; [apply H|]. simpl.
  apply ksum_ext. intros j _. f_equal. apply IH. intro i. apply H.
Qed.

Lemma dftn_zero ws : forall ns k, dftn ws ns (fun _ => k0) k = k0.
Proof.
  induction ws as [|w ws IH]; intros ns k; [reflexivity|].
  destruct ns as [|n ns]; [reflexivity|]. destruct k as [|kk k]; [reflexivity|]. simpl.
  rewrite (ksum_ext K k0 kadd n _ (fun _ => k0)); [apply (ksum_zero K k0 k1 kadd kmul ksub kopp KR)|].
  intros j _. rewrite IH. ring.
Qed.

Lemma dftn_ksum ws ns m (c : nat -> K) (y : nat -> list nat -> K) k :
  dftn ws ns (fun i => ksum m (fun j => c j * y j i)) k = ksum m (fun j => c j * dftn ws ns (y j) k).
Proof.
  induction m; simpl; [apply dftn_zero|].
  rewrite <- IHm.
  rewrite (dftn_ext ws ns _ (fun i => k1 * ksum m (fun j => c j * y j i) + c m * y m i)) by (intro; ring).
  rewrite dftn_linear. ring.
Qed.

(* ---------- inversion over any number of axes ---------- *)
(* product of the axis lengths, in K *)
Fixpoint prodn (ns : list nat) : K :=
  match ns with [] => k1 | n :: ns' => ofnat k0 k1 kadd n * prodn ns' end.

(* one axis: transforming with u and then with v recovers n times the data *)
Definition inv1 (u v : K) (n : nat) : Prop :=
  forall (y : nat -> K) (r : nat), (r < n)%nat ->
  ksum n (fun k => kpow v (k * r) * ksum n (fun j => kpow u (j * k) * y j)) = y r * ofnat k0 k1 kadd n.

Fixpoint goodp (us vs : list K) (ns r : list nat) : Prop :=
  match us, vs, ns, r with
  | [], [], [], [] => True
  | u :: us', v :: vs', n :: ns', j :: r' => inv1 u v n /\ (j < n)%nat /\ goodp us' vs' ns' r'
  | _, _, _, _ => False
  end.

Theorem dftn_inverse_gen us : forall vs ns r x, goodp us vs ns r ->
  dftn vs ns (fun k => dftn us ns x k) r = x r * prodn ns.
Proof.
  induction us as [|u us IH]; intros vs ns r x H.
  - destruct vs, ns, r; simpl in H; try contradiction. simpl. ring.
  - destruct vs as [|v vs], ns as [|n ns], r as [|j0 r]; simpl in H; try contradiction.
    destruct H as [H1 [Hj Hg]]. simpl.
    rewrite (ksum_ext K k0 kadd n _
               (fun k => kpow v (k * j0) * ksum n (fun j => kpow u (j * k) * (x (j :: r) * prodn ns)))).
    + rewrite (H1 (fun j => x (j :: r) * prodn ns) j0 Hj). ring.
    + intros k _. f_equal.
      etransitivity;
        [exact (dftn_ksum vs ns n (fun j => kpow u (j * k))
                          (fun j ks => dftn us ns (fun js => x (j :: js)) ks) r)|].
      apply ksum_ext. intros j _. f_equal. apply (IH vs ns r (fun js => x (j :: js)) Hg).
Qed.

(* the two instances of inv1: (w, w^-1) and (w^-1, w), from the one-axis theorems *)
Section OneAxis.
Variables (w : K) (n : nat).
Hypothesis Hn : (1 <= n)%nat.
Hypothesis Hroot : kpow w n = k1.
Hypothesis Horth : forall d, (0 < d < n)%nat -> ksum n (fun k => kpow w (d * k)%nat) = k0.

Lemma inv1_fwd : inv1 w (winv k1 kmul w n) n.
Proof.
  intros y r Hr.
  rewrite <- (dft_inverse K k0 k1 kadd kmul ksub kopp KR w n Hn Hroot Horth y r Hr).
  apply ksum_ext. intros k _. unfold dft. rewrite (Nat.mul_comm k r).
  rewrite (ksum_ext K k0 kadd n (fun j => kpow w (j * k) * y j) (fun j => y j * kpow w (j * k))) by (intros; ring).
  ring.
Qed.

Lemma inv1_bwd : inv1 (winv k1 kmul w n) w n.
Proof.
  intros y r Hr.
  rewrite <- (dft_inverse_r K k0 k1 kadd kmul ksub kopp KR w n Hn Hroot Horth y r Hr).
  unfold dft. apply ksum_ext. intros k _.
  rewrite (ksum_ext K k0 kadd n (fun j => kpow (winv k1 kmul w n) (j * k) * y j)
                    (fun m => y m * kpow (winv k1 kmul w n) (k * m))).
  - ring.
  - intros m _. rewrite (Nat.mul_comm m k). ring.
Qed.
End OneAxis.

(* roots of unity along every axis, and an in-range multi-index *)
Fixpoint roots (ws : list K) (ns r : list nat) : Prop :=
  match ws, ns, r with
  | [], [], [] => True
  | w :: ws', n :: ns', j :: r' =>
      (1 <= n)%nat /\ kpow w n = k1 /\
      (forall d, (0 < d < n)%nat -> ksum n (fun k => kpow w (d * k)%nat) = k0) /\
      (j < n)%nat /\ roots ws' ns' r'
  | _, _, _ => False
  end.

Fixpoint winvs (ws : list K) (ns : list nat) : list K :=
  match ws, ns with
  | w :: ws', n :: ns' => winv k1 kmul w n :: winvs ws' ns'
  | _, _ => []
  end.

Lemma roots_goodp_fwd ws : forall ns r, roots ws ns r -> goodp ws (winvs ws ns) ns r.
Proof.
  induction ws as [|w ws IH]; intros ns r H; destruct ns, r; simpl in *; try contradiction; [exact I|].
  destruct H as [Hn [Hr [Ho [Hj H]]]]. split; [apply inv1_fwd; assumption|]. split; [exact Hj | apply IH; exact H].
Qed.

Lemma roots_goodp_bwd ws : forall ns r, roots ws ns r -> goodp (winvs ws ns) ws ns r.
Proof.
  induction ws as [|w ws IH]; intros ns r H; destruct ns, r; simpl in *; try contradiction; [exact I|].
  destruct H as [Hn [Hr [Ho [Hj H]]]]. split; [apply inv1_bwd; assumption|]. split; [exact Hj | apply IH; exact H].
Qed.

(* ifftn o fftn = N id  and  fftn o ifftn = N id   (N = product of the axis lengths; the
   normalised inverse (1/N) ... is a two-sided inverse wherever N is invertible) *)
Theorem dftn_inverse ws ns r x : roots ws ns r ->
  dftn (winvs ws ns) ns (fun k => dftn ws ns x k) r = x r * prodn ns.
Proof. intro H. apply dftn_inverse_gen. apply roots_goodp_fwd. exact H. Qed.

Theorem dftn_inverse_r ws ns k X : roots ws ns k ->
  dftn ws ns (fun r => dftn (winvs ws ns) ns X r) k = X k * prodn ns.
Proof. intro H. apply dftn_inverse_gen. apply roots_goodp_bwd. exact H. Qed.

End DFTN.
Arguments dftn {K}.
Arguments ksumn {K}.
Arguments prodn {K}.
Arguments roots {K}.
Arguments winvs {K}.

(* the hypotheses of the n-d inversion are satisfiable: Z, two axes of length 2 with w = -1 *)
From Coq Require Import ZArith.
Lemma roots_nonvacuous :
  roots 0%Z 1%Z Z.add Z.mul [(-1)%Z; (-1)%Z] [2; 2] [1; 0].
Proof.
  assert (A : forall d, (0 < d < 2)%nat ->
            ksum 0%Z Z.add 2 (fun k => kpow 1%Z Z.mul (-1)%Z (d * k)) = 0%Z).
  { intros d H. assert (d = 1) by lia. subst d. reflexivity. }
  simpl. repeat split; try lia; exact A.
Qed.
