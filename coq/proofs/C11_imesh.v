(* C11: Mesh.ifftn over all axes (list level): on every well-formed mesh with an accepted shape
   s (all entries >= 1) and names that stay distinct after stripping "k_", the call succeeds;
   counts = s, stripped names/units, every axis centred at the origin with extent 1/kcell
   (i.e. cell = 1/(s * kcell)). *)
From DF Require Import Prelude Constants_gen Region Mesh Fft QLemmas ListLemmas C01_axis C11_shift C11_kmesh
  C11_arrange C11_mesh.
Open Scope Q_scope.

(* one axis after min/max ordering and recentring *)
Definition fin (a : Q * Q * Z) : Q * Q :=
  let lo := Qmin (fst3 a) (snd3 a) in let hi := Qmax (fst3 a) (snd3 a) in
  let c := (1 # 2) * (lo + hi) in (lo - c, hi - c).

Definition axis_ok (a : Q * Q * Z) (p : Z * Q) : Prop :=
  thd3 a = fst p /\ fst3 a < snd3 a /\ snd3 a - fst3 a == 1 / snd p.

Lemma iaxis_ok s ck : (1 <= s)%Z -> 0 < ck -> exists a, iaxis s ck = Some a /\ axis_ok a (s, ck).
Proof.
  intros Hs Hc. destruct (Z.eq_dec s 1) as [->|Hne].
  - exists (0, 1 / ck, 1%Z). split; [reflexivity|]. unfold axis_ok, fst3, snd3, thd3. simpl.
    assert (0 < 1 / ck) by (apply Qdiv_pos; lra). repeat split; [assumption | ring].
  - destruct (iaxis_general s ck ltac:(lia) Hc) as [lo [hi [E [Hlt [Ec _]]]]].
    exists (lo, hi, s). split; [exact E|]. unfold axis_ok, fst3, snd3, thd3. simpl.
    repeat split; [exact Hlt|]. unfold cell_of in Ec.
    assert (Hq : 0 < inject_Z s) by (apply inject_Z_pos; lia).
    assert (A : (hi - lo) / inject_Z s * inject_Z s == hi - lo) by (field; lra).
    rewrite <- A, Ec. field. lra.
Qed.

Lemma iaxes_ok : forall s cs, Forall (fun k => (1 <= k)%Z) s -> Forall (fun c => 0 < c) cs ->
  length cs = length s ->
  exists axl, opt_all (map2 iaxis s cs) = Some axl /\ Forall2 axis_ok axl (combine s cs).
Proof.
  induction s as [|k s IH]; intros cs Hs Hc L; destruct cs as [|c cs]; try discriminate.
  - exists []. split; [reflexivity | constructor].
  - inversion Hs as [|? ? Hk Hs']; subst. inversion Hc as [|? ? Hc0 Hc']; subst. simpl in L.
    destruct (IH cs Hs' Hc' ltac:(lia)) as [axl [E F]].
    destruct (iaxis_ok k c Hk Hc0) as [a [Ea Oa]].
    exists (a :: axl). simpl. rewrite Ea, E. split; [reflexivity | constructor; assumption].
Qed.

Lemma axl_facts axl : forall ps, Forall2 axis_ok axl ps ->
  Forall2 Qlt (map fst3 axl) (map snd3 axl) /\ map thd3 axl = map fst ps /\ length axl = length ps.
Proof.
  induction 1 as [|a p axl ps [H1 [H2 H3]] H IH]; [repeat split; constructor|].
  destruct IH as [A [B C]]. simpl. repeat split; [constructor; assumption | congruence | congruence].
Qed.

Lemma recentred_lists axl :
  let lo := map2 Qmin (map fst3 axl) (map snd3 axl) in
  let hi := map2 Qmax (map fst3 axl) (map snd3 axl) in
  let c := map2 (fun a b => (1 # 2) * (a + b)) lo hi in
  map2 Qminus lo c = map (fun a => fst (fin a)) axl /\ map2 Qminus hi c = map (fun a => snd (fin a)) axl.
Proof.
  induction axl as [|a axl [IH1 IH2]]; [split; reflexivity|]. simpl in *. split; f_equal; assumption.
Qed.

Lemma fin_ok a p : axis_ok a p ->
  fst (fin a) == - snd (fin a) /\ snd (fin a) - fst (fin a) == 1 / snd p.
Proof.
  intros [_ [Hlt He]]. unfold fin. simpl.
  rewrite Q.min_l, Q.max_r by (apply Qlt_le_weak; exact Hlt). split; [ring|]. rewrite <- He. ring.
Qed.

Lemma nodupb_of_NoDup l : NoDup l -> nodupb l = true.
Proof.
  induction 1 as [|h t Hh Ht IH]; [reflexivity|]. simpl. rewrite IH, andb_true_r.
  apply negb_true_iff. destruct (existsb (String.eqb h) t) eqn:E; [|reflexivity].
  apply existsb_exists in E. destruct E as [x [Hx Ex]]. apply String.eqb_eq in Ex. subst x. contradiction.
Qed.

Lemma map_fst_combine (s : list Z) : forall cs : list Q, length cs = length s -> map fst (combine s cs) = s.
Proof. induction s; intros [|c cs] H; try discriminate; [reflexivity|]. simpl. f_equal. apply IHs. simpl in H. lia. Qed.

Theorem mesh_ifftn_ok (k : mesh) (rfft : bool) (sh : shape_arg) (s : list Z) : wf_mesh k ->
  ifft_shape (n k) rfft sh = OK s -> length s = length (n k) -> Forall (fun j => (1 <= j)%Z) s ->
  NoDup (map unkdim (dims (reg k))) ->
  exists m' axl, mesh_ifftn k rfft sh = OK m' /\
    n m' = s /\
    dims (reg m') = map unkdim (dims (reg k)) /\ units (reg m') = map unkunit (units (reg k)) /\
    pmin (reg m') = map (fun a => fst (fin a)) axl /\ pmax (reg m') = map (fun a => snd (fin a)) axl /\
    Forall2 (fun a p => thd3 a = fst p /\ fst (fin a) == - snd (fin a) /\
                        snd (fin a) - fst (fin a) == 1 / snd p) axl (combine s (cell k)).
Proof.
  intros [[W1 [W2 [W3 [W4 [W5 [W6 W7]]]]]] [Wn Wp]] Hs Ls Hp Hd.
  destruct (cells_pos (pmin (reg k)) (pmax (reg k)) (n k) W6 Wn Wp) as [Hc Lc]. fold (cell k) in Hc, Lc.
  destruct (iaxes_ok s (cell k) Hp Hc ltac:(lia)) as [axl [E F]].
  destruct (axl_facts axl _ F) as [B [C L]].
  rewrite map_fst_combine in C by lia. rewrite combine_length, Lc, Ls, Nat.min_id in L.
  unfold mesh_ifftn, mesh_ifftn_gen. fold (ifft_shape (n k) rfft sh). rewrite Hs. simpl bind. rewrite E.
  unfold mk_region.
  rewrite !map_length, Nat.eqb_refl. simpl negb. cbv iota.
  destruct (length axl =? 0)%nat eqn:E0; [apply Nat.eqb_eq in E0; lia|].
  rewrite L, W3, W4, <- Wn, Nat.eqb_refl. simpl negb. cbv iota.
  rewrite (nodupb_of_NoDup _ Hd). simpl negb. cbv iota. simpl bind.
  rewrite (no_zero_edge _ _ B). simpl bind.
  unfold mk_mesh_n, ndim. simpl pmin.
  rewrite map2_length, !map_length, L, Nat.min_id, Nat.eqb_refl. simpl negb. cbv iota.
  assert (Fp : forallb (fun j => (0 <? j)%Z) (map thd3 axl) = true).
  { rewrite C. apply forallb_forall. intros x Hx. rewrite Forall_forall in Hp. apply Z.ltb_lt.
    specialize (Hp x Hx). lia. }
  rewrite Fp. simpl negb. cbv iota. simpl bind.
  destruct (recentred_lists axl) as [R1 R2].
  eexists. exists axl. split; [reflexivity|]. unfold recentre, center. simpl.
  split; [exact C|]. split; [reflexivity|]. split; [reflexivity|].
  split; [exact R1|]. split; [exact R2|].
  clear -F. induction F as [|a p axl ps Ha F IH]; constructor; [|exact IH].
  destruct (fin_ok a p Ha) as [X Y]. destruct Ha as [T _]. auto.
Qed.

Lemma mesh_ifftn_hyps_nonvacuous :
  let k := mkMesh (mkRegion [0; 0] [4; 3] ["k_x"%string; "k_y"%string] ["m"%string; "m"%string] (1 # 1000)) [4%Z; 2%Z] "" [] in
  wf_mesh k /\ ifft_shape (n k) true (ShList [4; 3]%Z) = OK [4; 3]%Z /\ length [4; 3]%Z = length (n k) /\
  Forall (fun j => (1 <= j)%Z) [4; 3]%Z /\ NoDup (map unkdim (dims (reg k))).
Proof.
  simpl. split; [|split; [reflexivity|split; [reflexivity|split]]].
  - unfold wf_mesh, wf_region. simpl. repeat split; try lia; try reflexivity.
    + constructor; [simpl; intros [H|[]]; discriminate|]. constructor; [simpl; tauto | constructor].
    + repeat constructor.
    + discriminate.
    + repeat constructor.
  - repeat constructor; lia.
  - constructor; [simpl; intros [H|[]]; discriminate|]. constructor; [simpl; tauto | constructor].
Qed.
