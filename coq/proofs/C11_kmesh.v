(* C11: the k-mesh of Mesh.fftn along one axis has its cell centres exactly at the (shifted)
   DFT sample frequencies; Mesh.ifftn gives back cell size and count, centred at the origin.
   Every statement is for all sizes n. *)
From DF Require Import Prelude Constants_gen Region Mesh Fft QLemmas ListLemmas C11_shift.
Open Scope Q_scope.

(* ---------- min / max of a list ---------- *)
Lemma fold_min_le_init l : forall a, fold_left Qmin l a <= a.
Proof.
  induction l; simpl; intros; [apply Qle_refl|].
  eapply Qle_trans; [apply IHl | apply Q.le_min_l].
Qed.

Lemma fold_min_le l : forall a x, In x l -> fold_left Qmin l a <= x.
Proof.
  induction l; simpl; intros b x H; [contradiction|]. destruct H as [->|H].
  - eapply Qle_trans; [apply fold_min_le_init | apply Q.le_min_r].
  - apply IHl; exact H.
Qed.

Lemma fold_min_in l : forall a, fold_left Qmin l a == a \/ exists x, In x l /\ fold_left Qmin l a == x.
Proof.
  induction l; simpl; intros b; [left; reflexivity|].
  destruct (IHl (Qmin b a)) as [E|[x [Hx E]]].
  - destruct (Q.min_spec b a) as [[_ E2]|[_ E2]]; pose proof (Qeq_trans _ _ _ E E2) as E3.
    + left; exact E3.
    + right; exists a; split; [left; reflexivity | exact E3].
  - right; exists x; split; [right; exact Hx | exact E].
Qed.

Lemma qlist_min_char l m :
  (exists x, In x l /\ x == m) -> (forall x, In x l -> m <= x) -> qlist_min l == m.
Proof.
  intros [x [Hx Ex]] Hall. destruct l as [|h t]; [contradiction|]. unfold qlist_min.
  apply Qle_antisym.
  - rewrite <- Ex. destruct Hx as [->|Hx]; [apply fold_min_le_init | apply fold_min_le; exact Hx].
  - destruct (fold_min_in t h) as [E|[y [Hy E]]]; rewrite E; apply Hall; [left; reflexivity | right; exact Hy].
Qed.

Lemma fold_max_ge_init l : forall a, a <= fold_left Qmax l a.
Proof.
  induction l; simpl; intros; [apply Qle_refl|].
  eapply Qle_trans; [apply Q.le_max_l | apply IHl].
Qed.

Lemma fold_max_ge l : forall a x, In x l -> x <= fold_left Qmax l a.
Proof.
  induction l; simpl; intros b x H; [contradiction|]. destruct H as [->|H].
  - eapply Qle_trans; [apply Q.le_max_r | apply fold_max_ge_init].
  - apply IHl; exact H.
Qed.

Lemma fold_max_in l : forall a, fold_left Qmax l a == a \/ exists x, In x l /\ fold_left Qmax l a == x.
Proof.
  induction l; simpl; intros b; [left; reflexivity|].
  destruct (IHl (Qmax b a)) as [E|[x [Hx E]]].
  - destruct (Q.max_spec b a) as [[_ E2]|[_ E2]]; pose proof (Qeq_trans _ _ _ E E2) as E3.
    + right; exists a; split; [left; reflexivity | exact E3].
    + left; exact E3.
  - right; exists x; split; [right; exact Hx | exact E].
Qed.

Lemma qlist_max_char l m :
  (exists x, In x l /\ x == m) -> (forall x, In x l -> x <= m) -> qlist_max l == m.
Proof.
  intros [x [Hx Ex]] Hall. destruct l as [|h t]; [contradiction|]. unfold qlist_max.
  apply Qle_antisym.
  - destruct (fold_max_in t h) as [E|[y [Hy E]]]; rewrite E; apply Hall; [left; reflexivity | right; exact Hy].
  - rewrite <- Ex. destruct Hx as [->|Hx]; [apply fold_max_ge_init | apply fold_max_ge; exact Hx].
Qed.

Lemma nth_map_ziota (f : Z -> Q) k a d : (a < k)%nat -> nth a (map f (ziota 0 k)) d = f (Z.of_nat a).
Proof.
  intro H. rewrite (nth_indep _ d (f 0%Z)) by (rewrite map_length, ziota_length; exact H).
  rewrite map_nth. rewrite nth_ziota by exact H. reflexivity.
Qed.

(* ---------- frequencies along one axis ---------- *)
Section Axis.
Variables (n : Z) (c : Q).
Hypothesis Hn : (2 <= n)%Z.
Hypothesis Hc : 0 < c.
Let v := 1 / (inject_Z n * c).

Lemma nq_pos : 0 < inject_Z n.
Proof. apply inject_Z_pos. lia. Qed.

Lemma v_pos : 0 < v.
Proof. unfold v. apply Qdiv_pos; [lra|]. apply Qmult_lt_0_compat; [apply nq_pos | exact Hc]. Qed.

Lemma freq_val_v m : freq_val n c m = inject_Z m * v.
Proof. reflexivity. Qed.

Lemma freq_val_mono a b : (a <= b)%Z -> freq_val n c a <= freq_val n c b.
Proof.
  intro H. rewrite !freq_val_v. apply Qmult_le_compat_r; [rewrite <- Zle_Qle; exact H|].
  apply Qlt_le_weak, v_pos.
Qed.

Lemma half_sum : ((n - 1) / 2 + n / 2 = n - 1)%Z.
Proof.
  pose proof (Z.div_mod n 2 ltac:(lia)). pose proof (Z.mod_pos_bound n 2 ltac:(lia)).
  pose proof (Z.div_mod (n - 1) 2 ltac:(lia)). pose proof (Z.mod_pos_bound (n - 1) 2 ltac:(lia)). lia.
Qed.

Lemma half_bounds : (1 <= n / 2 /\ 0 <= (n - 1) / 2 /\ (n - 1) / 2 < n /\ n / 2 < n)%Z.
Proof.
  pose proof (Z.div_mod n 2 ltac:(lia)). pose proof (Z.mod_pos_bound n 2 ltac:(lia)).
  pose proof (Z.div_mod (n - 1) 2 ltac:(lia)). pose proof (Z.mod_pos_bound (n - 1) 2 ltac:(lia)). lia.
Qed.

Lemma In_fftfreq x : In x (fftfreq n c) <-> exists j, (0 <= j < n)%Z /\ x = freq_val n c (fftfreq_bin n j).
Proof.
  unfold fftfreq. rewrite in_map_iff. split.
  - intros [j [E H]]. apply In_ziota in H. exists j. split; [rewrite Z2Nat.id in H by lia; lia | symmetry; exact E].
  - intros [j [H E]]. exists j. split; [symmetry; exact E|]. apply In_ziota. rewrite Z2Nat.id by lia. lia.
Qed.

Lemma fftfreq_min : qlist_min (fftfreq n c) == freq_val n c (- (n / 2)).
Proof.
  pose proof half_bounds as HB. pose proof half_sum as HS.
  apply qlist_min_char.
  - exists (freq_val n c (fftfreq_bin n ((n - 1) / 2 + 1))). split.
    + apply In_fftfreq. exists ((n - 1) / 2 + 1)%Z. split; [lia | reflexivity].
    + unfold fftfreq_bin. destruct ((n - 1) / 2 + 1 <=? (n - 1) / 2)%Z eqn:C; [apply Z.leb_le in C; lia|].
      replace ((n - 1) / 2 + 1 - n)%Z with (- (n / 2))%Z by lia. reflexivity.
  - intros x Hx. apply In_fftfreq in Hx. destruct Hx as [j [Hj ->]].
    apply freq_val_mono. pose proof (fftfreq_bin_congr n j ltac:(lia) Hj). lia.
Qed.

Lemma fftfreq_max : qlist_max (fftfreq n c) == freq_val n c ((n - 1) / 2).
Proof.
  pose proof half_bounds as HB.
  apply qlist_max_char.
  - exists (freq_val n c (fftfreq_bin n ((n - 1) / 2))). split.
    + apply In_fftfreq. exists ((n - 1) / 2)%Z. split; [lia | reflexivity].
    + unfold fftfreq_bin. rewrite Z.leb_refl. reflexivity.
  - intros x Hx. apply In_fftfreq in Hx. destruct Hx as [j [Hj ->]].
    apply freq_val_mono. pose proof (fftfreq_bin_congr n j ltac:(lia) Hj). lia.
Qed.

Lemma fftfreq_length : Z.of_nat (length (fftfreq n c)) = n.
Proof. unfold fftfreq. rewrite map_length, ziota_length. apply Z2Nat.id. lia. Qed.

Lemma fftfreq_nth j : (0 <= j < n)%Z ->
  nth (Z.to_nat j) (fftfreq n c) 0 = freq_val n c (fftfreq_bin n j).
Proof.
  intro Hj. unfold fftfreq. rewrite nth_map_ziota by lia. rewrite Z2Nat.id by lia. reflexivity.
Qed.

Lemma fftfreq_dfreq : Qabs (nth 1 (fftfreq n c) 0 - nth 0 (fftfreq n c) 0) / 2 == v / 2.
Proof.
  pose proof half_bounds as HB. pose proof v_pos as Hv.
  change 1%nat with (Z.to_nat 1). change 0%nat with (Z.to_nat 0).
  rewrite !fftfreq_nth by lia. rewrite !freq_val_v. clearbody v.
  assert (E0 : fftfreq_bin n 0 = 0%Z).
  { unfold fftfreq_bin. destruct (0 <=? (n - 1) / 2)%Z eqn:C; [reflexivity | apply Z.leb_gt in C; lia]. }
  rewrite E0. unfold fftfreq_bin. destruct (1 <=? (n - 1) / 2)%Z eqn:C.
  - assert (A : inject_Z 1 * v - inject_Z 0 * v == v) by (change (inject_Z 1) with 1; change (inject_Z 0) with 0; ring).
    rewrite A. rewrite Qabs_pos by lra. reflexivity.
  - apply Z.leb_gt in C.
    assert (E2 : (1 - n = -1)%Z).
    { pose proof (Z.div_mod (n - 1) 2 ltac:(lia)). pose proof (Z.mod_pos_bound (n - 1) 2 ltac:(lia)). lia. }
    rewrite E2.
    assert (A : inject_Z (-1) * v - inject_Z 0 * v == - v)
      by (change (inject_Z (-1)) with (-1 # 1); change (inject_Z 0) with 0; ring).
    rewrite A. rewrite Qabs_opp, Qabs_pos by lra. reflexivity.
Qed.

Lemma In_rfftfreq x : In x (rfftfreq n c) <-> exists j, (0 <= j <= n / 2)%Z /\ x = freq_val n c j.
Proof.
  pose proof half_bounds as HB.
  unfold rfftfreq. rewrite in_map_iff. split.
  - intros [j [E H]]. apply In_ziota in H. exists j. split; [rewrite Z2Nat.id in H by lia; lia | symmetry; exact E].
  - intros [j [H E]]. exists j. split; [symmetry; exact E|]. apply In_ziota. rewrite Z2Nat.id by lia. lia.
Qed.

Lemma rfftfreq_min : qlist_min (rfftfreq n c) == freq_val n c 0.
Proof.
  pose proof half_bounds as HB.
  apply qlist_min_char.
  - exists (freq_val n c 0). split; [|reflexivity]. apply In_rfftfreq. exists 0%Z. split; [lia | reflexivity].
  - intros x Hx. apply In_rfftfreq in Hx. destruct Hx as [j [Hj ->]]. apply freq_val_mono. lia.
Qed.

Lemma rfftfreq_max : qlist_max (rfftfreq n c) == freq_val n c (n / 2).
Proof.
  pose proof half_bounds as HB.
  apply qlist_max_char.
  - exists (freq_val n c (n / 2)). split; [|reflexivity]. apply In_rfftfreq. exists (n / 2)%Z. split; [lia | reflexivity].
  - intros x Hx. apply In_rfftfreq in Hx. destruct Hx as [j [Hj ->]]. apply freq_val_mono. lia.
Qed.

Lemma rfftfreq_length : Z.of_nat (length (rfftfreq n c)) = (n / 2 + 1)%Z.
Proof. pose proof half_bounds. unfold rfftfreq. rewrite map_length, ziota_length. apply Z2Nat.id. lia. Qed.

Lemma rfftfreq_nth j : (0 <= j <= n / 2)%Z -> nth (Z.to_nat j) (rfftfreq n c) 0 = freq_val n c j.
Proof.
  intro Hj. unfold rfftfreq. rewrite nth_map_ziota by lia. rewrite Z2Nat.id by lia. reflexivity.
Qed.

Lemma rfftfreq_dfreq : Qabs (nth 1 (rfftfreq n c) 0 - nth 0 (rfftfreq n c) 0) / 2 == v / 2.
Proof.
  pose proof half_bounds as HB. pose proof v_pos as Hv.
  change 1%nat with (Z.to_nat 1). change 0%nat with (Z.to_nat 0).
  rewrite !rfftfreq_nth by lia. rewrite !freq_val_v. clearbody v.
  assert (A : inject_Z 1 * v - inject_Z 0 * v == v) by (change (inject_Z 1) with 1; change (inject_Z 0) with 0; ring).
  rewrite A. rewrite Qabs_pos by lra. reflexivity.
Qed.

(* the k-axis of the full transform *)
Lemma kaxis_full_eq :
  fst3 (kaxis false n c) == - inject_Z (n / 2) * v - v / 2 /\
  snd3 (kaxis false n c) == inject_Z ((n - 1) / 2) * v + v / 2 /\
  thd3 (kaxis false n c) = n.
Proof.
  unfold kaxis. destruct (n =? 1)%Z eqn:E; [apply Z.eqb_eq in E; lia|].
  unfold fst3, snd3, thd3; simpl fst; simpl snd.
  rewrite fftfreq_min, fftfreq_max, fftfreq_dfreq, fftfreq_length, !freq_val_v.
  rewrite inject_Z_opp. repeat split; reflexivity.
Qed.

Lemma kaxis_real_eq :
  fst3 (kaxis true n c) == - (v / 2) /\
  snd3 (kaxis true n c) == inject_Z (n / 2) * v + v / 2 /\
  thd3 (kaxis true n c) = (n / 2 + 1)%Z.
Proof.
  unfold kaxis. destruct (n =? 1)%Z eqn:E; [apply Z.eqb_eq in E; lia|].
  unfold fst3, snd3, thd3; simpl fst; simpl snd.
  rewrite rfftfreq_min, rfftfreq_max, rfftfreq_dfreq, rfftfreq_length, !freq_val_v.
  repeat split; try reflexivity. change (inject_Z 0) with 0. ring.
Qed.

Lemma kcentre_unfold b j :
  kcentre b n c j = i2p1 (fst3 (kaxis b n c))
                         (cell_of (fst3 (kaxis b n c)) (snd3 (kaxis b n c)) (thd3 (kaxis b n c))) j.
Proof. unfold kcentre. destruct (kaxis b n c) as [[lo hi] nk]. reflexivity. Qed.

(* the k-cell of the full transform has size 1/(n c); its j-th centre is (j - n//2)/(n c) *)
Lemma kcell_full :
  cell_of (fst3 (kaxis false n c)) (snd3 (kaxis false n c)) (thd3 (kaxis false n c)) == v.
Proof.
  destruct kaxis_full_eq as [E1 [E2 E3]]. rewrite E3. unfold cell_of. rewrite E1, E2.
  pose proof nq_pos as Hq. pose proof half_sum as HS.
  assert (A : inject_Z ((n - 1) / 2) + inject_Z (n / 2) == inject_Z n - 1).
  { rewrite <- inject_Z_plus, HS. unfold Zminus. rewrite inject_Z_plus. reflexivity. }
  field_simplify_eq; [|lra].
  setoid_replace (inject_Z ((n - 1) / 2)) with (inject_Z n - 1 - inject_Z (n / 2)) by lra. ring.
Qed.

Lemma kcentre_full j : kcentre false n c j == freq_val n c (j - n / 2).
Proof.
  rewrite kcentre_unfold. unfold i2p1, half_cell. rewrite kcell_full.
  destruct kaxis_full_eq as [E1 _]. rewrite E1. rewrite freq_val_v.
  unfold Zminus. rewrite inject_Z_plus, inject_Z_opp. field.
Qed.

Lemma kcell_real :
  cell_of (fst3 (kaxis true n c)) (snd3 (kaxis true n c)) (thd3 (kaxis true n c)) == v.
Proof.
  destruct kaxis_real_eq as [E1 [E2 E3]]. rewrite E3. unfold cell_of. rewrite E1, E2.
  pose proof half_bounds as HB.
  assert (Hq : 0 < inject_Z (n / 2 + 1)) by (apply inject_Z_pos; lia).
  rewrite inject_Z_plus in *. change (inject_Z 1) with 1 in *. field. lra.
Qed.

Lemma kcentre_real j : kcentre true n c j == freq_val n c j.
Proof.
  rewrite kcentre_unfold. unfold i2p1, half_cell. rewrite kcell_real.
  destruct kaxis_real_eq as [E1 _]. rewrite E1. rewrite freq_val_v. field.
Qed.

End Axis.

(* ---------- exported statements ---------- *)
(* the k-cell centres ARE the shifted fftfreq values: centre j = (j - n//2)/(n c) = the
   frequency of the DFT bin that fftshift puts at position j *)
Theorem kcentres_full n c j : (2 <= n)%Z -> 0 < c -> (0 <= j < n)%Z ->
  thd3 (kaxis false n c) = n /\
  kcentre false n c j == inject_Z (j - n / 2) / (inject_Z n * c) /\
  kcentre false n c j == nth (Z.to_nat (fftshift_src n j)) (fftfreq n c) 0.
Proof.
  intros Hn Hc Hj. split; [apply kaxis_full_eq; assumption|].
  pose proof (nq_pos n Hn) as Hq.
  split.
  - rewrite kcentre_full by assumption. unfold freq_val. field. lra.
  - rewrite kcentre_full by assumption.
    rewrite fftfreq_nth by (try assumption; apply fftshift_src_range; lia).
    rewrite fftfreq_bin_shift by lia. reflexivity.
Qed.

(* last axis of the real transform: centre j = j/(n c) = rfftfreq[j], n//2+1 cells *)
Theorem kcentres_real n c j : (2 <= n)%Z -> 0 < c -> (0 <= j <= n / 2)%Z ->
  thd3 (kaxis true n c) = (n / 2 + 1)%Z /\
  kcentre true n c j == inject_Z j / (inject_Z n * c) /\
  kcentre true n c j == nth (Z.to_nat j) (rfftfreq n c) 0.
Proof.
  intros Hn Hc Hj. split; [apply kaxis_real_eq; assumption|].
  pose proof (nq_pos n Hn) as Hq.
  split.
  - rewrite kcentre_real by assumption. unfold freq_val. field. lra.
  - rewrite kcentre_real by assumption. rewrite rfftfreq_nth by assumption. reflexivity.
Qed.

(* single-cell axis: one k-cell of size 1/c centred at the only DFT frequency, 0 *)
Theorem kcentre_single b c : 0 < c ->
  thd3 (kaxis b 1 c) = 1%Z /\ kcentre b 1 c 0 == 0 /\
  cell_of (fst3 (kaxis b 1 c)) (snd3 (kaxis b 1 c)) 1 == 1 / c.
Proof.
  intro Hc. unfold kcentre, kaxis. simpl. unfold i2p1, cell_of, half_cell, fst3, snd3, thd3. simpl.
  split; [reflexivity|]. split; field; lra.
Qed.

(* ---------- Mesh.ifftn along one axis ---------- *)
(* for any k-cell size ck > 0 and count s >= 2 the real-space axis has s cells of size
   1/(s ck) and, after recentring, is symmetric about the origin *)
Lemma iaxis_general s ck : (2 <= s)%Z -> 0 < ck ->
  exists lo hi, iaxis s ck = Some (lo, hi, s) /\ lo < hi /\
    cell_of lo hi s == 1 / (inject_Z s * ck) /\
    lo - (1 # 2) * (lo + hi) == - (hi - (1 # 2) * (lo + hi)).
Proof.
  intros Hs Hck. unfold iaxis.
  destruct (s =? 1)%Z eqn:E1; [apply Z.eqb_eq in E1; lia|].
  destruct (s <=? 0)%Z eqn:E2; [apply Z.leb_le in E2; lia|].
  rewrite (fftfreq_length s ck Hs).
  eexists; eexists; split; [reflexivity|].
  pose proof (kaxis_full_eq s ck Hs Hck) as K. pose proof (kcell_full s ck Hs Hck) as KC.
  unfold kaxis in K, KC. rewrite E1 in K, KC. unfold fst3, snd3, thd3 in K, KC. simpl in K, KC.
  destruct K as [K1 [K2 K3]]. rewrite K3 in KC.
  pose proof (v_pos s ck Hs Hck) as Hv. pose proof (nq_pos s Hs) as Hq.
  pose proof (half_sum s) as HS. pose proof (half_bounds s Hs) as HB.
  split; [|split].
  - rewrite K1, K2.
    assert (0 <= inject_Z ((s - 1) / 2)) by (change 0 with (inject_Z 0); rewrite <- Zle_Qle; lia).
    assert (0 <= inject_Z (s / 2)) by (change 0 with (inject_Z 0); rewrite <- Zle_Qle; lia).
    set (w := 1 / (inject_Z s * ck)) in *.
    assert (0 <= inject_Z ((s - 1) / 2) * w) by (apply Qmult_le_0_compat; lra).
    assert (0 <= inject_Z (s / 2) * w) by (apply Qmult_le_0_compat; lra).
    assert (w / 2 + w / 2 == w) by field. lra.
  - exact KC.
  - ring.
Qed.

Lemma iaxis_single ck : 0 < ck ->
  iaxis 1 ck = Some (0, 1 / ck, 1%Z) /\ cell_of 0 (1 / ck) 1 == 1 / ck.
Proof. intro H. split; [reflexivity|]. unfold cell_of. field. lra. Qed.

(* Mesh.ifftn o Mesh.fftn along one axis: original count, original cell, centred at 0.
   [rl] = last axis of the real transform (then the original count must be supplied). *)
Theorem axis_roundtrip (rl : bool) n c : (1 <= n)%Z -> 0 < c ->
  let ka := kaxis rl n c in
  let ck := cell_of (fst3 ka) (snd3 ka) (thd3 ka) in
  exists lo hi, iaxis n ck = Some (lo, hi, n) /\ lo < hi /\ cell_of lo hi n == c /\
    lo - (1 # 2) * (lo + hi) == - (hi - (1 # 2) * (lo + hi)) /\
    (hi - (1 # 2) * (lo + hi)) - (lo - (1 # 2) * (lo + hi)) == inject_Z n * c.
Proof.
  intros Hn Hc ka ck.
  destruct (Z.eq_dec n 1) as [->|Hne].
  - assert (Eck : ck == 1 / c).
    { unfold ck, ka, kaxis. simpl. unfold cell_of, fst3, snd3, thd3. simpl. field. lra. }
    assert (Hck : 0 < ck) by (rewrite Eck; apply Qdiv_pos; lra).
    exists 0, (1 / ck). split; [reflexivity|].
    assert (E : 1 / ck == c) by (rewrite Eck; field; lra).
    split; [rewrite E; lra|]. split; [unfold cell_of; rewrite E; field|].
    split; [ring|]. rewrite E. change (inject_Z 1) with 1. ring.
  - assert (H2 : (2 <= n)%Z) by lia.
    pose proof (nq_pos n H2) as Hq.
    assert (Eck : ck == 1 / (inject_Z n * c)).
    { unfold ck, ka. destruct rl; [apply kcell_real | apply kcell_full]; assumption. }
    assert (Hck : 0 < ck) by (rewrite Eck; apply (v_pos n c H2 Hc)).
    destruct (iaxis_general n ck H2 Hck) as [lo [hi [E [Hlt [Ec Es]]]]].
    exists lo, hi. split; [exact E|]. split; [exact Hlt|].
    assert (Ec2 : cell_of lo hi n == c).
    { rewrite Ec, Eck. field. lra. }
    split; [exact Ec2|]. split; [exact Es|].
    unfold cell_of in Ec2.
    assert (hi - lo == inject_Z n * c).
    { assert (A : (hi - lo) / inject_Z n * inject_Z n == hi - lo) by (field; lra).
      rewrite <- A, Ec2. ring. }
    lra.
Qed.
