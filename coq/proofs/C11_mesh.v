(* C11: Mesh.fftn over all axes (list level): accepted on every well-formed mesh, counts =
   kshape, reciprocal names/units, and every axis of the k-region is the per-axis k-axis to which
   the centre theorems (C11_kcentres...) apply. *)
From DF Require Import Prelude Constants_gen Region Mesh Fft QLemmas ListLemmas C01_axis C11_shift C11_kmesh C11_arrange.
Open Scope Q_scope.

Lemma kaxis_lt b n c : (1 <= n)%Z -> 0 < c -> fst3 (kaxis b n c) < snd3 (kaxis b n c).
Proof.
  intros Hn Hc. destruct (Z.eq_dec n 1) as [->|Hne].
  - unfold kaxis, fst3, snd3. simpl.
    assert (0 < (1 # 2) / c) by (apply Qdiv_pos; lra).
    assert (E : - (1 # 2) / c == - ((1 # 2) / c)) by (field; lra). rewrite E. lra.
  - assert (H2 : (2 <= n)%Z) by lia. pose proof (v_pos n c H2 Hc) as Hv.
    pose proof (half_bounds n H2) as HB.
    assert (A : 0 <= inject_Z (n / 2)) by (change 0 with (inject_Z 0); rewrite <- Zle_Qle; lia).
    assert (B : 0 <= inject_Z ((n - 1) / 2)) by (change 0 with (inject_Z 0); rewrite <- Zle_Qle; lia).
    set (w := 1 / (inject_Z n * c)) in *.
    assert (W : w / 2 + w / 2 == w) by field.
    destruct b.
    + destruct (kaxis_real_eq n c H2 Hc) as [E1 [E2 _]]. rewrite E1, E2. fold w.
      assert (0 <= inject_Z (n / 2) * w) by (apply Qmult_le_0_compat; lra). lra.
    + destruct (kaxis_full_eq n c H2 Hc) as [E1 [E2 _]]. rewrite E1, E2. fold w.
      assert (0 <= inject_Z (n / 2) * w) by (apply Qmult_le_0_compat; lra).
      assert (0 <= inject_Z ((n - 1) / 2) * w) by (apply Qmult_le_0_compat; lra). lra.
Qed.

Lemma kaxis_count b n c : (1 <= n)%Z -> 0 < c -> thd3 (kaxis b n c) = if b then (n / 2 + 1)%Z else n.
Proof.
  intros Hn Hc. destruct (Z.eq_dec n 1) as [->|Hne].
  - unfold kaxis, thd3. simpl. destruct b; reflexivity.
  - assert (H2 : (2 <= n)%Z) by lia. destruct b.
    + apply (kaxis_real_eq n c H2 Hc).
    + apply (kaxis_full_eq n c H2 Hc).
Qed.

Definition axes (rfft : bool) (fl : list bool) (ns : list Z) (cs : list Q) : list (Q * Q * Z) :=
  map3 (fun k c (l : bool) => kaxis (rfft && l) k c) ns cs fl.

Lemma axes_facts rfft : forall ns cs fl, Forall (fun k => (1 <= k)%Z) ns -> Forall (fun c => 0 < c) cs ->
  length cs = length ns -> length fl = length ns ->
  length (axes rfft fl ns cs) = length ns /\
  Forall2 Qlt (map fst3 (axes rfft fl ns cs)) (map snd3 (axes rfft fl ns cs)) /\
  map thd3 (axes rfft fl ns cs) = kshapeg rfft fl ns /\
  Forall (fun k => (0 < k)%Z) (map thd3 (axes rfft fl ns cs)).
Proof.
  unfold axes, kshapeg.
  induction ns as [|k ns IH]; intros cs fl Hn Hc L1 L2; destruct cs as [|c cs]; destruct fl as [|l fl]; try discriminate.
  - simpl. repeat split; constructor.
  - inversion Hn as [|? ? Hk Hns]; subst. inversion Hc as [|? ? Hc0 Hcs]; subst. simpl in L1, L2.
    destruct (IH cs fl Hns Hcs ltac:(lia) ltac:(lia)) as [A [B [C D]]]. simpl.
    split; [rewrite A; reflexivity|]. split; [constructor; [apply kaxis_lt; assumption | exact B]|].
    rewrite (kaxis_count (rfft && l) k c Hk Hc0).
    split; [f_equal; exact C|].
    constructor; [|exact D].
    destruct (rfft && l); [|lia].
    pose proof (Z.div_mod k 2 ltac:(lia)). pose proof (Z.mod_pos_bound k 2 ltac:(lia)). lia.
Qed.

(* ---------- the constructors accept ---------- *)
Lemma no_zero_edge p1 : forall p2, Forall2 Qlt p1 p2 ->
  existsb (fun e => Qeq_bool e 0) (edges_of (map2 Qmin p1 p2) (map2 Qmax p1 p2)) = false.
Proof.
  unfold edges_of. induction 1 as [|a b p1 p2 Hab H IH]; [reflexivity|]. simpl. rewrite IH, orb_false_r.
  destruct (Qeq_bool (Qmax a b - Qmin a b) 0) eqn:E; [|reflexivity].
  apply Qeq_bool_iff in E. rewrite Q.max_r, Q.min_l in E by (apply Qlt_le_weak; exact Hab). lra.
Qed.

Lemma kdim_inj a b : kdim a = kdim b -> a = b.
Proof. unfold kdim. simpl. intro H. injection H. auto. Qed.

Lemma nodupb_map_kdim ds : NoDup ds -> nodupb (map kdim ds) = true.
Proof.
  induction 1 as [|h t Hh Ht IH]; [reflexivity|].
  change (nodupb (map kdim (h :: t))) with (negb (existsb (String.eqb (kdim h)) (map kdim t)) && nodupb (map kdim t)).
  rewrite IH, andb_true_r.
  apply negb_true_iff. destruct (existsb (String.eqb (kdim h)) (map kdim t)) eqn:E; [|reflexivity].
  apply existsb_exists in E. destruct E as [x [Hx Ex]]. apply String.eqb_eq in Ex. subst x.
  apply in_map_iff in Hx. destruct Hx as [y [Ey Hy]]. apply kdim_inj in Ey. subst y. contradiction.
Qed.

Lemma Forall2_Qlt_length p1 p2 : Forall2 Qlt p1 p2 -> length p1 = length p2.
Proof. induction 1; simpl; congruence. Qed.

Lemma cells_pos : forall lo hi ns, Forall2 Qlt lo hi -> length ns = length lo -> Forall (fun k => (0 < k)%Z) ns ->
  Forall (fun c => 0 < c) (map3 cell_of lo hi ns) /\ length (map3 cell_of lo hi ns) = length ns.
Proof.
  induction lo as [|a lo IH]; intros hi ns H L Hn; inversion H as [|? b ? hi' Hab Hrest]; subst;
    destruct ns as [|k ns]; try discriminate.
  - split; [constructor | reflexivity].
  - inversion Hn as [|? ? Hk Hns]; subst. simpl in L. destruct (IH hi' ns Hrest ltac:(lia) Hns) as [A B]. simpl.
    split; [constructor; [apply (cell_pos a b k Hab Hk) | exact A] | rewrite B; reflexivity].
Qed.

(* Mesh.fftn on a well-formed mesh *)
Theorem mesh_fftn_ok (m : mesh) (rfft : bool) : wf_mesh m ->
  let ax := axes rfft (last_flags (length (n m))) (n m) (cell m) in
  exists km, mesh_fftn m rfft = OK km /\
    n km = kshape rfft (n m) /\
    dims (reg km) = map kdim (dims (reg m)) /\ units (reg km) = map kunit (units (reg m)) /\
    pmin (reg km) = map2 Qmin (map fst3 ax) (map snd3 ax) /\
    pmax (reg km) = map2 Qmax (map fst3 ax) (map snd3 ax) /\
    Forall2 Qlt (map fst3 ax) (map snd3 ax) /\ length ax = length (n m) /\ tf (reg km) = tf (reg m).
Proof.
  intros [[W1 [W2 [W3 [W4 [W5 [W6 W7]]]]]] [Wn Wp]] ax.
  assert (Hn1 : Forall (fun k => (1 <= k)%Z) (n m)) by (eapply Forall_impl; [|exact Wp]; simpl; intros; lia).
  destruct (cells_pos (pmin (reg m)) (pmax (reg m)) (n m) W6 Wn Wp) as [Hc Lc]. fold (cell m) in Hc, Lc.
  destruct (axes_facts rfft (n m) (cell m) (last_flags (length (n m))) Hn1 Hc Lc (last_flags_length _))
    as [A [B [C D]]]. fold ax in A, B, C, D.
  unfold mesh_fftn. unfold ndim. rewrite <- Wn. fold (axes rfft (last_flags (length (n m))) (n m) (cell m)). fold ax.
  unfold mk_region.
  assert (L1 : length (map fst3 ax) = length (n m)) by (rewrite map_length; exact A).
  assert (L2 : length (map snd3 ax) = length (n m)) by (rewrite map_length; exact A).
  rewrite L1, L2, Nat.eqb_refl. simpl negb. cbv iota.
  destruct (length (n m) =? 0)%nat eqn:E0; [apply Nat.eqb_eq in E0; lia|].
  rewrite !map_length, W3, W4, <- Wn, Nat.eqb_refl. simpl negb. cbv iota.
  rewrite (nodupb_map_kdim _ W5). simpl negb. cbv iota. simpl bind.
  rewrite (no_zero_edge _ _ B). simpl bind.
  unfold mk_mesh_n, ndim. simpl pmin.
  rewrite map2_length, !map_length, A, Nat.min_id, Nat.eqb_refl. simpl negb. cbv iota.
  assert (Fp : forallb (fun k => (0 <? k)%Z) (map thd3 ax) = true).
  { apply forallb_forall. intros x Hx. rewrite Forall_forall in D. apply Z.ltb_lt. apply D. exact Hx. }
  rewrite Fp. simpl negb. cbv iota.
  eexists. split; [reflexivity|]. simpl.
  repeat split; try reflexivity; try assumption.
Qed.

Lemma wf_mesh_nonvacuous :
  wf_mesh (mkMesh (mkRegion [0; 0] [4; 3] ["x"%string; "y"%string] ["m"%string; "m"%string] (1 # 1000)) [4%Z; 3%Z] "" []).
Proof.
  unfold wf_mesh, wf_region. simpl. repeat split; try lia; try reflexivity.
  - constructor; [simpl; intros [H|[]]; discriminate|]. constructor; [simpl; tauto | constructor].
  - repeat constructor.
  - discriminate.
  - repeat constructor.
Qed.
