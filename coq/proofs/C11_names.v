(* C11: reciprocal names / units / labels and their inverses (strings of any length). *)
From DF Require Import Prelude Constants_gen Region Mesh Fft.

Lemma substring_0_length s : substring 0 (String.length s) s = s.
Proof. induction s; simpl; [reflexivity | rewrite IHs; reflexivity]. Qed.

Lemma length_append a b : String.length (String.append a b) = (String.length a + String.length b)%nat.
Proof. induction a; simpl; [reflexivity | rewrite IHa; reflexivity]. Qed.

Lemma substring_prefix a b : substring 0 (String.length a) (String.append a b) = a.
Proof.
  induction a; simpl.
  - destruct b; reflexivity.
  - rewrite IHa. reflexivity.
Qed.

Lemma substring_suffix a b : substring (String.length a) (String.length b) (String.append a b) = b.
Proof. induction a; simpl; [apply substring_0_length | exact IHa]. Qed.

Lemma prefix_empty d : String.prefix "" d = true.
Proof. destruct d; reflexivity. Qed.

Theorem unkdim_kdim d : unkdim (kdim d) = d.
Proof.
  unfold unkdim, kdim. simpl. rewrite prefix_empty, Nat.sub_0_r. apply substring_0_length.
Qed.

Theorem unft_ft v : unft_label (ft_label v) = v.
Proof.
  unfold unft_label, ft_label. simpl. rewrite prefix_empty, Nat.sub_0_r. apply substring_0_length.
Qed.

Theorem unkunit_kunit u : unkunit (kunit u) = u.
Proof.
  unfold unkunit, kunit.
  assert (P : String.prefix "(" (String.append "(" (String.append u kunit_suffix)) = true)
    by (simpl; apply prefix_empty).
  assert (L : String.length (String.append "(" (String.append u kunit_suffix)) = (String.length u + 9)%nat).
  { simpl. rewrite length_append. simpl. lia. }
  assert (E : str_endswith kunit_suffix (String.append "(" (String.append u kunit_suffix)) = true).
  { unfold str_endswith. rewrite L. change (String.length kunit_suffix) with 8%nat.
    replace (8 <=? String.length u + 9)%nat with true by (symmetry; apply Nat.leb_le; lia).
    replace (String.length u + 9 - 8)%nat with (S (String.length u)) by lia.
    simpl. change 8%nat with (String.length kunit_suffix).
    rewrite substring_suffix. apply String.eqb_refl. }
  rewrite P, E. simpl andb. cbv iota. rewrite L. replace (String.length u + 9 - 9)%nat with (String.length u) by lia.
  simpl. apply substring_prefix.
Qed.

Lemma map_inv {A} (f g : A -> A) l : (forall x, g (f x) = x) -> map g (map f l) = l.
Proof. intro H. rewrite map_map. induction l; simpl; [reflexivity | rewrite H, IHl; reflexivity]. Qed.

(* names, units and labels after forward-then-inverse are the original ones, whatever they are *)
Theorem names_roundtrip (ds us vs : list string) :
  map unkdim (map kdim ds) = ds /\ map unkunit (map kunit us) = us /\
  map unft_label (map ft_label vs) = vs.
Proof.
  split; [|split]; apply map_inv; [apply unkdim_kdim | apply unkunit_kunit | apply unft_ft].
Qed.

(* forward renaming: every label gets ft_, every mapped axis gets k_ , in label order *)
Theorem rename_forward vs mp :
  rename false (Some vs) mp =
  (Some (map ft_label vs),
   flat_map (fun v => match assoc v mp with Some d => [(ft_label v, kdim d)] | None => [] end) vs).
Proof. reflexivity. Qed.

Lemma ft_inj a b : ft_label a = ft_label b -> a = b.
Proof. unfold ft_label. simpl. intro H. injection H. auto. Qed.

Lemma assoc_fwd_none mp l v : assoc v mp = None ->
  assoc (ft_label v)
    (flat_map (fun v => match assoc v mp with Some d => [(ft_label v, kdim d)] | None => [] end) l) = None.
Proof.
  intro H. induction l as [|a l IH]; simpl; [reflexivity|].
  destruct (assoc a mp) eqn:E; simpl; [|exact IH].
  destruct (String.eqb v a) eqn:Q; [|exact IH].
  apply String.eqb_eq in Q. subst a. congruence.
Qed.

Lemma assoc_fwd mp l v : In v l ->
  assoc (ft_label v)
    (flat_map (fun v => match assoc v mp with Some d => [(ft_label v, kdim d)] | None => [] end) l)
  = option_map kdim (assoc v mp).
Proof.
  induction l as [|a l IH]; intro H; [contradiction|]. simpl.
  destruct (string_dec a v) as [->|Hne].
  - destruct (assoc v mp) eqn:E; simpl.
    + rewrite String.eqb_refl. reflexivity.
    + apply assoc_fwd_none. exact E.
  - destruct H as [H|H]; [contradiction|].
    destruct (assoc a mp) eqn:E; simpl; [|apply IH; exact H].
    destruct (String.eqb v a) eqn:Q.
    + apply String.eqb_eq in Q. congruence.
    + apply IH; exact H.
Qed.

(* inverse after forward: labels and the (label -> axis) mapping come back *)
Theorem rename_roundtrip vs mp :
  let r := rename false (Some vs) mp in
  rename true (fst r) (snd r) =
  (Some vs, flat_map (fun v => match assoc v mp with Some d => [(v, d)] | None => [] end) vs).
Proof.
  simpl. unfold rename. f_equal; [f_equal; apply map_inv; apply unft_ft|].
  rewrite flat_map_concat_map, map_map, <- flat_map_concat_map.
  assert (G : forall l, (forall v, In v l -> In v vs) ->
    flat_map (fun x => match assoc (ft_label x)
        (flat_map (fun v => match assoc v mp with Some d => [(ft_label v, kdim d)] | None => [] end) vs)
      with Some d => [(unft_label (ft_label x), unkdim d)] | None => [] end) l
    = flat_map (fun v => match assoc v mp with Some d => [(v, d)] | None => [] end) l).
  { induction l as [|a l IH]; intro Hs; [reflexivity|]. simpl.
    rewrite assoc_fwd by (apply Hs; left; reflexivity).
    rewrite IH by (intros; apply Hs; right; assumption).
    destruct (assoc a mp); simpl; [rewrite unft_ft, unkdim_kdim|]; reflexivity. }
  apply G. auto.
Qed.
