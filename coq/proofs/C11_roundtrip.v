(* C11: Mesh.ifftn (Mesh.fftn m) over all axes: accepted (given the original counts for the real
   kind), original counts, names and units, every axis centred at the origin. *)
From DF Require Import Prelude Constants_gen Region Mesh Fft QLemmas ListLemmas C01_axis C11_shift C11_kmesh
  C11_names C11_arrange C11_shape C11_mesh C11_imesh.
From Coq Require Import FinFun.
Open Scope Q_scope.

Lemma minmax_lt p1 : forall p2, Forall2 Qlt p1 p2 ->
  Forall2 (fun a b => a < b) (map2 Qmin p1 p2) (map2 Qmax p1 p2).
Proof.
  induction 1 as [|a b p1 p2 Hab H IH]; [constructor|]. simpl. constructor; [|exact IH].
  rewrite Q.min_l, Q.max_r by (apply Qlt_le_weak; exact Hab). exact Hab.
Qed.

Lemma kshape_pos rfft ns : Forall (fun k => (0 < k)%Z) ns -> Forall (fun k => (0 < k)%Z) (kshape rfft ns).
Proof.
  unfold kshape. generalize (last_flags (length ns)). induction ns as [|k ns IH]; intros fl H; [constructor|].
  destruct fl as [|l fl]; [constructor|]. inversion H as [|? ? Hk Hns]; subst. simpl. constructor; [|apply IH; exact Hns].
  destruct (rfft && l); [|exact Hk].
  pose proof (Z.div_mod k 2 ltac:(lia)). pose proof (Z.mod_pos_bound k 2 ltac:(lia)). lia.
Qed.

Lemma wf_kmesh m rfft km : wf_mesh m -> mesh_fftn m rfft = OK km -> wf_mesh km.
Proof.
  intros W E. destruct (mesh_fftn_ok m rfft W) as [km' [E' [Hn [Hd [Hu [Hlo [Hhi [Hlt [Hl Ht]]]]]]]]].
  rewrite E in E'. injection E' as <-.
  destruct W as [[W1 [W2 [W3 [W4 [W5 [W6 W7]]]]]] [Wn Wp]].
  assert (Lp : length (pmin (reg km)) = length (n m)).
  { rewrite Hlo, map2_length, !map_length, Hl. apply Nat.min_id. }
  assert (Lq : length (pmax (reg km)) = length (n m)).
  { rewrite Hhi, map2_length, !map_length, Hl. apply Nat.min_id. }
  split; [|split].
  - unfold wf_region. rewrite Hd, Hu, !map_length, Lp, Lq, Ht.
    repeat split; try lia; try assumption.
    + apply Injective_map_NoDup; [|exact W5]. intros a b. apply kdim_inj.
    + rewrite Hlo, Hhi. apply minmax_lt. exact Hlt.
  - rewrite Hn, kshape_length, Lp. reflexivity.
  - rewrite Hn. apply kshape_pos. exact Wp.
Qed.

Theorem mesh_roundtrip (m : mesh) (rfft : bool) : wf_mesh m ->
  exists km m' axl, mesh_fftn m rfft = OK km /\
    mesh_ifftn km rfft (if rfft then ShList (n m) else ShNone) = OK m' /\
    n m' = n m /\ dims (reg m') = dims (reg m) /\ units (reg m') = units (reg m) /\
    pmin (reg m') = map (fun a => fst (fin a)) axl /\ pmax (reg m') = map (fun a => snd (fin a)) axl /\
    Forall2 (fun a p => thd3 a = fst p /\ fst (fin a) == - snd (fin a) /\
                        snd (fin a) - fst (fin a) == 1 / snd p) axl (combine (n m) (cell km)).
Proof.
  intro W. destruct (mesh_fftn_ok m rfft W) as [km [E [Hn [Hd [Hu _]]]]].
  pose proof (wf_kmesh m rfft km W E) as Wk.
  destruct W as [[W1 [W2 [W3 [W4 [W5 [W6 W7]]]]]] [Wn Wp]].
  assert (Hne : n m <> []) by (intro Q; rewrite Q in Wn; simpl in Wn; lia).
  assert (Hs : ifft_shape (n km) rfft (if rfft then ShList (n m) else ShNone) = OK (n m)).
  { rewrite Hn. destruct rfft.
    - apply ifft_shape_original. exact Hne.
    - unfold ifft_shape, ifft_shape_gen. simpl andb. cbv iota.
      change (kshape false (n m)) with (kshapeg false (last_flags (length (n m))) (n m)).
      rewrite kshapeg_false by apply last_flags_length. reflexivity. }
  assert (Hp : Forall (fun j => (1 <= j)%Z) (n m)) by (eapply Forall_impl; [|exact Wp]; simpl; intros; lia).
  assert (Hdd : NoDup (map unkdim (dims (reg km)))).
  { rewrite Hd. rewrite (map_inv kdim unkdim) by apply unkdim_kdim. exact W5. }
  destruct (mesh_ifftn_ok km rfft _ (n m) Wk Hs ltac:(rewrite Hn, kshape_length; reflexivity) Hp Hdd)
    as [m' [axl [E' [Hn' [Hd' [Hu' [Hlo [Hhi F]]]]]]]].
  exists km, m', axl. split; [exact E|]. split; [exact E'|]. split; [exact Hn'|].
  split; [rewrite Hd', Hd; apply map_inv; apply unkdim_kdim|].
  split; [rewrite Hu', Hu; apply map_inv; apply unkunit_kunit|].
  split; [exact Hlo|]. split; [exact Hhi | exact F].
Qed.
