(* C11: shape validation of Mesh.ifftn, list level, and how it composes with the counts of the
   k-mesh (kshape). *)
From DF Require Import Prelude Constants_gen Region Mesh Fft ListLemmas C11_shift C11_arrange.
Open Scope Z_scope.

Lemma zlist_eqb_eq a : forall b, zlist_eqb a b = true <-> a = b.
Proof.
  unfold zlist_eqb. induction a as [|x a IH]; intros [|y b]; simpl; split; intro H;
    try reflexivity; try discriminate.
  - apply andb_true_iff in H. destruct H as [H1 H2]. apply Z.eqb_eq in H1. apply IH in H2. congruence.
  - injection H as -> ->. rewrite Z.eqb_refl. simpl. apply IH. reflexivity.
Qed.

(* an explicit shape is accepted iff it has the mesh's length, agrees with the counts on every
   axis but the last, and its last entry s satisfies s//2 + 1 = n_last; it is then used as is *)
Theorem ifft_shape_accepts ns rfft s :
  (ifft_shape ns rfft (ShList s) = OK s <->
   length s = length ns /\ removelast s = removelast ns /\ zlast s / 2 + 1 = zlast ns) /\
  (is_ok (ifft_shape ns rfft (ShList s)) = true -> ifft_shape ns rfft (ShList s) = OK s).
Proof.
  unfold ifft_shape, ifft_shape_gen. simpl andb.
  destruct (length s =? length ns)%nat eqn:E1; simpl negb; cbv iota.
  2:{ apply Nat.eqb_neq in E1. split; [split; [discriminate | tauto] | discriminate]. }
  apply Nat.eqb_eq in E1.
  destruct (zlist_eqb (removelast s) (removelast ns)) eqn:E2; simpl negb; cbv iota.
  2:{ split; [split; [discriminate|] | discriminate]. intros [_ [H _]]. apply zlist_eqb_eq in H. congruence. }
  apply zlist_eqb_eq in E2.
  destruct (zlast s / 2 + 1 =? zlast ns) eqn:E3; simpl negb; cbv iota.
  - apply Z.eqb_eq in E3. split; [split; [tauto | reflexivity] | reflexivity].
  - apply Z.eqb_neq in E3. split; [split; [discriminate | tauto] | discriminate].
Qed.

(* counts of the k-mesh of the real transform *)
Lemma kshape_cons real k k' rest : kshape real (k :: k' :: rest) = k :: kshape real (k' :: rest).
Proof. unfold kshape. simpl length. change (last_flags (S (S (length rest)))) with (false :: last_flags (S (length rest))).
  simpl map2 at 1. rewrite andb_false_r. reflexivity. Qed.

Lemma kshape_removelast real : forall ns, removelast (kshape real ns) = removelast ns.
Proof.
  induction ns as [|k ns IH]; [reflexivity|]. destruct ns as [|k' rest]; [reflexivity|].
  rewrite kshape_cons. 
  assert (N : kshape real (k' :: rest) <> []).
  { intro E. apply (f_equal (@length Z)) in E. rewrite kshape_length in E. discriminate. }
  destruct (kshape real (k' :: rest)) eqn:Q; [contradiction|].
  change (removelast (k :: z :: l)) with (k :: removelast (z :: l)). rewrite IH. reflexivity.
Qed.

Lemma kshape_zlast real : forall ns, ns <> [] ->
  zlast (kshape real ns) = if real then zlast ns / 2 + 1 else zlast ns.
Proof.
  induction ns as [|k ns IH]; intro H; [contradiction|]. destruct ns as [|k' rest].
  - unfold kshape, zlast. simpl. rewrite andb_true_r. destruct real; reflexivity.
  - rewrite kshape_cons.
    assert (N : kshape real (k' :: rest) <> []).
    { intro E. apply (f_equal (@length Z)) in E. rewrite kshape_length in E. discriminate. }
    unfold zlast in *. destruct (kshape real (k' :: rest)) eqn:Q; [contradiction|].
    change (last (k :: z :: l) 0) with (last (z :: l) 0). rewrite IH by discriminate. reflexivity.
Qed.

(* the original counts are always an acceptable shape for the k-mesh of the real transform, and
   they are the default when the last count is even or 1 *)
Theorem ifft_shape_original ns : ns <> [] ->
  ifft_shape (kshape true ns) true (ShList ns) = OK ns /\
  ((zlast ns mod 2 = 0 \/ zlast ns = 1) -> 1 <= zlast ns ->
   ifft_shape (kshape true ns) true ShNone = OK ns).
Proof.
  intro H. split.
  - apply (proj1 (ifft_shape_accepts (kshape true ns) true ns)).
    rewrite kshape_length, kshape_removelast, kshape_zlast by exact H. auto.
  - intros Hpar Hpos. unfold ifft_shape, ifft_shape_gen.
    rewrite kshape_zlast, kshape_removelast by exact H. simpl andb. f_equal.
    assert (A : removelast ns ++ [zlast ns] = ns) by (symmetry; apply app_removelast_last; exact H).
    destruct (zlast ns / 2 + 1 =? 1) eqn:E.
    + apply Z.eqb_eq in E. simpl negb. cbv iota.
      (* n//2 = 0 with n >= 1: n = 1, counts of the k-mesh equal the original ones *)
      assert (zlast ns = 1).
      { pose proof (Z.div_mod (zlast ns) 2 ltac:(lia)). pose proof (Z.mod_pos_bound (zlast ns) 2 ltac:(lia)). lia. }
      assert (N : kshape true ns <> []).
      { intro E2. apply (f_equal (@length Z)) in E2. rewrite kshape_length in E2. destruct ns; [contradiction | discriminate]. }
      transitivity (removelast ns ++ [zlast ns]); [|exact A].
      etransitivity; [exact (app_removelast_last 0 N)|].
      rewrite kshape_removelast. change (last (kshape true ns) 0) with (zlast (kshape true ns)).
      rewrite kshape_zlast by exact H. f_equal. f_equal. lia.
    + apply Z.eqb_neq in E. simpl negb. cbv iota.
      transitivity (removelast ns ++ [zlast ns]); [|exact A]. f_equal. f_equal.
      destruct Hpar as [He|H1].
      * pose proof (Z.div_mod (zlast ns) 2 ltac:(lia)). lia.
      * rewrite H1 in E. simpl in E. lia.
Qed.

Lemma shape_original_nonvacuous : [4; 5] <> [] /\ (zlast [4; 6] mod 2 = 0 /\ 1 <= zlast [4; 6]).
Proof. split; [discriminate|]. split; [reflexivity|]. unfold zlast. simpl. lia. Qed.
