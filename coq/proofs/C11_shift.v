(* C11: fftshift / ifftshift as index maps, and the DFT bin each array position holds.
   All statements are for every size n (no bound). *)
From DF Require Import Prelude Constants_gen Region Mesh Fft.
Open Scope Z_scope.

Lemma fftshift_src_range n j : 0 < n -> 0 <= fftshift_src n j < n.
Proof. intro H. unfold fftshift_src. apply Z.mod_pos_bound. exact H. Qed.

Lemma ifftshift_src_range n j : 0 < n -> 0 <= ifftshift_src n j < n.
Proof. intro H. unfold ifftshift_src. apply Z.mod_pos_bound. exact H. Qed.

(* ifftshift o fftshift = id and fftshift o ifftshift = id, as arrays: position j of
   ifftshift(fftshift(x)) reads x at fftshift_src (ifftshift_src j) *)
Lemma fftshift_ifftshift n j : 0 < n -> 0 <= j < n -> fftshift_src n (ifftshift_src n j) = j.
Proof.
  intros Hn Hj. unfold fftshift_src, ifftshift_src.
  rewrite Zminus_mod_idemp_l.
  replace (j + n / 2 - n / 2) with j by lia. apply Z.mod_small. exact Hj.
Qed.

Lemma ifftshift_fftshift n j : 0 < n -> 0 <= j < n -> ifftshift_src n (fftshift_src n j) = j.
Proof.
  intros Hn Hj. unfold fftshift_src, ifftshift_src.
  rewrite Zplus_mod_idemp_l.
  replace (j - n / 2 + n / 2) with j by lia. apply Z.mod_small. exact Hj.
Qed.

(* for even n the two shifts coincide ... *)
Lemma shifts_agree_even n j : 0 < n -> n mod 2 = 0 -> fftshift_src n j = ifftshift_src n j.
Proof.
  intros Hn He. unfold fftshift_src, ifftshift_src.
  assert (E : n = 2 * (n / 2)) by (pose proof (Z.div_mod n 2); lia).
  replace (j + n / 2) with (j - n / 2 + 1 * n) by lia.
  rewrite Z.mod_add by lia. reflexivity.
Qed.

(* ... for odd n >= 3 they are NOT interchangeable: shifting twice moves every entry by one *)
Lemma fftshift_twice_odd n j : 0 < n -> n mod 2 = 1 -> 0 <= j < n ->
  fftshift_src n (fftshift_src n j) = (j + 1) mod n.
Proof.
  intros Hn Ho Hj. unfold fftshift_src.
  rewrite Zminus_mod_idemp_l.
  assert (E : n = 2 * (n / 2) + 1) by (pose proof (Z.div_mod n 2); lia).
  replace (j - n / 2 - n / 2) with (j + 1 + (-1) * n) by lia.
  rewrite Z.mod_add by lia. reflexivity.
Qed.

Lemma shifts_differ_odd n j : 3 <= n -> n mod 2 = 1 -> 0 <= j < n ->
  fftshift_src n (fftshift_src n j) <> j /\ fftshift_src n j <> ifftshift_src n j.
Proof.
  intros Hn Ho Hj.
  assert (A : fftshift_src n (fftshift_src n j) <> j).
  { rewrite fftshift_twice_odd by lia.
    destruct (Z.eq_dec j (n - 1)) as [->|Hne].
    - replace (n - 1 + 1) with (0 + 1 * n) by lia. rewrite Z.mod_add by lia.
      rewrite Z.mod_small by lia. lia.
    - rewrite Z.mod_small by lia. lia. }
  split; [exact A|].
  intro E. apply A. rewrite E at 1. apply fftshift_ifftshift; lia.
Qed.

(* the signed DFT bin found at the source position of a shifted array: position j of
   fftshift(X) holds the bin  j - n//2  (so bins run from -(n//2) to (n-1)//2, in order) *)
Lemma fftfreq_bin_shift n j : 0 < n -> 0 <= j < n ->
  fftfreq_bin n (fftshift_src n j) = j - n / 2.
Proof.
  intros Hn Hj. unfold fftfreq_bin, fftshift_src.
  pose proof (Z.div_mod n 2 ltac:(lia)) as E. pose proof (Z.mod_pos_bound n 2 ltac:(lia)) as B.
  pose proof (Z.div_mod (n - 1) 2 ltac:(lia)) as E1. pose proof (Z.mod_pos_bound (n - 1) 2 ltac:(lia)) as B1.
  destruct (Z_lt_le_dec j (n / 2)) as [Hlt|Hge].
  - replace (j - n / 2) with (j - n / 2 + n + (-1) * n) by lia.
    rewrite Z.mod_add by lia. rewrite Z.mod_small by lia.
    destruct (j - n / 2 + n <=? (n - 1) / 2) eqn:C; [apply Z.leb_le in C; lia | lia].
  - rewrite Z.mod_small by lia.
    destruct (j - n / 2 <=? (n - 1) / 2) eqn:C; [reflexivity | apply Z.leb_gt in C; lia].
Qed.

(* and it is the natural-order DFT bin (j - n//2) mod n *)
Lemma fftshift_src_is_bin_mod n j : fftshift_src n j = (j - n / 2) mod n.
Proof. reflexivity. Qed.

(* bins of the natural order: position m holds the signed bin congruent to m, in (-n/2, n/2] *)
Lemma fftfreq_bin_congr n m : 0 < n -> 0 <= m < n ->
  (fftfreq_bin n m) mod n = m /\ - (n / 2) <= fftfreq_bin n m <= (n - 1) / 2.
Proof.
  intros Hn Hm. unfold fftfreq_bin.
  pose proof (Z.div_mod n 2 ltac:(lia)) as E. pose proof (Z.mod_pos_bound n 2 ltac:(lia)) as B.
  pose proof (Z.div_mod (n - 1) 2 ltac:(lia)) as E1. pose proof (Z.mod_pos_bound (n - 1) 2 ltac:(lia)) as B1.
  destruct (m <=? (n - 1) / 2) eqn:C.
  - apply Z.leb_le in C. rewrite Z.mod_small by lia. lia.
  - apply Z.leb_gt in C. replace (m - n) with (m + (-1) * n) by lia.
    rewrite Z.mod_add by lia. rewrite Z.mod_small by lia. lia.
Qed.

(* real transform, last axis: position t of rfftn (bin t, 0 <= t <= n//2) is found in the full,
   shifted transform at position ifftshift_src n t *)
Lemma real_half_position n t : 0 < n -> 0 <= t < n ->
  src_axis false n (ifftshift_src n t) = src_axis true n t.
Proof. intros Hn Ht. unfold src_axis. apply fftshift_ifftshift; assumption. Qed.

(* the zero-frequency bin sits at position n//2 of a shifted axis (0 of the real last axis) *)
Lemma zero_bin_position n : 0 < n -> src_axis false n (n / 2) = 0 /\ src_axis true n 0 = 0.
Proof.
  intro Hn. unfold src_axis, fftshift_src. rewrite Z.sub_diag. split; [apply Z.mod_0_l; lia | reflexivity].
Qed.

(* the arrangement is a pure re-indexing: it commutes with any cell-wise map (taking a
   component, scaling, adding) -- transforms act per component and the arrangement is linear *)
Lemma arrange_map {V W} (f : V -> W) d real ns bins :
  arrange (f d) real ns (map f bins) = map f (arrange d real ns bins).
Proof.
  unfold arrange. rewrite map_map. apply map_ext. intros j. apply map_nth.
Qed.
