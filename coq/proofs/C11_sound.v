(* C11: soundness of the exact comparisons of check_C11 (labels / component-to-axis mapping after a
   transform; accepted meshes: counts, dimension names and units). *)
From DF Require Import Prelude Constants_gen Region Mesh Fft ListLemmas CheckSound Check_C11.

Lemma pairlist_eqb_sound a b : pairlist_eqb a b = true -> a = b.
Proof.
  intro H. apply Forall2_eq_gen. revert H. apply forallb2_Forall2_gen.
  intros [x1 x2] [y1 y2]; simpl. intro E. apply andb_true_iff in E. destruct E as [E1 E2].
  apply String.eqb_eq in E1, E2. congruence.
Qed.

Lemma opt_strlist_eqb_sound a b : opt_strlist_eqb a b = true -> a = b.
Proof.
  destruct a, b; simpl; intro H; try discriminate; [|reflexivity].
  apply strlist_eqb_sound_gen in H. congruence.
Qed.

Lemma check_names_sound inverse vd mp v' m' :
  check_C11 (CNames inverse vd mp (Some (v', m'))) = true ->
  rename_checked inverse vd mp = OK (v', m').
Proof.
  simpl. destruct (rename_checked inverse vd mp) as [[v m]|e]; [|discriminate].
  intro H. apply andb_true_iff in H. destruct H as [H1 H2].
  apply opt_strlist_eqb_sound in H1. apply pairlist_eqb_sound in H2. congruence.
Qed.

Lemma check_names_reject_sound inverse vd mp :
  check_C11 (CNames inverse vd mp None) = true -> exists e, rename_checked inverse vd mp = Err e.
Proof.
  simpl. destruct (rename_checked inverse vd mp) as [[v m]|e]; [discriminate|]. intros _. exists e. reflexivity.
Qed.

Lemma check_meshf_sound p1 p2 n_ ds us rfft lo hi k ds' us' :
  check_C11 (CMeshF p1 p2 n_ ds us rfft (Some (lo, hi, k, ds', us'))) = true ->
  exists m km, build p1 p2 n_ ds us = OK m /\ mesh_fftn m rfft = OK km /\
    n km = k /\ dims (reg km) = ds' /\ units (reg km) = us'.
Proof.
  cbn [check_C11]. destruct (build p1 p2 n_ ds us) as [m|e]; [|discriminate].
  destruct (mesh_fftn m rfft) as [km|e] eqn:Ek; cbn [check_mesh]; [|discriminate].
  unfold mesh_matches. intro H.
  apply andb_true_iff in H. destruct H as [H Hu].
  apply andb_true_iff in H. destruct H as [H Hd].
  apply andb_true_iff in H. destruct H as [_ Hn].
  exists m, km. split; [reflexivity|]. split; [exact Ek|].
  split; [apply zlist_eqb_sound_gen; assumption|].
  split; apply strlist_eqb_sound_gen; assumption.
Qed.

(* spectra: an accepted case certifies that the observed k-space array is, entry by entry and
   component by component, within rel_tol * (l1 size of the spectrum) of the model's arrangement of
   the independently evaluated DFT bins - and the other way round *)
Open Scope Q_scope.
Definition cplx_near (tol : Q) (a b : cplx) : Prop :=
  Qabs (fst a - fst b) <= tol /\ Qabs (snd a - snd b) <= tol.

Lemma cplx_close_sound tol a b : cplx_close tol a b = true -> cplx_near tol a b.
Proof.
  unfold cplx_close, cplx_near. intro H. apply andb_true_iff in H. destruct H as [H1 H2].
  split; apply Qle_bool_imp_le; assumption.
Qed.

Lemma check_arr_sound real n_ bins arr :
  check_C11 (CArr real n_ bins arr) = true ->
  Z.of_nat (length bins) = zprod n_ /\
  Forall2 (Forall2 (cplx_near (rel_tol * l1 bins))) (arrange [] real n_ bins) arr /\
  Forall2 (Forall2 (cplx_near (rel_tol * l1 bins)))
          (unarrange [] real (kshape real n_) arr) (half_spectrum [] real n_ bins).
Proof.
  cbn [check_C11]. intro H.
  apply andb_true_iff in H. destruct H as [H H3].
  apply andb_true_iff in H. destruct H as [H1 H2].
  split; [apply Z.eqb_eq; exact H1|]. split.
  - revert H2. apply forallb2_Forall2_gen. intros x y. apply forallb2_Forall2_gen. apply cplx_close_sound.
  - revert H3. apply forallb2_Forall2_gen. intros x y. apply forallb2_Forall2_gen. apply cplx_close_sound.
Qed.

(* ---- the checker's constructor establishes wf_mesh, so C11_mesh_fftn applies to the mesh the
   checker builds from the recorded input, and its conclusions hold for the OBSERVED k-mesh's
   counts, dimension names and units ---- *)
From DF Require Import C01_sound C11_mesh.

Lemma build_wf11 p1 p2 n_ ds us m : Check_C11.build p1 p2 n_ ds us = OK m -> wf_mesh m.
Proof.
  unfold Check_C11.build. intro H.
  destruct (mk_region p1 p2 (Some ds) (Some us) (1 # 1000000000000)) as [r|e] eqn:Er; simpl in H; [|discriminate].
  eapply mk_mesh_n_wf; [|exact H].
  eapply mk_region_wf; [exact Er | lra | discriminate].
Qed.

Theorem accepted_kmesh p1 p2 n_ ds us rfft lo hi k ds' us' :
  check_C11 (CMeshF p1 p2 n_ ds us rfft (Some (lo, hi, k, ds', us'))) = true ->
  exists m, Check_C11.build p1 p2 n_ ds us = OK m /\ wf_mesh m /\
    k = kshape rfft (n m) /\
    ds' = map kdim (dims (reg m)) /\
    us' = map kunit (units (reg m)).
Proof.
  intro H. destruct (check_meshf_sound _ _ _ _ _ _ _ _ _ _ _ H) as (m & km & Hb & Hk & Hn & Hd & Hu).
  pose proof (build_wf11 _ _ _ _ _ _ Hb) as Hwf.
  destruct (mesh_fftn_ok m rfft Hwf) as (km' & Hk' & Hn' & Hd' & Hu' & _).
  rewrite Hk in Hk'. inversion Hk'; subst km'.
  exists m. split; [exact Hb|]. split; [exact Hwf|].
  split; [congruence|]. split; congruence.
Qed.
