(* C11: soundness of the exact comparisons of check_C11 (labels / component-to-axis mapping after a
   transform; accepted meshes: counts, dimension names and units). *)
From DF Require Import Prelude Constants_gen Region Mesh Fft ListLemmas CheckSound Check_C11.

Lemma pairlist_eqb_sound a b : pairlist_eqb a b = true -> a = b.
Proof.
  intro H. apply Forall2_eq_gen. revert H. apply forallb2_Forall2_gen.
  intros [x1 x2] [y1 y2]; simpl. intro E. apply andb_true_iff in E. destruct E as [E1 E2].
  apply String.eqb_eq in E1, E2. congruence.
Qed.

Lemma opt_strlist_eqb_sound a b : opt_strlist_eqb a b = true -> a = b.
Proof.
  destruct a, b; simpl; intro H; try discriminate; [|reflexivity].
  apply strlist_eqb_sound_gen in H. congruence.
Qed.

Lemma check_names_sound inverse vd mp v' m' :
  check_C11 (CNames inverse vd mp (Some (v', m'))) = true ->
  rename_checked inverse vd mp = OK (v', m').
Proof.
  simpl. destruct (rename_checked inverse vd mp) as [[v m]|e]; [|discriminate].
  intro H. apply andb_true_iff in H. destruct H as [H1 H2].
  apply opt_strlist_eqb_sound in H1. apply pairlist_eqb_sound in H2. congruence.
Qed.

Lemma check_names_reject_sound inverse vd mp :
  check_C11 (CNames inverse vd mp None) = true -> exists e, rename_checked inverse vd mp = Err e.
Proof.
  simpl. destruct (rename_checked inverse vd mp) as [[v m]|e]; [discriminate|]. intros _. exists e. reflexivity.
Qed.

Lemma check_meshf_sound p1 p2 n_ ds us rfft lo hi k ds' us' :
  check_C11 (CMeshF p1 p2 n_ ds us rfft (Some (lo, hi, k, ds', us'))) = true ->
  exists m km, build p1 p2 n_ ds us = OK m /\ mesh_fftn m rfft = OK km /\
    n km = k /\ dims (reg km) = ds' /\ units (reg km) = us'.
Proof.
  cbn [check_C11]. destruct (build p1 p2 n_ ds us) as [m|e]; [|discriminate].
  destruct (mesh_fftn m rfft) as [km|e] eqn:Ek; cbn [check_mesh]; [|discriminate].
  unfold mesh_matches. intro H.
  apply andb_true_iff in H. destruct H as [H Hu].
  apply andb_true_iff in H. destruct H as [H Hd].
  apply andb_true_iff in H. destruct H as [_ Hn].
  exists m, km. split; [reflexivity|]. split; [exact Ek|].
  split; [apply zlist_eqb_sound_gen; assumption|].
  split; apply strlist_eqb_sound_gen; assumption.
Qed.
