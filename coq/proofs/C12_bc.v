(* C12: periodicity (bc) turns with the cells; in-place == copy at mesh and field level. *)
From Coq Require Import Ascii.
From DF Require Import Prelude Constants_gen FieldK NDArray Region Mesh Rotate90 C12_rot C12_cov C12_inplace.

(* ---------- letters ---------- *)
Fixpoint char_in (c : ascii) (s : string) : bool :=
  match s with
  | EmptyString => false
  | String h t => Ascii.eqb c h || char_in c t
  end.

(* the exchange of the two in-plane axis letters *)
Definition sigma (ca cb c : ascii) : ascii :=
  if Ascii.eqb c ca then cb else if Ascii.eqb c cb then ca else c.

Ltac ascii_cases :=
  unfold sigma;
  repeat match goal with
         | |- context [Ascii.eqb ?x ?y] => is_var x; is_var y; destruct (Ascii.eqb_spec x y); subst
         end; try congruence; try reflexivity.

Lemma sigma_invol ca cb c : sigma ca cb (sigma ca cb c) = c.
Proof. ascii_cases. Qed.

Lemma eqb_sigma ca cb c h : Ascii.eqb c (sigma ca cb h) = Ascii.eqb (sigma ca cb c) h.
Proof. ascii_cases. Qed.

Lemma bc_swap_cons ca cb ch t :
  bc_swap (String ca EmptyString) (String cb EmptyString) (String ch t)
  = String (sigma ca cb ch) (bc_swap (String ca EmptyString) (String cb EmptyString) t).
Proof.
  cbn [bc_swap String.eqb]. unfold sigma.
  destruct (Ascii.eqb ch ca); [reflexivity|]. destruct (Ascii.eqb ch cb); reflexivity.
Qed.

Lemma bc_swap_invol ca cb s :
  bc_swap (String ca EmptyString) (String cb EmptyString)
    (bc_swap (String ca EmptyString) (String cb EmptyString) s) = s.
Proof.
  induction s as [|ch t IH]; [reflexivity|]. rewrite !bc_swap_cons, sigma_invol, IH. reflexivity.
Qed.

(* the set of periodic letters after the exchange is the image of the set before *)
Lemma char_in_swap ca cb s c :
  char_in c (bc_swap (String ca EmptyString) (String cb EmptyString) s) = char_in (sigma ca cb c) s.
Proof.
  induction s as [|ch t IH]; [reflexivity|]. rewrite bc_swap_cons. cbn [char_in].
  rewrite IH, eqb_sigma. reflexivity.
Qed.

Theorem periodicity_turns k ca cb s c : bc_keyword s = false ->
  char_in c (rot_bc k (String ca EmptyString) (String cb EmptyString) s)
  = char_in (if Z.odd k then sigma ca cb c else c) s.
Proof.
  intros H. unfold rot_bc. destruct (Z.odd k); [|reflexivity]. rewrite H. apply char_in_swap.
Qed.

Theorem keyword_kept k a b s : bc_keyword s = true -> rot_bc k a b s = s.
Proof. intros H. unfold rot_bc. rewrite H. destruct (Z.odd k); reflexivity. Qed.

(* composition: parity adds, exchanging twice restores the string *)
Theorem rot_bc_add k1 k2 ca cb s :
  let a := String ca EmptyString in let b := String cb EmptyString in
  bc_keyword s = false -> bc_keyword (bc_swap a b s) = false ->
  rot_bc k2 a b (rot_bc k1 a b s) = rot_bc (k1 + k2) a b s.
Proof.
  intros a b H1 H2. unfold rot_bc. rewrite Z.odd_add.
  destruct (Z.odd k1), (Z.odd k2); cbn [xorb]; rewrite ?H1, ?H2; try reflexivity.
  apply bc_swap_invol.
Qed.

(* ---------- in-place == copy, mesh and field ---------- *)
Lemma mapM_ext_in {A B} (f g : A -> res B) l : (forall x, In x l -> f x = g x) -> mapM f l = mapM g l.
Proof.
  induction l as [|x t IH]; intros H; cbn; [reflexivity|].
  rewrite (H x (or_introl eq_refl)), IH; [reflexivity|]. intros y Hy. apply H. right. exact Hy.
Qed.

Theorem mesh_inplace_eq_copy m a b k ref :
  wf_region (reg m) -> (forall ns, In ns (subs m) -> wf_region (snd ns)) ->
  mesh_rotate90 true m a b k ref = mesh_rotate90 false m a b k ref.
Proof.
  intros Hwf Hsubs. unfold mesh_rotate90.
  rewrite (region_inplace_eq_copy (reg m) a b k ref Hwf).
  destruct (region_rotate90 false (reg m) a b k ref) as [r'|]; [|reflexivity]. cbn [bind].
  destruct (dim2index (reg m) a) as [i1|]; [|reflexivity]. cbn [bind].
  destruct (dim2index (reg m) b) as [i2|]; [|reflexivity]. cbn [bind].
  erewrite mapM_ext_in; [reflexivity|].
  intros ns Hns. cbn. rewrite (region_inplace_eq_copy (snd ns) a b k _ (Hsubs ns Hns)). reflexivity.
Qed.

Theorem field_inplace_eq_copy K (f : field K) a b k ref :
  wf_region (reg (fmesh f)) -> (forall ns, In ns (subs (fmesh f)) -> wf_region (snd ns)) ->
  field_rotate90 K true f a b k ref = field_rotate90 K false f a b k ref.
Proof.
  intros Hwf Hsubs. unfold field_rotate90.
  rewrite (mesh_inplace_eq_copy (fmesh f) a b k ref Hwf Hsubs). reflexivity.
Qed.
