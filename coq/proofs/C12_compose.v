(* C12: quarter turns compose.  The exact turn of k1 + k2 is the product of the turns; the box
   obtained by Region.rotate90 is described axis by axis ([rbox]); rotating an already rotated
   region by k2 gives the box of k1 + k2; hence a turn followed by its reverse, and four quarter
   turns, give back the corners (==), units and dims. *)
From DF Require Import Prelude Constants_gen FieldK NDArray Region Mesh Rotate90 ListLemmas QLemmas
  C12_rot C12_cov C12_field C12_inplace.
Open Scope Q_scope.

(* ---------- the turn of a sum ---------- *)
Definition zmul (p q : Z * Z) : Z * Z :=
  (fst p * fst q - snd p * snd q, snd p * fst q + fst p * snd q)%Z.

Lemma zturn_add k1 k2 : zturn (k1 + k2) = zmul (zturn k1) (zturn k2).
Proof.
  unfold zturn. rewrite Z.add_mod by lia.
  destruct (mod4_cases k1) as [H|[H|[H|H]]], (mod4_cases k2) as [G|[G|[G|G]]]; rewrite H, G; reflexivity.
Qed.

Lemma add_mod4 k1 k2 c1 c2 : (k1 mod 4 = c1 -> k2 mod 4 = c2 -> (k1 + k2) mod 4 = (c1 + c2) mod 4)%Z.
Proof. intros H G. rewrite Z.add_mod by lia. rewrite H, G. reflexivity. Qed.

Lemma opp_mod4 k : ((k + - k) mod 4 = 0)%Z.
Proof. rewrite Z.add_opp_diag_r. reflexivity. Qed.

(* ---------- the rotated box, axis by axis ---------- *)
Definition rbox (k : Z) (i1 i2 j : nat) (R lo hi : list Q) : Q * Q :=
  let a1 := nth i1 lo 0 in let b1 := nth i1 hi 0 in
  let a2 := nth i2 lo 0 in let b2 := nth i2 hi 0 in
  let R1 := nth i1 R 0 in let R2 := nth i2 R 0 in
  if (j =? i2)%nat then
    match (k mod 4)%Z with
    | 0%Z => (a2, b2)
    | 1%Z => (R2 + (a1 - R1), R2 + (b1 - R1))
    | 2%Z => (R2 - (b2 - R2), R2 - (a2 - R2))
    | _ => (R2 - (b1 - R1), R2 - (a1 - R1))
    end
  else if (j =? i1)%nat then
    match (k mod 4)%Z with
    | 0%Z => (a1, b1)
    | 1%Z => (R1 - (b2 - R2), R1 - (a2 - R2))
    | 2%Z => (R1 - (b1 - R1), R1 - (a1 - R1))
    | _ => (R1 + (a2 - R2), R1 + (b2 - R2))
    end
  else (nth j lo 0, nth j hi 0).

Lemma Forall2_lt_nth lo hi : Forall2 (fun a b => a < b) lo hi ->
  forall j, (j < length lo)%nat -> nth j lo 0 < nth j hi 0.
Proof.
  intros H. induction H as [|x y l1 l2 Hxy H IH]; intros [|j] Hj; simpl in *; try lia; auto. apply IH; lia.
Qed.

Lemma Forall2_of_nth (P : Q -> Q -> Prop) l1 l2 : length l1 = length l2 ->
  (forall j, (j < length l1)%nat -> P (nth j l1 0) (nth j l2 0)) -> Forall2 P l1 l2.
Proof.
  revert l2; induction l1 as [|x l1 IH]; intros [|y l2] L H; simpl in *; try discriminate; constructor.
  - apply (H 0%nat); lia.
  - apply IH; [lia|]. intros j Hj. apply (H (S j)); lia.
Qed.

(* Region.rotate90 of a well-formed region: corners of the result, axis by axis *)
Lemma region_rot_desc ip r a b k ref r' R i1 i2 :
  wf_region r -> region_rotate90 ip r a b k ref = OK r' ->
  rot_reference r ref = OK R -> dim2index r a = OK i1 -> dim2index r b = OK i2 ->
  i1 <> i2 /\ (i1 < length (pmin r))%nat /\ (i2 < length (pmin r))%nat /\
  length (pmin r') = length (pmin r) /\ length (pmax r') = length (pmin r) /\
  dims r' = dims r /\ units r' = rot_units k i1 i2 (units r) /\ tf r' = tf r /\
  forall j, (j < length (pmin r))%nat ->
    nth j (pmin r') 0 == fst (rbox k i1 i2 j R (pmin r) (pmax r)) /\
    nth j (pmax r') 0 == snd (rbox k i1 i2 j R (pmin r) (pmax r)).
Proof.
  intros (L1 & L0 & L2 & L3 & Hnd & Hlt & Htf) Hrot HR Hd1 Hd2.
  destruct (region_rotate90_inv _ _ _ _ _ _ _ Hrot) as (R' & i1' & i2' & Hab & HR' & Hd1' & Hd2' & Hpm & HpM & Hds & Hus & Htf').
  rewrite HR in HR'. rewrite Hd1 in Hd1'. rewrite Hd2 in Hd2'.
  inversion HR'; inversion Hd1'; inversion Hd2'; subst R' i1' i2'. clear HR' Hd1' Hd2'.
  destruct (dim2index_spec _ _ _ Hd1) as [B1 N1]. destruct (dim2index_spec _ _ _ Hd2) as [B2 N2].
  assert (Hne : i1 <> i2) by (intros ->; apply Hab; congruence).
  rewrite L2 in B1, B2.
  split; [exact Hne|]. split; [exact B1|]. split; [exact B2|].
  split; [rewrite Hpm, map2_length, !rot_pt_length; lia|].
  split; [rewrite HpM, map2_length, !rot_pt_length; lia|].
  split; [exact Hds|]. split; [exact Hus|]. split; [exact Htf'|].
  intros j Hj.
  pose proof (Forall2_lt_nth _ _ Hlt i1 B1) as Hlt1. pose proof (Forall2_lt_nth _ _ Hlt i2 B2) as Hlt2.
  pose proof (Forall2_lt_nth _ _ Hlt j Hj) as Hltj.
  rewrite Hpm, HpM.
  rewrite (nth_map2 Qmin _ _ j 0 0 0) by (rewrite rot_pt_length; lia).
  rewrite (nth_map2 Qmax _ _ j 0 0 0) by (rewrite rot_pt_length; lia).
  rewrite !nth_rot_pt by (try exact Hne; lia).
  unfold rbox, qturn, zturn.
  set (a1 := nth i1 (pmin r) 0) in *. set (b1 := nth i1 (pmax r) 0) in *.
  set (a2 := nth i2 (pmin r) 0) in *. set (b2 := nth i2 (pmax r) 0) in *.
  set (R1 := nth i1 R 0). set (R2 := nth i2 R 0).
  destruct (mod4_cases k) as [H|[H|[H|H]]]; rewrite H; cbn [fst snd];
    change (inject_Z 0) with 0; change (inject_Z 1) with 1; change (inject_Z (-1)) with (-(1));
    destruct (Nat.eqb_spec j i2) as [->|Hj2]; try destruct (Nat.eqb_spec j i1) as [->|Hj1]; cbn [fst snd];
    match goal with
    | |- Qmin ?u ?v == _ /\ Qmax ?u ?v == _ =>
        destruct (Q.min_spec u v) as [[M1 M2]|[M1 M2]];
        destruct (Q.max_spec u v) as [[X1 X2]|[X1 X2]]; split; lra
    end.
Qed.

Lemma rbox_lt k i1 i2 j R lo hi :
  nth i1 lo 0 < nth i1 hi 0 -> nth i2 lo 0 < nth i2 hi 0 -> nth j lo 0 < nth j hi 0 ->
  fst (rbox k i1 i2 j R lo hi) < snd (rbox k i1 i2 j R lo hi).
Proof.
  intros H1 H2 Hj. unfold rbox.
  destruct (mod4_cases k) as [H|[H|[H|H]]]; rewrite H;
    destruct (j =? i2)%nat; try destruct (j =? i1)%nat; cbn [fst snd]; lra.
Qed.

(* the result is again a well-formed region *)
Lemma region_rotate90_wf ip r a b k ref r' :
  wf_region r -> region_rotate90 ip r a b k ref = OK r' -> wf_region r'.
Proof.
  intros Hwf Hrot.
  destruct (region_rotate90_inv _ _ _ _ _ _ _ Hrot) as (R & i1 & i2 & _ & HR & Hd1 & Hd2 & _).
  destruct (region_rot_desc _ _ _ _ _ _ _ _ _ _ Hwf Hrot HR Hd1 Hd2)
    as (Hne & B1 & B2 & Lm & LM & Hds & Hus & Htf & Hax).
  destruct Hwf as (L1 & L0 & L2 & L3 & Hnd & Hlt & Htf0).
  unfold wf_region. rewrite Lm, LM, Hds, Hus, Htf. repeat split; try assumption; try lia.
  - unfold rot_units. destruct (Z.odd k); rewrite ?swap_nth_length; exact L3.
  - apply Forall2_of_nth; [lia|]. intros j Hj. rewrite Lm in Hj.
    destruct (Hax j Hj) as [E1 E2]. rewrite E1, E2.
    apply rbox_lt; apply Forall2_lt_nth; assumption.
Qed.

(* rotating a region that is (up to ==) the k1-box of (lo, hi) about R by k2 about a reference
   that agrees with R gives the (k1 + k2)-box of (lo, hi) *)
Lemma rbox_step ip r1 a b k1 k2 ref r2 R R' i1 i2 lo hi :
  wf_region r1 -> region_rotate90 ip r1 a b k2 ref = OK r2 ->
  rot_reference r1 ref = OK R' -> dim2index r1 a = OK i1 -> dim2index r1 b = OK i2 ->
  nth i1 R' 0 == nth i1 R 0 -> nth i2 R' 0 == nth i2 R 0 ->
  (forall j, (j < length (pmin r1))%nat ->
     nth j (pmin r1) 0 == fst (rbox k1 i1 i2 j R lo hi) /\
     nth j (pmax r1) 0 == snd (rbox k1 i1 i2 j R lo hi)) ->
  forall j, (j < length (pmin r1))%nat ->
     nth j (pmin r2) 0 == fst (rbox (k1 + k2) i1 i2 j R lo hi) /\
     nth j (pmax r2) 0 == snd (rbox (k1 + k2) i1 i2 j R lo hi).
Proof.
  intros Hwf Hrot HR Hd1 Hd2 E1 E2 H1 j Hj.
  destruct (region_rot_desc _ _ _ _ _ _ _ _ _ _ Hwf Hrot HR Hd1 Hd2)
    as (Hne & B1 & B2 & _ & _ & _ & _ & _ & Hax).
  destruct (Hax j Hj) as [A1 A2]. rewrite A1, A2. clear A1 A2 Hax.
  destruct (H1 i1 B1) as [P1 P1']. destruct (H1 i2 B2) as [P2 P2']. destruct (H1 j Hj) as [Pj Pj'].
  revert P1 P1' P2 P2' Pj Pj'. unfold rbox.
  rewrite (Nat.eqb_refl i1), (Nat.eqb_refl i2).
  destruct (Nat.eqb_spec i1 i2) as [|_]; [contradiction|].
  destruct (mod4_cases k1) as [H|[H|[H|H]]], (mod4_cases k2) as [G|[G|[G|G]]];
    rewrite (add_mod4 _ _ _ _ H G), H, G;
    match goal with |- context [((?c1 + ?c2) mod 4)%Z] =>
      let q := eval vm_compute in ((c1 + c2) mod 4)%Z in change ((c1 + c2) mod 4)%Z with q end;
    destruct (Nat.eqb_spec j i2) as [->|Hj2]; try destruct (Nat.eqb_spec j i1) as [->|Hj1];
    cbn [fst snd]; intros; split; lra.
Qed.

(* the untouched region is its own 0-box *)
Lemma rbox_zero r i1 i2 R j :
  nth j (pmin r) 0 == fst (rbox 0 i1 i2 j R (pmin r) (pmax r)) /\
  nth j (pmax r) 0 == snd (rbox 0 i1 i2 j R (pmin r) (pmax r)).
Proof.
  unfold rbox. change (0 mod 4)%Z with 0%Z.
  destruct (Nat.eqb_spec j i2) as [->|]; [cbn; split; reflexivity|].
  destruct (Nat.eqb_spec j i1) as [->|]; cbn; split; reflexivity.
Qed.

Lemma rbox_mod4_zero k i1 i2 R lo hi j : (k mod 4 = 0)%Z ->
  rbox k i1 i2 j R lo hi = rbox 0 i1 i2 j R lo hi.
Proof. intros H. unfold rbox. rewrite H. reflexivity. Qed.

(* the centre is a fixed point of a quarter turn about the centre *)
Lemma nth_center r j : (j < length (pmin r))%nat -> length (pmin r) = length (pmax r) ->
  nth j (center r) 0 = (1 # 2) * (nth j (pmin r) 0 + nth j (pmax r) 0).
Proof.
  intros Hj L. unfold center.
  rewrite (nth_map2 (fun a b : Q => (1 # 2) * (a + b)) _ _ j 0 0 0) by lia. reflexivity.
Qed.

Lemma center_fixed ip r a b k r' : wf_region r -> region_rotate90 ip r a b k None = OK r' ->
  forall j, (j < length (pmin r))%nat -> nth j (center r') 0 == nth j (center r) 0.
Proof.
  intros Hwf Hrot j Hj.
  destruct (region_rotate90_inv _ _ _ _ _ _ _ Hrot) as (R & i1 & i2 & _ & HR & Hd1 & Hd2 & _).
  destruct (region_rot_desc _ _ _ _ _ _ _ _ _ _ Hwf Hrot HR Hd1 Hd2)
    as (Hne & B1 & B2 & Lm & LM & _ & _ & _ & Hax).
  cbn in HR. inversion HR; subst R.
  destruct Hwf as (L1 & _).
  rewrite (nth_center r') by lia. rewrite (nth_center r j Hj L1).
  destruct (Hax j Hj) as [A1 A2]. rewrite A1, A2. unfold rbox.
  rewrite !(nth_center r) by lia.
  destruct (mod4_cases k) as [H|[H|[H|H]]]; rewrite H;
    destruct (Nat.eqb_spec j i2) as [->|Hj2]; try destruct (Nat.eqb_spec j i1) as [->|Hj1];
    cbn [fst snd]; lra.
Qed.

(* the reference point used by a second call with the same argument agrees with the first *)
Lemma ref_agree ip r a b k ref r' R R' : wf_region r -> region_rotate90 ip r a b k ref = OK r' ->
  rot_reference r ref = OK R -> rot_reference r' ref = OK R' ->
  forall j, (j < length (pmin r))%nat -> nth j R' 0 == nth j R 0.
Proof.
  intros Hwf Hrot HR HR' j Hj. destruct ref as [p|].
  - cbn in HR, HR'. destruct (length p =? ndim r)%nat; [|discriminate].
    destruct (length p =? ndim r')%nat; [|discriminate]. inversion HR; inversion HR'; subst. reflexivity.
  - cbn in HR, HR'. inversion HR; inversion HR'; subst. eapply center_fixed; eassumption.
Qed.

(* units: swapping twice restores, parity adds *)
Lemma swap_nth_invol {A} (d : A) i j l : i <> j -> (i < length l)%nat -> (j < length l)%nat ->
  swap_nth d i j (swap_nth d i j l) = l.
Proof.
  intros Hn Hi Hj. apply nth_ext with (d := d) (d' := d); [rewrite !swap_nth_length; reflexivity|].
  intros a Ha. unfold swap_nth. nthsolve.
Qed.

Lemma rot_units_add k1 k2 i1 i2 us : i1 <> i2 -> (i1 < length us)%nat -> (i2 < length us)%nat ->
  rot_units k2 i1 i2 (rot_units k1 i1 i2 us) = rot_units (k1 + k2) i1 i2 us.
Proof.
  intros Hn H1 H2. unfold rot_units. rewrite Z.odd_add.
  destruct (Z.odd k1), (Z.odd k2); cbn [xorb]; try reflexivity. apply swap_nth_invol; assumption.
Qed.

Lemma rot_n_add k1 k2 i1 i2 (ns : list Z) : i1 <> i2 -> (i1 < length ns)%nat -> (i2 < length ns)%nat ->
  rot_n k2 i1 i2 (rot_n k1 i1 i2 ns) = rot_n (k1 + k2) i1 i2 ns.
Proof.
  intros Hn H1 H2. unfold rot_n. rewrite Z.odd_add.
  destruct (Z.odd k1), (Z.odd k2); cbn [xorb]; try reflexivity. apply swap_nth_invol; assumption.
Qed.

(* ---------- chains of rotations of one region ---------- *)
(* r1 is (up to == on corners) r0 turned k times about R *)
Definition described (r0 : region) (ref : option (list Q)) (R : list Q) (i1 i2 : nat) (k : Z) (r1 : region) : Prop :=
  wf_region r1 /\ dims r1 = dims r0 /\ length (pmin r1) = length (pmin r0) /\ tf r1 = tf r0 /\
  units r1 = rot_units k i1 i2 (units r0) /\
  (forall R1, rot_reference r1 ref = OK R1 -> forall j, (j < length (pmin r0))%nat -> nth j R1 0 == nth j R 0) /\
  (forall j, (j < length (pmin r0))%nat ->
     nth j (pmin r1) 0 == fst (rbox k i1 i2 j R (pmin r0) (pmax r0)) /\
     nth j (pmax r1) 0 == snd (rbox k i1 i2 j R (pmin r0) (pmax r0))).

Lemma described_base r0 ref R i1 i2 : wf_region r0 -> rot_reference r0 ref = OK R ->
  described r0 ref R i1 i2 0 r0.
Proof.
  intros Hwf HR. unfold described. split; [exact Hwf|]. do 4 (split; [reflexivity|]). split.
  - intros R1 H1 j Hj. rewrite HR in H1. inversion H1; subst. reflexivity.
  - intros j Hj. apply rbox_zero.
Qed.

Lemma described_step r0 ref R i1 i2 k1 r1 ip a b k2 r2 :
  wf_region r0 -> dim2index r0 a = OK i1 -> dim2index r0 b = OK i2 ->
  described r0 ref R i1 i2 k1 r1 -> region_rotate90 ip r1 a b k2 ref = OK r2 ->
  described r0 ref R i1 i2 (k1 + k2) r2.
Proof.
  intros Hwf0 Hd1 Hd2 (Hwf1 & Hds & Hlen & Htf & Hus & Hrf & Hax) Hrot.
  destruct (region_rotate90_inv _ _ _ _ _ _ _ Hrot) as (R1 & j1 & j2 & Hab & HR1 & Hd1' & Hd2' & _).
  assert (Hd1'' : dim2index r1 a = OK i1) by (unfold dim2index; rewrite Hds; exact Hd1).
  assert (Hd2'' : dim2index r1 b = OK i2) by (unfold dim2index; rewrite Hds; exact Hd2).
  destruct (region_rot_desc _ _ _ _ _ _ _ _ _ _ Hwf1 Hrot HR1 Hd1'' Hd2'')
    as (Hne & B1 & B2 & Lm & LM & Hds2 & Hus2 & Htf2 & _).
  pose proof (region_rotate90_wf _ _ _ _ _ _ _ Hwf1 Hrot) as Hwf2.
  rewrite Hlen in B1, B2.
  unfold described. split; [exact Hwf2|]. split; [congruence|]. split; [lia|]. split; [congruence|].
  split.
  { rewrite Hus2, Hus. apply rot_units_add; [exact Hne| |];
      destruct Hwf0 as (_ & _ & _ & L3 & _); lia. }
  split.
  { intros R2 HR2 j Hj. rewrite <- (Hrf R1 HR1 j Hj).
    apply (ref_agree _ _ _ _ _ _ _ _ _ Hwf1 Hrot HR1 HR2). lia. }
  intros j Hj. rewrite <- Hlen in Hj.
  apply (rbox_step ip r1 a b k1 k2 ref r2 R R1 i1 i2 (pmin r0) (pmax r0)); try assumption.
  - apply (Hrf R1 HR1); lia.
  - apply (Hrf R1 HR1); lia.
  - intros j' Hj'. apply Hax. lia.
Qed.

(* a net turn by a multiple of four gives back the region *)
Lemma described_identity r0 ref R i1 i2 k r1 : (k mod 4 = 0)%Z ->
  described r0 ref R i1 i2 k r1 ->
  (forall j, (j < length (pmin r0))%nat ->
     nth j (pmin r1) 0 == nth j (pmin r0) 0 /\ nth j (pmax r1) 0 == nth j (pmax r0) 0) /\
  length (pmin r1) = length (pmin r0) /\
  dims r1 = dims r0 /\ units r1 = units r0 /\ tf r1 = tf r0.
Proof.
  intros Hk (_ & Hds & Hlen & Htf & Hus & _ & Hax).
  split.
  { intros j Hj. destruct (Hax j Hj) as [A1 A2]. rewrite A1, A2, (rbox_mod4_zero k) by exact Hk.
    destruct (rbox_zero r0 i1 i2 R j) as [Z1 Z2]. rewrite <- Z1, <- Z2. split; reflexivity. }
  split; [exact Hlen|]. split; [exact Hds|]. split; [|exact Htf].
  rewrite Hus. unfold rot_units. rewrite <- odd_mod4, Hk. reflexivity.
Qed.

(* --- region level: composition, reverse, four turns --- *)
Theorem region_compose ip ip' ip'' r a b k1 k2 ref r1 r2 r3 :
  wf_region r -> region_rotate90 ip r a b k1 ref = OK r1 -> region_rotate90 ip' r1 a b k2 ref = OK r2 ->
  region_rotate90 ip'' r a b (k1 + k2) ref = OK r3 ->
  (forall j, (j < length (pmin r))%nat ->
     nth j (pmin r2) 0 == nth j (pmin r3) 0 /\ nth j (pmax r2) 0 == nth j (pmax r3) 0) /\
  length (pmin r2) = length (pmin r3) /\ dims r2 = dims r3 /\ units r2 = units r3 /\ tf r2 = tf r3.
Proof.
  intros Hwf H1 H2 H3.
  destruct (region_rotate90_inv _ _ _ _ _ _ _ H1) as (R & i1 & i2 & _ & HR & Hd1 & Hd2 & _).
  pose proof (described_base r ref R i1 i2 Hwf HR) as D0.
  pose proof (described_step _ _ _ _ _ _ _ _ _ _ _ _ Hwf Hd1 Hd2 D0 H1) as D1.
  pose proof (described_step _ _ _ _ _ _ _ _ _ _ _ _ Hwf Hd1 Hd2 D1 H2) as D2.
  pose proof (described_step _ _ _ _ _ _ _ _ _ _ _ _ Hwf Hd1 Hd2 D0 H3) as D3.
  replace (0 + k1 + k2)%Z with (0 + (k1 + k2))%Z in D2 by lia.
  destruct D2 as (_ & Hds2 & Hl2 & Ht2 & Hu2 & _ & A2). destruct D3 as (_ & Hds3 & Hl3 & Ht3 & Hu3 & _ & A3).
  split.
  { intros j Hj. destruct (A2 j Hj) as [X1 X2]. destruct (A3 j Hj) as [Y1 Y2].
    rewrite X1, X2, Y1, Y2. split; reflexivity. }
  repeat split; congruence.
Qed.

Theorem region_turn_reverse ip ip' r a b k ref r1 r2 :
  wf_region r -> region_rotate90 ip r a b k ref = OK r1 -> region_rotate90 ip' r1 a b (- k) ref = OK r2 ->
  (forall j, (j < length (pmin r))%nat ->
     nth j (pmin r2) 0 == nth j (pmin r) 0 /\ nth j (pmax r2) 0 == nth j (pmax r) 0) /\
  length (pmin r2) = length (pmin r) /\ dims r2 = dims r /\ units r2 = units r /\ tf r2 = tf r.
Proof.
  intros Hwf H1 H2.
  destruct (region_rotate90_inv _ _ _ _ _ _ _ H1) as (R & i1 & i2 & _ & HR & Hd1 & Hd2 & _).
  pose proof (described_base r ref R i1 i2 Hwf HR) as D0.
  pose proof (described_step _ _ _ _ _ _ _ _ _ _ _ _ Hwf Hd1 Hd2 D0 H1) as D1.
  pose proof (described_step _ _ _ _ _ _ _ _ _ _ _ _ Hwf Hd1 Hd2 D1 H2) as D2.
  apply (described_identity r ref R i1 i2 (0 + k + - k) r2); [|exact D2].
  replace (0 + k + - k)%Z with 0%Z by lia. reflexivity.
Qed.

Theorem region_four_turns ipa ipb ipc ipd r a b ref r1 r2 r3 r4 :
  wf_region r -> region_rotate90 ipa r a b 1 ref = OK r1 -> region_rotate90 ipb r1 a b 1 ref = OK r2 ->
  region_rotate90 ipc r2 a b 1 ref = OK r3 -> region_rotate90 ipd r3 a b 1 ref = OK r4 ->
  (forall j, (j < length (pmin r))%nat ->
     nth j (pmin r4) 0 == nth j (pmin r) 0 /\ nth j (pmax r4) 0 == nth j (pmax r) 0) /\
  length (pmin r4) = length (pmin r) /\ dims r4 = dims r /\ units r4 = units r /\ tf r4 = tf r.
Proof.
  intros Hwf H1 H2 H3 H4.
  destruct (region_rotate90_inv _ _ _ _ _ _ _ H1) as (R & i1 & i2 & _ & HR & Hd1 & Hd2 & _).
  pose proof (described_base r ref R i1 i2 Hwf HR) as D0.
  pose proof (described_step _ _ _ _ _ _ _ _ _ _ _ _ Hwf Hd1 Hd2 D0 H1) as D1.
  pose proof (described_step _ _ _ _ _ _ _ _ _ _ _ _ Hwf Hd1 Hd2 D1 H2) as D2.
  pose proof (described_step _ _ _ _ _ _ _ _ _ _ _ _ Hwf Hd1 Hd2 D2 H3) as D3.
  pose proof (described_step _ _ _ _ _ _ _ _ _ _ _ _ Hwf Hd1 Hd2 D3 H4) as D4.
  apply (described_identity r ref R i1 i2 (0 + 1 + 1 + 1 + 1) r4); [reflexivity|exact D4].
Qed.
