(* C12: composition of the index map (numpy.rot90) and of the component rotation. *)
From Coq Require Import Field.
From DF Require Import Prelude Constants_gen FieldK NDArray Region Mesh Rotate90 ListLemmas QLemmas
  C12_rot C12_cov C12_compose.

Lemma odd_of_mod4 k c : (k mod 4 = c)%Z -> Z.odd k = Z.odd c.
Proof. intros H. rewrite <- odd_mod4, H. reflexivity. Qed.

(* rot90 by k1, then by k2 (on the rotated shape), is rot90 by k1 + k2 *)
Theorem rot90_compose {V} (sh : list nat) (a b : nat) (k1 k2 : Z) (f : idx -> V) (i : idx) :
  a <> b -> (a < length i)%nat -> (b < length i)%nat -> length sh = length i ->
  (nth a i 0 < nth a (rot90_shape sh a b (k1 + k2)) 0)%nat ->
  (nth b i 0 < nth b (rot90_shape sh a b (k1 + k2)) 0)%nat ->
  rot90 (rot90_shape sh a b k1) a b k2 (rot90 sh a b k1 f) i = rot90 sh a b (k1 + k2) f i.
Proof.
  intros Hab Ha Hb Hl Hx Hy. revert Hx Hy.
  unfold rot90, rot90_shape.
  destruct (mod4_cases k1) as [H|[H|[H|H]]], (mod4_cases k2) as [G|[G|[G|G]]];
    rewrite (odd_of_mod4 _ _ H), (odd_of_mod4 _ _ (add_mod4 _ _ _ _ H G)), (add_mod4 _ _ _ _ H G), H, G;
    match goal with |- context [((?c1 + ?c2) mod 4)%Z] =>
      let q := eval vm_compute in ((c1 + c2) mod 4)%Z in change ((c1 + c2) mod 4)%Z with q end;
    cbn [Z.odd]; unfold swap_ax, flip_ax, swap_nth; intros Hx Hy; try reflexivity; f_equal;
    (apply nth_ext with (d := 0%nat) (d' := 0%nat); [rewrite !set_nth_length; reflexivity|]);
    intros j Hj; rewrite !set_nth_length in Hj; revert Hx Hy; nthsolve.
Qed.

Lemma rot90_shape_compose sh a b k1 k2 : a <> b -> (a < length sh)%nat -> (b < length sh)%nat ->
  rot90_shape (rot90_shape sh a b k1) a b k2 = rot90_shape sh a b (k1 + k2).
Proof.
  intros Hn H1 H2. unfold rot90_shape. rewrite Z.odd_add.
  destruct (Z.odd k1), (Z.odd k2); cbn [xorb]; try reflexivity. apply swap_nth_invol; assumption.
Qed.

(* ---------- the component rotation, for every field of values ---------- *)
Section Components.
Variable K : FOps.
Hypothesis HK : field_theory (f0 K) (f1 K) (@fadd K) (@fmul K) (@fsub K) (@fopp K) (@fdiv K) (@finv K) eq.
Add Field Kfield_c12 : HK.

Theorem rot_comp_compose k1 k2 v1 v2 (f : idx -> K) base comp : v1 <> v2 ->
  rot_comp K (fst (kturn K k2)) (snd (kturn K k2)) v1 v2
    (rot_comp K (fst (kturn K k1)) (snd (kturn K k1)) v1 v2 f) (base ++ [comp])
  = rot_comp K (fst (kturn K (k1 + k2))) (snd (kturn K (k1 + k2))) v1 v2 f (base ++ [comp]).
Proof.
  intros Hv. unfold rot_comp. rewrite !last_last, !removelast_last.
  rewrite (Nat.eqb_refl v1), (Nat.eqb_refl v2).
  destruct (Nat.eqb_spec v1 v2) as [|_]; [contradiction|].
  unfold kturn. rewrite zturn_add. unfold zturn.
  destruct (mod4_cases k1) as [H|[H|[H|H]]], (mod4_cases k2) as [G|[G|[G|G]]]; rewrite H, G;
    cbn [zmul fst snd kofz Z.mul Z.sub Z.add Z.opp Pos.mul Z.pos_sub Pos.add];
    destruct (Nat.eqb_spec comp v2) as [->|C2]; try destruct (Nat.eqb_spec comp v1) as [->|C1];
    try reflexivity; ring.
Qed.

(* identity turn *)
Lemma rot_comp_zero k v1 v2 (f : idx -> K) base comp : (k mod 4 = 0)%Z -> v1 <> v2 ->
  rot_comp K (fst (kturn K k)) (snd (kturn K k)) v1 v2 f (base ++ [comp]) = f (base ++ [comp]).
Proof.
  intros Hk Hv. unfold rot_comp, kturn, zturn. rewrite Hk, last_last, removelast_last. cbn [fst snd kofz].
  destruct (Nat.eqb_spec comp v2) as [->|C2]; [ring|].
  destruct (Nat.eqb_spec comp v1) as [->|C1]; [ring|reflexivity].
Qed.
End Components.

(* ---------- corollaries for arrays: reverse turn and four quarter turns ---------- *)
Theorem rot90_reverse {V} (sh : list nat) (a b : nat) (k : Z) (f : idx -> V) (i : idx) :
  a <> b -> (a < length i)%nat -> (b < length i)%nat -> length sh = length i ->
  (nth a i 0 < nth a sh 0)%nat -> (nth b i 0 < nth b sh 0)%nat ->
  rot90 (rot90_shape sh a b k) a b (- k) (rot90 sh a b k f) i = f i.
Proof.
  intros Hab Ha Hb Hl Hx Hy.
  assert (Hs : rot90_shape sh a b (k + - k) = sh).
  { unfold rot90_shape. rewrite Z.add_opp_diag_r. reflexivity. }
  rewrite rot90_compose by (try rewrite Hs; assumption).
  unfold rot90. rewrite opp_mod4. reflexivity.
Qed.

Lemma rot90_shape_even sh a b k : Z.odd k = false -> rot90_shape sh a b k = sh.
Proof. intros H. unfold rot90_shape. rewrite H. reflexivity. Qed.

Lemma rot90_shape_length sh a b k : length (rot90_shape sh a b k) = length sh.
Proof. unfold rot90_shape. destruct (Z.odd k); rewrite ?swap_nth_length; reflexivity. Qed.

Theorem rot90_four_turns {V} (sh : list nat) (a b : nat) (f : idx -> V) (i : idx) :
  a <> b -> (a < length i)%nat -> (b < length i)%nat -> length sh = length i ->
  (nth a i 0 < nth a sh 0)%nat -> (nth b i 0 < nth b sh 0)%nat ->
  let s1 := rot90_shape sh a b 1 in let s2 := rot90_shape s1 a b 1 in let s3 := rot90_shape s2 a b 1 in
  rot90 s3 a b 1 (rot90 s2 a b 1 (rot90 s1 a b 1 (rot90 sh a b 1 f))) i = f i.
Proof.
  intros Hab Ha Hb Hl Hx Hy s1 s2 s3.
  assert (L1 : length s1 = length i) by (unfold s1; rewrite rot90_shape_length; exact Hl).
  assert (L2 : length s2 = length i) by (unfold s2; rewrite rot90_shape_length; exact L1).
  assert (E1 : rot90_shape s1 a b (1 + (1 + 1)) = sh).
  { unfold s1. rewrite rot90_shape_compose by lia. apply rot90_shape_even. reflexivity. }
  assert (E2 : rot90_shape s2 a b (1 + 1) = sh).
  { unfold s2. rewrite rot90_shape_compose by lia. exact E1. }
  assert (E0 : rot90_shape sh a b (1 + (1 + (1 + 1))) = sh) by (apply rot90_shape_even; reflexivity).
  unfold s3. rewrite rot90_compose by (rewrite ?E2; assumption).
  unfold s2. rewrite rot90_compose by (rewrite ?E1; assumption).
  unfold s1. rewrite rot90_compose by (rewrite ?E0; assumption).
  reflexivity.
Qed.
