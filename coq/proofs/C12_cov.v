(* C12: covariance.  Part B: numpy.rot90 (as built from flip and transpose) moves the value of
   source cell i to the target cell rot_index i.  Part A (scalar core): along one axis the centre
   of the target cell is the image of the centre of the source cell. *)
From DF Require Import Prelude Constants_gen FieldK NDArray Region Mesh Rotate90 ListLemmas QLemmas C12_rot.
Open Scope Q_scope.

(* where cell i goes: the forward index map of a rotation by k quarter turns from axis a to axis b *)
Definition rot_index (sh : list nat) (a b : nat) (k : Z) (i : idx) : idx :=
  let n1 := nth a sh 0%nat in
  let n2 := nth b sh 0%nat in
  let x := nth a i 0%nat in
  let y := nth b i 0%nat in
  match (k mod 4)%Z with
  | 0%Z => i
  | 1%Z => set_nth b x (set_nth a (n2 - 1 - y)%nat i)
  | 2%Z => set_nth b (n2 - 1 - y)%nat (set_nth a (n1 - 1 - x)%nat i)
  | _ => set_nth b (n1 - 1 - x)%nat (set_nth a y i)
  end.

Lemma nth_set_nth {A} i j (x : A) l d :
  nth j (set_nth i x l) d = if ((j =? i) && (i <? length l))%nat then x else nth j l d.
Proof.
  destruct (Nat.eqb_spec j i) as [->|Hn]; simpl.
  - destruct (Nat.ltb_spec i (length l)) as [H|H].
    + apply nth_set_nth_eq; exact H.
    + rewrite !nth_overflow; [reflexivity|lia|rewrite set_nth_length; lia].
  - apply nth_set_nth_neq; congruence.
Qed.

Ltac nthsolve :=
  repeat (rewrite ?nth_set_nth, ?set_nth_length);
  repeat match goal with
         | |- context [(?x =? ?y)%nat] => destruct (Nat.eqb_spec x y)
         end;
  repeat match goal with
         | |- context [(?x <? ?y)%nat] => destruct (Nat.ltb_spec x y)
         end;
  subst; cbn [andb]; try reflexivity; try lia; try congruence.

Lemma rot_index_length sh a b k i : length (rot_index sh a b k i) = length i.
Proof.
  unfold rot_index. destruct (mod4_cases k) as [H|[H|[H|H]]]; rewrite H; rewrite ?set_nth_length; reflexivity.
Qed.

Theorem rot90_at {V} (sh : list nat) (a b : nat) (k : Z) (f : idx -> V) (i : idx) :
  a <> b -> (a < length i)%nat -> (b < length i)%nat -> length sh = length i ->
  (nth a i 0 < nth a sh 0)%nat -> (nth b i 0 < nth b sh 0)%nat ->
  rot90 sh a b k f (rot_index sh a b k i) = f i.
Proof.
  intros Hab Ha Hb Hl Hx Hy.
  unfold rot90, rot_index.
  destruct (mod4_cases k) as [H|[H|[H|H]]]; rewrite H.
  - reflexivity.
  - unfold swap_ax, flip_ax, swap_nth. f_equal.
    apply nth_ext with (d := 0%nat) (d' := 0%nat); [rewrite !set_nth_length; reflexivity|].
    intros j Hj. rewrite !set_nth_length in Hj. nthsolve.
  - unfold flip_ax. f_equal.
    apply nth_ext with (d := 0%nat) (d' := 0%nat); [rewrite !set_nth_length; reflexivity|].
    intros j Hj. rewrite !set_nth_length in Hj. nthsolve.
  - unfold swap_ax, flip_ax, swap_nth. f_equal.
    apply nth_ext with (d := 0%nat) (d' := 0%nat); [rewrite !set_nth_length; reflexivity|].
    intros j Hj. rewrite !set_nth_length in Hj. nthsolve.
Qed.

(* the target index is in range of the rotated shape *)
Lemma rot_index_inrange sh a b k i j :
  a <> b -> (a < length i)%nat -> (b < length i)%nat -> length sh = length i ->
  (forall j, (j < length i)%nat -> (nth j i 0 < nth j sh 0)%nat) -> (j < length i)%nat ->
  (nth j (rot_index sh a b k i) 0 < nth j (rot90_shape sh a b k) 0)%nat.
Proof.
  intros Hab Ha Hb Hl Hr Hj.
  pose proof (Hr a Ha) as Hx. pose proof (Hr b Hb) as Hy. pose proof (Hr j Hj) as Hjj.
  unfold rot_index, rot90_shape, swap_nth. rewrite <- (odd_mod4 k).
  destruct (mod4_cases k) as [H|[H|[H|H]]]; rewrite H; cbn [Z.odd]; nthsolve.
Qed.

(* ---------- Part A: one axis ---------- *)
Lemma Qminmax_lt u v : u < v -> Qmin u v == u /\ Qmax u v == v.
Proof. intros H. split; [apply Q.min_l|apply Q.max_r]; lra. Qed.
Lemma Qminmax_gt u v : v < u -> Qmin u v == v /\ Qmax u v == u.
Proof. intros H. split; [apply Q.min_r|apply Q.max_l]; lra. Qed.

(* orientation kept: u |-> T + (u - Ru); the cell index is kept *)
Lemma axis_keep (a b T Ru u v : Q) (nz idx : Z) :
  a < b -> (0 < nz)%Z -> u == T + (a - Ru) -> v == T + (b - Ru) ->
  i2p1 (Qmin u v) (cell_of (Qmin u v) (Qmax u v) nz) idx
  == T + (i2p1 a (cell_of a b nz) idx - Ru).
Proof.
  intros Hab Hn Hu Hv.
  destruct (Qminmax_lt u v) as [Hmin Hmax]; [lra|].
  unfold i2p1, cell_of. rewrite Hmin, Hmax, Hu, Hv.
  assert (Hnz : ~ inject_Z nz == 0) by (pose proof (inject_Z_pos nz Hn); lra).
  field. exact Hnz.
Qed.

(* orientation reversed: u |-> T - (u - Ru); cell idx goes to n-1-idx *)
Lemma axis_flip (a b T Ru u v : Q) (nz idx : Z) :
  a < b -> (0 < nz)%Z -> u == T - (a - Ru) -> v == T - (b - Ru) ->
  i2p1 (Qmin u v) (cell_of (Qmin u v) (Qmax u v) nz) (nz - 1 - idx)
  == T - (i2p1 a (cell_of a b nz) idx - Ru).
Proof.
  intros Hab Hn Hu Hv.
  destruct (Qminmax_gt u v) as [Hmin Hmax]; [lra|].
  unfold i2p1, cell_of. rewrite Hmin, Hmax, Hu, Hv.
  assert (Hnz : ~ inject_Z nz == 0) by (pose proof (inject_Z_pos nz Hn); lra).
  unfold Zminus. rewrite !inject_Z_plus, !inject_Z_opp. change (inject_Z 1) with 1. unfold half_cell.
  field. exact Hnz.
Qed.

(* ---------- Part A: all axes ---------- *)
(* coordinate j of the centre of cell t (what Mesh.index2point computes, see C01) *)
Definition centre_coord (m : mesh) (t : list Z) (j : nat) : Q :=
  i2p1 (nth j (pmin (reg m)) 0)
       (cell_of (nth j (pmin (reg m)) 0) (nth j (pmax (reg m)) 0) (nth j (n m) 1%Z))
       (nth j t 0%Z).
Definition centre (m : mesh) (t : list Z) : list Q :=
  map (centre_coord m t) (iota 0 (length (pmin (reg m)))).

Lemma index_of_spec s l i : index_of s l = Some i -> (i < length l)%nat /\ nth i l ""%string = s.
Proof.
  revert i; induction l as [|h t IH]; simpl; intros i H; [discriminate|].
  destruct (String.eqb_spec s h) as [->|Hn].
  - inversion H; subst. split; [lia|reflexivity].
  - destruct (index_of s t) as [i'|]; [|discriminate]. inversion H; subst.
    destruct (IH i' eq_refl) as [H1 H2]. split; [lia|exact H2].
Qed.

Lemma dim2index_spec r a i : dim2index r a = OK i -> (i < length (dims r))%nat /\ nth i (dims r) ""%string = a.
Proof.
  unfold dim2index. destruct (index_of a (dims r)) eqn:E; [|discriminate].
  intros H; inversion H; subst. apply index_of_spec; exact E.
Qed.

Lemma region_rotate90_inv ip r a b k ref r' :
  region_rotate90 ip r a b k ref = OK r' ->
  exists R i1 i2, a <> b /\ rot_reference r ref = OK R /\ dim2index r a = OK i1 /\ dim2index r b = OK i2 /\
    let p1 := rot_pt (fst (qturn k)) (snd (qturn k)) i1 i2 R (pmin r) in
    let p2 := rot_pt (fst (qturn k)) (snd (qturn k)) i1 i2 R (pmax r) in
    pmin r' = map2 Qmin p1 p2 /\ pmax r' = map2 Qmax p1 p2 /\ dims r' = dims r /\
    units r' = rot_units k i1 i2 (units r) /\ tf r' = tf r.
Proof.
  unfold region_rotate90. destruct (String.eqb_spec a b) as [|Hab]; [discriminate|].
  destruct (rot_reference r ref) as [R|]; [|discriminate]. cbn [bind].
  destruct (dim2index r a) as [i1|]; [|discriminate]. cbn [bind].
  destruct (dim2index r b) as [i2|]; [|discriminate]. cbn [bind].
  intros H. exists R, i1, i2. split; [exact Hab|]. do 3 (split; [reflexivity|]).
  destruct ip.
  - destruct (existsb _ _); [discriminate|]. inversion H; subst; cbn. repeat split; reflexivity.
  - unfold mk_region in H.
    repeat match type of H with
           | (if ?c then _ else _) = _ => destruct c; [discriminate|]
           | bind (if ?c then _ else _) _ = _ => destruct c; [cbn [bind] in H; discriminate|]
           | bind (OK _) _ = _ => cbn [bind] in H
           end.
    inversion H; subst; cbn. repeat split; reflexivity.
Qed.

Lemma mesh_rotate90_inv ip m a b k ref m' :
  mesh_rotate90 ip m a b k ref = OK m' ->
  exists r' i1 i2, region_rotate90 ip (reg m) a b k ref = OK r' /\
    dim2index (reg m) a = OK i1 /\ dim2index (reg m) b = OK i2 /\
    reg m' = r' /\ n m' = rot_n k i1 i2 (n m) /\ bc m' = rot_bc k a b (bc m).
Proof.
  unfold mesh_rotate90.
  destruct (region_rotate90 ip (reg m) a b k ref) as [r'|]; [|discriminate]. cbn [bind].
  destruct (dim2index (reg m) a) as [i1|]; [|discriminate]. cbn [bind].
  destruct (dim2index (reg m) b) as [i2|]; [|discriminate]. cbn [bind].
  match goal with |- bind (mapM ?f ?l) _ = _ -> _ => generalize f; intros g end.
  destruct (mapM g (subs m)) as [s'|] eqn:E; [|discriminate]. cbn [bind].
  intros H; inversion H; subst; cbn. exists r', i1, i2. repeat split; try reflexivity.
Qed.

Lemma nth_rot_pt c s i1 i2 R p j : i1 <> i2 -> (i1 < length p)%nat -> (i2 < length p)%nat ->
  nth j (rot_pt c s i1 i2 R p) 0 =
  if (j =? i2)%nat then nth i2 R 0 + (s * (nth i1 p 0 - nth i1 R 0) + c * (nth i2 p 0 - nth i2 R 0))
  else if (j =? i1)%nat then nth i1 R 0 + (c * (nth i1 p 0 - nth i1 R 0) - s * (nth i2 p 0 - nth i2 R 0))
  else nth j p 0.
Proof. intros H H1 H2. unfold rot_pt. nthsolve. Qed.

Lemma rot_pt_length c s i1 i2 R p : length (rot_pt c s i1 i2 R p) = length p.
Proof. unfold rot_pt. rewrite !set_nth_length. reflexivity. Qed.

Lemma nth_ofnat (sh : list nat) j : (j < length sh)%nat ->
  nth j (map Z.of_nat sh) 1%Z = Z.of_nat (nth j sh 0%nat).
Proof.
  intros H. rewrite (nth_indep _ 1%Z (Z.of_nat 0)) by (rewrite map_length; exact H).
  apply map_nth.
Qed.
Lemma nth_ofnat0 (sh : list nat) j : nth j (map Z.of_nat sh) 0%Z = Z.of_nat (nth j sh 0%nat).
Proof. change 0%Z with (Z.of_nat 0). apply map_nth. Qed.

Lemma nth_centre m t j : (j < length (pmin (reg m)))%nat -> nth j (centre m t) 0 = centre_coord m t j.
Proof. intros H. unfold centre. apply nth_map_iota. exact H. Qed.

Lemma centre_length m t : length (centre m t) = length (pmin (reg m)).
Proof. unfold centre. rewrite map_length, iota_length. reflexivity. Qed.

Ltac try_keep a b T Ru :=
  solve [etransitivity; [apply (axis_keep a b T Ru); [assumption|assumption|ring|ring] | ring]].
Ltac try_flip a b T Ru :=
  solve [etransitivity; [apply (axis_flip a b T Ru); [assumption|assumption|ring|ring] | ring]].
Ltac fin_ab a b R1 R2 :=
  first [ try_keep a b R1 R1 | try_keep a b R2 R2 | try_keep a b R1 R2 | try_keep a b R2 R1
        | try_keep a b 0 0
        | try_flip a b R1 R1 | try_flip a b R2 R2 | try_flip a b R1 R2 | try_flip a b R2 R1 ].

Theorem centre_covariant ip m a b k ref m' R i1 i2 (sh : list nat) (i : idx) j :
  wf_mesh m -> n m = map Z.of_nat sh ->
  mesh_rotate90 ip m a b k ref = OK m' ->
  rot_reference (reg m) ref = OK R -> dim2index (reg m) a = OK i1 -> dim2index (reg m) b = OK i2 ->
  length i = length sh -> (forall j, (j < length sh)%nat -> (nth j i 0 < nth j sh 0)%nat) ->
  (j < length sh)%nat ->
  centre_coord m' (map Z.of_nat (rot_index sh i1 i2 k i)) j ==
  nth j (rot_pt (fst (qturn k)) (snd (qturn k)) i1 i2 R (centre m (map Z.of_nat i))) 0.
Proof.
  intros Hwf Hn Hrot HR Hd1 Hd2 Hli Hin Hj.
  destruct (mesh_rotate90_inv _ _ _ _ _ _ _ Hrot) as (r' & i1' & i2' & Hreg & Hd1' & Hd2' & Hr' & Hn' & _).
  rewrite Hd1 in Hd1'. rewrite Hd2 in Hd2'. inversion Hd1'; inversion Hd2'; subst i1' i2'. clear Hd1' Hd2'.
  destruct (region_rotate90_inv _ _ _ _ _ _ _ Hreg) as (R' & i1' & i2' & Hab & HR' & Hd1' & Hd2' & Hpm & HpM & _).
  rewrite HR in HR'. rewrite Hd1 in Hd1'. rewrite Hd2 in Hd2'.
  inversion HR'; inversion Hd1'; inversion Hd2'; subst R' i1' i2'. clear HR' Hd1' Hd2'.
  destruct Hwf as [[L1 [L0 [L2 [L3 [_ [Hlt _]]]]]] [L4 Hpos]].
  assert (Lsh : length sh = length (pmin (reg m))) by (rewrite <- L4, Hn, map_length; reflexivity).
  destruct (dim2index_spec _ _ _ Hd1) as [B1 N1]. destruct (dim2index_spec _ _ _ Hd2) as [B2 N2].
  assert (Hne : i1 <> i2) by (intros ->; apply Hab; congruence).
  rewrite L2 in B1, B2.
  assert (Hlt' : forall j, (j < length (pmin (reg m)))%nat -> nth j (pmin (reg m)) 0 < nth j (pmax (reg m)) 0).
  { clear - Hlt. induction Hlt as [|x y l1 l2 Hxy H IH]; intros [|j] Hj; simpl in *; try lia; auto. apply IH; lia. }
  assert (Hpz : forall j, (j < length sh)%nat -> (0 < Z.of_nat (nth j sh 0%nat))%Z).
  { intros j' Hj'. specialize (Hin j' Hj'). lia. }
  pose proof (Hlt' i1 B1) as Hlt1. pose proof (Hlt' i2 B2) as Hlt2. pose proof (Hlt' j ltac:(lia)) as Hltj.
  pose proof (Hin i1 ltac:(lia)) as Hx. pose proof (Hin i2 ltac:(lia)) as Hy.
  unfold centre_coord at 1. rewrite Hr', Hpm, HpM, Hn'.
  rewrite (nth_map2 Qmin _ _ j 0 0 0) by (rewrite rot_pt_length; lia).
  rewrite (nth_map2 Qmax _ _ j 0 0 0) by (rewrite rot_pt_length; lia).
  rewrite !nth_rot_pt by (try exact Hne; rewrite ?centre_length; lia).
  rewrite !nth_centre by lia.
  rewrite nth_ofnat0.
  unfold rot_n, rot_index, swap_nth, qturn, zturn. rewrite <- (odd_mod4 k), Hn.
  unfold centre_coord. rewrite Hn, !nth_ofnat, !nth_ofnat0 by lia.
  set (a1 := nth i1 (pmin (reg m)) 0) in *. set (b1 := nth i1 (pmax (reg m)) 0) in *.
  set (a2 := nth i2 (pmin (reg m)) 0) in *. set (b2 := nth i2 (pmax (reg m)) 0) in *.
  set (R1 := nth i1 R 0). set (R2 := nth i2 R 0).
  set (x := nth i1 i 0%nat) in *. set (y := nth i2 i 0%nat) in *.
  set (n1 := nth i1 sh 0%nat) in *. set (n2 := nth i2 sh 0%nat) in *.
  pose proof (Hpz i1 ltac:(lia)) as Hp1. pose proof (Hpz i2 ltac:(lia)) as Hp2. pose proof (Hpz j Hj) as Hpj.
  fold n1 in Hp1. fold n2 in Hp2.
  destruct (mod4_cases k) as [H|[H|[H|H]]]; rewrite H; cbn [Z.odd fst snd];
    destruct (Nat.eqb_spec j i2) as [->|Hj2]; [|destruct (Nat.eqb_spec j i1) as [->|Hj1] | |destruct (Nat.eqb_spec j i1) as [->|Hj1] | |destruct (Nat.eqb_spec j i1) as [->|Hj1] | |destruct (Nat.eqb_spec j i1) as [->|Hj1]].
  all: repeat (rewrite ?nth_set_nth, ?set_nth_length, ?map_length).
  all: repeat match goal with
         | |- context [(?x =? ?y)%nat] => destruct (Nat.eqb_spec x y); try lia; try congruence
         end.
  all: repeat match goal with
         | |- context [(?x <? ?y)%nat] => destruct (Nat.ltb_spec x y); try lia
         end.
  all: cbn [andb]; rewrite ?nth_ofnat, ?nth_ofnat0 by lia.
  all: fold a1 b1 a2 b2 x y n1 n2.
  all: try (replace (Z.of_nat (n2 - 1 - y)) with (Z.of_nat n2 - 1 - Z.of_nat y)%Z by lia).
  all: try (replace (Z.of_nat (n1 - 1 - x)) with (Z.of_nat n1 - 1 - Z.of_nat x)%Z by lia).
  all: change (inject_Z 0) with 0; change (inject_Z 1) with 1.
  all: first [ fin_ab a1 b1 R1 R2 | fin_ab a2 b2 R1 R2
             | fin_ab (nth j (pmin (reg m)) 0) (nth j (pmax (reg m)) 0) R1 R2 ].
Qed.
