(* C12: covariance.  Part B: numpy.rot90 (as built from flip and transpose) moves the value of
   source cell i to the target cell rot_index i.  Part A (scalar core): along one axis the centre
   of the target cell is the image of the centre of the source cell. *)
From DF Require Import Prelude Constants_gen FieldK NDArray Region Mesh Rotate90 ListLemmas QLemmas C12_rot.
Open Scope Q_scope.

(* where cell i goes: the forward index map of a rotation by k quarter turns from axis a to axis b *)
Definition rot_index (sh : list nat) (a b : nat) (k : Z) (i : idx) : idx :=
  let n1 := nth a sh 0%nat in
  let n2 := nth b sh 0%nat in
  let x := nth a i 0%nat in
  let y := nth b i 0%nat in
  match (k mod 4)%Z with
  | 0%Z => i
  | 1%Z => set_nth b x (set_nth a (n2 - 1 - y)%nat i)
  | 2%Z => set_nth b (n2 - 1 - y)%nat (set_nth a (n1 - 1 - x)%nat i)
  | _ => set_nth b (n1 - 1 - x)%nat (set_nth a y i)
  end.

Lemma nth_set_nth {A} i j (x : A) l d :
  nth j (set_nth i x l) d = if ((j =? i) && (i <? length l))%nat then x else nth j l d.
Proof.
  destruct (Nat.eqb_spec j i) as [->|Hn]; simpl.
  - destruct (Nat.ltb_spec i (length l)) as [H|H].
    + apply nth_set_nth_eq; exact H.
    + rewrite !nth_overflow; [reflexivity|lia|rewrite set_nth_length; lia].
  - apply nth_set_nth_neq; congruence.
Qed.

Ltac nthsolve :=
  repeat (rewrite ?nth_set_nth, ?set_nth_length);
  repeat match goal with
         | |- context [(?x =? ?y)%nat] => destruct (Nat.eqb_spec x y)
         end;
  repeat match goal with
         | |- context [(?x <? ?y)%nat] => destruct (Nat.ltb_spec x y)
         end;
  subst; cbn [andb]; try reflexivity; try lia; try congruence.

Lemma rot_index_length sh a b k i : length (rot_index sh a b k i) = length i.
Proof.
  unfold rot_index. destruct (mod4_cases k) as [H|[H|[H|H]]]; rewrite H; rewrite ?set_nth_length; reflexivity.
Qed.

Theorem rot90_at {V} (sh : list nat) (a b : nat) (k : Z) (f : idx -> V) (i : idx) :
  a <> b -> (a < length i)%nat -> (b < length i)%nat -> length sh = length i ->
  (nth a i 0 < nth a sh 0)%nat -> (nth b i 0 < nth b sh 0)%nat ->
  rot90 sh a b k f (rot_index sh a b k i) = f i.
Proof.
  intros Hab Ha Hb Hl Hx Hy.
  unfold rot90, rot_index.
  destruct (mod4_cases k) as [H|[H|[H|H]]]; rewrite H.
  - reflexivity.
  - unfold swap_ax, flip_ax, swap_nth. f_equal.
    apply nth_ext with (d := 0%nat) (d' := 0%nat); [rewrite !set_nth_length; reflexivity|].
    intros j Hj. rewrite !set_nth_length in Hj. nthsolve.
  - unfold flip_ax. f_equal.
    apply nth_ext with (d := 0%nat) (d' := 0%nat); [rewrite !set_nth_length; reflexivity|].
    intros j Hj. rewrite !set_nth_length in Hj. nthsolve.
  - unfold swap_ax, flip_ax, swap_nth. f_equal.
    apply nth_ext with (d := 0%nat) (d' := 0%nat); [rewrite !set_nth_length; reflexivity|].
    intros j Hj. rewrite !set_nth_length in Hj. nthsolve.
Qed.

(* the target index is in range of the rotated shape *)
Lemma rot_index_inrange sh a b k i j :
  a <> b -> (a < length i)%nat -> (b < length i)%nat -> length sh = length i ->
  (forall j, (j < length i)%nat -> (nth j i 0 < nth j sh 0)%nat) -> (j < length i)%nat ->
  (nth j (rot_index sh a b k i) 0 < nth j (rot90_shape sh a b k) 0)%nat.
Proof.
  intros Hab Ha Hb Hl Hr Hj.
  pose proof (Hr a Ha) as Hx. pose proof (Hr b Hb) as Hy. pose proof (Hr j Hj) as Hjj.
  unfold rot_index, rot90_shape, swap_nth. rewrite <- (odd_mod4 k).
  destruct (mod4_cases k) as [H|[H|[H|H]]]; rewrite H; cbn [Z.odd]; nthsolve.
Qed.

(* ---------- Part A: one axis ---------- *)
Lemma Qminmax_lt u v : u < v -> Qmin u v == u /\ Qmax u v == v.
Proof. intros H. split; [apply Q.min_l|apply Q.max_r]; lra. Qed.
Lemma Qminmax_gt u v : v < u -> Qmin u v == v /\ Qmax u v == u.
Proof. intros H. split; [apply Q.min_r|apply Q.max_l]; lra. Qed.

(* orientation kept: u |-> T + (u - Ru); the cell index is kept *)
Lemma axis_keep (a b T Ru u v : Q) (nz idx : Z) :
  a < b -> (0 < nz)%Z -> u == T + (a - Ru) -> v == T + (b - Ru) ->
  i2p1 (Qmin u v) (cell_of (Qmin u v) (Qmax u v) nz) idx
  == T + (i2p1 a (cell_of a b nz) idx - Ru).
Proof.
  intros Hab Hn Hu Hv.
  destruct (Qminmax_lt u v) as [Hmin Hmax]; [lra|].
  unfold i2p1, cell_of. rewrite Hmin, Hmax, Hu, Hv.
  assert (Hnz : ~ inject_Z nz == 0) by (pose proof (inject_Z_pos nz Hn); lra).
  field. exact Hnz.
Qed.

(* orientation reversed: u |-> T - (u - Ru); cell idx goes to n-1-idx *)
Lemma axis_flip (a b T Ru u v : Q) (nz idx : Z) :
  a < b -> (0 < nz)%Z -> u == T - (a - Ru) -> v == T - (b - Ru) ->
  i2p1 (Qmin u v) (cell_of (Qmin u v) (Qmax u v) nz) (nz - 1 - idx)
  == T - (i2p1 a (cell_of a b nz) idx - Ru).
Proof.
  intros Hab Hn Hu Hv.
  destruct (Qminmax_gt u v) as [Hmin Hmax]; [lra|].
  unfold i2p1, cell_of. rewrite Hmin, Hmax, Hu, Hv.
  assert (Hnz : ~ inject_Z nz == 0) by (pose proof (inject_Z_pos nz Hn); lra).
  unfold Zminus. rewrite !inject_Z_plus, inject_Z_opp. unfold half_cell.
  field. exact Hnz.
Qed.
