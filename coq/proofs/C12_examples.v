(* C12: concrete instances of the hypotheses of the composition theorems (non-vacuity). *)
From DF Require Import Prelude Constants_gen FieldK NDArray Region Mesh Rotate90 C12_rot C12_cov C12_field C12_compose.
Open Scope Q_scope.

Lemma compose_instance :
  wf_region (reg m0) /\
  exists r1 r2 r3 r4,
    region_rotate90 false (reg m0) "x" "y" 1 None = OK r1 /\ region_rotate90 true r1 "x" "y" 1 None = OK r2 /\
    region_rotate90 false r2 "x" "y" 1 None = OK r3 /\ region_rotate90 true r3 "x" "y" 1 None = OK r4 /\
    (exists s, region_rotate90 true r1 "x" "y" (-1) None = OK s) /\
    (exists s, region_rotate90 false (reg m0) "x" "y" (1 + 1) None = OK s).
Proof.
  split; [exact (proj1 m0_wf)|].
  do 4 eexists. repeat split; try (vm_compute; reflexivity); eexists; vm_compute; reflexivity.
Qed.
