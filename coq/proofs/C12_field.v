(* C12: field level - validity and values move with the cells, the two mapped components are
   rotated, scalars and unmapped components are unchanged, metadata. *)
From DF Require Import Prelude Constants_gen FieldK NDArray Region Mesh Rotate90 ListLemmas QLemmas C12_rot C12_cov.
Open Scope Q_scope.

Lemma field_rotate90_inv K ip (f : field K) a b k ref g :
  field_rotate90 K ip f a b k ref = OK g ->
  exists m' i1 i2, mesh_rotate90 ip (fmesh f) a b k ref = OK m' /\
    dim2index (reg (fmesh f)) a = OK i1 /\ dim2index (reg (fmesh f)) b = OK i2 /\
    fmesh g = m' /\ nvdim g = nvdim f /\ vdims g = vdims f /\ vmap g = vmap f /\
    fvalid g = rot90 (fshape f) i1 i2 k (fvalid f) /\
    ((nvdim f <= 1)%nat -> fval g = rot90 (fshape f ++ [nvdim f]) i1 i2 k (fval f)) /\
    ((1 < nvdim f)%nat -> exists v1 v2,
        comp_of (vdims f) (vmap f) a = OK v1 /\ comp_of (vdims f) (vmap f) b = OK v2 /\
        fval g = rot_comp K (fst (kturn K k)) (snd (kturn K k)) v1 v2
                   (rot90 (fshape f ++ [nvdim f]) i1 i2 k (fval f))).
Proof.
  unfold field_rotate90.
  destruct (dim2index (reg (fmesh f)) a) as [i1|]; [|discriminate]. cbn [bind].
  destruct (dim2index (reg (fmesh f)) b) as [i2|]; [|discriminate]. cbn [bind].
  destruct (Nat.ltb_spec 1 (nvdim f)) as [Hnv|Hnv].
  - destruct (comp_of (vdims f) (vmap f) a) as [v1|]; [|discriminate]. cbn [bind].
    destruct (comp_of (vdims f) (vmap f) b) as [v2|]; [|discriminate]. cbn [bind].
    destruct (mesh_rotate90 ip (fmesh f) a b k ref) as [m'|]; [|discriminate]. cbn [bind].
    intros H; inversion H; subst; cbn. exists m', i1, i2. repeat split; try reflexivity.
    + intros; lia.
    + intros _. exists v1, v2. repeat split; reflexivity.
  - cbn [bind].
    destruct (mesh_rotate90 ip (fmesh f) a b k ref) as [m'|]; [|discriminate]. cbn [bind].
    intros H; inversion H; subst; cbn. exists m', i1, i2. repeat split; try reflexivity.
    intros; lia.
Qed.

(* validity moves with the cells *)
Theorem validity_covariant K ip (f : field K) a b k ref g i1 i2 (i : idx) :
  wf_mesh (fmesh f) -> field_rotate90 K ip f a b k ref = OK g ->
  dim2index (reg (fmesh f)) a = OK i1 -> dim2index (reg (fmesh f)) b = OK i2 ->
  length i = length (fshape f) -> (forall j, (j < length i)%nat -> (nth j i 0 < nth j (fshape f) 0)%nat) ->
  fvalid g (rot_index (fshape f) i1 i2 k i) = fvalid f i.
Proof.
  intros Hwf H Hd1 Hd2 Hl Hin.
  destruct (field_rotate90_inv _ _ _ _ _ _ _ _ H) as (m' & j1 & j2 & Hm & Hd1' & Hd2' & _ & _ & _ & _ & Hv & _).
  rewrite Hd1 in Hd1'; rewrite Hd2 in Hd2'; inversion Hd1'; inversion Hd2'; subst j1 j2.
  destruct (mesh_rotate90_inv _ _ _ _ _ _ _ Hm) as (r' & j1 & j2 & Hreg & _).
  destruct (region_rotate90_inv _ _ _ _ _ _ _ Hreg) as (R & j1' & j2' & Hab & _ & Hd1'' & Hd2'' & _).
  rewrite Hd1 in Hd1''; rewrite Hd2 in Hd2''; inversion Hd1''; inversion Hd2''; subst j1' j2'.
  destruct (dim2index_spec _ _ _ Hd1) as [B1 N1]. destruct (dim2index_spec _ _ _ Hd2) as [B2 N2].
  assert (Hne : i1 <> i2) by (intros ->; apply Hab; congruence).
  rewrite Hv.
  destruct Hwf as [[_ [_ [L2 _]]] [L4 _]].
  assert (Lf : length (fshape f) = length (dims (reg (fmesh f)))).
  { unfold fshape, znat. rewrite map_length. lia. }
  apply rot90_at; auto; try lia. apply Hin; lia. apply Hin; lia.
Qed.

(* the component rotation: mapped components get the quarter turn, all others are unchanged *)
Lemma rot_comp_other (K : FOps) (c s : K) v1 v2 (f : idx -> K) base comp :
  comp <> v1 -> comp <> v2 -> rot_comp K c s v1 v2 f (base ++ [comp]) = f (base ++ [comp]).
Proof.
  intros H1 H2. unfold rot_comp. rewrite last_last.
  destruct (Nat.eqb_spec comp v2); [congruence|]. destruct (Nat.eqb_spec comp v1); [congruence|]. reflexivity.
Qed.

Lemma rot_comp_first (K : FOps) (c s : K) v1 v2 (f : idx -> K) base :
  v1 <> v2 ->
  rot_comp K c s v1 v2 f (base ++ [v1]) = fsub (fmul c (f (base ++ [v1]))) (fmul s (f (base ++ [v2]))).
Proof.
  intros H. unfold rot_comp. rewrite last_last, removelast_last.
  destruct (Nat.eqb_spec v1 v2); [congruence|]. rewrite Nat.eqb_refl. reflexivity.
Qed.

Lemma rot_comp_second (K : FOps) (c s : K) v1 v2 (f : idx -> K) base :
  rot_comp K c s v1 v2 f (base ++ [v2]) = fadd (fmul s (f (base ++ [v1]))) (fmul c (f (base ++ [v2]))).
Proof. unfold rot_comp. rewrite last_last, removelast_last, Nat.eqb_refl. reflexivity. Qed.

(* metadata: n and units swapped iff k is odd, dims and labels kept *)
Theorem rotate90_metadata K ip (f : field K) a b k ref g i1 i2 :
  field_rotate90 K ip f a b k ref = OK g ->
  dim2index (reg (fmesh f)) a = OK i1 -> dim2index (reg (fmesh f)) b = OK i2 ->
  n (fmesh g) = (if Z.odd k then swap_nth 0%Z i1 i2 (n (fmesh f)) else n (fmesh f)) /\
  units (reg (fmesh g)) = (if Z.odd k then swap_nth ""%string i1 i2 (units (reg (fmesh f))) else units (reg (fmesh f))) /\
  dims (reg (fmesh g)) = dims (reg (fmesh f)) /\
  nvdim g = nvdim f /\ vdims g = vdims f /\ vmap g = vmap f.
Proof.
  intros H Hd1 Hd2.
  destruct (field_rotate90_inv _ _ _ _ _ _ _ _ H) as (m' & j1 & j2 & Hm & Hd1' & Hd2' & Hg & Hnv & Hvd & Hvm & _).
  rewrite Hd1 in Hd1'; rewrite Hd2 in Hd2'; inversion Hd1'; inversion Hd2'; subst j1 j2.
  destruct (mesh_rotate90_inv _ _ _ _ _ _ _ Hm) as (r' & j1 & j2 & Hreg & Hd1'' & Hd2'' & Hr & Hn & _).
  rewrite Hd1 in Hd1''; rewrite Hd2 in Hd2''; inversion Hd1''; inversion Hd2''; subst j1 j2.
  destruct (region_rotate90_inv _ _ _ _ _ _ _ Hreg) as (R & j1 & j2 & _ & _ & Hd1''' & Hd2''' & _ & _ & Hds & Hus & _).
  rewrite Hd1 in Hd1'''; rewrite Hd2 in Hd2'''; inversion Hd1'''; inversion Hd2'''; subst j1 j2.
  rewrite Hg, Hr, Hn, Hds, Hus. unfold rot_n, rot_units. repeat split; assumption.
Qed.

(* ---------- a concrete instance of the hypotheses (non-vacuity) ---------- *)
Definition m0 : mesh :=
  mkMesh (mkRegion [0; 0] [8; 4] ["x"%string; "y"%string] ["m"%string; "s"%string] (1 # 1000)) [4; 2]%Z "" [].

Lemma m0_wf : wf_mesh m0.
Proof.
  unfold wf_mesh, wf_region, m0; cbn. repeat split; try lia.
  - repeat constructor; cbn; intuition discriminate.
  - repeat constructor; unfold Qlt; cbn; lia.
  - unfold Qle; cbn; lia.
  - repeat constructor; lia.
Qed.

Lemma m0_instance :
  wf_mesh m0 /\ n m0 = map Z.of_nat [4; 2]%nat /\
  is_ok (mesh_rotate90 false m0 "x" "y" (-1) (Some [1; 2])) = true /\
  is_ok (mesh_rotate90 true m0 "y" "x" 7 None) = true /\
  rot_reference (reg m0) (Some [1; 2]) = OK [1; 2] /\
  dim2index (reg m0) "x" = OK 0%nat /\ dim2index (reg m0) "y" = OK 1%nat /\
  (forall j, (j < 2)%nat -> (nth j [3; 1]%nat 0 < nth j [4; 2]%nat 0)%nat).
Proof.
  split; [exact m0_wf|]. repeat split; try reflexivity.
  intros [|[|j]] Hj; cbn; lia.
Qed.
