(* C12: the in-place form of Region.rotate90 equals the copying form (region level). *)
From DF Require Import Prelude Constants_gen FieldK NDArray Region Mesh Rotate90 ListLemmas QLemmas C12_rot C12_cov.
Open Scope Q_scope.

Lemma qeqb_ext a b : (a == 0 <-> b == 0) -> Qeq_bool a 0 = Qeq_bool b 0.
Proof.
  intros H. destruct (Qeq_bool a 0) eqn:E1, (Qeq_bool b 0) eqn:E2; auto.
  - apply Qeq_bool_iff in E1. apply H in E1. apply Qeq_bool_iff in E1. congruence.
  - apply Qeq_bool_iff in E2. apply H in E2. apply Qeq_bool_iff in E2. congruence.
Qed.

Lemma edge_zero_minmax x y : Qeq_bool (Qmax x y - Qmin x y) 0 = Qeq_bool (y - x) 0.
Proof.
  apply qeqb_ext. destruct (Qlt_le_dec x y) as [H|H].
  - destruct (Qminmax_lt x y H) as [E1 E2]. rewrite E1, E2. reflexivity.
  - destruct (Qle_lt_or_eq _ _ H) as [H'|H'].
    + destruct (Qminmax_gt x y H') as [E1 E2]. rewrite E1, E2. split; intros; lra.
    + rewrite (Q.max_l x y) by lra. rewrite (Q.min_r x y) by lra. split; intros; lra.
Qed.

Lemma edges_zero_minmax p1 p2 :
  existsb (fun e => Qeq_bool e 0) (edges_of (map2 Qmin p1 p2) (map2 Qmax p1 p2)) =
  existsb (fun e => Qeq_bool e 0) (edges_of p1 p2).
Proof.
  revert p2; induction p1 as [|x p1 IH]; intros [|y p2]; cbn; try reflexivity.
  rewrite edge_zero_minmax. f_equal. apply IH.
Qed.

Lemma nodupb_NoDup l : NoDup l -> nodupb l = true.
Proof.
  induction 1 as [|x l Hx Hn IH]; cbn; [reflexivity|]. rewrite IH, andb_true_r.
  destruct (existsb (String.eqb x) l) eqn:E; [|reflexivity].
  apply existsb_exists in E. destruct E as [y [Hy Hxy]]. apply String.eqb_eq in Hxy. subst. contradiction.
Qed.

Theorem region_inplace_eq_copy r a b k ref : wf_region r ->
  region_rotate90 true r a b k ref = region_rotate90 false r a b k ref.
Proof.
  intros (L1 & L0 & L2 & L3 & Hnd & _ & _).
  unfold region_rotate90. destruct (String.eqb a b); [reflexivity|].
  destruct (rot_reference r ref) as [R|]; [|reflexivity]. cbn [bind].
  destruct (dim2index r a) as [i1|]; [|reflexivity]. cbn [bind].
  destruct (dim2index r b) as [i2|]; [|reflexivity]. cbn [bind].
  unfold mk_region. rewrite !rot_pt_length.
  replace (length (pmin r) =? length (pmax r))%nat with true by (symmetry; apply Nat.eqb_eq; exact L1).
  replace (length (pmin r) =? 0)%nat with false by (symmetry; apply Nat.eqb_neq; lia).
  replace (length (dims r) =? length (pmin r))%nat with true by (symmetry; apply Nat.eqb_eq; exact L2).
  rewrite (nodupb_NoDup _ Hnd).
  assert (Lu : length (rot_units k i1 i2 (units r)) = length (pmin r)).
  { unfold rot_units. destruct (Z.odd k); rewrite ?swap_nth_length; exact L3. }
  rewrite Lu, Nat.eqb_refl. cbn [negb bind].
  rewrite edges_zero_minmax. reflexivity.
Qed.
