(* C12: link of the geometric covariance to C01: on the rotated mesh, point2index at the centre of
   the target cell (which is R + Q (centre i - R), C12_covariance_geometry) returns rot_index i. *)
From DF Require Import Prelude Constants_gen FieldK NDArray Region Mesh Rotate90 ListLemmas QLemmas
  C01_nd C12_rot C12_cov C12_compose.
Open Scope Q_scope.

Lemma map_set_nth {A B} (g : A -> B) i x l : map g (set_nth i x l) = set_nth i (g x) (map g l).
Proof. revert i; induction l as [|h t IH]; intros [|i]; simpl; try reflexivity. rewrite IH. reflexivity. Qed.

Lemma rot_n_ofnat k i1 i2 sh : rot_n k i1 i2 (map Z.of_nat sh) = map Z.of_nat (rot90_shape sh i1 i2 k).
Proof.
  unfold rot_n, rot90_shape, swap_nth. destruct (Z.odd k); [|reflexivity].
  rewrite !map_set_nth. change 0%Z with (Z.of_nat 0). rewrite !map_nth. reflexivity.
Qed.

Lemma rot90_shape_len sh a b k : length (rot90_shape sh a b k) = length sh.
Proof. unfold rot90_shape. destruct (Z.odd k); rewrite ?swap_nth_length; reflexivity. Qed.

Lemma mesh_rotate90_wf ip m a b k ref m' (sh : list nat) :
  wf_mesh m -> n m = map Z.of_nat sh -> (forall j, (j < length sh)%nat -> (0 < nth j sh 0)%nat) ->
  mesh_rotate90 ip m a b k ref = OK m' -> wf_mesh m'.
Proof.
  intros (Hwr & Ln & Hpos) Hn Hp Hrot.
  destruct (mesh_rotate90_inv _ _ _ _ _ _ _ Hrot) as (r' & i1 & i2 & Hreg & Hd1 & Hd2 & Hr' & Hn' & _).
  destruct (region_rotate90_inv _ _ _ _ _ _ _ Hreg) as (R & j1 & j2 & _ & HR & Hd1' & Hd2' & _).
  rewrite Hd1 in Hd1'; rewrite Hd2 in Hd2'; inversion Hd1'; inversion Hd2'; subst j1 j2.
  destruct (region_rot_desc _ _ _ _ _ _ _ _ _ _ Hwr Hreg HR Hd1 Hd2) as (Hne & B1 & B2 & Lm & _).
  unfold wf_mesh. rewrite Hr', Hn', Hn, rot_n_ofnat.
  split; [eapply region_rotate90_wf; eassumption|].
  assert (Lsh : length sh = length (pmin (reg m))) by (rewrite <- Ln, Hn, map_length; reflexivity).
  split.
  - rewrite map_length. unfold rot90_shape. destruct (Z.odd k); rewrite ?swap_nth_length; lia.
  - apply Forall_forall. intros z Hz. apply in_map_iff in Hz. destruct Hz as [x [<- Hx]].
    apply (In_nth _ _ 0%nat) in Hx. destruct Hx as [j [Hj <-]].
    assert (Hj' : (j < length sh)%nat).
    { revert Hj. unfold rot90_shape. destruct (Z.odd k); rewrite ?swap_nth_length; lia. }
    assert (0 < nth j (rot90_shape sh i1 i2 k) 0)%nat; [|lia].
    unfold rot90_shape, swap_nth. pose proof (Hp i1 ltac:(lia)). pose proof (Hp i2 ltac:(lia)). pose proof (Hp j Hj').
    destruct (Z.odd k); [|assumption]. nthsolve.
Qed.

Theorem point2index_covariant ip m a b k ref m' R i1 i2 (sh : list nat) (i : idx) :
  wf_mesh m -> n m = map Z.of_nat sh ->
  mesh_rotate90 ip m a b k ref = OK m' ->
  rot_reference (reg m) ref = OK R -> dim2index (reg m) a = OK i1 -> dim2index (reg m) b = OK i2 ->
  length i = length sh -> (forall j, (j < length sh)%nat -> (nth j i 0 < nth j sh 0)%nat) ->
  let t := map Z.of_nat (rot_index sh i1 i2 k i) in
  exists P, index2point m' t = OK P /\ point2index m' P = OK t /\ length P = length sh /\
    forall j, (j < length sh)%nat ->
      nth j P 0 == nth j (rot_pt (fst (qturn k)) (snd (qturn k)) i1 i2 R (centre m (map Z.of_nat i))) 0.
Proof.
  intros Hwf Hn Hrot HR Hd1 Hd2 Hli Hin t.
  assert (Hp : forall j, (j < length sh)%nat -> (0 < nth j sh 0)%nat) by (intros j Hj; specialize (Hin j Hj); lia).
  pose proof (mesh_rotate90_wf _ _ _ _ _ _ _ _ Hwf Hn Hp Hrot) as Hwf'.
  destruct (mesh_rotate90_inv _ _ _ _ _ _ _ Hrot) as (r' & j1 & j2 & Hreg & Hd1' & Hd2' & Hr' & Hn' & _).
  rewrite Hd1 in Hd1'; rewrite Hd2 in Hd2'; inversion Hd1'; inversion Hd2'; subst j1 j2.
  destruct Hwf as (Hwr & Ln & Hpos).
  destruct (region_rot_desc _ _ _ _ _ _ _ _ _ _ Hwr Hreg HR Hd1 Hd2) as (Hne & B1 & B2 & Lm & _).
  assert (Lsh : length sh = length (pmin (reg m))) by (rewrite <- Ln, Hn, map_length; reflexivity).
  assert (Lnd : length (pmin (reg m')) = length sh) by (rewrite Hr'; lia).
  assert (Lt : length t = length (pmin (reg m'))).
  { unfold t. rewrite map_length, rot_index_length. lia. }
  assert (Hrange : forall j, (j < length (pmin (reg m')))%nat -> (0 <= nth j t 0 < nth j (n m') 1)%Z).
  { intros j Hj. unfold t. rewrite nth_ofnat0, Hn', Hn, rot_n_ofnat.
    rewrite nth_ofnat by (rewrite rot90_shape_len; lia).
    pose proof (rot_index_inrange sh i1 i2 k i j Hne ltac:(lia) ltac:(lia) ltac:(lia)
                  ltac:(intros j' Hj'; apply Hin; lia) ltac:(lia)). lia. }
  destruct (index2point_accepts m' Hwf' t Lt Hrange) as (P & HP & LP & HPj).
  exists P. split; [exact HP|]. split; [apply (roundtrip m' Hwf'); exact HP|]. split; [lia|].
  intros j Hj.
  rewrite <- (centre_covariant ip m a b k ref m' R i1 i2 sh i j (conj Hwr (conj Ln Hpos)) Hn Hrot HR Hd1 Hd2 Hli Hin Hj).
  rewrite (HPj j ltac:(lia)). rewrite (cell_nth m' Hwf' j ltac:(lia)).
  unfold centre_coord, i2p1, half_cell. reflexivity.
Qed.
