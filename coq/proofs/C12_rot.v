(* C12: basic lemmas about the quarter-turn model (Rotate90.v): list updates, the turn
   selected by k mod 4, dependence on k only through k mod 4, refusal of unmapped fields. *)
From DF Require Import Prelude FieldK NDArray Region Mesh Rotate90.
Open Scope Q_scope.

(* ---------- set_nth / swap_nth ---------- *)
Lemma set_nth_length {A} i (x : A) l : length (set_nth i x l) = length l.
Proof. revert i; induction l as [|h t IH]; intros [|i]; simpl; auto. Qed.

Lemma nth_set_nth_eq {A} i (x : A) l d : (i < length l)%nat -> nth i (set_nth i x l) d = x.
Proof. revert i; induction l as [|h t IH]; intros [|i] H; simpl in *; try lia; auto. apply IH; lia. Qed.

Lemma nth_set_nth_neq {A} i j (x : A) l d : i <> j -> nth j (set_nth i x l) d = nth j l d.
Proof.
  revert i j; induction l as [|h t IH]; intros [|i] [|j] H; simpl in *; try congruence; auto.
Qed.

Lemma swap_nth_length {A} (d : A) i j l : length (swap_nth d i j l) = length l.
Proof. unfold swap_nth. rewrite !set_nth_length. reflexivity. Qed.

Lemma nth_swap_nth_l {A} (d : A) i j l : (i < length l)%nat -> (j < length l)%nat -> i <> j ->
  nth i (swap_nth d i j l) d = nth j l d.
Proof.
  intros Hi Hj Hn. unfold swap_nth. rewrite nth_set_nth_neq by congruence.
  apply nth_set_nth_eq; assumption.
Qed.

Lemma nth_swap_nth_r {A} (d : A) i j l : (i < length l)%nat -> (j < length l)%nat ->
  nth j (swap_nth d i j l) d = nth i l d.
Proof.
  intros Hi Hj. unfold swap_nth. apply nth_set_nth_eq. rewrite set_nth_length; assumption.
Qed.

Lemma nth_swap_nth_other {A} (d : A) i j l a : a <> i -> a <> j ->
  nth a (swap_nth d i j l) d = nth a l d.
Proof. intros H1 H2. unfold swap_nth. rewrite !nth_set_nth_neq by congruence. reflexivity. Qed.

(* ---------- the turn ---------- *)
Lemma mod4_cases k : (k mod 4 = 0 \/ k mod 4 = 1 \/ k mod 4 = 2 \/ k mod 4 = 3)%Z.
Proof. pose proof (Z.mod_pos_bound k 4). lia. Qed.

Lemma zturn_mod4 k : zturn (k mod 4) = zturn k.
Proof. unfold zturn. rewrite Z.mod_mod by lia. reflexivity. Qed.

Lemma odd_mod4 k : Z.odd (k mod 4) = Z.odd k.
Proof.
  rewrite (Z.div_mod k 4) at 2 by lia.
  rewrite Z.add_comm, Z.odd_add_mul_even; [reflexivity|]. exists 2%Z; reflexivity.
Qed.

Lemma qturn_mod4 k : qturn (k mod 4) = qturn k.
Proof. unfold qturn. rewrite zturn_mod4. reflexivity. Qed.

Lemma kturn_mod4 K k : kturn K (k mod 4) = kturn K k.
Proof. unfold kturn. rewrite zturn_mod4. reflexivity. Qed.

Lemma rot90_mod4 {V} sh a b k (f : idx -> V) : rot90 sh a b (k mod 4) f = rot90 sh a b k f.
Proof. unfold rot90. rewrite Z.mod_mod by lia. reflexivity. Qed.

(* every level depends on k only through k mod 4 *)
Lemma region_rotate90_mod4 ip r a b k ref :
  region_rotate90 ip r a b (k mod 4) ref = region_rotate90 ip r a b k ref.
Proof. unfold region_rotate90, rot_units. rewrite qturn_mod4, odd_mod4. reflexivity. Qed.

Lemma mapM_ext {A B} (f g : A -> res B) l : (forall x, f x = g x) -> mapM f l = mapM g l.
Proof. intros H; induction l as [|x t IH]; simpl; [reflexivity|]. rewrite H, IH. reflexivity. Qed.

Lemma mesh_rotate90_mod4 ip m a b k ref :
  mesh_rotate90 ip m a b (k mod 4) ref = mesh_rotate90 ip m a b k ref.
Proof.
  unfold mesh_rotate90, rot_n, rot_bc. rewrite region_rotate90_mod4, odd_mod4.
  destruct (region_rotate90 ip (reg m) a b k ref) as [r'|e]; simpl; [|reflexivity].
  destruct (dim2index (reg m) a); simpl; [|reflexivity].
  destruct (dim2index (reg m) b); simpl; [|reflexivity].
  erewrite mapM_ext; [reflexivity|]. intros x; simpl. rewrite region_rotate90_mod4. reflexivity.
Qed.

Lemma field_rotate90_mod4 K ip (f : field K) a b k ref :
  field_rotate90 K ip f a b (k mod 4) ref = field_rotate90 K ip f a b k ref.
Proof.
  unfold field_rotate90. rewrite mesh_rotate90_mod4.
  destruct (dim2index (reg (fmesh f)) a); simpl; [|reflexivity].
  destruct (dim2index (reg (fmesh f)) b); simpl; [|reflexivity].
  rewrite !rot90_mod4, zturn_mod4. reflexivity.
Qed.

(* ---------- refusal ---------- *)
Lemma field_refuse_unmapped K ip (f : field K) a b k ref :
  (1 < nvdim f)%nat -> rlookup a (vmap f) = None \/ rlookup b (vmap f) = None ->
  is_ok (field_rotate90 K ip f a b k ref) = false.
Proof.
  intros Hnv H. unfold field_rotate90.
  destruct (dim2index (reg (fmesh f)) a); simpl; [|reflexivity].
  destruct (dim2index (reg (fmesh f)) b); simpl; [|reflexivity].
  apply Nat.ltb_lt in Hnv. rewrite Hnv. unfold comp_of.
  destruct H as [H|H].
  - rewrite H. reflexivity.
  - rewrite H. destruct (rlookup a (vmap f)); simpl; [|reflexivity].
    destruct (index_of s (vdims f)); reflexivity.
Qed.

(* rlookup finds nothing exactly when no entry of the mapping names the axis *)
Lemma rlookup_none dim vm : rlookup dim vm = None <-> forall kv, In kv vm -> snd kv <> dim.
Proof.
  induction vm as [|[key val] t IH]; simpl.
  - split; [intros _ kv []|reflexivity].
  - destruct (rlookup dim t) eqn:E.
    + split; [discriminate|]. intros H. exfalso.
      assert (Hn : forall kv, In kv t -> snd kv <> dim) by (intros kv Hk; apply H; right; exact Hk).
      apply IH in Hn. discriminate.
    + destruct (String.eqb val dim) eqn:E2.
      * split; [discriminate|]. intros H. apply String.eqb_eq in E2.
        exfalso. apply (H (key, val)); [left; reflexivity|exact E2].
      * split; [|reflexivity]. intros _ kv [Hk|Hk].
        -- subst kv. simpl. apply String.eqb_neq. exact E2.
        -- apply IH; [reflexivity|exact Hk].
Qed.
