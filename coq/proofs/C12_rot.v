(* C12: lemmas about the quarter-turn model (Rotate90.v). *)
From DF Require Import Prelude FieldK NDArray Region Mesh Rotate90.
Open Scope Q_scope.

Lemma zturn_mod4 k : zturn (k mod 4) = zturn k.
Proof. unfold zturn. rewrite Z.mod_mod by lia. reflexivity. Qed.
