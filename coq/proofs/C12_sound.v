(* C12: soundness of check_C12 - an accepted case certifies that the OBSERVED output of
   Region / Mesh / Field .rotate90 is the model's value on the recorded input (corners by
   equality in the exact regime, within tol * scale in the scale regime; cell counts, units,
   dims, values, validity, labels and mapping by equality), so the C12 theorems apply to the
   observation itself. *)
From Coq Require Import Qcanon.
From DF Require Import Prelude Constants_gen FieldK NDArray Region Mesh Rotate90 ListLemmas QLemmas
  CheckSound Check_C12 C08_arrays C12_rot C12_cov C12_field C12_inplace C12_compose C12_link.
Open Scope Q_scope.

Ltac split_andb :=
  repeat match goal with
         | H : _ && _ = true |- _ => apply andb_true_iff in H; destruct H
         end.

(* ---------- the relations the comparisons certify ---------- *)
Definition within (e a b : Q) : Prop := Qabs (a - b) <= e.

Definition region_obs (e : Q) (r : region) (o : oregion) : Prop :=
  match o with
  | (omin, omax, ods, ous) =>
      Forall2 (within e) (pmin r) omin /\ Forall2 (within e) (pmax r) omax /\
      dims r = ods /\ units r = ous
  end.

Definition sub_obs (e : Q) (s : string * region) (o : sub_t) : Prop :=
  fst s = fst o /\ Forall2 (within e) (pmin (snd s)) (fst (snd o)) /\
  Forall2 (within e) (pmax (snd s)) (snd (snd o)).

(* bc: the same set of periodic axes; a keyword only matches itself *)
Definition bc_same (a b : string) : Prop :=
  (bc_keyword a = true \/ bc_keyword b = true -> a = b) /\
  forall c, letter_in c a = letter_in c b.

Definition mesh_obs (e : Q) (m : mesh) (o : omesh) : Prop :=
  match o with
  | (oreg, ons, osubs, obc) =>
      region_obs e (reg m) oreg /\ n m = ons /\ Forall2 (sub_obs e) (subs m) osubs /\
      bc_same (bc m) obc
  end.

Lemma within_zero sc a b : within (0 * sc) a b -> a == b.
Proof.
  unfold within. intro H. apply Qabs_Qle_condition in H. destruct H as [H1 H2]. lra.
Qed.

Lemma Forall2_within_zero sc l1 l2 : Forall2 (within (0 * sc)) l1 l2 -> Forall2 Qeq l1 l2.
Proof. induction 1; constructor; [eapply within_zero; eassumption | assumption]. Qed.

Lemma qlist_close_sound t sc l1 l2 : qlist_close t sc l1 l2 = true -> Forall2 (within (t * sc)) l1 l2.
Proof. apply forallb2_Forall2_gen. intros x y. apply qclose_sound. Qed.

Lemma region_close_sound t sc r o : region_close t sc r o = true -> region_obs (t * sc) r o.
Proof.
  destruct o as [[[omin omax] ods] ous]. unfold region_close, region_obs. intro H. split_andb.
  repeat split; try (apply qlist_close_sound; assumption); apply strlist_eqb_sound_gen; assumption.
Qed.

Lemma letters_sub_spec s1 s2 : letters_sub s1 s2 = true ->
  forall c, letter_in c s1 = true -> letter_in c s2 = true.
Proof.
  induction s1 as [|h t IH]; simpl; intros H c Hc; [discriminate|].
  apply andb_true_iff in H. destruct H as [H1 H2].
  apply orb_true_iff in Hc. destruct Hc as [Hc|Hc].
  - apply Ascii.eqb_eq in Hc. subst c. exact H1.
  - apply IH; assumption.
Qed.

Lemma bc_match_sound a b : bc_match a b = true -> bc_same a b.
Proof.
  unfold bc_match, bc_same. destruct (bc_keyword a || bc_keyword b) eqn:E; intro H.
  - apply String.eqb_eq in H. subst b. split; [reflexivity|reflexivity].
  - apply orb_false_iff in E. destruct E as [E1 E2]. split.
    + intros [K|K]; congruence.
    + apply andb_true_iff in H. destruct H as [H1 H2]. intro c.
      pose proof (letters_sub_spec _ _ H1 c). pose proof (letters_sub_spec _ _ H2 c).
      destruct (letter_in c a), (letter_in c b); auto; try (symmetry; auto).
Qed.

Lemma sub_close_sound t sc ds us s o : sub_close t sc ds us s o = true -> sub_obs (t * sc) s o.
Proof.
  unfold sub_close, sub_obs. intro H. split_andb.
  repeat split; try (apply qlist_close_sound; assumption). apply String.eqb_eq; assumption.
Qed.

Lemma mesh_close_sound t sc m o : mesh_close t sc m o = true -> mesh_obs (t * sc) m o.
Proof.
  destruct o as [[[oreg ons] osubs] obc]. unfold mesh_close, mesh_obs. intro H. split_andb.
  repeat split.
  - apply region_close_sound; assumption.
  - apply zlist_eqb_sound_gen; assumption.
  - match goal with Hs : forallb2 _ _ _ = true |- _ => revert Hs end.
    apply forallb2_Forall2_gen. intros x y. apply sub_close_sound.
  - apply bc_match_sound; assumption.
  - apply bc_match_sound; assumption.
Qed.

Lemma pairlist_eqb_sound12 l1 l2 : pairlist_eqb l1 l2 = true -> l1 = l2.
Proof.
  intro H. apply Forall2_eq_gen. revert H. apply forallb2_Forall2_gen.
  intros [x1 x2] [y1 y2]; simpl. intro E. apply andb_true_iff in E. destruct E as [E1 E2].
  apply String.eqb_eq in E1, E2. congruence.
Qed.

(* ---------- the inputs the checker builds ---------- *)
Definition in_mesh (p1 p2 : list Q) (ds us : list string) (ns : list Z) (sbs : list sub_t) (bcs : string) : mesh :=
  mkMesh (mk_reg p1 p2 ds us) ns bcs (mk_subs ds us sbs).

Definition in_field p1 p2 ds us ns sbs bcs (nv : nat) (vals : list Q) (valid : list bool)
           (vds : list string) (vm : list (string * string)) : field QcOps :=
  mkField (in_mesh p1 p2 ds us ns sbs bcs) nv
          (of_list (f0 QcOps) (znat ns ++ [nv]) (qcl vals)) (of_list true (znat ns) valid) vds vm.

(* ---------- soundness, Region.rotate90 ---------- *)
Lemma check_region_sound ex ip p1 p2 ds us a b k ref o :
  check_C12 (CRegion ex ip p1 p2 ds us a b k ref (Some o)) = true ->
  exists r, region_rotate90 ip (mk_reg p1 p2 ds us) a b k ref = OK r /\
            region_obs (tol ex * geom_scale p1 p2 ref) r o.
Proof.
  cbn [check_C12]. destruct (region_rotate90 ip (mk_reg p1 p2 ds us) a b k ref) as [r|e]; [|discriminate].
  intro H. exists r. split; [reflexivity|]. apply region_close_sound. exact H.
Qed.

Lemma check_region_exact_sound ip p1 p2 ds us a b k ref omin omax ods ous :
  check_C12 (CRegion true ip p1 p2 ds us a b k ref (Some (omin, omax, ods, ous))) = true ->
  exists r, region_rotate90 ip (mk_reg p1 p2 ds us) a b k ref = OK r /\
            Forall2 Qeq (pmin r) omin /\ Forall2 Qeq (pmax r) omax /\ dims r = ods /\ units r = ous.
Proof.
  intro H. apply check_region_sound in H. destruct H as (r & Hr & H1 & H2 & H3 & H4).
  exists r. split; [exact Hr|]. cbn [tol] in H1, H2.
  repeat split; try assumption; eapply Forall2_within_zero; eassumption.
Qed.

Lemma check_region_reject_sound ex ip p1 p2 ds us a b k ref :
  check_C12 (CRegion ex ip p1 p2 ds us a b k ref None) = true ->
  exists e, region_rotate90 ip (mk_reg p1 p2 ds us) a b k ref = Err e.
Proof.
  cbn [check_C12]. destruct (region_rotate90 ip (mk_reg p1 p2 ds us) a b k ref) as [r|e]; [discriminate|].
  intros _. exists e. reflexivity.
Qed.

(* ---------- soundness, Mesh.rotate90 ---------- *)
Lemma check_mesh_sound ex ip p1 p2 ds us ns sbs bcs a b k ref o :
  check_C12 (CMesh ex ip p1 p2 ds us ns sbs bcs a b k ref (Some o)) = true ->
  exists m', mesh_rotate90 ip (in_mesh p1 p2 ds us ns sbs bcs) a b k ref = OK m' /\
             mesh_obs (tol ex * geom_scale p1 p2 ref) m' o.
Proof.
  cbn [check_C12]. fold (in_mesh p1 p2 ds us ns sbs bcs). cbv zeta.
  destruct (mesh_rotate90 ip (in_mesh p1 p2 ds us ns sbs bcs) a b k ref) as [m'|e]; [|discriminate].
  intro H. exists m'. split; [reflexivity|]. apply mesh_close_sound. exact H.
Qed.

Lemma check_mesh_reject_sound ex ip p1 p2 ds us ns sbs bcs a b k ref :
  check_C12 (CMesh ex ip p1 p2 ds us ns sbs bcs a b k ref None) = true ->
  exists e, mesh_rotate90 ip (in_mesh p1 p2 ds us ns sbs bcs) a b k ref = Err e.
Proof.
  cbn [check_C12]. fold (in_mesh p1 p2 ds us ns sbs bcs). cbv zeta.
  destruct (mesh_rotate90 ip (in_mesh p1 p2 ds us ns sbs bcs) a b k ref) as [m'|e]; [discriminate|].
  intros _. exists e. reflexivity.
Qed.

(* ---------- soundness, Field.rotate90 ---------- *)
Lemma check_field_sound ex ip p1 p2 ds us ns sbs bcs nv vals valid vds vm a b k ref om ovals ovalid ovds ovm :
  check_C12 (CField ex ip p1 p2 ds us ns sbs bcs nv vals valid vds vm a b k ref
               (Some (om, ovals, ovalid, ovds, ovm))) = true ->
  length vals = nprod (znat ns ++ [nv]) /\ length valid = nprod (znat ns) /\
  exists g, field_rotate90 QcOps ip (in_field p1 p2 ds us ns sbs bcs nv vals valid vds vm) a b k ref = OK g /\
    mesh_obs (tol ex * geom_scale p1 p2 ref) (fmesh g) om /\
    qcl ovals = to_list (fshape g ++ [nv]) (fval g) /\
    ovalid = to_list (fshape g) (fvalid g) /\
    vdims g = ovds /\ vmap g = ovm.
Proof.
  cbn [check_C12]. cbv zeta.
  change (mkField (mkMesh (mk_reg p1 p2 ds us) ns bcs (mk_subs ds us sbs)) nv
            (of_list (f0 QcOps) (znat ns ++ [nv]) (qcl vals)) (of_list true (znat ns) valid) vds vm)
    with (in_field p1 p2 ds us ns sbs bcs nv vals valid vds vm).
  intro H. apply andb_true_iff in H. destruct H as [H H3].
  apply andb_true_iff in H. destruct H as [H1 H2].
  split; [apply Nat.eqb_eq; exact H1|]. split; [apply Nat.eqb_eq; exact H2|].
  destruct (field_rotate90 QcOps ip (in_field p1 p2 ds us ns sbs bcs nv vals valid vds vm) a b k ref) as [g|e];
    [|discriminate].
  split_andb. exists g. split; [reflexivity|].
  split; [apply mesh_close_sound; assumption|].
  split; [symmetry; apply qclist_eqb_sound; assumption|].
  split; [symmetry; apply boollist_eqb_sound; assumption|].
  split; [apply strlist_eqb_sound_gen; assumption | apply pairlist_eqb_sound12; assumption].
Qed.

Lemma check_field_reject_sound ex ip p1 p2 ds us ns sbs bcs nv vals valid vds vm a b k ref :
  check_C12 (CField ex ip p1 p2 ds us ns sbs bcs nv vals valid vds vm a b k ref None) = true ->
  exists e, field_rotate90 QcOps ip (in_field p1 p2 ds us ns sbs bcs nv vals valid vds vm) a b k ref = Err e.
Proof.
  cbn [check_C12]. cbv zeta.
  change (mkField (mkMesh (mk_reg p1 p2 ds us) ns bcs (mk_subs ds us sbs)) nv
            (of_list (f0 QcOps) (znat ns ++ [nv]) (qcl vals)) (of_list true (znat ns) valid) vds vm)
    with (in_field p1 p2 ds us ns sbs bcs nv vals valid vds vm).
  intro H. apply andb_true_iff in H. destruct H as [_ H].
  destruct (field_rotate90 QcOps ip (in_field p1 p2 ds us ns sbs bcs nv vals valid vds vm) a b k ref) as [g|e];
    [discriminate|].
  exists e. reflexivity.
Qed.

(* ---------- well-formedness of the input the checker builds is decidable ---------- *)
Definition wf_inputb (p1 p2 : list Q) (ds us : list string) (ns : list Z) : bool :=
  (length p1 =? length p2)%nat && (0 <? length p1)%nat && (length ds =? length p1)%nat &&
  (length us =? length p1)%nat && nodupb ds && forallb2 Qltb p1 p2 &&
  (length ns =? length p1)%nat && forallb (fun z => (0 <? z)%Z) ns.

Lemma nodupb_sound12 l : nodupb l = true -> NoDup l.
Proof.
  induction l as [|h t IH]; simpl; intro H; [constructor|].
  apply andb_true_iff in H. destruct H as [H1 H2]. constructor; [|auto].
  intro Hin. apply negb_true_iff in H1.
  assert (E : existsb (String.eqb h) t = true).
  { apply existsb_exists. exists h. split; [exact Hin | apply String.eqb_refl]. }
  congruence.
Qed.

Lemma Qltb_sound x y : Qltb x y = true -> x < y.
Proof.
  unfold Qltb. intro H. apply negb_true_iff in H. apply Qnot_le_lt. intro L.
  apply Qle_bool_iff in L. congruence.
Qed.

Lemma tf_default_nonneg : 0 <= tf_default.
Proof. unfold tf_default, Qle; simpl; lia. Qed.

Theorem wf_inputb_region p1 p2 ds us ns :
  wf_inputb p1 p2 ds us ns = true -> wf_region (mk_reg p1 p2 ds us).
Proof.
  unfold wf_inputb. intro H. split_andb.
  repeat match goal with Hh : (_ =? _)%nat = true |- _ => apply Nat.eqb_eq in Hh end.
  match goal with Hh : (_ <? _)%nat = true |- _ => apply Nat.ltb_lt in Hh end.
  unfold wf_region, mk_reg; cbn [pmin pmax dims units tf].
  repeat split; try assumption.
  - apply nodupb_sound12; assumption.
  - match goal with Hh : forallb2 Qltb _ _ = true |- _ => revert Hh end.
    apply forallb2_Forall2_gen. exact Qltb_sound.
  - exact tf_default_nonneg.
Qed.

Theorem wf_inputb_mesh p1 p2 ds us ns sbs bcs :
  wf_inputb p1 p2 ds us ns = true -> wf_mesh (in_mesh p1 p2 ds us ns sbs bcs).
Proof.
  intro H. split; [exact (wf_inputb_region _ _ _ _ _ H)|].
  unfold wf_inputb in H. split_andb. unfold in_mesh, mk_reg; cbn [n reg pmin].
  split; [apply Nat.eqb_eq; assumption|].
  apply Forall_forall. intros z Hz.
  match goal with Hh : forallb _ ns = true |- _ => rewrite forallb_forall in Hh; apply Z.ltb_lt; apply Hh; exact Hz end.
Qed.

(* ---------- transfer, region: the observed corners ARE the rotated box ---------- *)
Theorem accepted_region_box ip p1 p2 ds us a b k ref omin omax ods ous R i1 i2 :
  check_C12 (CRegion true ip p1 p2 ds us a b k ref (Some (omin, omax, ods, ous))) = true ->
  wf_region (mk_reg p1 p2 ds us) ->
  rot_reference (mk_reg p1 p2 ds us) ref = OK R ->
  dim2index (mk_reg p1 p2 ds us) a = OK i1 -> dim2index (mk_reg p1 p2 ds us) b = OK i2 ->
  length omin = length p1 /\ length omax = length p1 /\
  ods = ds /\ ous = rot_units k i1 i2 us /\
  forall j, (j < length p1)%nat ->
    nth j omin 0 == fst (rbox k i1 i2 j R p1 p2) /\
    nth j omax 0 == snd (rbox k i1 i2 j R p1 p2).
Proof.
  intros H Hwf HR Hd1 Hd2.
  apply check_region_exact_sound in H. destruct H as (r & Hr & Hmin & Hmax & Hds & Hus).
  destruct (region_rot_desc _ _ _ _ _ _ _ _ _ _ Hwf Hr HR Hd1 Hd2)
    as (_ & _ & _ & Lm & LM & Dd & Du & _ & Hbox).
  cbn [mk_reg pmin pmax dims units] in Lm, LM, Dd, Du, Hbox.
  pose proof (Forall2_length_gen _ _ _ Hmin) as L1. pose proof (Forall2_length_gen _ _ _ Hmax) as L2.
  split; [lia|]. split; [lia|]. split; [congruence|]. split; [congruence|].
  intros j Hj. destruct (Hbox j Hj) as [B1 B2]. split.
  - rewrite <- B1. symmetry.
    apply (Forall2_nth_gen Qeq (pmin r) omin 0 0 Hmin j). lia.
  - rewrite <- B2. symmetry.
    apply (Forall2_nth_gen Qeq (pmax r) omax 0 0 Hmax j). lia.
Qed.

(* the observed rotated region is a well-formed box (pmin < pmax on every axis) *)
Theorem accepted_region_ordered ip p1 p2 ds us a b k ref omin omax ods ous :
  check_C12 (CRegion true ip p1 p2 ds us a b k ref (Some (omin, omax, ods, ous))) = true ->
  wf_region (mk_reg p1 p2 ds us) ->
  length omin = length omax /\ forall j, (j < length omin)%nat -> nth j omin 0 < nth j omax 0.
Proof.
  intros H Hwf.
  apply check_region_exact_sound in H. destruct H as (r & Hr & Hmin & Hmax & _).
  pose proof (region_rotate90_wf _ _ _ _ _ _ _ Hwf Hr) as (W1 & _ & _ & _ & _ & Wlt & _).
  pose proof (Forall2_length_gen _ _ _ Hmin) as L1. pose proof (Forall2_length_gen _ _ _ Hmax) as L2.
  split; [lia|]. intros j Hj.
  pose proof (Forall2_nth_gen Qeq (pmin r) omin 0 0 Hmin j ltac:(lia)) as E1.
  pose proof (Forall2_nth_gen Qeq (pmax r) omax 0 0 Hmax j ltac:(lia)) as E2.
  rewrite <- E1, <- E2. apply Forall2_lt_nth; [exact Wlt | lia].
Qed.

(* the in-place and the copying call, both accepted on the same input, were observed to produce
   the same region *)
Theorem accepted_inplace_eq_copy p1 p2 ds us a b k ref omin omax ods ous omin' omax' ods' ous' :
  check_C12 (CRegion true true p1 p2 ds us a b k ref (Some (omin, omax, ods, ous))) = true ->
  check_C12 (CRegion true false p1 p2 ds us a b k ref (Some (omin', omax', ods', ous'))) = true ->
  wf_region (mk_reg p1 p2 ds us) ->
  Forall2 Qeq omin omin' /\ Forall2 Qeq omax omax' /\ ods = ods' /\ ous = ous'.
Proof.
  intros H1 H2 Hwf.
  apply check_region_exact_sound in H1. destruct H1 as (r & Hr & Hmin & Hmax & Hds & Hus).
  apply check_region_exact_sound in H2. destruct H2 as (r' & Hr' & Hmin' & Hmax' & Hds' & Hus').
  rewrite (region_inplace_eq_copy _ a b k ref Hwf) in Hr. rewrite Hr in Hr'. inversion Hr'; subst r'.
  assert (T : forall l1 l2 l3, Forall2 Qeq l1 l2 -> Forall2 Qeq l1 l3 -> Forall2 Qeq l2 l3).
  { intros l1 l2 l3 A. revert l3. induction A as [|x y l1 l2 Hxy A IH]; intros l3 B; inversion B; subst; constructor.
    - rewrite <- Hxy. assumption.
    - apply IH. assumption. }
  repeat split; try congruence; eapply T; eassumption.
Qed.

(* ---------- transfer, field ---------- *)
Lemma znat_swap i1 i2 ns : znat (swap_nth 0%Z i1 i2 ns) = swap_nth 0%nat i1 i2 (znat ns).
Proof.
  unfold znat, swap_nth. rewrite !map_set_nth. change 0%nat with (Z.to_nat 0). rewrite !map_nth. reflexivity.
Qed.

Lemma inb_of_nth sh : forall i, length i = length sh ->
  (forall j, (j < length sh)%nat -> (nth j i 0 < nth j sh 0)%nat) -> inb sh i = true.
Proof.
  induction sh as [|s sh IH]; intros [|x i] L H; simpl in *; try discriminate; [reflexivity|].
  apply andb_true_iff. split.
  - apply Nat.ltb_lt. apply (H 0%nat). lia.
  - apply IH; [lia|]. intros j Hj. apply (H (S j)). lia.
Qed.

Lemma inb_to_nth sh : forall i, inb sh i = true ->
  length i = length sh /\ forall j, (j < length i)%nat -> (nth j i 0 < nth j sh 0)%nat.
Proof.
  induction sh as [|s sh IH]; intros [|x i] H; simpl in *; try discriminate.
  - split; [reflexivity|]. intros j Hj; lia.
  - apply andb_true_iff in H. destruct H as [H1 H2]. apply Nat.ltb_lt in H1.
    destruct (IH _ H2) as [L B]. split; [lia|].
    intros [|j] Hj; [exact H1|]. apply B. lia.
Qed.

(* the observed metadata: cell counts and units exchanged for odd k, everything else kept *)
Theorem accepted_field_metadata ex ip p1 p2 ds us ns sbs bcs nv vals valid vds vm a b k ref
        omin omax ods ous ons osubs obc ovals ovalid ovds ovm i1 i2 :
  check_C12 (CField ex ip p1 p2 ds us ns sbs bcs nv vals valid vds vm a b k ref
               (Some ((omin, omax, ods, ous, ons, osubs, obc), ovals, ovalid, ovds, ovm))) = true ->
  dim2index (mk_reg p1 p2 ds us) a = OK i1 -> dim2index (mk_reg p1 p2 ds us) b = OK i2 ->
  ons = (if Z.odd k then swap_nth 0%Z i1 i2 ns else ns) /\
  ous = (if Z.odd k then swap_nth ""%string i1 i2 us else us) /\
  ods = ds /\ ovds = vds /\ ovm = vm.
Proof.
  intros H Hd1 Hd2. apply check_field_sound in H.
  destruct H as (L1 & L2 & g & Hg & Hm & Hv & Hvalid & Hvd & Hvm).
  destruct (rotate90_metadata QcOps _ _ _ _ _ _ _ _ _ Hg Hd1 Hd2) as (Mn & Mu & Md & _ & Mvd & Mvm).
  cbn [in_field in_mesh fmesh n reg mk_reg units dims vdims vmap] in Mn, Mu, Md, Mvd, Mvm.
  destruct Hm as ((_ & _ & Od & Ou) & On & _).
  repeat split; congruence.
Qed.

(* shape of the rotated field and admissible axes, from an accepted call on a well-formed input *)
Lemma field_axes ip (f : field QcOps) a b k ref g i1 i2 :
  wf_mesh (fmesh f) -> field_rotate90 QcOps ip f a b k ref = OK g ->
  dim2index (reg (fmesh f)) a = OK i1 -> dim2index (reg (fmesh f)) b = OK i2 ->
  i1 <> i2 /\ (i1 < length (fshape f))%nat /\ (i2 < length (fshape f))%nat /\
  fshape g = rot90_shape (fshape f) i1 i2 k.
Proof.
  intros Hwf H Hd1 Hd2.
  destruct (rotate90_metadata QcOps _ _ _ _ _ _ _ _ _ H Hd1 Hd2) as (Mn & _).
  destruct (field_rotate90_inv _ _ _ _ _ _ _ _ H) as (m' & j1 & j2 & Hm & _).
  destruct (mesh_rotate90_inv _ _ _ _ _ _ _ Hm) as (r' & j1' & j2' & Hreg & _).
  destruct (region_rotate90_inv _ _ _ _ _ _ _ Hreg) as (R & j1'' & j2'' & Hab & _).
  destruct (dim2index_spec _ _ _ Hd1) as [B1 N1]. destruct (dim2index_spec _ _ _ Hd2) as [B2 N2].
  destruct Hwf as [[_ [_ [L2 _]]] [L4 _]].
  assert (Lf : length (fshape f) = length (dims (reg (fmesh f)))).
  { unfold fshape, znat. rewrite map_length. lia. }
  split; [intros ->; apply Hab; congruence|]. split; [lia|]. split; [lia|].
  unfold fshape at 1. rewrite Mn. unfold rot90_shape, fshape. destruct (Z.odd k); [apply znat_swap | reflexivity].
Qed.

(* validity moves with the cells, on the observed arrays: the observed validity of the target
   cell rot_index i is the recorded validity of the source cell i *)
Theorem accepted_field_validity ex ip p1 p2 ds us ns sbs bcs nv vals valid vds vm a b k ref
        om ovals ovalid ovds ovm i1 i2 (i : idx) :
  check_C12 (CField ex ip p1 p2 ds us ns sbs bcs nv vals valid vds vm a b k ref
               (Some (om, ovals, ovalid, ovds, ovm))) = true ->
  wf_mesh (in_mesh p1 p2 ds us ns sbs bcs) ->
  dim2index (mk_reg p1 p2 ds us) a = OK i1 -> dim2index (mk_reg p1 p2 ds us) b = OK i2 ->
  inb (znat ns) i = true ->
  of_list true (rot90_shape (znat ns) i1 i2 k) ovalid (rot_index (znat ns) i1 i2 k i)
  = of_list true (znat ns) valid i.
Proof.
  intros H Hwf Hd1 Hd2 Hi. apply check_field_sound in H.
  destruct H as (L1 & L2 & g & Hg & _ & _ & Hvalid & _).
  set (f := in_field p1 p2 ds us ns sbs bcs nv vals valid vds vm) in *.
  destruct (field_axes ip f a b k ref g i1 i2 Hwf Hg Hd1 Hd2) as (Hne & B1 & B2 & Hsh).
  change (fshape f) with (znat ns) in B1, B2, Hsh.
  destruct (inb_to_nth _ _ Hi) as [Li Bi].
  pose proof (validity_covariant QcOps ip f a b k ref g i1 i2 i Hwf Hg Hd1 Hd2 Li Bi) as Hcov.
  change (fshape f) with (znat ns) in Hcov. change (fvalid f i) with (of_list true (znat ns) valid i) in Hcov.
  rewrite <- Hcov. unfold of_list at 1. rewrite Hvalid, Hsh.
  apply nth_to_list.
  apply inb_of_nth.
  - rewrite rot_index_length, rot90_shape_len. exact Li.
  - intros j Hj. rewrite rot90_shape_len in Hj.
    apply rot_index_inrange; try lia. exact Bi.
Qed.

(* ---------- values move with the cells ---------- *)
Lemma set_nth_app12 {A} a (x : A) q r : (a < length q)%nat -> set_nth a x (q ++ r) = set_nth a x q ++ r.
Proof.
  revert a; induction q as [|h t IH]; intros [|a] H; simpl in *; try lia; [reflexivity|].
  rewrite IH by lia. reflexivity.
Qed.

Lemma rot_index_app sh nv i c a b k :
  (a < length sh)%nat -> (b < length sh)%nat -> length i = length sh ->
  rot_index (sh ++ [nv]) a b k (i ++ [c]) = rot_index sh a b k i ++ [c].
Proof.
  intros Ha Hb L. unfold rot_index. rewrite !app_nth1 by lia.
  destruct (mod4_cases k) as [E|[E|[E|E]]]; rewrite E; try reflexivity;
    rewrite (set_nth_app12 a) by lia; rewrite (set_nth_app12 b) by (rewrite set_nth_length; lia); reflexivity.
Qed.

(* what an accepted call certifies about the whole observed value array: it is the tabulated
   model array on the rotated shape; and the raw (pre component turn) array at a target cell *)
Lemma accepted_field_arrays ex ip p1 p2 ds us ns sbs bcs nv vals valid vds vm a b k ref
      om ovals ovalid ovds ovm i1 i2 :
  check_C12 (CField ex ip p1 p2 ds us ns sbs bcs nv vals valid vds vm a b k ref
               (Some (om, ovals, ovalid, ovds, ovm))) = true ->
  wf_mesh (in_mesh p1 p2 ds us ns sbs bcs) ->
  dim2index (mk_reg p1 p2 ds us) a = OK i1 -> dim2index (mk_reg p1 p2 ds us) b = OK i2 ->
  exists g, field_rotate90 QcOps ip (in_field p1 p2 ds us ns sbs bcs nv vals valid vds vm) a b k ref = OK g /\
    i1 <> i2 /\ (i1 < length (znat ns))%nat /\ (i2 < length (znat ns))%nat /\
    (forall i c, inb (znat ns) i = true -> (c < nv)%nat ->
       of_list 0%Qc (rot90_shape (znat ns) i1 i2 k ++ [nv]) (qcl ovals) (rot_index (znat ns) i1 i2 k i ++ [c])
       = fval g (rot_index (znat ns) i1 i2 k i ++ [c])) /\
    (forall i c, inb (znat ns) i = true ->
       rot90 (znat ns ++ [nv]) i1 i2 k (of_list 0%Qc (znat ns ++ [nv]) (qcl vals))
             (rot_index (znat ns) i1 i2 k i ++ [c])
       = of_list 0%Qc (znat ns ++ [nv]) (qcl vals) (i ++ [c])).
Proof.
  intros H Hwf Hd1 Hd2. apply check_field_sound in H.
  destruct H as (L1 & L2 & g & Hg & _ & Hv & _).
  set (f := in_field p1 p2 ds us ns sbs bcs nv vals valid vds vm) in *.
  destruct (field_axes ip f a b k ref g i1 i2 Hwf Hg Hd1 Hd2) as (Hne & B1 & B2 & Hsh).
  change (fshape f) with (znat ns) in B1, B2, Hsh.
  exists g. split; [exact Hg|]. split; [exact Hne|]. split; [exact B1|]. split; [exact B2|]. split.
  - intros i c Hi Hc. destruct (inb_to_nth _ _ Hi) as [Li Bi].
    unfold of_list at 1. rewrite Hv, Hsh. apply nth_to_list.
    rewrite inb_app by (rewrite rot_index_length, rot90_shape_len; lia).
    apply andb_true_iff. split.
    + apply inb_of_nth.
      * rewrite rot_index_length, rot90_shape_len. exact Li.
      * intros j Hj. rewrite rot90_shape_len in Hj. apply rot_index_inrange; try lia. exact Bi.
    + simpl. apply andb_true_iff. split; [apply Nat.ltb_lt; exact Hc | reflexivity].
  - intros i c Hi. destruct (inb_to_nth _ _ Hi) as [Li Bi].
    rewrite <- (rot_index_app (znat ns) nv i c i1 i2 k B1 B2 Li).
    apply rot90_at; try assumption; rewrite ?app_length; simpl; try lia.
    + rewrite !app_nth1 by lia. apply Bi. lia.
    + rewrite !app_nth1 by lia. apply Bi. lia.
Qed.

(* scalar fields (and one-component arrays): the observed value of the target cell rot_index i
   is the recorded value of the source cell i *)
Theorem accepted_field_cells_scalar ex ip p1 p2 ds us ns sbs bcs nv vals valid vds vm a b k ref
        om ovals ovalid ovds ovm i1 i2 (i : idx) c :
  check_C12 (CField ex ip p1 p2 ds us ns sbs bcs nv vals valid vds vm a b k ref
               (Some (om, ovals, ovalid, ovds, ovm))) = true ->
  wf_mesh (in_mesh p1 p2 ds us ns sbs bcs) ->
  dim2index (mk_reg p1 p2 ds us) a = OK i1 -> dim2index (mk_reg p1 p2 ds us) b = OK i2 ->
  (nv <= 1)%nat -> inb (znat ns) i = true -> (c < nv)%nat ->
  of_list 0%Qc (rot90_shape (znat ns) i1 i2 k ++ [nv]) (qcl ovals) (rot_index (znat ns) i1 i2 k i ++ [c])
  = of_list 0%Qc (znat ns ++ [nv]) (qcl vals) (i ++ [c]).
Proof.
  intros H Hwf Hd1 Hd2 Hnv Hi Hc.
  destruct (accepted_field_arrays ex ip p1 p2 ds us ns sbs bcs nv vals valid vds vm a b k ref om ovals ovalid ovds ovm i1 i2 H Hwf Hd1 Hd2)
    as (g & Hg & _ & _ & _ & Hobs & Hraw).
  rewrite (Hobs i c Hi Hc).
  destruct (field_rotate90_inv _ _ _ _ _ _ _ _ Hg) as (m' & j1 & j2 & _ & Hd1' & Hd2' & _ & _ & _ & _ & _ & Hs & _).
  cbn [in_field fmesh in_mesh reg] in Hd1', Hd2'.
  rewrite Hd1 in Hd1'; rewrite Hd2 in Hd2'; inversion Hd1'; inversion Hd2'; subst j1 j2.
  rewrite (Hs Hnv). exact (Hraw i c Hi).
Qed.

(* vector fields: at the target cell the two mapped components are the quarter turn of the two
   recorded source components, every other component is the recorded one *)
Theorem accepted_field_cells_vector ex ip p1 p2 ds us ns sbs bcs nv vals valid vds vm a b k ref
        om ovals ovalid ovds ovm i1 i2 v1 v2 (i : idx) :
  check_C12 (CField ex ip p1 p2 ds us ns sbs bcs nv vals valid vds vm a b k ref
               (Some (om, ovals, ovalid, ovds, ovm))) = true ->
  wf_mesh (in_mesh p1 p2 ds us ns sbs bcs) ->
  dim2index (mk_reg p1 p2 ds us) a = OK i1 -> dim2index (mk_reg p1 p2 ds us) b = OK i2 ->
  (1 < nv)%nat -> comp_of vds vm a = OK v1 -> comp_of vds vm b = OK v2 ->
  inb (znat ns) i = true ->
  let src := of_list 0%Qc (znat ns ++ [nv]) (qcl vals) in
  let tgt := of_list 0%Qc (rot90_shape (znat ns) i1 i2 k ++ [nv]) (qcl ovals) in
  let t := rot_index (znat ns) i1 i2 k i in
  let co := fst (kturn QcOps k) in let si := snd (kturn QcOps k) in
  ((v2 < nv)%nat -> tgt (t ++ [v2]) = (si * src (i ++ [v1]) + co * src (i ++ [v2]))%Qc) /\
  ((v1 < nv)%nat -> v1 <> v2 -> tgt (t ++ [v1]) = (co * src (i ++ [v1]) - si * src (i ++ [v2]))%Qc) /\
  (forall c, (c < nv)%nat -> c <> v1 -> c <> v2 -> tgt (t ++ [c]) = src (i ++ [c])).
Proof.
  intros H Hwf Hd1 Hd2 Hnv Hv1 Hv2 Hi src tgt t co si.
  destruct (accepted_field_arrays ex ip p1 p2 ds us ns sbs bcs nv vals valid vds vm a b k ref om ovals ovalid ovds ovm i1 i2 H Hwf Hd1 Hd2)
    as (g & Hg & _ & _ & _ & Hobs & Hraw).
  destruct (field_rotate90_inv _ _ _ _ _ _ _ _ Hg) as (m' & j1 & j2 & _ & Hd1' & Hd2' & _ & _ & _ & _ & _ & _ & Hvec).
  cbn [in_field fmesh in_mesh reg] in Hd1', Hd2'.
  rewrite Hd1 in Hd1'; rewrite Hd2 in Hd2'; inversion Hd1'; inversion Hd2'; subst j1 j2.
  destruct (Hvec Hnv) as (w1 & w2 & Hw1 & Hw2 & Hval).
  cbn [in_field vdims vmap] in Hw1, Hw2. rewrite Hv1 in Hw1; rewrite Hv2 in Hw2.
  inversion Hw1; inversion Hw2; subst w1 w2.
  cbn [in_field fshape fmesh in_mesh n nvdim fval] in Hval.
  change (znat (n (in_mesh p1 p2 ds us ns sbs bcs))) with (znat ns) in Hval.
  split; [|split].
  - intro Hc. unfold tgt, t. rewrite (Hobs i v2 Hi Hc), Hval, rot_comp_second.
    rewrite !(Hraw i _ Hi). reflexivity.
  - intros Hc Hne. unfold tgt, t. rewrite (Hobs i v1 Hi Hc), Hval, rot_comp_first by exact Hne.
    rewrite !(Hraw i _ Hi). reflexivity.
  - intros c Hc N1 N2. unfold tgt, t. rewrite (Hobs i c Hi Hc), Hval, rot_comp_other by assumption.
    exact (Hraw i c Hi).
Qed.

(* ---------- non-vacuity: concrete accepted cases satisfying the transfer hypotheses ---------- *)
(* a 2 x 2 two-component field on [0,8] x [0,4] (units m, s), one invalid cell, one copying
   quarter turn x -> y about the centre *)
Example accepted_field_instance :
  check_C12 (CField true false [0; 0] [8; 4] ["x"; "y"]%string ["m"; "s"]%string [2; 2]%Z [] ""%string
               2 [1; 2; 3; 4; 5; 6; 7; 8] [true; false; true; true]
               ["vx"; "vy"]%string [("vx", "x"); ("vy", "y")]%string "x" "y" 1 None
               (Some (([2; -2], [6; 6], ["x"; "y"]%string, ["s"; "m"]%string, [2; 2]%Z, [], ""%string),
                      [-4; 3; -8; 7; -2; 1; -6; 5], [false; true; true; true],
                      ["vx"; "vy"]%string, [("vx", "x"); ("vy", "y")]%string))) = true /\
  wf_inputb [0; 0] [8; 4] ["x"; "y"]%string ["m"; "s"]%string [2; 2]%Z = true /\
  dim2index (mk_reg [0; 0] [8; 4] ["x"; "y"]%string ["m"; "s"]%string) "x" = OK 0%nat /\
  dim2index (mk_reg [0; 0] [8; 4] ["x"; "y"]%string ["m"; "s"]%string) "y" = OK 1%nat /\
  comp_of ["vx"; "vy"]%string [("vx", "x"); ("vy", "y")]%string "x" = OK 0%nat /\
  comp_of ["vx"; "vy"]%string [("vx", "x"); ("vy", "y")]%string "y" = OK 1%nat.
Proof. vm_compute. repeat split; reflexivity. Qed.

(* the region of the same case, in place and copying, k = -1 about (1, 2) *)
Example accepted_region_instance :
  check_C12 (CRegion true true [0; 0] [8; 4] ["x"; "y"]%string ["m"; "s"]%string "x" "y" (-1) (Some [1; 2])
               (Some ([-1; -5], [3; 3], ["x"; "y"]%string, ["s"; "m"]%string))) = true /\
  check_C12 (CRegion true false [0; 0] [8; 4] ["x"; "y"]%string ["m"; "s"]%string "x" "y" (-1) (Some [1; 2])
               (Some ([-1; -5], [3; 3], ["x"; "y"]%string, ["s"; "m"]%string))) = true /\
  wf_inputb [0; 0] [8; 4] ["x"; "y"]%string ["m"; "s"]%string [2; 2]%Z = true /\
  rot_reference (mk_reg [0; 0] [8; 4] ["x"; "y"]%string ["m"; "s"]%string) (Some [1; 2]) = OK [1; 2].
Proof. vm_compute. repeat split; reflexivity. Qed.

(* a rejected call (the two axes coincide) *)
Example accepted_reject_instance :
  check_C12 (CRegion true false [0; 0] [8; 4] ["x"; "y"]%string ["m"; "s"]%string "x" "x" 1 None None) = true.
Proof. vm_compute. reflexivity. Qed.
