(* C13, field roots and histories over every root: the invariant is reachable-closed and the final
   state does not depend on the forms used (induction over the step list). *)
From DF Require Import Prelude Constants_gen Region Mesh Subregions History QLemmas ListLemmas
  C01_axis C01_nd C14_lattice C14_axis C13_region C13_mesh.
Open Scope Q_scope.

Lemma zlist_eqb_eq l1 : forall l2, zlist_eqb l1 l2 = true -> l1 = l2.
Proof.
  unfold zlist_eqb. induction l1 as [|a l1 IH]; intros [|b l2] H; simpl in H; try discriminate; [reflexivity|].
  apply andb_true_iff in H. destruct H as [H1 H2]. apply Z.eqb_eq in H1. subst. f_equal. apply IH. exact H2.
Qed.

Lemma mstep_shape ip o m m' : inv_mesh m -> mstep ip o m = OK m' ->
  dims (reg m') = dims (reg m) /\ n m' = hnew_n o (reg m) (n m).
Proof.
  intros I H. assert (H' : mstep true o m = OK m') by (destruct ip; [exact H | rewrite <- mstep_forms; assumption]).
  clear H. destruct I as ((Wr & _) & _). unfold mstep in H'.
  destruct (rstep true o (reg m)) as [r'|] eqn:Hr; simpl in H'; [|discriminate].
  destruct (mapres (sub_step true (sub_op o (center (reg m)))) (subs m)) as [subs'|]; simpl in H'; [|discriminate].
  inversion H'; subst; simpl. destruct (rstep_keeps true o (reg m) r' Wr Hr) as (D & _). split; [exact D | reflexivity].
Qed.

Theorem fstep_forms o f : inv_field f -> fstep false o f = fstep true o f.
Proof.
  intros (I & _). destruct o; simpl; try reflexivity. rewrite (mstep_forms _ _ I). reflexivity.
Qed.

Theorem fstep_inv ip o f f' : inv_field f -> fstep ip o f = OK f' -> inv_field f'.
Proof.
  intros (I & Ha & Hv & Hnv & Hr) H. destruct o as [v | fa ref | a1 a2 k ref]; simpl in H.
  - destruct (mstep true (HTranslate v) (fmesh f)) as [m'|] eqn:Hm; simpl in H; [|discriminate].
    inversion H; subst; clear H. destruct (mstep_shape _ _ _ _ I Hm) as [D N]. simpl in N.
    unfold inv_field; simpl. rewrite N, D. split; [exact (mstep_inv _ _ _ _ I Hm)|]. repeat split; assumption.
  - destruct (mstep true (HScale fa ref) (fmesh f)) as [m'|] eqn:Hm; simpl in H; [|discriminate].
    inversion H; subst; clear H. destruct (mstep_shape _ _ _ _ I Hm) as [D N]. simpl in N.
    unfold inv_field; simpl. rewrite N, D. split; [exact (mstep_inv _ _ _ _ I Hm)|]. repeat split; assumption.
  - destruct (dim2index a1 (reg (fmesh f))) as [a|]; simpl in H; [|discriminate].
    destruct (dim2index a2 (reg (fmesh f))) as [b|]; simpl in H; [|discriminate].
    match type of H with bind ?c _ = _ => destruct c as [u|]; simpl in H; [|discriminate] end.
    destruct (mstep ip (HRot a1 a2 k ref) (fmesh f)) as [m'|] eqn:Hm; simpl in H; [|discriminate].
    match type of H with (if ?c then _ else _) = _ => destruct c eqn:Ck; [|discriminate] end.
    inversion H; subst; clear H. apply andb_true_iff in Ck. destruct Ck as [C1 C2].
    apply zlist_eqb_eq in C1. apply zlist_eqb_eq in C2.
    destruct (mstep_shape _ _ _ _ I Hm) as [D N].
    unfold inv_field; simpl. rewrite D. split; [exact (mstep_inv _ _ _ _ I Hm)|]. repeat split; assumption.
Qed.

(* an unmapped vector field refuses the quarter turn (before anything is touched: the state of a history
   is unchanged by [reject_unchanged]) *)
Theorem fstep_unmapped_refused ip a1 a2 k ref f a b :
  dim2index a1 (reg (fmesh f)) = OK a -> dim2index a2 (reg (fmesh f)) = OK b -> (1 < fnvdim f)%Z ->
  nth a (frmap f) None = None \/ nth b (frmap f) None = None ->
  fstep ip (HRot a1 a2 k ref) f = Err RuntimeE.
Proof.
  intros Ha Hb Hn H. simpl. rewrite Ha, Hb. simpl. apply Z.ltb_lt in Hn. rewrite Hn.
  destruct H as [H|H]; rewrite H; [reflexivity|]. destruct (nth a (frmap f) None); reflexivity.
Qed.

(* ---------- every root ---------- *)
Theorem step_forms o s : Inv s -> step false o s = step true o s.
Proof.
  destruct s as [r|m|f]; simpl; intros I.
  - rewrite (rstep_inplace_eq_copy o r I). reflexivity.
  - rewrite (mstep_forms o m I). reflexivity.
  - rewrite (fstep_forms o f I). reflexivity.
Qed.

Theorem step_inv ip o s s' : Inv s -> step ip o s = OK s' -> Inv s'.
Proof.
  destruct s as [r|m|f]; simpl; intros I H.
  - destruct (rstep ip o r) as [r'|] eqn:E; simpl in H; [|discriminate]. inversion H; subst; simpl.
    eapply rstep_inv; eassumption.
  - destruct (mstep ip o m) as [m'|] eqn:E; simpl in H; [|discriminate]. inversion H; subst; simpl.
    eapply mstep_inv; eassumption.
  - destruct (fstep ip o f) as [f'|] eqn:E; simpl in H; [|discriminate]. inversion H; subst; simpl.
    eapply fstep_inv; eassumption.
Qed.

Theorem inv_reachable h : forall s, Inv s -> Inv (run h s).
Proof.
  induction h as [|io h IH]; intros s I; simpl; [exact I|]. apply IH. unfold apply_step.
  destruct (step (fst io) (snd io) s) eqn:E; [eapply step_inv; eassumption | exact I].
Qed.

Theorem forms_irrelevant ops : forall f1 f2 s, Inv s ->
  length f1 = length ops -> length f2 = length ops ->
  run (combine f1 ops) s = run (combine f2 ops) s.
Proof.
  induction ops as [|o ops IH]; intros [|b1 f1] [|b2 f2] s I L1 L2; simpl in *; try discriminate; try reflexivity.
  assert (E : step b1 o s = step b2 o s).
  { destruct b1, b2; try reflexivity; [symmetry|]; apply step_forms; exact I. }
  unfold apply_step; simpl. rewrite E. destruct (step b2 o s) eqn:E2; apply IH; try lia; try exact I.
  eapply step_inv; eassumption.
Qed.

(* every accepted step leaves cell * n = edges on every axis (cell is edges / n by definition of the model,
   as in the code; n stays positive) *)
Theorem cell_times_n_inv m a : inv_mesh m -> (a < length (pmin (reg m)))%nat ->
  0 < nth a (cell m) 0 /\
  inject_Z (nth a (n m) 1%Z) * nth a (cell m) 0 == nth a (pmax (reg m)) 0 - nth a (pmin (reg m)) 0.
Proof.
  intros (W & _) A. rewrite (cell_nth m W a A). destruct (wf_axis m W a A) as [H1 H2].
  apply cell_is_edges_over_n; assumption.
Qed.

(* ---------- non-vacuity: a mesh with two whole-cell subregions and a vector field on it ---------- *)
Definition demo_tf : Q := 1 # 1000000000000.
Definition demo_reg (lo hi : list Q) : region :=
  mkRegion lo hi ["x"%string; "y"%string; "z"%string] ["m"%string; "nm"%string; "s"%string] demo_tf.
Definition demo_mesh : mesh :=
  mkMesh (demo_reg [0; 0; 0] [4; 2; 1]) [4; 2; 1]%Z ""
         [("a"%string, demo_reg [0; 0; 0] [2; 2; 1]); ("b"%string, demo_reg [2; 1; 0] [4; 2; 1])].
Definition demo_field : fstate := mkF demo_mesh 3 [Some 0%nat; Some 1%nat; Some 2%nat] [4; 2; 1; 3]%Z [4; 2; 1]%Z.

Lemma demo_reg_wf lo hi : length lo = 3%nat -> length hi = 3%nat -> Forall2 (fun a b => a < b) lo hi ->
  wf_region (demo_reg lo hi).
Proof.
  intros L1 L2 F. unfold wf_region, demo_reg; simpl. repeat split; try lia; try assumption.
  - repeat constructor; simpl; intuition discriminate.
  - unfold demo_tf. intro H. vm_compute in H. discriminate H.
Qed.

Ltac cells j1 j2 := exists j1, j2; split; [cbn; lia|]; split; vm_compute; reflexivity.

Lemma demo_mesh_inv : inv_mesh demo_mesh.
Proof.
  split.
  - split; [apply demo_reg_wf; try reflexivity; repeat constructor; reflexivity|].
    split; [reflexivity|]. repeat constructor.
  - constructor; [|constructor; [|constructor]]; simpl.
    + split; [apply demo_reg_wf; try reflexivity; repeat constructor; reflexivity|].
      repeat (split; [reflexivity|]). intros [|[|[|a]]] A; simpl in A; try lia.
      * cells 0%Z 2%Z. * cells 0%Z 2%Z. * cells 0%Z 1%Z.
    + split; [apply demo_reg_wf; try reflexivity; repeat constructor; reflexivity|].
      repeat (split; [reflexivity|]). intros [|[|[|a]]] A; simpl in A; try lia.
      * cells 2%Z 4%Z. * cells 1%Z 2%Z. * cells 0%Z 1%Z.
Qed.

Lemma demo_field_inv : inv_field demo_field.
Proof. split; [exact demo_mesh_inv|]. repeat split; reflexivity. Qed.

Lemma demo_history :
  Inv (SField demo_field) /\ Inv (SMesh demo_mesh) /\
  (* odd quarter turn in place then negative per-axis scaling by the copying form: accepted, n swapped *)
  (exists m', mstep true (HRot "x" "y" (KInt 1) RNone) demo_mesh = OK m' /\ n m' = [2; 4; 1]%Z /\
     exists m'', mstep false (HScale (VSeq [EReal (-(2)); EReal 1; EReal (1 # 2)]) (RSeq [EReal 0; EReal 0; EReal 0])) m' = OK m'' /\
       n m'' = [2; 4; 1]%Z /\ length (subs m'') = 2%nat) /\
  (* zero factor refused by both forms at mesh level *)
  is_ok (mstep true (HScale (VScalar 0) RNone) demo_mesh) = false /\
  is_ok (mstep false (HScale (VScalar 0) RNone) demo_mesh) = false /\
  (* the field turns with its mesh: shapes follow n *)
  (exists f', fstep true (HRot "x" "y" (KInt 3) RNone) demo_field = OK f' /\
     fashape f' = [2; 4; 1; 3]%Z /\ fvshape f' = [2; 4; 1]%Z).
Proof.
  split; [exact demo_field_inv|]. split; [exact demo_mesh_inv|].
  split; [eexists; split; [vm_compute; reflexivity|]; split; [reflexivity|];
          eexists; split; [vm_compute; reflexivity|]; split; reflexivity|].
  split; [vm_compute; reflexivity|]. split; [vm_compute; reflexivity|].
  eexists; split; [vm_compute; reflexivity|]; split; reflexivity.
Qed.
