(* C13, mesh level: every step maps region and subregions, axis by axis, with ONE affine map
   x -> alpha * x + beta (alpha <> 0) read from a source axis (the other axis of an odd quarter turn),
   so the whole-cell form of the subregions (on_cells) survives; the copying form's constructor and
   subregion setter accept exactly what the in-place form produced. *)
From DF Require Import Prelude Constants_gen Region Mesh Subregions History QLemmas ListLemmas
  C01_axis C01_nd C14_lattice C14_axis C13_region.
Open Scope Q_scope.

(* ---------- small list facts ---------- *)
Lemma nth_set_same {A} i (x d : A) l : (i < length l)%nat -> nth i (set_nth i x l) d = x.
Proof. revert i; induction l; intros [|i] H; simpl in *; try lia; auto. apply IHl; lia. Qed.

Lemma nth_set_other {A} i j (x d : A) l : i <> j -> nth j (set_nth i x l) d = nth j l d.
Proof. revert i j; induction l; intros [|i] [|j] H; simpl; try reflexivity; try congruence. apply IHl; congruence. Qed.

Lemma all_real_map w : forallb is_real (map EReal w) = true.
Proof. induction w; simpl; auto. Qed.
Lemma eval_map w : map eval (map EReal w) = w.
Proof. induction w; simpl; [reflexivity | f_equal; assumption]. Qed.

Lemma index_of_nth s l : forall i, index_of s l = Some i -> (i < length l)%nat /\ nth i l EmptyString = s.
Proof.
  induction l as [|h t IH]; simpl; intros i H; [discriminate|].
  destruct (String.eqb s h) eqn:E.
  - inversion H; subst. apply String.eqb_eq in E. split; [lia | symmetry; exact E].
  - destruct (index_of s t) as [i'|]; simpl in H; [|discriminate]. inversion H; subst.
    destruct (IH i' eq_refl) as [A B]. split; [lia | exact B].
Qed.

Lemma hswap_nth {A} a b (d d' : A) l j : a <> b -> (a < length l)%nat -> (b < length l)%nat ->
  nth j (hswap a b d l) d' =
  if (j =? a)%nat then nth b l d' else if (j =? b)%nat then nth a l d' else nth j l d'.
Proof.
  intros N A1 B1. unfold hswap.
  destruct (j =? a)%nat eqn:Ea; [apply Nat.eqb_eq in Ea; subst j|].
  - rewrite nth_set_other by congruence. rewrite nth_set_same by exact A1. apply nth_indep. exact B1.
  - apply Nat.eqb_neq in Ea. destruct (j =? b)%nat eqn:Eb; [apply Nat.eqb_eq in Eb; subst j|].
    + rewrite nth_set_same by (rewrite set_nth_len; exact B1). apply nth_indep. exact A1.
    + apply Nat.eqb_neq in Eb. rewrite !nth_set_other by congruence. reflexivity.
Qed.

Lemma zero_edge_nth p1 : forall p2 j, zero_edge p1 p2 = false -> (j < length p1)%nat -> (j < length p2)%nat ->
  ~ nth j p2 0 - nth j p1 0 == 0.
Proof.
  unfold zero_edge, edges_of. induction p1 as [|a p1 IH]; intros [|b p2] j H L1 L2; simpl in *; try lia.
  apply orb_false_iff in H. destruct H as [H1 H2]. destruct j as [|j].
  - intros E. apply Qeq_bool_iff in E. congruence.
  - apply IH; [exact H2 | lia | lia].
Qed.

(* ---------- rstep in normal form ---------- *)
Lemma rstep_spec ip o r r' : wf_region r -> rstep ip o r = OK r' ->
  exists p1 p2 us, prep o r = OK (p1, p2, us) /\ zero_edge p1 p2 = false /\
    r' = mkRegion (map2 Qmin p1 p2) (map2 Qmax p1 p2) (dims r) us (tf r) /\
    length p1 = ndim r /\ length p2 = ndim r /\ length us = ndim r.
Proof.
  intros W H. assert (H' : rstep true o r = OK r').
  { destruct ip; [exact H | rewrite rstep_inplace_eq_copy; assumption]. }
  clear H. unfold rstep in H'. destruct (prep o r) as [[[p1 p2] us]|e] eqn:E; simpl in H'; [|discriminate].
  destruct (prep_lengths o r p1 p2 us W E) as (L1 & L2 & L3 & LT).
  assert (HM : finish_minmax p1 p2 us r = OK r').
  { destruct o; try exact H'. rewrite <- finish_direct_minmax; assumption. }
  unfold finish_minmax in HM. destruct (zero_edge p1 p2) eqn:Z; [discriminate|]. inversion HM; subst.
  exists p1, p2, us. repeat split; assumption.
Qed.

(* ---------- quarter turns, axis by axis ---------- *)
Definition rot_coef (a b : nat) (k : Z) (ra rb : Q) (j : nat) : nat * Q * Q :=
  if (j =? a)%nat then
    match (k mod 4)%Z with
    | 0%Z => (a, 1, 0) | 1%Z => (b, -(1), ra + rb) | 2%Z => (a, -(1), 2 * ra) | _ => (b, 1, ra - rb)
    end
  else if (j =? b)%nat then
    match (k mod 4)%Z with
    | 0%Z => (b, 1, 0) | 1%Z => (a, 1, rb - ra) | 2%Z => (b, -(1), 2 * rb) | _ => (a, -(1), rb + ra)
    end
  else (j, 1, 0).

Lemma mod4_cases k : (k mod 4 = 0 \/ k mod 4 = 1 \/ k mod 4 = 2 \/ k mod 4 = 3)%Z.
Proof. pose proof (Z.mod_pos_bound k 4 ltac:(lia)). lia. Qed.

Lemma odd_mod4 k : Z.odd k = Z.odd (k mod 4).
Proof.
  rewrite (Z.div_mod k 4) at 1 by lia. rewrite Z.add_comm.
  replace (4 * (k / 4))%Z with (2 * (2 * (k / 4)))%Z by ring. apply Z.odd_add_mul_2.
Qed.

Lemma hrot_nth a b k ra rb (p : list Q) j : a <> b -> (a < length p)%nat -> (b < length p)%nat ->
  nth j (hrot_pt a b k ra rb p) 0 ==
  snd (fst (rot_coef a b k ra rb j)) * nth (fst (fst (rot_coef a b k ra rb j))) p 0 + snd (rot_coef a b k ra rb j).
Proof.
  intros N A1 B1. unfold hrot_pt, rot_coef, hrot_cs.
  destruct (j =? a)%nat eqn:Ea; [apply Nat.eqb_eq in Ea; subst j|].
  - rewrite nth_set_other by congruence. rewrite nth_set_same by exact A1.
    destruct (mod4_cases k) as [E|[E|[E|E]]]; rewrite E; simpl; ring.
  - apply Nat.eqb_neq in Ea. destruct (j =? b)%nat eqn:Eb; [apply Nat.eqb_eq in Eb; subst j|].
    + rewrite nth_set_same by (rewrite set_nth_len; exact B1).
      destruct (mod4_cases k) as [E|[E|[E|E]]]; rewrite E; simpl; ring.
    + apply Nat.eqb_neq in Eb. rewrite !nth_set_other by congruence. simpl. ring.
Qed.

Lemma rot_coef_src a b k ra rb j (ns : list Z) nd : a <> b -> (a < nd)%nat -> (b < nd)%nat -> (j < nd)%nat ->
  length ns = nd ->
  (fst (fst (rot_coef a b k ra rb j)) < nd)%nat /\
  nth j (if Z.odd k then hswap a b 0%Z ns else ns) 1%Z = nth (fst (fst (rot_coef a b k ra rb j))) ns 1%Z.
Proof.
  intros N A1 B1 J L. rewrite odd_mod4. unfold rot_coef.
  destruct (mod4_cases k) as [E|[E|[E|E]]]; rewrite E; simpl Z.odd; cbv iota;
    try rewrite (hswap_nth a b 0%Z 1%Z ns j N) by lia;
    destruct (j =? a)%nat eqn:Ea; try (apply Nat.eqb_eq in Ea; subst j); simpl; try (split; [lia | reflexivity]);
    destruct (j =? b)%nat eqn:Eb; try (apply Nat.eqb_eq in Eb; subst j); simpl; split; try lia; reflexivity.
Qed.

(* ---------- region and subregion see the same affine map on every axis ---------- *)
Definition axis_rel (j sg : nat) (al be : Q) (p1 p2 : list Q) (r : region) : Prop :=
  nth j p1 0 == al * nth sg (pmin r) 0 + be /\ nth j p2 0 == al * nth sg (pmax r) 0 + be.

Definition sub_ref (ref : rarg) (c : list Q) : rarg :=
  match ref with RNone => RSeq (map EReal c) | _ => ref end.

Lemma sub_ref_scale nd c c' ref rf : length c = nd ->
  parse_ref_scale nd c ref = OK rf -> parse_ref_scale nd c' (sub_ref ref c) = OK rf.
Proof.
  intros Hc. destruct ref; simpl; auto. intros H; inversion H; subst.
  rewrite map_length, Nat.eqb_refl, all_real_map, eval_map. reflexivity.
Qed.

Lemma sub_ref_rot nd c c' ref rf : length c = nd ->
  parse_ref_rot nd c ref = OK rf -> parse_ref_rot nd c' (sub_ref ref c) = OK rf.
Proof.
  intros Hc. destruct ref; simpl; auto. intros H; inversion H; subst.
  rewrite map_length, Nat.eqb_refl. reflexivity.
Qed.

Lemma center_len r : wf_region r -> length (center r) = length (pmin r).
Proof. intros (W1 & _). unfold center. rewrite map2_length'; lia. Qed.

Lemma prep_pair o r s p1 p2 us q1 q2 vs ns :
  wf_region r -> wf_region s -> length (pmin s) = length (pmin r) -> dims s = dims r -> units s = units r ->
  prep o r = OK (p1, p2, us) -> prep (sub_op o (center r)) s = OK (q1, q2, vs) ->
  length ns = length (pmin r) ->
  vs = us /\ forall j, (j < length (pmin r))%nat -> exists sg al be, (sg < length (pmin r))%nat /\
     nth j (hnew_n o r ns) 1%Z = nth sg ns 1%Z /\ axis_rel j sg al be p1 p2 r /\ axis_rel j sg al be q1 q2 s.
Proof.
  intros W Ws Ls Hd Hu Hp Hq Ln.
  pose proof (center_len r W) as Lc.
  destruct W as (W1 & W2 & W3 & W4 & W5 & W6 & W7). destruct Ws as (S1 & S2 & S3 & S4 & S5 & S6 & S7).
  destruct o as [v | f ref | a1 a2 k ref].
  - (* translate *)
    simpl in Hp, Hq. unfold ndim in *. rewrite Ls in Hq.
    apply bind_ok in Hp. destruct Hp as (w & Hw & Hp). inversion Hp; subst; clear Hp.
    rewrite Hw in Hq. simpl in Hq. inversion Hq; subst; clear Hq.
    apply parse_vec_len in Hw.
    split; [exact Hu|]. intros j J. exists j, 1, (nth j w 0).
    split; [exact J|]. split; [reflexivity|].
    split; split; rewrite (nth_map2 Qplus _ _ j 0 0 0) by lia; ring.
  - (* scale *)
    assert (E : sub_op (HScale f ref) (center r) = HScale f (sub_ref ref (center r))) by (destruct ref; reflexivity).
    rewrite E in Hq. clear E. simpl in Hp, Hq. unfold ndim in *. rewrite Ls in Hq.
    apply bind_ok in Hp. destruct Hp as (fs & Hf & Hp). apply bind_ok in Hp. destruct Hp as (rf & Hr & Hp).
    inversion Hp; subst; clear Hp.
    rewrite Hf in Hq. simpl in Hq.
    rewrite (sub_ref_scale (length (pmin r)) (center r) (center s) ref rf Lc Hr) in Hq. simpl in Hq.
    inversion Hq; subst; clear Hq.
    apply parse_factor_len in Hf. apply parse_ref_scale_len in Hr; [|exact Lc].
    split; [exact Hu|]. intros j J. exists j, (nth j fs 0), (nth j rf 0 * (1 - nth j fs 0)).
    split; [exact J|]. split; [reflexivity|].
    assert (LA : length (map3 hscale_lo rf (pmin r) fs) = length (pmin r)) by (rewrite map3_length'; lia).
    assert (LB : length (map3 hscale_lo rf (pmin s) fs) = length (pmin r)) by (rewrite map3_length'; lia).
    split; split.
    + rewrite (nth_map3 hscale_lo _ _ _ j 0 0 0 0) by lia. unfold hscale_lo. ring.
    + rewrite (nth_map3 hscale_hi _ _ _ j 0 0 0 0); try lia.
      2:{ unfold edges, edges_of. rewrite map2_length'; lia. }
      rewrite (nth_map3 hscale_lo _ _ _ j 0 0 0 0) by lia.
      unfold edges, edges_of. rewrite (nth_map2 Qminus _ _ j 0 0 0) by lia.
      unfold hscale_lo, hscale_hi. ring.
    + rewrite (nth_map3 hscale_lo _ _ _ j 0 0 0 0) by lia. unfold hscale_lo. ring.
    + rewrite (nth_map3 hscale_hi _ _ _ j 0 0 0 0); try lia.
      2:{ unfold edges, edges_of. rewrite map2_length'; lia. }
      rewrite (nth_map3 hscale_lo _ _ _ j 0 0 0 0) by lia.
      unfold edges, edges_of. rewrite (nth_map2 Qminus _ _ j 0 0 0) by lia.
      unfold hscale_lo, hscale_hi. ring.
  - (* quarter turn *)
    assert (E : sub_op (HRot a1 a2 k ref) (center r) = HRot a1 a2 k (sub_ref ref (center r))) by (destruct ref; reflexivity).
    rewrite E in Hq. clear E. simpl in Hp, Hq. unfold ndim, dim2index in *. rewrite Ls, Hd in Hq.
    destruct (String.eqb a1 a2) eqn:Eax; [discriminate|].
    apply bind_ok in Hp. destruct Hp as (kz & Hk & Hp). apply bind_ok in Hp. destruct Hp as (rf & Hr & Hp).
    rewrite Hk in Hq. simpl in Hq.
    rewrite (sub_ref_rot (length (pmin r)) (center r) (center s) ref rf Lc Hr) in Hq. simpl in Hq.
    destruct (index_of a1 (dims r)) as [a|] eqn:Ia; simpl in Hp, Hq; [|discriminate].
    destruct (index_of a2 (dims r)) as [b|] eqn:Ib; simpl in Hp, Hq; [|discriminate].
    destruct (nth a rf EBad) as [ra|]; [|discriminate]. destruct (nth b rf EBad) as [rb|]; [|discriminate].
    inversion Hp; subst; clear Hp. inversion Hq; subst; clear Hq.
    destruct (index_of_nth a1 (dims r) a Ia) as [A1 A2]. destruct (index_of_nth a2 (dims r) b Ib) as [B1 B2].
    assert (N : a <> b).
    { intros ->. rewrite A2 in B2. subst a2. rewrite String.eqb_refl in Eax. discriminate. }
    split; [rewrite Hu; reflexivity|]. intros j J.
    destruct k as [kz'|]; [|discriminate]. inversion Hk; subst kz'.
    exists (fst (fst (rot_coef a b kz ra rb j))), (snd (fst (rot_coef a b kz ra rb j))), (snd (rot_coef a b kz ra rb j)).
    destruct (rot_coef_src a b kz ra rb j ns (length (pmin r)) N ltac:(lia) ltac:(lia) J Ln) as [Sg Hn].
    split; [exact Sg|]. split.
    + simpl. rewrite Ia, Ib. exact Hn.
    + split; split; apply hrot_nth; try exact N; lia.
Qed.

(* ---------- the whole-cell form survives a step ---------- *)
Lemma Qmin_eq a b a' b' : a == a' -> b == b' -> Qmin a b == Qmin a' b'.
Proof. intros H1 H2. rewrite H1, H2. reflexivity. Qed.
Lemma Qmax_eq a b a' b' : a == a' -> b == b' -> Qmax a b == Qmax a' b'.
Proof. intros H1 H2. rewrite H1, H2. reflexivity. Qed.

Lemma on_cells_mk r' n' b l s' a : (a < length (pmin r'))%nat ->
  length (pmax r') = length (pmin r') -> length n' = length (pmin r') ->
  ax_inv (nth a (pmin r') 0) (nth a (pmax r') 0) (nth a n' 1%Z) (nth a (pmin s') 0) (nth a (pmax s') 0) ->
  on_cells (mkMesh r' n' b l) s' a.
Proof.
  intros A L1 L2 H. unfold on_cells; simpl. unfold cell; simpl.
  rewrite (nth_map3 cell_of _ _ _ a 0 0 0 1%Z) by lia. exact H.
Qed.

Lemma on_cells_ax m s a : wf_mesh m -> (a < length (pmin (reg m)))%nat -> on_cells m s a ->
  ax_inv (nth a (pmin (reg m)) 0) (nth a (pmax (reg m)) 0) (nth a (n m) 1%Z) (nth a (pmin s) 0) (nth a (pmax s) 0).
Proof. intros W A H. unfold on_cells in H. rewrite (cell_nth m W a A) in H. exact H. Qed.

Lemma sub_step_inv ip o m s s' p1 p2 us b l :
  wf_mesh m -> inv_sub m s ->
  prep o (reg m) = OK (p1, p2, us) -> zero_edge p1 p2 = false ->
  rstep ip (sub_op o (center (reg m))) s = OK s' ->
  inv_sub (mkMesh (mkRegion (map2 Qmin p1 p2) (map2 Qmax p1 p2) (dims (reg m)) us (tf (reg m)))
                  (hnew_n o (reg m) (n m)) b l) s'.
Proof.
  intros Wm (Ws & Ls & Hd & Hu & Ht & Hc) Hp Z Hs.
  pose proof Wm as (Wr & Ln & Hn).
  destruct (prep_lengths o (reg m) p1 p2 us Wr Hp) as (P1 & P2 & P3 & _). unfold ndim in *.
  destruct (rstep_spec ip _ s s' Ws Hs) as (q1 & q2 & vs & Hq & Zq & Es & Q1 & Q2 & Q3). unfold ndim in *.
  destruct (prep_pair o (reg m) s p1 p2 us q1 q2 vs (n m) Wr Ws Ls Hd Hu Hp Hq Ln) as [Ev Hax].
  assert (Ws' : wf_region s') by exact (rstep_inv ip _ s s' Ws Hs).
  subst s' vs. unfold inv_sub; simpl.
  split; [exact Ws'|]. rewrite !map2_length' by lia.
  split; [lia|]. split; [exact Hd|]. split; [reflexivity|]. split; [exact Ht|].
  intros a A. rewrite P1 in A.
  destruct (Hax a A) as (sg & al & be & Sg & Hnn & [R1 R2] & [T1 T2]).
  destruct (wf_axis m Wm sg Sg) as [Hlh Hk].
  pose proof (on_cells_ax m s sg Wm Sg (Hc sg Sg)) as Hinv.
  assert (Hal : ~ al == 0).
  { intros E. apply (zero_edge_nth p1 p2 a Z); try lia. rewrite R1, R2, E. ring. }
  assert (Lh : length (hnew_n o (reg m) (n m)) = length (pmin (reg m))).
  { destruct o as [| |a1 a2 [kz|] ref]; simpl; try exact Ln.
    destruct (Z.odd kz); [|exact Ln].
    destruct (index_of a1 (dims (reg m))); [|exact Ln]. destruct (index_of a2 (dims (reg m))); [|exact Ln].
    rewrite hswap_len. exact Ln. }
  apply on_cells_mk; simpl; rewrite ?map2_length' by lia; try lia.
  rewrite (nth_map2 Qmin p1 p2 a 0 0 0), (nth_map2 Qmax p1 p2 a 0 0 0) by lia.
  rewrite (nth_map2 Qmin q1 q2 a 0 0 0), (nth_map2 Qmax q1 q2 a 0 0 0) by lia.
  rewrite Hnn.
  eapply ax_inv_eq; [| | | | exact (affine_inv _ _ _ Hlh Hk _ _ Hinv al be Hal)].
  - apply Qmin_eq; symmetry; assumption.
  - apply Qmax_eq; symmetry; assumption.
  - apply Qmin_eq; symmetry; assumption.
  - apply Qmax_eq; symmetry; assumption.
Qed.

(* ---------- bridge: subregions made of whole cells pass the setter of the copying form ---------- *)
Lemma forallb_nth_true {A} (f : A -> bool) l d :
  (forall a, (a < length l)%nat -> f (nth a l d) = true) -> forallb f l = true.
Proof.
  induction l as [|x l IH]; simpl; intros H; [reflexivity|].
  rewrite (H 0%nat ltac:(lia)). simpl. apply IH. intros a Ha. apply (H (S a)). lia.
Qed.

Lemma existsb_nth_false (l : list bool) :
  (forall a, (a < length l)%nat -> nth a l false = false) -> existsb (fun b => b) l = false.
Proof.
  induction l as [|x l IH]; simpl; intros H; [reflexivity|].
  rewrite (H 0%nat ltac:(lia)). simpl. apply IH. intros a Ha. apply (H (S a)). lia.
Qed.

Lemma edges_pos r : wf_region r -> forall e, In e (edges r) -> 0 < e.
Proof.
  intros (H1 & _ & _ & _ & _ & H6 & _). unfold edges, edges_of.
  induction H6 as [|x y l1 l2 Hxy H IH]; simpl; [tauto|].
  intros e [E | E]; [subst e; lra | apply IH; [simpl in H1; lia | exact E]].
Qed.

Lemma reg_atol_nonneg r : wf_region r -> 0 <= reg_atol r.
Proof.
  intros W. unfold reg_atol. pose proof W as (H1 & H2 & _ & _ & _ & _ & H7).
  assert (0 < qlist_min (edges r)).
  { apply qlist_min_pos; [|apply edges_pos; exact W].
    intros E. apply (f_equal (@length Q)) in E. unfold edges, edges_of in E.
    rewrite map2_length' in E by lia. simpl in E. lia. }
  apply Qmult_le_0_compat; lra.
Qed.

Lemma contains_pt_nth r p : wf_region r -> length p = length (pmin r) ->
  (forall a, (a < length (pmin r))%nat ->
     contains1 (tf r) (reg_atol r) (nth a (pmin r) 0) (nth a (pmax r) 0) (nth a p 0) = true) ->
  contains_pt r p = true.
Proof.
  intros (H1 & _) L H. unfold contains_pt, ndim. rewrite L, Nat.eqb_refl. simpl.
  apply forallb_id_nth. intros a Ha. rewrite map3_length' in Ha by lia.
  rewrite (nth_map3 (contains1 (tf r) (reg_atol r)) _ _ _ a true 0 0 0) by lia. apply H. exact Ha.
Qed.

Lemma divis_nonneg : 0 <= divisibility_factor.
Proof. unfold divisibility_factor. intro H. vm_compute in H. discriminate H. Qed.

Lemma bycell_tol_nonneg m : wf_mesh m -> 0 <= bycell_tol (cell m).
Proof.
  intros W. destruct (wf_lengths m W) as (L1 & L2 & L3). pose proof W as ((_ & H2 & _) & _).
  unfold bycell_tol. assert (0 < qlist_min (cell m)).
  { apply qlist_min_pos.
    - intros E. rewrite E in L3. simpl in L3. lia.
    - intros e He. destruct (In_nth _ _ 0 He) as (a & Ha & Ea). rewrite <- Ea.
      apply cell_pos_nth; [exact W | lia]. }
  pose proof divis_nonneg. apply Qmult_le_0_compat; lra.
Qed.

Theorem whole_cells_accepted tol m s : 0 <= tol -> wf_mesh m -> inv_sub m s -> sub_ok tol m s = true.
Proof.
  intros Htol Wm (Ws & Ls & Hd & Hu & Ht & Hc).
  destruct (wf_lengths m Wm) as (L1 & L2 & L3).
  pose proof Wm as (Wr & _ & _). pose proof Ws as (S1 & S2 & _ & _ & _ & S6 & S7).
  pose proof Wr as (_ & _ & _ & _ & _ & _ & R7).
  pose proof (reg_atol_nonneg (reg m) Wr) as Ra. pose proof (reg_atol_nonneg s Ws) as Sa.
  pose proof (bycell_tol_nonneg m Wm) as Bt.
  set (nd := length (pmin (reg m))) in *.
  (* per axis: everything C14 proves about a whole-cell box *)
  assert (AX : forall a, (a < nd)%nat -> forall rtol atol tolc, 0 <= rtol -> 0 <= atol -> 0 <= tolc ->
     let lo := nth a (pmin (reg m)) 0 in let hi := nth a (pmax (reg m)) 0 in
     let slo := nth a (pmin s) 0 in let shi := nth a (pmax s) 0 in let c := nth a (cell m) 0 in
     contains1 rtol atol lo hi slo = true /\ contains1 rtol atol lo hi shi = true /\
     contains1 rtol atol slo shi (slo + c) = true /\ bad_rem tolc c (shi - slo) = false /\
     (exists j : Z, (0 < j)%Z /\ Qround_half_even ((shi - slo) / c) = j /\ (shi - slo) / inject_Z j == c) /\
     off_lattice tol c (lo - slo) = false /\ off_lattice tol c (hi - shi) = false /\ slo < shi /\ 0 < c).
  { intros a A rtol atol tolc H1 H2 H3. cbv zeta.
    destruct (wf_axis m Wm a A) as [Hlh Hk].
    pose proof (on_cells_ax m s a Wm A (Hc a A)) as Hinv.
    rewrite (cell_nth m Wm a A). unfold cell_of.
    destruct (exact_accepted _ _ _ Hlh Hk _ _ Hinv rtol atol tolc tol H1 H2 H3 Htol) as (E1 & E2 & E3 & E4 & (j & (J1 & _) & J2 & J3) & E6 & E7).
    repeat split; try assumption.
    - exists j. repeat split; assumption.
    - apply (Forall2_nth_Q (fun x y => x < y) (pmin s) (pmax s) a S6). unfold nd in A. lia.
    - apply Qdiv_pos; [lra | apply inject_Z_pos; exact Hk]. }
  unfold sub_ok. apply andb_true_iff. split.
  - (* value in region *)
    unfold contains_region. apply andb_true_iff.
    split; apply contains_pt_nth; try exact Wr; try (fold nd; lia); intros a A;
      destruct (AX a A (tf (reg m)) (reg_atol (reg m)) 0 R7 Ra ltac:(lra)) as (E1 & E2 & _); assumption.
  - (* Mesh(region=value, cell=cell) and is_aligned *)
    unfold mesh_by_cell, ndim. rewrite L3, Ls, Nat.eqb_refl. simpl.
    assert (CP : forallb (fun x => Qltb 0 x) (cell m) = true).
    { apply forallb_nth_true with (d := 0). intros a A. apply Qltb_true. apply cell_pos_nth; [exact Wm | lia]. }
    rewrite CP. simpl.
    assert (C1 : contains_pt s (pmin s) = true).
    { apply contains_pt_nth; [exact Ws | reflexivity |]. intros a A. rewrite Ls in A.
      destruct (AX a A (tf s) (reg_atol s) 0 S7 Sa ltac:(lra)) as (_ & _ & _ & _ & _ & _ & _ & Lt & _).
      apply contains1_inside; try assumption; lra. }
    assert (C2 : contains_pt s (map2 Qplus (pmin s) (cell m)) = true).
    { apply contains_pt_nth; [exact Ws | rewrite map2_length'; lia |]. intros a A. rewrite Ls in A.
      destruct (AX a A (tf s) (reg_atol s) 0 S7 Sa ltac:(lra)) as (_ & _ & E3 & _).
      rewrite (nth_map2 Qplus _ _ a 0 0 0) by lia. exact E3. }
    rewrite C1, C2. simpl.
    assert (LE : length (edges s) = nd) by (unfold edges, edges_of; rewrite map2_length'; lia).
    assert (BR : existsb (fun b => b) (map2 (bad_rem (bycell_tol (cell m))) (cell m) (edges s)) = false).
    { apply existsb_nth_false. intros a A. rewrite map2_length' in A by lia. rewrite L3 in A.
      rewrite (nth_map2 (bad_rem (bycell_tol (cell m))) _ _ a false 0 0) by lia.
      destruct (AX a A 0 0 (bycell_tol (cell m)) ltac:(lra) ltac:(lra) Bt) as (_ & _ & _ & E4 & _).
      unfold edges, edges_of. rewrite (nth_map2 Qminus _ _ a 0 0 0) by lia. exact E4. }
    rewrite BR. simpl.
    unfold is_aligned_tol. simpl.
    set (ns := map2 (fun e x => Qround_half_even (e / x)) (edges s) (cell m)).
    assert (Lns : length ns = nd) by (unfold ns; rewrite map2_length'; lia).
    assert (Lcs : length (cell (mkMesh s ns "" [])) = nd).
    { unfold cell; simpl. rewrite map3_length'; lia. }
    assert (CPn : forall a, (a < length (cell m))%nat -> 0 < nth a (cell m) 0).
    { intros a A. apply cell_pos_nth; [exact Wm | lia]. }
    apply andb_true_iff. split; [apply andb_true_iff; split|].
    + apply cells_close_iff. split; [lia|]. intros a A. rewrite L3 in A.
      destruct (AX a A 0 0 0 ltac:(lra) ltac:(lra) ltac:(lra)) as (_ & _ & _ & _ & (j & J1 & J2 & J3) & _).
      assert (EC : nth a (cell (mkMesh s ns "" [])) 0 == nth a (cell m) 0).
      { unfold cell at 1; simpl. rewrite (nth_map3 cell_of _ _ _ a 0 0 0 1%Z) by lia.
        unfold ns. rewrite (nth_map2 (fun e x => Qround_half_even (e / x)) _ _ a 1%Z 0 0) by lia.
        unfold edges, edges_of. rewrite (nth_map2 Qminus _ _ a 0 0 0) by lia.
        rewrite J2. unfold cell_of. exact J3. }
      rewrite EC.
      assert (Z0 : nth a (cell m) 0 - nth a (cell m) 0 == 0) by ring. rewrite Z0. simpl.
      pose proof (Qabs_nonneg_mult align_rtol (nth a (cell m) 0) ltac:(unfold align_rtol; lra)). lra.
    + apply corners_on_lattice_iff; try (simpl; lia); [exact CPn|]. intros a A. rewrite L3 in A.
      destruct (AX a A 0 0 0 ltac:(lra) ltac:(lra) ltac:(lra)) as (_ & _ & _ & _ & _ & E6 & _ & _ & Cp).
      unfold off_lattice in E6. apply bad_rem_false_iff in E6; [exact E6 | exact Cp].
    + apply corners_on_lattice_iff; try (simpl; lia); [exact CPn|]. intros a A. rewrite L3 in A.
      destruct (AX a A 0 0 0 ltac:(lra) ltac:(lra) ltac:(lra)) as (_ & _ & _ & _ & _ & _ & E7 & _ & Cp).
      unfold off_lattice in E7. apply bad_rem_false_iff in E7; [exact E7 | exact Cp].
Qed.

(* ---------- one step on a mesh ---------- *)
Lemma mapres_Forall2 {A B} (f : A -> res B) l : forall l', mapres f l = OK l' ->
  Forall2 (fun x y => f x = OK y) l l'.
Proof.
  induction l as [|x l IH]; simpl; intros l' H.
  - inversion H. constructor.
  - destruct (f x) as [y|] eqn:E; simpl in H; [|discriminate].
    destruct (mapres f l) as [ys|] eqn:E2; simpl in H; [|discriminate].
    inversion H; subst. constructor; [exact E | apply IH; reflexivity].
Qed.

Lemma mapres_ext {A B} (f g : A -> res B) l : Forall (fun x => f x = g x) l -> mapres f l = mapres g l.
Proof. induction 1 as [|x l Hx _ IH]; simpl; [reflexivity|]. rewrite Hx, IH. reflexivity. Qed.

Lemma Forall_set_nth {A} (P : A -> Prop) i x l : Forall P l -> P x -> Forall P (set_nth i x l).
Proof.
  intros H Hx. revert i. induction H as [|y l Hy H IH]; intros [|i]; simpl; constructor; auto.
Qed.

Lemma hnew_n_props o r ns : wf_region r -> length ns = length (pmin r) -> Forall (fun k => 0 < k)%Z ns ->
  length (hnew_n o r ns) = length ns /\ Forall (fun k => 0 < k)%Z (hnew_n o r ns).
Proof.
  intros (_ & _ & W3 & _) L F. destruct o as [| |a1 a2 [kz|] ref]; simpl; try (split; [reflexivity | exact F]).
  destruct (Z.odd kz); [|split; [reflexivity | exact F]].
  destruct (index_of a1 (dims r)) as [a|] eqn:Ia; [|split; [reflexivity | exact F]].
  destruct (index_of a2 (dims r)) as [b|] eqn:Ib; [|split; [reflexivity | exact F]].
  destruct (index_of_nth _ _ _ Ia) as [A _]. destruct (index_of_nth _ _ _ Ib) as [B _].
  split; [apply hswap_len|]. unfold hswap.
  apply Forall_set_nth; [apply Forall_set_nth; [exact F|] |]; apply Forall_nth_Z; try exact F; lia.
Qed.

Lemma forallb_pos ns : Forall (fun k => 0 < k)%Z ns -> forallb (fun k => 0 <? k)%Z ns = true.
Proof. induction 1; simpl; [reflexivity|]. rewrite IHForall, andb_true_r. apply Z.ltb_lt. assumption. Qed.

(* what the in-place form leaves behind, for any [bc] / subregion list put next to it *)
Lemma mstep_parts o m r' subs' : inv_mesh m ->
  rstep true o (reg m) = OK r' ->
  mapres (sub_step true (sub_op o (center (reg m)))) (subs m) = OK subs' ->
  forall b l, wf_mesh (mkMesh r' (hnew_n o (reg m) (n m)) b l) /\
              Forall (fun nr => inv_sub (mkMesh r' (hnew_n o (reg m) (n m)) b l) (snd nr)) subs'.
Proof.
  intros (Wm & Fs) Hr Hs b l. pose proof Wm as (Wr & Ln & Hn).
  destruct (rstep_spec true o (reg m) r' Wr Hr) as (p1 & p2 & us & Hp & Z & Er & P1 & P2 & P3).
  destruct (hnew_n_props o (reg m) (n m) Wr Ln Hn) as [Lh Fh].
  split.
  - unfold wf_mesh; simpl. split; [eapply rstep_inv; eassumption|]. split; [|exact Fh].
    destruct (rstep_keeps true o (reg m) r' Wr Hr) as (_ & _ & Lr). lia.
  - apply mapres_Forall2 in Hs. subst r'. revert Fs. induction Hs as [|x y xs ys Hxy _ IH]; intros Fs; constructor.
    + inversion Fs; subst. unfold sub_step in Hxy.
      destruct (rstep true (sub_op o (center (reg m))) (snd x)) as [s'|] eqn:E; simpl in Hxy; [|discriminate].
      inversion Hxy; subst; simpl.
      eapply sub_step_inv; eassumption.
    + apply IH. inversion Fs; assumption.
Qed.

Theorem mstep_inplace_inv o m m' : inv_mesh m -> mstep true o m = OK m' -> inv_mesh m'.
Proof.
  intros I H. unfold mstep in H.
  destruct (rstep true o (reg m)) as [r'|] eqn:Hr; simpl in H; [|discriminate].
  destruct (mapres (sub_step true (sub_op o (center (reg m)))) (subs m)) as [subs'|] eqn:Hs; simpl in H; [|discriminate].
  inversion H; subst. exact (mstep_parts o m r' subs' I Hr Hs (bc m) subs').
Qed.

Lemma recreate_id m s : inv_sub m s -> recreate m s = s.
Proof.
  intros (_ & _ & Hd & Hu & Ht & _). unfold recreate. destruct s; simpl in *. subst. reflexivity.
Qed.

Lemma align_tol_nonneg : 0 <= align_tol.
Proof. unfold align_tol. intro H. vm_compute in H. discriminate H. Qed.

(* the copying form (constructors + subregion setter) accepts the same calls and returns the same mesh *)
Theorem mstep_forms o m : inv_mesh m -> mstep false o m = mstep true o m.
Proof.
  intros I. pose proof I as (Wm & Fs). pose proof Wm as (Wr & Ln & Hn). unfold mstep.
  rewrite <- (rstep_inplace_eq_copy o (reg m) Wr).
  destruct (rstep true o (reg m)) as [r'|] eqn:Hr; simpl; [|reflexivity].
  assert (E : mapres (sub_step false (sub_op o (center (reg m)))) (subs m) =
              mapres (sub_step true (sub_op o (center (reg m)))) (subs m)).
  { apply mapres_ext. eapply Forall_impl; [|exact Fs]. intros nr (Ws & _). unfold sub_step.
    rewrite (rstep_inplace_eq_copy _ (snd nr) Ws). reflexivity. }
  rewrite E. clear E.
  destruct (mapres (sub_step true (sub_op o (center (reg m)))) (subs m)) as [subs'|] eqn:Hs; simpl; [|reflexivity].
  destruct (mstep_parts o m r' subs' I Hr Hs (bc m) []) as [W0 F0].
  pose proof W0 as (Wr' & Ln' & Hn'). simpl in Ln', Hn'.
  unfold mk_mesh_n, ndim. rewrite Ln', Nat.eqb_refl, (forallb_pos _ Hn'). simpl.
  unfold set_subregions_tol.
  assert (A : forallb (fun nr : string * region => sub_ok align_tol (mkMesh r' (hnew_n o (reg m) (n m)) (bc m) []) (snd nr)) subs' = true).
  { apply forallb_forall. intros nr Hin. rewrite Forall_forall in F0.
    apply whole_cells_accepted; [exact align_tol_nonneg | exact W0 | apply F0; exact Hin]. }
  rewrite A. simpl. f_equal. f_equal.
  clear A Hs. induction F0 as [|nr l Hnr _ IH]; simpl; [reflexivity|].
  rewrite (recreate_id _ _ Hnr), IH. destruct nr; reflexivity.
Qed.

Theorem mstep_inv ip o m m' : inv_mesh m -> mstep ip o m = OK m' -> inv_mesh m'.
Proof.
  intros I H. apply (mstep_inplace_inv o m m' I). destruct ip; [exact H | rewrite <- mstep_forms; assumption].
Qed.
