(* C13, region level: the in-place and the copying path of translate / scale / rotate90 agree,
   keep the region invariant, and histories do not depend on the forms used. *)
From DF Require Import Prelude Constants_gen Region Mesh Subregions History QLemmas ListLemmas.
Open Scope Q_scope.

Lemma reject_unchanged s io : is_ok (step (fst io) (snd io) s) = false -> apply_step s io = s.
Proof. unfold apply_step. destruct (step (fst io) (snd io) s); simpl; [discriminate | reflexivity]. Qed.

(* ---------- min / max, Leibniz ---------- *)
Lemma Qmin_lt_l a b : a < b -> Qmin a b = a.
Proof.
  intros H. unfold Qmin, GenericMinMax.gmin. destruct (Qcompare a b) eqn:E; try reflexivity.
  apply Qgt_alt in E. lra.
Qed.
Lemma Qmax_lt_r a b : a < b -> Qmax a b = b.
Proof.
  intros H. unfold Qmax, GenericMinMax.gmax. destruct (Qcompare a b) eqn:E; try reflexivity.
  - apply Qeq_alt in E. lra.
  - apply Qgt_alt in E. lra.
Qed.

Lemma minmax_diff a b : Qmax a b - Qmin a b == 0 <-> b - a == 0.
Proof.
  destruct (Qlt_le_dec b a) as [H|H].
  - rewrite (Q.max_l a b), (Q.min_r a b) by lra. split; intros; lra.
  - rewrite (Q.max_r a b), (Q.min_l a b) by lra. reflexivity.
Qed.

Lemma minmax_lt a b : ~ b - a == 0 -> Qmin a b < Qmax a b.
Proof.
  intros H. destruct (Qlt_le_dec b a) as [H1|H1].
  - rewrite (Q.max_l a b), (Q.min_r a b) by lra. exact H1.
  - rewrite (Q.max_r a b), (Q.min_l a b) by lra.
    destruct (Qlt_le_dec a b) as [H2|H2]; [exact H2|]. exfalso. apply H. lra.
Qed.

Lemma Qeq_bool_ext a b : (a == 0 <-> b == 0) -> Qeq_bool a 0 = Qeq_bool b 0.
Proof.
  intros H. destruct (Qeq_bool a 0) eqn:Ea, (Qeq_bool b 0) eqn:Eb; try reflexivity.
  - apply Qeq_bool_iff in Ea. apply H in Ea. apply Qeq_bool_iff in Ea. congruence.
  - apply Qeq_bool_iff in Eb. apply H in Eb. apply Qeq_bool_iff in Eb. congruence.
Qed.

(* ---------- zero_edge ---------- *)
Lemma zero_edge_minmax p1 : forall p2,
  zero_edge (map2 Qmin p1 p2) (map2 Qmax p1 p2) = zero_edge p1 p2.
Proof.
  unfold zero_edge, edges_of. induction p1 as [|a p1 IH]; intros [|b p2]; simpl; try reflexivity.
  rewrite IH. f_equal. apply Qeq_bool_ext. apply minmax_diff.
Qed.

Lemma zero_edge_false_lt p1 : forall p2, length p1 = length p2 -> zero_edge p1 p2 = false ->
  Forall2 (fun a b => a < b) (map2 Qmin p1 p2) (map2 Qmax p1 p2).
Proof.
  unfold zero_edge, edges_of. induction p1 as [|a p1 IH]; intros [|b p2] HL H; simpl in *; try discriminate.
  - constructor.
  - apply orb_false_iff in H. destruct H as [H1 H2]. constructor.
    + apply minmax_lt. intros E. apply Qeq_bool_iff in E. congruence.
    + apply IH; [lia | exact H2].
Qed.

Lemma lt_zero_edge p1 : forall p2, Forall2 (fun a b => a < b) p1 p2 ->
  zero_edge p1 p2 = false /\ map2 Qmin p1 p2 = p1 /\ map2 Qmax p1 p2 = p2.
Proof.
  unfold zero_edge, edges_of. induction p1 as [|a p1 IH]; intros p2 H; inversion H; subst; simpl.
  - repeat split.
  - destruct (IH _ H4) as (E1 & E2 & E3). rewrite E1, E2, E3, Qmin_lt_l, Qmax_lt_r by assumption.
    repeat split. rewrite orb_false_r. destruct (Qeq_bool (y - a) 0) eqn:E; [|reflexivity].
    apply Qeq_bool_iff in E. lra.
Qed.

Lemma map2_length' {A B C} (f : A -> B -> C) l1 : forall l2, length l1 = length l2 ->
  length (map2 f l1 l2) = length l1.
Proof. induction l1; intros [|b l2] H; simpl in *; try discriminate; [reflexivity | f_equal; apply IHl1; lia]. Qed.

Lemma map3_length' {A B C D} (f : A -> B -> C -> D) l1 : forall l2 l3,
  length l1 = length l2 -> length l1 = length l3 -> length (map3 f l1 l2 l3) = length l1.
Proof.
  induction l1; intros [|b l2] [|c l3] H1 H2; simpl in *; try discriminate; [reflexivity|].
  f_equal; apply IHl1; lia.
Qed.

Lemma set_nth_len {A} i (x : A) l : length (set_nth i x l) = length l.
Proof. revert i; induction l; intros [|i]; simpl; auto. Qed.

Lemma nodupb_true l : NoDup l -> nodupb l = true.
Proof.
  induction 1 as [|x l Hx _ IH]; simpl; [reflexivity|]. rewrite IH, andb_true_r.
  apply negb_true_iff. destruct (existsb (String.eqb x) l) eqn:E; [|reflexivity].
  apply existsb_exists in E. destruct E as (y & Hy & Exy). apply String.eqb_eq in Exy. subst. contradiction.
Qed.

(* ---------- the constructor path equals the assign-min/max path ---------- *)
Lemma finish_copy_minmax p1 p2 us r : wf_region r ->
  length p1 = ndim r -> length p2 = ndim r -> length us = ndim r ->
  finish_copy p1 p2 us r = finish_minmax p1 p2 us r.
Proof.
  intros (W1 & W2 & W3 & W4 & W5 & W6 & W7) L1 L2 L3. unfold ndim in *.
  unfold finish_copy, finish_minmax, mk_region.
  rewrite L1, L2, Nat.eqb_refl. simpl.
  destruct (length (pmin r) =? 0)%nat eqn:E0; [apply Nat.eqb_eq in E0; lia|].
  rewrite W3, Nat.eqb_refl. simpl. rewrite (nodupb_true (dims r) W5). simpl.
  rewrite L3, Nat.eqb_refl. simpl.
  fold (zero_edge (map2 Qmin p1 p2) (map2 Qmax p1 p2)). rewrite zero_edge_minmax. reflexivity.
Qed.

Lemma finish_direct_minmax p1 p2 us r : Forall2 (fun a b => a < b) p1 p2 ->
  finish_direct p1 p2 us r = finish_minmax p1 p2 us r.
Proof.
  intros H. destruct (lt_zero_edge _ _ H) as (E1 & E2 & E3). unfold finish_direct, finish_minmax.
  rewrite E1, E2, E3. reflexivity.
Qed.

(* ---------- what the validated arguments deliver ---------- *)
Lemma bind_ok {A B} (r : res A) (f : A -> res B) y : bind r f = OK y -> exists x, r = OK x /\ f x = OK y.
Proof. destruct r; simpl; [eauto | discriminate]. Qed.

Lemma parse_vec_len nd v w : parse_vec nd v = OK w -> length w = nd.
Proof.
  destruct v; simpl.
  - destruct (nd =? 1)%nat eqn:E; [|discriminate]. intros H; inversion H. apply Nat.eqb_eq in E. simpl. lia.
  - destruct (length l =? nd)%nat eqn:E; simpl; [|discriminate].
    destruct (forallb is_real l); simpl; [|discriminate]. intros H; inversion H.
    rewrite map_length. apply Nat.eqb_eq. exact E.
  - discriminate.
Qed.

Lemma parse_factor_len nd v w : parse_factor nd v = OK w -> length w = nd.
Proof.
  destruct v; simpl.
  - intros H; inversion H. apply repeat_length.
  - destruct (length l =? nd)%nat eqn:E; simpl; [|discriminate].
    destruct (forallb is_real l); simpl; [|discriminate]. intros H; inversion H.
    rewrite map_length. apply Nat.eqb_eq. exact E.
  - discriminate.
Qed.

Lemma parse_ref_scale_len nd c v w : length c = nd -> parse_ref_scale nd c v = OK w -> length w = nd.
Proof.
  intros Hc. destruct v; simpl.
  - intros H; inversion H; congruence.
  - destruct (nd =? 1)%nat eqn:E; [|discriminate]. intros H; inversion H. apply Nat.eqb_eq in E. simpl. lia.
  - destruct (length l =? nd)%nat eqn:E; simpl; [|discriminate].
    destruct (forallb is_real l); simpl; [|discriminate]. intros H; inversion H.
    rewrite map_length. apply Nat.eqb_eq. exact E.
  - discriminate.
Qed.

Lemma hswap_len {A} a b (d : A) l : length (hswap a b d l) = length l.
Proof. unfold hswap. rewrite !set_nth_len. reflexivity. Qed.

Lemma Forall2_len {A B} (P : A -> B -> Prop) l1 l2 : Forall2 P l1 l2 -> length l1 = length l2.
Proof. induction 1; simpl; congruence. Qed.

Lemma translate_lt lo : forall hi w, Forall2 (fun a b => a < b) lo hi -> length w = length lo ->
  Forall2 (fun a b => a < b) (map2 Qplus lo w) (map2 Qplus hi w).
Proof.
  induction lo as [|a lo IH]; intros hi w H L; inversion H; subst; destruct w; simpl in *; try discriminate.
  - constructor.
  - constructor; [lra | apply IH; [assumption | lia]].
Qed.

Lemma prep_lengths o r p1 p2 us : wf_region r -> prep o r = OK (p1, p2, us) ->
  length p1 = ndim r /\ length p2 = ndim r /\ length us = ndim r /\
  (match o with HTranslate _ => Forall2 (fun a b => a < b) p1 p2 | _ => True end).
Proof.
  intros (W1 & W2 & W3 & W4 & W5 & W6 & W7) H. unfold ndim in *. destruct o; simpl in H.
  - apply bind_ok in H. destruct H as (w & Hw & H). inversion H; subst. apply parse_vec_len in Hw.
    unfold ndim in Hw.
    rewrite !map2_length' by lia. repeat split; try lia. apply translate_lt; [exact W6 | lia].
  - apply bind_ok in H. destruct H as (fs & Hf & H). apply bind_ok in H. destruct H as (rf & Hr & H).
    inversion H; subst. apply parse_factor_len in Hf. apply parse_ref_scale_len in Hr.
    2:{ unfold center. rewrite map2_length'; unfold ndim; lia. }
    unfold ndim in *.
    assert (L1 : length (map3 hscale_lo rf (pmin r) fs) = length (pmin r)).
    { rewrite map3_length'; lia. }
    assert (LE : length (edges r) = length (pmin r)).
    { unfold edges, edges_of. rewrite map2_length'; lia. }
    assert (L2 : length (map3 hscale_hi (map3 hscale_lo rf (pmin r) fs) (edges r) fs) = length (pmin r)).
    { rewrite map3_length'; lia. }
    repeat split; try assumption.
  - destruct (String.eqb ax1 ax2); [discriminate|].
    apply bind_ok in H. destruct H as (kz & Hk & H). apply bind_ok in H. destruct H as (rf & Hr & H).
    apply bind_ok in H. destruct H as (a & Ha & H). apply bind_ok in H. destruct H as (b & Hb & H).
    destruct (nth a rf EBad); [|discriminate]. destruct (nth b rf EBad); [|discriminate].
    inversion H; subst. unfold hrot_pt. rewrite !set_nth_len.
    repeat split; try lia. destruct (Z.odd kz); [rewrite hswap_len|]; lia.
Qed.

(* ---------- one step ---------- *)
Theorem rstep_inplace_eq_copy o r : wf_region r -> rstep true o r = rstep false o r.
Proof.
  intros W. unfold rstep. destruct (prep o r) as [[[p1 p2] us]|e] eqn:E; simpl; [|reflexivity].
  destruct (prep_lengths o r p1 p2 us W E) as (L1 & L2 & L3 & LT).
  rewrite (finish_copy_minmax p1 p2 us r W L1 L2 L3).
  destruct o; try reflexivity. apply finish_direct_minmax. exact LT.
Qed.

Theorem rstep_inv ip o r r' : wf_region r -> rstep ip o r = OK r' -> wf_region r'.
Proof.
  intros W H. assert (H' : rstep true o r = OK r').
  { destruct ip; [exact H | rewrite rstep_inplace_eq_copy; assumption]. }
  clear H. unfold rstep in H'. destruct (prep o r) as [[[p1 p2] us]|e] eqn:E; simpl in H'; [|discriminate].
  destruct (prep_lengths o r p1 p2 us W E) as (L1 & L2 & L3 & LT).
  assert (HM : finish_minmax p1 p2 us r = OK r').
  { destruct o; try exact H'. rewrite <- finish_direct_minmax; assumption. }
  clear H'. unfold finish_minmax in HM. destruct (zero_edge p1 p2) eqn:Z; [discriminate|].
  inversion HM; subst; clear HM. destruct W as (W1 & W2 & W3 & W4 & W5 & W6 & W7). unfold ndim in *.
  unfold wf_region; simpl. rewrite !map2_length' by lia.
  repeat split; try lia; try assumption.
  apply zero_edge_false_lt; [lia | exact Z].
Qed.

(* dims, tolerance factor and dimension are never touched *)
Theorem rstep_keeps ip o r r' : wf_region r -> rstep ip o r = OK r' ->
  dims r' = dims r /\ tf r' = tf r /\ length (pmin r') = length (pmin r).
Proof.
  intros W H. assert (H' : rstep true o r = OK r').
  { destruct ip; [exact H | rewrite rstep_inplace_eq_copy; assumption]. }
  clear H. unfold rstep in H'. destruct (prep o r) as [[[p1 p2] us]|e] eqn:E; simpl in H'; [|discriminate].
  destruct (prep_lengths o r p1 p2 us W E) as (L1 & L2 & L3 & LT). unfold ndim in *.
  assert (HM : finish_minmax p1 p2 us r = OK r').
  { destruct o; try exact H'. rewrite <- finish_direct_minmax; assumption. }
  unfold finish_minmax in HM. destruct (zero_edge p1 p2); [discriminate|]. inversion HM; subst; simpl.
  rewrite map2_length' by lia. repeat split; lia.
Qed.

(* ---------- the documented maps ---------- *)
(* translation adds the vector *)
Theorem translate_adds ip w r : wf_region r -> length w = ndim r ->
  rstep ip (HTranslate (VSeq (map EReal w))) r =
  OK (mkRegion (map2 Qplus (pmin r) w) (map2 Qplus (pmax r) w) (dims r) (units r) (tf r)).
Proof.
  intros W L.   assert (E : rstep ip (HTranslate (VSeq (map EReal w))) r = rstep true (HTranslate (VSeq (map EReal w))) r).
  { destruct ip; [reflexivity | symmetry; apply rstep_inplace_eq_copy; exact W]. }
  rewrite E. unfold rstep, prep, parse_vec. rewrite map_length, L, Nat.eqb_refl. simpl.
  assert (R : forallb is_real (map EReal w) = true) by (clear; induction w; simpl; auto).
  rewrite R. simpl. assert (V : map eval (map EReal w) = w).
  { clear. induction w; simpl; [reflexivity | f_equal; assumption]. }
  rewrite V. unfold finish_direct.
  destruct W as (W1 & W2 & W3 & W4 & W5 & W6 & W7). unfold ndim in L.
  destruct (lt_zero_edge _ _ (translate_lt _ _ w W6 L)) as (Z & _ & _). rewrite Z. reflexivity.
Qed.

(* per axis, scaling is x -> R + s*(x - R) on both corners, re-ordered *)
Lemma scale_axis R s lo hi :
  hscale_lo R lo s == R + s * (lo - R) /\
  hscale_hi (hscale_lo R lo s) (hi - lo) s == R + s * (hi - R).
Proof. unfold hscale_lo, hscale_hi. split; ring. Qed.

(* a scaled edge vanishes exactly when the factor does *)
Lemma scale_edge_zero R s lo hi : lo < hi ->
  (hscale_hi (hscale_lo R lo s) (hi - lo) s - hscale_lo R lo s == 0 <-> s == 0).
Proof.
  intros H. unfold hscale_hi, hscale_lo. split; intros E.
  - assert (E' : (hi - lo) * s == 0) by lra. apply Qmult_integral in E'. destruct E' as [E'|E']; [lra | exact E'].
  - rewrite E. ring.
Qed.

(* the centre of a region is a fixed point of a quarter turn about it, so it does not matter
   whether Mesh.rotate90(inplace=True) reads its default reference point before or after *)
Lemma rot_fixed a b k ra rb (p : list Q) : nth a p 0 == ra -> nth b p 0 == rb ->
  forall j, nth j (hrot_pt a b k ra rb p) 0 == nth j p 0.
Proof.
  intros Ha Hb j. unfold hrot_pt.
  assert (C : forall jj i x (l : list Q), x == nth i l 0 -> nth jj (set_nth i x l) 0 == nth jj l 0).
  { clear. intros jj i x l. revert i jj. induction l as [|y l IH]; intros [|i] [|jj] H; simpl in *; try reflexivity; auto. }
  assert (N : nth b (set_nth a (ra + (fst (hrot_cs k) * (nth a p 0 - ra) - snd (hrot_cs k) * (nth b p 0 - rb))) p) 0 == nth b p 0).
  { apply C. rewrite Ha, Hb. ring. }
  rewrite C.
  - apply C. rewrite Ha, Hb. ring.
  - rewrite N, Ha, Hb. ring.
Qed.

(* ---------- histories on a region ---------- *)
Definition rrun (h : list (bool * hop)) (r : region) : region :=
  fold_left (fun r io => match rstep (fst io) (snd io) r with OK r' => r' | Err _ => r end) h r.

Lemma run_region h : forall r, run h (SRegion r) = SRegion (rrun h r).
Proof.
  induction h as [|io h IH]; intros r; simpl; [reflexivity|].
  unfold apply_step at 1. simpl. destruct (rstep (fst io) (snd io) r); simpl; apply IH.
Qed.

Theorem rrun_inv h : forall r, wf_region r -> wf_region (rrun h r).
Proof.
  induction h as [|io h IH]; intros r W; simpl; [exact W|].
  destruct (rstep (fst io) (snd io) r) eqn:E; apply IH; [eapply rstep_inv; eassumption | exact W].
Qed.

Theorem rrun_forms ops : forall f1 f2 r, wf_region r ->
  length f1 = length ops -> length f2 = length ops ->
  rrun (combine f1 ops) r = rrun (combine f2 ops) r.
Proof.
  induction ops as [|o ops IH]; intros [|b1 f1] [|b2 f2] r W L1 L2; simpl in *; try discriminate; try reflexivity.
  assert (E : rstep b1 o r = rstep b2 o r).
  { destruct b1, b2; try reflexivity; [| symmetry]; apply rstep_inplace_eq_copy; exact W. }
  rewrite E. destruct (rstep b2 o r) eqn:E2; apply IH; try lia; try exact W.
  eapply rstep_inv; eassumption.
Qed.

Theorem inv_reachable_region h r : wf_region r -> Inv (run h (SRegion r)).
Proof. intros W. rewrite run_region. simpl. apply rrun_inv. exact W. Qed.

Theorem forms_irrelevant_region ops f1 f2 r : wf_region r ->
  length f1 = length ops -> length f2 = length ops ->
  run (combine f1 ops) (SRegion r) = run (combine f2 ops) (SRegion r).
Proof. intros W L1 L2. rewrite !run_region. f_equal. apply rrun_forms; assumption. Qed.

Definition demo_region : region :=
  mkRegion [0; 0; 0] [4; 2; 1] ["x"%string; "y"%string; "z"%string] ["m"%string; "nm"%string; "s"%string]
           (1 # 1000000000000).

Lemma demo_wf : wf_region demo_region.
Proof.
  unfold wf_region, demo_region; simpl. repeat split; try lia; try lra.
  - repeat constructor; simpl; intuition discriminate.
  - repeat constructor; lra.
Qed.

(* negative factor in place: corners re-ordered; zero factor: refused by both forms; a history *)
Lemma demo_steps :
  wf_region demo_region /\
  (exists r', rstep true (HScale (VScalar (-(1))) (RSeq [EReal 0; EReal 0; EReal 0])) demo_region = OK r' /\
     qlist_eqb (pmin r') [-(4); -(2); -(1)] = true /\ qlist_eqb (pmax r') [0; 0; 0] = true) /\
  is_ok (rstep true (HScale (VScalar 0) RNone) demo_region) = false /\
  is_ok (rstep false (HScale (VScalar 0) RNone) demo_region) = false /\
  (exists r', rstep true (HRot "x" "y" (KInt 1) RNone) demo_region = OK r' /\
     units r' = ["nm"%string; "m"%string; "s"%string] /\
     qlist_eqb (pmin r') [1; -(1); 0] = true /\ qlist_eqb (pmax r') [3; 3; 1] = true).
Proof.
  split; [exact demo_wf|]. split; [eexists; split; [reflexivity|]; split; reflexivity|].
  split; [reflexivity|]. split; [reflexivity|].
  eexists; split; [reflexivity|]. split; [reflexivity|]. split; reflexivity.
Qed.
