(* C13, region level *)
From DF Require Import Prelude Constants_gen Region Mesh Subregions History QLemmas ListLemmas.
Open Scope Q_scope.

Lemma reject_unchanged s io : is_ok (step (fst io) (snd io) s) = false -> apply_step s io = s.
Proof. unfold apply_step. destruct (step (fst io) (snd io) s); simpl; [discriminate | reflexivity]. Qed.
