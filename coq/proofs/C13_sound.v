(* C13: soundness of check_C13 - an accepted case certifies, step by step, that acceptance and the
   OBSERVED state of both forms (in place, copying) are those of the model (equal coordinates until
   the first quarter turn, within c13_tol of the coordinate scale afterwards; names, units, n and
   array shapes always equal), so the C13 theorems apply to the observations themselves:
   the two observed forms agree, and every observed state satisfies the observable invariant. *)
From DF Require Import Prelude Constants_gen Region Mesh Subregions History QLemmas ListLemmas CheckSound
  Check_C13 C01_nd C01_sound C13_region C13_mesh C13_history.
Open Scope Q_scope.

Ltac split_andb :=
  repeat match goal with
         | H : _ && _ = true |- _ => apply andb_true_iff in H; destruct H
         end.

(* ---------- what a comparison that evaluated to true certifies ---------- *)
Definition ql_rel (exact : bool) (sc : Q) (a b : list Q) : Prop :=
  if exact then Forall2 Qeq a b else Forall2 (fun x y => Qabs (x - y) <= c13_tol * sc) a b.

Definition oreg_rel (exact : bool) (sc : Q) (a b : oreg) : Prop :=
  ql_rel exact sc (or_pmin a) (or_pmin b) /\ ql_rel exact sc (or_pmax a) (or_pmax b) /\
  or_dims a = or_dims b /\ or_units a = or_units b.

Definition ostate_rel (exact : bool) (sc : Q) (a b : ostate) : Prop :=
  oreg_rel exact sc (o_reg a) (o_reg b) /\ o_n a = o_n b /\
  Forall2 (fun x y => fst x = fst y /\ oreg_rel exact sc (snd x) (snd y)) (o_subs a) (o_subs b) /\
  o_ashape a = o_ashape b /\ o_vshape a = o_vshape b.

(* equal observables: coordinates equal as rationals, everything else identical *)
Definition ostate_eqv (a b : ostate) : Prop := ostate_rel true 0 a b.

Lemma ql_close_sound exact sc a b : ql_close exact sc a b = true -> ql_rel exact sc a b.
Proof.
  unfold ql_close, ql_rel. destruct exact.
  - apply qlist_eqb_sound_gen.
  - apply forallb2_Forall2_gen. intros x y. apply qclose_sound.
Qed.

Lemma oreg_close_sound exact sc a b : oreg_close exact sc a b = true -> oreg_rel exact sc a b.
Proof.
  unfold oreg_close, oreg_rel. intro H. split_andb.
  repeat split; try (apply ql_close_sound; assumption); apply strlist_eqb_sound_gen; assumption.
Qed.

Lemma ostate_close_sound exact sc a b : ostate_close exact sc a b = true -> ostate_rel exact sc a b.
Proof.
  unfold ostate_close, ostate_rel. intro H. split_andb.
  split; [apply oreg_close_sound; assumption|].
  split; [apply zlist_eqb_sound_gen; assumption|].
  split; [|split; apply zlist_eqb_sound_gen; assumption].
  match goal with Hs : forallb2 _ (o_subs a) (o_subs b) = true |- _ => revert Hs end.
  apply forallb2_Forall2_gen. intros x y Hxy. apply andb_true_iff in Hxy. destruct Hxy as [Hx1 Hx2].
  split; [apply String.eqb_eq; exact Hx1 | apply oreg_close_sound; exact Hx2].
Qed.

(* the exact relation does not depend on the scale *)
Lemma ostate_rel_exact_sc sc1 sc2 a b : ostate_rel true sc1 a b -> ostate_rel true sc2 a b.
Proof. intro H. exact H. Qed.

Definition outcome_rel (exact : bool) (sc0 : Q) (r : res hstate) (obs : option ostate) : Prop :=
  match r, obs with
  | Err _, None => True
  | OK s', Some ob => ostate_rel exact (Qmax sc0 (ostate_mag (observe s'))) (observe s') ob
  | _, _ => False
  end.

Lemma outcome_ok_sound exact sc0 r obs : outcome_ok exact sc0 r obs = true -> outcome_rel exact sc0 r obs.
Proof.
  unfold outcome_ok, outcome_rel. destruct r as [s'|e], obs as [ob|]; try discriminate; auto.
  apply ostate_close_sound.
Qed.

(* the state the checker carries from step to step *)
Definition napply (s : hstate) (io : bool * hop) : hstate :=
  match nstep (fst io) (snd io) s with OK s' => s' | Err _ => s end.

(* the specification check_steps decides *)
Fixpoint steps_rel (rot : bool) (s : hstate) (l : list c13_step) : Prop :=
  match l with
  | [] => True
  | (ip, o, obs_ip, obs_cp) :: t =>
      let rot' := rot || is_rot o in
      let sc0 := Qmax (ostate_mag (observe s)) (hop_mag o) in
      outcome_rel (negb rot') sc0 (nstep true o s) obs_ip /\
      outcome_rel (negb rot') sc0 (nstep false o s) obs_cp /\
      steps_rel (if is_ok (nstep ip o s) then rot' else rot) (napply s (ip, o)) t
  end.

Lemma check_steps_sound l : forall rot s, check_steps rot s l = true -> steps_rel rot s l.
Proof.
  induction l as [|[[[ip o] oi] oc] t IH]; intros rot s H; [exact I|].
  cbn [check_steps] in H. cbn [steps_rel]. cbv zeta in H |- *.
  apply andb_true_iff in H. destruct H as [H H3]. apply andb_true_iff in H. destruct H as [H1 H2].
  split; [apply outcome_ok_sound; exact H1|]. split; [apply outcome_ok_sound; exact H2|].
  unfold napply. cbn [fst snd]. destruct (nstep ip o s) as [s'|e]; cbn [is_ok]; apply IH; exact H3.
Qed.

Theorem check_C13_sound s0 obs0 steps :
  check_C13 (C13Case s0 obs0 steps) = true ->
  ostate_eqv (observe s0) obs0 /\ steps_rel false s0 steps.
Proof.
  cbn [check_C13]. intro H. apply andb_true_iff in H. destruct H as [H1 H2].
  split; [apply ostate_close_sound in H1; exact H1 | apply check_steps_sound; exact H2].
Qed.

(* ---------- the checker's normalisation (Qred between steps) is invisible ---------- *)
Lemma Forall2_Qeq_refl l : Forall2 Qeq l l.
Proof. induction l; constructor; [reflexivity | assumption]. Qed.

Lemma Forall2_Qeq_sym l1 l2 : Forall2 Qeq l1 l2 -> Forall2 Qeq l2 l1.
Proof. induction 1; constructor; [symmetry; assumption | assumption]. Qed.

Lemma Forall2_Qeq_trans l1 l2 : Forall2 Qeq l1 l2 -> forall l3, Forall2 Qeq l2 l3 -> Forall2 Qeq l1 l3.
Proof.
  induction 1 as [|x y l1 l2 Hxy _ IH]; intros l3 H3; inversion H3; subst; constructor.
  - etransitivity; eassumption.
  - apply IH. assumption.
Qed.

Lemma Forall2_Qred l : Forall2 Qeq l (map Qred l).
Proof. induction l; simpl; constructor; [symmetry; apply Qred_correct | assumption]. Qed.

Lemma nth_map_Qred l a : nth a (map Qred l) 0 == nth a l 0.
Proof.
  revert a. induction l as [|x l IH]; intros [|a]; simpl; try reflexivity; [apply Qred_correct | apply IH].
Qed.

Lemma oreg_eqv_sym sc a b : oreg_rel true sc a b -> oreg_rel true sc b a.
Proof.
  intros (H1 & H2 & H3 & H4). repeat split; try (apply Forall2_Qeq_sym; assumption); symmetry; assumption.
Qed.

Lemma oreg_eqv_trans sc a b c : oreg_rel true sc a b -> oreg_rel true sc b c -> oreg_rel true sc a c.
Proof.
  intros (H1 & H2 & H3 & H4) (K1 & K2 & K3 & K4).
  repeat split; try (eapply Forall2_Qeq_trans; eassumption); etransitivity; eassumption.
Qed.

Lemma ostate_eqv_sym a b : ostate_eqv a b -> ostate_eqv b a.
Proof.
  intros (H1 & H2 & H3 & H4 & H5). unfold ostate_eqv, ostate_rel.
  split; [apply oreg_eqv_sym; assumption|]. split; [symmetry; assumption|].
  split; [|split; symmetry; assumption].
  induction H3 as [|x y l1 l2 [Hn Hr] _ IH]; constructor; [|exact IH].
  split; [symmetry; exact Hn | apply oreg_eqv_sym; exact Hr].
Qed.

Lemma ostate_eqv_trans a b c : ostate_eqv a b -> ostate_eqv b c -> ostate_eqv a c.
Proof.
  intros (H1 & H2 & H3 & H4 & H5) (K1 & K2 & K3 & K4 & K5). unfold ostate_eqv, ostate_rel.
  split; [eapply oreg_eqv_trans; eassumption|]. split; [etransitivity; eassumption|].
  split; [|split; etransitivity; eassumption].
  clear - H3 K3. revert K3. generalize (o_subs c). induction H3 as [|x y l1 l2 [Hn Hr] _ IH]; intros l3 K3;
    inversion K3 as [|y' z l2' l3' [Kn Kr] K3']; subst; constructor; [|apply IH; assumption].
  split; [etransitivity; eassumption | eapply oreg_eqv_trans; eassumption].
Qed.

Lemma obs_region_norm sc r : oreg_rel true sc (obs_region r) (obs_region (norm_region r)).
Proof. unfold oreg_rel, obs_region, norm_region; simpl. repeat split; apply Forall2_Qred. Qed.

Lemma observe_norm s : ostate_eqv (observe s) (observe (norm_state s)).
Proof.
  assert (M : forall m sa sv, ostate_eqv (obs_mesh m sa sv) (obs_mesh (norm_mesh m) sa sv)).
  { intros m sa sv. unfold ostate_eqv, ostate_rel, obs_mesh; simpl.
    split; [apply obs_region_norm|]. split; [reflexivity|]. split; [|split; reflexivity].
    induction (subs m) as [|x l IH]; simpl; constructor; [|exact IH].
    simpl. split; [reflexivity | apply obs_region_norm]. }
  destruct s as [r|m|f]; simpl.
  - unfold ostate_eqv, ostate_rel; simpl. split; [apply obs_region_norm|]. repeat split; constructor.
  - apply M.
  - apply M.
Qed.

(* exact regime, stated against the model's own step function: acceptance agrees and the observed
   state equals the model's *)
Definition outcome_eqv (r : res hstate) (obs : option ostate) : Prop :=
  match r, obs with
  | Err _, None => True
  | OK s', Some ob => ostate_eqv (observe s') ob
  | _, _ => False
  end.

Lemma outcome_rel_exact_step sc0 ip o s obs :
  outcome_rel true sc0 (nstep ip o s) obs -> outcome_eqv (step ip o s) obs.
Proof.
  unfold nstep, outcome_rel, outcome_eqv. destruct (step ip o s) as [s'|e], obs as [ob|]; auto.
  intro H. eapply ostate_eqv_trans; [apply observe_norm | exact H].
Qed.

(* the first step of an accepted case, when it is not a quarter turn: both forms accept or refuse as
   the model does, and both observed states are the model's result *)
Theorem check_C13_first_step_sound s0 obs0 ip o oi oc t :
  check_C13 (C13Case s0 obs0 ((ip, o, oi, oc) :: t)) = true -> is_rot o = false ->
  ostate_eqv (observe s0) obs0 /\ outcome_eqv (step true o s0) oi /\ outcome_eqv (step false o s0) oc.
Proof.
  intros H Hr. apply check_C13_sound in H. destruct H as [H0 H]. cbn [steps_rel] in H. cbv zeta in H.
  rewrite Hr in H. cbn [orb negb] in H. destruct H as (H1 & H2 & _).
  split; [exact H0|]. split; eapply outcome_rel_exact_step; eassumption.
Qed.

(* ---------- the invariant survives the normalisation, hence holds along the checker's trajectory ---------- *)
Lemma Forall2_Qlt_Qred l1 l2 : Forall2 (fun a b => a < b) l1 l2 -> Forall2 (fun a b => a < b) (map Qred l1) (map Qred l2).
Proof. induction 1; simpl; constructor; [rewrite !Qred_correct; assumption | assumption]. Qed.

Lemma norm_region_wf r : wf_region r -> wf_region (norm_region r).
Proof.
  intros (H1 & H2 & H3 & H4 & H5 & H6 & H7). unfold wf_region, norm_region; simpl. rewrite !map_length.
  repeat split; try assumption. apply Forall2_Qlt_Qred. assumption.
Qed.

Lemma norm_mesh_wf m : wf_mesh m -> wf_mesh (norm_mesh m).
Proof.
  intros (H1 & H2 & H3). unfold wf_mesh, norm_mesh; simpl. rewrite map_length.
  split; [apply norm_region_wf; assumption|]. split; assumption.
Qed.

Lemma norm_cell m a : wf_mesh m -> (a < length (pmin (reg m)))%nat ->
  nth a (cell (norm_mesh m)) 0 == nth a (cell m) 0.
Proof.
  intros W A. rewrite (cell_nth m W a A).
  assert (A' : (a < length (pmin (reg (norm_mesh m))))%nat) by (simpl; rewrite map_length; exact A).
  rewrite (cell_nth (norm_mesh m) (norm_mesh_wf m W) a A'). simpl. unfold cell_of.
  rewrite !nth_map_Qred. reflexivity.
Qed.

Lemma norm_sub_inv m s : wf_mesh m -> inv_sub m s -> inv_sub (norm_mesh m) (norm_region s).
Proof.
  intros W (H1 & H2 & H3 & H4 & H5 & H6). unfold inv_sub.
  split; [apply norm_region_wf; assumption|]. simpl. rewrite !map_length.
  repeat split; try assumption.
  intros a A. destruct (H6 a A) as (j1 & j2 & J & E1 & E2). exists j1, j2.
  split; [exact J|]. simpl. rewrite !nth_map_Qred, (norm_cell m a W A). split; assumption.
Qed.

Lemma norm_mesh_inv m : inv_mesh m -> inv_mesh (norm_mesh m).
Proof.
  intros (W & F). split; [apply norm_mesh_wf; exact W|].
  simpl. induction F as [|x l Hx _ IH]; simpl; constructor; [|exact IH].
  simpl. apply norm_sub_inv; assumption.
Qed.

Theorem norm_state_inv s : Inv s -> Inv (norm_state s).
Proof.
  destruct s as [r|m|f]; simpl.
  - apply norm_region_wf.
  - apply norm_mesh_inv.
  - intros (I & Ha & Hv & Hn & Hr). unfold inv_field; simpl.
    split; [apply norm_mesh_inv; exact I|]. repeat split; assumption.
Qed.

Lemma nstep_inv ip o s s' : Inv s -> nstep ip o s = OK s' -> Inv s'.
Proof.
  unfold nstep. intros I H. destruct (step ip o s) as [s1|e] eqn:E; [|discriminate].
  inversion H; subst. apply norm_state_inv. eapply step_inv; eassumption.
Qed.

Lemma nstep_forms o s : Inv s -> nstep false o s = nstep true o s.
Proof. intro I. unfold nstep. rewrite (step_forms o s I). reflexivity. Qed.

Theorem napply_inv s io : Inv s -> Inv (napply s io).
Proof.
  intro I. unfold napply. destruct (nstep (fst io) (snd io) s) as [s'|e] eqn:E; [|exact I].
  eapply nstep_inv; eassumption.
Qed.

(* ---------- statements about the observations only ---------- *)
(* P holds for the pair of observed outcomes of every recorded step; the regime flag is recomputed from
   the record itself (a quarter turn counts once the form that continues the history accepted it) *)
Fixpoint obs_all (P : bool -> option ostate -> option ostate -> Prop) (rot : bool) (l : list c13_step) : Prop :=
  match l with
  | [] => True
  | (ip, o, oi, oc) :: t =>
      let rot' := rot || is_rot o in
      P (negb rot') oi oc /\
      obs_all P (match (if ip then oi else oc) with Some _ => rot' | None => rot end) t
  end.

Lemma obs_all_intro (P : bool -> option ostate -> option ostate -> Prop) :
  (forall e sc s' a b, Inv s' -> ostate_rel e sc (observe s') a -> ostate_rel e sc (observe s') b ->
     P e (Some a) (Some b)) ->
  (forall e, P e None None) ->
  forall l rot s, Inv s -> steps_rel rot s l -> obs_all P rot l.
Proof.
  intros PS PN. induction l as [|[[[ip o] oi] oc] t IH]; intros rot s I H; [exact Logic.I|].
  cbn [steps_rel] in H. cbn [obs_all]. cbv zeta in H |- *. destruct H as (H1 & H2 & H3).
  rewrite (nstep_forms o s I) in H2.
  assert (E : nstep ip o s = nstep true o s) by (destruct ip; [reflexivity | apply nstep_forms; exact I]).
  unfold napply in H3. cbn [fst snd] in H3. rewrite E in H3.
  destruct (nstep true o s) as [s'|e] eqn:Es; unfold outcome_rel in H1, H2.
  - destruct oi as [a|]; [|contradiction]. destruct oc as [b|]; [|contradiction].
    assert (I' : Inv s') by (eapply nstep_inv; eassumption).
    split; [eapply PS; eassumption|]. cbn [is_ok] in H3.
    destruct ip; eapply IH; eassumption.
  - destruct oi as [a|]; [contradiction|]. destruct oc as [b|]; [contradiction|].
    split; [apply PN|]. cbn [is_ok] in H3. destruct ip; eapply IH; eassumption.
Qed.

(* everything but the coordinates *)
Definition oreg_discrete (a b : oreg) : Prop :=
  length (or_pmin a) = length (or_pmin b) /\ length (or_pmax a) = length (or_pmax b) /\
  or_dims a = or_dims b /\ or_units a = or_units b.
Definition ostate_discrete (a b : ostate) : Prop :=
  oreg_discrete (o_reg a) (o_reg b) /\ o_n a = o_n b /\
  Forall2 (fun x y => fst x = fst y /\ oreg_discrete (snd x) (snd y)) (o_subs a) (o_subs b) /\
  o_ashape a = o_ashape b /\ o_vshape a = o_vshape b.

Lemma ql_rel_length e sc a b : ql_rel e sc a b -> length a = length b.
Proof. unfold ql_rel. destruct e; apply Forall2_length_gen. Qed.

Lemma oreg_rel_discrete e sc m a b : oreg_rel e sc m a -> oreg_rel e sc m b -> oreg_discrete a b.
Proof.
  intros (H1 & H2 & H3 & H4) (K1 & K2 & K3 & K4). apply ql_rel_length in H1, H2, K1, K2.
  repeat split; congruence.
Qed.

Lemma ostate_rel_discrete e sc m a b : ostate_rel e sc m a -> ostate_rel e sc m b -> ostate_discrete a b.
Proof.
  intros (H1 & H2 & H3 & H4 & H5) (K1 & K2 & K3 & K4 & K5). unfold ostate_discrete.
  split; [eapply oreg_rel_discrete; eassumption|]. split; [congruence|]. split; [|split; congruence].
  clear - H3 K3. revert K3. generalize (o_subs b).
  induction H3 as [|x y l1 l2 [Hn Hr] _ IH]; intros l3 K3;
    inversion K3 as [|x' z l1' l3' [Kn Kr] K3']; subst; constructor; [|apply IH; assumption].
  split; [congruence | eapply oreg_rel_discrete; eassumption].
Qed.

(* the two observed forms of one step: both refused, or both accepted with equal observables (exact
   regime) / equal names, units, n, shapes and lengths (after a quarter turn) *)
Definition forms_agree (exact : bool) (oi oc : option ostate) : Prop :=
  match oi, oc with
  | None, None => True
  | Some a, Some b => if exact then ostate_eqv a b else ostate_discrete a b
  | _, _ => False
  end.

(* TRANSFER of C13_inplace_eq_copy_any_root: on an accepted history that starts from a state satisfying
   the invariant, what the implementation's in-place form left behind and what its copying form
   returned agree at every step *)
Theorem accepted_forms_agree s0 obs0 steps :
  check_C13 (C13Case s0 obs0 steps) = true -> Inv s0 -> obs_all forms_agree false steps.
Proof.
  intros H I. apply check_C13_sound in H. destruct H as [_ H].
  eapply (obs_all_intro forms_agree); [| |exact I|exact H].
  - intros e sc s' a b _ Ha Hb. unfold forms_agree. destruct e.
    + eapply ostate_eqv_trans; [apply ostate_eqv_sym; exact Ha | exact Hb].
    + eapply ostate_rel_discrete; eassumption.
  - intros e. exact Logic.I.
Qed.

(* the observable part of the invariant *)
Definition root_reg (s : hstate) : region :=
  match s with SRegion r => r | SMesh m => reg m | SField f => reg (fmesh f) end.
Definition root_n (s : hstate) : list Z :=
  match s with SRegion _ => [] | SMesh m => n m | SField f => n (fmesh f) end.

Definition obs_wf (exact : bool) (ob : ostate) : Prop :=
  NoDup (or_dims (o_reg ob)) /\
  (0 < length (or_pmin (o_reg ob)))%nat /\
  length (or_pmax (o_reg ob)) = length (or_pmin (o_reg ob)) /\
  length (or_dims (o_reg ob)) = length (or_pmin (o_reg ob)) /\
  length (or_units (o_reg ob)) = length (or_pmin (o_reg ob)) /\
  Forall (fun k => 0 < k)%Z (o_n ob) /\
  (exact = true -> Forall2 (fun a b => a < b) (or_pmin (o_reg ob)) (or_pmax (o_reg ob))).

Lemma Inv_root s : Inv s -> wf_region (root_reg s) /\ Forall (fun k => 0 < k)%Z (root_n s).
Proof.
  destruct s as [r|m|f]; simpl.
  - intro W. split; [exact W | constructor].
  - intros ((W & _ & F) & _). split; assumption.
  - intros (((W & _ & F) & _) & _). split; assumption.
Qed.

Lemma observe_root s : o_reg (observe s) = obs_region (root_reg s) /\ o_n (observe s) = root_n s.
Proof. destruct s; simpl; split; reflexivity. Qed.

Lemma Forall2_Qlt_eqv l1 l2 : Forall2 (fun a b => a < b) l1 l2 ->
  forall m1 m2, Forall2 Qeq l1 m1 -> Forall2 Qeq l2 m2 -> Forall2 (fun a b => a < b) m1 m2.
Proof.
  induction 1 as [|x y l1 l2 Hxy _ IH]; intros m1 m2 E1 E2; inversion E1; inversion E2; subst; constructor.
  - match goal with A : x == _, B : y == _ |- _ => rewrite <- A, <- B end. exact Hxy.
  - apply IH; assumption.
Qed.

Lemma obs_wf_of_rel e sc s ob : Inv s -> ostate_rel e sc (observe s) ob -> obs_wf e ob.
Proof.
  intros I ((R1 & R2 & R3 & R4) & RN & _). apply Inv_root in I. destruct I as [W F].
  destruct (observe_root s) as [Eo En]. rewrite Eo in R1, R2, R3, R4. rewrite En in RN.
  unfold obs_region in R1, R2, R3, R4; simpl in R1, R2, R3, R4.
  destruct W as (W1 & W2 & W3 & W4 & W5 & W6 & W7).
  pose proof (ql_rel_length _ _ _ _ R1) as L1. pose proof (ql_rel_length _ _ _ _ R2) as L2.
  unfold obs_wf. rewrite <- R3, <- R4, <- RN, <- L1, <- L2.
  repeat split; try assumption; try lia.
  intros ->. unfold ql_rel in R1, R2. eapply Forall2_Qlt_eqv; eassumption.
Qed.

Definition opt_wf (exact : bool) (o : option ostate) : Prop :=
  match o with Some ob => obs_wf exact ob | None => True end.
Definition both_wf (exact : bool) (oi oc : option ostate) : Prop := opt_wf exact oi /\ opt_wf exact oc.

(* TRANSFER of C13_inv_reachable: every state the implementation was observed to produce along an
   accepted history (either form) has unique dims, consistent lengths, positive n and - until the
   first quarter turn, where coordinates are compared exactly - pmin < pmax on every axis *)
Theorem accepted_obs_invariant s0 obs0 steps :
  check_C13 (C13Case s0 obs0 steps) = true -> Inv s0 ->
  obs_wf true obs0 /\ obs_all both_wf false steps.
Proof.
  intros H I. apply check_C13_sound in H. destruct H as [H0 H]. split.
  - eapply obs_wf_of_rel; [exact I | exact H0].
  - eapply (obs_all_intro both_wf); [| |exact I|exact H].
    + intros e sc s' a b I' Ha Hb. split; simpl; eapply obs_wf_of_rel; eassumption.
    + intros e. split; exact Logic.I.
Qed.

(* ---------- the invariant of the initial state is decidable by computation ----------
   check_C13 takes the model's initial state from the record; [invb] decides the hypothesis Inv s0 of the
   transfer theorems, so that for a concrete record both hypotheses are closed by vm_compute *)
Definition q_leibniz_eqb (a b : Q) : bool := Z.eqb (Qnum a) (Qnum b) && Pos.eqb (Qden a) (Qden b).

Lemma q_leibniz_eqb_sound a b : q_leibniz_eqb a b = true -> a = b.
Proof.
  destruct a as [an ad], b as [bn bd]. unfold q_leibniz_eqb; simpl. intro H.
  apply andb_true_iff in H. destruct H as [H1 H2]. apply Z.eqb_eq in H1. apply Pos.eqb_eq in H2. subst. reflexivity.
Qed.

Definition wf_regionb (r : region) : bool :=
  (length (pmin r) =? length (pmax r))%nat && (0 <? length (pmin r))%nat &&
  (length (dims r) =? length (pmin r))%nat && (length (units r) =? length (pmin r))%nat &&
  nodupb (dims r) && forallb2 (fun a b => negb (Qle_bool b a)) (pmin r) (pmax r) && Qle_bool 0 (tf r).

Lemma wf_regionb_sound r : wf_regionb r = true -> wf_region r.
Proof.
  unfold wf_regionb, wf_region. intro H. split_andb.
  repeat match goal with
         | Hn : (_ =? _)%nat = true |- _ => apply Nat.eqb_eq in Hn
         | Hn : (_ <? _)%nat = true |- _ => apply Nat.ltb_lt in Hn
         end.
  repeat split; try assumption.
  - apply nodupb_sound. assumption.
  - match goal with Hf : forallb2 _ _ _ = true |- _ => revert Hf end.
    apply forallb2_Forall2_gen. intros x y Hxy. apply negb_true_iff in Hxy.
    apply Qnot_le_lt. intro Hle. apply Qle_bool_iff in Hle. congruence.
  - apply Qle_bool_iff. assumption.
Qed.

Definition wf_meshb (m : mesh) : bool :=
  wf_regionb (reg m) && (length (n m) =? length (pmin (reg m)))%nat && forallb (fun k => (0 <? k)%Z) (n m).

Lemma wf_meshb_sound m : wf_meshb m = true -> wf_mesh m.
Proof.
  unfold wf_meshb, wf_mesh. intro H. split_andb.
  split; [apply wf_regionb_sound; assumption|]. split; [apply Nat.eqb_eq; assumption|].
  apply Forall_forall. intros k Hk.
  match goal with Hf : forallb _ _ = true |- _ => rewrite forallb_forall in Hf; apply Z.ltb_lt; apply Hf; exact Hk end.
Qed.

Definition on_cellsb (m : mesh) (s : region) (a : nat) : bool :=
  let c := nth a (cell m) 0 in
  let lo := nth a (pmin (reg m)) 0 in
  let j1 := Qfloor ((nth a (pmin s) 0 - lo) / c) in
  let j2 := Qfloor ((nth a (pmax s) 0 - lo) / c) in
  (0 <=? j1)%Z && (j1 <? j2)%Z && (j2 <=? nth a (n m) 1)%Z &&
  Qeq_bool (nth a (pmin s) 0) (lo + inject_Z j1 * c) && Qeq_bool (nth a (pmax s) 0) (lo + inject_Z j2 * c).

Lemma on_cellsb_sound m s a : on_cellsb m s a = true -> on_cells m s a.
Proof.
  unfold on_cellsb, on_cells. cbv zeta. intro H. split_andb.
  eexists. eexists. split; [|split; apply Qeq_bool_eq; eassumption].
  repeat match goal with
         | Hz : (_ <=? _)%Z = true |- _ => apply Z.leb_le in Hz
         | Hz : (_ <? _)%Z = true |- _ => apply Z.ltb_lt in Hz
         end.
  repeat split; assumption.
Qed.

Lemma In_iota k m x : In x (iota k m) <-> (k <= x < k + m)%nat.
Proof. revert k. induction m as [|m IH]; intros k; simpl; [lia|]. rewrite IH. lia. Qed.

Definition inv_subb (m : mesh) (s : region) : bool :=
  wf_regionb s && (length (pmin s) =? length (pmin (reg m)))%nat &&
  strlist_eqb (dims s) (dims (reg m)) && strlist_eqb (units s) (units (reg m)) &&
  q_leibniz_eqb (tf s) (tf (reg m)) &&
  forallb (on_cellsb m s) (iota 0 (length (pmin (reg m)))).

Lemma inv_subb_sound m s : inv_subb m s = true -> inv_sub m s.
Proof.
  unfold inv_subb, inv_sub. intro H. split_andb.
  split; [apply wf_regionb_sound; assumption|]. split; [apply Nat.eqb_eq; assumption|].
  split; [apply strlist_eqb_sound_gen; assumption|]. split; [apply strlist_eqb_sound_gen; assumption|].
  split; [apply q_leibniz_eqb_sound; assumption|].
  intros a A. apply on_cellsb_sound.
  match goal with Hf : forallb _ _ = true |- _ => rewrite forallb_forall in Hf; apply Hf end.
  apply In_iota. lia.
Qed.

Definition inv_meshb (m : mesh) : bool := wf_meshb m && forallb (fun nr => inv_subb m (snd nr)) (subs m).

Lemma inv_meshb_sound m : inv_meshb m = true -> inv_mesh m.
Proof.
  unfold inv_meshb, inv_mesh. intro H. apply andb_true_iff in H. destruct H as [H1 H2].
  split; [apply wf_meshb_sound; exact H1|]. apply Forall_forall. intros nr Hn.
  rewrite forallb_forall in H2. apply inv_subb_sound. apply H2. exact Hn.
Qed.

Definition inv_fieldb (f : fstate) : bool :=
  inv_meshb (fmesh f) && zlist_eqb (fashape f) (n (fmesh f) ++ [fnvdim f]) &&
  zlist_eqb (fvshape f) (n (fmesh f)) && (0 <? fnvdim f)%Z &&
  (length (frmap f) =? length (dims (reg (fmesh f))))%nat.

Lemma inv_fieldb_sound f : inv_fieldb f = true -> inv_field f.
Proof.
  unfold inv_fieldb, inv_field. intro H. split_andb.
  split; [apply inv_meshb_sound; assumption|]. split; [apply zlist_eqb_sound_gen; assumption|].
  split; [apply zlist_eqb_sound_gen; assumption|]. split; [apply Z.ltb_lt; assumption | apply Nat.eqb_eq; assumption].
Qed.

Definition invb (s : hstate) : bool :=
  match s with SRegion r => wf_regionb r | SMesh m => inv_meshb m | SField f => inv_fieldb f end.

Theorem invb_sound s : invb s = true -> Inv s.
Proof.
  destruct s; simpl; [apply wf_regionb_sound | apply inv_meshb_sound | apply inv_fieldb_sound].
Qed.

(* the two transfer theorems with hypotheses that are both closed by evaluation *)
Theorem accepted_forms_agree_dec s0 obs0 steps :
  check_C13 (C13Case s0 obs0 steps) = true -> invb s0 = true -> obs_all forms_agree false steps.
Proof. intros H I. apply invb_sound in I. eapply accepted_forms_agree; eassumption. Qed.

Theorem accepted_obs_invariant_dec s0 obs0 steps :
  check_C13 (C13Case s0 obs0 steps) = true -> invb s0 = true ->
  obs_wf true obs0 /\ obs_all both_wf false steps.
Proof. intros H I. apply invb_sound in I. eapply accepted_obs_invariant; eassumption. Qed.

(* ---------- non-vacuity: a concrete accepted history on the 4x2x1 demo mesh with two subregions ----------
   translate (exact regime, both forms), a zero factor (refused by both forms), an odd quarter turn in
   place (tolerance regime: the in-place observation is off by 1e-12 in one coordinate) *)
Definition demo_or (lo hi : list Q) (us : list string) : oreg :=
  mkOR lo hi ["x"%string; "y"%string; "z"%string] us.
Definition demo_us : list string := ["m"%string; "nm"%string; "s"%string].
Definition demo_us' : list string := ["nm"%string; "m"%string; "s"%string].
Definition demo_obs0 : ostate :=
  mkO (demo_or [0; 0; 0] [4; 2; 1] demo_us) [4; 2; 1]%Z
      [("a"%string, demo_or [0; 0; 0] [2; 2; 1] demo_us); ("b"%string, demo_or [2; 1; 0] [4; 2; 1] demo_us)] [] [].
Definition demo_obs1 : ostate :=
  mkO (demo_or [1 # 2; 0; -(2)] [9 # 2; 2; -(1)] demo_us) [4; 2; 1]%Z
      [("a"%string, demo_or [1 # 2; 0; -(2)] [5 # 2; 2; -(1)] demo_us);
       ("b"%string, demo_or [5 # 2; 1; -(2)] [9 # 2; 2; -(1)] demo_us)] [] [].
Definition demo_obs3 (x : Q) : ostate :=
  mkO (demo_or [x; -(1); -(2)] [7 # 2; 3; -(1)] demo_us') [2; 4; 1]%Z
      [("a"%string, demo_or [3 # 2; -(1); -(2)] [7 # 2; 1; -(1)] demo_us');
       ("b"%string, demo_or [3 # 2; 1; -(2)] [5 # 2; 3; -(1)] demo_us')] [] [].
Definition demo_case : c13_case :=
  C13Case (SMesh demo_mesh) demo_obs0
    [ (true, HTranslate (VSeq [EReal (1 # 2); EReal 0; EReal (-(2))]), Some demo_obs1, Some demo_obs1);
      (false, HScale (VScalar 0) RNone, None, None);
      (true, HRot "x" "y" (KInt 1) RNone,
         Some (demo_obs3 (1500000000001 # 1000000000000)), Some (demo_obs3 (3 # 2))) ].

Example accepted_instance : check_C13 demo_case = true.
Proof. vm_compute. reflexivity. Qed.

(* the hypotheses of both transfer theorems hold for it *)
Example accepted_instance_transfers :
  Inv (SMesh demo_mesh) /\
  obs_all forms_agree false
    [ (true, HTranslate (VSeq [EReal (1 # 2); EReal 0; EReal (-(2))]), Some demo_obs1, Some demo_obs1);
      (false, HScale (VScalar 0) RNone, None, None);
      (true, HRot "x" "y" (KInt 1) RNone,
         Some (demo_obs3 (1500000000001 # 1000000000000)), Some (demo_obs3 (3 # 2))) ].
Proof.
  split; [exact demo_mesh_inv|].
  exact (accepted_forms_agree _ _ _ accepted_instance demo_mesh_inv).
Qed.

(* the checker does discriminate: the same record with the copying form of the translation off by one
   in one corner is not accepted *)
Example rejected_instance :
  check_C13 (C13Case (SMesh demo_mesh) demo_obs0
    [ (true, HTranslate (VSeq [EReal (1 # 2); EReal 0; EReal (-(2))]), Some demo_obs1,
       Some (mkO (demo_or [3 # 2; 0; -(2)] [9 # 2; 2; -(1)] demo_us) [4; 2; 1]%Z (o_subs demo_obs1) [] [])) ]) = false.
Proof. vm_compute. reflexivity. Qed.

Example invb_instance : invb (SMesh demo_mesh) = true /\ invb (SField demo_field) = true /\ invb (SRegion demo_region) = true.
Proof. vm_compute. repeat split; reflexivity. Qed.
