(* C14, one coordinate axis: a subregion that consists of the cells j1 .. j2-1 of the mesh
   axis [lo, hi] with k cells ("exact invariant") passes every test of the setter, keeps that
   form under the affine maps behind translate / scale / rotate90, is clipped by a range
   selection to whole cells (or dropped), and is extracted with the parent's cell. *)
From DF Require Import Prelude Constants_gen Region Mesh Subregions QLemmas ListLemmas C01_axis C14_lattice.
Open Scope Q_scope.

Definition ax_inv (lo hi : Q) (k : Z) (slo shi : Q) : Prop :=
  exists j1 j2 : Z, (0 <= j1 /\ j1 < j2 /\ j2 <= k)%Z /\
    slo == lo + inject_Z j1 * ((hi - lo) / inject_Z k) /\
    shi == lo + inject_Z j2 * ((hi - lo) / inject_Z k).

Lemma ax_inv_eq lo hi k slo shi lo' hi' slo' shi' :
  lo == lo' -> hi == hi' -> slo == slo' -> shi == shi' ->
  ax_inv lo hi k slo shi -> ax_inv lo' hi' k slo' shi'.
Proof.
  intros A B C D [j1 [j2 [H [E1 E2]]]]. exists j1, j2. split; [exact H|].
  rewrite <- A, <- B, <- C, <- D. split; assumption.
Qed.

Lemma round_int x (z : Z) : x == inject_Z z -> Qround_half_even x = z.
Proof.
  intro E. unfold Qround_half_even.
  assert (F : Qfloor x = z) by (rewrite E; apply Qfloor_Z).
  rewrite F.
  assert (C : Qcompare (x - inject_Z z) (1 # 2) = Lt).
  { rewrite E. assert (Z0 : inject_Z z - inject_Z z == 0) by ring. rewrite Z0. reflexivity. }
  rewrite C. reflexivity.
Qed.

Section Axis.
Variables (lo hi : Q) (k : Z).
Hypothesis Hlh : lo < hi.
Hypothesis Hk : (0 < k)%Z.
Let c := (hi - lo) / inject_Z k.

Lemma c_pos : 0 < c.
Proof. exact (cell_pos lo hi k Hlh Hk). Qed.

Lemma kc : inject_Z k * c == hi - lo.
Proof. exact (cell_times_n lo hi k Hk). Qed.

Lemma zmul_le (a b : Z) : (a <= b)%Z -> inject_Z a * c <= inject_Z b * c.
Proof. intro H. apply Qmult_le_compat_r; [rewrite <- Zle_Qle; exact H | pose proof c_pos; lra]. Qed.

Lemma zmul_lt (a b : Z) : (a < b)%Z -> inject_Z a * c < inject_Z b * c.
Proof. intro H. apply Qmult_lt_compat_r; [exact c_pos | rewrite <- Zlt_Qlt; exact H]. Qed.

Variables (slo shi : Q).
Hypothesis Hinv : ax_inv lo hi k slo shi.

Lemma inv_order : lo <= slo /\ slo < shi /\ shi <= hi /\ c <= shi - slo.
Proof.
  destruct Hinv as [j1 [j2 [[A [B C]] [E1 E2]]]]. fold c in E1, E2.
  pose proof (zmul_le 0 j1 A) as P1. pose proof (zmul_lt j1 j2 B) as P2.
  pose proof (zmul_le j2 k C) as P3. pose proof (zmul_le (j1 + 1) j2 ltac:(lia)) as P4.
  rewrite inject_Z_plus in P4. change (inject_Z 1) with 1 in P4.
  change (inject_Z 0) with 0 in P1. pose proof kc. lra.
Qed.

(* --- the setter's three tests, the count and the cell of the extracted mesh --- *)
Theorem exact_accepted (rtol atol tolc tol : Q) :
  0 <= rtol -> 0 <= atol -> 0 <= tolc -> 0 <= tol ->
  (* value in region *)
  contains1 rtol atol lo hi slo = true /\ contains1 rtol atol lo hi shi = true /\
  (* Mesh(region=value, cell=cell): the cell fits, whole number of cells, that number *)
  contains1 rtol atol slo shi (slo + c) = true /\
  bad_rem tolc c (shi - slo) = false /\
  (exists j : Z, (0 < j <= k)%Z /\ Qround_half_even ((shi - slo) / c) = j /\ (shi - slo) / inject_Z j == c) /\
  (* is_aligned: both corner differences on the lattice *)
  off_lattice tol c (lo - slo) = false /\ off_lattice tol c (hi - shi) = false.
Proof.
  intros Hr Ha Htc Ht. destruct inv_order as [O1 [O2 [O3 O4]]].
  pose proof c_pos as Hc. pose proof kc as Hkc.
  destruct Hinv as [j1 [j2 [[A [B C]] [E1 E2]]]]. fold c in E1, E2.
  repeat split.
  - apply contains1_inside; try assumption; lra.
  - apply contains1_inside; try assumption; lra.
  - apply contains1_inside; try assumption; lra.
  - apply bad_rem_false_iff; [exact Hc|]. exists (j2 - j1)%Z.
    assert (E : shi - slo - inject_Z (j2 - j1) * c == 0).
    { unfold Z.sub. rewrite inject_Z_plus, inject_Z_opp. rewrite E1, E2. ring. }
    rewrite E. exact Htc.
  - exists (j2 - j1)%Z.
    assert (E : shi - slo == inject_Z (j2 - j1) * c).
    { unfold Z.sub. rewrite inject_Z_plus, inject_Z_opp. rewrite E1, E2. ring. }
    assert (Hj : 0 < inject_Z (j2 - j1)) by (apply inject_Z_pos; lia).
    split; [lia|]. split.
    + apply round_int. rewrite E. field. lra.
    + rewrite E. field. lra.
  - unfold off_lattice. apply bad_rem_false_iff; [exact Hc|]. exists j1.
    assert (E : Qabs (lo - slo) == inject_Z j1 * c).
    { rewrite Qabs_neg by lra. rewrite E1. ring. }
    rewrite E. assert (Z0 : inject_Z j1 * c - inject_Z j1 * c == 0) by ring. rewrite Z0. exact Ht.
  - unfold off_lattice. apply bad_rem_false_iff; [exact Hc|]. exists (k - j2)%Z.
    assert (E : Qabs (hi - shi) == inject_Z (k - j2) * c).
    { rewrite Qabs_pos by lra. unfold Z.sub. rewrite inject_Z_plus, inject_Z_opp. rewrite E2.
      assert (hi == lo + inject_Z k * c) by lra. rewrite H at 1. ring. }
    rewrite E. assert (Z0 : inject_Z (k - j2) * c - inject_Z (k - j2) * c == 0) by ring.
    rewrite Z0. exact Ht.
Qed.

(* --- affine maps x -> a*x + b, a <> 0 (translate: a = 1; scale about ref: a = f,
       b = ref*(1-f); quarter turns: a = +-1), corners re-ordered by min / max --- *)
Theorem affine_inv (a b : Q) : ~ a == 0 ->
  ax_inv (Qmin (a * lo + b) (a * hi + b)) (Qmax (a * lo + b) (a * hi + b)) k
         (Qmin (a * slo + b) (a * shi + b)) (Qmax (a * slo + b) (a * shi + b)).
Proof.
  intros Ha. destruct inv_order as [O1 [O2 [O3 O4]]].
  pose proof c_pos as Hc. pose proof kc as Hkc. pose proof (kq_pos k Hk) as Hkq.
  destruct Hinv as [j1 [j2 [[A [B C]] [E1 E2]]]].
  destruct (Q_dec a 0) as [[Neg | Pos] | Z0]; [| | contradiction].
  - (* reflection *)
    assert (M1 : a * hi + b <= a * lo + b) by nra.
    assert (M2 : a * shi + b <= a * slo + b) by nra.
    apply ax_inv_eq with (lo := a * hi + b) (hi := a * lo + b) (slo := a * shi + b) (shi := a * slo + b);
      [symmetry; apply Q.min_r; exact M1 | symmetry; apply Q.max_l; exact M1
      | symmetry; apply Q.min_r; exact M2 | symmetry; apply Q.max_l; exact M2 |].
    exists (k - j2)%Z, (k - j1)%Z. split; [lia|].
    unfold Z.sub. rewrite !inject_Z_plus, !inject_Z_opp. rewrite E1, E2. split; field; lra.
  - assert (M1 : a * lo + b <= a * hi + b) by nra.
    assert (M2 : a * slo + b <= a * shi + b) by nra.
    apply ax_inv_eq with (lo := a * lo + b) (hi := a * hi + b) (slo := a * slo + b) (shi := a * shi + b);
      [symmetry; apply Q.min_l; exact M1 | symmetry; apply Q.max_r; exact M1
      | symmetry; apply Q.min_l; exact M2 | symmetry; apply Q.max_r; exact M2 |].
    exists j1, j2. split; [lia|]. rewrite E1, E2. split; field; lra.
Qed.

End Axis.
