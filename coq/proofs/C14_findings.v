(* C14: the witnesses of the known finding C14-abs-tolerance (absolute alignment tolerance):
   the faithful model reports a half-cell shift as aligned when the cell is 1e-12. *)
From DF Require Import Prelude Constants_gen Region Mesh Subregions.
Open Scope Q_scope.

Definition pm : Q := 1 # 1000000000000.
Definition m_pm : mesh :=
  mkMesh (mkRegion [0] [10 * pm] ["x"%string] ["m"%string] default_tf) [10%Z] EmptyString [].
Definition o_pm : mesh :=
  mkMesh (mkRegion [(1 # 2) * pm] [(21 # 2) * pm] ["x"%string] ["m"%string] default_tf) [10%Z] EmptyString [].
Definition r_pm : region := mkRegion [(1 # 2) * pm] [(7 # 2) * pm] ["x"%string] ["m"%string] default_tf.

Lemma aligned_exact_refuted :
  exists m o : mesh, wf_mesh m /\ wf_mesh o /\ is_aligned m o = true /\
    nth 0 (cell m) 0 == nth 0 (cell o) 0 /\
    nth 0 (pmin (reg o)) 0 - nth 0 (pmin (reg m)) 0 == (1 # 2) * nth 0 (cell m) 0.
Proof.
  exists m_pm, o_pm.
  assert (W : forall lo hi, lo < hi ->
            wf_mesh (mkMesh (mkRegion [lo] [hi] ["x"%string] ["m"%string] default_tf) [10%Z] EmptyString [])).
  { intros lo hi H. unfold wf_mesh, wf_region; simpl. repeat split; try lia.
    - constructor; [simpl; tauto | constructor].
    - constructor; [exact H | constructor].
    - unfold default_tf, Constants_gen.region_tf_default. lra.
    - constructor; [lia | constructor]. }
  split; [apply W; reflexivity|]. split; [apply W; reflexivity|].
  split; [vm_compute; reflexivity|]. split; vm_compute; reflexivity.
Qed.

Lemma setter_refuted :
  exists (m : mesh) (r : region), wf_mesh m /\
    is_ok (set_subregions m [("a"%string, r)]) = true /\
    nth 0 (pmin r) 0 - nth 0 (pmin (reg m)) 0 == (1 # 2) * nth 0 (cell m) 0.
Proof.
  exists m_pm, r_pm. split.
  - unfold wf_mesh, wf_region; simpl. repeat split; try lia.
    + constructor; [simpl; tauto | constructor].
    + constructor; [reflexivity | constructor].
    + unfold default_tf, Constants_gen.region_tf_default. lra.
    + constructor; [lia | constructor].
  - split; vm_compute; reflexivity.
Qed.

(* the same configuration at nanometre scale is rejected *)
Definition nm : Q := 1 # 1000000000.
Lemma nanometre_rejected :
  is_aligned (mkMesh (mkRegion [0] [10 * nm] ["x"%string] ["m"%string] default_tf) [10%Z] EmptyString [])
             (mkMesh (mkRegion [(1 # 2) * nm] [(21 # 2) * nm] ["x"%string] ["m"%string] default_tf) [10%Z] EmptyString [])
  = false.
Proof. vm_compute. reflexivity. Qed.
