(* C14: the remainder test of Mesh.is_aligned / of the by-cell constructor, per axis and
   lifted to meshes. *)
From DF Require Import Prelude Constants_gen Region Mesh Subregions QLemmas ListLemmas C01_axis C01_nd.
Open Scope Q_scope.

Lemma rem_bounds c e : 0 < c -> 0 <= Qremainder e c /\ Qremainder e c < c.
Proof.
  intros Hc. unfold Qremainder. destruct (Qfloor_bounds (e / c)) as [H1 H2].
  assert (E : e == (e / c) * c) by (field; lra).
  set (q := e / c) in *. set (f := inject_Z (Qfloor q)) in *.
  assert (A : f * c <= q * c) by (apply Qmult_le_compat_r; lra).
  assert (B : q * c < (f + 1) * c) by (apply Qmult_lt_compat_r; lra).
  split; lra.
Qed.

(* e is within tol of a whole number of cells *)
Definition near_multiple (tol c e : Q) : Prop := exists k : Z, Qabs (e - inject_Z k * c) <= tol.

Lemma bad_rem_false_iff tol c e : 0 < c ->
  bad_rem tol c e = false <-> near_multiple tol c e.
Proof.
  intros Hc. unfold bad_rem, near_multiple.
  destruct (rem_bounds c e Hc) as [R0 R1]. unfold Qremainder in *.
  set (f := Qfloor (e / c)) in *.
  rewrite andb_false_iff, !Qltb_false. split.
  - intros [H | H].
    + exists f. apply Qabs_Qle_condition. lra.
    + exists (f + 1)%Z. rewrite inject_Z_plus. apply Qabs_Qle_condition.
      change (inject_Z 1) with 1. lra.
  - intros [k Hk]. apply Qabs_Qle_condition in Hk.
    destruct (Qlt_le_dec tol (e - inject_Z f * c)) as [L1 | L1]; [|left; exact L1].
    destruct (Qlt_le_dec (e - inject_Z f * c) (c - tol)) as [L2 | L2]; [|right; exact L2].
    exfalso. destruct (Z_le_gt_dec k f) as [Hkf | Hkf].
    + assert (A : inject_Z k * c <= inject_Z f * c).
      { apply Qmult_le_compat_r; [rewrite <- Zle_Qle; exact Hkf | lra]. }
      lra.
    + assert (A : inject_Z (f + 1) * c <= inject_Z k * c).
      { apply Qmult_le_compat_r; [rewrite <- Zle_Qle; lia | lra]. }
      rewrite inject_Z_plus in A. change (inject_Z 1) with 1 in A. lra.
Qed.

(* when the tolerance is below half a cell the whole number of cells is unique ... *)
Lemma near_multiple_unique tol c e k1 k2 : 0 < c -> 2 * tol < c ->
  Qabs (e - inject_Z k1 * c) <= tol -> Qabs (e - inject_Z k2 * c) <= tol -> k1 = k2.
Proof.
  intros Hc Ht H1 H2. apply Qabs_Qle_condition in H1. apply Qabs_Qle_condition in H2.
  destruct (Z.lt_trichotomy k1 k2) as [L | [E | L]]; [exfalso | exact E | exfalso].
  - assert (A : inject_Z (k1 + 1) * c <= inject_Z k2 * c).
    { apply Qmult_le_compat_r; [rewrite <- Zle_Qle; lia | lra]. }
    rewrite inject_Z_plus in A. change (inject_Z 1) with 1 in A. lra.
  - assert (A : inject_Z (k2 + 1) * c <= inject_Z k1 * c).
    { apply Qmult_le_compat_r; [rewrite <- Zle_Qle; lia | lra]. }
    rewrite inject_Z_plus in A. change (inject_Z 1) with 1 in A. lra.
Qed.

(* ... and a shift by half a cell is seen *)
Lemma half_cell_off tol c (j : Z) : 0 < c -> 0 <= tol -> 2 * tol < c ->
  bad_rem tol c (inject_Z j * c + c / 2) = true.
Proof.
  intros Hc H0 Ht. destruct (bad_rem tol c (inject_Z j * c + c / 2)) eqn:E; [reflexivity|].
  exfalso. apply bad_rem_false_iff in E; [|exact Hc]. destruct E as [k Hk].
  apply Qabs_Qle_condition in Hk.
  assert (Hh : c / 2 + c / 2 == c) by field.
  destruct (Z_le_gt_dec k j) as [L | L].
  - assert (A : inject_Z k * c <= inject_Z j * c).
    { apply Qmult_le_compat_r; [rewrite <- Zle_Qle; exact L | lra]. }
    lra.
  - assert (A : inject_Z (j + 1) * c <= inject_Z k * c).
    { apply Qmult_le_compat_r; [rewrite <- Zle_Qle; lia | lra]. }
    rewrite inject_Z_plus in A. change (inject_Z 1) with 1 in A. lra.
Qed.

(* once the tolerance reaches half a cell the test accepts EVERY offset (the absolute
   tolerance 1e-12 with cells of 2e-12 and below) *)
Lemma blind_when_tol_half_cell tol c e : c <= 2 * tol -> bad_rem tol c e = false.
Proof.
  intros H. unfold bad_rem. apply andb_false_iff.
  destruct (Qlt_le_dec tol (Qremainder e c)) as [L | L].
  - right. apply Qltb_false. lra.
  - left. apply Qltb_false. exact L.
Qed.

(* exact whole numbers of cells always pass, whatever the tolerance *)
Lemma whole_cells_pass tol c (k : Z) : 0 < c -> 0 <= tol -> bad_rem tol c (inject_Z k * c) = false.
Proof.
  intros Hc Ht. apply bad_rem_false_iff; [exact Hc|]. exists k.
  assert (E : inject_Z k * c - inject_Z k * c == 0) by ring. rewrite E. simpl. exact Ht.
Qed.

(* ---------- lists ---------- *)
Lemma corners_on_lattice_iff tol cs p q :
  length p = length cs -> length q = length cs ->
  (forall a, (a < length cs)%nat -> 0 < nth a cs 0) ->
  (corners_on_lattice tol cs p q = true <->
   forall a, (a < length cs)%nat -> near_multiple tol (nth a cs 0) (Qabs (nth a p 0 - nth a q 0))).
Proof.
  intros Lp Lq Hc. unfold corners_on_lattice. rewrite forallb_id_nth, map3_length.
  rewrite Lp, Lq, !Nat.min_id.
  split; intros H a Ha.
  - specialize (H a Ha).
    rewrite (nth_map3 (fun c a0 b => on_lattice tol c (a0 - b)) cs p q a true 0 0 0) in H by lia.
    unfold on_lattice, off_lattice in H. apply negb_true_iff in H.
    apply bad_rem_false_iff in H; [exact H | apply Hc; exact Ha].
  - rewrite (nth_map3 (fun c a0 b => on_lattice tol c (a0 - b)) cs p q a true 0 0 0) by lia.
    unfold on_lattice, off_lattice. apply negb_true_iff.
    apply bad_rem_false_iff; [apply Hc; exact Ha | apply H; exact Ha].
Qed.

Lemma cells_close_iff tol c1 c2 :
  cells_close tol c1 c2 = true <->
  length c1 = length c2 /\
  forall a, (a < length c1)%nat -> Qabs (nth a c1 0 - nth a c2 0) <= tol + align_rtol * Qabs (nth a c2 0).
Proof.
  unfold cells_close. rewrite (forallb2_nth (isclose align_rtol tol) c1 c2 0 0).
  split; intros [L H]; (split; [exact L|]); intros a Ha; specialize (H a Ha);
    unfold isclose in *; apply Qle_bool_iff; exact H.
Qed.

Section Aligned.
Variables m o : mesh.
Hypothesis Hm : wf_mesh m.
Let nd := length (pmin (reg m)).
Hypothesis Ho1 : length (pmin (reg o)) = nd.
Hypothesis Ho2 : length (pmax (reg o)) = nd.

Lemma cell_pos_nth a : (a < nd)%nat -> 0 < nth a (cell m) 0.
Proof.
  intros Ha. rewrite (cell_nth m Hm a Ha).
  destruct (wf_axis m Hm a Ha) as [A B]. apply cell_pos; assumption.
Qed.

(* Mesh.is_aligned, characterised: cell sizes agree (numpy.allclose with rtol 1e-5 and the
   tolerance as atol) and the two corner differences are whole numbers of cells up to the
   tolerance, on every axis *)
Theorem aligned_iff tol :
  is_aligned_tol tol m o = true <->
  (length (cell m) = length (cell o) /\
   forall a, (a < nd)%nat ->
     Qabs (nth a (cell m) 0 - nth a (cell o) 0) <= tol + align_rtol * Qabs (nth a (cell o) 0)) /\
  (forall a, (a < nd)%nat ->
     near_multiple tol (nth a (cell m) 0) (Qabs (nth a (pmin (reg m)) 0 - nth a (pmin (reg o)) 0))) /\
  (forall a, (a < nd)%nat ->
     near_multiple tol (nth a (cell m) 0) (Qabs (nth a (pmax (reg m)) 0 - nth a (pmax (reg o)) 0))).
Proof.
  destruct (wf_lengths m Hm) as [L1 [L2 L3]]. fold nd in L1, L2, L3.
  unfold is_aligned_tol. rewrite !andb_true_iff, cells_close_iff.
  rewrite (corners_on_lattice_iff tol (cell m) (pmin (reg m)) (pmin (reg o)));
    [| lia | lia | rewrite L3; exact cell_pos_nth].
  rewrite (corners_on_lattice_iff tol (cell m) (pmax (reg m)) (pmax (reg o)));
    [| lia | lia | rewrite L3; exact cell_pos_nth].
  rewrite L3. tauto.
Qed.

(* under 2*tol < cell the whole number of cells is determined, and half-cell shifts are rejected *)
Theorem aligned_unique tol a k1 k2 e : (a < nd)%nat -> 2 * tol < nth a (cell m) 0 ->
  Qabs (e - inject_Z k1 * nth a (cell m) 0) <= tol -> Qabs (e - inject_Z k2 * nth a (cell m) 0) <= tol ->
  k1 = k2.
Proof. intros Ha Ht. apply near_multiple_unique; [apply cell_pos_nth; exact Ha | exact Ht]. Qed.

End Aligned.
