(* C14, range selection on one axis: a subregion made of the cells j1 .. j2-1 is kept exactly
   when it shares at least one cell with the selected cells i1 .. i2, and is clipped to
   whole cells of the selected mesh; touching at a face is not overlapping. *)
From DF Require Import Prelude Constants_gen Region Mesh Subregions QLemmas ListLemmas C01_axis C14_lattice C14_axis.
Open Scope Q_scope.

Section SelAxis.
Variables (lo hi : Q) (k : Z).
Hypothesis Hlh : lo < hi.
Hypothesis Hk : (0 < k)%Z.
Let c := (hi - lo) / inject_Z k.
Variables (slo shi : Q) (j1 j2 : Z).
Hypothesis Hj : (0 <= j1 /\ j1 < j2 /\ j2 <= k)%Z.
Hypothesis E1 : slo == lo + inject_Z j1 * c.
Hypothesis E2 : shi == lo + inject_Z j2 * c.
Variables (i1 i2 : Z).
Hypothesis Hi : (0 <= i1 /\ i1 <= i2 /\ i2 < k)%Z.
(* centres of the first / last selected cell, half a cell, the bounds computed by Mesh.sel *)
Let s1 := lo + (inject_Z i1 + (1 # 2)) * c.
Let s2 := lo + (inject_Z i2 + (1 # 2)) * c.
Let step := (1 # 2) * c.
Let min_val := s1 - step.
Let max_val := s2 + step.

Definition keeps : bool := negb (Qle_bool (max_val - step) slo || Qle_bool shi (min_val + step)).

Theorem sel_keeps_iff : keeps = true <-> (Z.max j1 i1 < Z.min j2 (i2 + 1))%Z.
Proof.
  unfold keeps. rewrite negb_true_iff, orb_false_iff, !Qleb_false.
  pose proof (c_pos lo hi k Hlh Hk) as Hc. fold c in Hc.
  unfold max_val, min_val, step, s1, s2.
  split.
  - intros [A B].
    destruct (Z_le_gt_dec j1 i2) as [L1 | L1]; destruct (Z_lt_ge_dec i1 j2) as [L2 | L2]; try lia; exfalso.
    + pose proof (zmul_le lo hi k Hlh Hk j2 i1 ltac:(lia)) as P. fold c in P. lra.
    + pose proof (zmul_le lo hi k Hlh Hk (i2 + 1) j1 ltac:(lia)) as P. fold c in P.
      rewrite inject_Z_plus in P. change (inject_Z 1) with 1 in P. lra.
  - intro H.
    pose proof (zmul_le lo hi k Hlh Hk j1 i2 ltac:(lia)) as P1. fold c in P1.
    pose proof (zmul_le lo hi k Hlh Hk (i1 + 1) j2 ltac:(lia)) as P2. fold c in P2.
    rewrite inject_Z_plus in P2. change (inject_Z 1) with 1 in P2. split; lra.
Qed.

(* a range that ends exactly on a face of the subregion does not keep it *)
Corollary sel_face_dropped : j2 = i1 \/ j1 = (i2 + 1)%Z -> keeps = false.
Proof.
  intro H. destruct keeps eqn:E; [|reflexivity]. apply sel_keeps_iff in E. lia.
Qed.

(* the kept part: cells max(j1,i1) .. min(j2,i2+1)-1, i.e. whole cells of the selected mesh
   [min_val, max_val] with i2+1-i1 cells of the same size *)
Theorem sel_clip_inv : keeps = true ->
  ax_inv min_val max_val (i2 + 1 - i1) (Qmax min_val slo) (Qmin max_val shi).
Proof.
  intro K. apply sel_keeps_iff in K.
  pose proof (c_pos lo hi k Hlh Hk) as Hc. fold c in Hc.
  pose proof (kq_pos k Hk) as Hkq.
  assert (Hn : 0 < inject_Z (i2 + 1 - i1)) by (apply inject_Z_pos; lia).
  assert (Cn : (max_val - min_val) / inject_Z (i2 + 1 - i1) == c).
  { unfold max_val, min_val, step, s1, s2. unfold Z.sub. rewrite !inject_Z_plus, inject_Z_opp.
    change (inject_Z 1) with 1. unfold Z.sub in Hn. rewrite !inject_Z_plus, inject_Z_opp in Hn.
    change (inject_Z 1) with 1 in Hn. field. lra. }
  exists (Z.max j1 i1 - i1)%Z, (Z.min j2 (i2 + 1) - i1)%Z. split; [lia|].
  rewrite Cn. split.
  - destruct (Z.max_spec j1 i1) as [[L ->] | [L ->]].
    + assert (P : slo <= min_val).
      { pose proof (zmul_le lo hi k Hlh Hk j1 i1 ltac:(lia)) as P. fold c in P.
        unfold min_val, step, s1. lra. }
      rewrite (Q.max_l _ _ P). rewrite Z.sub_diag. change (inject_Z 0) with 0. ring.
    + assert (P : min_val <= slo).
      { pose proof (zmul_le lo hi k Hlh Hk i1 j1 ltac:(lia)) as P. fold c in P.
        unfold min_val, step, s1. lra. }
      rewrite (Q.max_r _ _ P). unfold min_val, step, s1. rewrite E1.
      unfold Z.sub. rewrite inject_Z_plus, inject_Z_opp. ring.
  - destruct (Z.min_spec j2 (i2 + 1)) as [[L ->] | [L ->]].
    + assert (P : shi <= max_val).
      { pose proof (zmul_le lo hi k Hlh Hk j2 (i2 + 1) ltac:(lia)) as P. fold c in P.
        rewrite inject_Z_plus in P. change (inject_Z 1) with 1 in P.
        unfold max_val, step, s2. lra. }
      rewrite (Q.min_r _ _ P). unfold min_val, step, s1. rewrite E2.
      unfold Z.sub. rewrite inject_Z_plus, inject_Z_opp. ring.
    + assert (P : max_val <= shi).
      { pose proof (zmul_le lo hi k Hlh Hk (i2 + 1) j2 ltac:(lia)) as P. fold c in P.
        rewrite inject_Z_plus in P. change (inject_Z 1) with 1 in P.
        unfold max_val, step, s2. lra. }
      rewrite (Q.min_l _ _ P). unfold max_val, min_val, step, s1, s2.
      unfold Z.sub. rewrite !inject_Z_plus, inject_Z_opp. change (inject_Z 1) with 1. ring.
Qed.

End SelAxis.
