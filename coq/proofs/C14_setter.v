(* C14: structural facts about the subregions setter (what an accepted / a rejected
   assignment leaves in the mesh). *)
From DF Require Import Prelude Constants_gen Region Mesh Subregions ListLemmas QLemmas.
Open Scope Q_scope.

Lemma set_subregions_spec tol m l :
  (Forall (fun nr => sub_ok tol m (snd nr) = true) l /\
   set_subregions_tol tol m l =
     OK (mkMesh (reg m) (n m) (bc m) (map (fun nr => (fst nr, recreate m (snd nr))) l))) \/
  (Exists (fun nr => sub_ok tol m (snd nr) = false) l /\ set_subregions_tol tol m l = Err ValueE).
Proof.
  unfold set_subregions_tol.
  destruct (forallb (fun nr => sub_ok tol m (snd nr)) l) eqn:E.
  - left. split; [|reflexivity]. apply Forall_forall. intros x Hx.
    rewrite forallb_forall in E. exact (E x Hx).
  - right. split; [|reflexivity]. apply Exists_exists.
    assert (H : ~ (forall x, In x l -> sub_ok tol m (snd x) = true)).
    { intro H. rewrite <- forallb_forall in H. congruence. }
    clear E. induction l as [|a l IH].
    + exfalso. apply H. intros x [].
    + destruct (sub_ok tol m (snd a)) eqn:Ea.
      * destruct IH as [x [Hx Hf]].
        { intro H'. apply H. intros x [->|Hx]; auto. }
        exists x. split; [right; exact Hx | exact Hf].
      * exists a. split; [left; reflexivity | exact Ea].
Qed.

(* accepted iff every candidate passes the three tests *)
Lemma accept_iff tol m l :
  is_ok (set_subregions_tol tol m l) = true <-> Forall (fun nr => sub_ok tol m (snd nr) = true) l.
Proof.
  destruct (set_subregions_spec tol m l) as [[HF ->]|[HE ->]]; simpl.
  - tauto.
  - split; [discriminate|]. intro HF. exfalso.
    apply Exists_exists in HE. destruct HE as [x [Hx Hf]].
    rewrite Forall_forall in HF. rewrite (HF x Hx) in Hf. discriminate.
Qed.

(* a rejected assignment leaves the mesh (and so its previous subregions) as it was *)
Lemma rejected_keeps tol m l :
  is_ok (set_subregions_tol tol m l) = false -> assign_tol tol m l = m.
Proof. unfold assign_tol. destruct (set_subregions_tol tol m l); simpl; [discriminate | reflexivity]. Qed.

(* an accepted assignment holds exactly the candidates, in order, with their own corners and
   the mesh's dimension names, units and tolerance factor; region, n, bc untouched *)
Lemma accepted_holds tol m l :
  is_ok (set_subregions_tol tol m l) = true ->
  let m' := assign_tol tol m l in
  reg m' = reg m /\ n m' = n m /\ bc m' = bc m /\
  map fst (subs m') = map fst l /\
  map (fun nr => pmin (snd nr)) (subs m') = map (fun nr => pmin (snd nr)) l /\
  map (fun nr => pmax (snd nr)) (subs m') = map (fun nr => pmax (snd nr)) l /\
  Forall (fun nr => dims (snd nr) = dims (reg m) /\ units (snd nr) = units (reg m) /\
                    tf (snd nr) = tf (reg m)) (subs m').
Proof.
  intro H. unfold assign_tol.
  destruct (set_subregions_spec tol m l) as [[HF E]|[HE E]]; rewrite E in *; simpl in *; [|discriminate].
  repeat split; try (rewrite map_map; reflexivity).
  apply Forall_forall. intros x Hx. apply in_map_iff in Hx. destruct Hx as [y [<- _]]. simpl. auto.
Qed.
