(* C14: soundness of check_C14 -- an accepted case certifies that the OBSERVED decision / mesh /
   subregion table is the model's (exact regime: equal; scale regime: within 1e-9 of the axis
   scale, decisions only where the model's answer does not hinge on the rounding allowance),
   so the C14 theorems apply to the observation itself. *)
From DF Require Import Prelude Constants_gen Region Mesh Subregions ListLemmas QLemmas CheckSound
  Check_C14 C01_sound C14_setter C14_lattice.
Open Scope Q_scope.

Ltac split_andb :=
  repeat match goal with
         | H : _ && _ = true |- _ => apply andb_true_iff in H; destruct H
         end.

(* ---------- what the comparison combinators certify ---------- *)
Definition qlist_rel (exact : bool) (sc a b : list Q) : Prop :=
  if exact then Forall2 Qeq a b
  else length a = length b /\ length a = length sc /\
       forall i, (i < length a)%nat -> Qabs (nth i a 0 - nth i b 0) <= rel_tol * nth i sc 0.

Definition sub_rel (exact : bool) (sc : list Q) (nr : string * region) (o : sub_obs) : Prop :=
  fst nr = fst (fst o) /\
  qlist_rel exact sc (pmin (snd nr)) (fst (snd (fst o))) /\
  qlist_rel exact sc (pmax (snd nr)) (snd (snd (fst o))) /\
  dims (snd nr) = fst (snd o) /\ units (snd nr) = snd (snd o).

(* name -> box maps: same number of entries, and every model entry is reported under its name *)
Definition subs_rel (exact : bool) (sc : list Q) (l : list (string * region)) (o : list sub_obs) : Prop :=
  length l = length o /\
  forall nr, In nr l -> exists ob, In ob o /\ sub_rel exact sc nr ob.

Definition mesh_rel (exact : bool) (m : mesh) (o : mesh_obs) : Prop :=
  qlist_rel exact (scales m) (pmin (reg m)) (o_pmin o) /\
  qlist_rel exact (scales m) (pmax (reg m)) (o_pmax o) /\
  n m = o_n o /\ dims (reg m) = o_dims o /\ units (reg m) = o_units o /\
  subs_rel exact (scales m) (subs m) (o_subs o).

Lemma qlist_close_sound exact sc a b : qlist_close exact sc a b = true -> qlist_rel exact sc a b.
Proof.
  unfold qlist_close, qlist_rel. destruct exact.
  - apply qlist_eqb_sound_gen.
  - intro H. split_andb.
    match goal with H : (length a =? length b)%nat = true |- _ => apply Nat.eqb_eq in H; rename H into Lab end.
    match goal with H : (length a =? length sc)%nat = true |- _ => apply Nat.eqb_eq in H; rename H into Lsc end.
    split; [exact Lab|]. split; [exact Lsc|]. intros i Hi.
    match goal with H : forallb _ _ = true |- _ => rename H into Hf end.
    rewrite forallb_id_nth in Hf. specialize (Hf i).
    rewrite map3_length in Hf.
    rewrite (nth_map3 (fun s x y => qclose rel_tol s x y) sc a b i true 0 0 0) in Hf by lia.
    apply qclose_sound. apply Hf. lia.
Qed.

Lemma sub_matches_sound exact sc nr o : sub_matches exact sc nr o = true -> sub_rel exact sc nr o.
Proof.
  unfold sub_matches, sub_rel. intro H. split_andb.
  repeat split.
  - apply String.eqb_eq. assumption.
  - apply qlist_close_sound. assumption.
  - apply qlist_close_sound. assumption.
  - apply strlist_eqb_sound_gen. assumption.
  - apply strlist_eqb_sound_gen. assumption.
Qed.

Lemma subs_match_sound exact sc l o : subs_match exact sc l o = true -> subs_rel exact sc l o.
Proof.
  unfold subs_match, subs_rel. intro H. apply andb_true_iff in H. destruct H as [H1 H2].
  split; [apply Nat.eqb_eq; exact H1|].
  intros nr Hin. rewrite forallb_forall in H2. specialize (H2 nr Hin).
  destruct (find (fun ob : sub_obs => String.eqb (fst nr) (fst (fst ob))) o) as [ob|] eqn:Ef; [|discriminate].
  exists ob. split; [eapply find_some; exact Ef | apply sub_matches_sound; exact H2].
Qed.

Lemma mesh_matches_sound exact m o : mesh_matches exact m o = true -> mesh_rel exact m o.
Proof.
  unfold mesh_matches, mesh_rel. intro H. cbv zeta in H. split_andb.
  split; [apply qlist_close_sound; assumption|].
  split; [apply qlist_close_sound; assumption|].
  split; [apply zlist_eqb_sound_gen; assumption|].
  split; [apply strlist_eqb_sound_gen; assumption|].
  split; [apply strlist_eqb_sound_gen; assumption|].
  apply subs_match_sound; assumption.
Qed.

(* decisions: compared whenever the model's answer is the same at tolerance -/+ the allowance *)
Lemma agree_sound lo hi obs : agree lo hi obs = true -> lo = hi -> obs = lo.
Proof.
  unfold agree. intros H E. subst hi. rewrite Bool.eqb_reflx in H. symmetry. apply Bool.eqb_prop. exact H.
Qed.

(* results: an observed mesh matches the model's mesh (taken at the lower tolerance when that
   accepts, else at the upper one); an observed refusal means the model refuses at the lower one *)
Lemma check_res_sound exact lo hi obs : check_res exact lo hi obs = true ->
  match obs with
  | Some o => exists m, (lo = OK m \/ (is_ok lo = false /\ hi = OK m)) /\ is_ok hi = true /\ mesh_rel exact m o
  | None => is_ok lo = false
  end.
Proof.
  unfold check_res. destruct lo as [ml|el], hi as [mh|eh], obs as [o|]; intro H; try discriminate; simpl.
  - exists ml. split; [left; reflexivity|]. split; [reflexivity | apply mesh_matches_sound; exact H].
  - exists mh. split; [right; split; reflexivity|]. split; [reflexivity | apply mesh_matches_sound; exact H].
  - reflexivity.
  - reflexivity.
Qed.

Lemma check_res_same_sound exact r obs : check_res exact r r obs = true ->
  match obs with
  | Some o => exists m, r = OK m /\ mesh_rel exact m o
  | None => is_ok r = false
  end.
Proof.
  intro H. apply check_res_sound in H. destruct obs as [o|]; [|exact H].
  destruct H as [m [[E|[E1 E2]] [_ R]]]; exists m; split; try assumption.
Qed.

(* ---------- the model functions depend on the tolerance only up to == ---------- *)
Lemma forallb2_ext_gen {A B} (f g : A -> B -> bool) : (forall x y, f x y = g x y) ->
  forall l1 l2, forallb2 f l1 l2 = forallb2 g l1 l2.
Proof.
  intro E. induction l1 as [|x l1 IH]; intros [|y l2]; simpl; try reflexivity.
  rewrite E, IH. reflexivity.
Qed.

Lemma map3_ext_gen {A B C D} (f g : A -> B -> C -> D) : (forall x y z, f x y z = g x y z) ->
  forall l1 l2 l3, map3 f l1 l2 l3 = map3 g l1 l2 l3.
Proof.
  intro E. induction l1 as [|x l1 IH]; intros [|y l2] [|z l3]; simpl; try reflexivity.
  rewrite E, IH. reflexivity.
Qed.

Lemma forallb_ext_gen {A} (f g : A -> bool) : (forall x, f x = g x) -> forall l, forallb f l = forallb g l.
Proof. intro E. induction l as [|x l IH]; simpl; [reflexivity|]. rewrite E, IH. reflexivity. Qed.

Lemma bad_rem_compat t t' c e : t == t' -> bad_rem t c e = bad_rem t' c e.
Proof. intro E. unfold bad_rem, Qltb. cbv zeta. rewrite E. reflexivity. Qed.

Lemma isclose_compat r t t' a b : t == t' -> isclose r t a b = isclose r t' a b.
Proof. intro E. unfold isclose. rewrite E. reflexivity. Qed.

Lemma is_aligned_tol_compat t t' m o : t == t' -> is_aligned_tol t m o = is_aligned_tol t' m o.
Proof.
  intro E. unfold is_aligned_tol, cells_close, corners_on_lattice.
  rewrite (forallb2_ext_gen (isclose align_rtol t) (isclose align_rtol t')) by (intros; apply isclose_compat; exact E).
  rewrite !(map3_ext_gen (fun c a b => on_lattice t c (a - b)) (fun c a b => on_lattice t' c (a - b)))
    by (intros; unfold on_lattice, off_lattice; rewrite (bad_rem_compat t t' _ _ E); reflexivity).
  reflexivity.
Qed.

Lemma sub_ok_compat t t' m r : t == t' -> sub_ok t m r = sub_ok t' m r.
Proof.
  intro E. unfold sub_ok. destruct (mesh_by_cell r (cell m)); [|reflexivity].
  rewrite (is_aligned_tol_compat t t' _ _ E). reflexivity.
Qed.

Lemma set_subregions_tol_compat t t' m l : t == t' -> set_subregions_tol t m l = set_subregions_tol t' m l.
Proof.
  intro E. unfold set_subregions_tol.
  rewrite (forallb_ext_gen (fun nr => sub_ok t m (snd nr)) (fun nr => sub_ok t' m (snd nr)))
    by (intros; apply sub_ok_compat; exact E).
  reflexivity.
Qed.

Lemma transform_tol_compat t t' ip o m : t == t' -> transform_tol t ip o m = transform_tol t' ip o m.
Proof.
  intro E. unfold transform_tol. cbv zeta.
  destruct (transform_region o (center (reg m)) (reg m)); [|reflexivity]. cbn [bind].
  destruct (mapres _ (subs m)); [|reflexivity]. cbn [bind].
  destruct (mk_mesh_n _ _); [|reflexivity]. cbn [bind].
  rewrite (set_subregions_tol_compat t t' _ _ E). reflexivity.
Qed.

Lemma sel_plane_tol_compat t t' m a v : t == t' -> sel_plane_tol t m a v = sel_plane_tol t' m a v.
Proof.
  intro E. unfold sel_plane_tol. cbv zeta.
  destruct (negb (a <? ndim (reg m))%nat); [reflexivity|].
  destruct (match v with Some x => snap m a x | None => snap_centre m a end); [|reflexivity]. cbn [bind].
  destruct (mapres _ _); [|reflexivity]. cbn [bind].
  destruct (mk_region _ _ _ _ _); [|reflexivity]. cbn [bind].
  destruct (mesh_by_cell _ _); [|reflexivity]. cbn [bind].
  apply set_subregions_tol_compat. exact E.
Qed.

Lemma sel_range_tol_compat t t' m a x1 x2 : t == t' -> sel_range_tol t m a x1 x2 = sel_range_tol t' m a x1 x2.
Proof.
  intro E. unfold sel_range_tol. cbv zeta.
  destruct (negb (a <? ndim (reg m))%nat); [reflexivity|].
  destruct (sel_bounds m a x1 x2); [|reflexivity]. cbn [bind].
  destruct (mapres _ _); [|reflexivity]. cbn [bind].
  destruct (mk_region _ _ _ _ _); [|reflexivity]. cbn [bind].
  destruct (mesh_by_cell _ _); [|reflexivity]. cbn [bind].
  apply set_subregions_tol_compat. exact E.
Qed.

Lemma h5_load_tol_compat t t' m rows : t == t' -> h5_load_tol t m rows = h5_load_tol t' m rows.
Proof.
  intro E. unfold h5_load_tol. destruct (mapres _ rows); [|reflexivity]. cbn [bind].
  apply set_subregions_tol_compat. exact E.
Qed.

Lemma json_load_tol_compat t t' m saved : t == t' -> json_load_tol t m saved = json_load_tol t' m saved.
Proof.
  intro E. unfold json_load_tol. destruct (mapres _ saved); [|reflexivity]. cbn [bind].
  apply set_subregions_tol_compat. exact E.
Qed.

Lemma tol_m0 t : t - 0 == t.
Proof. ring. Qed.
Lemma tol_p0 t : t + 0 == t.
Proof. ring. Qed.

(* ---------- the meshes the checker builds are well-formed ---------- *)
Definition mesh_of (p1 p2 : list Q) (ns : list Z) : res mesh :=
  do r <- mk_region p1 p2 None None default_tf; mk_mesh_n r ns.

Lemma default_tf_nonneg : 0 <= default_tf.
Proof. unfold default_tf, Constants_gen.region_tf_default. discriminate. Qed.

Lemma mk_region_corner_lengths p1 p2 ds us t r : mk_region p1 p2 ds us t = OK r ->
  length (pmin r) = length p1 /\ length (pmax r) = length p1.
Proof.
  unfold mk_region. intro H.
  destruct (negb (length p1 =? length p2)%nat) eqn:E1; [discriminate|].
  destruct (length p1 =? 0)%nat; [discriminate|].
  apply negb_false_iff, Nat.eqb_eq in E1. cbv zeta in H.
  destruct (match ds with None => _ | Some _ => _ end); [|discriminate]. cbn [bind] in H.
  destruct (match us with None => _ | Some _ => _ end); [|discriminate]. cbn [bind] in H.
  destruct (existsb _ _); [discriminate|]. inversion H; subst r; clear H. cbn [pmin pmax].
  rewrite !map2_length. lia.
Qed.

Lemma mesh_of_wf p1 p2 ns m : mesh_of p1 p2 ns = OK m -> (length p1 <= 10)%nat ->
  wf_mesh m /\ length (pmin (reg m)) = length p1 /\ length (pmax (reg m)) = length p1.
Proof.
  intros H Hnd. split.
  - exact (build_wf p1 p2 ns default_tf m H default_tf_nonneg Hnd).
  - unfold mesh_of in H. destruct (mk_region p1 p2 None None default_tf) as [r|] eqn:Er; [|discriminate].
    cbn [bind] in H. unfold mk_mesh_n in H.
    destruct (negb _); [discriminate|]. destruct (negb _); [discriminate|].
    inversion H; subst m; clear H. cbn [reg]. eapply mk_region_corner_lengths. exact Er.
Qed.

Lemma build_state_wf s m : build_state s = OK m -> 0 <= s_tf s -> wf_mesh m.
Proof.
  unfold build_state. intros H Htf.
  destruct (mk_region (s_p1 s) (s_p2 s) (Some (s_dims s)) (Some (s_units s)) (s_tf s)) as [r|] eqn:Er; [|discriminate].
  cbn [bind] in H. destruct (mk_mesh_n r (s_n s)) as [m0|] eqn:Em; [|discriminate]. cbn [bind] in H.
  assert (Hr : wf_region r) by (eapply mk_region_wf; [exact Er | exact Htf | discriminate]).
  pose proof (mk_mesh_n_wf r (s_n s) m0 Hr Em) as W.
  unfold mk_mesh_n in Em. destruct (negb _); [discriminate|]. destruct (negb _); [discriminate|].
  inversion Em; subst m0; clear Em. inversion H; subst m; clear H.
  exact W.
Qed.

(* ---------- soundness of check_C14, exact regime ---------- *)
Lemma check_aligned_sound p1 p2 n1 q1 q2 n2 tol obs :
  check_C14 (CAligned true p1 p2 n1 q1 q2 n2 tol obs) = true ->
  exists m o, mesh_of p1 p2 n1 = OK m /\ mesh_of q1 q2 n2 = OK o /\ obs = is_aligned_tol tol m o.
Proof.
  unfold mesh_of. cbn [check_C14].
  destruct (bind (mk_region p1 p2 None None default_tf) _) as [m|]; [|discriminate].
  destruct (bind (mk_region q1 q2 None None default_tf) _) as [o|]; [|discriminate].
  cbv zeta. cbn [delta]. intro H. exists m, o. split; [reflexivity|]. split; [reflexivity|].
  rewrite (is_aligned_tol_compat _ _ m o (tol_m0 tol)), (is_aligned_tol_compat _ _ m o (tol_p0 tol)) in H.
  apply (agree_sound _ _ _ H). reflexivity.
Qed.

Lemma check_setter_sound s cands obs_acc obs_subs :
  check_C14 (CSetter true s cands obs_acc obs_subs) = true ->
  exists m l, build_state s = OK m /\ mapres cand_region cands = OK l /\
    obs_acc = is_ok (set_subregions_tol align_tol m l) /\
    subs_rel true (scales m) (subs (assign_tol align_tol m l)) obs_subs.
Proof.
  cbn [check_C14].
  destruct (build_state s) as [m|]; [|discriminate].
  destruct (mapres cand_region cands) as [l|]; [|discriminate].
  cbv zeta. cbn [delta]. intro H. apply andb_true_iff in H. destruct H as [H1 H2].
  rewrite (set_subregions_tol_compat _ _ m l (tol_m0 align_tol)),
          (set_subregions_tol_compat _ _ m l (tol_p0 align_tol)) in H1.
  apply (fun h => agree_sound _ _ _ h eq_refl) in H1.
  exists m, l. split; [reflexivity|]. split; [reflexivity|]. split; [exact H1|].
  apply subs_match_sound in H2. unfold assign_tol.
  destruct (set_subregions_spec align_tol m l) as [[_ E]|[_ E]]; rewrite E in *; simpl in H1; subst obs_acc; exact H2.
Qed.

Definition res_rel (r : res mesh) (obs : option mesh_obs) : Prop :=
  match obs with
  | Some o => exists m', r = OK m' /\ mesh_rel true m' o
  | None => is_ok r = false
  end.

Lemma check_transform_sound s inplace o obs :
  check_C14 (CTransform true s inplace o obs) = true ->
  exists m, build_state s = OK m /\ res_rel (transform_tol align_tol inplace o m) obs.
Proof.
  cbn [check_C14].
  destruct (build_state s) as [m|]; [|discriminate].
  cbv zeta. cbn [delta negb andb]. intro H. exists m. split; [reflexivity|].
  rewrite (transform_tol_compat _ _ inplace o m (tol_m0 align_tol)),
          (transform_tol_compat _ _ inplace o m (tol_p0 align_tol)) in H.
  apply (check_res_same_sound true _ obs). destruct obs; exact H.
Qed.

Lemma check_sel_plane_sound s a v obs :
  check_C14 (CSelPlane true s a v obs) = true ->
  exists m, build_state s = OK m /\ res_rel (sel_plane_tol align_tol m a v) obs.
Proof.
  cbn [check_C14].
  destruct (build_state s) as [m|]; [|discriminate].
  cbv zeta. cbn [delta]. intro H. exists m. split; [reflexivity|].
  rewrite (sel_plane_tol_compat _ _ m a v (tol_m0 align_tol)),
          (sel_plane_tol_compat _ _ m a v (tol_p0 align_tol)) in H.
  apply (check_res_same_sound true _ obs). exact H.
Qed.

Lemma check_sel_range_sound s a x1 x2 obs :
  check_C14 (CSelRange true s a x1 x2 obs) = true ->
  exists m, build_state s = OK m /\ res_rel (sel_range_tol align_tol m a x1 x2) obs.
Proof.
  cbn [check_C14].
  destruct (build_state s) as [m|]; [|discriminate].
  cbv zeta. cbn [delta]. intro H. exists m. split; [reflexivity|].
  rewrite (sel_range_tol_compat _ _ m a x1 x2 (tol_m0 align_tol)),
          (sel_range_tol_compat _ _ m a x1 x2 (tol_p0 align_tol)) in H.
  apply (check_res_same_sound true _ obs). exact H.
Qed.

(* mesh[name]: no tolerance involved, both regimes *)
Lemma check_named_sound exact s name obs :
  check_C14 (CNamed exact s name obs) = true ->
  exists m, build_state s = OK m /\
    match obs with
    | Some o => exists sm, named m name = OK sm /\ mesh_rel exact sm o
    | None => is_ok (named m name) = false
    end.
Proof.
  cbn [check_C14].
  destruct (build_state s) as [m|]; [|discriminate].
  intro H. exists m. split; [reflexivity|].
  destruct (named m name) as [sm|], obs as [o|]; try discriminate.
  - exists sm. split; [reflexivity | apply mesh_matches_sound; exact H].
  - reflexivity.
Qed.

Lemma check_persist_h5_sound s obs :
  check_C14 (CPersistH5 true s obs) = true ->
  exists m, build_state s = OK m /\
    res_rel (h5_load_tol align_tol (mkMesh (reg m) (n m) (bc m) []) (h5_rows (subs m))) obs.
Proof.
  cbn [check_C14].
  destruct (build_state s) as [m|]; [|discriminate].
  cbv zeta. cbn [delta]. intro H. exists m. split; [reflexivity|].
  rewrite (h5_load_tol_compat _ _ (mkMesh (reg m) (n m) (bc m) []) (h5_rows (subs m)) (tol_m0 align_tol)),
          (h5_load_tol_compat _ _ (mkMesh (reg m) (n m) (bc m) []) (h5_rows (subs m)) (tol_p0 align_tol)) in H.
  apply (check_res_same_sound true _ obs). exact H.
Qed.

Lemma check_persist_json_sound src dst obs_acc obs_subs :
  check_C14 (CPersistJson true src dst obs_acc obs_subs) = true ->
  exists ms md, build_state src = OK ms /\ build_state dst = OK md /\
    obs_acc = is_ok (json_load_tol align_tol md (subs ms)) /\
    subs_rel true (scales md)
      (match json_load_tol align_tol md (subs ms) with OK m' => subs m' | Err _ => subs md end) obs_subs.
Proof.
  cbn [check_C14].
  destruct (build_state src) as [ms|]; [|discriminate].
  destruct (build_state dst) as [md|]; [|discriminate].
  cbv zeta. cbn [delta]. intro H. apply andb_true_iff in H. destruct H as [H1 H2].
  rewrite (json_load_tol_compat _ _ md (subs ms) (tol_m0 align_tol)) in H1.
  rewrite (json_load_tol_compat _ _ md (subs ms) (tol_p0 align_tol)) in H1, H2.
  apply (fun h => agree_sound _ _ _ h eq_refl) in H1.
  exists ms, md. split; [reflexivity|]. split; [reflexivity|]. split; [exact H1|].
  apply subs_match_sound in H2.
  destruct (json_load_tol align_tol md (subs ms)); simpl in H1; subst obs_acc; exact H2.
Qed.

(* ---------- transfer: the C14 theorems stated about the OBSERVED outputs ---------- *)
(* the observed accept / reject decision of the setter is the three-test criterion of
   accept_iff on every candidate; after a rejection the observed table is the previous one
   (rejected_keeps); after an acceptance it holds every candidate under its name with the
   candidate's corners and the mesh's dims / units *)
Theorem accepted_setter_transfer s cands obs_acc obs_subs :
  check_C14 (CSetter true s cands obs_acc obs_subs) = true ->
  exists m l, build_state s = OK m /\ mapres cand_region cands = OK l /\
    (obs_acc = true <-> Forall (fun nr => sub_ok align_tol m (snd nr) = true) l) /\
    (obs_acc = false -> subs_rel true (scales m) (subs m) obs_subs) /\
    (obs_acc = true ->
       length obs_subs = length l /\
       forall nr, In nr l -> exists ob, In ob obs_subs /\
         fst (fst ob) = fst nr /\
         Forall2 Qeq (pmin (snd nr)) (fst (snd (fst ob))) /\
         Forall2 Qeq (pmax (snd nr)) (snd (snd (fst ob))) /\
         fst (snd ob) = dims (reg m) /\ snd (snd ob) = units (reg m)).
Proof.
  intro H. destruct (check_setter_sound _ _ _ _ H) as (m & l & Hb & Hl & Hacc & Hrel).
  exists m, l. split; [exact Hb|]. split; [exact Hl|]. split; [|split].
  - rewrite Hacc. apply accept_iff.
  - intro E. rewrite E in Hacc. symmetry in Hacc.
    rewrite (rejected_keeps align_tol m l Hacc) in Hrel. exact Hrel.
  - intro E. rewrite E in Hacc. unfold assign_tol in Hrel.
    destruct (set_subregions_spec align_tol m l) as [[_ Es]|[_ Es]]; rewrite Es in *; [|discriminate].
    cbn [subs] in Hrel. destruct Hrel as [Hlen Hall]. rewrite map_length in Hlen.
    split; [symmetry; exact Hlen|].
    intros nr Hin.
    destruct (Hall (fst nr, recreate m (snd nr))) as (ob & Hob & Hn & Hp1 & Hp2 & Hd & Hu).
    { apply (in_map (fun nr => (fst nr, recreate m (snd nr)))). exact Hin. }
    exists ob. cbn [fst snd recreate pmin pmax dims units qlist_rel] in *.
    repeat split; try assumption; symmetry; assumption.
Qed.

(* the observed answer of Mesh.is_aligned is the characterisation of aligned_iff; the
   well-formedness it needs is established by the constructor calls of the checker *)
Theorem accepted_aligned_transfer p1 p2 n1 q1 q2 n2 tol obs :
  check_C14 (CAligned true p1 p2 n1 q1 q2 n2 tol obs) = true ->
  (length p1 <= 10)%nat -> length q1 = length p1 ->
  exists m o, mesh_of p1 p2 n1 = OK m /\ mesh_of q1 q2 n2 = OK o /\ wf_mesh m /\ wf_mesh o /\
    (obs = true <->
     (length (cell m) = length (cell o) /\
      forall a, (a < length (pmin (reg m)))%nat ->
        Qabs (nth a (cell m) 0 - nth a (cell o) 0) <= tol + align_rtol * Qabs (nth a (cell o) 0)) /\
     (forall a, (a < length (pmin (reg m)))%nat ->
        near_multiple tol (nth a (cell m) 0) (Qabs (nth a (pmin (reg m)) 0 - nth a (pmin (reg o)) 0))) /\
     (forall a, (a < length (pmin (reg m)))%nat ->
        near_multiple tol (nth a (cell m) 0) (Qabs (nth a (pmax (reg m)) 0 - nth a (pmax (reg o)) 0)))).
Proof.
  intros H Hnd Hq. destruct (check_aligned_sound _ _ _ _ _ _ _ _ H) as (m & o & Hm & Ho & Hobs).
  destruct (mesh_of_wf _ _ _ _ Hm Hnd) as (Wm & Lm1 & Lm2).
  destruct (mesh_of_wf _ _ _ _ Ho ltac:(lia)) as (Wo & Lo1 & Lo2).
  exists m, o. split; [exact Hm|]. split; [exact Ho|]. split; [exact Wm|]. split; [exact Wo|].
  rewrite Hobs. apply (aligned_iff m o Wm); congruence.
Qed.

(* mesh[name]: the observed mesh has the corners of the named subregion and its cell count
   measured in cells of the parent *)
Lemma mesh_by_cell_fields r c sm : mesh_by_cell r c = OK sm ->
  reg sm = r /\ n sm = map2 (fun e x => Qround_half_even (e / x)) (edges r) c /\ subs sm = [].
Proof.
  unfold mesh_by_cell. intro H.
  destruct (negb (length c =? ndim r)%nat); [discriminate|].
  destruct (negb (forallb _ c)); [discriminate|].
  destruct (negb (_ && _)); [discriminate|].
  destruct (existsb _ _); [discriminate|].
  inversion H; subst sm; clear H. cbn [reg n subs]. repeat split.
Qed.

Theorem accepted_named_transfer s name o :
  check_C14 (CNamed true s name (Some o)) = true ->
  exists m r, build_state s = OK m /\ lookup name (subs m) = Some r /\
    Forall2 Qeq (pmin r) (o_pmin o) /\ Forall2 Qeq (pmax r) (o_pmax o) /\
    o_n o = map2 (fun e x => Qround_half_even (e / x)) (edges r) (cell m) /\
    o_dims o = dims r /\ o_units o = units r /\ o_subs o = [].
Proof.
  intro H. destruct (check_named_sound _ _ _ _ H) as (m & Hb & sm & Hn & Hrel).
  unfold named in Hn. destruct (lookup name (subs m)) as [r|] eqn:El; [|discriminate].
  destruct (mesh_by_cell_fields _ _ _ Hn) as (Er & En & Es).
  destruct Hrel as (R1 & R2 & R3 & R4 & R5 & R6 & _).
  rewrite Er in *. rewrite Es in R6. cbn [qlist_rel] in R1, R2.
  exists m, r. split; [exact Hb|]. split; [exact El|].
  split; [exact R1|]. split; [exact R2|]. split; [congruence|].
  split; [congruence|]. split; [congruence|].
  destruct (o_subs o); [reflexivity | discriminate].
Qed.

(* ---------- non-vacuity: concrete accepted cases ---------- *)
Example accepted_aligned_instance :
  check_C14 (CAligned true [0; 0] [4; 2] [4; 2]%Z [1; 0] [3; 1] [2; 1]%Z (1 # 1000000000000) true) = true.
Proof. vm_compute. reflexivity. Qed.

Example rejected_aligned_instance :
  check_C14 (CAligned true [0] [4] [4]%Z [1 # 2] [5 # 2] [2]%Z (1 # 1000000000000) false) = true.
Proof. vm_compute. reflexivity. Qed.

Example accepted_setter_instance :
  check_C14 (CSetter true (mkSt [0] [4] [4]%Z (1 # 1000000000000) ["x"%string] ["m"%string] [])
               [("a"%string, ([1], [3]), 1 # 1000000000000)] true
               [("a"%string, ([1], [3]), (["x"%string], ["m"%string]))]) = true.
Proof. vm_compute. reflexivity. Qed.

Example rejected_setter_instance :
  check_C14 (CSetter true (mkSt [0] [4] [4]%Z (1 # 1000000000000) ["x"%string] ["m"%string]
                                [("old"%string, ([0], [2]))])
               [("a"%string, ([1 # 2], [3]), 1 # 1000000000000)] false
               [("old"%string, ([0], [2]), (["x"%string], ["m"%string]))]) = true.
Proof. vm_compute. reflexivity. Qed.

Example accepted_named_instance :
  check_C14 (CNamed true (mkSt [0] [4] [4]%Z (1 # 1000000000000) ["x"%string] ["m"%string]
                               [("a"%string, ([1], [3]))]) "a"
               (Some (mkObs [1] [3] [2]%Z ["x"%string] ["m"%string] []))) = true.
Proof. vm_compute. reflexivity. Qed.

(* ---------- both regimes: what an accepted case certifies when the comparison is by tolerance --- *)
Definition res_rel_tol (exact : bool) (lo hi : res mesh) (obs : option mesh_obs) : Prop :=
  match obs with
  | Some o => exists m', (lo = OK m' \/ (is_ok lo = false /\ hi = OK m')) /\ is_ok hi = true /\ mesh_rel exact m' o
  | None => is_ok lo = false
  end.

Lemma check_aligned_sound_gen exact p1 p2 n1 q1 q2 n2 tol obs :
  check_C14 (CAligned exact p1 p2 n1 q1 q2 n2 tol obs) = true ->
  exists m o, mesh_of p1 p2 n1 = OK m /\ mesh_of q1 q2 n2 = OK o /\
    let d := delta exact (reg_coords (reg m) ++ reg_coords (reg o)) in
    (is_aligned_tol (tol - d) m o = is_aligned_tol (tol + d) m o -> obs = is_aligned_tol (tol - d) m o).
Proof.
  unfold mesh_of. cbn [check_C14].
  destruct (bind (mk_region p1 p2 None None default_tf) _) as [m|]; [|discriminate].
  destruct (bind (mk_region q1 q2 None None default_tf) _) as [o|]; [|discriminate].
  intro H. exists m, o. split; [reflexivity|]. split; [reflexivity|].
  cbv zeta in *. exact (agree_sound _ _ _ H).
Qed.

Lemma check_setter_sound_gen exact s cands obs_acc obs_subs :
  check_C14 (CSetter exact s cands obs_acc obs_subs) = true ->
  exists m l, build_state s = OK m /\ mapres cand_region cands = OK l /\
    let d := delta exact (reg_coords (reg m) ++ subs_coords l) in
    (is_ok (set_subregions_tol (align_tol - d) m l) = is_ok (set_subregions_tol (align_tol + d) m l) ->
     obs_acc = is_ok (set_subregions_tol (align_tol - d) m l)) /\
    subs_rel exact (scales m)
      (if obs_acc then map (fun nr => (fst nr, recreate m (snd nr))) l else subs m) obs_subs.
Proof.
  cbn [check_C14].
  destruct (build_state s) as [m|]; [|discriminate].
  destruct (mapres cand_region cands) as [l|]; [|discriminate].
  intro H. cbv zeta in *. apply andb_true_iff in H. destruct H as [H1 H2].
  exists m, l. split; [reflexivity|]. split; [reflexivity|].
  split; [exact (agree_sound _ _ _ H1) | apply subs_match_sound; exact H2].
Qed.

Lemma check_sel_plane_sound_gen exact s a v obs :
  check_C14 (CSelPlane exact s a v obs) = true ->
  exists m, build_state s = OK m /\
    let d := delta exact (reg_coords (reg m)) in
    res_rel_tol exact (sel_plane_tol (align_tol - d) m a v) (sel_plane_tol (align_tol + d) m a v) obs.
Proof.
  cbn [check_C14]. destruct (build_state s) as [m|]; [|discriminate].
  intro H. exists m. split; [reflexivity|]. cbv zeta in *. apply check_res_sound. exact H.
Qed.

Lemma check_sel_range_sound_gen exact s a x1 x2 obs :
  check_C14 (CSelRange exact s a x1 x2 obs) = true ->
  exists m, build_state s = OK m /\
    let d := delta exact (reg_coords (reg m)) in
    res_rel_tol exact (sel_range_tol (align_tol - d) m a x1 x2) (sel_range_tol (align_tol + d) m a x1 x2) obs.
Proof.
  cbn [check_C14]. destruct (build_state s) as [m|]; [|discriminate].
  intro H. exists m. split; [reflexivity|]. cbv zeta in *. apply check_res_sound. exact H.
Qed.

Lemma check_persist_h5_sound_gen exact s obs :
  check_C14 (CPersistH5 exact s obs) = true ->
  exists m, build_state s = OK m /\
    let d := delta exact (reg_coords (reg m)) in
    let m0 := mkMesh (reg m) (n m) (bc m) [] in
    res_rel_tol exact (h5_load_tol (align_tol - d) m0 (h5_rows (subs m)))
                      (h5_load_tol (align_tol + d) m0 (h5_rows (subs m))) obs.
Proof.
  cbn [check_C14]. destruct (build_state s) as [m|]; [|discriminate].
  intro H. exists m. split; [reflexivity|]. cbv zeta in *. apply check_res_sound. exact H.
Qed.

(* an observed transformed mesh (either regime) matches the model's; observed refusals in the
   scale regime may also stem from unresolved cells and certify nothing *)
Lemma check_transform_sound_gen exact s inplace o ob :
  check_C14 (CTransform exact s inplace o (Some ob)) = true ->
  exists m, build_state s = OK m /\
    let d0 := delta exact (reg_coords (reg m) ++ op_coords o) in
    let d := delta exact (reg_coords (reg m) ++ op_coords o ++
                          res_coords (transform_tol (align_tol + d0) true o m)) in
    res_rel_tol exact (transform_tol (align_tol - d) inplace o m) (transform_tol (align_tol + d) inplace o m) (Some ob).
Proof.
  cbn [check_C14]. destruct (build_state s) as [m|]; [|discriminate].
  intro H. exists m. split; [reflexivity|]. cbv zeta in *. apply (check_res_sound _ _ _ (Some ob)). exact H.
Qed.

(* ---------- the name -> box comparison is a bijection when the model's names are distinct
   (a dictionary): every OBSERVED entry is one of the model's entries ---------- *)
Lemma NoDup_map_inj_in {A B} (f : A -> B) l x y :
  NoDup (map f l) -> In x l -> In y l -> f x = f y -> x = y.
Proof.
  induction l as [|a l IH]; simpl; intros ND Hx Hy E; [tauto|].
  inversion ND as [|? ? Hn ND']; subst.
  destruct Hx as [Hx|Hx], Hy as [Hy|Hy]; subst; auto.
  - exfalso. apply Hn. rewrite E. apply in_map. exact Hy.
  - exfalso. apply Hn. rewrite <- E. apply in_map. exact Hx.
Qed.

Theorem subs_rel_onto exact sc l o : subs_rel exact sc l o -> NoDup (map fst l) ->
  NoDup (map (fun ob : sub_obs => fst (fst ob)) o) /\
  forall ob, In ob o -> exists nr, In nr l /\ sub_rel exact sc nr ob.
Proof.
  intros [Hlen Hall] ND.
  set (fo := fun ob : sub_obs => fst (fst ob)).
  assert (Hincl : incl (map fst l) (map fo o)).
  { intros x Hx. apply in_map_iff in Hx. destruct Hx as [nr [<- Hnr]].
    destruct (Hall nr Hnr) as (ob' & Hob' & Hn & _). rewrite Hn. apply (in_map fo). exact Hob'. }
  assert (Hlen' : (length (map fo o) <= length (map fst l))%nat) by (rewrite !map_length; lia).
  pose proof (NoDup_incl_NoDup ND Hlen' Hincl) as NDo.
  pose proof (NoDup_length_incl ND Hlen' Hincl) as Hincl'.
  split; [exact NDo|]. intros ob Hob.
  assert (Hin : In (fo ob) (map fst l)) by (apply Hincl'; apply in_map; exact Hob).
  apply in_map_iff in Hin. destruct Hin as [nr [En Hnr]].
  destruct (Hall nr Hnr) as (ob' & Hob' & Hrel).
  assert (ob' = ob).
  { apply (NoDup_map_inj_in fo o); try assumption. destruct Hrel as [Hn _]. unfold fo in *. cbv beta in *. congruence. }
  subst. exists nr. split; assumption.
Qed.

(* a whole shard: no failing index means every case was accepted *)
Lemma shard_verdict cases k :
  failing k (map check_C14 cases) = [] -> forall c, In c cases -> check_C14 c = true.
Proof. exact (failing_nil_all check_C14 cases k). Qed.
