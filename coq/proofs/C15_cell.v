(* C15: cell-level algebra of the norm setter and of orientation over an arbitrary field K
   (squared form: no square root needed), and the field-level structure lemmas
   (cell-wise action, metadata pass-through, constructor order, no memory of earlier norms). *)
From Coq Require Import Field.
From DF Require Import Prelude FieldK NDArray Region Mesh Norm.

Section Cell.
Variable K : FOps.
Hypothesis HK : field_theory (f0 K) (f1 K) (@fadd K) (@fmul K) (@fsub K) (@fopp K) (@fdiv K) (@finv K) eq.
Add Field Kfield15 : HK.
Notation "0" := (f0 K).
Notation "1" := (f1 K).
Infix "+" := fadd. Infix "*" := fmul. Infix "-" := fsub. Infix "/" := fdiv.
Implicit Types (v : list K) (n t c x s : K) (small isz : K -> bool).

Lemma fdiv_def15 (a b : K) : a / b = a * finv b.
Proof. exact (Fdiv_def HK a b). Qed.

Lemma sumsq_cons x v : sumsq K (x :: v) = x * x + sumsq K v.
Proof. reflexivity. Qed.

Lemma sumsq_scale c v : sumsq K (map (fmul c) v) = c * c * sumsq K v.
Proof.
  induction v as [|x v IH]; unfold sumsq in *; simpl.
  - ring.
  - rewrite IH. ring.
Qed.

Lemma sumsq_zeros v : sumsq K (zeros v) = 0.
Proof.
  induction v as [|x v IH]; unfold sumsq, zeros in *; simpl.
  - reflexivity.
  - rewrite IH. ring.
Qed.

Lemma sumsq_all_zero v : Forall (fun x => x = 0) v -> sumsq K v = 0.
Proof.
  induction 1 as [|x v Hx _ IH]; unfold sumsq in *; simpl.
  - reflexivity.
  - rewrite IH, Hx. ring.
Qed.

Lemma sq_nonzero (n s : K) : n * n = s -> s <> 0 -> n <> 0.
Proof. intros H Hs Hn. apply Hs. rewrite <- H, Hn. ring. Qed.

(* ---------- unit_cell / orientation ---------- *)
Lemma unit_cell_scaling small n v :
  small n = false -> n <> 0 -> unit_cell small n v = map (fmul (1 / n)) v.
Proof.
  intros Hs Hn. unfold unit_cell. rewrite Hs. apply map_ext. intros x. field. exact Hn.
Qed.

Lemma unit_cell_small small n v : small n = true -> unit_cell small n v = zeros v.
Proof. intros Hs. unfold unit_cell, zeros. rewrite Hs. reflexivity. Qed.

Lemma unit_cell_sumsq small n v :
  n * n = sumsq K v -> n <> 0 -> small n = false -> sumsq K (unit_cell small n v) = 1.
Proof.
  intros H Hn Hs. rewrite unit_cell_scaling by assumption. rewrite sumsq_scale, <- H. field. exact Hn.
Qed.

Lemma unit_times_norm small n v :
  small n = false -> n <> 0 -> scale_cell n (unit_cell small n v) = v.
Proof.
  intros Hs Hn. rewrite unit_cell_scaling by assumption. unfold scale_cell. rewrite map_map.
  rewrite <- (map_id v) at 2. apply map_ext. intros x. field. exact Hn.
Qed.

Lemma unit_times_norm_small small n v :
  small n = true -> scale_cell n (unit_cell small n v) = zeros v.
Proof.
  intros Hs. rewrite unit_cell_small by assumption. unfold scale_cell, zeros. rewrite map_map.
  apply map_ext. intros x. ring.
Qed.

Lemma unit_cell_length small n v : length (unit_cell small n v) = length v.
Proof. unfold unit_cell. apply map_length. Qed.

(* ---------- set_cell ---------- *)
Lemma set_cell_scaling isz n t v :
  isz n = false -> n <> 0 -> set_cell isz n t v = map (fmul (t / n)) v.
Proof.
  intros Hs Hn. unfold set_cell. rewrite unit_cell_scaling by assumption. unfold scale_cell.
  rewrite map_map. apply map_ext. intros x. field. exact Hn.
Qed.

Lemma set_cell_sumsq isz n t v :
  n * n = sumsq K v -> n <> 0 -> isz n = false -> sumsq K (set_cell isz n t v) = t * t.
Proof.
  intros H Hn Hs. rewrite set_cell_scaling by assumption. rewrite sumsq_scale, <- H. field. exact Hn.
Qed.

Lemma nth_scale c v i : nth i (map (fmul c) v) 0 = c * nth i v 0.
Proof.
  revert i. induction v as [|x v IH]; intros [|i]; simpl; try ring; try reflexivity. apply IH.
Qed.

(* all 2x2 minors of (v'; v) vanish: v' is parallel to v *)
Lemma set_cell_parallel isz n t v i j :
  isz n = false -> n <> 0 ->
  nth i (set_cell isz n t v) 0 * nth j v 0 = nth j (set_cell isz n t v) 0 * nth i v 0.
Proof.
  intros Hs Hn. rewrite set_cell_scaling by assumption. rewrite !nth_scale. ring.
Qed.

Lemma set_cell_zero isz n t v :
  Forall (fun x => x = 0) v -> set_cell isz n t v = zeros v.
Proof.
  intros Hz. unfold set_cell, scale_cell, unit_cell, zeros. rewrite map_map.
  induction Hz as [|x v Hx _ IH]; simpl.
  - reflexivity.
  - rewrite IH. f_equal. rewrite Hx. destruct (isz n).
    + ring.
    + rewrite fdiv_def15. ring.
Qed.

(* target zero: the cell becomes (and by set_cell_zero stays) zero *)
Lemma set_cell_target_zero isz n v : set_cell isz n 0 v = zeros v.
Proof.
  unfold set_cell, scale_cell, unit_cell, zeros. rewrite map_map. apply map_ext. intros x. ring.
Qed.

Lemma set_cell_length isz n t v : length (set_cell isz n t v) = length v.
Proof. unfold set_cell, scale_cell. rewrite map_length. apply unit_cell_length. Qed.

(* a second assignment only sees the direction: targets compose as expected *)
Lemma set_cell_twice isz n t (n' t' : K) v :
  isz n = false -> n <> 0 -> isz n' = false -> n' <> 0 ->
  set_cell isz n' t' (set_cell isz n t v) = map (fmul ((t' / n') * (t / n))) v.
Proof.
  intros H1 H2 H3 H4. rewrite (set_cell_scaling isz n' t' _ H3 H4). rewrite (set_cell_scaling isz n t v H1 H2).
  rewrite map_map. apply map_ext. intros x. ring.
Qed.

End Cell.

(* ---------- field level (no field laws needed) ---------- *)
Section FieldLevel.
Variable K : FOps.
Variable nrm : list K -> K.
Variable is0 close0 : K -> bool.

Lemma norm_field_meta (f : field K) :
  f_mesh (norm_field nrm f) = f_mesh f /\ f_nvdim (norm_field nrm f) = 1%nat /\
  f_unit (norm_field nrm f) = f_unit f /\ f_valid (norm_field nrm f) = f_valid f /\
  f_arr (norm_field nrm f) = map (fun v => [nrm v]) (f_arr f).
Proof. repeat split. Qed.

Lemma orientation_meta (f : field K) :
  f_mesh (orientation nrm close0 f) = f_mesh f /\ f_nvdim (orientation nrm close0 f) = f_nvdim f /\
  f_valid (orientation nrm close0 f) = f_valid f /\
  f_arr (orientation nrm close0 f) = map (fun v => unit_cell close0 (nrm v) v) (f_arr f).
Proof. repeat split. Qed.

Lemma set_norm_ok (f f' : field K) s :
  set_norm nrm is0 f s = OK f' ->
  exists ts, spec_values (f_mesh f) s = OK ts /\
    f_mesh f' = f_mesh f /\ f_nvdim f' = f_nvdim f /\ f_unit f' = f_unit f /\ f_valid f' = f_valid f /\
    f_arr f' = map2 (fun v t => set_cell is0 (nrm v) t v) (f_arr f) ts.
Proof.
  unfold set_norm. destruct (spec_values (f_mesh f) s) as [ts|e]; simpl; [|discriminate].
  intros H. injection H as <-. exists ts. repeat split.
Qed.

Lemma nth_map2 {A B C} (g : A -> B -> C) l1 l2 j da db dc :
  (j < length l1)%nat -> (j < length l2)%nat ->
  nth j (map2 g l1 l2) dc = g (nth j l1 da) (nth j l2 db).
Proof.
  revert l2 j. induction l1 as [|a l1 IH]; intros [|b l2] [|j] H1 H2; simpl in *; try lia.
  - reflexivity.
  - apply IH; lia.
Qed.

Lemma map2_length {A B C} (g : A -> B -> C) l1 l2 :
  length (map2 g l1 l2) = Nat.min (length l1) (length l2).
Proof.
  revert l2. induction l1 as [|a l1 IH]; intros [|b l2]; simpl; try reflexivity. rewrite IH. reflexivity.
Qed.

(* the setter acts cell by cell: cell j gets set_cell with its own length and its own target *)
Lemma set_norm_cellwise (f f' : field K) s ts j :
  set_norm nrm is0 f s = OK f' -> spec_values (f_mesh f) s = OK ts ->
  (j < length (f_arr f))%nat -> (j < length ts)%nat ->
  nth j (f_arr f') [] = set_cell is0 (nrm (nth j (f_arr f) [])) (nth j ts (f0 K)) (nth j (f_arr f) []).
Proof.
  intros H Hts Hj Hj'. destruct (set_norm_ok _ _ _ H) as (ts' & Hts' & _ & _ & _ & _ & Ha).
  rewrite Hts in Hts'. injection Hts' as <-. rewrite Ha.
  apply (nth_map2 (fun v t => set_cell is0 (nrm v) t v)); assumption.
Qed.

Lemma nth_repeat_lt {A} (a d : A) k j : (j < k)%nat -> nth j (repeat a k) d = a.
Proof. revert j. induction k as [|k IH]; intros [|j] H; simpl; try lia; [reflexivity|apply IH; lia]. Qed.

Lemma spec_values_const m (t : K) ts j :
  spec_values m (NConst t) = OK ts -> length ts = ncells m /\ ((j < ncells m)%nat -> nth j ts (f0 K) = t).
Proof.
  simpl. intros H. injection H as <-. split.
  - apply repeat_length.
  - intros Hj. apply nth_repeat_lt. exact Hj.
Qed.

Lemma spec_values_arr m (l ts : list K) :
  spec_values m (NArr l) = OK ts -> ts = l /\ length l = ncells m.
Proof.
  simpl. destruct (Nat.eqb_spec (length l) (ncells m)); [|discriminate].
  intros H. injection H as <-. split; [reflexivity|assumption].
Qed.

Lemma spec_values_arr_rejects m (l : list K) :
  length l <> ncells m -> spec_values m (NArr l) = Err ValueE.
Proof. simpl. intros H. destruct (Nat.eqb_spec (length l) (ncells m)); [contradiction|reflexivity]. Qed.

Lemma spec_values_fun m (g : list Q -> K) ts j :
  spec_values m (NFun g) = OK ts ->
  length ts = length (indices (shape m)) /\
  ((j < length (indices (shape m)))%nat -> nth j ts (f0 K) = g (centre m (nth j (indices (shape m)) []))).
Proof.
  simpl. intros H. injection H as <-. unfold centres. split.
  - rewrite !map_length. reflexivity.
  - intros Hj. rewrite map_map.
    rewrite (nth_indep _ (f0 K) (g (centre m [])));
      [|rewrite map_length; exact Hj].
    apply (map_nth (fun i => g (centre m i))).
Qed.

(* ---------- no memory of an earlier norm ---------- *)
Lemma update_values_verbatim (f f' : field K) a :
  update_values f a = OK f' ->
  f_arr f' = a /\ f_mesh f' = f_mesh f /\ f_nvdim f' = f_nvdim f /\ f_unit f' = f_unit f /\ f_valid f' = f_valid f.
Proof.
  unfold update_values. destruct (arr_ok (f_mesh f) (f_nvdim f) a); [|discriminate].
  intros H. injection H as <-. repeat split.
Qed.

Lemma run_ops_app (f : field K) os1 os2 :
  run_ops nrm is0 close0 f (os1 ++ os2) =
  bind (run_ops nrm is0 close0 f os1) (fun f' => run_ops nrm is0 close0 f' os2).
Proof.
  revert f. induction os1 as [|o os1 IH]; intros f; simpl.
  - reflexivity.
  - destruct (run_op nrm is0 close0 f o) as [f'|e]; simpl; [apply IH|reflexivity].
Qed.

(* whatever happened before (any number of norm assignments), an update stores the new values verbatim *)
Lemma not_sticky (f f' : field K) os a :
  run_ops nrm is0 close0 f (os ++ [OUpdate a]) = OK f' -> f_arr f' = a.
Proof.
  rewrite run_ops_app. destruct (run_ops nrm is0 close0 f os) as [f1|e]; simpl; [|discriminate].
  destruct (update_values f1 a) as [f2|e] eqn:E; simpl; [|discriminate].
  intros H. injection H as <-. apply (update_values_verbatim _ _ _ E).
Qed.

Lemma run_op_shape_inv (f f' : field K) o :
  run_op nrm is0 close0 f o = OK f' -> f_mesh f' = f_mesh f /\ f_nvdim f' = f_nvdim f /\ f_unit f' = f_unit f.
Proof.
  destruct o as [s|a|vs|g]; simpl.
  4: { intros H; injection H as <-; auto. }
  - intros H. destruct (set_norm_ok _ _ _ H) as (ts & _ & ? & ? & ? & _). auto.
  - intros H. destruct (update_values_verbatim _ _ _ H) as (_ & ? & ? & ? & _). auto.
  - unfold set_valid. destruct vs as [|l|].
    + intros H; injection H as <-; auto.
    + destruct (length l =? ncells (f_mesh f))%nat; [|discriminate]. intros H; injection H as <-; auto.
    + intros H; injection H as <-; auto.
Qed.

Lemma run_ops_shape_inv (f f' : field K) os :
  run_ops nrm is0 close0 f os = OK f' -> f_mesh f' = f_mesh f /\ f_nvdim f' = f_nvdim f /\ f_unit f' = f_unit f.
Proof.
  revert f. induction os as [|o os IH]; intros f; simpl.
  - intros H; injection H as <-; auto.
  - destruct (run_op nrm is0 close0 f o) as [f1|e] eqn:E; simpl; [|discriminate].
    intros H. destruct (IH _ H) as (? & ? & ?). destruct (run_op_shape_inv _ _ _ E) as (? & ? & ?).
    repeat split; congruence.
Qed.

(* two objects on the same mesh with the same component count – one that went through any history of
   norm assignments, one that did not – hold the same values after the same update *)
Lemma update_forgets_history (f g g' : field K) os a :
  run_ops nrm is0 close0 f os = OK g ->
  update_values g a = OK g' -> exists f', update_values f a = OK f' /\ f_arr f' = f_arr g'.
Proof.
  intros H Hg. destruct (run_ops_shape_inv _ _ _ H) as (Hm & Hn & Hu).
  unfold update_values in *. rewrite Hm, Hn in Hg.
  destruct (arr_ok (f_mesh f) (f_nvdim f) a); [|discriminate].
  injection Hg as <-. eexists. split; reflexivity.
Qed.

(* ---------- in-place writes: no stale lengths ---------- *)
(* after any history followed by an in-place write, the norm getter and orientation are computed from
   the written array (the model has no cached lengths) *)
Lemma no_stale_lengths (f f' : field K) os g :
  run_ops nrm is0 close0 f (os ++ [OWrite g]) = OK f' ->
  exists f1, run_ops nrm is0 close0 f os = OK f1 /\ f_arr f' = g (f_arr f1) /\
    f_arr (norm_field nrm f') = map (fun v => [nrm v]) (g (f_arr f1)) /\
    f_arr (orientation nrm close0 f') = map (fun v => unit_cell close0 (nrm v) v) (g (f_arr f1)) /\
    f_valid f' = f_valid f1.
Proof.
  rewrite run_ops_app. destruct (run_ops nrm is0 close0 f os) as [f1|e]; simpl; [|discriminate].
  intros H. injection H as <-. exists f1. repeat split.
Qed.

(* a norm assignment after an in-place write uses the lengths of the written cells *)
Lemma set_norm_after_write (f f' : field K) os g s :
  run_ops nrm is0 close0 f (os ++ [OWrite g; OSetNorm s]) = OK f' ->
  exists f1 ts, run_ops nrm is0 close0 f os = OK f1 /\ spec_values (f_mesh f1) s = OK ts /\
    f_arr f' = map2 (fun v t => set_cell is0 (nrm v) t v) (g (f_arr f1)) ts.
Proof.
  rewrite run_ops_app. destruct (run_ops nrm is0 close0 f os) as [f1|e]; simpl; [|discriminate].
  destruct (set_norm nrm is0 _ s) as [f2|e] eqn:E; simpl; [|discriminate].
  intros H. injection H as <-. destruct (set_norm_ok _ _ _ E) as (ts & Hts & _ & _ & _ & _ & Ha).
  exists f1, ts. repeat split; assumption.
Qed.

(* ---------- constructor order: values, then norm, then validity ---------- *)
Definition blank (m : mesh) (nvdim : nat) (u : option string) : field K :=
  mkField m nvdim u (repeat true (ncells m)) [].

Definition init_ops (a : list (list K)) (ns : option (nspec K)) (vs : vspec) : list (op K) :=
  [OUpdate a] ++ match ns with None => [] | Some s => [OSetNorm s] end ++ [OSetValid vs].

Lemma mk_field_as_ops m nvdim u a ns vs :
  nvdim <> 0%nat ->
  mk_field nrm is0 close0 m nvdim u a ns vs = run_ops nrm is0 close0 (blank m nvdim u) (init_ops a ns vs).
Proof.
  intros Hn. unfold mk_field, init_ops, blank. destruct (Nat.eqb_spec nvdim 0); [contradiction|].
  simpl. destruct (update_values _ a) as [f1|e]; simpl; [|reflexivity].
  destruct ns as [s|]; simpl.
  - destruct (set_norm nrm is0 f1 s) as [f2|e]; simpl; [|reflexivity].
    destruct (set_valid nrm close0 f2 vs); reflexivity.
  - destruct (set_valid nrm close0 f1 vs); reflexivity.
Qed.

(* valid = "norm" in the constructor is evaluated on the values AFTER the norm was applied *)
Lemma mk_field_valid_after_norm m nvdim u a ns (f : field K) :
  mk_field nrm is0 close0 m nvdim u a ns VNorm = OK f ->
  f_valid f = map (fun v => negb (close0 (nrm v))) (f_arr f).
Proof.
  unfold mk_field. destruct (nvdim =? 0)%nat; [discriminate|].
  destruct (update_values _ a) as [f1|e]; simpl; [|discriminate].
  destruct ns as [s|]; simpl.
  - destruct (set_norm nrm is0 f1 s) as [f2|e]; simpl; [|discriminate].
    intros H; injection H as <-. reflexivity.
  - intros H; injection H as <-. reflexivity.
Qed.

Lemma mk_field_values m nvdim u a vs (f : field K) :
  mk_field nrm is0 close0 m nvdim u a None vs = OK f -> f_arr f = a /\ f_mesh f = m /\ f_unit f = u /\ f_nvdim f = nvdim.
Proof.
  unfold mk_field. destruct (nvdim =? 0)%nat; [discriminate|].
  destruct (update_values _ a) as [f1|e] eqn:E; simpl; [|discriminate].
  destruct (update_values_verbatim _ _ _ E) as (Ha & Hm & Hn & Hu & _). simpl in *.
  unfold set_valid. destruct vs as [|l|].
  - intros H; injection H as <-; auto.
  - destruct (length l =? ncells (f_mesh f1))%nat; [|discriminate]. intros H; injection H as <-; auto.
  - intros H; injection H as <-; auto.
Qed.

End FieldLevel.
