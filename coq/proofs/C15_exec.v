(* C15: the executable (Qc, exact rational root) instance satisfies the hypotheses of the generic
   theorems; the checker's single pass computes the model's run_ops; concrete witnesses. *)
From Coq Require Import Qcanon.
From DF Require Import Prelude FieldK NDArray Region Mesh Norm C15_cell C15_qsqrt Check_C15.

Lemma exec_set_length (v : list Qc) (t : Qc) :
  qc_nrm_defined v = true -> qc_nrm v <> Q2Qc 0 ->
  sumsq QcOps (set_cell (K:=QcOps) qc_is0 (qc_nrm v) t v) = Qcmult t t.
Proof.
  intros Hd Hn.
  apply (set_cell_sumsq QcOps QcLaws qc_is0 (qc_nrm v) t v (qc_nrm_spec v Hd) Hn (qc_is0_false _ Hn)).
Qed.

Lemma exec_set_scaling (v : list Qc) (t : Qc) :
  qc_nrm v <> Q2Qc 0 ->
  set_cell (K:=QcOps) qc_is0 (qc_nrm v) t v = map (Qcmult (Qcdiv t (qc_nrm v))) v.
Proof.
  intros Hn. apply (set_cell_scaling QcOps QcLaws qc_is0 (qc_nrm v) t v (qc_is0_false _ Hn) Hn).
Qed.

(* after an assignment the new cell again has a rational length (|t|), so histories of assignments
   never leave the domain of the exact root *)
Lemma exec_defined_after_set (v : list Qc) (t : Qc) :
  qc_nrm_defined v = true -> qc_nrm v <> Q2Qc 0 ->
  qc_nrm_defined (set_cell (K:=QcOps) qc_is0 (qc_nrm v) t v) = true.
Proof.
  intros Hd Hn. apply (qc_nrm_defined_of_root _ (Qabs (this t))).
  - apply Qabs_nonneg.
  - rewrite (exec_set_length v t Hd Hn). unfold Qcmult, Q2Qc. cbn [this]. rewrite Qred_correct.
    rewrite <- Qabs_Qmult. apply Qabs_pos. nra.
Qed.

Lemma run_def_snd (f : field QcOps) os :
  snd (run_def f os) = run_ops (K:=QcOps) qc_nrm qc_is0 qc_close0 f os.
Proof.
  revert f. induction os as [|o os IH]; intros f; simpl.
  - reflexivity.
  - destruct (run_op (K:=QcOps) qc_nrm qc_is0 qc_close0 f o) as [f'|e]; simpl.
    + rewrite <- IH. destruct (run_def f' os). reflexivity.
    + reflexivity.
Qed.

(* ---------- witnesses (non-vacuity) ---------- *)
Definition w_v : list Qc := qcl [3; 4; 0]%Q.

Example w_norm : qc_nrm_defined w_v = true /\ qc_nrm w_v = qc 5.
Proof. split; vm_compute; reflexivity. Qed.

Example w_set : qclist_eqb (set_cell (K:=QcOps) qc_is0 (qc_nrm w_v) (qc 10) w_v) (qcl [6; 8; 0]%Q) = true.
Proof. vm_compute. reflexivity. Qed.

Example w_hyps : Qcmult (qc_nrm w_v) (qc_nrm w_v) = sumsq QcOps w_v /\ qc_nrm w_v <> Q2Qc 0 /\
                 qc_is0 (qc_nrm w_v) = false /\ qc_close0 (qc_nrm w_v) = false.
Proof.
  split; [vm_compute; reflexivity|]. split; [|split; vm_compute; reflexivity].
  intro H. apply (f_equal (@this)) in H. vm_compute in H. discriminate.
Qed.

Example w_orient : qclist_eqb (unit_cell (K:=QcOps) qc_close0 (qc_nrm w_v) w_v) (qcl [3 # 5; 4 # 5; 0]%Q) = true.
Proof. vm_compute. reflexivity. Qed.

(* a sub-threshold vector (length 5e-9): orientation is zero, the norm assignment still rescales it *)
Definition w_tiny : list Qc := qcl [3 # 1000000000; 4 # 1000000000]%Q.
Example w_tiny_orient :
  qclist_eqb (unit_cell (K:=QcOps) qc_close0 (qc_nrm w_tiny) w_tiny) (qcl [0; 0]%Q) = true /\
  qclist_eqb (set_cell (K:=QcOps) qc_is0 (qc_nrm w_tiny) (qc 5) w_tiny) (qcl [3; 4]%Q) = true.
Proof. split; vm_compute; reflexivity. Qed.

(* a history: constructor with norm, update, norm again; the update is stored verbatim *)
Definition w_mesh : mesh := mkMesh (mkRegion [0] [2] ["x"%string] ["m"%string] (1 # 1000000000000)) [2%Z] "" [].
Example w_history :
  match run_ops (K:=QcOps) qc_nrm qc_is0 qc_close0
          (mkField (K:=QcOps) w_mesh 2 None [true; true] [qcl [3; 4]%Q; qcl [0; 0]%Q])
          [OSetNorm (@NConst QcOps (qc 10)); @OUpdate QcOps [qcl [0; 2]%Q; qcl [5; 12]%Q]] with
  | OK f => forallb2 qclist_eqb (f_arr f) [qcl [0; 2]%Q; qcl [5; 12]%Q]
  | Err _ => false
  end = true.
Proof. vm_compute. reflexivity. Qed.

(* qsqrt is partial: 2 has no rational root *)
Example w_qsqrt_partial : qsqrt 2 = None /\ qsqrt (9 # 4) = Some (3 # 2).
Proof. split; vm_compute; reflexivity. Qed.

(* the model's threshold is the binary64 number written 1e-8 in numpy.isclose: within 1e-24 of 10^-8 *)
Example w_atol : Qle_bool (Qabs (orient_atol - (1 # 100000000))) (1 # 1000000000000000000000000) = true
                 /\ Qden orient_atol = (2 ^ 78)%positive.
Proof. split; vm_compute; reflexivity. Qed.
