(* C15: the exact partial rational square root (soundness, completeness on squares) and the
   executable Qc instance of the length function. *)
From Coq Require Import Qcanon Qreduction Znumtheory.
From DF Require Import Prelude FieldK Norm.
Open Scope Q_scope.

Lemma zsqrt_exact_spec z r : zsqrt_exact z = Some r -> (r * r = z /\ 0 <= r)%Z.
Proof.
  unfold zsqrt_exact. destruct (Z.eqb_spec (Z.sqrt z * Z.sqrt z) z) as [E|]; [|discriminate].
  intros H; injection H as <-. split; [exact E|apply Z.sqrt_nonneg].
Qed.

Lemma zsqrt_exact_complete r : (0 <= r)%Z -> zsqrt_exact (r * r) = Some r.
Proof.
  intros H. unfold zsqrt_exact. rewrite Z.sqrt_square by exact H. rewrite Z.eqb_refl. reflexivity.
Qed.

(* soundness: a returned value is THE non-negative root *)
Lemma qsqrt_spec x y : qsqrt x = Some y -> y * y == x /\ 0 <= y.
Proof.
  unfold qsqrt. destruct (zsqrt_exact (Qnum (Qred x))) as [a|] eqn:Ea; [|discriminate].
  destruct (zsqrt_exact (Zpos (Qden (Qred x)))) as [b|] eqn:Eb; [|discriminate].
  intros H; injection H as <-.
  destruct (zsqrt_exact_spec _ _ Ea) as [Ha Ha0]. destruct (zsqrt_exact_spec _ _ Eb) as [Hb Hb0].
  assert (Hbpos : (0 < b)%Z) by nia.
  split.
  - rewrite <- (Qred_correct x). unfold Qeq, Qmult; simpl.
    rewrite Pos2Z.inj_mul, Z2Pos.id by exact Hbpos. rewrite Ha, Hb. reflexivity.
  - unfold Qle; simpl. lia.
Qed.

Lemma qsqrt_unique x y z : qsqrt x = Some y -> 0 <= z -> z * z == x -> z == y.
Proof.
  intros H Hz Hzz. destruct (qsqrt_spec _ _ H) as [Hy Hy0].
  assert (E : (z - y) * (z + y) == 0) by (rewrite <- Hy in Hzz; lra).
  destruct (Qmult_integral _ _ E) as [E1|E1]; [lra|].
  assert (z == 0) by lra. assert (y == 0) by lra. lra.
Qed.

(* completeness: total on squares of rationals *)
Lemma rel_prime_square a b : rel_prime a b -> rel_prime (a * a) (b * b).
Proof.
  intros H. apply rel_prime_mult; apply rel_prime_sym; apply rel_prime_mult; apply rel_prime_sym; exact H.
Qed.

Lemma qsqrt_complete y : 0 <= y -> exists y', qsqrt (y * y) = Some y' /\ y' == y.
Proof.
  intros Hy. exists (Qred y). split; [|apply Qred_correct].
  remember (Qred y) as r eqn:Er. destruct r as [a b].
  assert (Hcan : Qred (a # b) = a # b) by (rewrite Er; apply Qred_involutive).
  assert (Ha : (0 <= a)%Z).
  { assert (0 <= a # b) by (rewrite Er, Qred_correct; exact Hy). unfold Qle in H; simpl in H. lia. }
  assert (Hsq : Qred (y * y) = (a * a) # (b * b)).
  { transitivity (Qred ((a * a) # (b * b))).
    - apply Qred_complete. rewrite <- (Qred_correct y), <- Er. reflexivity.
    - apply Qred_identity. simpl. apply Zgcd_1_rel_prime. rewrite Pos2Z.inj_mul.
      apply rel_prime_square. apply Zgcd_1_rel_prime. apply (Qred_identity2 (a # b)). exact Hcan. }
  unfold qsqrt. rewrite Hsq. simpl. rewrite (zsqrt_exact_complete a Ha).
  rewrite Pos2Z.inj_mul, (zsqrt_exact_complete (Zpos b)) by lia. reflexivity.
Qed.

(* ---------- the executable instance ---------- *)
Lemma qc_nrm_spec v : qc_nrm_defined v = true -> Qcmult (qc_nrm v) (qc_nrm v) = sumsq QcOps v.
Proof.
  unfold qc_nrm_defined, qc_nrm. destruct (qsqrt (this (sumsq QcOps v))) as [y|] eqn:E; [|discriminate].
  intros _. destruct (qsqrt_spec _ _ E) as [Hy _].
  apply Qc_is_canon. unfold Qcmult. unfold Q2Qc at 1. cbn [this]. rewrite Qred_correct. unfold Q2Qc. cbn [this]. rewrite !Qred_correct. exact Hy.
Qed.

Lemma qc_nrm_nonneg v : (0 <= this (qc_nrm v))%Q.
Proof.
  unfold qc_nrm. destruct (qsqrt (this (sumsq QcOps v))) as [y|] eqn:E.
  - destruct (qsqrt_spec _ _ E) as [_ Hy]. simpl. rewrite Qred_correct. exact Hy.
  - simpl. apply Qle_refl.
Qed.

Lemma qc_is0_false x : x <> Q2Qc 0 -> qc_is0 x = false.
Proof.
  intros H. unfold qc_is0. destruct (Qeq_bool (this x) 0) eqn:E; [|reflexivity].
  exfalso. apply H. apply Qc_is_canon. apply Qeq_bool_eq in E. rewrite E. reflexivity.
Qed.

Lemma qc_is0_true x : qc_is0 x = true <-> x = Q2Qc 0.
Proof.
  split.
  - intros E. apply Qc_is_canon. apply Qeq_bool_eq in E. rewrite E. reflexivity.
  - intros ->. reflexivity.
Qed.

(* the rational length of a rational vector whose squared length is a rational square is defined *)
Lemma qc_nrm_defined_of_root v (y : Q) :
  (0 <= y)%Q -> (y * y == this (sumsq QcOps v))%Q -> qc_nrm_defined v = true.
Proof.
  intros Hy Hs. unfold qc_nrm_defined. destruct (qsqrt_complete y Hy) as (y' & E & _).
  assert (E' : qsqrt (this (sumsq QcOps v)) = qsqrt (y * y)).
  { unfold qsqrt. rewrite (Qred_complete _ _ Hs). reflexivity. }
  rewrite E', E. reflexivity.
Qed.
