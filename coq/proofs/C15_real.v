(* C15 over the reals: Euclidean length = sqrt (sum of squares).  The generic squared-form lemmas
   of C15_cell are instantiated with n := sqrt (sumsq v); bridge from the rational root to sqrt. *)
From DF Require Import Prelude FieldK NDArray Region Mesh Norm C15_cell C15_qsqrt.
From Coq Require Import Reals Qreals Lra Field.

Definition RK : FOps := mkFOps R R0 R1 Rplus Rmult Rminus Rdiv Ropp Rinv.
Lemma RKLaws : FLaws RK.
Proof. exact Rfield. Qed.

Definition Rnorm (v : list R) : R := sqrt (sumsq RK v).
Definition Ris0 (x : R) : bool := if Req_EM_T x 0 then true else false.
(* numpy.isclose(x, 0, atol):  |x| <= atol *)
Definition Rclose0 (atol : R) (x : R) : bool := if Rle_dec (Rabs x) atol then true else false.

Open Scope R_scope.

Lemma sumsq_R_cons x v : sumsq RK (x :: v) = x * x + sumsq RK v.
Proof. reflexivity. Qed.

Lemma sumsq_nonneg v : 0 <= sumsq RK v.
Proof.
  induction v as [|x v IH].
  - unfold sumsq; simpl. apply Rle_refl.
  - rewrite sumsq_R_cons. pose proof (Rle_0_sqr x) as H. unfold Rsqr in H. lra.
Qed.

Lemma Rnorm_sq v : Rnorm v * Rnorm v = sumsq RK v.
Proof. unfold Rnorm. apply sqrt_sqrt. apply sumsq_nonneg. Qed.

Lemma Rnorm_nonneg v : 0 <= Rnorm v.
Proof. unfold Rnorm. apply sqrt_pos. Qed.

Lemma sumsq_zero_all v : sumsq RK v = 0 -> Forall (fun x => x = 0) v.
Proof.
  induction v as [|x v IH]; intros H.
  - constructor.
  - rewrite sumsq_R_cons in H. pose proof (sumsq_nonneg v) as Hv.
    pose proof (Rle_0_sqr x) as Hx. unfold Rsqr in Hx.
    constructor.
    + assert (E : x * x = 0) by lra. destruct (Rmult_integral _ _ E); assumption.
    + apply IH. lra.
Qed.

(* a cell has length zero exactly when all its components are zero *)
Lemma Rnorm_zero_iff v : Rnorm v = 0 <-> Forall (fun x => x = 0) v.
Proof.
  split.
  - intros H. apply sumsq_zero_all. rewrite <- Rnorm_sq, H. apply Rmult_0_l.
  - intros H. unfold Rnorm. rewrite (sumsq_all_zero RK RKLaws v H). apply sqrt_0.
Qed.

Lemma Ris0_false x : x <> 0 -> Ris0 x = false.
Proof. intros H. unfold Ris0. destruct (Req_EM_T x 0); [contradiction|reflexivity]. Qed.
Lemma Ris0_true x : x = 0 -> Ris0 x = true.
Proof. intros H. unfold Ris0. destruct (Req_EM_T x 0); [reflexivity|contradiction]. Qed.

Lemma Rnorm_of_sq (t : R) v : sumsq RK v = t * t -> Rnorm v = Rabs t.
Proof. intros H. unfold Rnorm. rewrite H. apply sqrt_Rsqr_abs. Qed.

(* scalars: the norm is the absolute value *)
Lemma Rnorm_scalar x : Rnorm [x] = Rabs x.
Proof. apply Rnorm_of_sq. unfold sumsq; simpl. ring. Qed.

(* ---------- setter ---------- *)
Lemma set_length_R (t : R) v :
  Rnorm v <> 0 -> Rnorm (set_cell (K:=RK) Ris0 (Rnorm v) t v) = Rabs t.
Proof.
  intros Hn. apply Rnorm_of_sq.
  apply (set_cell_sumsq RK RKLaws Ris0 (Rnorm v) t v (Rnorm_sq v) Hn (Ris0_false _ Hn)).
Qed.

Lemma set_direction_R (t : R) v :
  Rnorm v <> 0 ->
  set_cell (K:=RK) Ris0 (Rnorm v) t v = map (Rmult (t / Rnorm v)) v /\ (0 < t -> 0 < t / Rnorm v).
Proof.
  intros Hn. split.
  - apply (set_cell_scaling RK RKLaws Ris0 (Rnorm v) t v (Ris0_false _ Hn) Hn).
  - intros Ht. apply Rdiv_lt_0_compat; [exact Ht|]. pose proof (Rnorm_nonneg v). lra.
Qed.

Lemma set_zero_R (t : R) v : Rnorm v = 0 -> set_cell (K:=RK) Ris0 (Rnorm v) t v = zeros (K:=RK) v.
Proof. intros H. apply (set_cell_zero RK RKLaws). apply Rnorm_zero_iff. exact H. Qed.

(* both cases at once, for every cell and every target *)
Lemma set_cell_R_total (t : R) v :
  (Forall (fun x => x = 0) v /\ set_cell (K:=RK) Ris0 (Rnorm v) t v = zeros (K:=RK) v) \/
  (~ Forall (fun x => x = 0) v /\ Rnorm (set_cell (K:=RK) Ris0 (Rnorm v) t v) = Rabs t /\
   set_cell (K:=RK) Ris0 (Rnorm v) t v = map (Rmult (t / Rnorm v)) v).
Proof.
  destruct (Req_EM_T (Rnorm v) 0) as [E|E].
  - left. split; [apply Rnorm_zero_iff; exact E|apply set_zero_R; exact E].
  - right. split; [|split].
    + intros H. apply E. apply Rnorm_zero_iff. exact H.
    + apply set_length_R. exact E.
    + apply set_direction_R. exact E.
Qed.

(* for a positive target the unit vector (orientation) is unchanged by the assignment *)
Lemma set_keeps_unit_vector (t : R) v :
  0 < t -> Rnorm v <> 0 ->
  map (fun x => x / Rnorm (set_cell (K:=RK) Ris0 (Rnorm v) t v)) (set_cell (K:=RK) Ris0 (Rnorm v) t v)
  = map (fun x => x / Rnorm v) v.
Proof.
  intros Ht Hn. rewrite (set_length_R t v Hn). rewrite Rabs_right by lra.
  destruct (set_direction_R t v Hn) as [-> _]. rewrite map_map. apply map_ext. intros x.
  field. split; [exact Hn|lra].
Qed.

(* ---------- orientation ---------- *)
Lemma Rclose0_false atol x : atol < Rabs x -> Rclose0 atol x = false.
Proof. intros H. unfold Rclose0. destruct (Rle_dec (Rabs x) atol); [lra|reflexivity]. Qed.
Lemma Rclose0_true atol x : Rabs x <= atol -> Rclose0 atol x = true.
Proof. intros H. unfold Rclose0. destruct (Rle_dec (Rabs x) atol); [reflexivity|contradiction]. Qed.

Lemma orientation_unit_R atol v :
  0 <= atol -> atol < Rnorm v -> Rnorm (unit_cell (K:=RK) (Rclose0 atol) (Rnorm v) v) = 1.
Proof.
  intros Ha H. assert (Hn : Rnorm v <> 0) by lra.
  rewrite <- Rabs_R1. apply Rnorm_of_sq. replace (1 * 1) with 1 by ring.
  apply (unit_cell_sumsq RK RKLaws (Rclose0 atol) (Rnorm v) v (Rnorm_sq v) Hn).
  apply Rclose0_false. rewrite Rabs_right; [exact H|lra].
Qed.

Lemma orientation_zero_R atol v :
  Rnorm v <= atol -> unit_cell (K:=RK) (Rclose0 atol) (Rnorm v) v = zeros (K:=RK) v.
Proof.
  intros H. apply unit_cell_small. apply Rclose0_true.
  rewrite Rabs_right; [exact H|]. apply Rle_ge. apply Rnorm_nonneg.
Qed.

Lemma orientation_times_norm_R atol v :
  0 <= atol -> atol < Rnorm v ->
  scale_cell (K:=RK) (Rnorm v) (unit_cell (K:=RK) (Rclose0 atol) (Rnorm v) v) = v.
Proof.
  intros Ha H. assert (Hn : Rnorm v <> 0) by lra.
  apply (unit_times_norm RK RKLaws). 2: exact Hn.
  apply Rclose0_false. rewrite Rabs_right; [exact H|lra].
Qed.

(* inside the threshold band the product is zero, i.e. within atol of the (tiny) vector *)
Lemma orientation_times_norm_small_R atol v :
  Rnorm v <= atol ->
  scale_cell (K:=RK) (Rnorm v) (unit_cell (K:=RK) (Rclose0 atol) (Rnorm v) v) = zeros (K:=RK) v.
Proof.
  intros H. apply (unit_times_norm_small RK RKLaws). apply Rclose0_true.
  rewrite Rabs_right; [exact H|]. apply Rle_ge. apply Rnorm_nonneg.
Qed.

(* ---------- field level over R: every cell of the field after `f.norm = s` ---------- *)
Lemma set_norm_field_R (f f' : field RK) s ts j :
  set_norm (K:=RK) Rnorm Ris0 f s = OK f' -> spec_values (f_mesh f) s = OK ts ->
  (j < length (f_arr f))%nat -> (j < length ts)%nat ->
  let v := nth j (f_arr f) [] in let v' := nth j (f_arr f') [] in let t := nth j ts 0 in
  (Forall (fun x => x = 0) v /\ v' = zeros (K:=RK) v) \/
  (~ Forall (fun x => x = 0) v /\ Rnorm v' = Rabs t /\ v' = map (Rmult (t / Rnorm v)) v).
Proof.
  intros H Hts Hj Hj'. cbv zeta.
  rewrite (set_norm_cellwise RK Rnorm Ris0 f f' s ts j H Hts Hj Hj').
  apply set_cell_R_total.
Qed.

(* orientation field over R, cell j *)
Lemma orientation_field_R atol (f : field RK) j :
  0 <= atol -> (j < length (f_arr f))%nat ->
  let v := nth j (f_arr f) [] in let o := nth j (f_arr (orientation (K:=RK) Rnorm (Rclose0 atol) f)) [] in
  (atol < Rnorm v -> Rnorm o = 1 /\ scale_cell (K:=RK) (Rnorm v) o = v) /\
  (Rnorm v <= atol -> o = zeros (K:=RK) v).
Proof.
  intros Ha Hj. cbv zeta.
  assert (E : nth j (f_arr (orientation (K:=RK) Rnorm (Rclose0 atol) f)) []
              = unit_cell (K:=RK) (Rclose0 atol) (Rnorm (nth j (f_arr f) [])) (nth j (f_arr f) [])).
  { simpl. rewrite (nth_indep _ [] (unit_cell (K:=RK) (Rclose0 atol) (Rnorm []) []))
      by (rewrite map_length; exact Hj).
    apply (map_nth (fun v => unit_cell (K:=RK) (Rclose0 atol) (Rnorm v) v)). }
  rewrite E. split.
  - intros H. split; [apply orientation_unit_R|apply orientation_times_norm_R]; assumption.
  - apply orientation_zero_R.
Qed.

(* ---------- bridge: the exact rational root IS the real square root ---------- *)
Lemma qsqrt_bridge (x y : Q) : qsqrt x = Some y -> Q2R y = sqrt (Q2R x).
Proof.
  intros H. destruct (qsqrt_spec _ _ H) as [Hy Hy0].
  apply Qeq_eqR in Hy. rewrite Q2R_mult in Hy. rewrite <- Hy.
  symmetry. apply sqrt_square. apply Qle_Rle in Hy0. replace (Q2R 0) with 0 in Hy0; [exact Hy0|].
  unfold Q2R; simpl. field.
Qed.

Close Scope R_scope.
