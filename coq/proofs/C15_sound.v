(* C15: soundness of check_C15 -- an accepted history case certifies that the OBSERVED array,
   validity mask, norm field and orientation field are the model's (verbatim data: equal;
   quotients and lengths: within the stated tolerance of the cell's size), so the C15 theorems
   apply to the observation itself. *)
From Coq Require Import Qcanon.
From DF Require Import Prelude FieldK NDArray Region Mesh Norm ListLemmas CheckSound
  C15_cell C15_qsqrt C15_exec Check_C15.
Open Scope Q_scope.

Ltac split_andb :=
  repeat match goal with
         | H : _ && _ = true |- _ => apply andb_true_iff in H; destruct H
         end.

(* ---------- the model history a CHist case stands for ---------- *)
Definition model_ops (nvdim : nat) (vals : list Q) (norm0 : option nspec_c) (v0 : vspec)
           (ops : list op_c) : list (op QK) :=
  init_ops QK (map qcl (cells_of nvdim vals)) (option_map to_nspec norm0) v0 ++ map (to_op nvdim) ops.

Definition approx_of (norm0 : option nspec_c) (ops : list op_c) : bool :=
  approx_after (match norm0 with Some _ => true | None => false end) ops.

Lemma optstr_eqb_sound a b : optstr_eqb a b = true -> a = b.
Proof.
  destruct a as [x|], b as [y|]; simpl; try discriminate; [|reflexivity].
  intro H. apply String.eqb_eq in H. congruence.
Qed.

(* raw form: everything the checker compared, the comparisons still as booleans *)
Lemma check_hist_sound_raw p1 p2 n_ nvdim unit_ vals norm0 v0 ops o :
  check_C15 (CHist p1 p2 n_ nvdim unit_ vals norm0 v0 ops (Some o)) = true ->
  exists m f,
    build p1 p2 n_ = OK m /\ nvdim <> 0%nat /\
    run_ops (K:=QK) qc_nrm qc_is0 qc_close0 (blank QK m nvdim unit_) (model_ops nvdim vals norm0 v0 ops) = OK f /\
    all_defined f = true /\
    arr_close (approx_of norm0 ops) (f_arr f) nvdim (o_arr o) = true /\
    f_valid f = o_valid o /\
    norm_close (approx_of norm0 ops) (f_arr (norm_field (K:=QK) qc_nrm f)) (o_norm o) = true /\
    f_nvdim (norm_field (K:=QK) qc_nrm f) = o_norm_nvdim o /\
    n (f_mesh (norm_field (K:=QK) qc_nrm f)) = o_norm_n o /\
    Forall2 Qeq (pmin (reg (f_mesh (norm_field (K:=QK) qc_nrm f)))) (o_norm_pmin o) /\
    Forall2 Qeq (pmax (reg (f_mesh (norm_field (K:=QK) qc_nrm f)))) (o_norm_pmax o) /\
    f_unit (norm_field (K:=QK) qc_nrm f) = o_norm_unit o /\
    f_valid (norm_field (K:=QK) qc_nrm f) = o_norm_valid o /\
    arr_close true (f_arr (orientation (K:=QK) qc_nrm qc_close0 f)) nvdim (o_orient o) = true /\
    f_nvdim (orientation (K:=QK) qc_nrm qc_close0 f) = o_orient_nvdim o /\
    f_valid (orientation (K:=QK) qc_nrm qc_close0 f) = o_orient_valid o.
Proof.
  cbn [check_C15]. unfold check_hist.
  destruct (build p1 p2 n_) as [m|e] eqn:B; [|discriminate].
  cbv zeta.
  destruct (nvdim =? 0)%nat eqn:N; [discriminate|].
  match goal with |- context [run_def ?b ?os] =>
    pose proof (run_def_snd b os) as S; destruct (run_def b os) as [d r] eqn:R end.
  cbn [snd] in S.
  destruct r as [f|e]; [|discriminate].
  intro H. split_andb.
  exists m, f.
  split; [reflexivity|]. split; [apply Nat.eqb_neq; exact N|].
  split; [symmetry; exact S|].
  repeat match goal with
         | |- _ /\ _ => split
         end; try assumption.
  - apply boollist_eqb_sound; assumption.
  - apply Nat.eqb_eq; assumption.
  - apply zlist_eqb_sound_gen; assumption.
  - apply qlist_eqb_sound_gen; assumption.
  - apply qlist_eqb_sound_gen; assumption.
  - apply optstr_eqb_sound; assumption.
  - apply boollist_eqb_sound; assumption.
  - apply Nat.eqb_eq; assumption.
  - apply boollist_eqb_sound; assumption.
Qed.

(* ---------- what the comparison combinators certify ---------- *)
Lemma forallb2_map_l {A A' B} (g : A -> A') (f : A' -> B -> bool) l1 l2 :
  forallb2 f (map g l1) l2 = forallb2 (fun a b => f (g a) b) l1 l2.
Proof.
  revert l2. induction l1 as [|x l1 IH]; intros [|y l2]; simpl; try reflexivity.
  rewrite IH. reflexivity.
Qed.

Lemma qc_of_this (x : Qc) (y : Q) : this x == y -> x = qc y.
Proof.
  intro H. apply Qc_is_canon. unfold qc, Q2Qc. cbn [this]. rewrite Qred_correct. exact H.
Qed.

Lemma cell_close_exact_sound (mc : list Qc) (oc : list Q) :
  cell_close false (map (fun x : Qc => this x) mc) oc = true -> mc = qcl oc.
Proof.
  unfold cell_close, qlist_eqb. rewrite forallb2_map_l.
  revert oc. induction mc as [|x mc IH]; intros [|y oc]; simpl; try discriminate; [reflexivity|].
  intro H. apply andb_true_iff in H. destruct H as [H1 H2].
  f_equal; [|apply IH; exact H2].
  apply qc_of_this. apply Qeq_bool_eq. exact H1.
Qed.

(* verbatim data: the observed array IS the model's array *)
Lemma arr_close_exact_sound (m : list (list Qc)) nvdim (o : list Q) :
  arr_close false m nvdim o = true -> m = map qcl (cells_of nvdim o).
Proof.
  unfold arr_close. rewrite forallb2_map_l. generalize (cells_of nvdim o) as oc.
  induction m as [|x m IH]; intros [|y oc]; simpl; try discriminate; [reflexivity|].
  intro H. apply andb_true_iff in H. destruct H as [H1 H2].
  f_equal; [apply cell_close_exact_sound; exact H1|apply IH; exact H2].
Qed.

(* quotients: every component within tol * (sum of the magnitudes of the model cell) *)
Definition cell_within (tol : Q) (mc : list Qc) (oc : list Q) : Prop :=
  Forall2 (fun (a : Qc) (b : Q) => Qabs (this a - b) <= tol * qsum (map Qabs (map (fun x : Qc => this x) mc))) mc oc.

Lemma cell_close_approx_sound (mc : list Qc) (oc : list Q) :
  cell_close true (map (fun x : Qc => this x) mc) oc = true -> cell_within tolx mc oc.
Proof.
  unfold cell_close, cell_within. intro H. apply andb_true_iff in H. destruct H as [_ H].
  rewrite forallb2_map_l in H. revert H. apply forallb2_Forall2_gen.
  intros x y. apply Qle_bool_imp_le.
Qed.

Lemma arr_close_approx_sound (m : list (list Qc)) nvdim (o : list Q) :
  arr_close true m nvdim o = true -> Forall2 (cell_within tolx) m (cells_of nvdim o).
Proof.
  unfold arr_close. rewrite forallb2_map_l. apply forallb2_Forall2_gen.
  intros x y. apply cell_close_approx_sound.
Qed.

Lemma chunk1 {A} (l : list A) fuel : (length l <= fuel)%nat -> chunk 1 l fuel = map (fun x => [x]) l.
Proof.
  revert l. induction fuel as [|fuel IH]; intros [|x l] Hl; simpl in *; try reflexivity; try lia.
  f_equal. apply IH. lia.
Qed.

Lemma forallb2_map_both {A A' B B'} (g : A -> A') (h : B -> B') (f : A' -> B' -> bool) l1 l2 :
  forallb2 f (map g l1) (map h l2) = forallb2 (fun a b => f (g a) (h b)) l1 l2.
Proof.
  revert l2. induction l1 as [|x l1 IH]; intros [|y l2]; simpl; try reflexivity.
  rewrite IH. reflexivity.
Qed.

(* lengths: the observed length of a cell within tol * (the model's exact length) *)
Lemma norm_close_sound approx (a : list (list Qc)) (o : list Q) :
  norm_close approx (map (fun v => [qc_nrm v]) a) o = true ->
  Forall2 (fun v x => Qabs (this (qc_nrm v) - x) <= (if approx then tolx else tolu) * this (qc_nrm v)) a o.
Proof.
  unfold norm_close, cells_of. rewrite chunk1 by lia. rewrite map_map.
  rewrite forallb2_map_both. apply forallb2_Forall2_gen.
  intros v x. unfold len_close. cbn [map length forallb2 qsum fold_right].
  intro H. apply andb_true_iff in H. destruct H as [_ H].
  apply andb_true_iff in H. destruct H as [H _]. apply Qle_bool_imp_le in H.
  rewrite Qplus_0_r in H. rewrite (Qabs_pos _ (qc_nrm_nonneg v)) in H. exact H.
Qed.

(* ---------- soundness of the history check ---------- *)
Lemma check_hist_sound p1 p2 n_ nvdim unit_ vals norm0 v0 ops o :
  check_C15 (CHist p1 p2 n_ nvdim unit_ vals norm0 v0 ops (Some o)) = true ->
  exists m f,
    build p1 p2 n_ = OK m /\ nvdim <> 0%nat /\
    run_ops (K:=QK) qc_nrm qc_is0 qc_close0 (blank QK m nvdim unit_) (model_ops nvdim vals norm0 v0 ops) = OK f /\
    all_defined f = true /\
    (if approx_of norm0 ops
     then Forall2 (cell_within tolx) (f_arr f) (cells_of nvdim (o_arr o))
     else f_arr f = map qcl (cells_of nvdim (o_arr o))) /\
    o_valid o = f_valid f /\
    Forall2 (fun v x => Qabs (this (qc_nrm v) - x)
                        <= (if approx_of norm0 ops then tolx else tolu) * this (qc_nrm v))
            (f_arr f) (o_norm o) /\
    o_norm_nvdim o = 1%nat /\ o_norm_n o = n m /\
    Forall2 Qeq (pmin (reg m)) (o_norm_pmin o) /\ Forall2 Qeq (pmax (reg m)) (o_norm_pmax o) /\
    o_norm_unit o = unit_ /\ o_norm_valid o = o_valid o /\
    Forall2 (cell_within tolx) (map (fun v => unit_cell (K:=QK) qc_close0 (qc_nrm v) v) (f_arr f))
            (cells_of nvdim (o_orient o)) /\
    o_orient_nvdim o = nvdim /\ o_orient_valid o = o_valid o.
Proof.
  intro H. apply check_hist_sound_raw in H.
  destruct H as (m & f & B & N & R & D & Ha & Hv & Hn & Hnv & Hnn & Hpmin & Hpmax & Hu & Hnval & Ho & Hov & Hoval).
  destruct (run_ops_shape_inv QK qc_nrm qc_is0 qc_close0 _ _ _ R) as (Em & Ed & Eu).
  cbn [norm_field orientation f_arr f_valid f_nvdim f_unit f_mesh blank] in *.
  exists m, f. rewrite Em in *.
  split; [exact B|]. split; [exact N|]. split; [exact R|]. split; [exact D|].
  split. { destruct (approx_of norm0 ops); [apply arr_close_approx_sound|apply arr_close_exact_sound]; exact Ha. }
  split; [symmetry; exact Hv|].
  split; [apply norm_close_sound; exact Hn|].
  split; [symmetry; exact Hnv|]. split; [symmetry; exact Hnn|].
  split; [exact Hpmin|]. split; [exact Hpmax|].
  split; [congruence|]. split; [congruence|].
  split; [apply arr_close_approx_sound; exact Ho|].
  split; congruence.
Qed.

(* the model rejects (ValueError) exactly when the implementation was observed to raise *)
Lemma check_hist_raises_sound p1 p2 n_ nvdim unit_ vals norm0 v0 ops :
  check_C15 (CHist p1 p2 n_ nvdim unit_ vals norm0 v0 ops None) = true ->
  exists m, build p1 p2 n_ = OK m /\
    (nvdim = 0%nat \/
     exists e, run_ops (K:=QK) qc_nrm qc_is0 qc_close0 (blank QK m nvdim unit_)
                       (model_ops nvdim vals norm0 v0 ops) = Err e).
Proof.
  cbn [check_C15]. unfold check_hist.
  destruct (build p1 p2 n_) as [m|e] eqn:B; [|discriminate].
  cbv zeta. intro H. exists m. split; [reflexivity|].
  destruct (nvdim =? 0)%nat eqn:N; [left; apply Nat.eqb_eq; exact N|right].
  match type of H with context [run_def ?b ?os] =>
    pose proof (run_def_snd b os) as S; destruct (run_def b os) as [d r] eqn:R end.
  cbn [snd] in S. destruct r as [f|e]; [discriminate|].
  exists e. symmetry. exact S.
Qed.

(* ---------- transfer theorems ---------- *)
Lemma approx_after_update a os vals : approx_after a (os ++ [PUpdate vals]) = false.
Proof.
  revert a. induction os as [|o os IH]; intros a; simpl; [reflexivity|].
  destruct o; apply IH.
Qed.

(* not sticky, on the observation: whatever norm was given to the constructor or assigned earlier,
   the array OBSERVED after update_field_values is the data that was passed in *)
Theorem accepted_not_sticky p1 p2 n_ nvdim unit_ vals norm0 v0 os vals' o :
  check_C15 (CHist p1 p2 n_ nvdim unit_ vals norm0 v0 (os ++ [PUpdate vals']) (Some o)) = true ->
  map qcl (cells_of nvdim (o_arr o)) = map qcl (cells_of nvdim vals').
Proof.
  intro H. apply check_hist_sound in H.
  destruct H as (m & f & _ & _ & R & _ & Ha & _).
  unfold approx_of in Ha. rewrite approx_after_update in Ha. rewrite <- Ha.
  unfold model_ops in R. rewrite map_app, app_assoc in R. cbn [map to_op] in R.
  exact (not_sticky QK qc_nrm qc_is0 qc_close0 _ _ _ _ R).
Qed.

(* constructor order, on the observation: with valid="norm" and no norm argument the OBSERVED
   validity mask is the threshold decision on the exact lengths of the OBSERVED array *)
Theorem accepted_constructor_validity p1 p2 n_ nvdim unit_ vals o :
  check_C15 (CHist p1 p2 n_ nvdim unit_ vals None VNorm [] (Some o)) = true ->
  map qcl (cells_of nvdim (o_arr o)) = map qcl (cells_of nvdim vals) /\
  o_valid o = map (fun v => negb (qc_close0 (qc_nrm v))) (map qcl (cells_of nvdim (o_arr o))).
Proof.
  intro H. apply check_hist_sound in H.
  destruct H as (m & f & _ & N & R & _ & Ha & Hv & _).
  cbn [approx_of approx_after] in Ha. unfold model_ops in R. rewrite app_nil_r in R.
  cbn [option_map] in R.
  rewrite <- (mk_field_as_ops QK qc_nrm qc_is0 qc_close0 m nvdim unit_ _ None VNorm N) in R.
  pose proof (mk_field_valid_after_norm QK qc_nrm qc_is0 qc_close0 _ _ _ _ _ _ R) as V.
  destruct (mk_field_values QK qc_nrm qc_is0 qc_close0 _ _ _ _ _ _ R) as (A & _).
  split; [congruence|]. rewrite Hv, V, Ha. reflexivity.
Qed.

(* norm getter, on the observation (verbatim data): one component, the field's unit and validity,
   and every OBSERVED length is within 1e-15 relative of the non-negative number whose square is
   the exact sum of squares of the OBSERVED cell *)
Theorem accepted_norm_getter p1 p2 n_ nvdim unit_ vals norm0 v0 ops o :
  check_C15 (CHist p1 p2 n_ nvdim unit_ vals norm0 v0 ops (Some o)) = true ->
  approx_of norm0 ops = false ->
  o_norm_nvdim o = 1%nat /\ o_norm_unit o = unit_ /\ o_norm_valid o = o_valid o /\
  Forall2 (fun (v : list Qc) (x : Q) =>
             exists l : Qc, Qcmult l l = sumsq QcOps v /\ 0 <= this l /\ Qabs (this l - x) <= tolu * this l)
          (map qcl (cells_of nvdim (o_arr o))) (o_norm o).
Proof.
  intros H Hx. apply check_hist_sound in H.
  destruct H as (m & f & _ & _ & _ & D & Ha & _ & Hn & Hnv & _ & _ & _ & Hu & Hval & _).
  rewrite Hx in Ha, Hn. rewrite <- Ha.
  split; [exact Hnv|]. split; [exact Hu|]. split; [exact Hval|].
  unfold all_defined in D. rewrite forallb_forall in D.
  revert D Hn. generalize (f_arr f) as a. generalize (o_norm o) as xs.
  intros xs a D Hn. induction Hn as [|v x a xs Hvx _ IH]; constructor.
  - exists (qc_nrm v). split; [apply qc_nrm_spec; apply D; left; reflexivity|].
    split; [apply qc_nrm_nonneg|exact Hvx].
  - apply IH. intros y Hy. apply D. right. exact Hy.
Qed.

(* non-vacuity: concrete accepted cases (recorded shard cases) *)
Example accepted_hist_instance :
  check_C15 (CHist [(0 # 1)] [(2 # 1)] [2%Z] 1%nat (Some "T"%string) [(0 # 1); (3 # 1)]
               (Some (SConst (5 # 1))) VNorm []
               (Some (mkObs [(0 # 1); (5 # 1)] [false; true] [(0 # 1); (5 # 1)] 1%nat [2%Z] [(0 # 1)] [(2 # 1)]
                            (Some "T"%string) [false; true] [(0 # 1); (1 # 1)] 1%nat [false; true]))) = true.
Proof. vm_compute. reflexivity. Qed.

Example accepted_not_sticky_instance :
  check_C15 (CHist [(27 # 4)] [(29 # 4)] [1%Z] 1%nat (Some "T"%string) [((-50) # 1)] None VNorm
               ([PSetNorm (SConst (3 # 524288)); PWrite (WSlice 0%nat 1%nat [((-33) # 1)])] ++ [PUpdate [(1664 # 1)]])
               (Some (mkObs [(1664 # 1)] [true] [(1664 # 1)] 1%nat [1%Z] [(27 # 4)] [(29 # 4)]
                            (Some "T"%string) [true] [(1 # 1)] 1%nat [true]))) = true.
Proof. vm_compute. reflexivity. Qed.

Example accepted_constructor_validity_instance :
  check_C15 (CHist [((-59) # 4)] [((-27) # 2)] [2%Z] 1%nat None [(0 # 1); (10 # 1)] None VNorm []
               (Some (mkObs [(0 # 1); (10 # 1)] [false; true] [(0 # 1); (10 # 1)] 1%nat [2%Z] [((-59) # 4)] [((-27) # 2)]
                            None [false; true] [(0 # 1); (1 # 1)] 1%nat [false; true]))) = true.
Proof. vm_compute. reflexivity. Qed.

(* orientation, on the observation (verbatim data): a cell of the OBSERVED array whose exact length
   is within the isclose threshold has an exactly zero OBSERVED orientation; any other cell's
   observed orientation is within 1e-13 (of the cell's size) of a vector u of squared length one
   with u * |v| = v *)
Lemma qc_close0_false_nonzero (x : Qc) : qc_close0 x = false -> x <> Q2Qc 0.
Proof. intros H E. rewrite E in H. vm_compute in H. discriminate. Qed.

Lemma zeros_mass (v : list Qc) : qsum (map Qabs (map (fun x : Qc => this x) (zeros (K:=QK) v))) == 0.
Proof.
  induction v as [|x v IH]; [reflexivity|].
  cbn [zeros map qsum fold_right] in *. rewrite IH. reflexivity.
Qed.

Lemma within_zeros_gen (T : Q) (v : list Qc) (oc : list Q) : T == 0 ->
  Forall2 (fun (a : Qc) (b : Q) => Qabs (this a - b) <= T) (zeros (K:=QK) v) oc -> Forall (fun b => b == 0) oc.
Proof.
  intros HT. revert oc. induction v as [|x v IH]; intros oc H; inversion H; subst; constructor.
  - match goal with Hab : Qabs _ <= T |- _ => rewrite HT in Hab; apply Qabs_Qle_condition in Hab;
      destruct Hab as [H1 H2]; cbn in H1, H2 end.
    lra.
  - apply IH. assumption.
Qed.

Lemma cell_within_zeros (v : list Qc) (oc : list Q) :
  cell_within tolx (zeros (K:=QK) v) oc -> Forall (fun b => b == 0) oc.
Proof.
  unfold cell_within. apply within_zeros_gen. rewrite zeros_mass. apply Qmult_0_r.
Qed.

Theorem accepted_orientation p1 p2 n_ nvdim unit_ vals norm0 v0 ops o :
  check_C15 (CHist p1 p2 n_ nvdim unit_ vals norm0 v0 ops (Some o)) = true ->
  approx_of norm0 ops = false ->
  o_orient_nvdim o = nvdim /\ o_orient_valid o = o_valid o /\
  Forall2 (fun (v : list Qc) (oc : list Q) =>
             (qc_close0 (qc_nrm v) = true -> Forall (fun b => b == 0) oc) /\
             (qc_close0 (qc_nrm v) = false ->
              exists u : list Qc, sumsq QcOps u = f1 QcOps /\ scale_cell (K:=QK) (qc_nrm v) u = v /\
                                  cell_within tolx u oc))
          (map qcl (cells_of nvdim (o_arr o))) (cells_of nvdim (o_orient o)).
Proof.
  intros H Hx. apply check_hist_sound in H.
  destruct H as (m & f & _ & _ & _ & D & Ha & _ & _ & _ & _ & _ & _ & _ & _ & Ho & Hov & Hoval).
  rewrite Hx in Ha. rewrite <- Ha.
  split; [exact Hov|]. split; [exact Hoval|].
  unfold all_defined in D. rewrite forallb_forall in D.
  revert D Ho. generalize (f_arr f) as a. generalize (cells_of nvdim (o_orient o)) as ocs.
  intros ocs a. revert ocs. induction a as [|v a IH]; intros ocs D Ho; inversion Ho; subst; constructor.
  - split.
    + intro Hc. apply (cell_within_zeros v).
      rewrite <- (unit_cell_small QcOps qc_close0 (qc_nrm v) v Hc). assumption.
    + intro Hc. pose proof (qc_close0_false_nonzero _ Hc) as Hn.
      exists (unit_cell (K:=QK) qc_close0 (qc_nrm v) v).
      split; [|split; [|assumption]].
      * apply (unit_cell_sumsq QcOps QcLaws qc_close0 (qc_nrm v) v); [|exact Hn|exact Hc].
        apply qc_nrm_spec. apply D. left. reflexivity.
      * apply (unit_times_norm QcOps QcLaws qc_close0 (qc_nrm v) v Hc Hn).
  - apply IH; [|assumption]. intros y0 Hy0. apply D. right. exact Hy0.
Qed.

(* ---------- soundness of the relational check (arbitrary binary64 vectors) ---------- *)
Lemma forallb5_nth {A B C D E} (f : A -> B -> C -> D -> E -> bool) la lb lc ld le da db dc dd de :
  forallb5 f la lb lc ld le = true ->
  length la = length lb /\ length lc = length lb /\ length ld = length lb /\ length le = length lb /\
  forall j, (j < length lb)%nat -> f (nth j la da) (nth j lb db) (nth j lc dc) (nth j ld dd) (nth j le de) = true.
Proof.
  revert lb lc ld le.
  induction la as [|a la IH]; intros [|b lb] [|c lc] [|d ld] [|e le]; simpl; try discriminate.
  - intros _. repeat split. intros j Hj. lia.
  - intro H. apply andb_true_iff in H. destruct H as [H1 H2].
    destruct (IH _ _ _ _ H2) as (L1 & L2 & L3 & L4 & Hn).
    repeat split; try congruence.
    intros [|j] Hj; [exact H1|]. apply Hn. lia.
Qed.

Lemma all_zero_sound v : all_zero v = true -> Forall (fun x => x == 0) v.
Proof.
  unfold all_zero. rewrite forallb_forall. intro H. apply Forall_forall.
  intros x Hx. apply Qeq_bool_eq. apply H. exact Hx.
Qed.

(* per cell: the OBSERVED length is non-negative and its square is the exact sum of squares within
   2e-12 relative; a cell that is exactly zero is OBSERVED to stay exactly zero under the setter *)
Lemma check_rel_sound nvdim vals ts obs_norm obs_set obs_orient :
  check_C15 (CRel nvdim vals ts obs_norm obs_set obs_orient) = true ->
  nvdim <> 0%nat /\
  length (cells_of nvdim vals) = length ts /\ length obs_norm = length ts /\
  length (cells_of nvdim obs_set) = length ts /\ length (cells_of nvdim obs_orient) = length ts /\
  forall j, (j < length ts)%nat ->
    let v := nth j (cells_of nvdim vals) [] in
    let x := nth j obs_norm 0 in
    let vset := nth j (cells_of nvdim obs_set) [] in
    0 <= x /\ Qabs (x * x - sumsq_q v) <= 2 * tolr * sumsq_q v /\
    (sumsq_q v == 0 -> Forall (fun c => c == 0) vset /\ length vset = length v).
Proof.
  cbn [check_C15]. intro H. apply andb_true_iff in H. destruct H as [N H].
  apply (forallb5_nth rel_cell _ _ _ _ _ [] 0 0 [] []) in H.
  destruct H as (L1 & L2 & L3 & L4 & Hn).
  split. { apply Nat.eqb_neq. apply negb_true_iff. exact N. }
  repeat (split; [assumption|]).
  intros j Hj. specialize (Hn j Hj). unfold rel_cell in Hn.
  cbv zeta in Hn. split_andb. cbv zeta.
  split; [apply Qle_bool_imp_le; assumption|]. split; [apply Qle_bool_imp_le; assumption|].
  intro Hz. apply Qeq_bool_iff in Hz.
  match goal with Hs : (if Qeq_bool _ 0 then _ else _) = true |- _ => rewrite Hz in Hs;
    apply andb_true_iff in Hs; destruct Hs as [Hs1 Hs2] end.
  split; [apply all_zero_sound; exact Hs1|apply Nat.eqb_eq; exact Hs2].
Qed.

Example accepted_rel_instance :
  check_C15 (CRel 3%nat [(0 # 1); (0 # 1); (0 # 1)] [(2670395447938201 # 590295810358705651712)] [(0 # 1)]
                  [(0 # 1); (0 # 1); (0 # 1)] [(0 # 1); (0 # 1); (0 # 1)]) = true.
Proof. vm_compute. reflexivity. Qed.

(* a whole shard: no failing index means every case was accepted *)
Lemma shard_verdict cases k :
  failing k (map check_C15 cases) = [] -> forall c, In c cases -> check_C15 c = true.
Proof. exact (failing_nil_all check_C15 cases k). Qed.
