(* C16: list/layout lemmas for the VTK model: nested tables, the two transposes, array lookup. *)
From DF Require Import Prelude Constants_gen Region Mesh Subregions Vtk.
From DF Require Import QLemmas ListLemmas.
From Coq Require Import Arith ArithRing.
Open Scope nat_scope.

(* ---------- name -> array ---------- *)
Lemma lookup_add_same {A} name (a : A) l : lookup_array name (add_array name a l) = Some a.
Proof.
  induction l as [|[nm b] t IH]; simpl.
  - now rewrite String.eqb_refl.
  - destruct (String.eqb nm name) eqn:E; simpl; rewrite E; auto.
Qed.

Lemma lookup_add_other {A} name name' (a : A) l :
  name <> name' -> lookup_array name (add_array name' a l) = lookup_array name l.
Proof.
  intros Hne. induction l as [|[nm b] t IH]; simpl.
  - destruct (String.eqb_spec name' name); [congruence | reflexivity].
  - destruct (String.eqb_spec nm name') as [E | E]; simpl.
    + subst nm. destruct (String.eqb_spec name' name); [congruence | reflexivity].
    + destruct (String.eqb_spec nm name); [reflexivity | exact IH].
Qed.

(* ---------- tables of equally long blocks ---------- *)
Lemma flat_map_seq_length {A} (g : nat -> list A) m s n :
  (forall i, s <= i < s + n -> length (g i) = m) -> length (flat_map g (seq s n)) = n * m.
Proof.
  revert s. induction n as [|n IH]; intros s H; simpl; [reflexivity|].
  rewrite app_length, H by lia. rewrite IH; [reflexivity|]. intros i Hi. apply H. lia.
Qed.

Lemma tab_length {A} (g : nat -> list A) m n :
  (forall i, i < n -> length (g i) = m) -> length (tab n g) = n * m.
Proof. intros H. unfold tab. apply flat_map_seq_length. intros i Hi. apply H. lia. Qed.

Lemma nth_flat_map_seq {A} (g : nat -> list A) m d s n k r :
  (forall i, s <= i < s + n -> length (g i) = m) -> k < n -> r < m ->
  nth (k * m + r) (flat_map g (seq s n)) d = nth r (g (s + k)) d.
Proof.
  revert s k. induction n as [|n IH]; intros s k H Hk Hr; [lia|].
  simpl. destruct k as [|k].
  - rewrite app_nth1 by (rewrite H; lia). simpl. now rewrite Nat.add_0_r.
  - rewrite app_nth2 by (rewrite H by lia; simpl; lia).
    rewrite H by lia. replace (S k * m + r - m) with (k * m + r) by (simpl; lia).
    rewrite IH; [| intros i Hi; apply H; lia | lia | exact Hr].
    f_equal. f_equal. lia.
Qed.

Lemma nth_tab {A} (g : nat -> list A) m d n k r :
  (forall i, i < n -> length (g i) = m) -> k < n -> r < m ->
  nth (k * m + r) (tab n g) d = nth r (g k) d.
Proof.
  intros H Hk Hr. unfold tab. rewrite (@nth_flat_map_seq A g m d 0 n k r); auto.
  intros i Hi. apply H. lia.
Qed.

(* three nested tables, slowest index outermost *)
Lemma nth_tab3 {A} (row : nat -> nat -> nat -> list A) m d n1 n2 n3 a b c r :
  (forall x y z, length (row x y z) = m) -> a < n1 -> b < n2 -> c < n3 -> r < m ->
  nth (((a * n2 + b) * n3 + c) * m + r)
      (tab n1 (fun x => tab n2 (fun y => tab n3 (fun z => row x y z)))) d
  = nth r (row a b c) d.
Proof.
  intros Hl Ha Hb Hc Hr.
  assert (L3 : forall x y, length (tab n3 (fun z => row x y z)) = n3 * m)
    by (intros; apply tab_length; intros; apply Hl).
  assert (L2 : forall x, length (tab n2 (fun y => tab n3 (fun z => row x y z))) = n2 * (n3 * m))
    by (intros; apply tab_length; intros; apply L3).
  replace (((a * n2 + b) * n3 + c) * m + r) with (a * (n2 * (n3 * m)) + (b * (n3 * m) + (c * m + r))) by ring.
  assert (B3 : c * m + r < n3 * m) by nia.
  assert (B2 : b * (n3 * m) + (c * m + r) < n2 * (n3 * m)) by nia.
  rewrite (nth_tab _ (n2 * (n3 * m))); auto.
  rewrite (nth_tab _ (n3 * m)); auto.
  rewrite (nth_tab _ m); auto.
Qed.

Lemma tab3_length {A} (row : nat -> nat -> nat -> list A) m n1 n2 n3 :
  (forall x y z, length (row x y z) = m) ->
  length (tab n1 (fun x => tab n2 (fun y => tab n3 (fun z => row x y z)))) = n1 * (n2 * (n3 * m)).
Proof.
  intros Hl. apply tab_length. intros. apply tab_length. intros. apply tab_length. intros. apply Hl.
Qed.

Lemma cell_id_bound nx ny nz i j k : i < nx -> j < ny -> k < nz -> cell_id nx ny i j k < nx * ny * nz.
Proof.
  intros Hi Hj Hk. unfold cell_id.
  assert (A1 : j + ny * k + 1 <= ny * nz) by nia.
  assert (A2 : nx * (j + ny * k + 1) <= nx * (ny * nz)) by (apply Nat.mul_le_mono_l; exact A1).
  nia.
Qed.

Lemma vpos_bound nx ny nz nv i j k c :
  i < nx -> j < ny -> k < nz -> c < nv -> vpos nx ny nv i j k c < nx * ny * nz * nv.
Proof.
  intros Hi Hj Hk Hc. unfold vpos. pose proof (@cell_id_bound nx ny nz i j k Hi Hj Hk) as B.
  assert (A : (cell_id nx ny i j k + 1) * nv <= nx * ny * nz * nv) by (apply Nat.mul_le_mono_r; lia).
  nia.
Qed.

(* ---------- VTK tuple order ---------- *)
Section Layout.
  Variable V : Type.
  Variable d : V.

  Lemma nth_vtk_rows {A} (row : nat -> nat -> nat -> list A) (da : A) m nx ny nz i j k r :
    (forall x y z, length (row x y z) = m) -> i < nx -> j < ny -> k < nz -> r < m ->
    nth (cell_id nx ny i j k * m + r) (vtk_rows nx ny nz row) da = nth r (row i j k) da.
  Proof.
    intros Hl Hi Hj Hk Hr. unfold vtk_rows, cell_id.
    replace ((i + nx * (j + ny * k)) * m + r) with (((k * ny + j) * nx + i) * m + r) by ring.
    exact (@nth_tab3 A (fun z y x => row x y z) m da nz ny nx k j i r
             (fun x y z => Hl z y x) Hk Hj Hi Hr).
  Qed.

  Lemma vtk_rows_length {A} (row : nat -> nat -> nat -> list A) m nx ny nz :
    (forall x y z, length (row x y z) = m) -> length (vtk_rows nx ny nz row) = nz * (ny * (nx * m)).
  Proof. intros Hl. unfold vtk_rows. apply (@tab3_length A (fun z y x => row x y z)). intros; apply Hl. Qed.

  Lemma tuple_at_length ny nz nv (a : list V) i j k : length (tuple_at d ny nz nv a i j k) = nv.
  Proof. unfold tuple_at. now rewrite map_length, seq_length. Qed.

  Lemma nth_tuple_at ny nz nv (a : list V) i j k c : c < nv ->
    nth c (tuple_at d ny nz nv a i j k) d = nth (cpos ny nz nv i j k c) a d.
  Proof.
    intros Hc. unfold tuple_at.
    rewrite (nth_indep _ d (nth (cpos ny nz nv i j k 0) a d)) by (rewrite map_length, seq_length; exact Hc).
    change (nth (cpos ny nz nv i j k 0) a d) with ((fun c0 => nth (cpos ny nz nv i j k c0) a d) 0).
    rewrite map_nth. rewrite seq_nth by exact Hc. reflexivity.
  Qed.

  (* the writer's transpose: component c of cell (i,j,k) sits in tuple cell_id of the VTK array *)
  Lemma vtk_order_nth nx ny nz nv (a : list V) i j k c :
    i < nx -> j < ny -> k < nz -> c < nv ->
    nth (vpos nx ny nv i j k c) (vtk_order d nx ny nz nv a) d = nth (cpos ny nz nv i j k c) a d.
  Proof.
    intros Hi Hj Hk Hc. unfold vpos, vtk_order.
    rewrite (@nth_vtk_rows V (tuple_at d ny nz nv a) d nv); auto using tuple_at_length.
    now apply nth_tuple_at.
  Qed.

  Lemma vtk_order_length nx ny nz nv (a : list V) :
    length (vtk_order d nx ny nz nv a) = nx * ny * nz * nv.
  Proof.
    unfold vtk_order. rewrite (@vtk_rows_length V _ nv) by (intros; apply tuple_at_length). ring.
  Qed.

  (* whole tuple *)
  Lemma vtk_order_tuple nx ny nz nv (a : list V) i j k :
    i < nx -> j < ny -> k < nz ->
    tuple_of d (nv, vtk_order d nx ny nz nv a) (cell_id nx ny i j k) = tuple_at d ny nz nv a i j k.
  Proof.
    intros Hi Hj Hk. unfold tuple_of, tuple_at. simpl fst. simpl snd.
    apply map_ext_in. intros c Hc. apply in_seq in Hc.
    apply vtk_order_nth; auto; lia.
  Qed.

  Lemma singleton_rows_tuple {A} (da : A) (g : nat -> nat -> nat -> A) nx ny nz i j k :
    i < nx -> j < ny -> k < nz ->
    nth (cell_id nx ny i j k) (vtk_rows nx ny nz (fun x y z => [g x y z])) da = g i j k.
  Proof.
    intros Hi Hj Hk.
    pose proof (@nth_vtk_rows A (fun x y z => [g x y z]) da 1 nx ny nz i j k 0
                  (fun _ _ _ => eq_refl) Hi Hj Hk (Nat.lt_0_succ 0)) as H.
    rewrite Nat.mul_1_r, Nat.add_0_r in H. exact H.
  Qed.

  (* the reader's transpose *)
  Lemma from_vtk_order_nth nx ny nz nv (p : list V) i j k c :
    i < nx -> j < ny -> k < nz -> c < nv ->
    nth (cpos ny nz nv i j k c) (from_vtk_order d nx ny nz nv p) d = nth (vpos nx ny nv i j k c) p d.
  Proof.
    intros Hi Hj Hk Hc. unfold cpos, from_vtk_order.
    rewrite (@nth_tab3 V (fun x y z => map (fun c0 => nth (vpos nx ny nv x y z c0) p d) (seq 0 nv)) nv d
               nx ny nz i j k c); auto.
    - rewrite (nth_indep _ d (nth (vpos nx ny nv i j k 0) p d)) by (rewrite map_length, seq_length; exact Hc).
      change (nth (vpos nx ny nv i j k 0) p d) with ((fun c0 => nth (vpos nx ny nv i j k c0) p d) 0).
      rewrite map_nth, seq_nth by exact Hc. reflexivity.
    - intros. now rewrite map_length, seq_length.
  Qed.

  Lemma from_vtk_order_length nx ny nz nv (p : list V) :
    length (from_vtk_order d nx ny nz nv p) = nx * ny * nz * nv.
  Proof.
    unfold from_vtk_order.
    rewrite (@tab3_length V (fun x y z => map (fun c0 => nth (vpos nx ny nv x y z c0) p d) (seq 0 nv)) nv)
      by (intros; now rewrite map_length, seq_length).
    ring.
  Qed.

  (* reading what was written (values passed through any storage map wr) puts every component back *)
  Lemma transpose_roundtrip (wr : V -> V) nx ny nz nv (a : list V) i j k c :
    i < nx -> j < ny -> k < nz -> c < nv ->
    nth (cpos ny nz nv i j k c) (from_vtk_order d nx ny nz nv (map wr (vtk_order d nx ny nz nv a))) d
    = wr (nth (cpos ny nz nv i j k c) a d).
  Proof.
    intros Hi Hj Hk Hc. rewrite from_vtk_order_nth by assumption.
    assert (B : vpos nx ny nv i j k c < length (vtk_order d nx ny nz nv a)).
    { rewrite vtk_order_length. now apply vpos_bound. }
    rewrite (nth_indep _ d (wr d)) by (rewrite map_length; exact B).
    rewrite map_nth. f_equal. now apply vtk_order_nth.
  Qed.
End Layout.
