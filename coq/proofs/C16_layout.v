(* C16: list/layout lemmas for the VTK model. *)
From DF Require Import Prelude Constants_gen Region Mesh Subregions Vtk.
From DF Require Import QLemmas ListLemmas.
Open Scope nat_scope.

Lemma lookup_add_same {A} name (a : A) l : lookup_array name (add_array name a l) = Some a.
Proof.
  induction l as [|[nm b] t IH]; simpl.
  - now rewrite String.eqb_refl.
  - destruct (String.eqb nm name) eqn:E; simpl; rewrite E; auto.
Qed.
