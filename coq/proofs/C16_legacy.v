(* C16: the legacy point-data reader as one theorem. *)
From DF Require Import Prelude Constants_gen Region Mesh Subregions Vtk.
From DF Require Import QLemmas ListLemmas C01_axis C16_layout C16_locate C16_roundtrip.
From Coq Require Import Arith ArithRing.
Open Scope Q_scope.

Section Legacy.
  Variable V : Type.
  Variable d : V.
  Variables (x0 y0 z0 x1 y1 z1 : Q) (kx ky kz : Z).
  Hypothesis Hx : x0 < x1.
  Hypothesis Hy : y0 < y1.
  Hypothesis Hz : z0 < z1.
  Hypothesis Hkx : (2 <= kx)%Z.
  Hypothesis Hky : (2 <= ky)%Z.
  Hypothesis Hkz : (2 <= kz)%Z.
  Variables (vec : bool) (rows : list (list V)).
  Let nx := Z.to_nat kx.
  Let ny := Z.to_nat ky.
  Let nz := Z.to_nat kz.
  Let dim := if vec then 3%nat else 1%nat.
  Hypothesis Hrows : (nx * ny * nz <= length rows)%nat.
  Hypothesis Hrow : forallb (fun row => (length row =? dim)%nat) (firstn (nx * ny * nz) rows) = true.

  Let lg := mkLegacy [cells_axis x0 x1 kx; cells_axis y0 y1 ky; cells_axis z0 z1 kz] vec rows.

  Lemma legacy_reads :
    exists a0 a1 a2 b0 b1 b2,
      (a0 == x0 /\ a1 == y0 /\ a2 == z0) /\ (b0 == x1 /\ b1 == y1 /\ b2 == z1) /\
      from_legacy d lg None =
        OK (mkVF (read_mesh kx ky kz a0 a1 a2 b0 b1 b2) dim (default_vdims dim)
                 (tab nx (fun i => tab ny (fun j => tab nz (fun k =>
                    map (fun c => nth c (nth (cell_id nx ny i j k) rows []) d) (seq 0 dim)))))
                 (repeat true (nx * ny * nz))).
  Proof.
    destruct (legacy_axis Hx Hkx) as [Lx [_ [Ax Bx]]].
    destruct (legacy_axis Hy Hky) as [Ly [_ [Ay By]]].
    destruct (legacy_axis Hz Hkz) as [Lz [_ [Az Bz]]].
    cbv zeta in *.
    set (cx := cells_axis x0 x1 kx) in *. set (cy := cells_axis y0 y1 ky) in *.
    set (cz := cells_axis z0 z1 kz) in *.
    set (a0 := hd 0 cx - legacy_cell cx * (1 # 2)) in *.
    set (a1 := hd 0 cy - legacy_cell cy * (1 # 2)) in *.
    set (a2 := hd 0 cz - legacy_cell cz * (1 # 2)) in *.
    exists a0, a1, a2, (a0 + inject_Z kx * legacy_cell cx), (a1 + inject_Z ky * legacy_cell cy),
           (a2 + inject_Z kz * legacy_cell cz).
    split; [auto|]. split; [auto|].
    unfold from_legacy, lg. cbn [lg_coords lg_vec lg_rows length Nat.eqb negb existsb map].
    fold cx cy cz. rewrite Lx, Ly, Lz.
    assert (E0 : forall k, (2 <= k)%Z -> (Z.to_nat k =? 0)%nat = false)
      by (intros k Hk; apply Nat.eqb_neq; lia).
    rewrite !E0 by assumption. cbn [orb].
    rewrite !Z2Nat.id by lia.
    cbn [map2 map3]. fold a0 a1 a2.
    set (b0 := a0 + inject_Z kx * legacy_cell cx) in *.
    set (b1 := a1 + inject_Z ky * legacy_cell cy) in *.
    set (b2 := a2 + inject_Z kz * legacy_cell cz) in *.
    assert (Lx' : a0 < b0) by lra. assert (Ly' : a1 < b1) by lra. assert (Lz' : a2 < b2) by lra.
    unfold mk_region. cbn [length Nat.eqb negb map2 edges_of existsb bind].
    rewrite !(@Qmin_lt_l _ _ Lx'), !(@Qmin_lt_l _ _ Ly'), !(@Qmin_lt_l _ _ Lz'),
            !(@Qmax_lt_r _ _ Lx'), !(@Qmax_lt_r _ _ Ly'), !(@Qmax_lt_r _ _ Lz').
    rewrite (@Qeq_bool_edge _ _ Lx'), (@Qeq_bool_edge _ _ Ly'), (@Qeq_bool_edge _ _ Lz'). cbn [orb bind].
    unfold mk_mesh_n, ndim. cbn [length pmin Nat.eqb negb forallb].
    rewrite (proj2 (Z.ltb_lt 0 kx) ltac:(lia)), (proj2 (Z.ltb_lt 0 ky) ltac:(lia)), (proj2 (Z.ltb_lt 0 kz) ltac:(lia)).
    cbn [andb negb bind map]. fold nx ny nz. fold dim.
    rewrite (proj2 (Nat.ltb_ge (length rows) (nx * ny * nz)) Hrows).
    rewrite Hrow. cbn [negb bind field_vdims]. reflexivity.
  Qed.
End Legacy.

(* cell size, corners, one value per cell in x-fastest file order, every cell valid *)
Theorem legacy (V : Type) (d : V) (x0 y0 z0 x1 y1 z1 : Q) (kx ky kz : Z) (vec : bool) (rows : list (list V)) :
  x0 < x1 -> y0 < y1 -> z0 < z1 -> (2 <= kx)%Z -> (2 <= ky)%Z -> (2 <= kz)%Z ->
  let nx := Z.to_nat kx in let ny := Z.to_nat ky in let nz := Z.to_nat kz in
  let dim := if vec then 3%nat else 1%nat in
  (nx * ny * nz <= length rows)%nat ->
  forallb (fun row => (length row =? dim)%nat) (firstn (nx * ny * nz) rows) = true ->
  exists f', from_legacy d (mkLegacy [cells_axis x0 x1 kx; cells_axis y0 y1 ky; cells_axis z0 z1 kz] vec rows) None = OK f' /\
    n (vf_mesh f') = [kx; ky; kz] /\
    (exists a0 a1 a2 b0 b1 b2, pmin (reg (vf_mesh f')) = [a0; a1; a2] /\ pmax (reg (vf_mesh f')) = [b0; b1; b2] /\
        a0 == x0 /\ a1 == y0 /\ a2 == z0 /\ b0 == x1 /\ b1 == y1 /\ b2 == z1) /\
    legacy_cell (cells_axis x0 x1 kx) == cell_of x0 x1 kx /\
    legacy_cell (cells_axis y0 y1 ky) == cell_of y0 y1 ky /\
    legacy_cell (cells_axis z0 z1 kz) == cell_of z0 z1 kz /\
    vf_nv f' = dim /\ length (vf_vals f') = (nx * ny * nz * dim)%nat /\
    (forall i j k c, (i < nx)%nat -> (j < ny)%nat -> (k < nz)%nat -> (c < dim)%nat ->
       nth (cpos ny nz dim i j k c) (vf_vals f') d = nth c (nth (cell_id nx ny i j k) rows []) d) /\
    vf_valid f' = repeat true (nx * ny * nz).
Proof.
  intros Hx Hy Hz Hkx Hky Hkz nx ny nz dim Hrows Hrow.
  destruct (@legacy_reads V d x0 y0 z0 x1 y1 z1 kx ky kz Hx Hy Hz Hkx Hky Hkz vec rows Hrows Hrow)
    as [a0 [a1 [a2 [b0 [b1 [b2 [[A0 [A1 A2]] [[B0 [B1 B2]] E]]]]]]]].
  eexists. split; [exact E|]. cbn [vf_mesh vf_nv vf_vals vf_valid read_mesh n reg pmin pmax].
  split; [reflexivity|].
  split; [exists a0, a1, a2, b0, b1, b2; repeat split; assumption|].
  split; [apply (legacy_axis Hx Hkx)|]. split; [apply (legacy_axis Hy Hky)|]. split; [apply (legacy_axis Hz Hkz)|].
  split; [reflexivity|].
  split.
  - rewrite (@tab3_length V _ dim) by (intros; now rewrite map_length, seq_length). fold nx ny nz. ring.
  - split; [|reflexivity]. intros i j k c Hi Hj Hk Hc. now apply legacy_values.
Qed.

Lemma legacy_nonvacuous :
  exists f', from_legacy 0 (mkLegacy [cells_axis 0 2 2; cells_axis 0 3 3; cells_axis 1 2 2] false
                                     [[1]; [2]; [3]; [4]; [5]; [6]; [7]; [8]; [9]; [10]; [11]; [12]]) None = OK f' /\
    n (vf_mesh f') = [2; 3; 2]%Z /\ nth (cpos 3 2 1 1 2 0 0) (vf_vals f') 0 = 6.
Proof. eexists. split; [vm_compute; reflexivity|]. split; reflexivity. Qed.
