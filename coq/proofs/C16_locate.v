(* C16: the cell a VTK consumer locates at p is the mesh cell of p, and the grid built by
   to_vtk carries there what the field holds in that cell. *)
From DF Require Import Prelude Constants_gen Region Mesh Subregions Vtk.
From DF Require Import QLemmas ListLemmas C01_axis C16_layout.
Open Scope Q_scope.
Set Implicit Arguments.

(* ---------- one axis ---------- *)
Lemma find_interval_spec vs x j :
  (S j < length vs)%nat -> (forall j', (j' <= j)%nat -> nth j' vs 0 <= x) -> x < nth (S j) vs 0 ->
  find_interval vs x = Some j.
Proof.
  revert vs. induction j as [|j IH]; intros vs Hl Hle Hlt.
  - destruct vs as [|a [|b t]]; simpl in Hl; try lia.
    simpl. pose proof (Hle 0%nat (le_n _)) as H0. simpl in H0, Hlt.
    apply Qleb_true in H0. rewrite H0. apply Qltb_true in Hlt. rewrite Hlt. reflexivity.
  - destruct vs as [|a [|b t]]; simpl in Hl; try lia.
    pose proof (Hle 1%nat ltac:(lia)) as H1. simpl in H1.
    apply Qltb_false in H1.
    change (find_interval (a :: b :: t) x) with
      (if Qle_bool a x && Qltb x b then Some 0%nat else option_map S (find_interval (b :: t) x)).
    rewrite H1, andb_false_r.
    rewrite (IH (b :: t)); [reflexivity | simpl; lia | | exact Hlt].
    intros j' Hj'. apply (Hle (S j')). lia.
Qed.

Lemma vertices_axis_length lo hi k : (0 < k)%Z -> length (vertices_axis lo hi k) = S (Z.to_nat k).
Proof.
  intros Hk. unfold vertices_axis, linspace. rewrite map_length, ziota_length. lia.
Qed.

Lemma vertices_axis_nth lo hi k j : (0 < k)%Z -> (j <= Z.to_nat k)%nat ->
  nth j (vertices_axis lo hi k) 0 = lo + inject_Z (Z.of_nat j) * cell_of lo hi k.
Proof.
  intros Hk Hj. unfold vertices_axis, linspace.
  rewrite (nth_indep _ 0 (linspace_at lo hi (k + 1) 0%Z)) by (rewrite map_length, ziota_length; lia).
  rewrite map_nth. rewrite nth_ziota by lia.
  unfold linspace_at. destruct (Z.eqb_spec (k + 1) 1); [lia|].
  replace (k + 1 - 1)%Z with k by lia. reflexivity.
Qed.

(* the vertex interval that holds p is the cell point2index computes *)
Lemma locate_axis lo hi k p : lo < hi -> (0 < k)%Z -> lo <= p -> p < hi ->
  find_interval (vertices_axis lo hi k) p = Some (Z.to_nat (p2i1 lo (cell_of lo hi k) k p)).
Proof.
  intros Hlh Hk H0 H1.
  pose proof (p2i1_range lo hi k Hk p) as R.
  pose proof (p2i1_cell Hlh Hk p H0 H1) as C. cbv zeta in C.
  pose proof (cell_pos lo hi k Hlh Hk) as Hc.
  set (i := p2i1 lo (cell_of lo hi k) k p) in *.
  apply find_interval_spec.
  - rewrite vertices_axis_length by exact Hk. lia.
  - intros j' Hj'. rewrite vertices_axis_nth by (try exact Hk; lia).
    assert (inject_Z (Z.of_nat j') <= inject_Z i) by (rewrite <- Zle_Qle; lia).
    destruct C as [C _]. nra.
  - rewrite vertices_axis_nth by (try exact Hk; lia).
    replace (Z.of_nat (S (Z.to_nat i))) with (i + 1)%Z by lia.
    rewrite inject_Z_plus. destruct C as [_ C]. exact C.
Qed.

(* ---------- arrays added in a loop ---------- *)
Lemma map_snd_combine_eq {A B} (a : list A) (b : list B) :
  length a = length b -> map snd (combine a b) = b.
Proof.
  revert b. induction a as [|x a IH]; intros [|y b] H; simpl in *; try lia; [reflexivity|].
  f_equal. apply IH. lia.
Qed.

Section Fold.
  Variable A : Type.
  Variable F : nat * string -> A.
  Let step := fun (acc : list (string * A)) (cn : nat * string) => add_array (snd cn) (F cn) acc.

  Lemma fold_keeps name l acc :
    (forall cn, In cn l -> snd cn <> name) ->
    lookup_array name (fold_left step l acc) = lookup_array name acc.
  Proof.
    revert acc. induction l as [|cn t IH]; intros acc H; simpl; [reflexivity|].
    rewrite IH by (intros; apply H; now right).
    unfold step. apply lookup_add_other. intro E. apply (H cn); [now left | now symmetry].
  Qed.

  Lemma fold_sets l acc cn :
    NoDup (map snd l) -> In cn l ->
    lookup_array (snd cn) (fold_left step l acc) = Some (F cn).
  Proof.
    revert acc. induction l as [|h t IH]; intros acc Hnd Hin; [destruct Hin|].
    simpl in Hnd. inversion Hnd as [|? ? Hnot Hnd']; subst.
    destruct Hin as [E | Hin].
    - subst h. simpl. rewrite fold_keeps.
      + unfold step. apply lookup_add_same.
      + intros cn' Hin' E. apply Hnot. rewrite <- E. now apply in_map.
    - simpl. now apply IH.
  Qed.
End Fold.

(* ---------- the grid of a 3-d field ---------- *)
Section Grid.
  Variable V : Type.
  Variable d : V.
  Variable nrm : list V -> V.
  Variable vone vzero : V.

  Variables (x0 y0 z0 x1 y1 z1 tf_ : Q) (ds us : list string) (kx ky kz : Z) (bc_ : string)
            (subs_ : list (string * region)).
  Hypothesis Hx : x0 < x1.
  Hypothesis Hy : y0 < y1.
  Hypothesis Hz : z0 < z1.
  Hypothesis Hkx : (0 < kx)%Z.
  Hypothesis Hky : (0 < ky)%Z.
  Hypothesis Hkz : (0 < kz)%Z.
  Hypothesis Htf : 0 <= tf_.

  Let m := mkMesh (mkRegion [x0; y0; z0] [x1; y1; z1] ds us tf_) [kx; ky; kz] bc_ subs_.
  Let nx := Z.to_nat kx.
  Let ny := Z.to_nat ky.
  Let nz := Z.to_nat kz.

  Variables (nv : nat) (vd : option (list string)) (vals : list V) (valid : list bool).
  Let f := mkVF m nv vd vals valid.
  (* what Field guarantees: several components come with as many labels *)
  Hypothesis Hvd : (1 < nv)%nat -> exists l, vd = Some l /\ length l = nv.

  Variables (px py pz : Q).
  Hypothesis Hpx : x0 <= px /\ px < x1.
  Hypothesis Hpy : y0 <= py /\ py < y1.
  Hypothesis Hpz : z0 <= pz /\ pz < z1.

  Let iz := p2i1 x0 (cell_of x0 x1 kx) kx px.
  Let jz := p2i1 y0 (cell_of y0 y1 ky) ky py.
  Let kz_ := p2i1 z0 (cell_of z0 z1 kz) kz pz.
  Let i := Z.to_nat iz.
  Let j := Z.to_nat jz.
  Let k := Z.to_nat kz_.

  Lemma wf_m : wf_region (reg m) -> wf_mesh m.
  Proof. intros H. split; [exact H|]. split; [reflexivity|]. simpl. repeat constructor; assumption. Qed.

  Lemma ranges : (i < nx)%nat /\ (j < ny)%nat /\ (k < nz)%nat.
  Proof.
    pose proof (p2i1_range x0 x1 kx Hkx px). pose proof (p2i1_range y0 y1 ky Hky py).
    pose proof (p2i1_range z0 z1 kz Hkz pz). unfold i, j, k, iz, jz, kz_, nx, ny, nz. lia.
  Qed.

  (* the mesh cell of p *)
  Lemma mesh_cell_of_p : point2index m [px; py; pz] = OK [iz; jz; kz_].
  Proof.
    unfold point2index. simpl length. simpl negb.
    assert (C : contains_pt (reg m) [px; py; pz] = true).
    { unfold contains_pt. simpl.
      assert (At : 0 <= reg_atol (reg m)).
      { unfold reg_atol, edges, edges_of, qlist_min. simpl.
        assert (0 < Qmin (Qmin (x1 - x0) (y1 - y0)) (z1 - z0)).
        { apply Q.min_glb_lt; [apply Q.min_glb_lt|]; lra. }
        nra. }
      rewrite !(contains1_inside Htf At) by (destruct Hpx, Hpy, Hpz; lra). reflexivity. }
    change (contains_pt {| pmin := [x0; y0; z0]; pmax := [x1; y1; z1]; dims := ds; units := us; tf := tf_ |}
              [px; py; pz]) with (contains_pt (reg m) [px; py; pz]).
    rewrite C. reflexivity.
  Qed.

  Lemma to_vtk_ok : exists g, to_vtk d nrm vone vzero f = OK g /\
    g_coords g = vertices m /\ g_dims g = [kx + 1; ky + 1; kz + 1]%Z.
  Proof.
    unfold to_vtk, f. cbn [vf_nv vf_vdims vf_mesh vf_vals vf_valid]. simpl ndim. simpl negb.
    destruct (1 <? nv)%nat eqn:E.
    - apply Nat.ltb_lt in E. destruct (Hvd E) as [l [El _]]. subst vd. simpl.
      eexists. split; [reflexivity|]. split; reflexivity.
    - simpl. eexists. split; [reflexivity|]. split; reflexivity.
  Qed.

  (* the cell a VTK consumer locates at p is the mesh cell of p *)
  Lemma locate_is_mesh_cell g : to_vtk d nrm vone vzero f = OK g ->
    locate g [px; py; pz] = Some (cell_id nx ny i j k).
  Proof.
    intros Hg. destruct to_vtk_ok as [g' [Hg' [Hc _]]]. rewrite Hg in Hg'. injection Hg' as <-.
    unfold locate. rewrite Hc. unfold vertices. simpl.
    destruct Hpx, Hpy, Hpz.
    rewrite !locate_axis by assumption.
    rewrite !vertices_axis_length by assumption.
    fold iz jz kz_. fold i j k. unfold nx, ny.
    replace (S (Z.to_nat kx) - 1)%nat with (Z.to_nat kx) by lia.
    replace (S (Z.to_nat ky) - 1)%nat with (Z.to_nat ky) by lia.
    reflexivity.
  Qed.

  Let a0 : list (string * (nat * list V)) := add_array "norm" (1%nat, norm_vtk d nrm nx ny nz nv vals) [].
  Let compF := fun cn : nat * string => (1%nat, comp_vtk d nx ny nz nv vals (fst cn)).
  Let a1 := if (1 <? nv)%nat then
              fold_left (fun acc cn => add_array (snd cn) (compF cn) acc)
                        (combine (seq 0 nv) (match vd with Some l => l | None => [] end)) a0
            else a0.

  Lemma cells_of g : to_vtk d nrm vone vzero f = OK g ->
    g_cell g = add_array "valid" (1%nat, valid_vtk vone vzero nx ny nz valid)
                 (add_array "field" (nv, vtk_order d nx ny nz nv vals) a1).
  Proof.
    unfold to_vtk, f. cbn [vf_nv vf_vdims vf_mesh vf_vals vf_valid]. simpl ndim. simpl negb.
    destruct (1 <? nv)%nat eqn:E.
    - pose proof E as E'. apply Nat.ltb_lt in E'. destruct (Hvd E') as [l [El _]].
      unfold a1. subst vd. simpl. intros H. injection H as <-. reflexivity.
    - unfold a1. simpl. intros H. injection H as <-. reflexivity.
  Qed.

  Hypothesis Hlabels : forall l, vd = Some l -> Forall (fun s => reserved s = false) l.

  Lemma labels_not name l : vd = Some l -> reserved name = true ->
    forall cn, In cn (combine (seq 0 nv) l) -> snd cn <> name.
  Proof.
    intros El Hr [c s] Hin E. simpl in E. subst s.
    apply in_combine_r in Hin. pose proof (Hlabels El) as Fa. rewrite Forall_forall in Fa.
    rewrite (Fa _ Hin) in Hr. discriminate.
  Qed.

  Lemma a1_norm : lookup_array "norm" a1 = Some (1%nat, norm_vtk d nrm nx ny nz nv vals).
  Proof.
    unfold a1. destruct (1 <? nv)%nat eqn:E; [|apply lookup_add_same].
    apply Nat.ltb_lt in E. destruct (Hvd E) as [l [El _]]. rewrite El.
    rewrite (@fold_keeps _ compF); [apply lookup_add_same|].
    apply (labels_not El). reflexivity.
  Qed.

  (* what the located cell carries *)
  Lemma carries_field g : to_vtk d nrm vone vzero f = OK g ->
    cell_tuple d g "field" (cell_id nx ny i j k) = Some (tuple_at d ny nz nv vals i j k).
  Proof.
    intros Hg. unfold cell_tuple. rewrite (cells_of Hg).
    rewrite lookup_add_other by discriminate. rewrite lookup_add_same.
    destruct ranges as [Ri [Rj Rk]]. f_equal. now apply vtk_order_tuple.
  Qed.

  Lemma carries_valid g : to_vtk d nrm vone vzero f = OK g ->
    cell_tuple d g "valid" (cell_id nx ny i j k)
    = Some [if nth (cpos ny nz 1 i j k 0) valid false then vone else vzero].
  Proof.
    intros Hg. unfold cell_tuple. rewrite (cells_of Hg). rewrite lookup_add_same.
    destruct ranges as [Ri [Rj Rk]]. unfold tuple_of, valid_vtk. simpl.
    rewrite Nat.mul_1_r, Nat.add_0_r.
    rewrite (nth_indep _ d vzero).
    - now rewrite (@singleton_rows_tuple V vzero).
    - rewrite (@vtk_rows_length V _ 1%nat) by reflexivity.
      pose proof (@cell_id_bound nx ny nz i j k Ri Rj Rk). nia.
  Qed.

  Lemma carries_norm g : to_vtk d nrm vone vzero f = OK g ->
    cell_tuple d g "norm" (cell_id nx ny i j k) = Some [nrm (tuple_at d ny nz nv vals i j k)].
  Proof.
    intros Hg. unfold cell_tuple. rewrite (cells_of Hg).
    rewrite !lookup_add_other by discriminate. rewrite a1_norm.
    destruct ranges as [Ri [Rj Rk]]. unfold tuple_of, norm_vtk. simpl.
    rewrite Nat.mul_1_r, Nat.add_0_r.
    now rewrite (@singleton_rows_tuple V d).
  Qed.

  Lemma carries_component g l c : to_vtk d nrm vone vzero f = OK g ->
    (1 < nv)%nat -> vd = Some l -> NoDup l -> (c < nv)%nat ->
    cell_tuple d g (nth c l ""%string) (cell_id nx ny i j k) = Some [nth (cpos ny nz nv i j k c) vals d].
  Proof.
    intros Hg Hnv El Hnd Hc. destruct (Hvd Hnv) as [l' [El' Hlen]].
    rewrite El in El'. injection El' as <-.
    assert (Hin : In (c, nth c l ""%string) (combine (seq 0 nv) l)).
    { replace (c, nth c l ""%string) with (nth c (combine (seq 0 nv) l) (0%nat, ""%string)).
      - apply nth_In. rewrite combine_length, seq_length. lia.
      - rewrite combine_nth by (rewrite seq_length; lia). now rewrite seq_nth. }
    assert (Hres : reserved (nth c l ""%string) = false).
    { pose proof (Hlabels El) as Fa. rewrite Forall_forall in Fa. apply Fa. apply nth_In. lia. }
    unfold cell_tuple. rewrite (cells_of Hg).
    unfold reserved in Hres. apply orb_false_iff in Hres. destruct Hres as [Hres Hn].
    apply orb_false_iff in Hres. destruct Hres as [Hf Hv].
    rewrite !lookup_add_other by (intro E; rewrite E in *; discriminate).
    unfold a1. apply Nat.ltb_lt in Hnv. rewrite Hnv. rewrite El.
    pose proof (@fold_sets _ compF (combine (seq 0 nv) l) a0 (c, nth c l ""%string)) as FS.
    simpl snd in FS. rewrite FS.
    - destruct ranges as [Ri [Rj Rk]]. unfold compF, tuple_of, comp_vtk. simpl.
      rewrite Nat.mul_1_r, Nat.add_0_r.
      now rewrite (@singleton_rows_tuple V d).
    - rewrite map_snd_combine_eq by (rewrite seq_length; lia). exact Hnd.
    - exact Hin.
  Qed.
End Grid.

(* ---------- the statement of C16's first clause, all hypotheses explicit ---------- *)
Theorem locate_carries (V : Type) (d : V) (nrm : list V -> V) (vone vzero : V)
  (x0 y0 z0 x1 y1 z1 tf_ : Q) (ds us : list string) (kx ky kz : Z) (bc_ : string)
  (subs_ : list (string * region)) (nv : nat) (vd : option (list string)) (vals : list V)
  (valid : list bool) (px py pz : Q) :
  x0 < x1 -> y0 < y1 -> z0 < z1 -> (0 < kx)%Z -> (0 < ky)%Z -> (0 < kz)%Z -> 0 <= tf_ ->
  ((1 < nv)%nat -> exists l, vd = Some l /\ length l = nv) ->
  (forall l, vd = Some l -> Forall (fun s => reserved s = false) l) ->
  x0 <= px /\ px < x1 -> y0 <= py /\ py < y1 -> z0 <= pz /\ pz < z1 ->
  let m := mkMesh (mkRegion [x0; y0; z0] [x1; y1; z1] ds us tf_) [kx; ky; kz] bc_ subs_ in
  let f := mkVF m nv vd vals valid in
  let ny := Z.to_nat ky in let nz := Z.to_nat kz in
  exists g iz jz kz_,
    to_vtk d nrm vone vzero f = OK g /\ g_coords g = vertices m /\
    g_dims g = [kx + 1; ky + 1; kz + 1]%Z /\
    point2index m [px; py; pz] = OK [iz; jz; kz_] /\
    let i := Z.to_nat iz in let j := Z.to_nat jz in let k := Z.to_nat kz_ in
    let id := cell_id (Z.to_nat kx) ny i j k in
    locate g [px; py; pz] = Some id /\
    cell_tuple d g "field" id = Some (tuple_at d ny nz nv vals i j k) /\
    cell_tuple d g "norm" id = Some [nrm (tuple_at d ny nz nv vals i j k)] /\
    cell_tuple d g "valid" id = Some [if nth (cpos ny nz 1 i j k 0) valid false then vone else vzero] /\
    forall l c, (1 < nv)%nat -> vd = Some l -> NoDup l -> (c < nv)%nat ->
      cell_tuple d g (nth c l ""%string) id = Some [nth (cpos ny nz nv i j k c) vals d].
Proof.
  intros Hx Hy Hz Hkx Hky Hkz Htf Hvd Hlab Hpx Hpy Hpz m f ny nz.
  destruct (@to_vtk_ok V d nrm vone vzero x0 y0 z0 x1 y1 z1 tf_ ds us kx ky kz bc_ subs_ nv vd vals valid Hvd)
    as [g [Hg [Hc Hd]]].
  exists g, (p2i1 x0 (cell_of x0 x1 kx) kx px), (p2i1 y0 (cell_of y0 y1 ky) ky py),
         (p2i1 z0 (cell_of z0 z1 kz) kz pz).
  split; [exact Hg|]. split; [exact Hc|]. split; [exact Hd|].
  split; [apply mesh_cell_of_p; assumption|].
  cbv zeta.
  split; [eapply locate_is_mesh_cell; eassumption|].
  split; [eapply carries_field; eassumption|].
  split; [eapply carries_norm; eassumption|].
  split; [eapply carries_valid; eassumption|].
  intros l c Hnv El Hnd Hcc. eapply carries_component; eassumption.
Qed.

Lemma locate_carries_nonvacuous :
  exists g, to_vtk 0 (fun l => hd 0 l) 1 0
      (mkVF (mkMesh (mkRegion [0; 0; 0] [2; 1; 1] ["x"; "y"; "z"]%string ["m"; "m"; "m"]%string (1 # 1000)) [2; 1; 1]%Z ""%string [])
            1%nat None [5; 7] [true; false]) = OK g /\
    locate g [3 # 2; 1 # 2; 1 # 2] = Some 1%nat /\ cell_tuple 0 g "field" 1 = Some [7].
Proof. eexists. split; [reflexivity|]. split; vm_compute; reflexivity. Qed.

(* ---------- legacy point-data files ---------- *)
Lemma legacy_axis lo hi k : lo < hi -> (2 <= k)%Z ->
  let c := cell_of lo hi k in
  let cs := cells_axis lo hi k in
  length cs = Z.to_nat k /\
  legacy_cell cs == c /\ hd 0 cs - legacy_cell cs * (1 # 2) == lo /\
  (hd 0 cs - legacy_cell cs * (1 # 2)) + inject_Z k * legacy_cell cs == hi.
Proof.
  intros Hlh Hk c cs.
  assert (Hk0 : (0 < k)%Z) by lia.
  pose proof (cell_times_n lo hi k Hk0) as Hn. fold c in Hn.
  assert (L : length cs = Z.to_nat k).
  { unfold cs, cells_axis, linspace. now rewrite map_length, ziota_length. }
  split; [exact L|].
  pose proof (cells_axis_nth lo hi k Hlh Hk0 0%Z ltac:(lia)) as E0.
  pose proof (cells_axis_nth lo hi k Hlh Hk0 1%Z ltac:(lia)) as E1.
  rewrite (centre_formula lo hi k) in E0, E1. fold c in E0, E1.
  unfold cs, cells_axis, linspace. fold c.
  destruct (Z.to_nat k) as [|[|n']] eqn:En; try lia.
  cbn [ziota map hd legacy_cell].
  change (0 + 1)%Z with 1%Z.
  set (a := linspace_at (lo + c / 2) (hi - c / 2) k 0) in *.
  set (b := linspace_at (lo + c / 2) (hi - c / 2) k 1) in *.
  change (inject_Z 0) with 0 in E0. change (inject_Z 1) with 1 in E1.
  assert (Ec : b - a == c) by (rewrite E0, E1; ring).
  split; [exact Ec|]. split.
  - rewrite Ec, E0. ring.
  - rewrite Ec, E0. set (kc := inject_Z k * c) in *. lra.
Qed.

Lemma legacy_values V (d : V) (rows : list (list V)) nx ny nz dim i j k c :
  (i < nx)%nat -> (j < ny)%nat -> (k < nz)%nat -> (c < dim)%nat ->
  nth (cpos ny nz dim i j k c)
      (tab nx (fun i => tab ny (fun j => tab nz (fun k =>
         map (fun c => nth c (nth (cell_id nx ny i j k) rows []) d) (seq 0 dim))))) d
  = nth c (nth (cell_id nx ny i j k) rows []) d.
Proof.
  intros Hi Hj Hk Hc. unfold cpos.
  rewrite (@nth_tab3 V (fun x y z => map (fun c0 => nth c0 (nth (cell_id nx ny x y z) rows []) d) (seq 0 dim))
             dim d nx ny nz i j k c); auto.
  - rewrite (nth_indep _ d (nth 0 (nth (cell_id nx ny i j k) rows []) d))
      by (rewrite map_length, seq_length; exact Hc).
    change (nth 0 (nth (cell_id nx ny i j k) rows []) d)
      with ((fun c0 => nth c0 (nth (cell_id nx ny i j k) rows []) d) 0%nat).
    rewrite map_nth, seq_nth by exact Hc. reflexivity.
  - intros. now rewrite map_length, seq_length.
Qed.
