(* C16: reading back what was written -- the end-to-end model-level round trip and the legacy
   reader as one theorem each. *)
From DF Require Import Prelude Constants_gen Region Mesh Subregions Vtk.
From DF Require Import QLemmas ListLemmas C01_axis C16_layout C16_locate.
From Coq Require Import Arith ArithRing.
Open Scope Q_scope.

(* ---------- small facts ---------- *)
Lemma Qmin_lt_l a b : a < b -> Qmin a b = a.
Proof.
  intros H. unfold Qmin, GenericMinMax.gmin. rewrite (proj1 (Qlt_alt a b) H). reflexivity.
Qed.

Lemma Qmax_lt_r a b : a < b -> Qmax a b = b.
Proof.
  intros H. unfold Qmax, GenericMinMax.gmax. rewrite (proj1 (Qlt_alt a b) H). reflexivity.
Qed.

Lemma Qeq_bool_edge a b : a < b -> Qeq_bool (b - a) 0 = false.
Proof.
  intros H. destruct (Qeq_bool (b - a) 0) eqn:E; [|reflexivity].
  apply Qeq_bool_iff in E. lra.
Qed.

Lemma last_as_nth {A} (l : list A) d : last l d = nth (length l - 1) l d.
Proof.
  induction l as [|a [|b t] IH]; try reflexivity.
  change (last (a :: b :: t) d) with (last (b :: t) d). rewrite IH.
  simpl. now rewrite Nat.sub_0_r.
Qed.

Lemma nth_map_in {A B} (f : A -> B) l j da db : (j < length l)%nat ->
  nth j (map f l) db = f (nth j l da).
Proof.
  intros H. rewrite (nth_indep _ db (f da)) by (now rewrite map_length). apply map_nth.
Qed.

Lemma nodupb_NoDup l : nodupb l = true -> NoDup l.
Proof.
  induction l as [|h t IH]; intros H; [constructor|].
  simpl in H. apply andb_true_iff in H. destruct H as [H1 H2].
  constructor; [|now apply IH].
  intro Hin. apply negb_true_iff in H1.
  assert (existsb (String.eqb h) t = true); [|congruence].
  apply existsb_exists. exists h. split; [exact Hin | apply String.eqb_refl].
Qed.

Lemma filter_all {A} (p : A -> bool) l : Forall (fun x => p x = true) l -> filter p l = l.
Proof. induction 1 as [|x l Hx _ IH]; simpl; [reflexivity|]. now rewrite Hx, IH. Qed.

(* ---------- arrays ---------- *)
Lemma add_array_fresh {A} name (a : A) l : ~ In name (map fst l) -> add_array name a l = l ++ [(name, a)].
Proof.
  induction l as [|[nm b] t IH]; intros H; [reflexivity|].
  simpl in *. destruct (String.eqb_spec nm name) as [E | E]; [exfalso; apply H; now left|].
  f_equal. apply IH. intro. apply H. now right.
Qed.

Section FoldFresh.
  Variable A : Type.
  Variable F : nat * string -> A.
  Let step := fun (acc : list (string * A)) (cn : nat * string) => add_array (snd cn) (F cn) acc.

  Lemma fold_fresh l acc :
    NoDup (map snd l) -> (forall cn, In cn l -> ~ In (snd cn) (map fst acc)) ->
    fold_left step l acc = acc ++ map (fun cn => (snd cn, F cn)) l.
  Proof.
    revert acc. induction l as [|h t IH]; intros acc Hnd Hfr; simpl; [now rewrite app_nil_r|].
    inversion Hnd as [|? ? Hnot Hnd']; subst.
    unfold step at 2. rewrite add_array_fresh by (apply Hfr; now left).
    rewrite IH; [now rewrite <- app_assoc | exact Hnd' |].
    intros cn Hin. rewrite map_app, in_app_iff. simpl. intros [X | [X | []]].
    - apply (Hfr cn); [now right | exact X].
    - apply Hnot. rewrite X. now apply in_map.
  Qed.
End FoldFresh.

Section FindLast.
  Variable V : Type.
  Notation varray := (nat * list V)%type.

  Lemma find_last_app name (l1 l2 : list (string * varray)) acc :
    find_last name (l1 ++ l2) acc = find_last name l2 (find_last name l1 acc).
  Proof.
    revert acc. induction l1 as [|[nm a] t IH]; intros acc; simpl; [reflexivity | apply IH].
  Qed.

  Lemma find_last_skip name (l : list (string * varray)) acc :
    ~ In name (map fst l) -> find_last name l acc = acc.
  Proof.
    revert acc. induction l as [|[nm a] t IH]; intros acc H; simpl; [reflexivity|].
    simpl in H. destruct (String.eqb_spec nm name) as [E | E]; [exfalso; apply H; now left|].
    apply IH. intro. apply H. now right.
  Qed.
End FindLast.

(* ---------- C-order positions cover the whole array ---------- *)
Lemma cpos_surj ny nz nv nx pos : (pos < nx * ny * nz * nv)%nat ->
  exists i j k c, (i < nx)%nat /\ (j < ny)%nat /\ (k < nz)%nat /\ (c < nv)%nat /\ pos = cpos ny nz nv i j k c.
Proof.
  intros H.
  assert (Hnv : nv <> 0%nat) by (intro; subst; lia).
  assert (Hnz : nz <> 0%nat) by (intro; subst; lia).
  assert (Hny : ny <> 0%nat) by (intro; subst; lia).
  set (q1 := (pos / nv)%nat). set (q2 := (q1 / nz)%nat).
  exists (q2 / ny)%nat, (q2 mod ny)%nat, (q1 mod nz)%nat, (pos mod nv)%nat.
  pose proof (Nat.div_mod pos nv Hnv) as D1. fold q1 in D1.
  pose proof (Nat.div_mod q1 nz Hnz) as D2. fold q2 in D2.
  pose proof (Nat.div_mod q2 ny Hny) as D3.
  pose proof (Nat.mod_upper_bound pos nv Hnv). pose proof (Nat.mod_upper_bound q1 nz Hnz).
  pose proof (Nat.mod_upper_bound q2 ny Hny).
  assert (B1 : (q1 < nx * ny * nz)%nat) by (apply Nat.div_lt_upper_bound; [exact Hnv | lia]).
  assert (B2 : (q2 < nx * ny)%nat) by (apply Nat.div_lt_upper_bound; [exact Hnz | lia]).
  assert (B3 : (q2 / ny < nx)%nat) by (apply Nat.div_lt_upper_bound; [exact Hny | lia]).
  repeat (split; [assumption|]).
  unfold cpos. rewrite D1 at 1. rewrite D2 at 1. rewrite D3 at 1. ring.
Qed.

Lemma cpos_bound nx ny nz nv i j k c :
  (i < nx)%nat -> (j < ny)%nat -> (k < nz)%nat -> (c < nv)%nat ->
  (cpos ny nz nv i j k c < nx * ny * nz * nv)%nat.
Proof.
  intros Hi Hj Hk Hc. unfold cpos.
  assert (A1 : (i * ny + j + 1 <= nx * ny)%nat) by nia.
  assert (A2 : ((i * ny + j + 1) * nz <= nx * ny * nz)%nat) by (apply Nat.mul_le_mono_r; exact A1).
  assert (A3 : ((i * ny + j) * nz + k + 1 <= nx * ny * nz)%nat) by nia.
  assert (A4 : (((i * ny + j) * nz + k + 1) * nv <= nx * ny * nz * nv)%nat) by (apply Nat.mul_le_mono_r; exact A3).
  nia.
Qed.

Lemma c_order_ext {A} (l1 l2 : list A) d1 d2 nx ny nz nv :
  length l1 = (nx * ny * nz * nv)%nat -> length l2 = (nx * ny * nz * nv)%nat ->
  (forall i j k c, (i < nx)%nat -> (j < ny)%nat -> (k < nz)%nat -> (c < nv)%nat ->
     nth (cpos ny nz nv i j k c) l1 d1 = nth (cpos ny nz nv i j k c) l2 d2) ->
  l1 = l2.
Proof.
  intros L1 L2 H. apply (nth_ext _ _ d1 d2); [congruence|].
  intros pos Hp. rewrite L1 in Hp.
  destruct (@cpos_surj ny nz nv nx pos Hp) as [i [j [k [c [Hi [Hj [Hk [Hc E]]]]]]]]. subst pos. now apply H.
Qed.

(* ---------- payload and validity come back as lists ---------- *)
Section Payload.
  Variable V : Type.
  Variable d : V.
  Variable w : V -> V.

  Lemma values_back nx ny nz nv (a : list V) : length a = (nx * ny * nz * nv)%nat ->
    from_vtk_order d nx ny nz nv (map w (vtk_order d nx ny nz nv a)) = map w a.
  Proof.
    intros L. apply (@c_order_ext V _ _ d (w d) nx ny nz nv).
    - apply from_vtk_order_length.
    - now rewrite map_length.
    - intros i j k c Hi Hj Hk Hc. rewrite transpose_roundtrip by assumption. symmetry. apply map_nth.
  Qed.

  Variables (vone vzero : V) (vtruth : V -> bool).
  Hypothesis Hone : vtruth (w vone) = true.
  Hypothesis Hzero : vtruth (w vzero) = false.

  Lemma valid_back nx ny nz (v : list bool) : length v = (nx * ny * nz)%nat ->
    map vtruth (from_vtk_order d nx ny nz 1 (map w (valid_vtk vone vzero nx ny nz v))) = v.
  Proof.
    intros L. apply (@c_order_ext bool _ _ false false nx ny nz 1).
    - rewrite map_length, from_vtk_order_length. reflexivity.
    - rewrite L. ring.
    - intros i j k c Hi Hj Hk Hc. assert (c = 0%nat) by lia. subst c.
      rewrite (@nth_map_in V bool vtruth _ _ d false)
        by (rewrite from_vtk_order_length; now apply cpos_bound).
      rewrite from_vtk_order_nth by assumption.
      unfold vpos. rewrite Nat.mul_1_r, Nat.add_0_r.
      assert (B : (cell_id nx ny i j k < nx * ny * nz)%nat) by now apply cell_id_bound.
      assert (LV : length (valid_vtk vone vzero nx ny nz v) = (nx * ny * nz)%nat).
      { unfold valid_vtk. rewrite (@vtk_rows_length V _ 1%nat) by reflexivity. ring. }
      rewrite (@nth_map_in V V w _ _ vzero d) by (rewrite LV; exact B).
      unfold valid_vtk. rewrite (@singleton_rows_tuple V vzero) by assumption.
      destruct (nth (cpos ny nz 1 i j k 0) v false); assumption.
  Qed.
End Payload.

(* ---------- the reader on a grid whose arrays are known ---------- *)
Section Reader.
  Variable V : Type.
  Variable d : V.
  Variable vtruth : V -> bool.
  Variables kx ky kz : Z.
  Hypothesis Hkx : (0 < kx)%Z.
  Hypothesis Hky : (0 < ky)%Z.
  Hypothesis Hkz : (0 < kz)%Z.
  Let nx := Z.to_nat kx.
  Let ny := Z.to_nat ky.
  Let nz := Z.to_nat kz.

  Lemma from_vtk_spec (g : vgrid V) side dim payload nc lv c0 c1 c2 :
    g_cell g <> [] ->
    find_last "field" (g_cell g) None = Some (dim, payload) ->
    find_last "valid" (g_cell g) None = Some (nc, lv) ->
    g_dims g = [kx + 1; ky + 1; kz + 1]%Z -> g_coords g = [c0; c1; c2] ->
    dim <> 0%nat -> length payload = (nx * ny * nz * dim)%nat -> length lv = (nx * ny * nz)%nat ->
    from_vtk d vtruth g side =
      (do rg <- mk_region [Qmin (hd 0 c0) (last c0 0); Qmin (hd 0 c1) (last c1 0); Qmin (hd 0 c2) (last c2 0)]
                          [Qmax (hd 0 c0) (last c0 0); Qmax (hd 0 c1) (last c1 0); Qmax (hd 0 c2) (last c2 0)]
                          None None default_tf;
       do m0 <- mk_mesh_n rg [kx; ky; kz];
       do m' <- match side with None => OK m0 | Some s => json_load_tol align_tol m0 s end;
       do vdims <- field_vdims dim (if (length (label_names (g_cell g)) =? dim)%nat
                                    then Some (label_names (g_cell g)) else None);
       OK (mkVF m' dim vdims (from_vtk_order d nx ny nz dim payload)
                (map vtruth (from_vtk_order d nx ny nz 1 lv)))).
  Proof.
    intros Hne Hf Hv Hd Hc Hdim Hp Hl.
    unfold from_vtk. destruct (g_cell g) as [|e t] eqn:Eg; [contradiction|].
    rewrite Hf, Hd, Hc. cbn [map first_last fst snd].
    rewrite !Z.add_simpl_r.
    cbn [forallb]. rewrite (proj2 (Z.ltb_lt 0 kx) Hkx), (proj2 (Z.ltb_lt 0 ky) Hky), (proj2 (Z.ltb_lt 0 kz) Hkz).
    cbn [andb negb]. fold nx ny nz.
    rewrite (proj2 (Nat.eqb_neq dim 0) Hdim). rewrite Hp, Nat.eqb_refl. cbn [orb negb].
    rewrite Hv. rewrite Hl, Nat.eqb_refl. cbn [negb bind]. reflexivity.
  Qed.
End Reader.

(* ---------- end to end ---------- *)
Section Roundtrip.
  Variable V : Type.
  Variable d : V.
  Variable nrm : list V -> V.
  Variables (vone vzero : V) (vtruth : V -> bool).
  Variable cw : vrep -> Q -> Q.
  Variable wr : vrep -> V -> V.
  Variable r : vrep.
  Hypothesis cw_proper : forall a b, a == b -> cw r a == cw r b.
  Hypothesis Hone : vtruth (wr r vone) = true.
  Hypothesis Hzero : vtruth (wr r vzero) = false.

  Variables (x0 y0 z0 x1 y1 z1 tf_ : Q) (ds us : list string) (kx ky kz : Z) (bc_ : string)
            (subs_ : list (string * region)).
  Hypothesis Hkx : (0 < kx)%Z.
  Hypothesis Hky : (0 < ky)%Z.
  Hypothesis Hkz : (0 < kz)%Z.
  (* the stored corners keep their order (identity map: the region's own pmin < pmax) *)
  Hypothesis Gx : cw r x0 < cw r x1.
  Hypothesis Gy : cw r y0 < cw r y1.
  Hypothesis Gz : cw r z0 < cw r z1.

  Let m := mkMesh (mkRegion [x0; y0; z0] [x1; y1; z1] ds us tf_) [kx; ky; kz] bc_ subs_.
  Let nx := Z.to_nat kx.
  Let ny := Z.to_nat ky.
  Let nz := Z.to_nat kz.

  Variables (nv : nat) (vd : option (list string)) (vals : list V) (valid : list bool) (L : list string).
  Hypothesis Hnv : (1 <= nv)%nat.
  (* L = the labels that reach the file: those of a multi-component field, none for a scalar *)
  Hypothesis HL1 : (1 < nv)%nat -> vd = Some L /\ length L = nv.
  Hypothesis HL0 : (nv <= 1)%nat -> L = [].
  Hypothesis HLnd : nodupb L = true.
  Hypothesis HLres : Forall (fun s => reserved s = false) L.
  Hypothesis Hvals : length vals = (nx * ny * nz * nv)%nat.
  Hypothesis Hvalid : length valid = (nx * ny * nz)%nat.

  Let f := mkVF m nv vd vals valid.
  Let compF := fun cn : nat * string => (snd cn, (1%nat, comp_vtk d nx ny nz nv vals (fst cn))).
  Let C := combine (seq 0 nv) L.
  Let A : list (string * (nat * list V)) :=
    [("norm"%string, (1%nat, norm_vtk d nrm nx ny nz nv vals))] ++ map compF C ++
    [("field"%string, (nv, vtk_order d nx ny nz nv vals));
     ("valid"%string, (1%nat, valid_vtk vone vzero nx ny nz valid))].

  Lemma C_names : map snd C = L.
  Proof.
    unfold C. destruct (le_lt_dec nv 1) as [H | H].
    - rewrite (HL0 H). now destruct (seq 0 nv).
    - destruct (HL1 H) as [_ Hl]. apply map_snd_combine_eq. now rewrite seq_length.
  Qed.

  Lemma comps_names : map fst (map compF C) = L.
  Proof. rewrite map_map. unfold compF. simpl. apply C_names. Qed.

  Lemma not_in_L s : reserved s = true -> ~ In s L.
  Proof.
    intros Hr Hin. rewrite Forall_forall in HLres. rewrite (HLres _ Hin) in Hr. discriminate.
  Qed.

  Lemma to_vtk_explicit :
    to_vtk d nrm vone vzero f = OK (mkGrid [kx + 1; ky + 1; kz + 1]%Z (vertices m) A []).
  Proof.
    unfold to_vtk, f. cbn [vf_nv vf_vdims vf_mesh vf_vals vf_valid]. simpl ndim. simpl negb.
    assert (Fold : forall l0, l0 = L ->
      fold_left (fun acc cn => add_array (snd cn) (1%nat, comp_vtk d nx ny nz nv vals (fst cn)) acc)
                (combine (seq 0 nv) l0) [("norm"%string, (1%nat, norm_vtk d nrm nx ny nz nv vals))]
      = [("norm"%string, (1%nat, norm_vtk d nrm nx ny nz nv vals))] ++ map compF C).
    { intros l0 ->. fold C.
      rewrite (@fold_fresh _ (fun cn => (1%nat, comp_vtk d nx ny nz nv vals (fst cn)))).
      - reflexivity.
      - rewrite C_names. now apply nodupb_NoDup.
      - intros cn Hin. simpl. intros [E | []].
        apply (@not_in_L "norm"%string eq_refl). rewrite E, <- C_names. now apply in_map. }
    assert (Tail : forall X, X = [("norm"%string, (1%nat, norm_vtk d nrm nx ny nz nv vals))] ++ map compF C ->
      add_array "valid" (1%nat, valid_vtk vone vzero nx ny nz valid)
        (add_array "field" (nv, vtk_order d nx ny nz nv vals) X) = A).
    { intros X ->. unfold A.
      rewrite (@add_array_fresh _ "field"%string)
        by (rewrite map_app, comps_names; simpl; intros [E | Hin];
            [discriminate | now apply (@not_in_L "field"%string eq_refl)]).
      rewrite add_array_fresh.
      - now rewrite <- !app_assoc.
      - rewrite !map_app, comps_names. simpl. intros [E | Hin]; [discriminate|].
        apply in_app_iff in Hin. destruct Hin as [Hin | [E | []]]; [|discriminate].
        now apply (@not_in_L "valid"%string eq_refl). }
    destruct (1 <? nv)%nat eqn:E.
    - apply Nat.ltb_lt in E. destruct (HL1 E) as [El _]. rewrite El. cbn [andb dims3 n m].
      fold nx ny nz. cbn [map].
      change (add_array "norm" (1%nat, norm_vtk d nrm nx ny nz nv vals) [])
        with [("norm"%string, (1%nat, norm_vtk d nrm nx ny nz nv vals))].
      rewrite (Fold L eq_refl). rewrite (Tail _ eq_refl). reflexivity.
    - apply Nat.ltb_ge in E. cbn [andb dims3 n m]. fold nx ny nz. cbn [map].
      change (add_array "norm" (1%nat, norm_vtk d nrm nx ny nz nv vals) [])
        with [("norm"%string, (1%nat, norm_vtk d nrm nx ny nz nv vals))].
      rewrite (Tail [("norm"%string, (1%nat, norm_vtk d nrm nx ny nz nv vals))]); [reflexivity|].
      unfold C. rewrite (HL0 E). now destruct (seq 0 nv).
  Qed.

  (* ----- the file as the reader sees it ----- *)
  Let w := wr r.
  Let N := norm_vtk d nrm nx ny nz nv vals.
  Let Fd := vtk_order d nx ny nz nv vals.
  Let Vd := valid_vtk vone vzero nx ny nz valid.
  Let A' := map (map_array w) A.

  Lemma A'_shape :
    A' = [("norm"%string, (1%nat, map w N))] ++ map (map_array w) (map compF C) ++
         [("field"%string, (nv, map w Fd)); ("valid"%string, (1%nat, map w Vd))].
  Proof. unfold A', A. rewrite !map_app. reflexivity. Qed.

  Lemma names_mid : map fst (map (map_array w) (map compF C)) = L.
  Proof.
    rewrite map_map. rewrite <- comps_names. apply map_ext. intros a. reflexivity.
  Qed.

  Lemma find_field : find_last "field" A' None = Some (nv, map w Fd).
  Proof.
    rewrite A'_shape, !find_last_app. cbn [find_last String.eqb Ascii.eqb Bool.eqb].
    reflexivity.
  Qed.

  Lemma find_valid : find_last "valid" A' None = Some (1%nat, map w Vd).
  Proof.
    rewrite A'_shape, !find_last_app. cbn [find_last String.eqb Ascii.eqb Bool.eqb].
    reflexivity.
  Qed.

  Lemma labels_back : label_names A' = L.
  Proof.
    unfold label_names. rewrite A'_shape, !map_app, names_mid, !filter_app.
    rewrite (@filter_all _ (fun s => negb (reserved s)) L).
    - simpl. now rewrite app_nil_r.
    - eapply Forall_impl; [|exact HLres]. intros s Hs. simpl in Hs. now rewrite Hs.
  Qed.

  Lemma hd_as_nth (l : list Q) : hd 0 l = nth 0 l 0.
  Proof. now destruct l. Qed.

  Lemma ends_axis lo hi k : (0 < k)%Z ->
    hd 0 (map (cw r) (vertices_axis lo hi k)) == cw r lo /\
    last (map (cw r) (vertices_axis lo hi k)) 0 == cw r hi.
  Proof.
    intros Hk. pose proof (@vertices_axis_length lo hi k Hk) as Len. split.
    - rewrite hd_as_nth, (@nth_map_in Q Q (cw r) _ _ 0 0) by lia.
      rewrite vertices_axis_nth by (try exact Hk; lia).
      apply cw_proper. change (inject_Z (Z.of_nat 0)) with 0. ring.
    - rewrite last_as_nth, map_length, Len.
      replace (S (Z.to_nat k) - 1)%nat with (Z.to_nat k) by lia.
      rewrite (@nth_map_in Q Q (cw r) _ _ 0 0) by lia.
      rewrite vertices_axis_nth by (try exact Hk; lia).
      apply cw_proper. rewrite Z2Nat.id by lia.
      pose proof (cell_times_n lo hi k Hk) as Hn. set (kc := inject_Z k * cell_of lo hi k) in *. lra.
  Qed.

  Definition read_mesh (a0 a1 a2 b0 b1 b2 : Q) : mesh :=
    mkMesh (mkRegion [a0; a1; a2] [b0; b1; b2] (default_dims 3) (repeat "m"%string 3) Vtk.default_tf)
           [kx; ky; kz] ""%string [].

  Lemma roundtrip_core :
    exists a0 a1 a2 b0 b1 b2,
      (a0 == cw r x0 /\ a1 == cw r y0 /\ a2 == cw r z0) /\
      (b0 == cw r x1 /\ b1 == cw r y1 /\ b2 == cw r z1) /\
      forall side, from_vtk d vtruth (store cw wr r (mkGrid [kx + 1; ky + 1; kz + 1]%Z (vertices m) A [])) side =
        (do m' <- match side with
                  | None => OK (read_mesh a0 a1 a2 b0 b1 b2)
                  | Some s => json_load_tol align_tol (read_mesh a0 a1 a2 b0 b1 b2) s
                  end;
         OK (mkVF m' nv (if (1 <? nv)%nat then Some L else None) (map w vals) valid)).
  Proof.
    destruct (ends_axis x0 x1 kx Hkx) as [Ex0 Ex1]. destruct (ends_axis y0 y1 ky Hky) as [Ey0 Ey1].
    destruct (ends_axis z0 z1 kz Hkz) as [Ez0 Ez1].
    set (cx := map (cw r) (vertices_axis x0 x1 kx)) in *.
    set (cy := map (cw r) (vertices_axis y0 y1 ky)) in *.
    set (cz := map (cw r) (vertices_axis z0 z1 kz)) in *.
    exists (hd 0 cx), (hd 0 cy), (hd 0 cz), (last cx 0), (last cy 0), (last cz 0).
    split; [auto|]. split; [auto|]. intros side.
    assert (LFd : length (map w Fd) = (nx * ny * nz * nv)%nat)
      by (unfold Fd; now rewrite map_length, vtk_order_length).
    assert (LVd : length (map w Vd) = (nx * ny * nz)%nat).
    { unfold Vd, valid_vtk. rewrite map_length, (@vtk_rows_length V _ 1%nat) by reflexivity. ring. }
    rewrite (@from_vtk_spec V d vtruth kx ky kz Hkx Hky Hkz _ side nv (map w Fd) 1%nat (map w Vd) cx cy cz);
      [ | change (A' <> []); rewrite A'_shape; discriminate | exact find_field | exact find_valid
        | reflexivity | reflexivity | lia | exact LFd | exact LVd ].
    assert (Lx : hd 0 cx < last cx 0) by lra. assert (Ly : hd 0 cy < last cy 0) by lra.
    assert (Lz : hd 0 cz < last cz 0) by lra.
    rewrite !(@Qmin_lt_l _ _ Lx), !(@Qmin_lt_l _ _ Ly), !(@Qmin_lt_l _ _ Lz), !(@Qmax_lt_r _ _ Lx), !(@Qmax_lt_r _ _ Ly), !(@Qmax_lt_r _ _ Lz).
    unfold mk_region. cbn [length Nat.eqb negb map2 edges_of existsb bind].
    rewrite !(@Qmin_lt_l _ _ Lx), !(@Qmin_lt_l _ _ Ly), !(@Qmin_lt_l _ _ Lz), !(@Qmax_lt_r _ _ Lx), !(@Qmax_lt_r _ _ Ly), !(@Qmax_lt_r _ _ Lz).
    rewrite (@Qeq_bool_edge _ _ Lx), (@Qeq_bool_edge _ _ Ly), (@Qeq_bool_edge _ _ Lz). cbn [orb bind].
    unfold mk_mesh_n, ndim. cbn [length pmin Nat.eqb negb forallb].
    rewrite (proj2 (Z.ltb_lt 0 kx) Hkx), (proj2 (Z.ltb_lt 0 ky) Hky), (proj2 (Z.ltb_lt 0 kz) Hkz).
    cbn [andb negb bind].
    change (g_cell (store cw wr r (mkGrid [kx + 1; ky + 1; kz + 1]%Z (vertices m) A []))) with A'.
    rewrite labels_back.
    fold nx ny nz.
    unfold Fd. rewrite (@values_back V d w nx ny nz nv vals Hvals).
    unfold Vd. rewrite (@valid_back V d w vone vzero vtruth Hone Hzero nx ny nz valid Hvalid).
    assert (FV : field_vdims nv (if (length L =? nv)%nat then Some L else None)
                 = OK (if (1 <? nv)%nat then Some L else None)).
    { destruct (le_lt_dec nv 1) as [H | H].
      - assert (E1 : nv = 1%nat) by lia. rewrite (HL0 H), E1. reflexivity.
      - destruct (HL1 H) as [_ Hl]. rewrite Hl, Nat.eqb_refl. rewrite (proj2 (Nat.ltb_lt 1 nv) H).
        unfold field_vdims. destruct L as [|h t] eqn:EL; [simpl in Hl; lia|].
        rewrite Hl, Nat.eqb_refl, HLnd. reflexivity. }
    rewrite FV. cbn [bind]. reflexivity.
  Qed.
End Roundtrip.

(* ---------- C16 round trip, all hypotheses explicit ---------- *)
Theorem roundtrip (V : Type) (d : V) (nrm : list V -> V) (vone vzero : V) (vtruth : V -> bool)
  (cw : vrep -> Q -> Q) (wr : vrep -> V -> V) (r : vrep)
  (x0 y0 z0 x1 y1 z1 tf_ : Q) (ds us : list string) (kx ky kz : Z) (bc_ : string)
  (subs_ : list (string * region)) (nv : nat) (vd : option (list string)) (vals : list V)
  (valid : list bool) (L : list string) :
  (forall a b, a == b -> cw r a == cw r b) ->
  vtruth (wr r vone) = true -> vtruth (wr r vzero) = false ->
  (0 < kx)%Z -> (0 < ky)%Z -> (0 < kz)%Z ->
  cw r x0 < cw r x1 -> cw r y0 < cw r y1 -> cw r z0 < cw r z1 ->
  (1 <= nv)%nat ->
  ((1 < nv)%nat -> vd = Some L /\ length L = nv) -> ((nv <= 1)%nat -> L = []) ->
  nodupb L = true -> Forall (fun s => reserved s = false) L ->
  length vals = (Z.to_nat kx * Z.to_nat ky * Z.to_nat kz * nv)%nat ->
  length valid = (Z.to_nat kx * Z.to_nat ky * Z.to_nat kz)%nat ->
  let m := mkMesh (mkRegion [x0; y0; z0] [x1; y1; z1] ds us tf_) [kx; ky; kz] bc_ subs_ in
  let f := mkVF m nv vd vals valid in
  exists g, to_vtk d nrm vone vzero f = OK g /\
  exists a0 a1 a2 b0 b1 b2,
    (a0 == cw r x0 /\ a1 == cw r y0 /\ a2 == cw r z0) /\
    (b0 == cw r x1 /\ b1 == cw r y1 /\ b2 == cw r z1) /\
    forall side, from_vtk d vtruth (store cw wr r g) side =
      (do m' <- match side with
                | None => OK (read_mesh kx ky kz a0 a1 a2 b0 b1 b2)
                | Some s => json_load_tol align_tol (read_mesh kx ky kz a0 a1 a2 b0 b1 b2) s
                end;
       OK (mkVF m' nv (if (1 <? nv)%nat then Some L else None) (map (wr r) vals) valid)).
Proof.
  intros Hp H1 H0 Hkx Hky Hkz Gx Gy Gz Hnv HL1 HL0 Hnd Hres Hvals Hvalid m f.
  eexists. split.
  - exact (@to_vtk_explicit V d nrm vone vzero x0 y0 z0 x1 y1 z1 tf_ ds us kx ky kz bc_ subs_
             nv vd vals valid L HL1 HL0 Hnd Hres).
  - exact (@roundtrip_core V d nrm vone vzero vtruth cw wr r Hp H1 H0 x0 y0 z0 x1 y1 z1 tf_ ds us
             kx ky kz bc_ subs_ Hkx Hky Hkz Gx Gy Gz nv vd vals valid L Hnv HL1 HL0 Hnd Hres Hvals Hvalid).
Qed.
