(* C16: what a successful side-car load puts on the read-back mesh. *)
From DF Require Import Prelude Constants_gen Region Mesh Subregions Vtk.
From DF Require Import QLemmas ListLemmas C16_roundtrip.
Open Scope Q_scope.

Lemma mapres_Forall2 {A B} (f : A -> res B) l l' :
  mapres f l = OK l' -> Forall2 (fun a b => f a = OK b) l l'.
Proof.
  revert l'. induction l as [|a t IH]; simpl; intros l' H.
  - injection H as <-. constructor.
  - destruct (f a) eqn:Ea; simpl in H; [|discriminate].
    destruct (mapres f t) eqn:Et; simpl in H; [|discriminate].
    injection H as <-. constructor; [exact Ea | now apply IH].
Qed.

Lemma map2_minmax_lt p q : Forall2 Qlt p q -> map2 Qmin p q = p /\ map2 Qmax p q = q.
Proof.
  induction 1 as [|a b p q Hab _ [IH1 IH2]]; simpl; [split; reflexivity|].
  rewrite (@Qmin_lt_l a b Hab), (@Qmax_lt_r a b Hab), IH1, IH2. split; reflexivity.
Qed.

Definition corners (nr : string * region) := (fst nr, (pmin (snd nr), pmax (snd nr))).
Definition well_ordered (nr : string * region) := Forall2 Qlt (pmin (snd nr)) (pmax (snd nr)).

Lemma json_row_keeps nr nr' : json_row_region nr = OK nr' -> well_ordered nr -> corners nr' = corners nr.
Proof.
  intros H Hw. destruct (@map2_minmax_lt _ _ Hw) as [E1 E2].
  unfold json_row_region, mk_region_minmax, mk_region, bind in H.
  repeat match type of H with
         | context [if ?c then _ else _] => destruct c; try discriminate
         end.
  injection H as <-. unfold corners. simpl. now rewrite E1, E2.
Qed.

(* names and corners of the saved subregions arrive unchanged; region and n are untouched *)
Lemma json_load_facts tol m0 s m' :
  json_load_tol tol m0 s = OK m' -> Forall well_ordered s ->
  reg m' = reg m0 /\ n m' = n m0 /\ map corners (subs m') = map corners s.
Proof.
  intros H Hw. unfold json_load_tol in H.
  destruct (mapres json_row_region s) as [l|] eqn:E; simpl in H; [|discriminate].
  unfold set_subregions_tol in H. destruct (forallb _ l); [|discriminate].
  injection H as <-. simpl. split; [reflexivity|]. split; [reflexivity|].
  rewrite map_map. apply mapres_Forall2 in E.
  induction E as [|a b s l Hab _ IH]; simpl; [reflexivity|].
  inversion Hw as [|? ? Hwa Hws]; subst.
  rewrite IH by assumption. f_equal.
  rewrite <- (@json_row_keeps _ _ Hab Hwa). reflexivity.
Qed.

(* ---------- the round trip with the side-car, one statement ---------- *)
Theorem roundtrip_full (V : Type) (d : V) (nrm : list V -> V) (vone vzero : V) (vtruth : V -> bool)
  (cw : vrep -> Q -> Q) (wr : vrep -> V -> V) (r : vrep)
  (x0 y0 z0 x1 y1 z1 tf_ : Q) (ds us : list string) (kx ky kz : Z) (bc_ : string)
  (subs_ : list (string * region)) (nv : nat) (vd : option (list string)) (vals : list V)
  (valid : list bool) (L : list string) :
  (forall a b, a == b -> cw r a == cw r b) ->
  vtruth (wr r vone) = true -> vtruth (wr r vzero) = false ->
  (0 < kx)%Z -> (0 < ky)%Z -> (0 < kz)%Z ->
  cw r x0 < cw r x1 -> cw r y0 < cw r y1 -> cw r z0 < cw r z1 ->
  (1 <= nv)%nat ->
  ((1 < nv)%nat -> vd = Some L /\ length L = nv) -> ((nv <= 1)%nat -> L = []) ->
  nodupb L = true -> Forall (fun s => reserved s = false) L ->
  length vals = (Z.to_nat kx * Z.to_nat ky * Z.to_nat kz * nv)%nat ->
  length valid = (Z.to_nat kx * Z.to_nat ky * Z.to_nat kz)%nat ->
  let m := mkMesh (mkRegion [x0; y0; z0] [x1; y1; z1] ds us tf_) [kx; ky; kz] bc_ subs_ in
  let f := mkVF m nv vd vals valid in
  let labels := if (1 <? nv)%nat then Some L else None in
  exists g a0 a1 a2 b0 b1 b2,
    to_vtk d nrm vone vzero f = OK g /\
    (a0 == cw r x0 /\ a1 == cw r y0 /\ a2 == cw r z0) /\
    (b0 == cw r x1 /\ b1 == cw r y1 /\ b2 == cw r z1) /\
    let mr := read_mesh kx ky kz a0 a1 a2 b0 b1 b2 in
    (* no side-car *)
    from_vtk d vtruth (store cw wr r g) None = OK (mkVF mr nv labels (map (wr r) vals) valid) /\
    (* side-car accepted by the subregion setter of the read-back mesh *)
    (forall s m', json_load_tol align_tol mr s = OK m' -> Forall well_ordered s ->
       from_vtk d vtruth (store cw wr r g) (Some s) = OK (mkVF m' nv labels (map (wr r) vals) valid) /\
       reg m' = reg mr /\ n m' = [kx; ky; kz] /\ map corners (subs m') = map corners s) /\
    (* side-car rejected by it: the whole read fails *)
    (forall s, is_ok (json_load_tol align_tol mr s) = false ->
       is_ok (from_vtk d vtruth (store cw wr r g) (Some s)) = false).
Proof.
  intros Hp H1 H0 Hkx Hky Hkz Gx Gy Gz Hnv HL1 HL0 Hnd Hres Hvals Hvalid m f labels.
  destruct (@roundtrip V d nrm vone vzero vtruth cw wr r x0 y0 z0 x1 y1 z1 tf_ ds us kx ky kz bc_ subs_
              nv vd vals valid L Hp H1 H0 Hkx Hky Hkz Gx Gy Gz Hnv HL1 HL0 Hnd Hres Hvals Hvalid)
    as [g [Hg [a0 [a1 [a2 [b0 [b1 [b2 [Ha [Hb Hread]]]]]]]]]].
  exists g, a0, a1, a2, b0, b1, b2.
  split; [exact Hg|]. split; [exact Ha|]. split; [exact Hb|]. cbv zeta.
  split; [rewrite Hread; reflexivity|]. split.
  - intros s m' Hload Hw. rewrite Hread, Hload.
    destruct (@json_load_facts _ _ _ _ Hload Hw) as [R [Nn Sb]].
    split; [reflexivity|]. split; [exact R|]. split; [rewrite Nn; reflexivity | exact Sb].
  - intros s Hbad. rewrite Hread. destruct (json_load_tol align_tol _ s); [discriminate | reflexivity].
Qed.
