(* C16: soundness of check_C16 - an accepted case certifies that (1) the grid the implementation
   built / the file an independent VTK consumer read is the model writer's grid, (2) the field the
   implementation read back is the model reader's field of the OBSERVED file, so that the C16
   theorems apply to the observed grid and the observed read-back field themselves.

   "Is" means the relation the checker's comparisons decide, spelled out below as Props: Leibniz
   equality on integers, strings and flags, equality of value (Qeq) on rationals in the exact
   regime, a distance bound in the scale regime / for the text representation, and for the stored
   norm v against the model's sum of squares s: 0 <= v and v*v == s (within norm_tol otherwise). *)
From DF Require Import Prelude Constants_gen Region Mesh Subregions Vtk.
From DF Require Import QLemmas ListLemmas CheckSound Check_C16.
From DF Require Import C16_layout C16_locate C16_roundtrip C16_sidecar C16_legacy.
Open Scope Q_scope.

Ltac split_andb :=
  repeat match goal with
         | H : _ && _ = true |- _ => apply andb_true_iff in H; destruct H
         end.

(* ---------- the relations the comparisons decide ---------- *)
Definition coord_sim (txt exact : bool) (sc a b : Q) : Prop :=
  Qabs (a - b) <= (if txt then txt_tol * Qabs a else 0) + (if exact then 0 else rel_tol * sc).

Definition coords_sim (txt exact : bool) (a b : list (list Q)) : Prop :=
  Forall2 (fun x y => Forall2 (coord_sim txt exact (axis_scale x)) x y) a b.

Definition val_sim (txt : bool) (a b : Q) : Prop :=
  if txt then Qabs (a - b) <= txt_tol * Qabs a else a == b.

Definition norm_sim (txt pyth : bool) (s v : Q) : Prop :=
  0 <= v /\
  (if pyth && negb txt then v * v == s
   else Qabs (v * v - s) <= (norm_tol + (if txt then 4 * txt_tol else 0)) * s).

Definition arr_sim (txt pyth : bool) (ma : qarr) (oarrs : list qarr) : Prop :=
  exists ol, lookup_array (fst ma) oarrs = Some (fst (snd ma), ol) /\
    (if String.eqb (fst ma) "norm" then Forall2 (norm_sim txt pyth) (snd (snd ma)) ol
     else Forall2 (val_sim txt) (snd (snd ma)) ol).

Definition grid_sim (txt exact pyth : bool) (g : vgrid Q) (o : ogrid) : Prop :=
  g_dims g = fst (fst o) /\ coords_sim txt exact (g_coords g) (snd (fst o)) /\
  length (g_cell g) = length (snd o) /\
  Forall (fun ma => arr_sim txt pyth ma (snd o)) (g_cell g).

Definition subs_sim (a : list (string * region)) (b : osubs) : Prop :=
  Forall2 (fun x y => fst x = fst y /\ Forall2 Qeq (pmin (snd x)) (fst (snd y)) /\
                      Forall2 Qeq (pmax (snd x)) (snd (snd y))) a b.

Definition corner_sim (exact : bool) (sc a b : Q) : Prop :=
  if exact then a == b else Qabs (a - b) <= rel_tol * sc.

Definition corner_scales (r : region) : list Q :=
  map2 (fun a b => Qmax (Qmax (Qabs a) (Qabs b)) (b - a)) (pmin r) (pmax r).

(* the observed tuple (pmin, pmax, n, nvdim, vdims, values, valid, subregions) against a model field;
   corners are compared coordinate by coordinate over the axes the model region has (three, see
   from_vtk_region3 / from_legacy_region3 below), the observation has exactly three *)
Definition fld_sim (exact : bool) (f : vfield Q) (o : ofld) : Prop :=
  match o with (lo, hi, ns, nv, vd, vals, valid, sb) =>
    let r := reg (vf_mesh f) in
    length lo = 3%nat /\ length hi = 3%nat /\
    (forall i, (i < length (pmin r))%nat -> (i < length (pmax r))%nat -> (i < 3)%nat ->
       corner_sim exact (nth i (corner_scales r) 0) (nth i (pmin r) 0) (nth i lo 0) /\
       corner_sim exact (nth i (corner_scales r) 0) (nth i (pmax r) 0) (nth i hi 0)) /\
    n (vf_mesh f) = ns /\ vf_nv f = nv /\ vf_vdims f = vd /\
    Forall2 Qeq (vf_vals f) vals /\ vf_valid f = valid /\
    subs_sim (subs (vf_mesh f)) sb
  end.

(* model result against observation: both a value (related), or the model fails and the
   implementation raised *)
Definition res_sim {A B} (R : A -> B -> Prop) (r : res A) (o : option B) : Prop :=
  match r, o with
  | OK a, Some b => R a b
  | Err _, None => True
  | _, _ => False
  end.

(* ---------- soundness of the comparisons ---------- *)
Lemma res_rel_sound {A B} (rel : A -> B -> bool) (R : A -> B -> Prop) :
  (forall a b, rel a b = true -> R a b) ->
  forall r o, res_rel rel r o = true -> res_sim R r o.
Proof.
  intros H [a|e] [b|]; simpl; intro E; try discriminate; auto.
Qed.

Lemma coord_rel_sound txt exact sc a b : coord_rel txt exact sc a b = true -> coord_sim txt exact sc a b.
Proof. unfold coord_rel, coord_sim. apply Qle_bool_imp_le. Qed.

Lemma coord_sim_exact sc a b : coord_sim false true sc a b -> a == b.
Proof.
  unfold coord_sim. intro H.
  assert (Z0 : Qabs (a - b) <= 0) by (eapply Qle_trans; [exact H|]; lra).
  apply Qabs_Qle_condition in Z0. lra.
Qed.

Lemma coords_rel_sound txt exact a b : coords_rel txt exact a b = true -> coords_sim txt exact a b.
Proof.
  unfold coords_rel, coords_sim. apply forallb2_Forall2_gen. intros x y.
  apply forallb2_Forall2_gen. intros p q. apply coord_rel_sound.
Qed.

Lemma coords_sim_exact a b : coords_sim false true a b -> Forall2 (Forall2 Qeq) a b.
Proof.
  unfold coords_sim. induction 1 as [|x y a b Hxy _ IH]; constructor; [|exact IH].
  clear -Hxy. generalize dependent (axis_scale x). intros sc Hxy.
  induction Hxy; constructor; [eapply coord_sim_exact; eassumption | assumption].
Qed.

Lemma val_rel_sound txt a b : val_rel txt a b = true -> val_sim txt a b.
Proof.
  unfold val_rel, val_sim. destruct txt; [apply Qle_bool_imp_le | apply Qeq_bool_eq].
Qed.

Lemma norm_rel_sound txt pyth s v : norm_rel txt pyth s v = true -> norm_sim txt pyth s v.
Proof.
  unfold norm_rel, norm_sim. intro H. apply andb_true_iff in H. destruct H as [H1 H2].
  split; [apply Qle_bool_imp_le; exact H1|].
  destruct (pyth && negb txt); [apply Qeq_bool_eq | apply Qle_bool_imp_le]; exact H2.
Qed.

Lemma arr_rel_sound txt pyth ma oarrs : arr_rel txt pyth ma oarrs = true -> arr_sim txt pyth ma oarrs.
Proof.
  unfold arr_rel, arr_sim. destruct (lookup_array (fst ma) oarrs) as [[onc ol]|]; [|discriminate].
  intro H. apply andb_true_iff in H. destruct H as [H1 H2]. apply Nat.eqb_eq in H1. subst onc.
  exists ol. split; [reflexivity|].
  destruct (String.eqb (fst ma) "norm").
  - revert H2. apply forallb2_Forall2_gen. intros x y. apply norm_rel_sound.
  - revert H2. apply forallb2_Forall2_gen. intros x y. apply val_rel_sound.
Qed.

Lemma grid_rel_sound txt exact pyth g o : grid_rel txt exact pyth g o = true -> grid_sim txt exact pyth g o.
Proof.
  destruct o as [[ods ocs] oarrs]. unfold grid_rel, grid_sim. cbn [fst snd]. intro H. split_andb.
  split; [apply zlist_eqb_sound_gen; assumption|].
  split; [apply coords_rel_sound; assumption|].
  split; [apply Nat.eqb_eq; assumption|].
  apply Forall_forall. intros ma Hin.
  match goal with Hf : forallb _ (g_cell g) = true |- _ => rewrite forallb_forall in Hf; specialize (Hf ma Hin) end.
  apply arr_rel_sound. assumption.
Qed.

Lemma subs_eqb_sound a b : subs_eqb a b = true -> subs_sim a b.
Proof.
  unfold subs_eqb, subs_sim. apply forallb2_Forall2_gen. intros x y H. split_andb.
  split; [apply String.eqb_eq; assumption|].
  split; apply qlist_eqb_sound_gen; assumption.
Qed.

Lemma opt_strs_eqb_sound a b : opt_strs_eqb a b = true -> a = b.
Proof.
  destruct a as [x|], b as [y|]; simpl; intro H; try discriminate; [|reflexivity].
  f_equal. apply strlist_eqb_sound_gen. exact H.
Qed.

Lemma corner_rel_sound exact sc a b : corner_rel exact sc a b = true -> corner_sim exact sc a b.
Proof.
  unfold corner_rel, corner_sim. destruct exact; [apply Qeq_bool_eq | apply Qle_bool_imp_le].
Qed.

Lemma forallb_map3_nth {A B C} (f : A -> B -> C -> bool) l1 l2 l3 d1 d2 d3 :
  forallb (fun b => b) (map3 f l1 l2 l3) = true ->
  forall i, (i < length l1)%nat -> (i < length l2)%nat -> (i < length l3)%nat ->
    f (nth i l1 d1) (nth i l2 d2) (nth i l3 d3) = true.
Proof.
  revert l2 l3. induction l1 as [|x l1 IH]; intros [|y l2] [|z l3]; simpl; intros H i H1 H2 H3; try lia.
  apply andb_true_iff in H. destruct H as [Ha Hb].
  destruct i as [|i]; [exact Ha|]. apply IH; [exact Hb | lia | lia | lia].
Qed.

Lemma fld_rel_sound exact f o : fld_rel exact f o = true -> fld_sim exact f o.
Proof.
  destruct o as [[[[[[[lo hi] ns] nv] vd] vals] valid] sb].
  unfold fld_rel, fld_sim. intro H. split_andb.
  repeat match goal with Hn : (_ =? _)%nat = true |- _ => apply Nat.eqb_eq in Hn end.
  assert (Ls : length (corner_scales (reg (vf_mesh f)))
               = Nat.min (length (pmin (reg (vf_mesh f)))) (length (pmax (reg (vf_mesh f))))).
  { unfold corner_scales. apply map2_length. }
  split; [assumption|]. split; [assumption|].
  split.
  { intros i Hi1 Hi2 Hi3. split; apply corner_rel_sound.
    - match goal with Hc : forallb _ (map3 _ _ (pmin _) lo) = true |- _ =>
        apply (forallb_map3_nth _ _ _ _ 0 0 0 Hc) end; fold (corner_scales (reg (vf_mesh f))); lia.
    - match goal with Hc : forallb _ (map3 _ _ (pmax _) hi) = true |- _ =>
        apply (forallb_map3_nth _ _ _ _ 0 0 0 Hc) end; fold (corner_scales (reg (vf_mesh f))); lia. }
  split; [apply zlist_eqb_sound_gen; assumption|].
  split; [assumption|].
  split; [apply opt_strs_eqb_sound; assumption|].
  split; [apply qlist_eqb_sound_gen; assumption|].
  split; [apply boollist_eqb_sound; assumption|].
  apply subs_eqb_sound; assumption.
Qed.

(* ---------- soundness of check_C16, constructor by constructor ---------- *)
Definition m0 : mesh :=
  mkMesh (mkRegion [] [] (default_dims 3) (repeat "m"%string 3) (1 # 1000000000000)) [] "" [].

(* Field.to_vtk: the observed grid (dims, vertex coordinates, every cell array) is the model's grid,
   and for every probe point strictly inside a cell both independent consumers found the model's cell *)
Lemma check_grid_sound exact pyth p1 p2 n_ nv vd vals valid obs probes :
  check_C16 (CGrid exact pyth p1 p2 n_ nv vd vals valid obs probes) = true ->
  exists f, mkfield p1 p2 n_ [] nv vd vals valid = OK f /\
    res_sim (grid_sim false exact pyth) (q_to_vtk f) obs /\
    forall g pr mid, q_to_vtk f = OK g -> In pr probes -> strictly_inside g (fst pr) = Some mid ->
      fst (snd pr) = Z.of_nat mid /\ snd (snd pr) = Z.of_nat mid.
Proof.
  cbn [check_C16]. destruct (mkfield p1 p2 n_ [] nv vd vals valid) as [f|e]; [|discriminate].
  intro H. exists f. split; [reflexivity|].
  destruct (q_to_vtk f) as [g|e], obs as [o|]; try discriminate.
  - apply andb_true_iff in H. destruct H as [Hg Hp]. split.
    + simpl. apply grid_rel_sound. exact Hg.
    + intros g' pr mid Eg Hin Hs. injection Eg as <-.
      rewrite forallb_forall in Hp. specialize (Hp pr Hin). unfold probe_ok in Hp.
      apply andb_true_iff in Hp. destruct Hp as [Hp _].
      apply andb_true_iff in Hp. destruct Hp as [Ha Hb].
      unfold id_ok in Ha, Hb. rewrite Hs in Ha, Hb.
      apply Z.eqb_eq in Ha. apply Z.eqb_eq in Hb. split; assumption.
  - split; [exact I|]. intros g pr mid Eg. discriminate.
Qed.

(* _to_vtk then _from_vtk: the observed FILE is the model writer's stored grid, and the observed
   read-back FIELD is the model reader's field of that observed file with the side-car the disk holds
   after the write; a refused write goes with no file and no read-back *)
Definition round_sim (exact pyth : bool) (rep : string) (f : vfield Q) (save_sub : bool)
           (stale : option osubs) (file : option ogrid) (obs : option ofld) : Prop :=
  match q_write f rep save_sub, file with
  | OK (g, side), Some o =>
      grid_sim (is_txt rep) exact pyth g o /\
      res_sim (fld_sim true)
        (q_from_vtk (to_grid o)
           (sidecar_after (option_map (map (mk_sub (vf_mesh f))) stale) save_sub (subs (vf_mesh f)))) obs
  | Err _, None => obs = None
  | _, _ => False
  end.

Lemma check_round_sound exact pyth rep p1 p2 n_ nv vd vals valid subs_ save_sub stale file obs :
  check_C16 (CRound exact pyth rep p1 p2 n_ nv vd vals valid subs_ save_sub stale file obs) = true ->
  exists f, mkfield p1 p2 n_ subs_ nv vd vals valid = OK f /\
    round_sim exact pyth rep f save_sub stale file obs.
Proof.
  cbn [check_C16]. destruct (mkfield p1 p2 n_ subs_ nv vd vals valid) as [f|e]; [|discriminate].
  intro H. exists f. split; [reflexivity|]. unfold round_sim.
  destruct (q_write f rep save_sub) as [[g side]|e], file as [o|]; try discriminate.
  - apply andb_true_iff in H. destruct H as [Hg Hr].
    split; [apply grid_rel_sound; exact Hg|].
    revert Hr. apply res_rel_sound. intros a b. apply fld_rel_sound.
  - destruct obs; [discriminate | reflexivity].
Qed.

(* _from_vtk on a file written by an independent writer *)
Lemma check_read_sound g side obs :
  check_C16 (CRead g side obs) = true ->
  res_sim (fld_sim true) (q_from_vtk (to_grid g) (option_map (map (mk_sub m0)) side)) obs.
Proof.
  cbn [check_C16]. cbv zeta. fold m0. apply res_rel_sound. intros a b. apply fld_rel_sound.
Qed.

(* _from_vtk_legacy.  The one tolerated disagreement: scale regime, an axis with a single point of
   magnitude >= 1e8, the implementation rejects (finding C16-legacy-far-single-point) *)
Lemma check_legacy_sound exact coords vec rows side obs :
  check_C16 (CLegacy exact coords vec rows side obs) = true ->
  (exact = false /\ far_single coords = true /\ obs = None) \/
  res_sim (fld_sim exact) (q_from_legacy (mkLegacy coords vec rows) (option_map (map (mk_sub m0)) side)) obs.
Proof.
  cbn [check_C16]. cbv zeta. fold m0. destruct obs as [o|].
  - intro H. right. revert H. apply res_rel_sound. intros a b. apply fld_rel_sound.
  - destruct (negb exact && far_single coords) eqn:E.
    + intros _. left. apply andb_true_iff in E. destruct E as [E1 E2].
      destruct exact; [discriminate|]. auto.
    + intro H. right. revert H. apply res_rel_sound. intros a b. apply fld_rel_sound.
Qed.

Lemma check_legacy_exact_sound coords vec rows side obs :
  check_C16 (CLegacy true coords vec rows side obs) = true ->
  res_sim (fld_sim true) (q_from_legacy (mkLegacy coords vec rows) (option_map (map (mk_sub m0)) side)) obs.
Proof.
  intro H. apply check_legacy_sound in H. destruct H as [[E _]|H]; [discriminate | exact H].
Qed.

Lemma check_both_sound a b : check_C16 (CBoth a b) = true -> check_C16 a = true /\ check_C16 b = true.
Proof. cbn [check_C16]. apply andb_true_iff. Qed.

(* ---------- transfer: the C16 theorems about the OBSERVED output ---------- *)
Lemma Forall2_Qeq_nth l1 l2 i : Forall2 Qeq l1 l2 -> nth i l1 0 == nth i l2 0.
Proof.
  intro H. revert i. induction H as [|x y l1 l2 Hxy _ IH]; intros [|i]; simpl; try reflexivity; auto.
Qed.

(* Clause 3 on the observation: the field the implementation's legacy reader returned for a point-data
   file at the cell centres of a mesh (>= 2 cells per axis) has that n, those corners, one value per
   cell in x-fastest file order, every cell valid *)
Theorem accepted_legacy (x0 y0 z0 x1 y1 z1 : Q) (kx ky kz : Z) (vec : bool) (rows : list (list Q)) obs :
  x0 < x1 -> y0 < y1 -> z0 < z1 -> (2 <= kx)%Z -> (2 <= ky)%Z -> (2 <= kz)%Z ->
  let nx := Z.to_nat kx in let ny := Z.to_nat ky in let nz := Z.to_nat kz in
  let dim := if vec then 3%nat else 1%nat in
  (nx * ny * nz <= length rows)%nat ->
  forallb (fun row => (length row =? dim)%nat) (firstn (nx * ny * nz) rows) = true ->
  check_C16 (CLegacy true [cells_axis x0 x1 kx; cells_axis y0 y1 ky; cells_axis z0 z1 kz] vec rows None obs) = true ->
  exists lo0 lo1 lo2 hi0 hi1 hi2 vd vals sb,
    obs = Some ([lo0; lo1; lo2], [hi0; hi1; hi2], [kx; ky; kz], dim, vd, vals, repeat true (nx * ny * nz), sb) /\
    lo0 == x0 /\ lo1 == y0 /\ lo2 == z0 /\ hi0 == x1 /\ hi1 == y1 /\ hi2 == z1 /\
    length vals = (nx * ny * nz * dim)%nat /\
    forall i j k c, (i < nx)%nat -> (j < ny)%nat -> (k < nz)%nat -> (c < dim)%nat ->
      nth (cpos ny nz dim i j k c) vals 0 == nth c (nth (cell_id nx ny i j k) rows []) 0.
Proof.
  intros Hx Hy Hz Hkx Hky Hkz nx ny nz dim Hrows Hrow H.
  destruct (@legacy Q 0 x0 y0 z0 x1 y1 z1 kx ky kz vec rows Hx Hy Hz Hkx Hky Hkz Hrows Hrow)
    as [f' [E [Hn [[a0 [a1 [a2 [b0 [b1 [b2 [Pmin [Pmax [A0 [A1 [A2 [B0 [B1 B2]]]]]]]]]]]]] [_ [_ [_ [Hnv [Hlen [Hval Hvalid]]]]]]]]]].
  apply check_legacy_exact_sound in H. cbn [option_map] in H. unfold q_from_legacy in H.
  rewrite E in H. destruct obs as [o|]; [|contradiction].
  destruct o as [[[[[[[lo hi] ns] nv] vd] vals] valid] sb].
  cbn [res_sim fld_sim] in H. cbv zeta in H.
  destruct H as [Llo [Lhi [Hc [Hns [Hv [Hvd [Hvals [Hvl Hsb]]]]]]]].
  rewrite Pmin, Pmax in Hc.
  destruct lo as [|lo0 [|lo1 [|lo2 [|? ?]]]]; try discriminate.
  destruct hi as [|hi0 [|hi1 [|hi2 [|? ?]]]]; try discriminate.
  pose proof (Hc 0%nat ltac:(simpl; lia) ltac:(simpl; lia) ltac:(lia)) as [C0 D0].
  pose proof (Hc 1%nat ltac:(simpl; lia) ltac:(simpl; lia) ltac:(lia)) as [C1 D1].
  pose proof (Hc 2%nat ltac:(simpl; lia) ltac:(simpl; lia) ltac:(lia)) as [C2 D2].
  unfold corner_sim in *. cbn [nth] in C0, C1, C2, D0, D1, D2.
  exists lo0, lo1, lo2, hi0, hi1, hi2, vd, vals, sb.
  split. { rewrite <- Hns, <- Hv, <- Hvl, Hn, Hnv, Hvalid. reflexivity. }
  split; [rewrite <- C0; exact A0|]. split; [rewrite <- C1; exact A1|]. split; [rewrite <- C2; exact A2|].
  split; [rewrite <- D0; exact B0|]. split; [rewrite <- D1; exact B1|]. split; [rewrite <- D2; exact B2|].
  split; [rewrite <- (Forall2_length_gen _ _ _ Hvals); exact Hlen|].
  intros i j k c Hi Hj Hk Hcc.
  eapply Qeq_trans; [symmetry; apply (Forall2_Qeq_nth _ _ _ Hvals)|].
  pose proof (Hval i j k c Hi Hj Hk Hcc) as Ev. fold nx ny nz dim in Ev. rewrite Ev. reflexivity.
Qed.

(* the checker's field constructor on an ordered box is the mesh the C16 theorems speak about *)
Definition mesh3 (x0 y0 z0 x1 y1 z1 : Q) (kx ky kz : Z) : mesh :=
  mkMesh (mkRegion [x0; y0; z0] [x1; y1; z1] (default_dims 3) (repeat "m"%string 3) (1 # 1000000000000))
         [kx; ky; kz] "" [].

Lemma mkfield_box x0 y0 z0 x1 y1 z1 kx ky kz nv vd vals valid :
  x0 < x1 -> y0 < y1 -> z0 < z1 -> (0 < kx)%Z -> (0 < ky)%Z -> (0 < kz)%Z ->
  mkfield [x0; y0; z0] [x1; y1; z1] [kx; ky; kz] [] nv vd vals valid
  = OK (mkVF (mesh3 x0 y0 z0 x1 y1 z1 kx ky kz) nv vd vals valid).
Proof.
  intros Lx Ly Lz Hkx Hky Hkz. unfold mkfield, mk_region.
  cbn [length Nat.eqb negb map2 edges_of existsb bind].
  rewrite !(@Qmin_lt_l _ _ Lx), !(@Qmin_lt_l _ _ Ly), !(@Qmin_lt_l _ _ Lz),
          !(@Qmax_lt_r _ _ Lx), !(@Qmax_lt_r _ _ Ly), !(@Qmax_lt_r _ _ Lz).
  rewrite (@Qeq_bool_edge _ _ Lx), (@Qeq_bool_edge _ _ Ly), (@Qeq_bool_edge _ _ Lz). cbn [orb bind].
  unfold mk_mesh_n, ndim. cbn [length pmin Nat.eqb negb forallb].
  rewrite (proj2 (Z.ltb_lt 0 kx) Hkx), (proj2 (Z.ltb_lt 0 ky) Hky), (proj2 (Z.ltb_lt 0 kz) Hkz).
  cbn [andb negb bind]. reflexivity.
Qed.

Lemma Qle_bool_ext a a' x x' : a == a' -> x == x' -> Qle_bool a x = Qle_bool a' x'.
Proof.
  intros Ha Hx. destruct (Qle_bool a x) eqn:E1, (Qle_bool a' x') eqn:E2; try reflexivity.
  - apply Qle_bool_iff in E1. assert (E : a' <= x') by lra. apply Qle_bool_iff in E. congruence.
  - apply Qle_bool_iff in E2. assert (E : a <= x) by lra. apply Qle_bool_iff in E. congruence.
Qed.

Lemma find_interval_ext vs vs' x : Forall2 Qeq vs vs' -> find_interval vs x = find_interval vs' x.
Proof.
  induction 1 as [|a a' t t' Ha Ht IH]; [reflexivity|].
  destruct Ht as [|b b' u u' Hb Hu]; [reflexivity|].
  change (find_interval (a :: b :: u) x)
    with (if Qle_bool a x && Qltb x b then Some 0%nat else option_map S (find_interval (b :: u) x)).
  change (find_interval (a' :: b' :: u') x)
    with (if Qle_bool a' x && Qltb x b' then Some 0%nat else option_map S (find_interval (b' :: u') x)).
  rewrite IH. unfold Qltb.
  rewrite (Qle_bool_ext a a' x x Ha (Qeq_refl x)), (Qle_bool_ext b b' x x Hb (Qeq_refl x)). reflexivity.
Qed.

(* a VTK consumer locates the same cell in the observed grid as in the model's grid *)
Lemma locate_observed (g : vgrid Q) ods ocs oarrs p :
  Forall2 (Forall2 Qeq) (g_coords g) ocs ->
  q_locate (to_grid (ods, ocs, oarrs)) p = locate g p.
Proof.
  intro H. unfold q_locate, locate, to_grid. cbn [g_coords].
  destruct H as [|xs xs' ? ? Hx H]; [reflexivity|].
  destruct H as [|ys ys' ? ? Hy H]; [reflexivity|].
  destruct H as [|zs zs' ? ? Hz H]; [reflexivity|].
  destruct H; [|reflexivity].
  destruct p as [|x [|y [|z [|? ?]]]]; try reflexivity.
  rewrite <- (find_interval_ext _ _ x Hx), <- (find_interval_ext _ _ y Hy), <- (find_interval_ext _ _ z Hz).
  rewrite <- (Forall2_length_gen _ _ _ Hx), <- (Forall2_length_gen _ _ _ Hy). reflexivity.
Qed.

Lemma lookup_array_In {A} name (l : list (string * A)) a : lookup_array name l = Some a -> In (name, a) l.
Proof.
  induction l as [|[nm b] t IH]; simpl; [discriminate|].
  destruct (String.eqb nm name) eqn:E.
  - intro H. injection H as <-. apply String.eqb_eq in E. subst. left. reflexivity.
  - intro H. right. apply IH. exact H.
Qed.

Lemma tuple_of_Qeq nc l1 l2 id : Forall2 Qeq l1 l2 -> Forall2 Qeq (tuple_of 0 (nc, l1) id) (tuple_of 0 (nc, l2) id).
Proof.
  intro H. unfold tuple_of. cbn [fst snd]. induction (seq 0 nc) as [|c t IH]; simpl; constructor; [|exact IH].
  apply Forall2_Qeq_nth. exact H.
Qed.

(* an exact-regime cell array of the model found under its name in the observed arrays *)
Lemma observed_tuple pyth (g : vgrid Q) oarrs name id t :
  Forall (fun ma => arr_sim false pyth ma oarrs) (g_cell g) ->
  String.eqb name "norm" = false ->
  cell_tuple 0 g name id = Some t ->
  exists nc ol, lookup_array name oarrs = Some (nc, ol) /\ Forall2 Qeq t (tuple_of 0 (nc, ol) id).
Proof.
  intros Hall Hn Ht. unfold cell_tuple in Ht.
  destruct (lookup_array name (g_cell g)) as [[nc l]|] eqn:El; [|discriminate].
  injection Ht as <-.
  apply lookup_array_In in El. rewrite Forall_forall in Hall. specialize (Hall _ El).
  destruct Hall as [ol [Eo Hv]]. cbn [fst snd] in Eo, Hv. rewrite Hn in Hv.
  exists nc, ol. split; [exact Eo|]. apply tuple_of_Qeq. exact Hv.
Qed.

Lemma Forall2_norm_nth pyth l ol : Forall2 (norm_sim false pyth) l ol ->
  forall i, 0 <= nth i ol 0 /\ (pyth = true -> nth i ol 0 * nth i ol 0 == nth i l 0).
Proof.
  induction 1 as [|s v l ol Hsv _ IH]; intros [|i]; simpl; try (split; [lra | intros _; lra]).
  - destruct Hsv as [H0 H1]. split; [exact H0|]. intros ->. simpl in H1. exact H1.
  - apply IH.
Qed.

(* Clause 1 on the observation (exact regime): in the grid Field.to_vtk returned, for every p of the
   half-open region the cell a VTK consumer locates at p in the OBSERVED vertex coordinates is the
   mesh cell point2index assigns to p, and the OBSERVED 'field' / 'valid' arrays hold there the value
   and the validity flag of that mesh cell; the observed norm there is the non-negative root of the
   sum of squares of that cell's components *)
Theorem accepted_grid_locate pyth (x0 y0 z0 x1 y1 z1 : Q) (kx ky kz : Z) (nv : nat) (vd : option (list string))
        (vals : list Q) (valid : list bool) ods ocs oarrs probes (px py pz : Q) :
  x0 < x1 -> y0 < y1 -> z0 < z1 -> (0 < kx)%Z -> (0 < ky)%Z -> (0 < kz)%Z ->
  ((1 < nv)%nat -> exists l, vd = Some l /\ length l = nv) ->
  (forall l, vd = Some l -> Forall (fun s => reserved s = false) l) ->
  x0 <= px /\ px < x1 -> y0 <= py /\ py < y1 -> z0 <= pz /\ pz < z1 ->
  check_C16 (CGrid true pyth [x0; y0; z0] [x1; y1; z1] [kx; ky; kz] nv vd vals valid
                   (Some (ods, ocs, oarrs)) probes) = true ->
  let m := mesh3 x0 y0 z0 x1 y1 z1 kx ky kz in
  let ny := Z.to_nat ky in let nz := Z.to_nat kz in
  ods = [kx + 1; ky + 1; kz + 1]%Z /\ Forall2 (Forall2 Qeq) (vertices m) ocs /\
  exists iz jz kz_,
    point2index m [px; py; pz] = OK [iz; jz; kz_] /\
    let i := Z.to_nat iz in let j := Z.to_nat jz in let k := Z.to_nat kz_ in
    let id := cell_id (Z.to_nat kx) ny i j k in
    q_locate (to_grid (ods, ocs, oarrs)) [px; py; pz] = Some id /\
    (exists nc ol, lookup_array "field" oarrs = Some (nc, ol) /\
       Forall2 Qeq (tuple_at 0 ny nz nv vals i j k) (tuple_of 0 (nc, ol) id)) /\
    (exists nc ol, lookup_array "valid" oarrs = Some (nc, ol) /\
       Forall2 Qeq [if nth (cpos ny nz 1 i j k 0) valid false then 1 else 0] (tuple_of 0 (nc, ol) id)) /\
    (exists ol, lookup_array "norm" oarrs = Some (1%nat, ol) /\
       0 <= nth id ol 0 /\
       (pyth = true -> nth id ol 0 * nth id ol 0 == sumsq (tuple_at 0 ny nz nv vals i j k))).
Proof.
  intros Lx Ly Lz Hkx Hky Hkz Hvd Hlab Hpx Hpy Hpz H m ny nz.
  apply check_grid_sound in H. destruct H as [f [Ef [Hg _]]].
  rewrite mkfield_box in Ef by assumption. injection Ef as <-.
  destruct (@locate_carries Q 0 sumsq 1 0 x0 y0 z0 x1 y1 z1 (1 # 1000000000000) (default_dims 3)
              (repeat "m"%string 3) kx ky kz ""%string [] nv vd vals valid px py pz
              Lx Ly Lz Hkx Hky Hkz ltac:(discriminate) Hvd Hlab Hpx Hpy Hpz)
    as [g [iz [jz [kz_ [Eg [Hc [Hd [Hp [Hloc [Tf [Tn [Tv _]]]]]]]]]]]].
  unfold q_to_vtk in Hg. fold (mesh3 x0 y0 z0 x1 y1 z1 kx ky kz) in Eg, Hc, Hp. fold m in Eg, Hc, Hp.
  fold m in Hg. rewrite Eg in Hg. cbn [res_sim] in Hg.
  destruct Hg as [Gd [Gc [_ Ga]]]. cbn [fst snd] in Gd, Gc, Ga.
  apply coords_sim_exact in Gc.
  split; [rewrite <- Gd; exact Hd|]. split; [rewrite <- Hc; exact Gc|].
  exists iz, jz, kz_. split; [exact Hp|]. cbv zeta.
  split; [rewrite (locate_observed g ods ocs oarrs _ Gc); exact Hloc|].
  split; [eapply observed_tuple; [exact Ga | reflexivity | exact Tf]|].
  split; [eapply observed_tuple; [exact Ga | reflexivity | exact Tv]|].
  unfold cell_tuple in Tn.
  destruct (lookup_array "norm" (g_cell g)) as [[nc l]|] eqn:El; [|discriminate].
  injection Tn as Tn.
  apply lookup_array_In in El. rewrite Forall_forall in Ga. specialize (Ga _ El).
  destruct Ga as [ol [Eo Hv]]. cbn [fst snd] in Eo, Hv.
  change (String.eqb "norm" "norm") with true in Hv. cbv iota in Hv.
  assert (Enc : nc = 1%nat).
  { apply (f_equal (@length Q)) in Tn. unfold tuple_of in Tn. cbn [fst snd] in Tn.
    rewrite map_length, seq_length in Tn. exact Tn. }
  subst nc. unfold tuple_of in Tn. cbn [fst snd seq map] in Tn. injection Tn as Tn.
  rewrite Nat.mul_1_r, Nat.add_0_r in Tn.
  exists ol. split; [exact Eo|].
  destruct (Forall2_norm_nth pyth l ol Hv (cell_id (Z.to_nat kx) ny (Z.to_nat iz) (Z.to_nat jz) (Z.to_nat kz_)))
    as [N0 N1].
  split; [exact N0|]. intro Ep. eapply Qeq_trans; [exact (N1 Ep)|]. fold ny in Tn. rewrite Tn. reflexivity.
Qed.

(* non-vacuity: concrete accepted cases (a 2x1x1 scalar field with a negative value; a legacy file) *)
Example accepted_grid_instance :
  check_C16 (CGrid true true [0; 0; 0] [2; 1; 1] [2; 1; 1]%Z 1 None [5; -7] [true; false]
     (Some ([3; 2; 2]%Z, [[0; 1; 2]; [0; 1]; [0; 1]],
            [("norm"%string, (1%nat, [5; 7])); ("field"%string, (1%nat, [5; -7]));
             ("valid"%string, (1%nat, [1; 0]))]))
     [([3 # 2; 1 # 2; 1 # 2], (1, 1)%Z)]) = true.
Proof. vm_compute. reflexivity. Qed.

Example accepted_legacy_instance :
  check_C16 (CLegacy true [cells_axis 0 2 2; cells_axis 0 3 3; cells_axis 1 2 2] false
                     [[1]; [2]; [3]; [4]; [5]; [6]; [7]; [8]; [9]; [10]; [11]; [12]] None
     (Some ([0; 0; 1], [2; 3; 2], [2; 3; 2]%Z, 1%nat, None, [1; 7; 3; 9; 5; 11; 2; 8; 4; 10; 6; 12],
            repeat true 12, []))) = true.
Proof. vm_compute. reflexivity. Qed.

(* ---------- the read-back mesh ---------- *)
Lemma json_load_keeps tol m s m' : json_load_tol tol m s = OK m' -> reg m' = reg m /\ n m' = n m.
Proof.
  unfold json_load_tol. destruct (mapres json_row_region s) as [l|]; simpl; [|discriminate].
  unfold set_subregions_tol. destruct (forallb _ l); [|discriminate].
  intro H. injection H as <-. split; reflexivity.
Qed.

Lemma mk_region_lengths p1 p2 ds us t r : mk_region p1 p2 ds us t = OK r ->
  length (pmin r) = Nat.min (length p1) (length p2) /\ length (pmax r) = Nat.min (length p1) (length p2).
Proof.
  unfold mk_region. intro H.
  destruct (negb (length p1 =? length p2)%nat); [discriminate|].
  destruct (length p1 =? 0)%nat; [discriminate|].
  match type of H with bind ?v _ = _ => destruct v; [|discriminate] end. cbn [bind] in H.
  match type of H with bind ?v _ = _ => destruct v; [|discriminate] end. cbn [bind] in H.
  match type of H with (if ?c then _ else _) = _ => destruct c; [discriminate|] end.
  injection H as <-. cbn [pmin pmax]. rewrite !map2_length. split; reflexivity.
Qed.

Lemma mk_mesh_n_inv r ns m : mk_mesh_n r ns = OK m -> reg m = r /\ n m = ns /\ length ns = length (pmin r).
Proof.
  unfold mk_mesh_n. destruct (length ns =? ndim r)%nat eqn:E; [|discriminate]. cbn [negb].
  destruct (forallb _ ns); [|discriminate]. cbn [negb]. intro H. injection H as <-.
  apply Nat.eqb_eq in E. repeat split. exact E.
Qed.

(* a field the model reader returns has the point counts minus one as n and a 3-d region: the corner
   comparison of fld_sim covers all its axes *)
Lemma from_vtk_mesh g side f : q_from_vtk g side = OK f ->
  n (vf_mesh f) = map (fun k => k - 1)%Z (g_dims g) /\
  length (pmin (reg (vf_mesh f))) = 3%nat /\ length (pmax (reg (vf_mesh f))) = 3%nat.
Proof.
  unfold q_from_vtk, from_vtk. destruct (g_cell g) as [|c0 cs]; [discriminate|].
  destruct (find_last "field" (c0 :: cs) None) as [[dim payload]|]; [|discriminate].
  destruct (map (fun k => (k - 1)%Z) (g_dims g)) as [|a [|b [|c [|? ?]]]] eqn:En; try discriminate.
  destruct (negb (forallb _ [a; b; c])); [discriminate|].
  match goal with |- context [if ?c then _ else _] => destruct c; [discriminate|] end.
  match goal with |- context [bind ?v _] => destruct v as [vl|]; [|discriminate] end. cbn [bind].
  match goal with |- context [bind (mk_region ?p ?q ?x ?y ?t) _] => destruct (mk_region p q x y t) as [r|] eqn:Er; [|discriminate] end.
  cbn [bind].
  destruct (mk_mesh_n r [a; b; c]) as [m|] eqn:Em; [|discriminate]. cbn [bind].
  apply mk_region_lengths in Er. apply mk_mesh_n_inv in Em. destruct Em as [Em1 [Em2 Em3]].
  assert (Hm : forall m', reg m' = reg m /\ n m' = n m ->
            n m' = [a; b; c] /\ length (pmin (reg m')) = 3%nat /\ length (pmax (reg m')) = 3%nat).
  { intros m' [R N]. rewrite R, N, Em1, Em2. cbn [length] in Em3. destruct Er as [E1 E2].
    split; [reflexivity|]. split; [symmetry; exact Em3|]. rewrite E2, <- E1. symmetry. exact Em3. }
  destruct side as [s|].
  - destruct (json_load_tol align_tol m s) as [m'|] eqn:Ej; [|discriminate]. cbn [bind].
    destruct (field_vdims dim _); [|discriminate]. cbn [bind]. intro H. injection H as <-. cbn [vf_mesh].
    apply Hm. eapply json_load_keeps. exact Ej.
  - cbn [bind]. destruct (field_vdims dim _); [|discriminate]. cbn [bind]. intro H. injection H as <-. cbn [vf_mesh].
    apply Hm. split; reflexivity.
Qed.

Lemma mkfield_n p1 p2 n_ subs_ nv vd vals valid f :
  mkfield p1 p2 n_ subs_ nv vd vals valid = OK f -> n (vf_mesh f) = n_.
Proof.
  unfold mkfield.
  destruct (mk_region p1 p2 None None (1 # 1000000000000)) as [r|]; [|discriminate]. cbn [bind].
  destruct (mk_mesh_n r n_) as [m|] eqn:Em; [|discriminate]. cbn [bind].
  apply mk_mesh_n_inv in Em. destruct Em as [_ [Em _]].
  destruct subs_ as [|s0 ss].
  - cbn [bind]. intro H. injection H as <-. exact Em.
  - unfold set_subregions, set_subregions_tol. destruct (forallb _ _); [|discriminate]. cbn [bind].
    intro H. injection H as <-. exact Em.
Qed.

Lemma write_dims f rep save_sub g side :
  q_write f rep save_sub = OK (g, side) -> g_dims g = map (fun k => k + 1)%Z (n (vf_mesh f)).
Proof.
  unfold q_write, write_vtk. destruct (parse_rep rep) as [r|]; [|discriminate]. cbn [bind].
  destruct (to_vtk 0 sumsq 1 0 f) as [g0|] eqn:Eg; [|discriminate]. cbn [bind].
  intro H. injection H as <- _. cbn [store g_dims].
  unfold to_vtk in Eg.
  destruct (negb (ndim (reg (vf_mesh f)) =? 3)%nat); [discriminate|].
  match type of Eg with (if ?c then _ else _) = _ => destruct c; [discriminate|] end.
  destruct (dims3 (vf_mesh f)) as [[[nx ny] nz]|]; [|discriminate].
  injection Eg as <-. reflexivity.
Qed.

Lemma map_pred_succ l : map (fun k => k - 1)%Z (map (fun k => k + 1)%Z l) = l.
Proof. induction l as [|a l IH]; simpl; [reflexivity|]. rewrite IH. f_equal. lia. Qed.

(* Clause 2 on the observation, the mesh: the file the implementation wrote has n + 1 points per axis
   and the field it read back from that file has the n that was written (every representation, both
   regimes, with or without side-car) *)
Theorem accepted_round_n exact pyth rep p1 p2 n_ nv vd vals valid subs_ save_sub stale
        ods ocs oarrs lo hi ns nv' vd' vals' valid' sb :
  check_C16 (CRound exact pyth rep p1 p2 n_ nv vd vals valid subs_ save_sub stale
                    (Some (ods, ocs, oarrs)) (Some (lo, hi, ns, nv', vd', vals', valid', sb))) = true ->
  ods = map (fun k => k + 1)%Z n_ /\ ns = n_.
Proof.
  intro H. apply check_round_sound in H. destruct H as [f [Ef H]].
  apply mkfield_n in Ef. unfold round_sim in H.
  destruct (q_write f rep save_sub) as [[g side]|] eqn:Ew; [|contradiction].
  apply write_dims in Ew. rewrite Ef in Ew.
  destruct H as [[Gd _] Hr]. cbn [fst] in Gd.
  assert (Eo : ods = map (fun k => (k + 1)%Z) n_) by (rewrite <- Gd; exact Ew).
  split; [exact Eo|].
  match type of Hr with res_sim _ ?v _ => destruct v as [f'|] eqn:Er; [|contradiction] end.
  apply from_vtk_mesh in Er. destruct Er as [En _]. cbn [to_grid g_dims] in En.
  cbn [res_sim fld_sim] in Hr. cbv zeta in Hr. destruct Hr as [_ [_ [_ [Hn _]]]].
  rewrite <- Hn, En, Eo. apply map_pred_succ.
Qed.

(* the reader on an independent writer's file: the observed n is the file's point counts minus one *)
Theorem accepted_read_n ods ocs oarrs side lo hi ns nv vd vals valid sb :
  check_C16 (CRead (ods, ocs, oarrs) side (Some (lo, hi, ns, nv, vd, vals, valid, sb))) = true ->
  ns = map (fun k => k - 1)%Z ods.
Proof.
  intro H. apply check_read_sound in H.
  match type of H with res_sim _ ?v _ => destruct v as [f'|] eqn:Er; [|contradiction] end.
  apply from_vtk_mesh in Er. destruct Er as [En _]. cbn [to_grid g_dims] in En.
  cbn [res_sim fld_sim] in H. cbv zeta in H. destruct H as [_ [_ [_ [Hn _]]]].
  rewrite <- Hn. exact En.
Qed.
