(* C16: concrete instances -- non-vacuity of the round trip and refutation witnesses for the
   known findings, evaluated on the model at V := Q. *)
From DF Require Import Prelude Constants_gen Region Mesh Subregions Vtk.
Open Scope Q_scope.

Definition wq_truth (x : Q) : bool := negb (Qeq_bool x 0).
Definition wq_id (_ : vrep) (x : Q) : Q := x.
Definition wq_norm (l : list Q) : Q := fold_right (fun x acc => x * x + acc) 0 l.
(* a storage map that keeps ten significant digits: relative perturbation 1e-11 *)
Definition wq_txt (_ : vrep) (x : Q) : Q := x * (1 + (1 # 100000000000)).

Definition w_region := mkRegion [100; 0; 0] [103; 1; 2] ["x"; "y"; "z"]%string ["m"; "m"; "m"]%string (1 # 1000000000000).
Definition w_sub := ("s"%string, mkRegion [100; 0; 0] [101; 1; 2] ["x"; "y"; "z"]%string ["m"; "m"; "m"]%string (1 # 1000000000000)).
Definition w_mesh (sb : list (string * region)) := mkMesh w_region [3; 1; 2]%Z ""%string sb.
Definition w_field (nv : nat) (vd : option (list string)) (vals : list Q) (sb : list (string * region)) :=
  mkVF (w_mesh sb) nv vd vals [true; false; true; true; false; true].

Definition w_vals2 : list Q := [1; 2; 3; 4; 5; 6; 7; 8; 9; 10; 11; 12].
Definition w_vals1 : list Q := [1; 2; 3; 4; 5; 6].

Definition w_trip (cwm : vrep -> Q -> Q) (f : vfield Q) (side : option (list (string * region))) : res (vfield Q) :=
  do g <- to_vtk 0 wq_norm 1 0 f; from_vtk 0 wq_truth (store cwm wq_id VTxt g) side.

Definition w_summary (r : res (vfield Q)) :=
  match r with
  | OK f => Some (n (vf_mesh f), vf_nv f, vf_vdims f, map Qred (vf_vals f), vf_valid f, map fst (subs (vf_mesh f)))
  | Err _ => None
  end.

(* non-vacuity: two labelled components, a validity mask and a subregion come back *)
Lemma roundtrip_nonvacuous :
  w_summary (w_trip wq_id (w_field 2 (Some ["p"; "q"]%string) w_vals2 [w_sub]) (Some [w_sub]))
  = Some ([3; 1; 2]%Z, 2%nat, Some ["p"; "q"]%string, w_vals2, [true; false; true; true; false; true], ["s"%string]).
Proof. vm_compute. reflexivity. Qed.

(* known finding C16-scalar-label-lost: the label of a scalar field does not come back *)
Lemma scalar_label_refuted :
  exists f f', w_trip wq_id f None = OK f' /\ vf_vdims f = Some ["s"%string] /\ vf_vdims f' = None.
Proof.
  exists (w_field 1 (Some ["s"%string]) w_vals1 []). eexists. split; [vm_compute; reflexivity|]. split; reflexivity.
Qed.

(* known finding C16-label-field: the scalar array of a component named 'field' is replaced by the
   vector array, and the labels read back are the defaults *)
Lemma label_field_refuted :
  exists f g f', to_vtk 0 wq_norm 1 0 f = OK g /\ vf_vdims f = Some ["field"; "b"]%string /\
    option_map fst (lookup_array "field" (g_cell g)) = Some 2%nat /\ length (g_cell g) = 4%nat /\
    w_trip wq_id f None = OK f' /\ vf_vdims f' = Some ["x"; "y"]%string.
Proof.
  exists (w_field 2 (Some ["field"; "b"]%string) w_vals2 []). eexists. eexists.
  split; [vm_compute; reflexivity|]. split; [reflexivity|]. split; [reflexivity|]. split; [reflexivity|].
  split; [vm_compute; reflexivity | reflexivity].
Qed.

(* known finding C16-txt-subregions: a storage map that keeps ten significant digits of every
   coordinate makes the reader reject the exact side-car subregions which the identity map accepts *)
Lemma txt_keeps_ten_digits : forall rp x, Qabs (wq_txt rp x - x) <= (1 # 2000000000) * Qabs x.
Proof.
  intros rp x. unfold wq_txt.
  setoid_replace (x * (1 + (1 # 100000000000)) - x) with (x * (1 # 100000000000)) by ring.
  rewrite Qabs_Qmult. change (Qabs (1 # 100000000000)) with (1 # 100000000000).
  pose proof (Qabs_nonneg x). set (ax := Qabs x) in *. lra.
Qed.

Lemma txt_subregions_refuted :
  exists f side, is_ok (w_trip wq_id f side) = true /\ is_ok (w_trip wq_txt f side) = false /\
    side = Some (subs (vf_mesh f)) /\ subs (vf_mesh f) <> [].
Proof.
  exists (w_field 1 None w_vals1 [w_sub]), (Some [w_sub]).
  split; [vm_compute; reflexivity|]. split; [vm_compute; reflexivity|]. split; [reflexivity | discriminate].
Qed.

(* without a side-car the same text map reads back *)
Lemma txt_without_subregions_ok : is_ok (w_trip wq_txt (w_field 1 None w_vals1 []) None) = true.
Proof. vm_compute. reflexivity. Qed.
