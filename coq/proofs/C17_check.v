(* C17: soundness of the exact-regime comparisons of check_C17. *)
From DF Require Import Prelude Constants_gen Region Mesh Xarray ListLemmas Check_C17.
Open Scope Q_scope.

Lemma forallb2_Forall2 {A B} (f : A -> B -> bool) (R : A -> B -> Prop) :
  (forall x y, f x y = true -> R x y) -> forall l1 l2, forallb2 f l1 l2 = true -> Forall2 R l1 l2.
Proof.
  intros H. induction l1 as [|x l1 IH]; intros [|y l2]; simpl; intro E; try discriminate; [constructor|].
  apply andb_true_iff in E. destruct E as [E1 E2]. constructor; auto.
Qed.

Lemma Forall2_eq {A} (l1 l2 : list A) : Forall2 eq l1 l2 -> l1 = l2.
Proof. induction 1; [reflexivity | subst; reflexivity]. Qed.

Lemma qlist_eqb_sound l1 l2 : qlist_eqb l1 l2 = true -> Forall2 Qeq l1 l2.
Proof. apply forallb2_Forall2. intros x y. apply Qeq_bool_eq. Qed.

Lemma strlist_eqb_sound l1 l2 : strlist_eqb l1 l2 = true -> l1 = l2.
Proof.
  intros H. apply Forall2_eq. revert H. apply forallb2_Forall2. intros x y. apply String.eqb_eq.
Qed.

Lemma zlist_eqb_sound l1 l2 : zlist_eqb l1 l2 = true -> l1 = l2.
Proof.
  intros H. apply Forall2_eq. revert H. apply forallb2_Forall2. intros x y. apply Z.eqb_eq.
Qed.

Lemma ostr_eqb_sound a b : ostr_eqb a b = true -> a = b.
Proof.
  destruct a, b; simpl; intro H; try discriminate; [|reflexivity].
  apply String.eqb_eq in H. subst. reflexivity.
Qed.

Lemma ostrl_eqb_sound a b : ostrl_eqb a b = true -> a = b.
Proof.
  destruct a, b; simpl; intro H; try discriminate; [|reflexivity].
  apply strlist_eqb_sound in H. subst. reflexivity.
Qed.

Ltac split_andb :=
  repeat match goal with
         | H : _ && _ = true |- _ => apply andb_true_iff in H; destruct H
         end.

Lemma field_close_sound f g : field_close true f g = true -> field_eqv f g.
Proof.
  unfold field_close, field_eqv, qlist_close. intros H. split_andb.
  repeat split.
  - apply qlist_eqb_sound; assumption.
  - apply qlist_eqb_sound; assumption.
  - apply strlist_eqb_sound; assumption.
  - apply strlist_eqb_sound; assumption.
  - apply Qeq_bool_eq; assumption.
  - apply zlist_eqb_sound; assumption.
  - apply Z.eqb_eq; assumption.
  - apply ostrl_eqb_sound; assumption.
  - apply String.eqb_eq; assumption.
  - apply ostr_eqb_sound; assumption.
  - apply qlist_eqb_sound; assumption.
Qed.

Lemma axes_close_sound sc : forall a b, axes_close true sc a b = true -> Forall2 (Forall2 Qeq) a b.
Proof.
  unfold axes_close. intros a b H.
  apply andb_true_iff in H. destruct H as [H E]. apply andb_true_iff in H. destruct H as [L1 L2].
  apply Nat.eqb_eq in L1. apply Nat.eqb_eq in L2.
  revert a b L1 L2 E. induction sc as [|s sc IH]; intros [|x a] [|y b] L1 L2 E; simpl in *; try discriminate; [constructor|].
  apply andb_true_iff in E. destruct E as [E1 E2]. constructor.
  - apply qlist_eqb_sound. exact E1.
  - apply IH; [lia | lia | exact E2].
Qed.

Lemma oql_close_sound sc a b : oql_close true sc a b = true -> oql_eqv a b.
Proof.
  destruct a, b; simpl; intro H; try discriminate; [|exact I]. apply qlist_eqb_sound. exact H.
Qed.

Lemma da_close_sound sc a b : da_close true sc a b = true -> da_eqv a b.
Proof.
  unfold da_close, da_eqv. intros H. split_andb.
  repeat split.
  - apply strlist_eqb_sound; assumption.
  - apply zlist_eqb_sound; assumption.
  - eapply axes_close_sound; eassumption.
  - apply Forall2_eq. eapply forallb2_Forall2; [|eassumption]. intros x y. apply ostr_eqb_sound.
  - apply ostrl_eqb_sound; assumption.
  - apply qlist_eqb_sound; assumption.
  - apply String.eqb_eq; assumption.
  - apply ostr_eqb_sound; assumption.
  - eapply oql_close_sound; eassumption.
  - eapply oql_close_sound; eassumption.
  - eapply oql_close_sound; eassumption.
  - match goal with H : opt_eqb Z.eqb _ _ = true |- _ => revert H end.
    destruct (a_nvdim a), (a_nvdim b); simpl; intro E; try discriminate; [|reflexivity].
    apply Z.eqb_eq in E. subst. reflexivity.
  - match goal with H : opt_eqb Qeq_bool _ _ = true |- _ => revert H end.
    destruct (a_tf a), (a_tf b); simpl; intro E; try discriminate; [|exact I].
    apply Qeq_bool_eq. exact E.
Qed.

(* a passing exact-regime case is a certificate about the implementation's recorded output *)
Lemma check_export_sound p1 p2 ds us tf_ n_ k vd dt un data unit_arg obs :
  check_C17 (CExport true p1 p2 ds us tf_ n_ k vd dt un data unit_arg obs) = true ->
  exists f, build_field p1 p2 ds us tf_ n_ k vd dt un data = OK f /\ da_eqv (to_xarray f unit_arg) obs.
Proof.
  simpl. destruct (build_field p1 p2 ds us tf_ n_ k vd dt un data) as [f|e]; [|discriminate].
  intros H. exists f. split; [reflexivity|]. eapply da_close_sound. exact H.
Qed.

Lemma check_import_sound xa g :
  check_C17 (CImport true xa (Some g)) = true ->
  exists f, from_xarray_f fac_loose xa = OK f /\ field_eqv f g.
Proof.
  simpl. destruct (from_xarray_f fac_loose xa) as [f|e]; [|discriminate].
  intros H. exists f. split; [reflexivity | apply field_close_sound; exact H].
Qed.

Lemma check_import_reject_sound exact xa :
  check_C17 (CImport exact xa None) = true -> is_ok (from_xarray_f fac_strict xa) = false.
Proof. simpl. intros H. apply negb_true_iff in H. exact H. Qed.

Lemma check_round_sound p1 p2 ds us tf_ n_ k vd dt un data g :
  check_C17 (CRound true p1 p2 ds us tf_ n_ k vd dt un data (Some g)) = true ->
  exists f f', build_field p1 p2 ds us tf_ n_ k vd dt un data = OK f /\
               from_xarray_f fac_loose (to_xarray f None) = OK f' /\ field_eqv f' g.
Proof.
  simpl. destruct (build_field p1 p2 ds us tf_ n_ k vd dt un data) as [f|e]; [|discriminate].
  unfold import_ok. destruct (from_xarray_f fac_loose (to_xarray f None)) as [f'|e] eqn:E; [|discriminate].
  intros H. exists f, f'. split; [reflexivity|]. split; [exact E|]. apply field_close_sound; exact H.
Qed.

(* ---------- the bracket of the spacing tolerance is monotone ---------- *)
Lemma evenly_mono (f1 f2 : Q) (v : list Q) : f1 <= f2 -> evenly f1 v = true -> evenly f2 v = true.
Proof.
  unfold evenly. intros Hf H. rewrite forallb_forall in *. intros x Hx. specialize (H x Hx).
  apply Qle_bool_iff in H. apply Qle_bool_iff.
  set (T := np_atol + np_rtol * Qabs (qmean (diffs v))) in *.
  assert (HT : 0 <= T).
  { unfold T, np_atol, np_rtol. pose proof (Qabs_nonneg (qmean (diffs v))). lra. }
  pose proof (Qmult_le_compat_r f1 f2 T Hf HT). lra.
Qed.

Lemma from_xarray_f_mono (f1 f2 : Q) (xa : dataarray) (g : field) :
  f1 <= f2 -> from_xarray_f f1 xa = OK g -> from_xarray_f f2 xa = OK g.
Proof.
  intros Hf. unfold from_xarray_f.
  destruct (a_nvdim xa) as [k|]; [|exact (fun H => H)].
  destruct (k <? 1)%Z; [exact (fun H => H)|].
  destruct ((1 <? k)%Z && negb (has_vdims_dim xa)); [exact (fun H => H)|].
  destruct (forallb (evenly f1) (xcoords xa)) eqn:E; simpl negb; cbv iota; [|discriminate].
  assert (E2 : forallb (evenly f2) (xcoords xa) = true).
  { rewrite forallb_forall in *. intros v Hv. apply (evenly_mono f1 f2 v Hf). exact (E v Hv). }
  rewrite E2. simpl negb. cbv iota. exact (fun H => H).
Qed.

Lemma bracket (xa : dataarray) (g : field) :
  (from_xarray xa = OK g -> from_xarray_f fac_loose xa = OK g) /\
  (from_xarray_f fac_strict xa = OK g -> from_xarray xa = OK g).
Proof.
  unfold from_xarray. split; apply from_xarray_f_mono; unfold fac_loose, fac_strict; lra.
Qed.
