(* C17: the general accepting import (which attribute wins), the n-dimensional reconstruction
   from evenly spaced coordinates, and the eight attribute subsets. *)
From DF Require Import Prelude Constants_gen Region Mesh Xarray QLemmas ListLemmas C01_axis C01_nd C17_xarray.
Open Scope Q_scope.

Lemma existsb_eqb_true (s : string) (l : list string) : In s l -> existsb (String.eqb s) l = true.
Proof. intros H. apply existsb_exists. exists s. split; [exact H | apply String.eqb_refl]. Qed.

(* ---------- every accepted import, in terms of the effective cell / corners ---------- *)
Lemma import_accepts (xa : dataarray) (k : Z) (cs : list Q) (ks : list Z) (vd : option (list string)) :
  a_nvdim xa = Some k -> (1 <= k)%Z -> ((1 < k)%Z -> In vdims_name (xdims xa)) ->
  forallb (evenly 1) (xcoords xa) = true ->
  eff_cell xa = OK cs ->
  axes (eff_p1 xa cs) (eff_p2 xa cs) ks cs -> ks <> [] ->
  length (geo_dims xa) = length ks -> nodupb (geo_dims xa) = true ->
  match all_some (xcunits xa) with Some u => length u = length ks | None => True end ->
  set_vdims k (xvdims xa) = OK vd -> shape_ok xa k ks = true ->
  from_xarray xa =
  OK (mkField (mkMesh (mkRegion (eff_p1 xa cs) (eff_p2 xa cs) (geo_dims xa)
                                (eff_units xa (length ks)) (eff_tf xa)) ks "" [])
              k vd (xdtype xa) None (xdata xa)).
Proof.
  intros Hn Hk Hvax Hev Hc Hax Hne Hd Hnd Hu Hvd Hsh.
  unfold eff_cell in Hc. unfold eff_p1, eff_p2, eff_units, eff_tf in *.
  set (p1 := match a_pmin xa with Some p => p | None => map2 (fun v cc => hd 0 v - cc / 2) (xcoords xa) cs end) in *.
  set (p2 := match a_pmax xa with Some p => p | None => map2 (fun v cc => last v 0 + cc / 2) (xcoords xa) cs end) in *.
  destruct (axes_lengths _ _ _ _ Hax) as [L1 [L2 L3]].
  assert (Hp1 : p1 <> []) by (intros E; rewrite E in L2; destruct ks; [congruence | discriminate]).
  assert (Hreg : mk_region p1 p2 (Some (geo_dims xa)) (all_some (xcunits xa)) default_tf =
                 OK (mkRegion p1 p2 (geo_dims xa)
                       (match all_some (xcunits xa) with Some u => u | None => repeat "m"%string (length p1) end)
                       default_tf)).
  { apply (mk_region_axes p1 p2 ks cs); try assumption; try lia.
    destruct (all_some (xcunits xa)); [lia | exact I]. }
  set (us := match all_some (xcunits xa) with Some u => u | None => repeat "m"%string (length p1) end) in *.
  assert (Hby : mesh_by_cell (mkRegion p1 p2 (geo_dims xa) us default_tf) cs =
                OK (mkMesh (mkRegion p1 p2 (geo_dims xa) us default_tf) ks "" [])).
  { apply by_cell_axes; simpl; [exact Hax | exact Hp1 | unfold default_tf; lra]. }
  unfold from_xarray, from_xarray_f. rewrite Hn.
  destruct (Z.ltb_spec k 1) as [K0|_]; [lia|].
  assert (Hv : (1 <? k)%Z && negb (has_vdims_dim xa) = false).
  { destruct (Z.ltb_spec 1 k) as [K1|K1]; [|reflexivity].
    unfold has_vdims_dim. rewrite (existsb_eqb_true _ _ (Hvax K1)). reflexivity. }
  rewrite Hv, Hev. simpl negb. cbv iota.
  rewrite Hc. unfold bind. cbv iota beta.
  fold p1. fold p2. rewrite Hreg. cbv iota beta. rewrite Hby. cbv iota beta.
  cbn [pmin pmax dims units n bc subs reg].
  rewrite Hvd. cbv iota beta. rewrite Hsh. simpl negb. cbv iota.
  unfold us. rewrite L2.
  destruct (a_tf xa); reflexivity.
Qed.

(* ---------- n-dimensional reconstruction from evenly spaced coordinates ---------- *)
Inductive paxes : list Q -> list Q -> list Z -> Prop :=
| paxes_nil : paxes [] [] []
| paxes_cons x0 c k x0s cs ks : 0 < c -> (2 <= k)%Z -> paxes x0s cs ks ->
    paxes (x0 :: x0s) (c :: cs) (k :: ks).

Lemma paxes_of x0s : forall cs ks, length cs = length x0s -> length ks = length x0s ->
  Forall (fun c => 0 < c) cs -> Forall (fun k => 2 <= k)%Z ks -> paxes x0s cs ks.
Proof.
  induction x0s as [|x0 x0s IH]; intros [|c cs] [|k ks] L1 L2 F1 F2; simpl in *; try discriminate.
  - constructor.
  - inversion F1; inversion F2; subst. constructor; auto.
Qed.

Definition lo_of (co : list (list Q)) (cs : list Q) : list Q := map2 (fun v cc => hd 0 v - cc / 2) co cs.
Definition hi_of (co : list (list Q)) (cs : list Q) : list Q := map2 (fun v cc => last v 0 + cc / 2) co cs.

Lemma paxes_rebuild x0s cs ks : paxes x0s cs ks ->
  forallb (evenly 1) (prog_coords x0s cs ks) = true /\
  exists cs', all_some (map mean_spacing (prog_coords x0s cs ks)) = Some cs' /\
    axes (lo_of (prog_coords x0s cs ks) cs') (hi_of (prog_coords x0s cs ks) cs') ks cs' /\
    Forall2 Qeq (lo_of (prog_coords x0s cs ks) cs') (map2 (fun x0 c => x0 - c / 2) x0s cs) /\
    Forall2 Qeq (hi_of (prog_coords x0s cs ks) cs')
                (map3 (fun x0 c k => x0 + (inject_Z k - (1 # 2)) * c) x0s cs ks) /\
    Forall2 Qeq cs' cs.
Proof.
  induction 1 as [|x0 c k x0s cs ks Hc Hk _ [IHe [cs' [IH1 [IH2 [IH3 [IH4 IH5]]]]]]].
  - split; [reflexivity|]. exists []. repeat split; constructor.
  - destruct (rebuild_axis x0 c k Hc Hk) as [Ev [c' [M [Ec [P1 [P2 [Hlt [Hkc _]]]]]]]].
    cbv zeta in *. fold (prog_axis x0 c k) in *.
    change (prog_coords (x0 :: x0s) (c :: cs) (k :: ks)) with (prog_axis x0 c k :: prog_coords x0s cs ks).
    split; [simpl; rewrite Ev, IHe; reflexivity|].
    exists (c' :: cs'). split; [simpl; rewrite M, IH1; reflexivity|].
    unfold lo_of, hi_of in *. simpl map2. simpl map3.
    split; [constructor; [exact Hlt | lia | exact Hkc | exact IH2]|].
    split; [constructor; [exact P1 | exact IH3]|].
    split; [constructor; [|exact IH4] | constructor; [exact Ec | exact IH5]].
    rewrite P2. field.
Qed.

Lemma zlist_eqb_eq l1 l2 : zlist_eqb l1 l2 = true -> l1 = l2.
Proof.
  unfold zlist_eqb. revert l2. induction l1 as [|x l1 IH]; intros [|y l2]; simpl; intro H; try discriminate; auto.
  apply andb_true_iff in H. destruct H as [H1 H2]. apply Z.eqb_eq in H1. subst y. f_equal. auto.
Qed.

Lemma In_removelast {A} (x : A) l : In x (removelast l) -> In x l.
Proof.
  induction l as [|a l IH]; simpl; [tauto|]. destruct l as [|b l]; [simpl; tauto|].
  intros [H | H]; [left; exact H | right; exact (IH H)].
Qed.

Lemma no_single_cell (xa : dataarray) k ks : shape_ok xa k ks = true -> Forall (fun k => 2 <= k)%Z ks ->
  existsb (Z.eqb 1) (removelast (xshape xa)) = false.
Proof.
  intros Hs F. destruct (existsb (Z.eqb 1) (removelast (xshape xa))) eqn:E; [|reflexivity]. exfalso.
  apply existsb_exists in E. destruct E as [x [Hx H1]]. apply Z.eqb_eq in H1. subst x.
  assert (Hin : In 1%Z ks).
  { unfold shape_ok in Hs. destruct (k =? 1)%Z; apply zlist_eqb_eq in Hs; rewrite Hs in Hx.
    - exact (In_removelast _ _ Hx).
    - rewrite removelast_last in Hx. exact Hx. }
  rewrite Forall_forall in F. specialize (F _ Hin). lia.
Qed.

Lemma rebuild_nd (xa : dataarray) (k : Z) (x0s cs : list Q) (ks : list Z) (vd : option (list string)) :
  a_nvdim xa = Some k -> (1 <= k)%Z -> ((1 < k)%Z -> In vdims_name (xdims xa)) ->
  a_cell xa = None -> a_pmin xa = None -> a_pmax xa = None ->
  xcoords xa = prog_coords x0s cs ks ->
  x0s <> [] -> length cs = length x0s -> length ks = length x0s ->
  Forall (fun c => 0 < c) cs -> Forall (fun k => 2 <= k)%Z ks ->
  length (geo_dims xa) = length ks -> nodupb (geo_dims xa) = true ->
  match all_some (xcunits xa) with Some u => length u = length ks | None => True end ->
  set_vdims k (xvdims xa) = OK vd -> shape_ok xa k ks = true ->
  exists g, from_xarray xa = OK g /\
    Forall2 Qeq (pmin (reg (fmesh g))) (map2 (fun x0 c => x0 - c / 2) x0s cs) /\
    Forall2 Qeq (pmax (reg (fmesh g))) (map3 (fun x0 c k => x0 + (inject_Z k - (1 # 2)) * c) x0s cs ks) /\
    n (fmesh g) = ks /\ dims (reg (fmesh g)) = geo_dims xa /\
    units (reg (fmesh g)) = eff_units xa (length ks) /\ tf (reg (fmesh g)) = eff_tf xa /\
    fnvdim g = k /\ fvdims g = vd /\ fdtype g = xdtype xa /\ fdata g = xdata xa.
Proof.
  intros Hn Hk Hvax Hc0 Hp1 Hp2 Hco Hne L1 L2 F1 F2 Hd Hnd Hu Hvd Hsh.
  destruct (paxes_rebuild x0s cs ks (paxes_of x0s cs ks L1 L2 F1 F2)) as [Hev [cs' [Hm [Hax [Q1 [Q2 _]]]]]].
  assert (Hec : eff_cell xa = OK cs').
  { unfold eff_cell. rewrite Hc0, (no_single_cell xa k ks Hsh F2), Hco, Hm. reflexivity. }
  assert (E1 : eff_p1 xa cs' = lo_of (prog_coords x0s cs ks) cs') by (unfold eff_p1; rewrite Hp1, Hco; reflexivity).
  assert (E2 : eff_p2 xa cs' = hi_of (prog_coords x0s cs ks) cs') by (unfold eff_p2; rewrite Hp2, Hco; reflexivity).
  assert (Hks : ks <> []) by (destruct ks; [destruct x0s; [congruence | discriminate] | discriminate]).
  eexists. split.
  - apply (import_accepts xa k cs' ks vd); try assumption.
    + rewrite Hco. exact Hev.
    + rewrite E1, E2. exact Hax.
  - simpl. rewrite E1, E2. repeat split; assumption || reflexivity.
Qed.

(* ---------- the eight subsets of the geometric attributes: which one wins ---------- *)
Lemma import_with_cell_pmin_pmax (xa : dataarray) (k : Z) (cs p q : list Q) (ks : list Z) (vd : option (list string)) :
  a_nvdim xa = Some k ->
  (1 <= k)%Z ->
  ((1 < k)%Z -> In vdims_name (xdims xa)) ->
  forallb (evenly 1) (xcoords xa) = true ->
  a_cell xa = Some cs ->
  a_pmin xa = Some p ->
  a_pmax xa = Some q ->
  axes p q ks cs ->
  ks <> [] ->
  length (geo_dims xa) = length ks ->
  nodupb (geo_dims xa) = true ->
  match all_some (xcunits xa) with Some u => length u = length ks | None => True end ->
  set_vdims k (xvdims xa) = OK vd ->
  shape_ok xa k ks = true ->
  from_xarray xa =
  OK (mkField (mkMesh (mkRegion p q (geo_dims xa)
                                (eff_units xa (length ks)) (eff_tf xa)) ks "" [])
              k vd (xdtype xa) None (xdata xa)).
Proof.
  intros Hn Hk Hv Hev HC H1 H2 Hax.
  assert (Hec : eff_cell xa = OK cs) by (unfold eff_cell; rewrite HC; reflexivity).
  pose proof (import_accepts xa k cs ks vd Hn Hk Hv Hev Hec) as G.
  unfold eff_p1, eff_p2 in G. rewrite H1, H2 in G. exact (G Hax).
Qed.

Lemma import_with_cell_pmin (xa : dataarray) (k : Z) (cs p : list Q) (ks : list Z) (vd : option (list string)) :
  a_nvdim xa = Some k ->
  (1 <= k)%Z ->
  ((1 < k)%Z -> In vdims_name (xdims xa)) ->
  forallb (evenly 1) (xcoords xa) = true ->
  a_cell xa = Some cs ->
  a_pmin xa = Some p ->
  a_pmax xa = None ->
  axes p (map2 (fun v cc => last v 0 + cc / 2) (xcoords xa) cs) ks cs ->
  ks <> [] ->
  length (geo_dims xa) = length ks ->
  nodupb (geo_dims xa) = true ->
  match all_some (xcunits xa) with Some u => length u = length ks | None => True end ->
  set_vdims k (xvdims xa) = OK vd ->
  shape_ok xa k ks = true ->
  from_xarray xa =
  OK (mkField (mkMesh (mkRegion p (map2 (fun v cc => last v 0 + cc / 2) (xcoords xa) cs) (geo_dims xa)
                                (eff_units xa (length ks)) (eff_tf xa)) ks "" [])
              k vd (xdtype xa) None (xdata xa)).
Proof.
  intros Hn Hk Hv Hev HC H1 H2 Hax.
  assert (Hec : eff_cell xa = OK cs) by (unfold eff_cell; rewrite HC; reflexivity).
  pose proof (import_accepts xa k cs ks vd Hn Hk Hv Hev Hec) as G.
  unfold eff_p1, eff_p2 in G. rewrite H1, H2 in G. exact (G Hax).
Qed.

Lemma import_with_cell_pmax (xa : dataarray) (k : Z) (cs q : list Q) (ks : list Z) (vd : option (list string)) :
  a_nvdim xa = Some k ->
  (1 <= k)%Z ->
  ((1 < k)%Z -> In vdims_name (xdims xa)) ->
  forallb (evenly 1) (xcoords xa) = true ->
  a_cell xa = Some cs ->
  a_pmin xa = None ->
  a_pmax xa = Some q ->
  axes (map2 (fun v cc => hd 0 v - cc / 2) (xcoords xa) cs) q ks cs ->
  ks <> [] ->
  length (geo_dims xa) = length ks ->
  nodupb (geo_dims xa) = true ->
  match all_some (xcunits xa) with Some u => length u = length ks | None => True end ->
  set_vdims k (xvdims xa) = OK vd ->
  shape_ok xa k ks = true ->
  from_xarray xa =
  OK (mkField (mkMesh (mkRegion (map2 (fun v cc => hd 0 v - cc / 2) (xcoords xa) cs) q (geo_dims xa)
                                (eff_units xa (length ks)) (eff_tf xa)) ks "" [])
              k vd (xdtype xa) None (xdata xa)).
Proof.
  intros Hn Hk Hv Hev HC H1 H2 Hax.
  assert (Hec : eff_cell xa = OK cs) by (unfold eff_cell; rewrite HC; reflexivity).
  pose proof (import_accepts xa k cs ks vd Hn Hk Hv Hev Hec) as G.
  unfold eff_p1, eff_p2 in G. rewrite H1, H2 in G. exact (G Hax).
Qed.

Lemma import_with_cell (xa : dataarray) (k : Z) (cs : list Q) (ks : list Z) (vd : option (list string)) :
  a_nvdim xa = Some k ->
  (1 <= k)%Z ->
  ((1 < k)%Z -> In vdims_name (xdims xa)) ->
  forallb (evenly 1) (xcoords xa) = true ->
  a_cell xa = Some cs ->
  a_pmin xa = None ->
  a_pmax xa = None ->
  axes (map2 (fun v cc => hd 0 v - cc / 2) (xcoords xa) cs) (map2 (fun v cc => last v 0 + cc / 2) (xcoords xa) cs) ks cs ->
  ks <> [] ->
  length (geo_dims xa) = length ks ->
  nodupb (geo_dims xa) = true ->
  match all_some (xcunits xa) with Some u => length u = length ks | None => True end ->
  set_vdims k (xvdims xa) = OK vd ->
  shape_ok xa k ks = true ->
  from_xarray xa =
  OK (mkField (mkMesh (mkRegion (map2 (fun v cc => hd 0 v - cc / 2) (xcoords xa) cs) (map2 (fun v cc => last v 0 + cc / 2) (xcoords xa) cs) (geo_dims xa)
                                (eff_units xa (length ks)) (eff_tf xa)) ks "" [])
              k vd (xdtype xa) None (xdata xa)).
Proof.
  intros Hn Hk Hv Hev HC H1 H2 Hax.
  assert (Hec : eff_cell xa = OK cs) by (unfold eff_cell; rewrite HC; reflexivity).
  pose proof (import_accepts xa k cs ks vd Hn Hk Hv Hev Hec) as G.
  unfold eff_p1, eff_p2 in G. rewrite H1, H2 in G. exact (G Hax).
Qed.

Lemma import_with_pmin_pmax (xa : dataarray) (k : Z) (cs p q : list Q) (ks : list Z) (vd : option (list string)) :
  a_nvdim xa = Some k ->
  (1 <= k)%Z ->
  ((1 < k)%Z -> In vdims_name (xdims xa)) ->
  forallb (evenly 1) (xcoords xa) = true ->
  a_cell xa = None ->
  existsb (Z.eqb 1) (removelast (xshape xa)) = false ->
  all_some (map mean_spacing (xcoords xa)) = Some cs ->
  a_pmin xa = Some p ->
  a_pmax xa = Some q ->
  axes p q ks cs ->
  ks <> [] ->
  length (geo_dims xa) = length ks ->
  nodupb (geo_dims xa) = true ->
  match all_some (xcunits xa) with Some u => length u = length ks | None => True end ->
  set_vdims k (xvdims xa) = OK vd ->
  shape_ok xa k ks = true ->
  from_xarray xa =
  OK (mkField (mkMesh (mkRegion p q (geo_dims xa)
                                (eff_units xa (length ks)) (eff_tf xa)) ks "" [])
              k vd (xdtype xa) None (xdata xa)).
Proof.
  intros Hn Hk Hv Hev HC HS HM H1 H2 Hax.
  assert (Hec : eff_cell xa = OK cs) by (unfold eff_cell; rewrite HC, HS, HM; reflexivity).
  pose proof (import_accepts xa k cs ks vd Hn Hk Hv Hev Hec) as G.
  unfold eff_p1, eff_p2 in G. rewrite H1, H2 in G. exact (G Hax).
Qed.

Lemma import_with_pmin (xa : dataarray) (k : Z) (cs p : list Q) (ks : list Z) (vd : option (list string)) :
  a_nvdim xa = Some k ->
  (1 <= k)%Z ->
  ((1 < k)%Z -> In vdims_name (xdims xa)) ->
  forallb (evenly 1) (xcoords xa) = true ->
  a_cell xa = None ->
  existsb (Z.eqb 1) (removelast (xshape xa)) = false ->
  all_some (map mean_spacing (xcoords xa)) = Some cs ->
  a_pmin xa = Some p ->
  a_pmax xa = None ->
  axes p (map2 (fun v cc => last v 0 + cc / 2) (xcoords xa) cs) ks cs ->
  ks <> [] ->
  length (geo_dims xa) = length ks ->
  nodupb (geo_dims xa) = true ->
  match all_some (xcunits xa) with Some u => length u = length ks | None => True end ->
  set_vdims k (xvdims xa) = OK vd ->
  shape_ok xa k ks = true ->
  from_xarray xa =
  OK (mkField (mkMesh (mkRegion p (map2 (fun v cc => last v 0 + cc / 2) (xcoords xa) cs) (geo_dims xa)
                                (eff_units xa (length ks)) (eff_tf xa)) ks "" [])
              k vd (xdtype xa) None (xdata xa)).
Proof.
  intros Hn Hk Hv Hev HC HS HM H1 H2 Hax.
  assert (Hec : eff_cell xa = OK cs) by (unfold eff_cell; rewrite HC, HS, HM; reflexivity).
  pose proof (import_accepts xa k cs ks vd Hn Hk Hv Hev Hec) as G.
  unfold eff_p1, eff_p2 in G. rewrite H1, H2 in G. exact (G Hax).
Qed.

Lemma import_with_pmax (xa : dataarray) (k : Z) (cs q : list Q) (ks : list Z) (vd : option (list string)) :
  a_nvdim xa = Some k ->
  (1 <= k)%Z ->
  ((1 < k)%Z -> In vdims_name (xdims xa)) ->
  forallb (evenly 1) (xcoords xa) = true ->
  a_cell xa = None ->
  existsb (Z.eqb 1) (removelast (xshape xa)) = false ->
  all_some (map mean_spacing (xcoords xa)) = Some cs ->
  a_pmin xa = None ->
  a_pmax xa = Some q ->
  axes (map2 (fun v cc => hd 0 v - cc / 2) (xcoords xa) cs) q ks cs ->
  ks <> [] ->
  length (geo_dims xa) = length ks ->
  nodupb (geo_dims xa) = true ->
  match all_some (xcunits xa) with Some u => length u = length ks | None => True end ->
  set_vdims k (xvdims xa) = OK vd ->
  shape_ok xa k ks = true ->
  from_xarray xa =
  OK (mkField (mkMesh (mkRegion (map2 (fun v cc => hd 0 v - cc / 2) (xcoords xa) cs) q (geo_dims xa)
                                (eff_units xa (length ks)) (eff_tf xa)) ks "" [])
              k vd (xdtype xa) None (xdata xa)).
Proof.
  intros Hn Hk Hv Hev HC HS HM H1 H2 Hax.
  assert (Hec : eff_cell xa = OK cs) by (unfold eff_cell; rewrite HC, HS, HM; reflexivity).
  pose proof (import_accepts xa k cs ks vd Hn Hk Hv Hev Hec) as G.
  unfold eff_p1, eff_p2 in G. rewrite H1, H2 in G. exact (G Hax).
Qed.

Lemma import_with_no_geometry_attrs (xa : dataarray) (k : Z) (cs : list Q) (ks : list Z) (vd : option (list string)) :
  a_nvdim xa = Some k ->
  (1 <= k)%Z ->
  ((1 < k)%Z -> In vdims_name (xdims xa)) ->
  forallb (evenly 1) (xcoords xa) = true ->
  a_cell xa = None ->
  existsb (Z.eqb 1) (removelast (xshape xa)) = false ->
  all_some (map mean_spacing (xcoords xa)) = Some cs ->
  a_pmin xa = None ->
  a_pmax xa = None ->
  axes (map2 (fun v cc => hd 0 v - cc / 2) (xcoords xa) cs) (map2 (fun v cc => last v 0 + cc / 2) (xcoords xa) cs) ks cs ->
  ks <> [] ->
  length (geo_dims xa) = length ks ->
  nodupb (geo_dims xa) = true ->
  match all_some (xcunits xa) with Some u => length u = length ks | None => True end ->
  set_vdims k (xvdims xa) = OK vd ->
  shape_ok xa k ks = true ->
  from_xarray xa =
  OK (mkField (mkMesh (mkRegion (map2 (fun v cc => hd 0 v - cc / 2) (xcoords xa) cs) (map2 (fun v cc => last v 0 + cc / 2) (xcoords xa) cs) (geo_dims xa)
                                (eff_units xa (length ks)) (eff_tf xa)) ks "" [])
              k vd (xdtype xa) None (xdata xa)).
Proof.
  intros Hn Hk Hv Hev HC HS HM H1 H2 Hax.
  assert (Hec : eff_cell xa = OK cs) by (unfold eff_cell; rewrite HC, HS, HM; reflexivity).
  pose proof (import_accepts xa k cs ks vd Hn Hk Hv Hev Hec) as G.
  unfold eff_p1, eff_p2 in G. rewrite H1, H2 in G. exact (G Hax).
Qed.

(* ---------- witnesses (non-vacuity) ---------- *)
Definition ex_raw : dataarray :=
  mkDA ["x"%string; "y"%string; "vdims"%string] [2%Z; 3%Z; 2%Z]
       (prog_coords [0; 1] [1; (1 # 2)] [2%Z; 3%Z]) [Some "nm"%string; None]
       (Some ["a"%string; "b"%string]) [1; 2; 3; 4; 5; 6; 7; 8; 9; 10; 11; 12] "float64" None
       None None None (Some 2%Z) None.

Lemma ex_raw_rebuild : exists g, from_xarray ex_raw = OK g /\
  Forall2 Qeq (pmin (reg (fmesh g))) [0 - 1 / 2; 1 - (1 # 2) / 2] /\ n (fmesh g) = [2%Z; 3%Z].
Proof.
  destruct (rebuild_nd ex_raw 2 [0; 1] [1; (1 # 2)] [2%Z; 3%Z] (Some ["a"%string; "b"%string]))
    as [g [G1 [G2 [_ [G3 _]]]]]; try reflexivity; try discriminate; try lia.
  - intros _. simpl. tauto.
  - repeat constructor; lra.
  - repeat constructor; lia.
  - exists g. repeat split; assumption.
Qed.

(* a single-cell axis is importable when the cell attribute is there: corners = centre -+ cell/2 *)
Definition ex_single : dataarray :=
  mkDA ["x"%string] [1%Z] [[5]] [None] None [7] "int64" None (Some [2]) None None (Some 1%Z) None.

Lemma ex_single_import : exists g, from_xarray ex_single = OK g /\
  pmin (reg (fmesh g)) = [5 - 2 / 2] /\ pmax (reg (fmesh g)) = [5 + 2 / 2] /\ n (fmesh g) = [1%Z].
Proof.
  eexists. split.
  - apply (import_with_cell ex_single 1 [2] [1%Z] None); try reflexivity; try discriminate; try lia.
    + simpl. constructor; [vm_compute; reflexivity | lia | vm_compute; reflexivity | constructor].
  - simpl. repeat split; reflexivity.
Qed.

Lemma ex_axes : axes [0] [4] [4%Z] [1].
Proof. constructor; [vm_compute; reflexivity | lia | vm_compute; reflexivity | constructor]. Qed.
