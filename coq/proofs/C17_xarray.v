(* C17: proofs about the model of to_xarray / from_xarray (model/Xarray.v). *)
From DF Require Import Prelude Constants_gen Region Mesh Xarray QLemmas ListLemmas C01_axis C01_nd.
Open Scope Q_scope.

(* ---------- export: attributes, names, data ---------- *)
Lemma export_attrs (f : field) (u : option string) :
  let xa := to_xarray f u in
  let m := fmesh f in
  a_cell xa = Some (cell m) /\ a_pmin xa = Some (pmin (reg m)) /\ a_pmax xa = Some (pmax (reg m)) /\
  a_nvdim xa = Some (fnvdim f) /\ a_tf xa = Some (tf (reg m)) /\
  a_units xa = pick_unit u (funit f) /\
  xcunits xa = map (@Some string) (units (reg m)) /\
  xdata xa = fdata f /\ xdtype xa = fdtype f /\
  ((1 < fnvdim f)%Z -> xdims xa = dims (reg m) ++ [vdims_name] /\ xshape xa = n m ++ [fnvdim f] /\
                        xvdims xa = fvdims f) /\
  ((fnvdim f <= 1)%Z -> xdims xa = dims (reg m) /\ xshape xa = n m /\ xvdims xa = None).
Proof.
  simpl. unfold is_vector.
  destruct (Z.ltb_spec 1 (fnvdim f)) as [L | L]; repeat split; try reflexivity; intros; lia.
Qed.

(* ---------- rejections ---------- *)
Lemma reject_no_nvdim (xa : dataarray) : a_nvdim xa = None -> from_xarray xa = Err KeyE.
Proof. intros H. unfold from_xarray, from_xarray_f. rewrite H. reflexivity. Qed.

Lemma existsb_eqb_false (s : string) (l : list string) : ~ In s l -> existsb (String.eqb s) l = false.
Proof.
  intros H. destruct (existsb (String.eqb s) l) eqn:E; [|reflexivity].
  apply existsb_exists in E. destruct E as [x [Hx Hs]]. apply String.eqb_eq in Hs. subst x. contradiction.
Qed.

Lemma reject_no_vdims_axis (xa : dataarray) (k : Z) :
  a_nvdim xa = Some k -> (1 < k)%Z -> ~ In vdims_name (xdims xa) -> is_ok (from_xarray xa) = false.
Proof.
  intros H K N. unfold from_xarray, from_xarray_f. rewrite H.
  destruct (Z.ltb_spec k 1); [reflexivity|].
  unfold has_vdims_dim. rewrite (existsb_eqb_false _ _ N).
  destruct (Z.ltb_spec 1 k); [reflexivity | lia].
Qed.

Lemma forallb_false_In {A} (p : A -> bool) (l : list A) (x : A) : In x l -> p x = false -> forallb p l = false.
Proof.
  intros Hx Hp. destruct (forallb p l) eqn:E; [|reflexivity].
  rewrite forallb_forall in E. rewrite (E x Hx) in Hp. discriminate.
Qed.

Lemma uneven_fails (v : list Q) (d : Q) :
  In d (diffs v) ->
  np_atol + np_rtol * Qabs (qmean (diffs v)) < Qabs (d - qmean (diffs v)) ->
  evenly 1 v = false.
Proof.
  intros Hd Hlt. unfold evenly. apply (forallb_false_In _ _ d Hd).
  apply Qleb_false. lra.
Qed.

Lemma reject_uneven (xa : dataarray) (v : list Q) (d : Q) :
  In v (xcoords xa) -> In d (diffs v) ->
  np_atol + np_rtol * Qabs (qmean (diffs v)) < Qabs (d - qmean (diffs v)) ->
  is_ok (from_xarray xa) = false.
Proof.
  intros Hv Hd Hlt. unfold from_xarray, from_xarray_f.
  destruct (a_nvdim xa) as [k|]; [|reflexivity].
  destruct (k <? 1)%Z; [reflexivity|].
  destruct ((1 <? k)%Z && negb (has_vdims_dim xa)); [reflexivity|].
  rewrite (forallb_false_In _ _ v Hv (uneven_fails v d Hd Hlt)). reflexivity.
Qed.

Lemma all_some_None {A} (l : list (option A)) : In None l -> all_some l = None.
Proof.
  induction l as [|[a|] l IH]; simpl; [tauto | | reflexivity].
  intros [H | H]; [discriminate | rewrite (IH H); reflexivity].
Qed.

Lemma reject_single_cell_no_cell (xa : dataarray) (v : list Q) :
  a_cell xa = None -> In v (xcoords xa) -> (length v < 2)%nat -> is_ok (from_xarray xa) = false.
Proof.
  intros Hc Hv Hl. unfold from_xarray, from_xarray_f.
  destruct (a_nvdim xa) as [k|]; [|reflexivity].
  destruct (k <? 1)%Z; [reflexivity|].
  destruct ((1 <? k)%Z && negb (has_vdims_dim xa)); [reflexivity|].
  destruct (negb (forallb (evenly 1) (xcoords xa))); [reflexivity|].
  rewrite Hc.
  destruct (existsb (Z.eqb 1) (removelast (xshape xa))); [reflexivity|].
  rewrite all_some_None; [reflexivity|].
  apply in_map_iff. exists v. split; [|exact Hv].
  unfold mean_spacing. destruct (Nat.ltb_spec (length v) 2); [reflexivity | lia].
Qed.

(* ---------- export: coordinates are the cell centres ---------- *)
Lemma export_centres (f : field) (u : option string) : wf_field f ->
  let m := fmesh f in
  xcoords (to_xarray f u) = cells m /\
  length (cells m) = length (pmin (reg m)) /\
  forall a, (a < length (pmin (reg m)))%nat ->
    length (nth a (cells m) []) = Z.to_nat (nth a (n m) 1%Z) /\
    forall j, (0 <= j < nth a (n m) 1%Z)%Z ->
      nth (Z.to_nat j) (nth a (cells m) []) 0 ==
      nth a (pmin (reg m)) 0 + (inject_Z j + (1 # 2)) * nth a (cell m) 0.
Proof.
  intros [Hwf _] m. split; [reflexivity|].
  destruct (wf_lengths m Hwf) as [L1 [L2 L3]].
  split; [unfold cells; rewrite map3_length; lia|].
  intros a Ha.
  destruct (wf_axis m Hwf a Ha) as [Hlh Hk].
  assert (E : nth a (cells m) [] =
              cells_axis (nth a (pmin (reg m)) 0) (nth a (pmax (reg m)) 0) (nth a (n m) 1%Z)).
  { unfold cells. apply nth_map3; lia. }
  rewrite E. unfold cells_axis, linspace. split.
  - rewrite map_length, ziota_length. reflexivity.
  - intros j Hj.
    set (lo := nth a (pmin (reg m)) 0) in *. set (hi := nth a (pmax (reg m)) 0) in *.
    set (k := nth a (n m) 1%Z) in *.
    set (g := linspace_at (lo + cell_of lo hi k / 2) (hi - cell_of lo hi k / 2) k).
    rewrite (nth_indep _ 0 (g 0%Z)) by (rewrite map_length, ziota_length; lia).
    rewrite map_nth, nth_ziota by lia. rewrite Z2Nat.id by lia. simpl (0 + j)%Z.
    unfold g. rewrite (cells_axis_nth lo hi k Hlh Hk j Hj), (centre_formula lo hi k).
    rewrite (cell_nth m Hwf a Ha). reflexivity.
Qed.
