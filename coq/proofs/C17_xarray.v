(* C17: proofs about the model of to_xarray / from_xarray (model/Xarray.v). *)
From DF Require Import Prelude Constants_gen Region Mesh Xarray QLemmas ListLemmas C01_axis C01_nd.
Open Scope Q_scope.

(* ---------- export: attributes, names, data ---------- *)
Lemma export_attrs (f : field) (u : option string) :
  let xa := to_xarray f u in
  let m := fmesh f in
  a_cell xa = Some (cell m) /\ a_pmin xa = Some (pmin (reg m)) /\ a_pmax xa = Some (pmax (reg m)) /\
  a_nvdim xa = Some (fnvdim f) /\ a_tf xa = Some (tf (reg m)) /\
  a_units xa = pick_unit u (funit f) /\
  xcunits xa = map (@Some string) (units (reg m)) /\
  xdata xa = fdata f /\ xdtype xa = fdtype f /\
  ((1 < fnvdim f)%Z -> xdims xa = dims (reg m) ++ [vdims_name] /\ xshape xa = n m ++ [fnvdim f] /\
                        xvdims xa = fvdims f) /\
  ((fnvdim f <= 1)%Z -> xdims xa = dims (reg m) /\ xshape xa = n m /\ xvdims xa = None).
Proof.
  simpl. unfold is_vector.
  destruct (Z.ltb_spec 1 (fnvdim f)) as [L | L]; repeat split; try reflexivity; intros; lia.
Qed.

(* ---------- rejections ---------- *)
Lemma reject_no_nvdim (xa : dataarray) : a_nvdim xa = None -> from_xarray xa = Err KeyE.
Proof. intros H. unfold from_xarray, from_xarray_f. rewrite H. reflexivity. Qed.

Lemma existsb_eqb_false (s : string) (l : list string) : ~ In s l -> existsb (String.eqb s) l = false.
Proof.
  intros H. destruct (existsb (String.eqb s) l) eqn:E; [|reflexivity].
  apply existsb_exists in E. destruct E as [x [Hx Hs]]. apply String.eqb_eq in Hs. subst x. contradiction.
Qed.

Lemma reject_no_vdims_axis (xa : dataarray) (k : Z) :
  a_nvdim xa = Some k -> (1 < k)%Z -> ~ In vdims_name (xdims xa) -> is_ok (from_xarray xa) = false.
Proof.
  intros H K N. unfold from_xarray, from_xarray_f. rewrite H.
  destruct (Z.ltb_spec k 1); [reflexivity|].
  unfold has_vdims_dim. rewrite (existsb_eqb_false _ _ N).
  destruct (Z.ltb_spec 1 k); [reflexivity | lia].
Qed.

Lemma forallb_false_In {A} (p : A -> bool) (l : list A) (x : A) : In x l -> p x = false -> forallb p l = false.
Proof.
  intros Hx Hp. destruct (forallb p l) eqn:E; [|reflexivity].
  rewrite forallb_forall in E. rewrite (E x Hx) in Hp. discriminate.
Qed.

Lemma uneven_fails (v : list Q) (d : Q) :
  In d (diffs v) ->
  np_atol + np_rtol * Qabs (qmean (diffs v)) < Qabs (d - qmean (diffs v)) ->
  evenly 1 v = false.
Proof.
  intros Hd Hlt. unfold evenly. apply (forallb_false_In _ _ d Hd).
  apply Qleb_false. lra.
Qed.

Lemma reject_uneven (xa : dataarray) (v : list Q) (d : Q) :
  In v (xcoords xa) -> In d (diffs v) ->
  np_atol + np_rtol * Qabs (qmean (diffs v)) < Qabs (d - qmean (diffs v)) ->
  is_ok (from_xarray xa) = false.
Proof.
  intros Hv Hd Hlt. unfold from_xarray, from_xarray_f.
  destruct (a_nvdim xa) as [k|]; [|reflexivity].
  destruct (k <? 1)%Z; [reflexivity|].
  destruct ((1 <? k)%Z && negb (has_vdims_dim xa)); [reflexivity|].
  rewrite (forallb_false_In _ _ v Hv (uneven_fails v d Hd Hlt)). reflexivity.
Qed.

Lemma all_some_None {A} (l : list (option A)) : In None l -> all_some l = None.
Proof.
  induction l as [|[a|] l IH]; simpl; [tauto | | reflexivity].
  intros [H | H]; [discriminate | rewrite (IH H); reflexivity].
Qed.

Lemma reject_single_cell_no_cell (xa : dataarray) (v : list Q) :
  a_cell xa = None -> In v (xcoords xa) -> (length v < 2)%nat -> is_ok (from_xarray xa) = false.
Proof.
  intros Hc Hv Hl. unfold from_xarray, from_xarray_f.
  destruct (a_nvdim xa) as [k|]; [|reflexivity].
  destruct (k <? 1)%Z; [reflexivity|].
  destruct ((1 <? k)%Z && negb (has_vdims_dim xa)); [reflexivity|].
  destruct (negb (forallb (evenly 1) (xcoords xa))); [reflexivity|].
  rewrite Hc.
  destruct (existsb (Z.eqb 1) (removelast (xshape xa))); [reflexivity|].
  rewrite all_some_None; [reflexivity|].
  apply in_map_iff. exists v. split; [|exact Hv].
  unfold mean_spacing. destruct (Nat.ltb_spec (length v) 2); [reflexivity | lia].
Qed.

(* ---------- export: coordinates are the cell centres ---------- *)
Lemma export_centres (f : field) (u : option string) : wf_field f ->
  let m := fmesh f in
  xcoords (to_xarray f u) = cells m /\
  length (cells m) = length (pmin (reg m)) /\
  forall a, (a < length (pmin (reg m)))%nat ->
    length (nth a (cells m) []) = Z.to_nat (nth a (n m) 1%Z) /\
    forall j, (0 <= j < nth a (n m) 1%Z)%Z ->
      nth (Z.to_nat j) (nth a (cells m) []) 0 ==
      nth a (pmin (reg m)) 0 + (inject_Z j + (1 # 2)) * nth a (cell m) 0.
Proof.
  intros [Hwf _] m. split; [reflexivity|].
  destruct (wf_lengths m Hwf) as [L1 [L2 L3]].
  split; [unfold cells; rewrite map3_length; lia|].
  intros a Ha.
  destruct (wf_axis m Hwf a Ha) as [Hlh Hk].
  assert (E : nth a (cells m) [] =
              cells_axis (nth a (pmin (reg m)) 0) (nth a (pmax (reg m)) 0) (nth a (n m) 1%Z)).
  { unfold cells. apply nth_map3; lia. }
  rewrite E. unfold cells_axis, linspace. split.
  - rewrite map_length, ziota_length. reflexivity.
  - intros j Hj.
    set (lo := nth a (pmin (reg m)) 0) in *. set (hi := nth a (pmax (reg m)) 0) in *.
    set (k := nth a (n m) 1%Z) in *.
    set (g := linspace_at (lo + cell_of lo hi k / 2) (hi - cell_of lo hi k / 2) k).
    rewrite (nth_indep _ 0 (g 0%Z)) by (rewrite map_length, ziota_length; lia).
    rewrite map_nth, nth_ziota by lia. rewrite Z2Nat.id by lia. simpl (0 + j)%Z.
    unfold g. rewrite (cells_axis_nth lo hi k Hlh Hk j Hj), (centre_formula lo hi k).
    rewrite (cell_nth m Hwf a Ha). reflexivity.
Qed.

(* ---------- one axis of Mesh(region, cell) when the cell divides the edge exactly ---------- *)
Section AxisByCell.
Variables (lo hi c : Q) (k : Z).
Hypothesis Hlh : lo < hi.
Hypothesis Hk : (0 < k)%Z.
Hypothesis Hc : inject_Z k * c == hi - lo.

Lemma kq_ge1 : 1 <= inject_Z k.
Proof. change 1 with (inject_Z 1). rewrite <- Zle_Qle. lia. Qed.

Lemma bc_c_pos : 0 < c.
Proof. pose proof kq_ge1. destruct (Qlt_le_dec 0 c) as [H1|H1]; [exact H1|]. exfalso. nra. Qed.

Lemma bc_c_le : lo + c <= hi.
Proof. pose proof kq_ge1. pose proof bc_c_pos. nra. Qed.

Lemma bc_ratio : (hi - lo) / c == inject_Z k.
Proof. pose proof bc_c_pos. rewrite <- Hc. field. lra. Qed.

Lemma bc_floor : Qfloor ((hi - lo) / c) = k.
Proof. rewrite bc_ratio. apply Qfloor_Z. Qed.

Lemma bc_rem : Qremainder (hi - lo) c == 0.
Proof. unfold Qremainder. rewrite bc_floor. lra. Qed.

Lemma bc_not_bad tol : 0 <= tol -> bad_rem tol c (hi - lo) = false.
Proof.
  intros Ht. unfold bad_rem. apply andb_false_iff. left. apply Qltb_false. rewrite bc_rem. exact Ht.
Qed.

Lemma bc_round : Qround_half_even ((hi - lo) / c) = k.
Proof.
  unfold Qround_half_even. rewrite bc_floor.
  assert (E : (hi - lo) / c - inject_Z k == 0) by (rewrite bc_ratio; lra).
  destruct (Qcompare_spec ((hi - lo) / c - inject_Z k) (1 # 2)) as [H|H|H]; try reflexivity; lra.
Qed.

Lemma bc_edge_nonzero : Qeq_bool (hi - lo) 0 = false.
Proof. destruct (Qeq_bool (hi - lo) 0) eqn:E; [|reflexivity]. apply Qeq_bool_eq in E. lra. Qed.

Lemma bc_min : Qmin lo hi = lo /\ Qmax lo hi = hi.
Proof.
  unfold Qmin, Qmax, GenericMinMax.gmin, GenericMinMax.gmax.
  destruct (Qcompare_spec lo hi) as [H|H|H]; try lra. split; reflexivity.
Qed.
End AxisByCell.

(* ---------- evenly spaced lists ---------- *)
Definition prog (s : Q) (v : list Q) : Prop := Forall (fun d => d == s) (diffs v).

Lemma qsum_const (s : Q) (l : list Q) :
  Forall (fun d => d == s) l -> qsum l == inject_Z (Z.of_nat (length l)) * s.
Proof.
  induction 1 as [|x l Hx H IH].
  - simpl. change (inject_Z 0) with 0. lra.
  - change (qsum (x :: l)) with (x + qsum l). assert (Hx' : x == s) by exact Hx.
    change (length (x :: l)) with (S (length l)). rewrite IH, Hx'. rewrite Nat2Z.inj_succ. unfold Z.succ.
    rewrite inject_Z_plus. change (inject_Z 1) with 1. lra.
Qed.

Lemma qmean_const (s : Q) (l : list Q) : l <> [] -> Forall (fun d => d == s) l -> qmean l == s.
Proof.
  intros Hne H. unfold qmean. rewrite (qsum_const s l H).
  assert (0 < inject_Z (Z.of_nat (length l))).
  { apply inject_Z_pos. destruct l; [congruence | simpl; lia]. }
  field. lra.
Qed.

Lemma prog_evenly (s : Q) (v : list Q) : prog s v -> evenly 1 v = true.
Proof.
  unfold prog, evenly. intros H.
  destruct (diffs v) as [|d0 ds] eqn:E; [reflexivity|].
  assert (M : qmean (d0 :: ds) == s) by (apply qmean_const; [discriminate | exact H]).
  apply forallb_forall. intros x Hx. apply Qle_bool_iff.
  rewrite Forall_forall in H. assert (Hxs : x == s) by (apply H; exact Hx). rewrite Hxs, M.
  setoid_replace (s - s) with 0 by ring. unfold np_atol, np_rtol.
  pose proof (Qabs_nonneg s). change (Qabs 0) with 0. lra.
Qed.

Lemma prog_map_ziota (g : Z -> Q) (s : Q) (m : nat) (z : Z) :
  (forall j, (z <= j < z + Z.of_nat m - 1)%Z -> g (j + 1)%Z - g j == s) ->
  prog s (map g (ziota z m)).
Proof.
  unfold prog. revert z. induction m as [|m IH]; intros z H; [constructor|].
  destruct m as [|m]; [constructor|].
  change (diffs (map g (ziota z (S (S m)))))
    with ((g (z + 1)%Z - g z) :: diffs (map g (ziota (z + 1) (S m)))).
  constructor.
  - apply H. lia.
  - apply IH. intros j Hj. apply H. lia.
Qed.

Lemma cells_axis_prog (lo hi : Q) (k : Z) : lo < hi -> (0 < k)%Z ->
  prog (cell_of lo hi k) (cells_axis lo hi k).
Proof.
  intros Hlh Hk. unfold cells_axis, linspace. apply prog_map_ziota.
  intros j Hj. rewrite Z2Nat.id in Hj by lia.
  rewrite (cells_axis_nth lo hi k Hlh Hk (j + 1)) by lia.
  rewrite (cells_axis_nth lo hi k Hlh Hk j) by lia.
  unfold i2p1. rewrite inject_Z_plus. change (inject_Z 1) with 1. ring.
Qed.

(* ---------- all axes: Mesh(region, cell) accepts a cell that divides every edge ---------- *)
Lemma axes_lengths los his ks cs : axes los his ks cs ->
  length his = length los /\ length ks = length los /\ length cs = length los.
Proof. induction 1; simpl; [auto | intuition lia]. Qed.

Lemma axes_cells_pos los his ks cs : axes los his ks cs -> forallb (fun x => Qltb 0 x) cs = true.
Proof.
  induction 1 as [|lo hi k c los his ks cs Hlh Hk Hc _ IH]; [reflexivity|].
  simpl. rewrite IH, andb_true_r. apply Qltb_true. exact (bc_c_pos lo hi c k Hlh Hk Hc).
Qed.

Lemma axes_In_pos los his ks cs : axes los his ks cs -> forall e, In e cs -> 0 < e.
Proof.
  induction 1 as [|lo hi k c los his ks cs Hlh Hk Hc _ IH]; simpl; [tauto|].
  intros e [E | E]; [subst e; exact (bc_c_pos lo hi c k Hlh Hk Hc) | exact (IH e E)].
Qed.

Lemma axes_contains_lo rtol atol los his ks cs : 0 <= rtol -> 0 <= atol -> axes los his ks cs ->
  forallb (fun b => b) (map3 (contains1 rtol atol) los his los) = true /\
  forallb (fun b => b) (map3 (contains1 rtol atol) los his (map2 Qplus los cs)) = true.
Proof.
  intros Hr Ha. induction 1 as [|lo hi k c los his ks cs Hlh Hk Hc _ [IH1 IH2]]; [split; reflexivity|].
  simpl. rewrite IH1, IH2, !andb_true_r. split.
  - apply (contains1_inside Hr Ha); lra.
  - pose proof (bc_c_pos lo hi c k Hlh Hk Hc). pose proof (bc_c_le lo hi c k Hlh Hk Hc).
    apply (contains1_inside Hr Ha); lra.
Qed.

Lemma axes_not_bad tol los his ks cs : 0 <= tol -> axes los his ks cs ->
  existsb (fun b => b) (map2 (bad_rem tol) cs (edges_of los his)) = false.
Proof.
  intros Ht. induction 1 as [|lo hi k c los his ks cs Hlh Hk Hc _ IH]; [reflexivity|].
  unfold edges_of in *. simpl. rewrite IH, orb_false_r. exact (bc_not_bad lo hi c k Hlh Hk Hc tol Ht).
Qed.

Lemma axes_round los his ks cs : axes los his ks cs ->
  map2 (fun e x => Qround_half_even (e / x)) (edges_of los his) cs = ks.
Proof.
  induction 1 as [|lo hi k c los his ks cs Hlh Hk Hc _ IH]; [reflexivity|].
  unfold edges_of in *. simpl. rewrite IH. f_equal. exact (bc_round lo hi c k Hlh Hk Hc).
Qed.

Lemma axes_minmax los his ks cs : axes los his ks cs ->
  map2 Qmin los his = los /\ map2 Qmax los his = his /\
  existsb (fun e => Qeq_bool e 0) (edges_of los his) = false.
Proof.
  induction 1 as [|lo hi k c los his ks cs Hlh Hk Hc _ [IH1 [IH2 IH3]]]; [repeat split; reflexivity|].
  unfold edges_of in *. simpl. rewrite IH1, IH2, IH3.
  destruct (bc_min lo hi Hlh) as [E1 E2]. rewrite E1, E2, (bc_edge_nonzero lo hi Hlh).
  repeat split; reflexivity.
Qed.

Lemma axes_wf los his ks cs : axes los his ks cs ->
  Forall2 (fun a b => a < b) los his /\ Forall (fun k => 0 < k)%Z ks.
Proof. induction 1 as [|? ? ? ? ? ? ? ? ? ? ? ? [I1 I2]]; split; constructor; assumption. Qed.

(* the region constructor on ordered corners *)
Lemma mk_region_axes los his ks cs ds us t : axes los his ks cs -> los <> [] ->
  length ds = length los -> nodupb ds = true ->
  match us with Some u => length u = length los | None => True end ->
  mk_region los his (Some ds) us t =
  OK (mkRegion los his ds (match us with Some u => u | None => repeat "m"%string (length los) end) t).
Proof.
  intros Hax Hne Hd Hnd Hu. destruct (axes_lengths _ _ _ _ Hax) as [L1 [L2 L3]].
  destruct (axes_minmax _ _ _ _ Hax) as [E1 [E2 E3]].
  unfold mk_region. rewrite L1, Nat.eqb_refl. simpl negb.
  destruct (Nat.eqb_spec (length los) 0) as [Z0|_]; [destruct los; [congruence | discriminate]|].
  rewrite Hd, Nat.eqb_refl, Hnd. simpl.
  destruct us as [u|]; simpl.
  - rewrite Hu, Nat.eqb_refl. simpl. rewrite E1, E2, E3. reflexivity.
  - rewrite E1, E2, E3. reflexivity.
Qed.

Lemma qlist_min_nonneg l : (forall e, In e l -> 0 < e) -> 0 <= qlist_min l.
Proof.
  intros H. destruct l as [|h t]; [unfold qlist_min; lra|].
  apply Qlt_le_weak. apply qlist_min_pos; [discriminate | exact H].
Qed.

(* Mesh(region=r, cell=cs) *)
Lemma by_cell_axes (r : region) ks cs : axes (pmin r) (pmax r) ks cs -> pmin r <> [] -> 0 <= tf r ->
  mesh_by_cell r cs = OK (mkMesh r ks "" []).
Proof.
  intros Hax Hne Htf. destruct (axes_lengths _ _ _ _ Hax) as [L1 [L2 L3]].
  assert (Hat : 0 <= reg_atol r).
  { unfold reg_atol. apply Qmult_le_0_compat; [|exact Htf]. apply qlist_min_nonneg.
    intros e He. unfold edges, edges_of in He.
    destruct (axes_wf _ _ _ _ Hax) as [F2 _]. clear - F2 He.
    induction F2 as [|x y l1 l2 Hxy F IH]; simpl in He; [tauto|].
    destruct He as [E|E]; [subst e; lra | exact (IH E)]. }
  destruct (axes_contains_lo (tf r) (reg_atol r) _ _ _ _ Htf Hat Hax) as [C1 C2].
  unfold mesh_by_cell, ndim. rewrite L3, Nat.eqb_refl. simpl negb.
  rewrite (axes_cells_pos _ _ _ _ Hax). simpl negb.
  unfold contains_pt, ndim. rewrite map2_length, L3, Nat.min_id, Nat.eqb_refl, C1, C2. simpl.
  unfold edges. rewrite (axes_not_bad (bycell_tol cs) (pmin r) (pmax r) ks cs).
  - rewrite (axes_round _ _ _ _ Hax). reflexivity.
  - unfold bycell_tol, divisibility_factor. apply Qmult_le_0_compat; [|lra].
    apply qlist_min_nonneg. exact (axes_In_pos _ _ _ _ Hax).
  - exact Hax.
Qed.

(* ---------- round trip ---------- *)
Lemma axes_of_mesh los his ks : Forall2 (fun a b => a < b) los his -> Forall (fun k => 0 < k)%Z ks ->
  length ks = length los -> axes los his ks (map3 cell_of los his ks).
Proof.
  intros F2; revert ks. induction F2 as [|lo hi los his Hlh F IH]; intros [|k ks] Fk L; simpl in *; try discriminate.
  - constructor.
  - inversion Fk; subst. constructor; auto. apply cell_times_n; assumption.
Qed.

Lemma cells_evenly los his ks : Forall2 (fun a b => a < b) los his -> Forall (fun k => 0 < k)%Z ks ->
  forallb (evenly 1) (map3 cells_axis los his ks) = true.
Proof.
  intros F2; revert ks. induction F2 as [|lo hi los his Hlh F IH]; intros [|k ks] Fk; simpl; try reflexivity.
  inversion Fk; subst. rewrite IH by assumption. rewrite andb_true_r.
  apply (prog_evenly (cell_of lo hi k)). apply cells_axis_prog; assumption.
Qed.

Lemma filter_not_vdims ds : ~ In vdims_name ds ->
  filter (fun d => negb (String.eqb d vdims_name)) ds = ds /\
  filter (fun d => negb (String.eqb d vdims_name)) (ds ++ [vdims_name]) = ds.
Proof.
  induction ds as [|d ds IH]; intros H.
  - split; reflexivity.
  - assert (Hd : String.eqb d vdims_name = false).
    { apply String.eqb_neq. intros E. apply H. left. exact E. }
    destruct IH as [I1 I2]; [intros X; apply H; right; exact X|].
    simpl. rewrite Hd. simpl. rewrite I1, I2. split; reflexivity.
Qed.

Lemma has_vdims_app ds : existsb (String.eqb vdims_name) (ds ++ [vdims_name]) = true.
Proof. rewrite existsb_app. simpl. apply orb_true_r. Qed.

Lemma all_some_map_Some {A} (l : list A) : all_some (map (@Some A) l) = Some l.
Proof. induction l as [|a l IH]; simpl; [reflexivity | rewrite IH; reflexivity]. Qed.

Lemma nodupb_NoDup l : NoDup l -> nodupb l = true.
Proof.
  induction 1 as [|x l Hx H IH]; [reflexivity|].
  simpl. rewrite IH, (existsb_eqb_false x l Hx). reflexivity.
Qed.

Lemma zlist_eqb_refl l : zlist_eqb l l = true.
Proof. unfold zlist_eqb. induction l as [|x l IH]; simpl; [reflexivity | rewrite Z.eqb_refl, IH; reflexivity]. Qed.

Lemma roundtrip (f : field) (u : option string) : wf_field f ->
  exists g, from_xarray (to_xarray f u) = OK g /\ field_same f g /\ funit g = None /\
            ((1 < fnvdim f)%Z \/ fvdims f = None -> fvdims g = fvdims f).
Proof.
  intros [Hwf [Hk [Hv Hnv]]].
  destruct Hwf as [Hr [Hn Hpos]].
  destruct Hr as [R1 [R2 [R3 [R4 [R5 [R6 R7]]]]]].
  set (m := fmesh f) in *. set (r := reg m) in *.
  assert (Hax : axes (pmin r) (pmax r) (n m) (cell m)) by (apply axes_of_mesh; assumption).
  assert (Hev : forallb (evenly 1) (cells m) = true) by (apply cells_evenly; assumption).
  assert (Hne : pmin r <> []) by (destruct (pmin r); [simpl in R2; lia | discriminate]).
  destruct (filter_not_vdims (dims r) Hnv) as [Fl1 Fl2].
  assert (Hreg : forall ds', ds' = dims r ->
            mk_region (pmin r) (pmax r) (Some ds') (all_some (map (@Some string) (units r))) default_tf =
            OK (mkRegion (pmin r) (pmax r) (dims r) (units r) default_tf)).
  { intros ds' ->. rewrite all_some_map_Some.
    rewrite (mk_region_axes (pmin r) (pmax r) (n m) (cell m) (dims r) (Some (units r)) default_tf Hax Hne R3
               (nodupb_NoDup _ R5) R4). reflexivity. }
  assert (Hby : mesh_by_cell (mkRegion (pmin r) (pmax r) (dims r) (units r) default_tf) (cell m) =
                OK (mkMesh (mkRegion (pmin r) (pmax r) (dims r) (units r) default_tf) (n m) "" [])).
  { apply by_cell_axes; simpl; [exact Hax | exact Hne | unfold default_tf; lra]. }
  unfold from_xarray, from_xarray_f, to_xarray, geo_dims, has_vdims_dim, shape_ok, is_vector.
  fold m. fold r.
  cbn [xdims xshape xcoords xcunits xvdims xdata xdtype a_units a_cell a_pmin a_pmax a_nvdim a_tf].
  destruct (Z.ltb_spec (fnvdim f) 1) as [K0|_]; [lia|].
  rewrite Hev. simpl negb.
  destruct (Z.ltb_spec 1 (fnvdim f)) as [Kv | Ks].
  - (* vector field *)
    rewrite has_vdims_app. simpl andb. cbv iota.
    unfold bind. cbv iota beta. rewrite (Hreg _ Fl2). cbv iota beta. rewrite Hby. cbv iota beta.
    cbn [pmin pmax dims units n bc subs reg].
    destruct (fvdims f) as [l|] eqn:Ev; simpl in Hv.
    + destruct Hv as [V1 [V2 V3]]. unfold set_vdims.
      destruct l as [|l0 l']; [congruence|].
      rewrite V2, Z.eqb_refl, V3. simpl negb. cbv iota.
      destruct (Z.eqb_spec (fnvdim f) 1) as [E1|_]; [lia|].
      rewrite zlist_eqb_refl. simpl negb. cbv iota.
      eexists. split; [reflexivity|]. unfold field_same. simpl. fold m. fold r.
      repeat split; reflexivity.
    + lia.
  - (* scalar field *)
    assert (K1 : fnvdim f = 1%Z) by lia.
    rewrite andb_false_l. cbv iota.
    unfold bind. cbv iota beta. rewrite (Hreg _ Fl1). cbv iota beta. rewrite Hby. cbv iota beta.
    cbn [pmin pmax dims units n bc subs reg].
    unfold set_vdims, default_vdims. rewrite K1. simpl Z.ltb. cbv iota.
    simpl Z.eqb. cbv iota. rewrite zlist_eqb_refl. simpl negb. cbv iota.
    eexists. split; [reflexivity|]. unfold field_same. simpl. fold m. fold r.
    repeat split; try reflexivity; try (symmetry; exact K1).
    intros [L | L]; [lia | symmetry; exact L].
Qed.

(* ---------- witnesses ---------- *)
Definition ex_mesh : mesh := mkMesh (mkRegion [0] [4] ["x"%string] ["m"%string] default_tf) [4%Z] "" [].
Definition ex_scalar_labelled : field :=
  mkField ex_mesh 1 (Some ["s"%string]) "float64" None [1; 2; 3; 4].
Definition ex_vector : field :=
  mkField ex_mesh 2 (Some ["a"%string; "b"%string]) "float64" None [1; 2; 3; 4; 5; 6; 7; 8].

Lemma ex_mesh_wf : wf_mesh ex_mesh.
Proof.
  unfold wf_mesh, wf_region, ex_mesh; simpl. repeat split; try lia.
  - constructor; [simpl; tauto | constructor].
  - constructor; [lra | constructor].
  - unfold default_tf. lra.
  - constructor; [lia | constructor].
Qed.

Lemma ex_scalar_wf : wf_field ex_scalar_labelled.
Proof.
  unfold wf_field. split; [exact ex_mesh_wf|]. simpl. repeat split; try lia; try discriminate.
  intros [H | H]; [discriminate | exact H].
Qed.

Lemma ex_vector_wf : wf_field ex_vector.
Proof.
  unfold wf_field. split; [exact ex_mesh_wf|]. simpl. repeat split; try lia; try discriminate.
  intros [H | H]; [discriminate | exact H].
Qed.

(* the label of a scalar field does not survive the round trip *)
Lemma roundtrip_scalar_label_refuted :
  exists f g, wf_field f /\ from_xarray (to_xarray f None) = OK g /\ fvdims g <> fvdims f.
Proof.
  exists ex_scalar_labelled. eexists. split; [exact ex_scalar_wf|].
  split; [vm_compute; reflexivity | simpl; discriminate].
Qed.

(* ---------- rebuilding one axis from evenly spaced coordinates ---------- *)
Lemma last_map_ziota (g : Z -> Q) (m : nat) (z : Z) (d : Q) :
  last (map g (ziota z (S m))) d = g (z + Z.of_nat m)%Z.
Proof.
  revert z. induction m as [|m IH]; intros z.
  - simpl. f_equal. lia.
  - change (ziota z (S (S m))) with (z :: ziota (z + 1) (S m)).
    change (map g (z :: ziota (z + 1) (S m))) with (g z :: map g (ziota (z + 1) (S m))).
    assert (E : map g (ziota (z + 1) (S m)) <> []) by (simpl; discriminate).
    destruct (map g (ziota (z + 1) (S m))) as [|y t] eqn:Em; [congruence|].
    change (last (g z :: y :: t) d) with (last (y :: t) d). rewrite <- Em, IH. f_equal. lia.
Qed.

Lemma diffs_length (v : list Q) : length (diffs v) = (length v - 1)%nat.
Proof. unfold diffs. rewrite map2_length. destruct v; simpl; lia. Qed.

Lemma rebuild_axis (x0 c : Q) (k : Z) : 0 < c -> (2 <= k)%Z ->
  let v := map (fun j => x0 + inject_Z j * c) (ziota 0 (Z.to_nat k)) in
  evenly 1 v = true /\
  exists c', mean_spacing v = Some c' /\ c' == c /\
    let p1 := hd 0 v - c' / 2 in
    let p2 := last v 0 + c' / 2 in
    p1 == x0 - c / 2 /\ p2 == x0 + (inject_Z k - 1) * c + c / 2 /\
    p1 < p2 /\ inject_Z k * c' == p2 - p1 /\ Qround_half_even ((p2 - p1) / c') = k.
Proof.
  intros Hc Hk v.
  assert (Hp : prog c v).
  { apply prog_map_ziota. intros j _. rewrite inject_Z_plus. change (inject_Z 1) with 1. ring. }
  split; [exact (prog_evenly c v Hp)|].
  assert (Lv : length v = Z.to_nat k) by (unfold v; rewrite map_length, ziota_length; reflexivity).
  assert (Ld : diffs v <> []).
  { intros E. pose proof (diffs_length v) as L. rewrite E, Lv in L. simpl in L. lia. }
  exists (qmean (diffs v)).
  assert (M : qmean (diffs v) == c) by (apply qmean_const; assumption).
  split.
  { unfold mean_spacing. rewrite Lv. destruct (Nat.ltb_spec (Z.to_nat k) 2); [lia | reflexivity]. }
  split; [exact M|].
  assert (Hhd : hd 0 v == x0).
  { unfold v. destruct (Z.to_nat k) as [|m] eqn:Ek; [lia|].
    change (ziota 0 (S m)) with (0%Z :: ziota (0 + 1) m). cbn [map hd]. change (inject_Z 0) with 0. ring. }
  assert (Hla : last v 0 == x0 + (inject_Z k - 1) * c).
  { unfold v. destruct (Z.to_nat k) as [|m] eqn:Ek; [lia|].
    rewrite last_map_ziota. simpl (0 + Z.of_nat m)%Z.
    assert (Em : Z.of_nat m = (k - 1)%Z) by lia. rewrite Em.
    assert (EK : inject_Z (k - 1) == inject_Z k - 1) by (unfold Z.sub; rewrite inject_Z_plus; reflexivity).
    rewrite EK. reflexivity. }
  cbv zeta.
  assert (P1 : hd 0 v - qmean (diffs v) / 2 == x0 - c / 2) by (rewrite Hhd, M; reflexivity).
  assert (P2 : last v 0 + qmean (diffs v) / 2 == x0 + (inject_Z k - 1) * c + c / 2) by (rewrite Hla, M; reflexivity).
  assert (K2 : 2 <= inject_Z k) by (change 2 with (inject_Z 2); rewrite <- Zle_Qle; lia).
  assert (Hh : c / 2 + c / 2 == c) by field.
  assert (Hlt : hd 0 v - qmean (diffs v) / 2 < last v 0 + qmean (diffs v) / 2).
  { rewrite P1, P2. nra. }
  assert (Hkc : inject_Z k * qmean (diffs v) ==
                last v 0 + qmean (diffs v) / 2 - (hd 0 v - qmean (diffs v) / 2)).
  { rewrite P1, P2, M. lra. }
  repeat split; try assumption.
  apply (bc_round _ _ _ k Hlt); [lia | exact Hkc].
Qed.
