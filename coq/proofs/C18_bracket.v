(* C18: the interval search of the interpolator on the rotator's grid brackets every point that lies
   between the first and the last cell centre by two neighbouring CENTRES (never a guard point), so the
   value there is the trilinear combination of eight cell values of the original field. *)
From DF Require Import Prelude Rotator ListLemmas QLemmas C18_machine C18_geom C18_field.
Open Scope Q_scope.

Lemma count_lt_spec x g :
  (count_lt x g <= length g)%nat /\
  (forall i, (i < count_lt x g)%nat -> nth i g 0 < x) /\
  ((count_lt x g < length g)%nat -> x <= nth (count_lt x g) g 0).
Proof.
  induction g as [|a t IH]; cbn [count_lt length].
  - split; [lia|]. split; intros; lia.
  - destruct (Qltb a x) eqn:E.
    + destruct IH as (L & P & U). split; [lia|]. split.
      * intros [|i] Hi; cbn [nth]; [apply Qltb_true; exact E|apply P; lia].
      * intro H. cbn [nth]. apply U. lia.
    + split; [lia|]. split; [intros; lia|]. intros _. cbn [nth]. apply Qltb_false. exact E.
Qed.

Lemma qnat_S k : qnat (S k) == qnat k + 1.
Proof. unfold qnat. rewrite Nat2Z.inj_succ. unfold Z.succ. rewrite inject_Z_plus. reflexivity. Qed.

Lemma qnat_pos k : (1 <= k)%nat -> 0 < qnat k.
Proof. intro H. unfold qnat. apply inject_Z_pos. lia. Qed.

Lemma last_cons_app {A} (a : A) l b d : last (a :: l ++ [b]) d = b.
Proof. rewrite app_comm_cons. apply last_last. Qed.

(* centre of cell a of an axis, as the mesh defines it *)
Lemma cpt_alt lo hi n a : cpt lo hi n a == lo + (hi - lo) / qnat n / 2 + qnat a * ((hi - lo) / qnat n).
Proof. unfold cpt. set (d := (hi - lo) / qnat n). field. Qed.

Section Exact.
  Variable rnd : Q -> Q.
  Hypothesis rnd_id : forall x, rnd x == x.

  Lemma grid1_length lo hi ctr n : length (grid1 rnd lo hi ctr n) = S (S n).
  Proof. unfold grid1. cbn [length]. rewrite app_length, map_length, iota_length. cbn [length]. lia. Qed.

  Lemma grid1_hd lo hi ctr n :
    hd 0 (grid1 rnd lo hi ctr n) == lo - (hi - lo) / qnat n * rgi_tol - ctr.
  Proof. unfold grid1. cbn [hd]. apply rnd_id. Qed.

  Lemma grid1_last lo hi ctr n :
    last (grid1 rnd lo hi ctr n) 0 == hi + (hi - lo) / qnat n * rgi_tol - ctr.
  Proof. unfold grid1. rewrite last_cons_app. apply rnd_id. Qed.

  (* entries 1..n are the cell centres relative to ctr *)
  Lemma grid1_centre lo hi ctr n a : (a < n)%nat ->
    nth (S a) (grid1 rnd lo hi ctr n) 0 == cpt lo hi n a - ctr.
  Proof.
    intro H. unfold grid1. cbn [nth].
    rewrite app_nth1 by (rewrite map_length, iota_length; exact H).
    rewrite (nth_map_iota _ n a 0 H), rnd_id, cpt_alt. reflexivity.
  Qed.

  Lemma grid1_nth0 lo hi ctr n :
    nth 0 (grid1 rnd lo hi ctr n) 0 == lo - (hi - lo) / qnat n * rgi_tol - ctr.
  Proof. unfold grid1. cbn [nth]. apply rnd_id. Qed.

  (* 1-d: a point strictly above the first centre and not above the last one *)
  Lemma locate_centres lo hi ctr n x : lo < hi -> (1 <= n)%nat ->
    cpt lo hi n 0 - ctr < x -> x <= cpt lo hi n (n - 1) - ctr ->
    let g := grid1 rnd lo hi ctr n in
    exists a, (S a < n)%nat /\
      cpt lo hi n a - ctr < x /\ x <= cpt lo hi n (S a) - ctr /\
      fst (locate rnd g x) = S a /\
      snd (locate rnd g x) == (x + ctr - cpt lo hi n a) / ((hi - lo) / qnat n) /\
      pad1 n (S a) = a /\ pad1 n (S (S a)) = S a /\
      inb1 g x = true.
  Proof.
    intros Hlh Hn Hlo Hhi g.
    assert (Hq : 0 < qnat n) by (apply qnat_pos; exact Hn).
    assert (Hc : 0 < (hi - lo) / qnat n) by (apply Qdiv_pos; lra).
    set (c := (hi - lo) / qnat n) in *.
    destruct (count_lt_spec x g) as (L & P & U). set (m := count_lt x g) in *.
    assert (Lg : length g = S (S n)) by apply grid1_length.
    assert (G0 : nth 0 g 0 == lo - c * rgi_tol - ctr) by apply grid1_nth0.
    assert (GC : forall a, (a < n)%nat -> nth (S a) g 0 == cpt lo hi n a - ctr) by (intros; apply grid1_centre; assumption).
    assert (C0 : cpt lo hi n 0 == lo + c / 2).
    { rewrite cpt_alt. fold c. unfold qnat; cbn [Z.of_nat inject_Z]. ring. }
    assert (Tol : 0 < c * rgi_tol) by (unfold rgi_tol; nra).
    assert (Hh : c / 2 + c / 2 == c) by field.
    set (h := c / 2) in *.
    assert (M2 : (2 <= m)%nat).
    { destruct (le_lt_dec 2 m) as [?|Hm]; [assumption|exfalso].
      assert (Hm' : (m < length g)%nat) by lia. specialize (U Hm').
      destruct m as [|[|?]]; [| |lia].
      - rewrite G0 in U. lra.
      - rewrite (GC 0%nat) in U by lia. lra. }
    assert (Mn : (m <= n)%nat).
    { destruct (le_lt_dec m n) as [?|Hm]; [assumption|exfalso].
      assert (Hp : nth n g 0 < x) by (apply P; lia).
      destruct n as [|n']; [lia|]. rewrite (GC n') in Hp by lia.
      replace (S n' - 1)%nat with n' in Hhi by lia. lra. }
    exists (m - 2)%nat.
    assert (Ei : fst (locate rnd g x) = S (m - 2)).
    { unfold locate; cbn [fst]. fold m. rewrite Lg. lia. }
    assert (B1 : nth (S (m - 2)) g 0 < x) by (apply P; lia).
    assert (B2 : x <= nth (S (S (m - 2))) g 0).
    { replace (S (S (m - 2))) with m by lia. apply U. lia. }
    rewrite (GC (m - 2)%nat) in B1 by lia.
    rewrite (GC (S (m - 2))%nat) in B2 by lia.
    split; [lia|]. split; [exact B1|]. split; [exact B2|]. split; [exact Ei|]. split; [|split; [|split]].
    - unfold locate; cbn [snd]. fold m. rewrite Lg.
      replace (Nat.min (m - 1) (S (S n) - 2)) with (S (m - 2)) by lia.
      rewrite rnd_id. fold g.
      rewrite (GC (m - 2)%nat), (GC (S (m - 2))%nat) by lia.
      rewrite (cpt_alt lo hi n (S (m - 2))), (cpt_alt lo hi n (m - 2)), qnat_S. fold c.
      field. lra.
    - unfold pad1. lia.
    - unfold pad1. lia.
    - unfold inb1. apply andb_true_iff. split; apply Qle_bool_iff.
      + unfold g. rewrite grid1_hd. fold c. lra.
      + unfold g. rewrite grid1_last. fold c.
        destruct n as [|n']; [lia|]. replace (S n' - 1)%nat with n' in Hhi by lia.
        rewrite cpt_alt in Hhi. fold c in Hhi. fold h in Hhi.
        assert (Hnc : qnat (S n') * c == hi - lo) by (unfold c; field; lra).
        rewrite qnat_S in Hnc. nra.
  Qed.
End Exact.

(* ---------- three axes ---------- *)
(* linear interpolation between the centres of the cells (a,b,d) .. (a+1,b+1,d+1) *)
Definition trilin (A : arr) (a b d : nat) (tx ty tz : Q) (e : nat) : Q :=
  (1 - tx) * ((1 - ty) * ((1 - tz) * A a b d e + tz * A a b (S d) e) + ty * ((1 - tz) * A a (S b) d e + tz * A a (S b) (S d) e)) +
  tx * ((1 - ty) * ((1 - tz) * A (S a) b d e + tz * A (S a) b (S d) e) + ty * ((1 - tz) * A (S a) (S b) d e + tz * A (S a) (S b) (S d) e)).

Definition wf_fld (f : fld) : Prop :=
  vx (f_pmin f) < vx (f_pmax f) /\ vy (f_pmin f) < vy (f_pmax f) /\ vz (f_pmin f) < vz (f_pmax f) /\
  (1 <= n0 (f_n f))%nat /\ (1 <= n1 (f_n f))%nat /\ (1 <= n2 (f_n f))%nat.

(* "at least one cell inside the region" along one axis, for an absolute coordinate X *)
Definition one_cell_inside (lo hi : Q) (n : nat) (X : Q) : Prop :=
  lo + (hi - lo) / qnat n <= X /\ X <= hi - (hi - lo) / qnat n.

(* cell a and its upper neighbour bracket X; t is the normalised distance from centre a *)
Definition brackets (lo hi : Q) (n a : nat) (X t : Q) : Prop :=
  (S a < n)%nat /\ cpt lo hi n a <= X /\ X <= cpt lo hi n (S a) /\ t == (X - cpt lo hi n a) / ((hi - lo) / qnat n).

Section Exact3.
  Variable rnd : Q -> Q.
  Hypothesis rnd_id : forall x, rnd x == x.

  Lemma one_cell_axis lo hi ctr n x : lo < hi -> (1 <= n)%nat -> one_cell_inside lo hi n (x + ctr) ->
    exists a t, brackets lo hi n a (x + ctr) t /\
      fst (locate rnd (grid1 rnd lo hi ctr n) x) = S a /\ snd (locate rnd (grid1 rnd lo hi ctr n) x) == t /\
      pad1 n (S a) = a /\ pad1 n (S (S a)) = S a /\ inb1 (grid1 rnd lo hi ctr n) x = true.
  Proof.
    intros Hlh Hn [I1 I2].
    assert (Hq : 0 < qnat n) by (apply qnat_pos; exact Hn).
    assert (Hc : 0 < (hi - lo) / qnat n) by (apply Qdiv_pos; lra).
    assert (C0 : cpt lo hi n 0 - ctr < x).
    { rewrite cpt_alt. set (c := (hi - lo) / qnat n) in *. assert (Hh : c / 2 + c / 2 == c) by field.
      set (h := c / 2) in *. unfold qnat; cbn [Z.of_nat]. change (inject_Z 0) with 0. lra. }
    assert (C1 : x <= cpt lo hi n (n - 1) - ctr).
    { destruct n as [|n']; [lia|]. replace (S n' - 1)%nat with n' by lia. rewrite cpt_alt.
      set (c := (hi - lo) / qnat (S n')) in *. assert (Hh : c / 2 + c / 2 == c) by field.
      assert (Hnc : qnat (S n') * c == hi - lo) by (unfold c; field; lra).
      rewrite qnat_S in Hnc. set (h := c / 2) in *. nra. }
    destruct (locate_centres rnd rnd_id lo hi ctr n x Hlh Hn C0 C1) as (a & La & B1 & B2 & Fa & Sa & P1 & P2 & Ia).
    exists a, ((x + ctr - cpt lo hi n a) / ((hi - lo) / qnat n)).
    split; [|repeat split; assumption].
    unfold brackets. split; [exact La|]. split; [lra|]. split; [lra|reflexivity].
  Qed.

  (* the interpolator at a point at least one cell inside the region is the linear interpolation between
     the eight neighbouring cell centres of the array it was given (no padding, no guard point involved) *)
  Theorem interp_at_interior orig (A : arr) p : wf_fld orig ->
    let lo := f_pmin orig in let hi := f_pmax orig in let n := f_n orig in let ctr := centre orig in
    let g := grids rnd orig in
    one_cell_inside (vx lo) (vx hi) (n0 n) (vx p + vx ctr) ->
    one_cell_inside (vy lo) (vy hi) (n1 n) (vy p + vy ctr) ->
    one_cell_inside (vz lo) (vz hi) (n2 n) (vz p + vz ctr) ->
    exists a b d tx ty tz,
      brackets (vx lo) (vx hi) (n0 n) a (vx p + vx ctr) tx /\
      brackets (vy lo) (vy hi) (n1 n) b (vy p + vy ctr) ty /\
      brackets (vz lo) (vz hi) (n2 n) d (vz p + vz ctr) tz /\
      forall e, interp_at rnd (fst (fst g)) (snd (fst g)) (snd g) n A p e == trilin A a b d tx ty tz e.
  Proof.
    intros (Wx & Wy & Wz & Nx & Ny & Nz) lo hi n ctr g Ix Iy Iz.
    destruct (one_cell_axis (vx lo) (vx hi) (vx ctr) (n0 n) (vx p) Wx Nx Ix) as (a & tx & Bx & Fx & Sx & Px1 & Px2 & Bnx).
    destruct (one_cell_axis (vy lo) (vy hi) (vy ctr) (n1 n) (vy p) Wy Ny Iy) as (b & ty & By & Fy & Sy & Py1 & Py2 & Bny).
    destruct (one_cell_axis (vz lo) (vz hi) (vz ctr) (n2 n) (vz p) Wz Nz Iz) as (d & tz & Bz & Fz & Sz & Pz1 & Pz2 & Bnz).
    exists a, b, d, tx, ty, tz. split; [exact Bx|]. split; [exact By|]. split; [exact Bz|].
    intro e. unfold g, grids. cbn [fst snd]. fold lo hi n ctr.
    unfold interp_at. rewrite Bnx, Bny, Bnz. cbn [andb].
    destruct (locate rnd (grid1 rnd (vx lo) (vx hi) (vx ctr) (n0 n)) (vx p)) as [i sx].
    destruct (locate rnd (grid1 rnd (vy lo) (vy hi) (vy ctr) (n1 n)) (vy p)) as [j sy].
    destruct (locate rnd (grid1 rnd (vz lo) (vz hi) (vz ctr) (n2 n)) (vz p)) as [k sz].
    cbn [fst snd] in Fx, Fy, Fz, Sx, Sy, Sz. subst i j k.
    rewrite (interp3_spec rnd rnd_id). unfold padded. rewrite Px1, Px2, Py1, Py2, Pz1, Pz2, Sx, Sy, Sz.
    reflexivity.
  Qed.

  Lemma rot_comp_ext R perm v v' c : (forall e, v e == v' e) -> rot_comp rnd R perm v c == rot_comp rnd R perm v' c.
  Proof. intro H. rewrite !(rot_comp_spec rnd rnd_id). unfold rowsum. rewrite !H. reflexivity. Qed.

  (* C18, in the property's words (vector fields): a target cell whose back-rotated centre lies at least
     one cell inside the original region carries R^ applied to the linear interpolation of the original *)
  Theorem rotated_cell_interior perm orig R n' i j k : wf_fld orig ->
    let lo := f_pmin orig in let hi := f_pmax orig in let n := f_n orig in let ctr := centre orig in
    let p := back_pos rnd orig R n' i j k in
    one_cell_inside (vx lo) (vx hi) (n0 n) (vx p + vx ctr) ->
    one_cell_inside (vy lo) (vy hi) (n1 n) (vy p + vy ctr) ->
    one_cell_inside (vz lo) (vz hi) (n2 n) (vz p + vz ctr) ->
    exists a b d tx ty tz,
      brackets (vx lo) (vx hi) (n0 n) a (vx p + vx ctr) tx /\
      brackets (vy lo) (vy hi) (n1 n) b (vy p + vy ctr) ty /\
      brackets (vz lo) (vz hi) (n2 n) d (vz p + vz ctr) tz /\
      (forall c, (c < 3)%nat ->
         rotated_val rnd 3 perm orig R n' i j k c ==
         rot_comp rnd R perm (trilin (f_val orig) a b d tx ty tz) c) /\
      rotated_val rnd 1 perm orig R n' i j k 0%nat == trilin (f_val orig) a b d tx ty tz 0%nat.
  Proof.
    intros W lo hi n ctr p Ix Iy Iz.
    destruct (interp_at_interior orig (f_val orig) p W Ix Iy Iz) as (a & b & d & tx & ty & tz & Bx & By & Bz & H).
    exists a, b, d, tx, ty, tz. split; [exact Bx|]. split; [exact By|]. split; [exact Bz|].
    destruct W as (_ & _ & _ & Nx & Ny & Nz). split.
    - intros c Hc. rewrite (rotated_val_spec rnd rnd_id perm orig R n' i j k c Nx Ny Nz Hc).
      apply rot_comp_ext. intro e. apply H.
    - rewrite (rotated_val_scalar rnd rnd_id perm orig R n' i j k Nx Ny Nz). apply H.
  Qed.

  (* linear interpolation between centres reproduces affine data exactly *)
  Lemma trilin_affine lox hix nx loy hiy ny loz hiz nz (A : arr) a b d X Y Z tx ty tz e al be ga de :
    lox < hix -> loy < hiy -> loz < hiz ->
    brackets lox hix nx a X tx -> brackets loy hiy ny b Y ty -> brackets loz hiz nz d Z tz ->
    (forall i j k, (i < nx)%nat -> (j < ny)%nat -> (k < nz)%nat ->
        A i j k e == al * cpt lox hix nx i + be * cpt loy hiy ny j + ga * cpt loz hiz nz k + de) ->
    trilin A a b d tx ty tz e == al * X + be * Y + ga * Z + de.
  Proof.
    intros Wx Wy Wz (La & _ & _ & Tx) (Lb & _ & _ & Ty) (Ld & _ & _ & Tz) HA.
    assert (Qx : 0 < qnat nx) by (apply qnat_pos; lia).
    assert (Qy : 0 < qnat ny) by (apply qnat_pos; lia).
    assert (Qz : 0 < qnat nz) by (apply qnat_pos; lia).
    unfold trilin. rewrite !HA by lia. rewrite Tx, Ty, Tz.
    rewrite !cpt_alt, !qnat_S. field. repeat split; lra.
  Qed.

  (* ... so linear scalar fields are reproduced exactly: the rotated field carries the value of the affine
     function at the back-rotated position P = centre + R^T (y - centre) *)
  Theorem linear_scalar_reproduced perm orig R n' i j k al be ga de : wf_fld orig ->
    let lo := f_pmin orig in let hi := f_pmax orig in let n := f_n orig in let ctr := centre orig in
    let p := back_pos rnd orig R n' i j k in
    one_cell_inside (vx lo) (vx hi) (n0 n) (vx p + vx ctr) ->
    one_cell_inside (vy lo) (vy hi) (n1 n) (vy p + vy ctr) ->
    one_cell_inside (vz lo) (vz hi) (n2 n) (vz p + vz ctr) ->
    (forall i j k, (i < n0 n)%nat -> (j < n1 n)%nat -> (k < n2 n)%nat ->
        f_val orig i j k 0%nat == al * cpt (vx lo) (vx hi) (n0 n) i + be * cpt (vy lo) (vy hi) (n1 n) j +
                                  ga * cpt (vz lo) (vz hi) (n2 n) k + de) ->
    rotated_val rnd 1 perm orig R n' i j k 0%nat ==
    al * (vx p + vx ctr) + be * (vy p + vy ctr) + ga * (vz p + vz ctr) + de.
  Proof.
    intros W lo hi n ctr p Ix Iy Iz HA.
    destruct (rotated_cell_interior perm orig R n' i j k W Ix Iy Iz) as (a & b & d & tx & ty & tz & Bx & By & Bz & _ & H).
    rewrite H. destruct W as (Wx & Wy & Wz & _).
    apply (trilin_affine (vx lo) (vx hi) (n0 n) (vy lo) (vy hi) (n1 n) (vz lo) (vz hi) (n2 n)); assumption.
  Qed.
End Exact3.
