(* C18 <-> C12: for a quarter turn about a coordinate axis the arbitrary rotation coincides with the
   lattice rotation of model/Rotate90.v: same region (corner rotation + min/max), swapped n (cubic
   cells), numpy.rot90 index map on the data, 2x2 rotation of the two mapped components. *)
From DF Require Import Prelude FieldK NDArray Rotate90.
From DF Require Import Rotator ListLemmas QLemmas C18_machine C18_geom C18_field C18_bracket C18_quarter.
Open Scope Q_scope.

Definition QOps : FOps := mkFOps Q 0 1 Qplus Qmult Qminus Qdiv Qopp Qinv.
(* the value array of Rotator.v read through a C12-style index [i; j; k; component] *)
Definition arr_idx (A : arr) : idx -> Q :=
  fun l => A (nth 0 l 0%nat) (nth 1 l 0%nat) (nth 2 l 0%nat) (nth 3 l 0%nat).

(* k quarter turns from axis x to axis y (about z), as exact matrices *)
Definition Rz1 : mat3 := M3 (V3 0 (-1) 0) (V3 1 0 0) (V3 0 0 1).

Lemma qnat_flip n i : (i < n)%nat -> qnat (n - 1 - i) == qnat n - 1 - qnat i.
Proof.
  intro H. unfold qnat. rewrite !Nat2Z.inj_sub by lia. unfold Z.sub.
  rewrite !inject_Z_plus, !inject_Z_opp. reflexivity.
Qed.

Section Exact.
  Variable rnd : Q -> Q.
  Hypothesis rnd_id : forall x, rnd x == x.

  (* every target centre back-rotates onto a source centre: (i,j,k) -> (j, n1-1-i, k) *)
  Lemma quarter_z1_pos orig i j k : wf_fld orig ->
    let n := f_n orig in let lo := f_pmin orig in let hi := f_pmax orig in let ctr := Rotator.centre orig in
    (i < n1 n)%nat -> (j < n0 n)%nat ->
    let p := back_pos rnd orig Rz1 (N3 (n1 n) (n0 n) (n2 n)) i j k in
    vx p == cpt (vx lo) (vx hi) (n0 n) j - vx ctr /\
    vy p == cpt (vy lo) (vy hi) (n1 n) (n1 n - 1 - i) - vy ctr /\
    vz p == cpt (vz lo) (vz hi) (n2 n) k - vz ctr.
  Proof.
    intros (Wx & Wy & Wz & Nx & Ny & Nz) n lo hi ctr Hi Hj p.
    destruct (back_pos_comps rnd rnd_id orig Rz1 (N3 (n1 n) (n0 n) (n2 n)) i j k) as (Px & Py & Pz).
    destruct (new_box rnd rnd_id Rz1 orig) as ((L0 & L1 & L2) & (H0 & H1 & H2)).
    fold p in Px, Py, Pz. cbn [n0 n1 n2] in Px, Py, Pz.
    rewrite (cpt_rel _ _ _ _ _ _ L0 H0), (cpt_rel _ _ _ _ _ _ L1 H1), (cpt_rel _ _ _ _ _ _ L2 H2) in Px, Py, Pz.
    assert (A1 : Qabs (-1) == 1) by reflexivity. assert (A0 : Qabs 0 == 0) by reflexivity.
    assert (A2 : Qabs 1 == 1) by reflexivity.
    assert (Q0 : 0 < qnat (n0 n)) by (apply qnat_pos; exact Nx).
    assert (Q1 : 0 < qnat (n1 n)) by (apply qnat_pos; exact Ny).
    assert (Q2 : 0 < qnat (n2 n)) by (apply qnat_pos; exact Nz).
    unfold Rz1, absrow, Rotator.edges, vsub, vmap2 in Px, Py, Pz. cbn [r0 r1 r2 vx vy vz] in Px, Py, Pz.
    rewrite A0, A1, A2 in Px, Py, Pz.
    rewrite Px, Py, Pz. unfold cpt. rewrite (qnat_flip (n1 n) i Hi).
    unfold ctr, Rotator.centre, vscale, vadd, vmap2; cbn [vx vy vz]. fold lo hi n.
    repeat split; field; lra.
  Qed.
End Exact.

From DF Require Import C18_nadm.

Section Link.
  Variable rnd : Q -> Q.
  Hypothesis rnd_id : forall x, rnd x == x.

  (* values: numpy.rot90 index map + 2x2 rotation of the two mapped components (Rotate90.v) *)
  Theorem quarter_turn_z1_vector perm orig i j k c : wf_fld orig -> is_perm3 perm ->
    let n := f_n orig in
    (i < n1 n)%nat -> (j < n0 n)%nat -> (k < n2 n)%nat -> (c < 3)%nat ->
    rotated_val rnd 3 perm orig Rz1 (N3 (n1 n) (n0 n) (n2 n)) i j k c ==
    Rotate90.rot_comp QOps (fst (kturn QOps 1)) (snd (kturn QOps 1)) (nth 0 perm 0%nat) (nth 1 perm 0%nat)
      (rot90 [n0 n; n1 n; n2 n; 3%nat] 0 1 1 (arr_idx (f_val orig))) [i; j; k; c].
  Proof.
    intros W HP n Hi Hj Hk Hc.
    destruct (quarter_z1_pos rnd rnd_id orig i j k W Hi Hj) as (Px & Py & Pz).
    destruct (rotated_cell_on_node rnd rnd_id perm orig Rz1 (N3 (n1 n) (n0 n) (n2 n)) i j k
                j (n1 n - 1 - i)%nat k W Hj ltac:(fold n; lia) Hk Px Py Pz) as (HV & _).
    rewrite (HV c Hc), (rot_comp_spec rnd rnd_id). unfold rowsum.
    cbn in HP. destruct HP as [<-|[<-|[<-|[<-|[<-|[<-|[]]]]]]]; destruct c as [|[|[|?]]]; try lia;
      cbn; unfold swap_ax, flip_ax, arr_idx, swap_nth; cbn; ring.
  Qed.

  Theorem quarter_turn_z1_scalar perm orig i j k : wf_fld orig ->
    let n := f_n orig in
    (i < n1 n)%nat -> (j < n0 n)%nat -> (k < n2 n)%nat ->
    rotated_val rnd 1 perm orig Rz1 (N3 (n1 n) (n0 n) (n2 n)) i j k 0%nat ==
    rot90 [n0 n; n1 n; n2 n; 1%nat] 0 1 1 (arr_idx (f_val orig)) [i; j; k; 0%nat].
  Proof.
    intros W n Hi Hj Hk.
    destruct (quarter_z1_pos rnd rnd_id orig i j k W Hi Hj) as (Px & Py & Pz).
    destruct (rotated_cell_on_node rnd rnd_id perm orig Rz1 (N3 (n1 n) (n0 n) (n2 n)) i j k
                j (n1 n - 1 - i)%nat k W Hj ltac:(fold n; lia) Hk Px Py Pz) as (_ & HS).
    rewrite HS. cbn. unfold swap_ax, flip_ax, arr_idx, swap_nth. cbn. reflexivity.
  Qed.

  (* region: the bounding box is Region.rotate90's min/max of the two rotated corners about the centre *)
  Theorem quarter_turn_z1_region orig : wf_fld orig ->
    let ctr := Rotator.centre orig in
    let cl := [vx ctr; vy ctr; vz ctr] in
    let P1 := rot_pt (fst (qturn 1)) (snd (qturn 1)) 0 1 cl [vx (f_pmin orig); vy (f_pmin orig); vz (f_pmin orig)] in
    let P2 := rot_pt (fst (qturn 1)) (snd (qturn 1)) 0 1 cl [vx (f_pmax orig); vy (f_pmax orig); vz (f_pmax orig)] in
    let lo' := new_pmin rnd Rz1 orig in let hi' := new_pmax rnd Rz1 orig in
    (vx lo' == Qmin (nth 0 P1 0) (nth 0 P2 0) /\ vy lo' == Qmin (nth 1 P1 0) (nth 1 P2 0) /\ vz lo' == Qmin (nth 2 P1 0) (nth 2 P2 0)) /\
    (vx hi' == Qmax (nth 0 P1 0) (nth 0 P2 0) /\ vy hi' == Qmax (nth 1 P1 0) (nth 1 P2 0) /\ vz hi' == Qmax (nth 2 P1 0) (nth 2 P2 0)).
  Proof.
    intros (Wx & Wy & Wz & _) ctr cl P1 P2 lo' hi'.
    destruct (new_box rnd rnd_id Rz1 orig) as ((L0 & L1 & L2) & (H0 & H1 & H2)).
    fold lo' hi' in L0, L1, L2, H0, H1, H2.
    assert (A1 : Qabs (-1) == 1) by reflexivity. assert (A0 : Qabs 0 == 0) by reflexivity.
    assert (A2 : Qabs 1 == 1) by reflexivity.
    unfold Rz1, absrow, Rotator.edges, vsub, vmap2 in L0, L1, L2, H0, H1, H2.
    cbn [r0 r1 r2 vx vy vz] in L0, L1, L2, H0, H1, H2. rewrite ?A0, ?A1, ?A2 in L0, L1, L2, H0, H1, H2.
    unfold P1, P2, cl, rot_pt, qturn; cbn [nth set_nth]. change (zturn 1) with (0, 1)%Z. cbn [fst snd].
    change (inject_Z 0) with 0. change (inject_Z 1) with 1.
    unfold ctr, Rotator.centre, vscale, vadd, vmap2 in *; cbn [vx vy vz] in *.
    set (ax := vx (f_pmin orig)) in *. set (bx := vx (f_pmax orig)) in *.
    set (ay := vy (f_pmin orig)) in *. set (by_ := vy (f_pmax orig)) in *.
    set (az := vz (f_pmin orig)) in *. set (bz := vz (f_pmax orig)) in *.
    split; (split; [|split]).
    - rewrite Q.min_r by lra. rewrite L0. ring.
    - rewrite Q.min_l by lra. rewrite L1. ring.
    - rewrite Q.min_l by lra. rewrite L2. ring.
    - rewrite Q.max_l by lra. rewrite H0. ring.
    - rewrite Q.max_r by lra. rewrite H1. ring.
    - rewrite Q.max_r by lra. rewrite H2. ring.
  Qed.

  (* resolution: for cubic cells the swapped n (Mesh.rotate90's rot_n) is the default resolution *)
  Theorem quarter_turn_z1_n orig h : wf_fld orig -> 0 < h ->
    vx (cellv orig) == h -> vy (cellv orig) == h -> vz (cellv orig) == h ->
    let n := f_n orig in
    n_adm rnd 0 Rz1 orig (N3 (n1 n) (n0 n) (n2 n)) = true /\
    rot_n 1 0 1 [Z.of_nat (n0 n); Z.of_nat (n1 n); Z.of_nat (n2 n)] =
      [Z.of_nat (n1 n); Z.of_nat (n0 n); Z.of_nat (n2 n)].
  Proof.
    intros (Wx & Wy & Wz & Nx & Ny & Nz) Hh Cx Cy Cz n. split; [|reflexivity].
    assert (A1 : Qabs (-1) == 1) by reflexivity. assert (A0 : Qabs 0 == 0) by reflexivity.
    assert (A2 : Qabs 1 == 1) by reflexivity.
    assert (Q0 : 0 < qnat (n0 n)) by (apply qnat_pos; exact Nx).
    assert (Q1 : 0 < qnat (n1 n)) by (apply qnat_pos; exact Ny).
    assert (Q2 : 0 < qnat (n2 n)) by (apply qnat_pos; exact Nz).
    assert (Ex : vx (Rotator.edges orig) == qnat (n0 n) * h).
    { rewrite <- Cx. unfold cellv, cell_of3, Rotator.edges, vsub, vmap2; cbn [vx]. fold n. field. lra. }
    assert (Ey : vy (Rotator.edges orig) == qnat (n1 n) * h).
    { rewrite <- Cy. unfold cellv, cell_of3, Rotator.edges, vsub, vmap2; cbn [vy]. fold n. field. lra. }
    assert (Ez : vz (Rotator.edges orig) == qnat (n2 n) * h).
    { rewrite <- Cz. unfold cellv, cell_of3, Rotator.edges, vsub, vmap2; cbn [vz]. fold n. field. lra. }
    unfold n_adm. cbv zeta. cbn [n0 n1 n2].
    unfold mabs_apply, new_half, vscale, vprod; cbn [vx vy vz]. unfold mabs_apply; cbn [vx vy vz].
    assert (Hq : forall m, (1 <= m)%nat -> 0 <= qnat m - (1 # 2) - 0).
    { intros m Hm. assert (1 <= qnat m) by (unfold qnat; change 1 with (inject_Z 1); rewrite <- Zle_Qle; lia). lra. }
    assert (G : forall dV vol E L m, (1 <= m)%nat -> dV == cube 1 * vol -> 0 < vol -> L == h -> E == qnat m * h ->
                n_adm1 0 dV vol E L m = true).
    { intros dV vol E L m Hm HdV Hvol HL HE.
      assert (Qm : 1 <= qnat m) by (unfold qnat; change 1 with (inject_Z 1); rewrite <- Zle_Qle; lia).
      refine (proj2 (n_adm1_iff 0 1 dV vol E L m _ _ _ _ _ _ _) _).
      - lra.
      - lra.
      - symmetry; exact HdV.
      - exact Hvol.
      - lra.
      - rewrite HE. apply Qmult_le_0_compat; lra.
      - lra.
      - split; [exact Hm|]. rewrite HE, HL.
        assert (D : qnat m * h / (h * 1) == qnat m) by (field; lra). rewrite D. lra. }
    assert (VOL : vx (cellv orig) * vy (cellv orig) * vz (cellv orig) ==
                  cube 1 * (absdot rnd (r0 Rz1) (cellv orig) * absdot rnd (r1 Rz1) (cellv orig) * absdot rnd (r2 Rz1) (cellv orig))).
    { rewrite !(absdot_spec rnd rnd_id). unfold Rz1, absrow; cbn [r0 r1 r2 vx vy vz]. rewrite A0, A1, A2. unfold cube. ring. }
    assert (LX : absdot rnd (r0 Rz1) (cellv orig) == h) by (rewrite (absdot_spec rnd rnd_id); unfold Rz1, absrow; cbn [r0 vx vy vz]; rewrite A0, A1, Cy; ring).
    assert (LY : absdot rnd (r1 Rz1) (cellv orig) == h) by (rewrite (absdot_spec rnd rnd_id); unfold Rz1, absrow; cbn [r1 vx vy vz]; rewrite A0, A2, Cx; ring).
    assert (LZ : absdot rnd (r2 Rz1) (cellv orig) == h) by (rewrite (absdot_spec rnd rnd_id); unfold Rz1, absrow; cbn [r2 vx vy vz]; rewrite A0, A2, Cz; ring).
    assert (VP : 0 < absdot rnd (r0 Rz1) (cellv orig) * absdot rnd (r1 Rz1) (cellv orig) * absdot rnd (r2 Rz1) (cellv orig)).
    { rewrite LX, LY, LZ. assert (0 < h * h) by nra. nra. }
    rewrite !andb_true_iff. repeat split; apply G; try assumption.
    - rewrite (absdot_spec rnd rnd_id). unfold Rz1, absrow; cbn [r0 vx vy vz]. rewrite A0, A1, Ey. ring.
    - rewrite (absdot_spec rnd rnd_id). unfold Rz1, absrow; cbn [r1 vx vy vz]. rewrite A0, A2, Ex. ring.
    - rewrite (absdot_spec rnd rnd_id). unfold Rz1, absrow; cbn [r2 vx vy vz]. rewrite A0, A2, Ez. ring.
  Qed.
End Link.
