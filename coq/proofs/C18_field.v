(* C18: the value function of the rotated field (with the materialised rotated array and the edge
   padding) is R^ applied to the interpolation of the original components. *)
From DF Require Import Prelude Rotator ListLemmas C18_machine C18_geom.
Open Scope Q_scope.

Lemma memo4_spec n nv (a : arr) i j k c :
  (i < n0 n)%nat -> (j < n1 n)%nat -> (k < n2 n)%nat -> (c < nv)%nat -> memo4 n nv a i j k c = a i j k c.
Proof.
  intros Hi Hj Hk Hc. unfold memo4.
  rewrite (nth_map_iota _ (n0 n) i [] Hi), (nth_map_iota _ (n1 n) j [] Hj), (nth_map_iota _ (n2 n) k [] Hk),
    (nth_map_iota _ nv c 0 Hc). reflexivity.
Qed.

Lemma pad1_lt n k : (1 <= n)%nat -> (pad1 n k < n)%nat.
Proof. unfold pad1. lia. Qed.

Section Exact.
  Variable rnd : Q -> Q.
  Hypothesis rnd_id : forall x, rnd x == x.

  Lemma interp_at_ext gx gy gz n (ra ra' : arr) p c :
    (1 <= n0 n)%nat -> (1 <= n1 n)%nat -> (1 <= n2 n)%nat ->
    (forall a b d, (a < n0 n)%nat -> (b < n1 n)%nat -> (d < n2 n)%nat -> ra a b d c == ra' a b d c) ->
    interp_at rnd gx gy gz n ra p c == interp_at rnd gx gy gz n ra' p c.
  Proof.
    intros H0 H1 H2 H. unfold interp_at. destruct (inb1 gx (vx p) && inb1 gy (vy p) && inb1 gz (vz p)); [|reflexivity].
    apply interp3_ext; [exact rnd_id|]. intros a b d. unfold padded. apply H; apply pad1_lt; assumption.
  Qed.

  Theorem rotated_val_spec perm orig R n' i j k c :
    (1 <= n0 (f_n orig))%nat -> (1 <= n1 (f_n orig))%nat -> (1 <= n2 (f_n orig))%nat -> (c < 3)%nat ->
    let g := grids rnd orig in
    rotated_val rnd 3 perm orig R n' i j k c ==
    rot_comp rnd R perm
      (fun e => interp_at rnd (fst (fst g)) (snd (fst g)) (snd g) (f_n orig) (f_val orig) (back_pos rnd orig R n' i j k) e) c.
  Proof.
    intros H0 H1 H2 Hc g. unfold rotated_val. fold g.
    rewrite <- (interp_at_rotates rnd rnd_id).
    apply interp_at_ext; try assumption. intros a b d Ha Hb Hd. rewrite memo4_spec by assumption. reflexivity.
  Qed.

  Theorem rotated_val_scalar perm orig R n' i j k :
    (1 <= n0 (f_n orig))%nat -> (1 <= n1 (f_n orig))%nat -> (1 <= n2 (f_n orig))%nat ->
    let g := grids rnd orig in
    rotated_val rnd 1 perm orig R n' i j k 0%nat ==
    interp_at rnd (fst (fst g)) (snd (fst g)) (snd g) (f_n orig) (f_val orig) (back_pos rnd orig R n' i j k) 0%nat.
  Proof.
    intros H0 H1 H2 g. unfold rotated_val. fold g.
    apply interp_at_ext; try assumption. intros a b d Ha Hb Hd. rewrite memo4_spec by (assumption || lia). reflexivity.
  Qed.
End Exact.
