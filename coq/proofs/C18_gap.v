(* C18: how a rounding hook (relative error eta per arithmetic step, as rnd_bits 44 in the checker)
   propagates through one linear-interpolation step of the model. *)
From DF Require Import Prelude Rotator QLemmas.
Open Scope Q_scope.

Lemma abs_le x y : Qabs x <= y <-> - y <= x /\ x <= y.
Proof. apply Qabs_Qle_condition. Qed.

Lemma prod_bound u v d m : - d <= u -> u <= d -> - m <= v -> v <= m -> - (d * m) <= u * v /\ u * v <= d * m.
Proof.
  intros. assert (0 <= (d - u) * (m - v)) by (apply Qmult_le_0_compat; lra).
  assert (0 <= (d + u) * (m + v)) by (apply Qmult_le_0_compat; lra).
  assert (0 <= (d - u) * (m + v)) by (apply Qmult_le_0_compat; lra).
  assert (0 <= (d + u) * (m - v)) by (apply Qmult_le_0_compat; lra).
  split; nra.
Qed.

Section Gap.
  Variable rnd' : Q -> Q.
  Variable eta : Q.
  Hypothesis eta_nonneg : 0 <= eta.
  Hypothesis rnd_rel : forall y, Qabs (rnd' y - y) <= eta * Qabs y.

  (* one interpolation step: weight off by delta, both inputs off by eps, data bounded by V *)
  Theorem lerp_gap t t' a a' b b' delta eps V :
    0 <= t' -> t' <= 1 -> Qabs (t' - t) <= delta -> Qabs (a' - a) <= eps -> Qabs (b' - b) <= eps ->
    Qabs a <= V -> Qabs b <= V -> 0 <= t -> t <= 1 ->
    Qabs (lerp rnd' t' a' b' - ((1 - t) * a + t * b)) <= (1 + eta) * (eps + delta * (2 * V)) + eta * V.
  Proof.
    intros T0 T1 Ht Ha Hb Va Vb S0 S1.
    apply abs_le in Ht, Ha, Hb, Va, Vb. destruct Ht as [Ht1 Ht2], Ha as [Ha1 Ha2], Hb as [Hb1 Hb2], Va as [Va1 Va2], Vb as [Vb1 Vb2].
    set (y' := (1 - t') * a' + t' * b'). set (y := (1 - t) * a + t * b).
    assert (ID : y' - y == (1 - t') * (a' - a) + t' * (b' - b) + (t' - t) * (b - a)) by (unfold y', y; ring).
    destruct (prod_bound (1 - t') (a' - a) (1 - t') eps) as [P1 P1']; try lra.
    destruct (prod_bound t' (b' - b) t' eps) as [P2 P2']; try lra.
    destruct (prod_bound (t' - t) (b - a) delta (2 * V)) as [P3 P3']; try lra.
    assert (E1 : - (eps + delta * (2 * V)) <= y' - y /\ y' - y <= eps + delta * (2 * V)).
    { rewrite ID. split; nra. }
    assert (Vy : - V <= y /\ y <= V).
    { unfold y. destruct (prod_bound (1 - t) a (1 - t) V) as [A A']; try lra.
      destruct (prod_bound t b t V) as [B B']; try lra. all: try (split; nra). }
    assert (D0 : 0 <= eps + delta * (2 * V)) by lra.
    assert (Ay' : Qabs y' <= V + (eps + delta * (2 * V))) by (apply abs_le; split; lra).
    pose proof (rnd_rel y') as R. unfold lerp. fold y'.
    assert (R' : Qabs (rnd' y' - y') <= eta * (V + (eps + delta * (2 * V)))).
    { eapply Qle_trans; [exact R|]. rewrite !(Qmult_comm eta). apply Qmult_le_compat_r; assumption. }
    apply abs_le in R'. destruct R' as [R1 R2].
    apply abs_le. split; nra.
  Qed.
End Gap.

(* the checker's hook on sample values: |rnd_bits 44 x - x| * 2^42 <= |x| (sanity, by computation) *)
Example rnd_bits_samples :
  forallb (fun x => Qle_bool (Qabs (rnd_bits 44 x - x) * 4398046511104) (Qabs x))
    [1 # 3; (-7) # 1000000007; 123456789123456789123456789 # 98765432198765432198765432197;
     (-5) # 1; 1 # 1180591620717411303424; 99999999999999999999 # 7; 0; 3 # 4; (-1) # 3] = true.
Proof. vm_compute. reflexivity. Qed.
