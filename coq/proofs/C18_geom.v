(* C18: bounding box, interpolation, component mapping, refusals. *)
From DF Require Import Prelude Rotator C18_machine.
Open Scope Q_scope.

(* ---------- one term / one row of the bounding box ---------- *)
Definition is_pm1 (s : Q) : Prop := s == 1 \/ s == -1.
Definition is_sign (s : vec3) : Prop := is_pm1 (vx s) /\ is_pm1 (vy s) /\ is_pm1 (vz s).
(* component of R * (1/2 * s o e) along the row r *)
Definition rowimg (r s e : vec3) : Q :=
  vx r * ((1 # 2) * (vx s * vx e)) + vy r * ((1 # 2) * (vy s * vy e)) + vz r * ((1 # 2) * (vz s * vz e)).

Lemma abs_term r e s : 0 <= e -> is_pm1 s -> - (Qabs r * e) <= r * (s * e) /\ r * (s * e) <= Qabs r * e.
Proof.
  intros He Hs.
  assert (H1 : r <= Qabs r) by apply Qle_Qabs.
  assert (H2 : - Qabs r <= r).
  { rewrite <- (Qopp_involutive r) at 2. apply Qopp_le_compat. rewrite <- Qabs_opp. apply Qle_Qabs. }
  set (A := Qabs r) in *. destruct Hs as [Hs|Hs]; rewrite Hs; split; nra.
Qed.

Lemma abs_term_hi r e : exists s, is_pm1 s /\ r * (s * e) == Qabs r * e.
Proof.
  destruct (Qlt_le_dec r 0) as [H|H].
  - exists (-1). split; [right; reflexivity|]. rewrite (Qabs_neg r) by lra. ring.
  - exists 1. split; [left; reflexivity|]. rewrite (Qabs_pos r) by lra. ring.
Qed.

Lemma abs_term_lo r e : exists s, is_pm1 s /\ r * (s * e) == - (Qabs r * e).
Proof.
  destruct (Qlt_le_dec r 0) as [H|H].
  - exists 1. split; [left; reflexivity|]. rewrite (Qabs_neg r) by lra. ring.
  - exists (-1). split; [right; reflexivity|]. rewrite (Qabs_pos r) by lra. ring.
Qed.

Definition absrow (r e : vec3) : Q := Qabs (vx r) * vx e + Qabs (vy r) * vy e + Qabs (vz r) * vz e.

Lemma row_bound r e s : 0 <= vx e -> 0 <= vy e -> 0 <= vz e -> is_sign s ->
  - ((1 # 2) * absrow r e) <= rowimg r s e /\ rowimg r s e <= (1 # 2) * absrow r e.
Proof.
  intros E0 E1 E2 (S0 & S1 & S2). unfold rowimg, absrow.
  destruct (abs_term (vx r) (vx e) (vx s) E0 S0), (abs_term (vy r) (vy e) (vy s) E1 S1), (abs_term (vz r) (vz e) (vz s) E2 S2). split; lra.
Qed.

Lemma row_hi r e : exists s, is_sign s /\ rowimg r s e == (1 # 2) * absrow r e.
Proof.
  destruct (abs_term_hi (vx r) (vx e)) as (s0 & P0 & H0), (abs_term_hi (vy r) (vy e)) as (s1 & P1 & H1),
    (abs_term_hi (vz r) (vz e)) as (s2 & P2 & H2).
  exists (V3 s0 s1 s2). split; [repeat split; assumption|]. unfold rowimg, absrow; cbn [vx vy vz]. lra.
Qed.

Lemma row_lo r e : exists s, is_sign s /\ rowimg r s e == - ((1 # 2) * absrow r e).
Proof.
  destruct (abs_term_lo (vx r) (vx e)) as (s0 & P0 & H0), (abs_term_lo (vy r) (vy e)) as (s1 & P1 & H1),
    (abs_term_lo (vz r) (vz e)) as (s2 & P2 & H2).
  exists (V3 s0 s1 s2). split; [repeat split; assumption|]. unfold rowimg, absrow; cbn [vx vy vz]. lra.
Qed.

(* what the property says about one axis of the new region: same centre, contains the image of every
   corner, each of the two faces is touched by the image of a corner *)
Definition axis_bbox (r : vec3) (c lo hi : Q) (e : vec3) : Prop :=
  lo + hi == 2 * c /\
  (forall s, is_sign s -> lo <= c + rowimg r s e /\ c + rowimg r s e <= hi) /\
  (exists s, is_sign s /\ c + rowimg r s e == hi) /\
  (exists s, is_sign s /\ c + rowimg r s e == lo).

Section Exact.
  Variable rnd : Q -> Q.
  Hypothesis rnd_id : forall x, rnd x == x.

  Lemma axis_bbox_intro r c e : 0 <= vx e -> 0 <= vy e -> 0 <= vz e ->
    axis_bbox r c (rnd (c - (1 # 2) * absdot rnd r e)) (rnd (c + (1 # 2) * absdot rnd r e)) e.
  Proof.
    intros E0 E1 E2. unfold axis_bbox.
    assert (A : absdot rnd r e == absrow r e) by (unfold absdot; apply rnd_id).
    assert (Lo : rnd (c - (1 # 2) * absdot rnd r e) == c - (1 # 2) * absrow r e) by (rewrite rnd_id, A; reflexivity).
    assert (Hi : rnd (c + (1 # 2) * absdot rnd r e) == c + (1 # 2) * absrow r e) by (rewrite rnd_id, A; reflexivity).
    split; [lra|]. split; [|split].
    - intros s Hs. destruct (row_bound r e s E0 E1 E2 Hs). split; lra.
    - destruct (row_hi r e) as (s & Hs & H). exists s. split; [exact Hs|]. lra.
    - destruct (row_lo r e) as (s & Hs & H). exists s. split; [exact Hs|]. lra.
  Qed.

  Theorem bbox R f :
    vx (f_pmin f) <= vx (f_pmax f) -> vy (f_pmin f) <= vy (f_pmax f) -> vz (f_pmin f) <= vz (f_pmax f) ->
    axis_bbox (r0 R) (vx (centre f)) (vx (new_pmin rnd R f)) (vx (new_pmax rnd R f)) (edges f) /\
    axis_bbox (r1 R) (vy (centre f)) (vy (new_pmin rnd R f)) (vy (new_pmax rnd R f)) (edges f) /\
    axis_bbox (r2 R) (vz (centre f)) (vz (new_pmin rnd R f)) (vz (new_pmax rnd R f)) (edges f).
  Proof.
    intros H0 H1 H2.
    assert (E0 : 0 <= vx (edges f)) by (unfold edges, vsub, vmap2; cbn [vx]; lra).
    assert (E1 : 0 <= vy (edges f)) by (unfold edges, vsub, vmap2; cbn [vy]; lra).
    assert (E2 : 0 <= vz (edges f)) by (unfold edges, vsub, vmap2; cbn [vz]; lra).
    unfold new_pmin, new_pmax, new_half, mabs_apply, vrnd, vsub, vadd, vmap2, vscale; cbn [vx vy vz].
    repeat split; apply axis_bbox_intro; assumption.
  Qed.

  (* the image of a corner of the original region, component by component *)
  Lemma corner_image R c s e :
    veq (vadd c (mapply rnd R (vscale (1 # 2) (V3 (vx s * vx e) (vy s * vy e) (vz s * vz e)))))
        (V3 (vx c + rowimg (r0 R) s e) (vy c + rowimg (r1 R) s e) (vz c + rowimg (r2 R) s e)).
  Proof.
    unfold veq, vadd, vmap2, mapply, vscale, rowimg; cbn [vx vy vz].
    repeat split; rewrite dot_spec by exact rnd_id; cbn [vx vy vz]; reflexivity.
  Qed.

  (* ---------- linear interpolation ---------- *)
  Lemma lerp_spec t a b : lerp rnd t a b == (1 - t) * a + t * b.
  Proof. unfold lerp. apply rnd_id. Qed.

  Lemma lerp_affine x a b al be : ~ b - a == 0 ->
    lerp rnd ((x - a) / (b - a)) (al * a + be) (al * b + be) == al * x + be.
  Proof. intro H. rewrite lerp_spec. field. exact H. Qed.

  Lemma interp3_spec W i tx j ty k tz :
    interp3 rnd W (i, tx) (j, ty) (k, tz) ==
    (1 - tx) * ((1 - ty) * ((1 - tz) * W i j k + tz * W i j (S k)) + ty * ((1 - tz) * W i (S j) k + tz * W i (S j) (S k))) +
    tx * ((1 - ty) * ((1 - tz) * W (S i) j k + tz * W (S i) j (S k)) + ty * ((1 - tz) * W (S i) (S j) k + tz * W (S i) (S j) (S k))).
  Proof. unfold interp3. rewrite !lerp_spec. reflexivity. Qed.

  Lemma locate_spec g x :
    locate rnd g x = (fst (locate rnd g x), snd (locate rnd g x)) /\
    snd (locate rnd g x) == (x - nth (fst (locate rnd g x)) g 0) /
                            (nth (S (fst (locate rnd g x))) g 0 - nth (fst (locate rnd g x)) g 0).
  Proof. unfold locate; cbn [fst snd]. split; [reflexivity|apply rnd_id]. Qed.

  (* tensor-product linear interpolation reproduces every affine function of the grid coordinates:
     if the eight surrounding grid values are affine in the grid coordinates the interpolant at (x,y,z)
     is that affine function of (x,y,z).  (For the grid of the rotator the eight values are cell values -
     not edge-replicated padding - exactly when the point lies between the first and last cell centre.) *)
  Theorem interp3_affine gx gy gz W x y z ax ay az b :
    let i := fst (locate rnd gx x) in let j := fst (locate rnd gy y) in let k := fst (locate rnd gz z) in
    ~ nth (S i) gx 0 - nth i gx 0 == 0 -> ~ nth (S j) gy 0 - nth j gy 0 == 0 -> ~ nth (S k) gz 0 - nth k gz 0 == 0 ->
    (forall a b' c, (a = i \/ a = S i) -> (b' = j \/ b' = S j) -> (c = k \/ c = S k) ->
       W a b' c == ax * nth a gx 0 + ay * nth b' gy 0 + az * nth c gz 0 + b) ->
    interp3 rnd W (locate rnd gx x) (locate rnd gy y) (locate rnd gz z) == ax * x + ay * y + az * z + b.
  Proof.
    intros i j k Hx Hy Hz HW.
    destruct (locate_spec gx x) as [Ex Tx], (locate_spec gy y) as [Ey Ty], (locate_spec gz z) as [Ez Tz].
    rewrite Ex, Ey, Ez, interp3_spec. fold i j k in Tx, Ty, Tz |- *. rewrite Tx, Ty, Tz.
    rewrite !HW by (auto). field. repeat split; assumption.
  Qed.

  (* the interpolant is linear in the data: interpolating a combination of three arrays gives the
     combination of the interpolants (this is why rotating the vectors first and interpolating
     afterwards yields the rotated interpolant) *)
  Lemma interp3_linear U V T m0 m1 m2 lx ly lz :
    interp3 rnd (fun a b c => m0 * U a b c + m1 * V a b c + m2 * T a b c) lx ly lz ==
    m0 * interp3 rnd U lx ly lz + m1 * interp3 rnd V lx ly lz + m2 * interp3 rnd T lx ly lz.
  Proof. destruct lx, ly, lz. rewrite !interp3_spec. ring. Qed.

  Lemma interp3_ext U V lx ly lz : (forall a b c, U a b c == V a b c) -> interp3 rnd U lx ly lz == interp3 rnd V lx ly lz.
  Proof. intro H. destruct lx, ly, lz. rewrite !interp3_spec, !H. reflexivity. Qed.

  Lemma interp3_const v lx ly lz : interp3 rnd (fun _ _ _ => v) lx ly lz == v.
  Proof. destruct lx, ly, lz. rewrite interp3_spec. ring. Qed.

  (* rotation of the three mapped components, row d of R *)
  Definition rowsum (R : mat3) (d : nat) (u0 u1 u2 : Q) : Q :=
    vx (mrow R d) * u0 + vy (mrow R d) * u1 + vz (mrow R d) * u2.

  Lemma rot_comp_spec R perm v c :
    rot_comp rnd R perm v c ==
    rowsum R (pos_in c perm) (v (nth 0 perm 0%nat)) (v (nth 1 perm 0%nat)) (v (nth 2 perm 0%nat)).
  Proof.
    unfold rot_comp, rowsum, mapply.
    destruct (pos_in c perm) as [|[|?]]; cbn [vnth mrow vx vy vz]; rewrite dot_spec by exact rnd_id; reflexivity.
  Qed.

  (* value of a target cell = R^ applied to the interpolation of the original components *)
  Theorem interp_at_rotates gx gy gz n R perm (a : arr) p c :
    interp_at rnd gx gy gz n (rot_arr rnd 3 R perm a) p c ==
    rot_comp rnd R perm (fun e => interp_at rnd gx gy gz n a p e) c.
  Proof.
    unfold interp_at. destruct (inb1 gx (vx p) && inb1 gy (vy p) && inb1 gz (vz p)).
    - rewrite rot_comp_spec. unfold rowsum.
      rewrite <- interp3_linear. apply interp3_ext. intros i j k. unfold padded, rot_arr. cbn [Nat.eqb].
      rewrite rot_comp_spec. reflexivity.
    - rewrite rot_comp_spec. unfold rowsum. ring.
  Qed.

  (* scalar fields are interpolated as they are *)
  Lemma interp_at_scalar gx gy gz n R perm (a : arr) p c :
    interp_at rnd gx gy gz n (rot_arr rnd 1 R perm a) p c = interp_at rnd gx gy gz n a p c.
  Proof. reflexivity. Qed.

  (* a uniform field is reproduced everywhere inside the box of the interpolator *)
  Theorem interp_at_uniform gx gy gz n (v : nat -> Q) p c :
    inb1 gx (vx p) && inb1 gy (vy p) && inb1 gz (vz p) = true ->
    interp_at rnd gx gy gz n (fun _ _ _ e => v e) p c == v c.
  Proof. intro H. unfold interp_at. rewrite H. unfold padded. apply interp3_const. Qed.
End Exact.

(* ---------- zero fill: holds for every hook ---------- *)
Lemma inb1_false g x : x < hd 0 g \/ last g 0 < x -> inb1 g x = false.
Proof.
  intros [H|H]; unfold inb1.
  - destruct (Qle_bool (hd 0 g) x) eqn:E; [|reflexivity]. apply Qle_bool_iff in E. lra.
  - destruct (Qle_bool x (last g 0)) eqn:E; [|apply andb_false_r]. apply Qle_bool_iff in E. lra.
Qed.

Theorem outside_zero rnd gx gy gz n (a : arr) p c :
  (vx p < hd 0 gx \/ last gx 0 < vx p) \/ (vy p < hd 0 gy \/ last gy 0 < vy p) \/ (vz p < hd 0 gz \/ last gz 0 < vz p) ->
  interp_at rnd gx gy gz n a p c = 0.
Proof.
  intros [H|[H|H]]; apply inb1_false in H; unfold interp_at; rewrite H; rewrite ?andb_false_r; reflexivity.
Qed.

(* ---------- permuted component-to-axis mapping ---------- *)
Definition is_perm3 (perm : list nat) : Prop :=
  In perm [[0;1;2]; [0;2;1]; [1;0;2]; [1;2;0]; [2;0;1]; [2;1;0]]%nat.

Theorem permuted_mapping rnd (rnd_id : forall x, rnd x == x) R perm v d :
  is_perm3 perm -> (d < 3)%nat ->
  rot_comp rnd R perm v (nth d perm 0%nat) ==
  vnth (mrow R d) 0 * v (nth 0 perm 0%nat) + vnth (mrow R d) 1 * v (nth 1 perm 0%nat) + vnth (mrow R d) 2 * v (nth 2 perm 0%nat).
Proof.
  intros HP Hd. rewrite rot_comp_spec by exact rnd_id. unfold rowsum.
  assert (E : pos_in (nth d perm 0%nat) perm = d).
  { destruct d as [|[|[|?]]]; [| | |lia];
      cbn in HP; destruct HP as [<-|[<-|[<-|[<-|[<-|[<-|[]]]]]]]; reflexivity. }
  rewrite E. destruct d as [|[|[|?]]]; cbn [vnth mrow]; try reflexivity; lia.
Qed.

(* ordered_idx of a complete mapping is a permutation and inverts the mapping *)
Lemma ordered_idx_perm mapping perm : length mapping = 3%nat ->
  forallb (fun m => match m with Some _ => true | None => false end) mapping = true ->
  ordered_idx mapping = Some perm -> is_perm3 perm.
Proof.
  intros L A H. destruct mapping as [|m0 [|m1 [|m2 [|? ?]]]]; try discriminate L.
  destruct m0 as [[|[|[|?]]]|], m1 as [[|[|[|?]]]|], m2 as [[|[|[|?]]]|]; try discriminate A;
    cbn in H; try discriminate H; injection H as <-; cbn; tauto.
Qed.

(* ---------- refusals ---------- *)
Theorem accepts_iff nvdim ndim mapping :
  rotator_accepts nvdim ndim mapping = true <->
  ndim = 3%nat /\
  (nvdim = 1%nat \/
   (nvdim = 3%nat /\ (forall m, In m mapping -> m <> None) /\ exists perm, ordered_idx mapping = Some perm)).
Proof.
  unfold rotator_accepts, ctor_ok. rewrite !andb_true_iff, !orb_true_iff, !Nat.eqb_eq, forallb_forall.
  split.
  - intros (((Hn & Hd) & Hm) & Ho). split; [exact Hd|].
    destruct Hn as [Hn|Hn]; [left; exact Hn|]. destruct (Nat.eq_dec nvdim 1) as [E|NE]; [left; exact E|].
    right. split; [exact Hn|]. destruct Hm as [Hm|Hm]; [contradiction|]. destruct Ho as [Ho|Ho]; [contradiction|].
    split.
    + intros m Hin. specialize (Hm m Hin). destruct m; [discriminate|discriminate Hm].
    + destruct (ordered_idx mapping) as [p|]; [exists p; reflexivity|discriminate Ho].
  - intros (Hd & [H1|(H3 & Hm & (p & Hp))]).
    + repeat split; auto.
    + repeat split; auto.
      * right. intros m Hin. specialize (Hm m Hin). destruct m; [reflexivity|contradiction].
      * right. rewrite Hp. reflexivity.
Qed.
