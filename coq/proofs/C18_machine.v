(* C18: the rotate / clear_rotation state machine. *)
From DF Require Import Prelude Rotator.
Open Scope Q_scope.

Section M.
  Variable rnd : Q -> Q.
  Variable nv : nat.
  Variable perm : list nat.
  Variable orig : fld.
  Variable choose_n : mat3 -> n3.

  Notation run' := (run rnd nv perm orig choose_n).
  Notation step' := (step rnd nv perm orig choose_n).

  Lemma run_app ops1 ops2 : run' (ops1 ++ ops2) = fold_left step' ops2 (run' ops1).
  Proof. unfold run. apply fold_left_app. Qed.

  Lemma clear_restores ops : run' (ops ++ [OClear]) = St mid orig.
  Proof. rewrite run_app. reflexivity. Qed.

  (* the accumulated rotation is the ordered product of the steps since the last clear *)
  Lemma fold_rot ops : forall s, st_rot (fold_left step' ops s) = acc_rot rnd (st_rot s) ops.
  Proof.
    induction ops as [|o ops IH]; intro s; [reflexivity|].
    cbn [fold_left acc_rot]. rewrite IH. destruct o; reflexivity.
  Qed.

  Lemma run_rot ops : st_rot (run' ops) = acc_rot rnd mid ops.
  Proof. unfold run. rewrite fold_rot. reflexivity. Qed.

  (* after a history that ends with a rotation the field is the rotation of the ORIGINAL field by the
     accumulated matrix, whatever the intermediate fields and resolutions were *)
  Lemma run_field ops M nopt :
    let R := acc_rot rnd mid (ops ++ [ORot M nopt]) in
    run' (ops ++ [ORot M nopt]) =
    St R (rotated_field rnd nv perm orig R (match nopt with Some n => n | None => choose_n R end)).
  Proof.
    intro R. rewrite run_app. cbn [fold_left step].
    assert (E : mmul rnd M (st_rot (run' ops)) = R).
    { unfold R. rewrite run_rot. generalize mid. induction ops as [|o t IH]; intro a; [reflexivity|].
      destruct o; cbn [app acc_rot]; apply IH. }
    rewrite E. reflexivity.
  Qed.

  Lemma acc_rot_app ops1 ops2 a : acc_rot rnd a (ops1 ++ ops2) = acc_rot rnd (acc_rot rnd a ops1) ops2.
  Proof. revert a. induction ops1 as [|o t IH]; intro a; [reflexivity|]. destruct o; cbn [app acc_rot]; apply IH. Qed.

  Lemma acc_rot_last ops M nopt a :
    acc_rot rnd a (ops ++ [ORot M nopt]) = mmul rnd M (acc_rot rnd a ops).
  Proof. rewrite acc_rot_app. reflexivity. Qed.

  Lemma rotated_val_fast_eq R n' : rotated_val_fast rnd nv perm orig R n' = rotated_val rnd nv perm orig R n'.
  Proof. reflexivity. Qed.
End M.

(* ---------- matrices: the hook disappears, products act in order ---------- *)
Section Exact.
  Variable rnd : Q -> Q.
  Hypothesis rnd_id : forall x, rnd x == x.

  Lemma dot_spec a b : dot rnd a b == vx a * vx b + vy a * vy b + vz a * vz b.
  Proof. unfold dot. apply rnd_id. Qed.

  Lemma dot3 a b c x y z : dot rnd (V3 a b c) (V3 x y z) == a * x + b * y + c * z.
  Proof. apply dot_spec. Qed.

  Lemma mapply_mmul A B v : veq (mapply rnd (mmul rnd A B) v) (mapply rnd A (mapply rnd B v)).
  Proof.
    destruct A as [[a00 a01 a02] [a10 a11 a12] [a20 a21 a22]].
    destruct B as [[b00 b01 b02] [b10 b11 b12] [b20 b21 b22]]. destruct v as [x y z].
    unfold veq, mmul, mtrans, mcol, mapply; cbn [r0 r1 r2 vx vy vz vnth].
    repeat split; rewrite !dot3; ring.
  Qed.

  Lemma mapply_mid v : veq (mapply rnd mid v) v.
  Proof. destruct v as [x y z]. unfold veq, mapply, mid; cbn [r0 r1 r2 vx vy vz]. repeat split; rewrite dot3; ring. Qed.

  Lemma mapply_veq M u v : veq u v -> veq (mapply rnd M u) (mapply rnd M v).
  Proof.
    intros (H0 & H1 & H2). unfold veq, mapply; cbn [vx vy vz]. repeat split; rewrite !dot_spec, H0, H1, H2; reflexivity.
  Qed.

  Lemma veq_trans a b c : veq a b -> veq b c -> veq a c.
  Proof. intros (A0 & A1 & A2) (B0 & B1 & B2). repeat split; etransitivity; eauto. Qed.

  (* later rotations are applied after earlier ones: the accumulated matrix of a clear-free history acts
     on a vector like the steps applied one after the other *)
  Fixpoint apply_steps (ops : list op) (v : vec3) : vec3 :=
    match ops with
    | [] => v
    | ORot M _ :: t => apply_steps t (mapply rnd M v)
    | OClear :: t => apply_steps t v
    end.
  Fixpoint no_clear (ops : list op) : Prop :=
    match ops with [] => True | ORot _ _ :: t => no_clear t | OClear :: _ => False end.

  Lemma acc_rot_acts ops : no_clear ops -> forall A v,
    veq (mapply rnd (acc_rot rnd A ops) v) (apply_steps ops (mapply rnd A v)).
  Proof.
    induction ops as [|o t IH]; intros NC A v.
    - repeat split; reflexivity.
    - destruct o as [M nopt|]; [|destruct NC]. cbn [acc_rot apply_steps].
      eapply veq_trans; [apply IH, NC|].
      clear IH NC. generalize (mapply_mmul M A v). generalize (mapply rnd (mmul rnd M A) v), (mapply rnd M (mapply rnd A v)).
      intros u w E. revert u w E. induction t as [|o t IH]; intros u w E; [exact E|].
      destruct o; cbn [apply_steps]; apply IH; [apply mapply_veq, E | exact E].
  Qed.

  Lemma compose_in_order ops : no_clear ops -> forall v,
    veq (mapply rnd (acc_rot rnd mid ops) v) (apply_steps ops v).
  Proof.
    intros NC v. eapply veq_trans; [apply acc_rot_acts, NC|].
    generalize (mapply_mid v). generalize (mapply rnd mid v). intros u E. revert u v E.
    induction ops as [|o t IH]; intros u v E; [exact E|].
    destruct o; [|destruct NC]. cbn [apply_steps]. apply IH; [exact NC | apply mapply_veq, E].
  Qed.
End Exact.
