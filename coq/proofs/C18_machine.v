(* C18: the rotate / clear_rotation state machine. *)
From DF Require Import Prelude Rotator.
Open Scope Q_scope.

Section M.
  Variable nv : nat.
  Variable perm : list nat.
  Variable orig : fld.
  Variable choose_n : mat3 -> n3.

  Lemma run_app ops1 ops2 :
    run nv perm orig choose_n (ops1 ++ ops2) =
    fold_left (step nv perm orig choose_n) ops2 (run nv perm orig choose_n ops1).
  Proof. unfold run. apply fold_left_app. Qed.

  Lemma clear_restores ops :
    run nv perm orig choose_n (ops ++ [OClear]) = St mid orig.
  Proof. rewrite run_app. reflexivity. Qed.
End M.
