(* C18: the rotate / clear_rotation state machine. *)
From DF Require Import Prelude Rotator.
Open Scope Q_scope.

Section M.
  Variable rnd : Q -> Q.
  Variable nv : nat.
  Variable perm : list nat.
  Variable orig : fld.
  Variable choose_n : mat3 -> n3.

  Notation run' := (run rnd nv perm orig choose_n).
  Notation step' := (step rnd nv perm orig choose_n).

  Lemma run_app ops1 ops2 : run' (ops1 ++ ops2) = fold_left step' ops2 (run' ops1).
  Proof. unfold run. apply fold_left_app. Qed.

  Lemma clear_restores ops : run' (ops ++ [OClear]) = St mid orig.
  Proof. rewrite run_app. reflexivity. Qed.

  (* the accumulated rotation is the ordered product of the steps since the last clear *)
  Lemma fold_rot ops : forall s, st_rot (fold_left step' ops s) = acc_rot rnd (st_rot s) ops.
  Proof.
    induction ops as [|o ops IH]; intro s; [reflexivity|].
    cbn [fold_left acc_rot]. rewrite IH. unfold step.
    destruct o as [M [n|]| |]; cbn [op_accepted]; try reflexivity.
    destruct (n3_pos n); reflexivity.
  Qed.

  Lemma run_rot ops : st_rot (run' ops) = acc_rot rnd mid ops.
  Proof. unfold run. rewrite fold_rot. reflexivity. Qed.

  (* after a history that ends with a rotation the field is the rotation of the ORIGINAL field by the
     accumulated matrix, whatever the intermediate fields and resolutions were *)
  Lemma run_field ops M nopt : op_accepted (ORot M nopt) = true ->
    let R := acc_rot rnd mid (ops ++ [ORot M nopt]) in
    run' (ops ++ [ORot M nopt]) =
    St R (rotated_field rnd nv perm orig R (match nopt with Some n => n | None => choose_n R end)).
  Proof.
    intros A R. rewrite run_app. cbn [fold_left]. unfold step at 1. rewrite A.
    assert (E : mmul rnd M (st_rot (run' ops)) = R).
    { unfold R. rewrite run_rot. generalize mid. induction ops as [|o t IH]; intro a.
      - cbn [app acc_rot]. rewrite A. reflexivity.
      - destruct o; cbn [app acc_rot]; apply IH. }
    rewrite E. reflexivity.
  Qed.

  (* a refused call is the identity on the state (field AND accumulated rotation) *)
  Lemma refused_step_identity s o : op_accepted o = false -> step' s o = s.
  Proof. intro H. unfold step. rewrite H. reflexivity. Qed.

  (* ... hence refused calls can be erased from any history: the state is that of the accepted calls *)
  Lemma refused_steps_erasable ops : run' ops = run' (filter op_accepted ops).
  Proof.
    unfold run. generalize (init orig). induction ops as [|o t IH]; intro s; [reflexivity|].
    cbn [fold_left filter]. destruct (op_accepted o) eqn:A.
    - cbn [fold_left]. apply IH.
    - rewrite (refused_step_identity s o A). apply IH.
  Qed.

  Lemma acc_rot_erasable ops a : acc_rot rnd a ops = acc_rot rnd a (filter op_accepted ops).
  Proof.
    revert a. induction ops as [|o t IH]; intro a; [reflexivity|].
    destruct o as [M [n|]| |]; cbn [filter op_accepted acc_rot]; try apply IH.
    destruct (n3_pos n) eqn:A; cbn [acc_rot op_accepted]; rewrite ?A; apply IH.
  Qed.

  Lemma acc_rot_app ops1 ops2 a : acc_rot rnd a (ops1 ++ ops2) = acc_rot rnd (acc_rot rnd a ops1) ops2.
  Proof. revert a. induction ops1 as [|o t IH]; intro a; [reflexivity|]. destruct o; cbn [app acc_rot]; apply IH. Qed.

  Lemma acc_rot_last ops M nopt a : op_accepted (ORot M nopt) = true ->
    acc_rot rnd a (ops ++ [ORot M nopt]) = mmul rnd M (acc_rot rnd a ops).
  Proof. intro A. rewrite acc_rot_app. cbn [acc_rot]. rewrite A. reflexivity. Qed.

  Lemma rotated_val_fast_eq R n' : rotated_val_fast rnd nv perm orig R n' = rotated_val rnd nv perm orig R n'.
  Proof. reflexivity. Qed.
End M.

(* ---------- matrices: the hook disappears, products act in order ---------- *)
Section Exact.
  Variable rnd : Q -> Q.
  Hypothesis rnd_id : forall x, rnd x == x.

  Lemma dot_spec a b : dot rnd a b == vx a * vx b + vy a * vy b + vz a * vz b.
  Proof. unfold dot. apply rnd_id. Qed.

  Lemma dot3 a b c x y z : dot rnd (V3 a b c) (V3 x y z) == a * x + b * y + c * z.
  Proof. apply dot_spec. Qed.

  Lemma mapply_mmul A B v : veq (mapply rnd (mmul rnd A B) v) (mapply rnd A (mapply rnd B v)).
  Proof.
    destruct A as [[a00 a01 a02] [a10 a11 a12] [a20 a21 a22]].
    destruct B as [[b00 b01 b02] [b10 b11 b12] [b20 b21 b22]]. destruct v as [x y z].
    unfold veq, mmul, mtrans, mcol, mapply; cbn [r0 r1 r2 vx vy vz vnth].
    repeat split; rewrite !dot3; ring.
  Qed.

  Lemma mapply_mid v : veq (mapply rnd mid v) v.
  Proof. destruct v as [x y z]. unfold veq, mapply, mid; cbn [r0 r1 r2 vx vy vz]. repeat split; rewrite dot3; ring. Qed.

  Lemma mapply_veq M u v : veq u v -> veq (mapply rnd M u) (mapply rnd M v).
  Proof.
    intros (H0 & H1 & H2). unfold veq, mapply; cbn [vx vy vz]. repeat split; rewrite !dot_spec, H0, H1, H2; reflexivity.
  Qed.

  Lemma veq_trans a b c : veq a b -> veq b c -> veq a c.
  Proof. intros (A0 & A1 & A2) (B0 & B1 & B2). repeat split; etransitivity; eauto. Qed.

  (* later rotations are applied after earlier ones: the accumulated matrix of a clear-free history acts
     on a vector like the steps applied one after the other *)
  (* the accepted rotations of a history applied to a vector one after the other (refused calls skipped) *)
  Fixpoint apply_steps (ops : list op) (v : vec3) : vec3 :=
    match ops with
    | [] => v
    | ORot M nopt :: t => apply_steps t (if op_accepted (ORot M nopt) then mapply rnd M v else v)
    | OClear :: t => apply_steps t v
    | ORefused :: t => apply_steps t v
    end.
  (* histories of rotate() calls, accepted or refused, without clear_rotation *)
  Fixpoint no_clear (ops : list op) : Prop :=
    match ops with [] => True | ORot _ _ :: t => no_clear t | OClear :: _ => False | ORefused :: t => no_clear t end.

  Lemma apply_steps_veq ops : forall u w, veq u w -> veq (apply_steps ops u) (apply_steps ops w).
  Proof.
    induction ops as [|o t IH]; intros u w E; [exact E|].
    destruct o as [M nopt| |]; cbn [apply_steps]; try (apply IH; exact E).
    destruct (op_accepted (ORot M nopt)); apply IH; [apply mapply_veq, E|exact E].
  Qed.

  Lemma acc_rot_acts ops : no_clear ops -> forall A v,
    veq (mapply rnd (acc_rot rnd A ops) v) (apply_steps ops (mapply rnd A v)).
  Proof.
    induction ops as [|o t IH]; intros NC A v.
    - repeat split; reflexivity.
    - destruct o as [M nopt| |]; [|destruct NC|]; cbn [acc_rot apply_steps].
      + destruct (op_accepted (ORot M nopt)).
        * eapply veq_trans; [apply IH, NC|]. apply apply_steps_veq, mapply_mmul.
        * apply IH, NC.
      + apply IH, NC.
  Qed.

  Lemma compose_in_order ops : no_clear ops -> forall v,
    veq (mapply rnd (acc_rot rnd mid ops) v) (apply_steps ops v).
  Proof.
    intros NC v. eapply veq_trans; [apply acc_rot_acts, NC|]. apply apply_steps_veq, mapply_mid.
  Qed.
End Exact.
