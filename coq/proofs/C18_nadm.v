(* C18: the relation n_adm1 (the checker's test of the default resolution) is the code's
   round(E / (L * cbrt(dV/vol))) formula stated without the cube root. *)
From DF Require Import Prelude Rotator QLemmas C18_bracket.
Open Scope Q_scope.

From Coq Require Import Morphisms.
Global Instance cube_proper : Proper (Qeq ==> Qeq) cube.
Proof. intros x y H. unfold cube. rewrite H. reflexivity. Qed.

Lemma cube_le x y : 0 <= x -> x <= y -> cube x <= cube y.
Proof. intros Hx Hxy. unfold cube. assert (x * x <= y * y) by nra. nra. Qed.

Lemma cube_lt x y : 0 <= x -> x < y -> cube x < cube y.
Proof. intros Hx Hxy. unfold cube. assert (x * x < y * y) by nra. assert (0 < y * y) by nra. nra. Qed.

Lemma cube_le_iff x y : 0 <= x -> 0 <= y -> (cube x <= cube y <-> x <= y).
Proof.
  intros Hx Hy. split; [|apply cube_le; exact Hx].
  intro H. destruct (Qlt_le_dec y x) as [C|C]; [|exact C].
  pose proof (cube_lt y x Hy C). lra.
Qed.

Lemma cube_mult x y : cube (x * y) == cube x * cube y.
Proof. unfold cube. ring. Qed.

Lemma cube_nonneg x : 0 <= x -> 0 <= cube x.
Proof. intro H. unfold cube. assert (0 <= x * x) by nra. nra. Qed.

(* exact form: whenever the cube root a of dV/vol is rational (cubic cells under a lattice rotation: a = 1)
   the relation says that n is a nearest integer of E / (L a), up to the slack *)
Theorem n_adm1_iff slack a dV vol E L n :
  0 <= slack -> 0 < a -> cube a * vol == dV -> 0 < vol -> 0 < L -> 0 <= E -> 0 <= qnat n - (1 # 2) - slack ->
  (n_adm1 slack dV vol E L n = true <->
   (1 <= n)%nat /\ qnat n - (1 # 2) - slack <= E / (L * a) /\ E / (L * a) <= qnat n + (1 # 2) + slack).
Proof.
  intros Hs Ha Hroot Hvol HL HE Hlo.
  assert (Hu : 0 < L * a) by nra.
  set (u := L * a) in *. set (w := E / u).
  assert (Ew : E == w * u) by (unfold w; field; lra).
  assert (Hw : 0 <= w).
  { unfold w. destruct (Qlt_le_dec 0 E) as [P|P]; [apply Qlt_le_weak, Qdiv_pos; assumption|].
    assert (E0 : E == 0) by lra. rewrite E0. unfold Qdiv. rewrite Qmult_0_l. apply Qle_refl. }
  unfold n_adm1. cbv zeta. rewrite !andb_true_iff, !Qle_bool_iff, Nat.leb_le.
  set (lo := qnat n - (1 # 2) - slack) in *. set (hi := qnat n + (1 # 2) + slack).
  assert (Hhi : 0 <= hi) by (unfold hi, lo in *; lra).
  assert (K1 : cube (lo * L) * dV == cube (lo * u) * vol).
  { rewrite <- Hroot. unfold u. rewrite !cube_mult. ring. }
  assert (K2 : cube (hi * L) * dV == cube (hi * u) * vol).
  { rewrite <- Hroot. unfold u. rewrite !cube_mult. ring. }
  assert (K3 : cube E * vol == cube (w * u) * vol) by (rewrite Ew at 1; reflexivity).
  rewrite K1, K2, K3.
  assert (M1 : cube (lo * u) * vol <= cube (w * u) * vol <-> lo <= w).
  { split; intro H.
    - assert (H' : cube (lo * u) <= cube (w * u)).
      { set (X := cube (lo * u)) in *. set (Y := cube (w * u)) in *. nra. }
      apply (Qmult_le_r _ _ u Hu). refine (proj1 (cube_le_iff _ _ _ _) H'); apply Qmult_le_0_compat; lra.
    - assert (H' : cube (lo * u) <= cube (w * u)) by (apply cube_le; [apply Qmult_le_0_compat; lra | apply (Qmult_le_r _ _ u Hu); assumption]).
      set (X := cube (lo * u)) in *. set (Y := cube (w * u)) in *. nra. }
  assert (M2 : cube (w * u) * vol <= cube (hi * u) * vol <-> w <= hi).
  { split; intro H.
    - assert (H' : cube (w * u) <= cube (hi * u)).
      { set (X := cube (w * u)) in *. set (Y := cube (hi * u)) in *. nra. }
      apply (Qmult_le_r _ _ u Hu). refine (proj1 (cube_le_iff _ _ _ _) H'); apply Qmult_le_0_compat; lra.
    - assert (H' : cube (w * u) <= cube (hi * u)) by (apply cube_le; [apply Qmult_le_0_compat; lra | apply (Qmult_le_r _ _ u Hu); assumption]).
      set (X := cube (w * u)) in *. set (Y := cube (hi * u)) in *. nra. }
  rewrite M1, M2. tauto.
Qed.

(* general form (irrational cube root): the admitted n is consistent with every rational bracket
   a1 <= cbrt(dV/vol) <= a2 of the cube root:  (n - 1/2) L a1 <= E <= (n + 1/2) L a2 *)
Theorem n_adm1_brackets dV vol E L n :
  0 < vol -> 0 < L -> 0 <= E -> 0 <= dV -> n_adm1 0 dV vol E L n = true ->
  (forall a1, 0 < a1 -> cube a1 * vol <= dV -> (qnat n - (1 # 2)) * L * a1 <= E) /\
  (forall a2, 0 < a2 -> dV <= cube a2 * vol -> E <= (qnat n + (1 # 2)) * L * a2).
Proof.
  intros Hvol HL HE HdV H. unfold n_adm1 in H. cbv zeta in H.
  rewrite !andb_true_iff, !Qle_bool_iff, Nat.leb_le in H. destruct H as ((Hn & H1) & H2).
  assert (Hq : 1 <= qnat n).
  { unfold qnat. change 1 with (inject_Z 1). rewrite <- Zle_Qle. lia. }
  assert (Z1 : qnat n - (1 # 2) - 0 == qnat n - (1 # 2)) by ring.
  assert (Z2 : qnat n + (1 # 2) + 0 == qnat n + (1 # 2)) by ring.
  rewrite Z1 in H1. rewrite Z2 in H2. clear Z1 Z2.
  set (lo := qnat n - (1 # 2)) in *. set (hi := qnat n + (1 # 2)) in *.
  assert (Hlo : 0 <= lo) by (unfold lo; lra). assert (Hhi : 0 <= hi) by (unfold hi; lra).
  split.
  - intros a1 Ha Hr.
    apply (cube_le_iff (lo * L * a1) E); [repeat apply Qmult_le_0_compat; lra|exact HE|].
    assert (C : 0 <= cube (lo * L)) by (apply cube_nonneg; apply Qmult_le_0_compat; lra).
    assert (S1 : cube (lo * L * a1) * vol <= cube E * vol).
    { rewrite cube_mult. assert (cube (lo * L) * (cube a1 * vol) <= cube (lo * L) * dV) by nra. nra. }
    assert (0 <= cube E) by (apply cube_nonneg; exact HE).
    set (X := cube (lo * L * a1)) in *. set (Y := cube E) in *. nra.
  - intros a2 Ha Hr.
    apply (cube_le_iff E (hi * L * a2)); [exact HE|repeat apply Qmult_le_0_compat; lra|].
    assert (C : 0 <= cube (hi * L)) by (apply cube_nonneg; apply Qmult_le_0_compat; lra).
    assert (S1 : cube E * vol <= cube (hi * L * a2) * vol).
    { rewrite cube_mult. assert (cube (hi * L) * dV <= cube (hi * L) * (cube a2 * vol)) by nra. nra. }
    set (X := cube (hi * L * a2)) in *. set (Y := cube E) in *. nra.
Qed.
