(* C18: a target centre that back-rotates exactly onto a source cell centre carries that cell's
   (rotated) value; quarter turns about a coordinate axis therefore coincide with the lattice rotation
   of C12 (numpy.rot90 index map and 2x2 component rotation of model/Rotate90.v). *)
From DF Require Import Prelude Rotator ListLemmas QLemmas C18_machine C18_geom C18_field C18_bracket.
Open Scope Q_scope.

Lemma qnat_lt a b : (a < b)%nat -> qnat a < qnat b.
Proof. intro H. unfold qnat. rewrite <- Zlt_Qlt. lia. Qed.

Lemma cpt_mono lo hi n a b : lo < hi -> (1 <= n)%nat -> (a < b)%nat -> cpt lo hi n a < cpt lo hi n b.
Proof.
  intros H Hn Hab. rewrite !cpt_alt.
  assert (Hc : 0 < (hi - lo) / qnat n) by (apply Qdiv_pos; [lra|apply qnat_pos; exact Hn]).
  pose proof (qnat_lt a b Hab). set (c := (hi - lo) / qnat n) in *. nra.
Qed.

Section Exact.
  Variable rnd : Q -> Q.
  Hypothesis rnd_id : forall x, rnd x == x.

  (* 1-d: exactly on the centre of cell a *)
  Lemma locate_at_centre lo hi ctr n a x : lo < hi -> (a < n)%nat -> x == cpt lo hi n a - ctr ->
    let g := grid1 rnd lo hi ctr n in
    fst (locate rnd g x) = a /\ snd (locate rnd g x) == 1 /\ pad1 n (S a) = a /\ inb1 g x = true.
  Proof.
    intros Hlh Ha Hx g.
    assert (Hn : (1 <= n)%nat) by lia.
    assert (Hq : 0 < qnat n) by (apply qnat_pos; exact Hn).
    assert (Hc : 0 < (hi - lo) / qnat n) by (apply Qdiv_pos; lra).
    destruct (count_lt_spec x g) as (L & P & U). set (m := count_lt x g) in *.
    assert (Lg : length g = S (S n)) by apply grid1_length.
    assert (G0 : nth 0 g 0 == lo - (hi - lo) / qnat n * rgi_tol - ctr) by (apply grid1_nth0; exact rnd_id).
    assert (GC : forall a, (a < n)%nat -> nth (S a) g 0 == cpt lo hi n a - ctr) by (intros; apply grid1_centre; assumption).
    assert (C0 : lo < cpt lo hi n 0).
    { rewrite cpt_alt. set (c := (hi - lo) / qnat n) in *. assert (Hh : c / 2 + c / 2 == c) by field.
      set (h := c / 2) in *. unfold qnat; cbn [Z.of_nat]. change (inject_Z 0) with 0. lra. }
    assert (Ca : cpt lo hi n 0 <= cpt lo hi n a).
    { destruct a; [lra|]. apply Qlt_le_weak. apply cpt_mono; [exact Hlh|exact Hn|lia]. }
    assert (Tol : 0 < (hi - lo) / qnat n * rgi_tol) by (unfold rgi_tol; nra).
    assert (Em : m = S a).
    { destruct (lt_eq_lt_dec m (S a)) as [[Hlt|E]|Hgt]; [exfalso| exact E | exfalso].
      - assert (Hm : (m < length g)%nat) by lia. specialize (U Hm).
        destruct m as [|m']; [rewrite G0 in U; lra|].
        rewrite (GC m') in U by lia.
        assert (cpt lo hi n m' < cpt lo hi n a) by (apply cpt_mono; [exact Hlh|exact Hn|lia]). lra.
      - assert (Hp : nth (S a) g 0 < x) by (apply P; exact Hgt). rewrite (GC a Ha) in Hp. lra. }
    split; [|split; [|split]].
    - unfold locate; cbn [fst]. fold m. rewrite Lg, Em. lia.
    - unfold locate; cbn [snd]. fold m. rewrite Lg, Em.
      replace (Nat.min (S a - 1) (S (S n) - 2)) with a by lia. rewrite rnd_id. fold g.
      rewrite (GC a Ha), Hx.
      assert (D : ~ cpt lo hi n a - ctr - nth a g 0 == 0).
      { destruct a as [|a']; [rewrite G0; lra|]. rewrite (GC a') by lia.
        assert (cpt lo hi n a' < cpt lo hi n (S a')) by (apply cpt_mono; [exact Hlh|exact Hn|lia]). lra. }
      field. exact D.
    - unfold pad1. lia.
    - unfold inb1. apply andb_true_iff. split; apply Qle_bool_iff.
      + unfold g. rewrite grid1_hd by exact rnd_id. lra.
      + unfold g. rewrite grid1_last by exact rnd_id.
        assert (Cn : cpt lo hi n a < hi).
        { assert (E : cpt lo hi n a <= cpt lo hi n (n - 1)).
          { destruct (Nat.eq_dec a (n - 1)) as [->|NE]; [lra|]. apply Qlt_le_weak, cpt_mono; [exact Hlh|exact Hn|lia]. }
          destruct n as [|n']; [lia|]. replace (S n' - 1)%nat with n' in E by lia. rewrite (cpt_alt lo hi (S n') n') in E.
          set (c := (hi - lo) / qnat (S n')) in *. assert (Hh : c / 2 + c / 2 == c) by field.
          assert (Hnc : qnat (S n') * c == hi - lo) by (unfold c; field; lra).
          rewrite qnat_S in Hnc. set (h := c / 2) in *. nra. }
        lra.
  Qed.

  (* three axes: on the centre of cell (a,b,d) the interpolator returns that cell's value *)
  Theorem interp_at_node orig (A : arr) p a b d : wf_fld orig ->
    let lo := f_pmin orig in let hi := f_pmax orig in let n := f_n orig in let ctr := centre orig in
    let g := grids rnd orig in
    (a < n0 n)%nat -> (b < n1 n)%nat -> (d < n2 n)%nat ->
    vx p == cpt (vx lo) (vx hi) (n0 n) a - vx ctr ->
    vy p == cpt (vy lo) (vy hi) (n1 n) b - vy ctr ->
    vz p == cpt (vz lo) (vz hi) (n2 n) d - vz ctr ->
    forall e, interp_at rnd (fst (fst g)) (snd (fst g)) (snd g) n A p e == A a b d e.
  Proof.
    intros (Wx & Wy & Wz & Nx & Ny & Nz) lo hi n ctr g Ha Hb Hd Px Py Pz e.
    destruct (locate_at_centre (vx lo) (vx hi) (vx ctr) (n0 n) a (vx p) Wx Ha Px) as (Fx & Sx & Px1 & Bnx).
    destruct (locate_at_centre (vy lo) (vy hi) (vy ctr) (n1 n) b (vy p) Wy Hb Py) as (Fy & Sy & Py1 & Bny).
    destruct (locate_at_centre (vz lo) (vz hi) (vz ctr) (n2 n) d (vz p) Wz Hd Pz) as (Fz & Sz & Pz1 & Bnz).
    unfold g, grids. cbn [fst snd]. fold lo hi n ctr.
    unfold interp_at. rewrite Bnx, Bny, Bnz. cbn [andb].
    destruct (locate rnd (grid1 rnd (vx lo) (vx hi) (vx ctr) (n0 n)) (vx p)) as [i sx].
    destruct (locate rnd (grid1 rnd (vy lo) (vy hi) (vy ctr) (n1 n)) (vy p)) as [j sy].
    destruct (locate rnd (grid1 rnd (vz lo) (vz hi) (vz ctr) (n2 n)) (vz p)) as [k sz].
    cbn [fst snd] in Fx, Fy, Fz, Sx, Sy, Sz. subst i j k.
    rewrite (interp3_spec rnd rnd_id). unfold padded. rewrite Px1, Py1, Pz1, Sx, Sy, Sz. ring.
  Qed.

  (* a target cell whose centre back-rotates onto the centre of source cell (a,b,d) carries R^ applied to
     that cell's vector (scalar: the cell's value) *)
  Theorem rotated_cell_on_node perm orig R n' i j k a b d : wf_fld orig ->
    let lo := f_pmin orig in let hi := f_pmax orig in let n := f_n orig in let ctr := centre orig in
    let p := back_pos rnd orig R n' i j k in
    (a < n0 n)%nat -> (b < n1 n)%nat -> (d < n2 n)%nat ->
    vx p == cpt (vx lo) (vx hi) (n0 n) a - vx ctr ->
    vy p == cpt (vy lo) (vy hi) (n1 n) b - vy ctr ->
    vz p == cpt (vz lo) (vz hi) (n2 n) d - vz ctr ->
    (forall c, (c < 3)%nat -> rotated_val rnd 3 perm orig R n' i j k c == rot_comp rnd R perm (f_val orig a b d) c) /\
    rotated_val rnd 1 perm orig R n' i j k 0%nat == f_val orig a b d 0%nat.
  Proof.
    intros W lo hi n ctr p Ha Hb Hd Px Py Pz.
    pose proof (interp_at_node orig (f_val orig) p a b d W Ha Hb Hd Px Py Pz) as H.
    destruct W as (_ & _ & _ & Nx & Ny & Nz). split.
    - intros c Hc. rewrite (rotated_val_spec rnd rnd_id perm orig R n' i j k c Nx Ny Nz Hc).
      apply (rot_comp_ext rnd rnd_id). intro e. apply H.
    - rewrite (rotated_val_scalar rnd rnd_id perm orig R n' i j k Nx Ny Nz). apply H.
  Qed.
End Exact.

(* ---------- explicit components of the new region and of the back-rotated centre ---------- *)
Section Comps.
  Variable rnd : Q -> Q.
  Hypothesis rnd_id : forall x, rnd x == x.

  Lemma absdot_spec r e : absdot rnd r e == absrow r e.
  Proof. unfold absdot. apply rnd_id. Qed.

  Lemma new_box R f :
    (vx (new_pmin rnd R f) == vx (centre f) - (1 # 2) * absrow (r0 R) (edges f) /\
     vy (new_pmin rnd R f) == vy (centre f) - (1 # 2) * absrow (r1 R) (edges f) /\
     vz (new_pmin rnd R f) == vz (centre f) - (1 # 2) * absrow (r2 R) (edges f)) /\
    (vx (new_pmax rnd R f) == vx (centre f) + (1 # 2) * absrow (r0 R) (edges f) /\
     vy (new_pmax rnd R f) == vy (centre f) + (1 # 2) * absrow (r1 R) (edges f) /\
     vz (new_pmax rnd R f) == vz (centre f) + (1 # 2) * absrow (r2 R) (edges f)).
  Proof.
    unfold new_pmin, new_pmax, new_half, mabs_apply, vrnd, vsub, vadd, vmap2, vscale; cbn [vx vy vz].
    repeat split; rewrite rnd_id, absdot_spec; reflexivity.
  Qed.

  (* centre of target cell idx of an axis whose new extent is [c - H, c + H], relative to c *)
  Lemma cpt_rel c H lo' hi' n idx : lo' == c - H -> hi' == c + H ->
    cpt lo' hi' n idx - c == (qnat idx + (1 # 2)) * (2 * H / qnat n) - H.
  Proof. intros E1 E2. unfold cpt. rewrite E1, E2. unfold Qdiv. ring. Qed.

  Lemma back_pos_comps orig R n' i j k :
    let lo' := new_pmin rnd R orig in let hi' := new_pmax rnd R orig in let c := centre orig in
    let Y0 := cpt (vx lo') (vx hi') (n0 n') i - vx c in
    let Y1 := cpt (vy lo') (vy hi') (n1 n') j - vy c in
    let Y2 := cpt (vz lo') (vz hi') (n2 n') k - vz c in
    let p := back_pos rnd orig R n' i j k in
    vx p == vx (r0 R) * Y0 + vx (r1 R) * Y1 + vx (r2 R) * Y2 /\
    vy p == vy (r0 R) * Y0 + vy (r1 R) * Y1 + vy (r2 R) * Y2 /\
    vz p == vz (r0 R) * Y0 + vz (r1 R) * Y1 + vz (r2 R) * Y2.
  Proof.
    intros lo' hi' c Y0 Y1 Y2 p. unfold p, back_pos, back_pos_at, mapply, mtrans, mcol, vrnd, vsub, vmap2.
    cbn [r0 r1 r2 vx vy vz vnth]. rewrite !(dot_spec rnd rnd_id). cbn [vx vy vz]. rewrite !rnd_id.
    repeat split; reflexivity.
  Qed.
End Comps.
