(* C18: soundness of check_C18 - an accepted case certifies that the OBSERVED output of
   FieldRotator (refusal verdict; region, resolution and values after a history of rotate /
   clear_rotation calls) is the model's value on the recorded inputs: literally after a clear,
   within rel_tol of the coordinate / value scale after a rotation (the model being evaluated with
   the checker's hook rnd = rnd_bits 44), so the C18 theorems that hold for every hook apply to the
   observation itself. *)
From DF Require Import Prelude Rotator ListLemmas CheckSound Check_C18 C18_machine C18_geom C18_field C18_nadm.
Open Scope Q_scope.

Ltac split_andb :=
  repeat match goal with
         | H : _ && _ = true |- _ => apply andb_true_iff in H; destruct H
         end.

(* ---------- the comparison combinators ---------- *)
Definition vwithin (tol : Q) (a b : vec3) : Prop :=
  Qabs (vx a - vx b) <= tol /\ Qabs (vy a - vy b) <= tol /\ Qabs (vz a - vz b) <= tol.

Lemma vclose_sound tol a b : vclose tol a b = true -> vwithin tol a b.
Proof. unfold vclose, vwithin. intro H. split_andb. repeat split; apply Qle_bool_imp_le; assumption. Qed.

Lemma veqb_sound a b : veqb a b = true -> veq a b.
Proof. unfold veqb, veq. intro H. split_andb. repeat split; apply Qeq_bool_eq; assumption. Qed.

Lemma n3_eqb_sound a b : n3_eqb a b = true -> a = b.
Proof.
  unfold n3_eqb. destruct a as [a0 a1 a2], b as [b0 b1 b2]. cbn [n0 n1 n2]. intro H. split_andb.
  repeat match goal with E : (_ =? _)%nat = true |- _ => apply Nat.eqb_eq in E end. subst. reflexivity.
Qed.

Lemma close_to_sound tol a b : close_to tol a b = true -> Qabs (a - b) <= tol.
Proof. unfold close_to. apply Qle_bool_imp_le. Qed.

Lemma in_iota_lt n : forall k a, (k <= a < k + n)%nat -> In a (iota k n).
Proof.
  induction n as [|n IH]; intros k a H; [lia|]. cbn [iota].
  destruct (Nat.eq_dec k a) as [->|Hne]; [left; reflexivity|right; apply IH; lia].
Qed.

(* ---------- refusal ---------- *)
Lemma check_refuse_sound nvdim ndim mapping accepted :
  check_C18 (CRefuse nvdim ndim mapping accepted) = true ->
  accepted = rotator_accepts nvdim ndim mapping.
Proof. cbn [check_C18]. intro H. symmetry. apply Bool.eqb_prop. exact H. Qed.

(* transfer (C18_refuse): the OBSERVED verdict of the constructor / rotate() is "accepted" exactly for a
   3-d mesh carrying a scalar or a fully and surjectively mapped 3-vector *)
Theorem accepted_refuse_iff nvdim ndim mapping accepted :
  check_C18 (CRefuse nvdim ndim mapping accepted) = true ->
  (accepted = true <->
   ndim = 3%nat /\
   (nvdim = 1%nat \/
    (nvdim = 3%nat /\ (forall m, In m mapping -> m <> None) /\ exists perm, ordered_idx mapping = Some perm))).
Proof. intro H. apply check_refuse_sound in H. rewrite H. apply accepts_iff. Qed.

(* ---------- the state machine seen through last_rot ---------- *)
Section M.
  Variable rnd : Q -> Q.
  Variable nv : nat.
  Variable perm : list nat.
  Variable orig : fld.
  Variable choose_n : mat3 -> n3.

  Notation run' := (run rnd nv perm orig choose_n).
  Notation step' := (step rnd nv perm orig choose_n).

  Definition n_of (nopt : option n3) (R : mat3) : n3 := match nopt with Some n => n | None => choose_n R end.

  (* no accepted rotation since the last clear: the state is the initial one *)
  Lemma last_rot_none ops : forall cur s, (cur = None -> s = St mid orig) ->
    last_rot ops cur = None -> fold_left step' ops s = St mid orig.
  Proof.
    induction ops as [|o t IH]; intros cur s Hs H.
    - cbn [last_rot] in H. cbn [fold_left]. auto.
    - destruct o as [M nopt| |]; cbn [last_rot] in H; cbn [fold_left].
      + destruct (op_accepted (ORot M nopt)) eqn:A.
        * eapply IH; [|exact H]. discriminate.
        * rewrite (refused_step_identity rnd nv perm orig choose_n s _ A). eapply IH; eassumption.
      + eapply IH; [|exact H]. intros _. reflexivity.
      + rewrite (refused_step_identity rnd nv perm orig choose_n s ORefused eq_refl). eapply IH; eassumption.
  Qed.

  (* the last accepted rotation since the last clear determines the field: F(orig, accumulated matrix) at
     that call's resolution *)
  Lemma last_rot_some ops : forall cur s nopt,
    (forall no, cur = Some no -> st_field s = rotated_field rnd nv perm orig (st_rot s) (n_of no (st_rot s))) ->
    last_rot ops cur = Some nopt ->
    st_field (fold_left step' ops s)
    = rotated_field rnd nv perm orig (st_rot (fold_left step' ops s)) (n_of nopt (st_rot (fold_left step' ops s))).
  Proof.
    induction ops as [|o t IH]; intros cur s nopt Hs H.
    - cbn [last_rot] in H. cbn [fold_left]. auto.
    - destruct o as [M nopt0| |]; cbn [last_rot] in H; cbn [fold_left].
      + destruct (op_accepted (ORot M nopt0)) eqn:A.
        * eapply IH; [|exact H]. intros no E. injection E as <-.
          unfold step. rewrite A. reflexivity.
        * rewrite (refused_step_identity rnd nv perm orig choose_n s _ A). eapply IH; eassumption.
      + eapply IH; [|exact H]. discriminate.
      + rewrite (refused_step_identity rnd nv perm orig choose_n s ORefused eq_refl). eapply IH; eassumption.
  Qed.

  Lemma run_cleared ops : last_rot ops None = None -> run' ops = St mid orig.
  Proof. intro H. unfold run. eapply last_rot_none; [|exact H]. reflexivity. Qed.

  Lemma run_rotated ops nopt : last_rot ops None = Some nopt ->
    let R := acc_rot rnd mid ops in
    run' ops = St R (rotated_field rnd nv perm orig R (n_of nopt R)).
  Proof.
    intros H R.
    pose proof (last_rot_some ops None (init orig) nopt ltac:(discriminate) H) as E.
    fold (run' ops) in E. rewrite (run_rot rnd nv perm orig choose_n ops) in E. fold R in E.
    pose proof (run_rot rnd nv perm orig choose_n ops) as E2. fold R in E2.
    destruct (run' ops) as [r f]. cbn [st_rot st_field] in *. subst. reflexivity.
  Qed.

  (* a history ending with clear_rotation / with an accepted rotation *)
  Lemma last_rot_app ops1 ops2 cur : last_rot (ops1 ++ ops2) cur = last_rot ops2 (last_rot ops1 cur).
  Proof. revert cur. induction ops1 as [|o t IH]; intro cur; [reflexivity|]. destruct o; cbn [app last_rot]; apply IH. Qed.

  Lemma last_rot_clear ops : last_rot (ops ++ [OClear]) None = None.
  Proof. rewrite last_rot_app. reflexivity. Qed.

  Lemma last_rot_rot ops M nopt : op_accepted (ORot M nopt) = true -> last_rot (ops ++ [ORot M nopt]) None = Some nopt.
  Proof. intro A. rewrite last_rot_app. cbn [last_rot]. rewrite A. reflexivity. Qed.
End M.

(* ---------- the recorded input and what the value comparison certifies ---------- *)
Definition orig_of (pmin pmax : vec3) (n : n3) (nv : nat) (vals : list Q) : fld :=
  Fld pmin pmax n (arr_of_list n nv vals).
Definition cscale_of (pmin pmax : vec3) : Q :=
  Qmax (Qmax (vmax3 pmin) (vmax3 pmax)) (vmax3 (vsub pmax pmin)).
Definition vscale_of (vals : list Q) : Q := fold_right (fun x m => Qmax (Qabs x) m) 0 vals.

(* the back-rotated centre lies within 1e-6 cell of a face of the interpolator's box *)
Definition in_band (orig : fld) (p : vec3) : bool :=
  let g := grids rnd orig in let c := cellv orig in
  near_edge (fst (fst g)) (vx c) (vx p) || near_edge (snd (fst g)) (vy c) (vy p) || near_edge (snd g) (vz c) (vz p).
Definition clamped (orig : fld) (p : vec3) : vec3 :=
  let g := grids rnd orig in
  V3 (clamp1 (fst (fst g)) (vx p)) (clamp1 (snd (fst g)) (vy p)) (clamp1 (snd g) (vz p)).
(* the model's interpolant of the (rotated) source values at an arbitrary point *)
Definition model_at (nv : nat) (perm : list nat) (orig : fld) (R : mat3) (p : vec3) : nat -> Q :=
  let g := grids rnd orig in
  interp_at rnd (fst (fst g)) (snd (fst g)) (snd g) (f_n orig)
            (memo4 (f_n orig) nv (rot_arr rnd nv R perm (f_val orig))) p.

Lemma model_at_back_pos nv perm orig R n' i j k :
  model_at nv perm orig R (back_pos rnd orig R n' i j k) = rotated_val rnd nv perm orig R n' i j k.
Proof. reflexivity. Qed.

(* observed entry o of cell (i,j,k), component c: within vtol of the model's value, or - only when the
   back-rotated centre is in the band - within vtol of the zero fill or of the value at the clamped point *)
Definition cell_rel (nv : nat) (perm : list nat) (orig : fld) (R : mat3) (n' : n3) (vtol : Q)
           (i j k c : nat) (o : Q) : Prop :=
  let p := back_pos rnd orig R n' i j k in
  Qabs (rotated_val rnd nv perm orig R n' i j k c - o) <= vtol \/
  (in_band orig p = true /\
   (Qabs (0 - o) <= vtol \/ Qabs (model_at nv perm orig R (clamped orig p) c - o) <= vtol)).

Lemma check_vals_sound nv perm orig R n' obs vtol :
  check_vals nv perm orig R n' obs vtol = true ->
  forall i j k c, (i < n0 n')%nat -> (j < n1 n')%nat -> (k < n2 n')%nat -> (c < nv)%nat ->
  cell_rel nv perm orig R n' vtol i j k c (obs i j k c).
Proof.
  unfold check_vals. cbv zeta. intros H i j k c Hi Hj Hk Hc.
  rewrite forallb_forall in H. specialize (H i (in_iota_lt (n0 n') 0 i ltac:(lia))).
  rewrite forallb_forall in H. specialize (H j (in_iota_lt (n1 n') 0 j ltac:(lia))).
  rewrite forallb_forall in H. specialize (H k (in_iota_lt (n2 n') 0 k ltac:(lia))).
  rewrite forallb_forall in H. specialize (H c (in_iota_lt nv 0 c ltac:(lia))).
  unfold cell_rel. cbv zeta.
  apply orb_true_iff in H. destruct H as [H|H].
  - left. exact (close_to_sound _ _ _ H).
  - right. apply andb_true_iff in H. destruct H as [Hb H].
    split; [exact Hb|].
    rewrite Hb in H.
    apply orb_true_iff in H. destruct H as [H|H]; [left|right]; exact (close_to_sound _ _ _ H).
Qed.

(* ---------- CRot, no rotation since the last clear: the observed field IS the original ---------- *)
Lemma check_cleared_sound pmin pmax n nv perm vals ops obs_n obs_pmin obs_pmax obs_vals :
  check_C18 (CRot pmin pmax n nv perm vals ops obs_n obs_pmin obs_pmax obs_vals) = true ->
  last_rot ops None = None ->
  length vals = (ncells n * nv)%nat /\ length obs_vals = (ncells obs_n * nv)%nat /\
  obs_n = n /\ veq pmin obs_pmin /\ veq pmax obs_pmax /\
  Forall2 Qeq (fld_list nv (orig_of pmin pmax n nv vals)) obs_vals.
Proof.
  intros H E. unfold check_C18 in H. cbv zeta in H. rewrite E in H.
  rewrite (run_cleared rnd nv perm _ (fun _ => obs_n) ops E) in H. cbn [st_field f_n f_pmin f_pmax] in H.
  split_andb.
  repeat match goal with E : (_ =? _)%nat = true |- _ => apply Nat.eqb_eq in E end.
  repeat split; try assumption.
  - symmetry. apply n3_eqb_sound. assumption.
  - apply (veqb_sound pmin obs_pmin). assumption.
  - apply (veqb_sound pmin obs_pmin). assumption.
  - apply (veqb_sound pmin obs_pmin). assumption.
  - apply (veqb_sound pmax obs_pmax). assumption.
  - apply (veqb_sound pmax obs_pmax). assumption.
  - apply (veqb_sound pmax obs_pmax). assumption.
  - apply qlist_eqb_sound_gen. assumption.
Qed.

(* ---------- CRot, a rotation since the last clear ---------- *)
(* the model state the checker compares with: accumulated matrix of the accepted calls, field
   F(original, that matrix) at the OBSERVED resolution *)
Lemma check_rotated_state pmin pmax n nv perm vals ops obs_n obs_pmin obs_pmax obs_vals nopt :
  check_C18 (CRot pmin pmax n nv perm vals ops obs_n obs_pmin obs_pmax obs_vals) = true ->
  last_rot ops None = Some nopt ->
  let orig := orig_of pmin pmax n nv vals in
  let R := acc_rot rnd mid ops in
  match nopt with Some ne => ne = obs_n | None => n_adm rnd n_slack R orig obs_n = true end /\
  run rnd nv perm orig (fun _ => obs_n) ops = St R (rotated_field rnd nv perm orig R obs_n).
Proof.
  intros H E orig R. unfold check_C18 in H. cbv zeta in H. rewrite E in H.
  pose proof (run_rotated rnd nv perm orig (fun _ => obs_n) ops nopt E) as Er. cbv zeta in Er. fold R in Er.
  fold (orig_of pmin pmax n nv vals) in H. fold orig in H. rewrite Er in H. cbn [st_rot st_field] in H.
  split_andb.
  destruct nopt as [ne|].
  - match goal with Hn : n3_eqb ne obs_n = true |- _ => apply n3_eqb_sound in Hn; subst ne end.
    split; [reflexivity|]. exact Er.
  - split; [assumption|]. exact Er.
Qed.

Lemma check_rotated_sound pmin pmax n nv perm vals ops obs_n obs_pmin obs_pmax obs_vals nopt :
  check_C18 (CRot pmin pmax n nv perm vals ops obs_n obs_pmin obs_pmax obs_vals) = true ->
  last_rot ops None = Some nopt ->
  let orig := orig_of pmin pmax n nv vals in
  let R := acc_rot rnd mid ops in
  length vals = (ncells n * nv)%nat /\ length obs_vals = (ncells obs_n * nv)%nat /\
  vwithin (rel_tol * cscale_of pmin pmax) (new_pmin rnd R orig) obs_pmin /\
  vwithin (rel_tol * cscale_of pmin pmax) (new_pmax rnd R orig) obs_pmax /\
  match nopt with Some ne => ne = obs_n | None => n_adm rnd n_slack R orig obs_n = true end /\
  forall i j k c, (i < n0 obs_n)%nat -> (j < n1 obs_n)%nat -> (k < n2 obs_n)%nat -> (c < nv)%nat ->
    cell_rel nv perm orig R obs_n (rel_tol * vscale_of vals) i j k c
             (arr_of_list obs_n nv obs_vals i j k c).
Proof.
  intros H E orig R.
  destruct (check_rotated_state _ _ _ _ _ _ _ _ _ _ _ nopt H E) as [Hn Er]. fold orig R in Hn, Er.
  unfold check_C18 in H. cbv zeta in H. rewrite E in H.
  fold (orig_of pmin pmax n nv vals) in H. fold orig in H. rewrite Er in H.
  cbn [st_rot st_field f_pmin f_pmax rotated_field] in H.
  split_andb.
  repeat match goal with E : (_ =? _)%nat = true |- _ => apply Nat.eqb_eq in E end.
  split; [assumption|]. split; [assumption|].
  split; [apply vclose_sound; assumption|]. split; [apply vclose_sound; assumption|].
  split; [exact Hn|].
  apply check_vals_sound. assumption.
Qed.

(* ---------- transfer theorems ---------- *)
(* C18_clear_restores on the observation: after any history ending with clear_rotation() the OBSERVED
   mesh is the original one (same n, same corner points) and the observed values are the original values *)
Theorem accepted_clear_restores pmin pmax n nv perm vals ops obs_n obs_pmin obs_pmax obs_vals :
  check_C18 (CRot pmin pmax n nv perm vals (ops ++ [OClear]) obs_n obs_pmin obs_pmax obs_vals) = true ->
  obs_n = n /\ veq pmin obs_pmin /\ veq pmax obs_pmax /\
  Forall2 Qeq (fld_list nv (orig_of pmin pmax n nv vals)) obs_vals.
Proof.
  intro H. unfold check_C18 in H. cbv zeta in H. rewrite (last_rot_clear ops) in H.
  rewrite (clear_restores rnd nv perm _ (fun _ => obs_n) ops) in H. cbn [st_field f_n f_pmin f_pmax] in H.
  split_andb.
  split; [symmetry; apply n3_eqb_sound; assumption|].
  split; [apply veqb_sound; assumption|]. split; [apply veqb_sound; assumption|].
  apply qlist_eqb_sound_gen. assumption.
Qed.

(* C18_compose / C18_left_multiplication on the observation: after a history ending with an accepted
   rotate(M) the observed region, resolution and values are those of F(original, M * accumulated matrix
   of the earlier accepted calls) - whatever the intermediate fields and resolutions were *)
Theorem accepted_compose pmin pmax n nv perm vals ops M nopt obs_n obs_pmin obs_pmax obs_vals :
  op_accepted (ORot M nopt) = true ->
  check_C18 (CRot pmin pmax n nv perm vals (ops ++ [ORot M nopt]) obs_n obs_pmin obs_pmax obs_vals) = true ->
  let orig := orig_of pmin pmax n nv vals in
  let R := mmul rnd M (acc_rot rnd mid ops) in
  run rnd nv perm orig (fun _ => obs_n) (ops ++ [ORot M nopt]) = St R (rotated_field rnd nv perm orig R obs_n) /\
  vwithin (rel_tol * cscale_of pmin pmax) (new_pmin rnd R orig) obs_pmin /\
  vwithin (rel_tol * cscale_of pmin pmax) (new_pmax rnd R orig) obs_pmax /\
  match nopt with Some ne => ne = obs_n | None => n_adm rnd n_slack R orig obs_n = true end /\
  forall i j k c, (i < n0 obs_n)%nat -> (j < n1 obs_n)%nat -> (k < n2 obs_n)%nat -> (c < nv)%nat ->
    cell_rel nv perm orig R obs_n (rel_tol * vscale_of vals) i j k c
             (arr_of_list obs_n nv obs_vals i j k c).
Proof.
  intros A H orig R.
  pose proof (last_rot_rot ops M nopt A) as E.
  pose proof (acc_rot_last rnd ops M nopt mid A) as ER. fold R in ER.
  destruct (check_rotated_sound _ _ _ _ _ _ _ _ _ _ _ nopt H E) as (_ & _ & H1 & H2 & H3 & H4).
  fold orig in H1, H2, H3, H4. rewrite ER in H1, H2, H3, H4.
  pose proof (run_field rnd nv perm orig (fun _ => obs_n) ops M nopt A) as Er. cbv zeta in Er. rewrite ER in Er.
  assert (En : match nopt with Some n1 => n1 | None => obs_n end = obs_n).
  { destruct nopt as [ne|]; [exact H3|reflexivity]. }
  rewrite En in Er.
  repeat split; try assumption; apply H1 || apply H2.
Qed.

Lemma Qabs_0_minus o : Qabs (0 - o) == Qabs o.
Proof. setoid_replace (0 - o) with (- o) by ring. apply Qabs_opp. Qed.

(* C18_outside_zero on the observation: an observed entry of a cell whose back-rotated centre lies outside
   the interpolator's box and not within the 1e-6-cell band of its faces is zero up to the value tolerance *)
Theorem accepted_outside_zero pmin pmax n nv perm vals ops obs_n obs_pmin obs_pmax obs_vals nopt i j k c :
  check_C18 (CRot pmin pmax n nv perm vals ops obs_n obs_pmin obs_pmax obs_vals) = true ->
  last_rot ops None = Some nopt ->
  let orig := orig_of pmin pmax n nv vals in
  let R := acc_rot rnd mid ops in
  let g := grids rnd orig in
  let p := back_pos rnd orig R obs_n i j k in
  (i < n0 obs_n)%nat -> (j < n1 obs_n)%nat -> (k < n2 obs_n)%nat -> (c < nv)%nat ->
  (vx p < hd 0 (fst (fst g)) \/ last (fst (fst g)) 0 < vx p) \/
  (vy p < hd 0 (snd (fst g)) \/ last (snd (fst g)) 0 < vy p) \/
  (vz p < hd 0 (snd g) \/ last (snd g) 0 < vz p) ->
  in_band orig p = false ->
  Qabs (arr_of_list obs_n nv obs_vals i j k c) <= rel_tol * vscale_of vals.
Proof.
  intros H E orig R g p Hi Hj Hk Hc Hout Hband.
  destruct (check_rotated_sound _ _ _ _ _ _ _ _ _ _ _ nopt H E) as (_ & _ & _ & _ & _ & H4).
  specialize (H4 i j k c Hi Hj Hk Hc). fold orig R in H4. unfold cell_rel in H4. cbv zeta in H4.
  fold p in H4. destruct H4 as [H4|[Hb _]]; [|rewrite Hband in Hb; discriminate].
  unfold rotated_val in H4. cbv zeta in H4. fold g p in H4.
  rewrite (outside_zero rnd (fst (fst g)) (snd (fst g)) (snd g) _ _ p c Hout) in H4.
  rewrite Qabs_0_minus in H4. exact H4.
Qed.

(* C18_refused_steps_erasable on the checker: the verdict on an observation does not change when the
   refused calls are erased from the recorded history (so an accepted observation after a history with
   refused calls IS an accepted observation of the history of the accepted calls) *)
Lemma last_rot_erasable ops : forall cur, last_rot ops cur = last_rot (filter op_accepted ops) cur.
Proof.
  induction ops as [|o t IH]; intro cur; [reflexivity|].
  destruct o as [M nopt| |]; cbn [filter].
  - destruct (op_accepted (ORot M nopt)) eqn:A; cbn [last_rot]; rewrite ?A; apply IH.
  - cbn [op_accepted last_rot]. apply IH.
  - cbn [op_accepted last_rot]. apply IH.
Qed.

Theorem accepted_refused_erasable pmin pmax n nv perm vals ops obs_n obs_pmin obs_pmax obs_vals :
  check_C18 (CRot pmin pmax n nv perm vals ops obs_n obs_pmin obs_pmax obs_vals)
  = check_C18 (CRot pmin pmax n nv perm vals (filter op_accepted ops) obs_n obs_pmin obs_pmax obs_vals).
Proof.
  unfold check_C18. cbv zeta.
  rewrite <- (last_rot_erasable ops None).
  rewrite <- (refused_steps_erasable rnd nv perm (Fld pmin pmax n (arr_of_list n nv vals)) (fun _ => obs_n) ops).
  reflexivity.
Qed.

(* ---------- reading a C-order list back and listing it again is the identity ---------- *)
Lemma firstn_add {A} p q (m : list A) : firstn (p + q) m = firstn p m ++ firstn q (skipn p m).
Proof.
  revert m. induction p as [|p IH]; intro m; [reflexivity|].
  destruct m as [|x m]; cbn [Nat.add firstn skipn app]; [destruct q; reflexivity|]. rewrite IH. reflexivity.
Qed.

Lemma skipn_add {A} p q (m : list A) : skipn (p + q) m = skipn q (skipn p m).
Proof.
  revert m. induction p as [|p IH]; intro m; [reflexivity|].
  destruct m as [|x m]; cbn [Nat.add skipn]; [destruct q; reflexivity|]. apply IH.
Qed.

Lemma map_nth_chunk (l : list Q) : forall nv base k, (base + k + nv <= length l)%nat ->
  map (fun c => nth (base + c) l 0) (iota k nv) = firstn nv (skipn (base + k) l).
Proof.
  induction nv as [|nv IH]; intros base k H; [reflexivity|].
  cbn [iota map]. rewrite (IH base (S k)) by lia.
  replace (base + S k)%nat with (S (base + k)) by lia.
  remember (base + k)%nat as x eqn:Ex. clear IH Ex.
  revert x H. induction l as [|y l IHl]; intros x H; [cbn [length] in H; lia|].
  destruct x as [|x].
  - cbn [nth skipn firstn]. reflexivity.
  - cbn [nth skipn]. cbn [length] in H. rewrite <- (IHl x) by lia. reflexivity.
Qed.

Lemma flat_chunks (l : list Q) (b : nat) (g : nat -> list Q) : forall a k off,
  (forall i, (k <= i < k + a)%nat -> g i = firstn b (skipn (off + i * b) l)) ->
  flat_map g (iota k a) = firstn (a * b) (skipn (off + k * b) l).
Proof.
  induction a as [|a IH]; intros k off Hg; [reflexivity|].
  cbn [iota flat_map]. rewrite (IH (S k) off) by (intros i Hi; apply Hg; lia).
  rewrite (Hg k) by lia.
  replace (S a * b)%nat with (b + a * b)%nat by lia. rewrite firstn_add. f_equal.
  replace (off + S k * b)%nat with ((off + k * b) + b)%nat by lia. rewrite skipn_add. reflexivity.
Qed.

Lemma fld_list_arr_of_list pmin pmax n nv vals :
  length vals = (ncells n * nv)%nat -> fld_list nv (orig_of pmin pmax n nv vals) = vals.
Proof.
  intro L. unfold fld_list, orig_of. cbn [f_val f_n]. unfold arr_of_list, ncells in *.
  destruct n as [a b d]. cbn [n0 n1 n2] in *.
  rewrite (flat_chunks vals (b * d * nv) _ a 0 0).
  - cbn [Nat.mul Nat.add skipn]. replace (a * (b * d * nv))%nat with (length vals) by (rewrite L; nia). apply firstn_all.
  - intros i Hi.
    rewrite (flat_chunks vals (d * nv) _ b 0 (i * (b * d * nv))).
    + f_equal; [lia|]. f_equal. lia.
    + intros j Hj.
      rewrite (flat_chunks vals nv _ d 0 (i * (b * d * nv) + j * (d * nv))).
      * f_equal. f_equal. lia.
      * intros k Hk.
        replace (i * (b * d * nv) + j * (d * nv) + k * nv)%nat with (((i * b + j) * d + k) * nv + 0)%nat by nia.
        apply map_nth_chunk.
        rewrite L.
        pose proof (Nat.mul_le_mono_r (i + 1) a b ltac:(lia)) as A1.
        assert (A2 : (i * b + j + 1 <= a * b)%nat) by lia.
        pose proof (Nat.mul_le_mono_r (i * b + j + 1) (a * b) d A2) as A3.
        assert (A4 : ((i * b + j) * d + k + 1 <= a * b * d)%nat) by lia.
        pose proof (Nat.mul_le_mono_r ((i * b + j) * d + k + 1) (a * b * d) nv A4) as A5.
        lia.
Qed.

(* after clear_rotation() the observed value list IS the recorded input list (entry by entry, as rationals) *)
Theorem accepted_clear_values pmin pmax n nv perm vals ops obs_n obs_pmin obs_pmax obs_vals :
  check_C18 (CRot pmin pmax n nv perm vals ops obs_n obs_pmin obs_pmax obs_vals) = true ->
  last_rot ops None = None ->
  obs_n = n /\ veq pmin obs_pmin /\ veq pmax obs_pmax /\ Forall2 Qeq vals obs_vals.
Proof.
  intros H E. destruct (check_cleared_sound _ _ _ _ _ _ _ _ _ _ _ H E) as (L & _ & H1 & H2 & H3 & H4).
  rewrite (fld_list_arr_of_list pmin pmax n nv vals L) in H4. auto.
Qed.

(* ---------- default resolution ---------- *)
Lemma qnat_ge1 n : (1 <= n)%nat -> 1 <= qnat n.
Proof. intro H. unfold qnat, Qle. cbn [Qnum Qden inject_Z]. lia. Qed.

Lemma n_adm1_round a dV vol E L n :
  0 < a -> cube a * vol == dV -> 0 < vol -> 0 < L -> 0 <= E -> n_adm1 n_slack dV vol E L n = true ->
  qnat n - (1 # 2) - n_slack <= E / (L * a) /\ E / (L * a) <= qnat n + (1 # 2) + n_slack.
Proof.
  intros Ha Hc Hv HL HE H.
  assert (Hn : (1 <= n)%nat).
  { unfold n_adm1 in H. cbv zeta in H. split_andb. apply Nat.leb_le. assumption. }
  assert (Hs : 0 <= n_slack) by (unfold n_slack; discriminate).
  assert (Hp : 0 <= qnat n - (1 # 2) - n_slack).
  { pose proof (qnat_ge1 n Hn) as Q1. unfold n_slack. lra. }
  apply (n_adm1_iff n_slack a dV vol E L n Hs Ha Hc Hv HL HE Hp) in H. tauto.
Qed.

(* C18_n_adm_is_round on the observation: when no explicit n was given to the last accepted rotate(), and the
   cube root a of dV / (L_x L_y L_z) is rational, every OBSERVED n_i is a nearest integer of E_i / (L_i a)
   up to the slack 1e-6 *)
Theorem accepted_default_n pmin pmax n nv perm vals ops obs_n obs_pmin obs_pmax obs_vals a :
  check_C18 (CRot pmin pmax n nv perm vals ops obs_n obs_pmin obs_pmax obs_vals) = true ->
  last_rot ops None = Some None ->
  let orig := orig_of pmin pmax n nv vals in
  let R := acc_rot rnd mid ops in
  let L := mabs_apply rnd R (cellv orig) in
  let E := vscale 2 (new_half rnd R orig) in
  0 < a -> cube a * vprod L == vprod (cellv orig) -> 0 < vprod L ->
  0 < vx L -> 0 < vy L -> 0 < vz L -> 0 <= vx E -> 0 <= vy E -> 0 <= vz E ->
  (qnat (n0 obs_n) - (1 # 2) - n_slack <= vx E / (vx L * a) /\ vx E / (vx L * a) <= qnat (n0 obs_n) + (1 # 2) + n_slack) /\
  (qnat (n1 obs_n) - (1 # 2) - n_slack <= vy E / (vy L * a) /\ vy E / (vy L * a) <= qnat (n1 obs_n) + (1 # 2) + n_slack) /\
  (qnat (n2 obs_n) - (1 # 2) - n_slack <= vz E / (vz L * a) /\ vz E / (vz L * a) <= qnat (n2 obs_n) + (1 # 2) + n_slack).
Proof.
  intros H E0 orig R L E Ha Hc Hv Lx Ly Lz Ex Ey Ez.
  destruct (check_rotated_state _ _ _ _ _ _ _ _ _ _ _ None H E0) as [Hn _]. fold orig R in Hn.
  unfold n_adm in Hn. cbv zeta in Hn. fold L E in Hn. split_andb.
  repeat split; eapply n_adm1_round; eassumption.
Qed.

(* ---------- non-vacuity: concrete accepted cases ---------- *)
Example accepted_refuse_instance :
  check_C18 (CRefuse 3 3 [Some 2; Some 0; Some 1]%nat true) = true /\
  check_C18 (CRefuse 3 3 [Some 0; Some 0; Some 1]%nat false) = true.
Proof. vm_compute. split; reflexivity. Qed.

(* scalar field on a 2 x 1 x 1 mesh: quarter turn about z, then clear_rotation() *)
Example accepted_clear_instance :
  check_C18 (CRot (V3 0 0 0) (V3 2 1 1) (N3 2 1 1) 1 [0; 1; 2]%nat [1; 2]
                  ([ORot (M3 (V3 0 (-1) 0) (V3 1 0 0) (V3 0 0 1)) None] ++ [OClear])
                  (N3 2 1 1) (V3 0 0 0) (V3 2 1 1) [1; 2]) = true.
Proof. vm_compute. reflexivity. Qed.

(* the same field after a refused call and a quarter turn about z with explicit n = (1,2,1) *)
Example accepted_compose_instance :
  op_accepted (ORot (M3 (V3 0 (-1) 0) (V3 1 0 0) (V3 0 0 1)) (Some (N3 1 2 1))) = true /\
  check_C18 (CRot (V3 0 0 0) (V3 2 1 1) (N3 2 1 1) 1 [0; 1; 2]%nat [1; 2]
                  ([ORefused] ++ [ORot (M3 (V3 0 (-1) 0) (V3 1 0 0) (V3 0 0 1)) (Some (N3 1 2 1))])
                  (N3 1 2 1) (V3 (1 # 2) (-1 # 2) 0) (V3 (3 # 2) (3 # 2) 1) [1; 2]) = true.
Proof. vm_compute. split; reflexivity. Qed.

(* a rotation by the rational angle (3/5, 4/5) of a 2 x 2 x 1 scalar field onto an explicit 4 x 4 x 1 mesh: the
   observation fed to the checker here is the model's own list, which shows that the hypotheses of
   accepted_outside_zero (accepted case, centre of cell (0,0,0) outside the box and off the band) are satisfiable *)
Definition ex_R : mat3 := M3 (V3 (3 # 5) (-4 # 5) 0) (V3 (4 # 5) (3 # 5) 0) (V3 0 0 1).
Definition ex_orig : fld := orig_of (V3 0 0 0) (V3 2 2 1) (N3 2 2 1) 1 [1; 2; 3; 4].
Definition ex_obs : list Q :=
  Eval vm_compute in fld_list 1 (rotated_field rnd 1 [0; 1; 2]%nat ex_orig (mmul rnd ex_R mid) (N3 4 4 1)).
Definition ex_pmin : vec3 := Eval vm_compute in new_pmin rnd (mmul rnd ex_R mid) ex_orig.
Definition ex_pmax : vec3 := Eval vm_compute in new_pmax rnd (mmul rnd ex_R mid) ex_orig.

Example accepted_outside_zero_instance :
  check_C18 (CRot (V3 0 0 0) (V3 2 2 1) (N3 2 2 1) 1 [0; 1; 2]%nat [1; 2; 3; 4]
                  [ORot ex_R (Some (N3 4 4 1))] (N3 4 4 1) ex_pmin ex_pmax ex_obs) = true /\
  last_rot [ORot ex_R (Some (N3 4 4 1))] None = Some (Some (N3 4 4 1)) /\
  (let p := back_pos rnd ex_orig (acc_rot rnd mid [ORot ex_R (Some (N3 4 4 1))]) (N3 4 4 1) 0 0 0 in
   vx p < hd 0 (fst (fst (grids rnd ex_orig))) /\ in_band ex_orig p = false).
Proof. vm_compute. repeat split; reflexivity. Qed.

(* default resolution: quarter turn of a 2 x 1 x 1 mesh with cubic cells, observed n = (1,2,1); the cube root is a = 1 *)
Example accepted_default_n_instance :
  let Rz := M3 (V3 0 (-1) 0) (V3 1 0 0) (V3 0 0 1) in
  let orig := orig_of (V3 0 0 0) (V3 2 1 1) (N3 2 1 1) 1 [1; 2] in
  let L := mabs_apply rnd (acc_rot rnd mid [ORot Rz None]) (cellv orig) in
  let E := vscale 2 (new_half rnd (acc_rot rnd mid [ORot Rz None]) orig) in
  check_C18 (CRot (V3 0 0 0) (V3 2 1 1) (N3 2 1 1) 1 [0; 1; 2]%nat [1; 2] [ORot Rz None]
                  (N3 1 2 1) (V3 (1 # 2) (-1 # 2) 0) (V3 (3 # 2) (3 # 2) 1) [1; 2]) = true /\
  last_rot [ORot Rz None] None = Some None /\
  0 < 1 /\ cube 1 * vprod L == vprod (cellv orig) /\ 0 < vprod L /\
  0 < vx L /\ 0 < vy L /\ 0 < vz L /\ 0 <= vx E /\ 0 <= vy E /\ 0 <= vz E.
Proof. vm_compute. repeat split; try reflexivity; discriminate. Qed.
