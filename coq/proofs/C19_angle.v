(* C19: arithmetic of the angle mesh along the chosen direction (tools.py:426-442):
   corners moved inwards by half a cell, same cell => one cell fewer; and the angle array. *)
From DF Require Import Prelude FieldK NDArray Region Mesh Tools QLemmas C01_axis C01_lattice.
Open Scope Q_scope.

Lemma Qround_half_even_inject (x : Q) (z : Z) : x == inject_Z z -> Qround_half_even x = z.
Proof.
  intros H. unfold Qround_half_even.
  assert (Hf : Qfloor x = z) by (rewrite H; apply Qfloor_Z).
  rewrite Hf.
  assert (Hc : (x - inject_Z z ?= 1 # 2) = Lt).
  { apply (proj1 (Qlt_alt _ _)). rewrite H. lra. }
  rewrite Hc. reflexivity.
Qed.

Section Axis.
Variables (lo hi : Q) (k : Z).
Hypothesis Hk : (2 <= k)%Z.
Hypothesis Hlt : lo < hi.
Let c := cell_of lo hi k.
Let lo' := lo + c / 2.
Let hi' := hi - c / 2.

Lemma kq_neq0 : ~ inject_Z k == 0.
Proof. intro H. assert (0 < inject_Z k) by (apply inject_Z_pos; lia). lra. Qed.

Lemma c_neq0 : ~ c == 0.
Proof.
  unfold c, cell_of. intro H.
  assert (0 < (hi - lo) / inject_Z k) by (apply Qdiv_pos; [lra | apply inject_Z_pos; lia]). lra.
Qed.

Lemma angle_axis_count : (hi' - lo') / c == inject_Z (k - 1).
Proof.
  pose proof kq_neq0 as Hq. pose proof c_neq0 as Hc.
  unfold hi', lo'. unfold c in *. unfold cell_of in *.
  unfold Zminus. rewrite inject_Z_plus. change (inject_Z (Z.opp 1)) with (-1 # 1).
  field. split; [exact Hq|]. intro H. apply Hc. rewrite H. field. exact Hq.
Qed.

Theorem angle_axis_n : Qround_half_even ((hi' - lo') / c) = (k - 1)%Z.
Proof. apply Qround_half_even_inject. exact angle_axis_count. Qed.

Theorem angle_axis_divisible : Qremainder (hi' - lo') c == 0.
Proof.
  unfold Qremainder. rewrite angle_axis_count. rewrite Qfloor_Z.
  pose proof angle_axis_count as H. pose proof c_neq0 as Hc.
  assert (hi' - lo' == inject_Z (k - 1) * c) by (rewrite <- H; field; exact Hc).
  lra.
Qed.

Theorem angle_axis_cell : cell_of lo' hi' (k - 1) == c.
Proof.
  pose proof angle_axis_count as H. pose proof c_neq0 as Hc.
  assert (Hk1 : ~ inject_Z (k - 1) == 0).
  { intro H0. assert (0 < inject_Z (k - 1)) by (apply inject_Z_pos; lia). lra. }
  unfold cell_of at 1.
  assert (E : hi' - lo' == inject_Z (k - 1) * c) by (rewrite <- H; field; exact Hc).
  rewrite E. field. exact Hk1.
Qed.

Theorem angle_axis_inside : lo < lo' /\ lo' < hi' /\ hi' < hi.
Proof.
  pose proof angle_axis_count as H. pose proof c_neq0 as Hc.
  assert (Hcp : 0 < c) by (unfold c, cell_of; apply Qdiv_pos; [lra | apply inject_Z_pos; lia]).
  assert (E : hi' - lo' == inject_Z (k - 1) * c) by (rewrite <- H; field; exact Hc).
  assert (0 < inject_Z (k - 1)) by (apply inject_Z_pos; lia).
  assert (0 < inject_Z (k - 1) * c) by (apply Qmult_lt_0_compat; assumption).
  assert (c / 2 + c / 2 == c) by field.
  unfold lo', hi' in *. repeat split; lra.
Qed.

(* every test that Region(p1, p2) and Mesh(region, cell) apply to this axis passes (the n-d constructors
   apply these tests axis by axis): corners in order, non-zero edge, positive cell, the probe cell
   [lo', lo'+c] inside the region for ANY non-negative tolerances, a whole number of cells, count k-1 *)
Theorem angle_axis_accepted (rtol atol tol : Q) : 0 <= rtol -> 0 <= atol -> 0 <= tol ->
  Qmin lo' hi' == lo' /\ Qmax lo' hi' == hi' /\ Qeq_bool (hi' - lo') 0 = false /\
  Qltb 0 c = true /\
  contains1 rtol atol lo' hi' lo' = true /\ contains1 rtol atol lo' hi' (lo' + c) = true /\
  bad_rem tol c (hi' - lo') = false /\ Qround_half_even ((hi' - lo') / c) = (k - 1)%Z.
Proof.
  intros Hr Ha Ht.
  pose proof angle_axis_inside as (I1 & I2 & I3).
  pose proof angle_axis_count as HC. pose proof c_neq0 as Hc0.
  assert (Hcp : 0 < c) by (unfold c, cell_of; apply Qdiv_pos; [lra | apply inject_Z_pos; lia]).
  assert (E : hi' - lo' == inject_Z (k - 1) * c) by (rewrite <- HC; field; exact Hc0).
  assert (H1 : 1 <= inject_Z (k - 1)) by (change 1 with (inject_Z 1); rewrite <- Zle_Qle; lia).
  assert (Hge : c <= hi' - lo').
  { rewrite E. assert (0 <= (inject_Z (k - 1) - 1) * c) by (apply Qmult_le_0_compat; lra). lra. }
  destruct (bycell_exact_multiple c (hi' - lo') tol Hcp Ht (k - 1) ltac:(lia) E) as [B1 B2].
  repeat split.
  - apply Q.min_l. lra.
  - apply Q.max_r. lra.
  - destruct (Qeq_bool (hi' - lo') 0) eqn:Q0; [|reflexivity]. apply Qeq_bool_iff in Q0. lra.
  - apply Qltb_true. exact Hcp.
  - apply contains1_inside; try assumption; lra.
  - apply contains1_inside; try assumption; lra.
  - exact B1.
  - exact B2.
Qed.
End Axis.

(* an axis that is not the chosen direction (delta = 0) is rebuilt with its own count *)
Theorem angle_other_axis_accepted (lo hi : Q) (k : Z) (rtol atol tol : Q) :
  (1 <= k)%Z -> lo < hi -> 0 <= rtol -> 0 <= atol -> 0 <= tol ->
  let c := cell_of lo hi k in
  Qmin (lo + 0) (hi - 0) == lo /\ Qmax (lo + 0) (hi - 0) == hi /\ Qeq_bool ((hi - 0) - (lo + 0)) 0 = false /\
  Qltb 0 c = true /\
  contains1 rtol atol lo hi lo = true /\ contains1 rtol atol lo hi (lo + c) = true /\
  bad_rem tol c (hi - lo) = false /\ Qround_half_even ((hi - lo) / c) = k.
Proof.
  intros Hk Hlt Hr Ha Ht c.
  assert (Hkp : 0 < inject_Z k) by (apply inject_Z_pos; lia).
  assert (Hcp : 0 < c) by (unfold c, cell_of; apply Qdiv_pos; [lra | exact Hkp]).
  assert (E : hi - lo == inject_Z k * c) by (unfold c, cell_of; field; lra).
  assert (H1 : 1 <= inject_Z k) by (change 1 with (inject_Z 1); rewrite <- Zle_Qle; lia).
  assert (Hge : c <= hi - lo).
  { rewrite E. assert (0 <= (inject_Z k - 1) * c) by (apply Qmult_le_0_compat; lra). lra. }
  destruct (bycell_exact_multiple c (hi - lo) tol Hcp Ht k Hk E) as [B1 B2].
  repeat split.
  - rewrite Q.min_l by lra. lra.
  - rewrite Q.max_r by lra. lra.
  - destruct (Qeq_bool (hi - 0 - (lo + 0)) 0) eqn:Q0; [|reflexivity]. apply Qeq_bool_iff in Q0. lra.
  - apply Qltb_true. exact Hcp.
  - apply contains1_inside; try assumption; lra.
  - apply contains1_inside; try assumption; lra.
  - exact B1.
  - exact B2.
Qed.


(* the angle array: value at i is acos(clip(o_i . o_{i+e_ax})), shape shortened by one *)
Theorem angle_value (K : FOps) acosf clipf degf ax (o : idx -> K) i :
  angle_arr K acosf clipf degf ax false o i
  = acosf (clipf (dot3 K (vec_at K o i) (vec_at K o (set_nth ax (nth ax i 0%nat + 1)%nat i)))).
Proof. reflexivity. Qed.

Theorem angle_shape_axis sh ax : (ax < length sh)%nat ->
  nth ax (angle_shape sh ax) 0%nat = (nth ax sh 0%nat - 1)%nat /\
  forall b, b <> ax -> nth b (angle_shape sh ax) 0%nat = nth b sh 0%nat.
Proof.
  unfold angle_shape. generalize (nth ax sh 0 - 1)%nat as v. revert ax.
  induction sh as [|a sh IH]; intros [|ax] v H; simpl in *; try lia.
  - split; [reflexivity|]. intros [|b] Hb; [congruence | reflexivity].
  - destruct (IH ax v ltac:(lia)) as [I1 I2]. split; [exact I1|].
    intros [|b] Hb; [reflexivity | apply I2; congruence].
Qed.

(* a concrete mesh: [0,8]x[-1,2] with n = (4,3), direction 0 -> [1,7]x[-1,2], n = (3,3) *)
Definition check_angle_mesh_example : bool :=
  match (do r <- mk_region [0; -1] [8; 2] None None (1 # 1000000000000); mk_mesh_n r [4%Z; 3%Z]) with
  | OK m => match angle_mesh m 0 with
            | OK a => qlist_eqb (pmin (reg a)) [1; -1] && qlist_eqb (pmax (reg a)) [7; 2] &&
                      zlist_eqb (n a) [3%Z; 3%Z]
            | Err _ => false
            end
  | Err _ => false
  end.
