(* C19: the continuous charge density under a linear map of the vectors: the directional
   derivative (all stencils, all validity masks, every run) commutes with the map, and the
   density picks up det M.  Open (non-periodic) directions. *)
From Coq Require Import Field.
From DF Require Import Prelude FieldK NDArray Diff Integrate Tools ListLemmas C04_proofs C04_linear
     C19_vec C19_density.

Section Cont.
Variable K : FOps.
Hypothesis HK : field_theory (f0 K) (f1 K) (@fadd K) (@fmul K) (@fsub K) (@fopp K) (@fdiv K) (@finv K) eq.
Add Field Kfield19c : HK.
Notation "0" := (f0 K).
Notation "1" := (f1 K).
Infix "+" := fadd. Infix "*" := fmul. Infix "-" := fsub. Infix "/" := fdiv.
Notation vec := (Tools.vec K).
Notation lin := (C04_linear.lin K).

Definition lin3 (r : vec) (u v w : list K) : list K :=
  lin 1 (vz K r) (lin (vx K r) (vy K r) u v) w.

Lemma map_lin3 {A} (r : vec) (g0 g1 g2 : A -> K) l :
  map (fun j => vx K r * g0 j + vy K r * g1 j + vz K r * g2 j) l
  = lin3 r (map g0 l) (map g1 l) (map g2 l).
Proof.
  induction l as [|a l IH]; [reflexivity|].
  unfold lin3, C04_linear.lin in *. simpl. f_equal; [ring | exact IH].
Qed.

Lemma sdc_lin3 order h r u v w valid :
  length u = length v -> length u = length w -> length u = length valid ->
  sdc K order h (lin3 r u v w) valid
  = lin3 r (sdc K order h u valid) (sdc K order h v valid) (sdc K order h w valid).
Proof.
  intros Hv Hw Hm. unfold lin3.
  rewrite (sdc_lin K HK order h 1 (vz K r) (lin (vx K r) (vy K r) u v) w valid)
    by (rewrite (lin_length K) by exact Hv; assumption).
  rewrite (sdc_lin K HK order h (vx K r) (vy K r) u v valid Hv Hm). reflexivity.
Qed.

Lemma nth_lin3 r u v w j : length u = length v -> length u = length w ->
  nth j (lin3 r u v w) 0 = vx K r * nth j u 0 + vy K r * nth j v 0 + vz K r * nth j w 0.
Proof.
  intros Hv Hw. unfold lin3.
  rewrite (nth_lin K HK) by (rewrite (lin_length K) by exact Hv; exact Hw).
  rewrite (nth_lin K HK) by exact Hv. ring.
Qed.

Lemma set_nth_app {A} ax (j : A) (i : list A) c : (ax < length i)%nat ->
  set_nth ax j (i ++ [c]) = set_nth ax j i ++ [c].
Proof.
  revert ax. induction i as [|a i IH]; intros [|ax] H; simpl in *; try lia; [reflexivity|].
  f_equal. apply IH. lia.
Qed.

Section Axis.
Variables (sh : list nat) (ax order : nat) (h : K) (valid : idx -> bool).

Lemma diff_nd_comp (f : idx -> K) (i : idx) (c : nat) :
  (ax < length i)%nat -> length i = length sh ->
  diff_nd K sh 3 ax order h false true f valid (i ++ [c])
  = nth (nth ax i 0%nat)
        (sdc K order h (map (fun j => f (set_nth ax j i ++ [c])) (iota 0 (nth ax sh 0%nat)))
             (map (fun j => valid (set_nth ax j i)) (iota 0 (nth ax sh 0%nat)))) 0.
Proof.
  intros Ha Hl. unfold diff_nd, along_axis2, line, diff_line. cbv beta zeta iota.
  rewrite removelast_last, !app_nth1 by lia. f_equal. f_equal.
  apply map_ext. intros j. rewrite set_nth_app by lia. reflexivity.
Qed.

Lemma amap_at (t : vec -> vec) (o : idx -> K) (i : idx) (c : nat) :
  amap K t o (i ++ [c]) = vcomp K c (t (vec_at K o i)).
Proof. unfold amap, arr_of. rewrite last_last, removelast_last. reflexivity. Qed.

Theorem diff_nd_mv (M : Tools.mat3 K) (o : idx -> K) (i : idx) :
  (ax < length i)%nat -> length i = length sh ->
  vec_at K (diff_nd K sh 3 ax order h false true (amap K (mv K M) o) valid) i
  = mv K M (vec_at K (diff_nd K sh 3 ax order h false true o valid) i).
Proof.
  intros Ha Hl. unfold vec_at at 1 2. rewrite !diff_nd_comp by assumption.
  set (V := map (fun j => valid (set_nth ax j i)) (iota 0 (nth ax sh 0%nat))).
  set (L := iota 0 (nth ax sh 0%nat)).
  assert (HLV : forall g : nat -> K, length (map g L) = length V)
    by (intros g; unfold V, L; rewrite !map_length; reflexivity).
  assert (HLL : forall g g' : nat -> K, length (map g L) = length (map g' L))
    by (intros g g'; rewrite !map_length; reflexivity).
  assert (HS : forall g g' : nat -> K, length (sdc K order h (map g L) V) = length (sdc K order h (map g' L) V))
    by (intros g g'; rewrite !(sdc_length K) by apply HLV; apply HLL).
  assert (Hrow : forall r : vec,
    nth (nth ax i 0%nat)
        (sdc K order h (map (fun j => dot3 K r (vec_at K o (set_nth ax j i))) L) V) 0
    = dot3 K r (nth (nth ax i 0%nat) (sdc K order h (map (fun j => o (set_nth ax j i ++ [0%nat])) L) V) 0,
                nth (nth ax i 0%nat) (sdc K order h (map (fun j => o (set_nth ax j i ++ [1%nat])) L) V) 0,
                nth (nth ax i 0%nat) (sdc K order h (map (fun j => o (set_nth ax j i ++ [2%nat])) L) V) 0)).
  { intros r. unfold dot3 at 1, vec_at. cbn [vx vy vz fst snd].
    rewrite (map_lin3 r (fun j => o (set_nth ax j i ++ [0%nat])) (fun j => o (set_nth ax j i ++ [1%nat]))
                      (fun j => o (set_nth ax j i ++ [2%nat])) L).
    rewrite sdc_lin3 by (first [apply HLL | apply HLV]).
    rewrite nth_lin3 by apply HS. reflexivity. }
  replace (map (fun j => amap K (mv K M) o (set_nth ax j i ++ [0%nat])) L)
    with (map (fun j => dot3 K (mrow1 K M) (vec_at K o (set_nth ax j i))) L)
    by (apply map_ext; intros j; rewrite amap_at; reflexivity).
  replace (map (fun j => amap K (mv K M) o (set_nth ax j i ++ [1%nat])) L)
    with (map (fun j => dot3 K (mrow2 K M) (vec_at K o (set_nth ax j i))) L)
    by (apply map_ext; intros j; rewrite amap_at; reflexivity).
  replace (map (fun j => amap K (mv K M) o (set_nth ax j i ++ [2%nat])) L)
    with (map (fun j => dot3 K (mrow3 K M) (vec_at K o (set_nth ax j i))) L)
    by (apply map_ext; intros j; rewrite amap_at; reflexivity).
  rewrite !Hrow. reflexivity.
Qed.
End Axis.

(* the continuous density picks up det M under ANY linear map of the vectors *)
Theorem tcd_cont_mv c4 sh h1 h2 (M : Tools.mat3 K) o valid i :
  length sh = 2%nat -> length i = 2%nat ->
  tcd_cont K c4 sh h1 h2 false false (amap K (mv K M) o) valid i
  = det3 K M * tcd_cont K c4 sh h1 h2 false false o valid i.
Proof.
  intros Hs Hi. unfold tcd_cont. cbv zeta.
  rewrite vec_at_amap by exact HK.
  rewrite !diff_nd_mv by lia.
  apply density_core_mv. exact HK.
Qed.

Theorem tcd_cont_rot c4 sh h1 h2 (M : Tools.mat3 K) o valid i :
  length sh = 2%nat -> length i = 2%nat -> det3 K M = 1 ->
  tcd_cont K c4 sh h1 h2 false false (amap K (mv K M) o) valid i
  = tcd_cont K c4 sh h1 h2 false false o valid i.
Proof. intros Hs Hi HD. rewrite tcd_cont_mv by assumption. rewrite HD. ring. Qed.

Theorem tcd_cont_neg c4 sh h1 h2 o valid i :
  length sh = 2%nat -> length i = 2%nat ->
  tcd_cont K c4 sh h1 h2 false false (amap K (mv K (mneg K)) o) valid i
  = fopp (tcd_cont K c4 sh h1 h2 false false o valid i).
Proof. intros Hs Hi. rewrite tcd_cont_mv by assumption. rewrite (det3_mneg K HK). ring. Qed.

(* the emergent field (pointwise core) is homogeneous of degree 3 and picks up det M *)
Theorem emergent_pt_mv (M : Tools.mat3 K) (m d0 d1 d2 md0 md1 md2 : idx -> K) mo i :
  vec_at K mo i = mv K M (vec_at K m i) ->
  vec_at K md0 i = mv K M (vec_at K d0 i) -> vec_at K md1 i = mv K M (vec_at K d1 i) ->
  vec_at K md2 i = mv K M (vec_at K d2 i) ->
  emergent_pt K mo md0 md1 md2 i = vscale K (det3 K M) (emergent_pt K m d0 d1 d2 i).
Proof.
  intros H H0 H1 H2. unfold emergent_pt. rewrite H, H0, H1, H2.
  pose proof (triple3_mv K HK M) as HT. unfold triple3 in HT. rewrite !HT.
  unfold vscale. reflexivity.
Qed.

End Cont.
