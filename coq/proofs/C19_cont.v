(* C19: the continuous charge density under a linear map of the vectors: the directional
   derivative (all stencils, all validity masks, every run) commutes with the map, and the
   density picks up det M.  Open (non-periodic) directions. *)
From Coq Require Import Field.
From DF Require Import Prelude Constants_gen FieldK NDArray Diff Integrate Tools ListLemmas C04_proofs C04_linear
     C04_ring C19_vec C19_density.

Section Cont.
Variable K : FOps.
Hypothesis HK : field_theory (f0 K) (f1 K) (@fadd K) (@fmul K) (@fsub K) (@fopp K) (@fdiv K) (@finv K) eq.
Add Field Kfield19c : HK.
Notation "0" := (f0 K).
Notation "1" := (f1 K).
Infix "+" := fadd. Infix "*" := fmul. Infix "-" := fsub. Infix "/" := fdiv.
Notation vec := (Tools.vec K).
Notation lin := (C04_linear.lin K).

Definition lin3 (r : vec) (u v w : list K) : list K :=
  lin 1 (vz K r) (lin (vx K r) (vy K r) u v) w.

Lemma map_lin3 {A} (r : vec) (g0 g1 g2 : A -> K) l :
  map (fun j => vx K r * g0 j + vy K r * g1 j + vz K r * g2 j) l
  = lin3 r (map g0 l) (map g1 l) (map g2 l).
Proof.
  induction l as [|a l IH]; [reflexivity|].
  unfold lin3, C04_linear.lin in *. simpl. f_equal; [ring | exact IH].
Qed.

Lemma sdc_lin3 order h r u v w valid :
  length u = length v -> length u = length w -> length u = length valid ->
  sdc K order h (lin3 r u v w) valid
  = lin3 r (sdc K order h u valid) (sdc K order h v valid) (sdc K order h w valid).
Proof.
  intros Hv Hw Hm. unfold lin3.
  rewrite (sdc_lin K HK order h 1 (vz K r) (lin (vx K r) (vy K r) u v) w valid)
    by (rewrite (lin_length K) by exact Hv; assumption).
  rewrite (sdc_lin K HK order h (vx K r) (vy K r) u v valid Hv Hm). reflexivity.
Qed.

Lemma nth_lin3 r u v w j : length u = length v -> length u = length w ->
  nth j (lin3 r u v w) 0 = vx K r * nth j u 0 + vy K r * nth j v 0 + vz K r * nth j w 0.
Proof.
  intros Hv Hw. unfold lin3.
  rewrite (nth_lin K HK) by (rewrite (lin_length K) by exact Hv; exact Hw).
  rewrite (nth_lin K HK) by exact Hv. ring.
Qed.

Lemma set_nth_app {A} ax (j : A) (i : list A) c : (ax < length i)%nat ->
  set_nth ax j (i ++ [c]) = set_nth ax j i ++ [c].
Proof.
  revert ax. induction i as [|a i IH]; intros [|ax] H; simpl in *; try lia; [reflexivity|].
  f_equal. apply IH. lia.
Qed.


(* ---------- the periodic wrap / crop commute with cell-wise linear combinations ---------- *)
Lemma last_lin a b x y (u w : list K) : length u = length w ->
  last (lin a b (x :: u) (y :: w)) 0 = a * last (x :: u) 0 + b * last (y :: w) 0.
Proof.
  revert x y w. induction u as [|x' u IH]; intros x y [|y' w] Hl; simpl in Hl; try discriminate.
  - reflexivity.
  - change (lin a b (x :: x' :: u) (y :: y' :: w)) with ((a * x + b * y) :: lin a b (x' :: u) (y' :: w)).
    change (last ((a * x + b * y) :: lin a b (x' :: u) (y' :: w)) 0) with (last (lin a b (x' :: u) (y' :: w)) 0).
    rewrite IH by lia. reflexivity.
Qed.

Lemma lin_wrap1 a b (u w : list K) : length u = length w ->
  wrap1 0 (lin a b u w) = lin a b (wrap1 0 u) (wrap1 0 w).
Proof.
  intros Hl. destruct u as [|x u], w as [|y w]; simpl in Hl; try discriminate; [reflexivity|].
  transitivity (last (lin a b (x :: u) (y :: w)) 0 :: lin a b (x :: u) (y :: w) ++ lin a b [x] [y]);
    [reflexivity|].
  rewrite last_lin by lia.
  rewrite <- (lin_app K a b (x :: u) [x] (y :: w) [y]) by (simpl; lia).
  reflexivity.
Qed.

Lemma lin_removelast a b (u w : list K) : length u = length w ->
  removelast (lin a b u w) = lin a b (removelast u) (removelast w).
Proof.
  revert w. induction u as [|x u IH]; intros [|y w] Hl; simpl in Hl; try discriminate; [reflexivity|].
  destruct u as [|x' u], w as [|y' w]; simpl in Hl; try discriminate; [reflexivity|].
  change (lin a b (x :: x' :: u) (y :: y' :: w)) with ((a * x + b * y) :: lin a b (x' :: u) (y' :: w)).
  change (removelast ((a * x + b * y) :: lin a b (x' :: u) (y' :: w)))
    with ((a * x + b * y) :: removelast (lin a b (x' :: u) (y' :: w))).
  rewrite IH by (simpl; lia). reflexivity.
Qed.

Lemma lin_crop1 a b (u w : list K) : length u = length w ->
  crop1 (lin a b u w) = lin a b (crop1 u) (crop1 w).
Proof.
  intros Hl. unfold crop1. destruct u as [|x u], w as [|y w]; simpl in Hl; try discriminate; [reflexivity|].
  change (tl (lin a b (x :: u) (y :: w))) with (lin a b u w). cbn [tl].
  apply lin_removelast. lia.
Qed.

Lemma removelast_length {A} (l : list A) : length (removelast l) = (length l - 1)%nat.
Proof.
  induction l as [|x l IH]; [reflexivity|]. destruct l as [|y l]; [reflexivity|].
  change (removelast (x :: y :: l)) with (x :: removelast (y :: l)). simpl length in *. lia.
Qed.
Lemma crop1_length {A} (l : list A) : length (crop1 l) = (length l - 2)%nat.
Proof. unfold crop1. rewrite removelast_length. destruct l; simpl; lia. Qed.

Lemma wrap1_length' {A} (d : A) (l : list A) : length (wrap1 d l) = match l with [] => 0%nat | _ => (length l + 2)%nat end.
Proof. destruct l; [reflexivity|]. unfold wrap1. simpl. rewrite app_length. simpl. lia. Qed.

Lemma diff_line_length order h per (u : list K) valid : length u = length valid ->
  length (diff_line K order h per true u valid) = length u.
Proof.
  intros Hl. unfold diff_line. destruct per.
  - rewrite crop1_length, (sdc_length K).
    + rewrite wrap1_length'. destruct u; simpl; lia.
    + rewrite !wrap1_length'. destruct u, valid; simpl in *; try discriminate; lia.
  - apply (sdc_length K). exact Hl.
Qed.

Lemma diff_line_lin order h per a b (u w : list K) valid :
  length u = length w -> length u = length valid ->
  diff_line K order h per true (lin a b u w) valid
  = lin a b (diff_line K order h per true u valid) (diff_line K order h per true w valid).
Proof.
  intros Hw Hv. unfold diff_line. destruct per.
  - rewrite lin_wrap1 by exact Hw.
    assert (L1 : length (wrap1 0 u) = length (wrap1 0 w))
      by (rewrite !wrap1_length'; destruct u, w; simpl in *; try discriminate; lia).
    assert (L2 : length (wrap1 0 u) = length (wrap1 true valid))
      by (rewrite !wrap1_length'; destruct u, valid; simpl in *; try discriminate; lia).
    rewrite (sdc_lin K HK) by assumption.
    apply lin_crop1. rewrite !(sdc_length K) by congruence. exact L1.
  - apply (sdc_lin K HK); assumption.
Qed.

Lemma diff_line_lin3 order h per r u v w valid :
  length u = length v -> length u = length w -> length u = length valid ->
  diff_line K order h per true (lin3 r u v w) valid
  = lin3 r (diff_line K order h per true u valid) (diff_line K order h per true v valid)
           (diff_line K order h per true w valid).
Proof.
  intros Hv Hw Hm. unfold lin3.
  rewrite diff_line_lin by (rewrite ?(lin_length K) by exact Hv; assumption).
  rewrite (diff_line_lin order h per (vx K r) (vy K r) u v valid Hv Hm). reflexivity.
Qed.

Section Axis.
Variables (sh : list nat) (ax order : nat) (h : K) (per : bool) (valid : idx -> bool).

Lemma diff_nd_comp (f : idx -> K) (i : idx) (c : nat) :
  (ax < length i)%nat -> length i = length sh ->
  diff_nd K sh 3 ax order h per true f valid (i ++ [c])
  = nth (nth ax i 0%nat)
        (diff_line K order h per true (map (fun j => f (set_nth ax j i ++ [c])) (iota 0 (nth ax sh 0%nat)))
             (map (fun j => valid (set_nth ax j i)) (iota 0 (nth ax sh 0%nat)))) 0.
Proof.
  intros Ha Hl. unfold diff_nd, along_axis2, line.
  rewrite removelast_last, !app_nth1 by lia. f_equal. f_equal.
  apply map_ext. intros j. rewrite set_nth_app by lia. reflexivity.
Qed.

Lemma amap_at (t : vec -> vec) (o : idx -> K) (i : idx) (c : nat) :
  amap K t o (i ++ [c]) = vcomp K c (t (vec_at K o i)).
Proof. unfold amap, arr_of. rewrite last_last, removelast_last. reflexivity. Qed.

Theorem diff_nd_mv (M : Tools.mat3 K) (o : idx -> K) (i : idx) :
  (ax < length i)%nat -> length i = length sh ->
  vec_at K (diff_nd K sh 3 ax order h per true (amap K (mv K M) o) valid) i
  = mv K M (vec_at K (diff_nd K sh 3 ax order h per true o valid) i).
Proof.
  intros Ha Hl. unfold vec_at at 1 2. rewrite !diff_nd_comp by assumption.
  set (V := map (fun j => valid (set_nth ax j i)) (iota 0 (nth ax sh 0%nat))).
  set (L := iota 0 (nth ax sh 0%nat)).
  assert (HLV : forall g : nat -> K, length (map g L) = length V)
    by (intros g; unfold V, L; rewrite !map_length; reflexivity).
  assert (HLL : forall g g' : nat -> K, length (map g L) = length (map g' L))
    by (intros g g'; rewrite !map_length; reflexivity).
  assert (HS : forall g g' : nat -> K, length (diff_line K order h per true (map g L) V) = length (diff_line K order h per true (map g' L) V))
    by (intros g g'; rewrite !diff_line_length by apply HLV; apply HLL).
  assert (Hrow : forall r : vec,
    nth (nth ax i 0%nat)
        (diff_line K order h per true (map (fun j => dot3 K r (vec_at K o (set_nth ax j i))) L) V) 0
    = dot3 K r (nth (nth ax i 0%nat) (diff_line K order h per true (map (fun j => o (set_nth ax j i ++ [0%nat])) L) V) 0,
                nth (nth ax i 0%nat) (diff_line K order h per true (map (fun j => o (set_nth ax j i ++ [1%nat])) L) V) 0,
                nth (nth ax i 0%nat) (diff_line K order h per true (map (fun j => o (set_nth ax j i ++ [2%nat])) L) V) 0)).
  { intros r. unfold dot3 at 1, vec_at. cbn [vx vy vz fst snd].
    rewrite (map_lin3 r (fun j => o (set_nth ax j i ++ [0%nat])) (fun j => o (set_nth ax j i ++ [1%nat]))
                      (fun j => o (set_nth ax j i ++ [2%nat])) L).
    rewrite diff_line_lin3 by (first [apply HLL | apply HLV]).
    rewrite nth_lin3 by apply HS. reflexivity. }
  replace (map (fun j => amap K (mv K M) o (set_nth ax j i ++ [0%nat])) L)
    with (map (fun j => dot3 K (mrow1 K M) (vec_at K o (set_nth ax j i))) L)
    by (apply map_ext; intros j; rewrite amap_at; reflexivity).
  replace (map (fun j => amap K (mv K M) o (set_nth ax j i ++ [1%nat])) L)
    with (map (fun j => dot3 K (mrow2 K M) (vec_at K o (set_nth ax j i))) L)
    by (apply map_ext; intros j; rewrite amap_at; reflexivity).
  replace (map (fun j => amap K (mv K M) o (set_nth ax j i ++ [2%nat])) L)
    with (map (fun j => dot3 K (mrow3 K M) (vec_at K o (set_nth ax j i))) L)
    by (apply map_ext; intros j; rewrite amap_at; reflexivity).
  rewrite !Hrow. reflexivity.
Qed.
End Axis.

(* the continuous density picks up det M under ANY linear map of the vectors *)
Theorem tcd_cont_mv c4 sh h1 h2 per1 per2 (M : Tools.mat3 K) o valid i :
  length sh = 2%nat -> length i = 2%nat ->
  tcd_cont K c4 sh h1 h2 per1 per2 (amap K (mv K M) o) valid i
  = det3 K M * tcd_cont K c4 sh h1 h2 per1 per2 o valid i.
Proof.
  intros Hs Hi. unfold tcd_cont. cbv zeta.
  rewrite vec_at_amap by exact HK.
  rewrite !diff_nd_mv by lia.
  apply density_core_mv. exact HK.
Qed.

Theorem tcd_cont_rot c4 sh h1 h2 per1 per2 (M : Tools.mat3 K) o valid i :
  length sh = 2%nat -> length i = 2%nat -> det3 K M = 1 ->
  tcd_cont K c4 sh h1 h2 per1 per2 (amap K (mv K M) o) valid i
  = tcd_cont K c4 sh h1 h2 per1 per2 o valid i.
Proof. intros Hs Hi HD. rewrite tcd_cont_mv by assumption. rewrite HD. ring. Qed.

Theorem tcd_cont_neg c4 sh h1 h2 per1 per2 o valid i :
  length sh = 2%nat -> length i = 2%nat ->
  tcd_cont K c4 sh h1 h2 per1 per2 (amap K (mv K (mneg K)) o) valid i
  = fopp (tcd_cont K c4 sh h1 h2 per1 per2 o valid i).
Proof. intros Hs Hi. rewrite tcd_cont_mv by assumption. rewrite (det3_mneg K HK). ring. Qed.

(* the emergent field (pointwise core) is homogeneous of degree 3 and picks up det M *)
Theorem emergent_pt_mv (M : Tools.mat3 K) (m d0 d1 d2 md0 md1 md2 : idx -> K) mo i :
  vec_at K mo i = mv K M (vec_at K m i) ->
  vec_at K md0 i = mv K M (vec_at K d0 i) -> vec_at K md1 i = mv K M (vec_at K d1 i) ->
  vec_at K md2 i = mv K M (vec_at K d2 i) ->
  emergent_pt K mo md0 md1 md2 i = vscale K (det3 K M) (emergent_pt K m d0 d1 d2 i).
Proof.
  intros H H0 H1 H2. unfold emergent_pt. rewrite H, H0, H1, H2.
  pose proof (triple3_mv K HK M) as HT. unfold triple3 in HT. rewrite !HT.
  unfold vscale. reflexivity.
Qed.

End Cont.
