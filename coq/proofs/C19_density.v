(* C19: density-level theorems: Berg-Luescher density under vector transformations (rotation,
   reversal), uniform fields, mesh rescaling; charge; demag sum structure; angle-mesh arithmetic. *)
From Coq Require Import Field.
From DF Require Import Prelude FieldK NDArray Diff Integrate Region Mesh Tools ListLemmas QLemmas C06_proofs C19_vec.

Section Dens.
Variable K : FOps.
Hypothesis HK : field_theory (f0 K) (f1 K) (@fadd K) (@fmul K) (@fsub K) (@fopp K) (@fdiv K) (@finv K) eq.
Add Field Kfield19b : HK.
Notation "0" := (f0 K).
Notation "1" := (f1 K).
Infix "+" := fadd. Infix "*" := fmul. Infix "-" := fsub. Infix "/" := fdiv.
Notation vec := (Tools.vec K).

Lemma fdiv_def19 (x y : K) : x / y = x * finv y.
Proof. apply (Fdiv_def HK). Qed.

Lemma vec_eta (v : vec) : (vx K v, vy K v, vz K v) = v.
Proof. destruct v as [[a b] c]. reflexivity. Qed.

Lemma vec_at_amap (t : vec -> vec) (o : idx -> K) (i : idx) :
  vec_at K (amap K t o) i = t (vec_at K o i).
Proof.
  unfold vec_at at 1. unfold amap, arr_of. rewrite !last_last, !removelast_last. simpl. apply vec_eta.
Qed.

(* ---------- Berg-Luescher density under a pointwise transformation of the vectors ---------- *)
Section BL.
Variable Omega : K -> K -> K -> K -> K.
Variable T : vec -> vec.
Variable sg : K.
Hypothesis HT : forall a b c, bl_angle K Omega (T a) (T b) (T c) = sg * bl_angle K Omega a b c.

Lemma nbr_amap o valid e i : nbr K (amap K T o) valid e i = option_map T (nbr K o valid e i).
Proof. unfold nbr. destruct (e && valid i); simpl; [rewrite vec_at_amap|]; reflexivity. Qed.

Lemma tri_amap v0 a b :
  tri K Omega (T v0) (option_map T a) (option_map T b)
  = (sg * fst (tri K Omega v0 a b), snd (tri K Omega v0 a b)).
Proof. destruct a, b; simpl; try (f_equal; ring). rewrite HT. reflexivity. Qed.

Theorem tcd_bl_amap sh h1 h2 o valid ij :
  tcd_bl K Omega sh h1 h2 (amap K T o) valid ij = sg * tcd_bl K Omega sh h1 h2 o valid ij.
Proof.
  unfold tcd_bl. cbv zeta. destruct (valid [nth 0 ij 0%nat; nth 1 ij 0%nat]); [|ring].
  rewrite vec_at_amap, !nbr_amap, !tri_amap. cbn [fst snd].
  match goal with |- context [(0 <? ?c)%nat] => destruct (0 <? c)%nat end; [|ring].
  rewrite !fdiv_def19. ring.
Qed.
End BL.

(* rotation: for ANY solid-angle function *)
Theorem tcd_bl_rot Omega (M : Tools.mat3 K) sh h1 h2 o valid ij :
  col_orthogonal K M -> det3 K M = 1 ->
  tcd_bl K Omega sh h1 h2 (amap K (mv K M) o) valid ij = tcd_bl K Omega sh h1 h2 o valid ij.
Proof.
  intros HO HD. rewrite (tcd_bl_amap Omega (mv K M) 1).
  - ring.
  - intros a b c. rewrite (bl_angle_rot K HK Omega M a b c HO HD). ring.
Qed.

(* reversal: solid angle odd in the triple product *)
Theorem tcd_bl_neg Omega sh h1 h2 o valid ij :
  (forall d1 d2 d3 t, Omega d1 d2 d3 (fopp t) = fopp (Omega d1 d2 d3 t)) ->
  tcd_bl K Omega sh h1 h2 (amap K (vneg K) o) valid ij = fopp (tcd_bl K Omega sh h1 h2 o valid ij).
Proof.
  intros HOdd. rewrite (tcd_bl_amap Omega (vneg K) (fopp 1)).
  - ring.
  - intros a b c. rewrite (bl_angle_neg K HK Omega a b c HOdd). ring.
Qed.

(* uniform field: every triangle is degenerate *)
Theorem tcd_bl_uniform Omega sh h1 h2 o valid (v : vec) ij :
  (forall d1 d2 d3, Omega d1 d2 d3 0 = 0) -> (forall i, vec_at K o i = v) ->
  tcd_bl K Omega sh h1 h2 o valid ij = 0.
Proof.
  intros H0 HU. unfold tcd_bl, nbr. cbv zeta. rewrite !HU.
  destruct (valid [nth 0 ij 0%nat; nth 1 ij 0%nat]); [|reflexivity].
  repeat match goal with |- context [if ?c then Some v else None] => destruct c end;
    cbn [tri fst snd]; rewrite ?(bl_angle_uniform K HK Omega v H0);
    match goal with |- context [(0 <? ?c)%nat] => destruct (0 <? c)%nat end;
    try reflexivity; rewrite fdiv_def19; ring.
Qed.

(* the Berg-Luescher density does not read the values stored in invalid cells *)
Theorem tcd_bl_ignores_invalid Omega sh h1 h2 o o' valid ij :
  (forall i, valid i = true -> vec_at K o i = vec_at K o' i) ->
  tcd_bl K Omega sh h1 h2 o valid ij = tcd_bl K Omega sh h1 h2 o' valid ij.
Proof.
  intros HE. unfold tcd_bl, nbr. cbv zeta.
  destruct (valid [nth 0 ij 0%nat; nth 1 ij 0%nat]) eqn:Hv; [|reflexivity].
  rewrite (HE _ Hv).
  repeat match goal with
         | |- context [if ?e && valid ?i then Some (vec_at K o ?i) else None] =>
             let Hq := fresh in
             destruct e; cbn [andb];
             [destruct (valid i) eqn:Hq; [rewrite (HE _ Hq)|] |]
         end; reflexivity.
Qed.

(* mesh rescaling by s: triangle area scales with s^2 (characteristic 0, as for the reals) *)
Theorem tcd_bl_mesh_scale Omega sh h1 h2 s o valid ij :
  s <> 0 -> h1 <> 0 -> h2 <> 0 -> (forall k, (1 <= k)%nat -> fnat K k <> 0) ->
  tcd_bl K Omega sh (h1 * s) (h2 * s) o valid ij = tcd_bl K Omega sh h1 h2 o valid ij / (s * s).
Proof.
  intros Hs H1 H2 Hchar. unfold tcd_bl. cbv zeta.
  destruct (valid [nth 0 ij 0%nat; nth 1 ij 0%nat]); [|rewrite fdiv_def19; ring].
  match goal with |- context [(0 <? ?c)%nat] => set (cnt := c) end.
  destruct (0 <? cnt)%nat eqn:Hc; [|rewrite fdiv_def19; ring].
  apply Nat.ltb_lt in Hc. assert (Hn : fnat K cnt <> 0) by (apply Hchar; lia).
  assert (H2' : 1 + 1 <> 0).
  { intro Hx. apply (Hchar 2%nat); [lia|]. cbn [fnat]. transitivity (1 + 1); [ring | exact Hx]. }
  unfold f2. field. repeat split; assumption.
Qed.

(* ---------- charge ---------- *)
Theorem charge_ext fabs absolute sh dV (q q' : idx -> K) :
  (forall i, q i = q' i) -> charge K fabs absolute sh dV q = charge K fabs absolute sh dV q'.
Proof.
  intros HE. unfold charge, total. f_equal. f_equal. apply map_ext. intros i. rewrite HE. reflexivity.
Qed.

Theorem charge_neg fabs sh dV (q : idx -> K) :
  charge K fabs false sh dV (fun i => fopp (q i)) = fopp (charge K fabs false sh dV q).
Proof.
  unfold charge. cbv beta iota.
  pose proof (total_lin K HK sh (fopp 1) 0 q q) as HL.
  replace (total K sh (fun i => fopp (q i)))
    with (total K sh (fun i => fopp 1 * q i + 0 * q i)).
  - rewrite HL. change (fun i : idx => q i) with q. ring.
  - unfold total. f_equal. apply map_ext. intros i. ring.
Qed.

(* density / s^2 integrated with dV * s^2: the charge does not change *)
Theorem charge_mesh_scale fabs sh dV s (q : idx -> K) :
  s <> 0 ->
  charge K fabs false sh (dV * (s * s)) (fun i => q i / (s * s)) = charge K fabs false sh dV q.
Proof.
  intros Hs. unfold charge. cbv beta iota.
  pose proof (total_lin K HK sh (finv (s * s)) 0 q q) as HL.
  replace (total K sh (fun i => q i / (s * s)))
    with (total K sh (fun i => finv (s * s) * q i + 0 * q i)).
  - rewrite HL. change (fun i : idx => q i) with q. field. exact Hs.
  - unfold total. f_equal. apply map_ext. intros i. rewrite fdiv_def19. ring.
Qed.

(* ---------- demag: the 64-term sum is minus the triple second difference ---------- *)
Definition dd2 (F_ : K -> K) (x d : K) : K := F_ (x + d) - (1 + 1) * F_ x + F_ (x - d).

Lemma sh00 (x d : K) : x + (0 - 0) * d = x. Proof. ring. Qed.
Lemma sh10 (x d : K) : x + (0 + 1 - 0) * d = x + d. Proof. ring. Qed.
Lemma sh01 (x d : K) : x + (0 - (0 + 1)) * d = x - d. Proof. ring. Qed.
Lemma sh11 (x d : K) : x + (0 + 1 - (0 + 1)) * d = x. Proof. ring. Qed.

Theorem N_sum_second_difference (F_ : K -> K -> K -> K) x y z dx dy dz :
  N_sum K F_ x y z dx dy dz
  = fopp (dd2 (fun a => dd2 (fun b => dd2 (fun c => F_ a b c) z dz) y dy) x dx).
Proof.
  unfold N_sum, bits6, dd2, sgn, bitK.
  cbn [flat_map map app fold_left fold_right nth Nat.add Nat.even fnat].
  rewrite ?sh00, ?sh10, ?sh01, ?sh11. ring.
Qed.

(* the component built from the cyclically relabelled coordinates AND cell edges is the xx component
   of the relabelled problem (what commit 56936a1f restored) *)
Theorem N6_relabel (fN gN : K -> K -> K -> K) pi4 dx dy dz x y z :
  nth 1 (N6 K fN gN pi4 dx dy dz x y z) 0 = nth 0 (N6 K fN gN pi4 dy dz dx y z x) 0 /\
  nth 2 (N6 K fN gN pi4 dx dy dz x y z) 0 = nth 0 (N6 K fN gN pi4 dz dx dy z x y) 0 /\
  nth 5 (N6 K fN gN pi4 dx dy dz x y z) 0 = nth 3 (N6 K fN gN pi4 dy dz dx y z x) 0.
Proof. repeat split; reflexivity. Qed.

End Dens.
