(* C19: quarter turn of the sample (Field.rotate90 in the x-y plane: numpy.rot90 index map on data
   and validity + exact rotation of the x,y components, model Rotate90.v) and the Berg-Luescher
   density.  Proved: for k = 1 (one quarter turn) on every n0 x n1 lattice, every validity mask and
   every cell size, the density of the rotated field is the rot90 image of the density of the
   original field, for ANY solid-angle function Omega (the four neighbours and the four triangles of
   a cell are permuted cyclically by the index map; the component rotation has det 1). *)
From Coq Require Import Field.
From DF Require Import Prelude FieldK NDArray Diff Integrate Region Mesh Rotate90 Tools ListLemmas
     C19_vec C19_density.

Section Quarter.
Variable K : FOps.
Hypothesis HK : field_theory (f0 K) (f1 K) (@fadd K) (@fmul K) (@fsub K) (@fopp K) (@fdiv K) (@finv K) eq.
Add Field Kfield19e : HK.
Notation "0" := (f0 K).
Notation "1" := (f1 K).
Infix "+" := fadd. Infix "*" := fmul. Infix "-" := fsub. Infix "/" := fdiv.
Notation vec := (Tools.vec K).
Variable Omega : K -> K -> K -> K -> K.

(* rotation of the first two components by (c, s), third untouched: what rot_comp does per cell *)
Definition qrot (c s : K) (v : vec) : vec :=
  (c * vx K v - s * vy K v, s * vx K v + c * vy K v, vz K v).

(* the body of tcd_bl for one valid cell, as a function of the cell's vector and its four neighbours *)
Definition bl_cell (h1 h2 : K) (v0 : vec) (v1 v2 v3 v4 : option vec) : K :=
  let area := (1 / f2 K) * h1 * h2 in
  let t1 := tri K Omega v0 v1 v2 in let t2 := tri K Omega v0 v2 v3 in
  let t3 := tri K Omega v0 v3 v4 in let t4 := tri K Omega v0 v4 v1 in
  let cnt := (snd t1 + snd t2 + snd t3 + snd t4)%nat in
  let charge := 0 + fst t1 + fst t2 + fst t3 + fst t4 in
  if (0 <? cnt)%nat then charge / (area * fnat K cnt) else 0.

Lemma tcd_bl_cell sh h1 h2 o valid i j :
  tcd_bl K Omega sh h1 h2 o valid [i; j]
  = if valid [i; j] then
      bl_cell h1 h2 (vec_at K o [i; j])
        (nbr K o valid (i + 1 <? nth 0 sh 0)%nat [(i + 1)%nat; j])
        (nbr K o valid (j + 1 <? nth 1 sh 0)%nat [i; (j + 1)%nat])
        (nbr K o valid (1 <=? i)%nat [(i - 1)%nat; j])
        (nbr K o valid (1 <=? j)%nat [i; (j - 1)%nat])
    else 0.
Proof. reflexivity. Qed.

(* a transformation T of the vectors that leaves every triangle's angle unchanged, combined with a
   cyclic relabelling of the four neighbours and an exchange of the two cell edges *)
Lemma bl_cell_cyclic (T : vec -> vec) h1 h2 v0 v1 v2 v3 v4 :
  (forall a b c, bl_angle K Omega (T a) (T b) (T c) = bl_angle K Omega a b c) ->
  bl_cell h2 h1 (T v0) (option_map T v4) (option_map T v1) (option_map T v2) (option_map T v3)
  = bl_cell h1 h2 v0 v1 v2 v3 v4.
Proof.
  intros HT. unfold bl_cell. cbv zeta.
  destruct v1, v2, v3, v4; cbn [option_map tri fst snd Nat.add Nat.ltb Nat.leb]; rewrite ?HT;
    try reflexivity; rewrite !(Fdiv_def HK); f_equal; try ring; f_equal; ring.
Qed.

Lemma nbr_cond_eq o valid e e' i i' :
  e = e' -> (e' = true -> i = i') -> nbr K o valid e i = nbr K o valid e' i'.
Proof. intros -> H. unfold nbr. destruct e'; [rewrite H by reflexivity|]; reflexivity. Qed.

Lemma qrot1_angle (a b c : vec) :
  bl_angle K Omega (qrot 0 1 a) (qrot 0 1 b) (qrot 0 1 c) = bl_angle K Omega a b c.
Proof.
  unfold bl_angle. destruct a as [[a1 a2] a3], b as [[b1 b2] b3], c as [[c1 c2] c3].
  f_equal; unfold qrot, triple3, dot3, cross3, vx, vy, vz; cbn [fst snd]; ring.
Qed.

Section K1.
Variables (n0 n1 : nat) (o : idx -> K) (valid : idx -> bool).
(* Field.rotate90('x','y', k=1) on the arrays: shape (n0,n1) -> (n1,n0) *)
Let o' : idx -> K := rot_comp K (fst (kturn K 1)) (snd (kturn K 1)) 0 1 (rot90 [n0; n1; 3%nat] 0 1 1 o).
Let valid' : idx -> bool := rot90 [n0; n1] 0 1 1 valid.

Lemma vec_at_rot1 x y : vec_at K o' [x; y] = qrot 0 1 (vec_at K o [y; (n1 - 1 - x)%nat]).
Proof. reflexivity. Qed.
Lemma valid_rot1 x y : valid' [x; y] = valid [y; (n1 - 1 - x)%nat].
Proof. reflexivity. Qed.

Lemma nbr_rot1 e x y :
  nbr K o' valid' e [x; y] = option_map (qrot 0 1) (nbr K o valid e [y; (n1 - 1 - x)%nat]).
Proof. unfold nbr. rewrite valid_rot1. destruct (e && _); [rewrite vec_at_rot1|]; reflexivity. Qed.

Theorem tcd_bl_quarter1 h1 h2 p q : (p < n1)%nat ->
  tcd_bl K Omega [n1; n0] h2 h1 o' valid' [p; q]
  = tcd_bl K Omega [n0; n1] h1 h2 o valid [q; (n1 - 1 - p)%nat].
Proof.
  intros Hp. rewrite !tcd_bl_cell. rewrite valid_rot1.
  destruct (valid [q; (n1 - 1 - p)%nat]); [|reflexivity].
  rewrite vec_at_rot1, !nbr_rot1. cbn [nth].
  set (j := (n1 - 1 - p)%nat).
  rewrite (nbr_cond_eq o valid (p + 1 <? n1)%nat (1 <=? j)%nat [q; (n1 - 1 - (p + 1))%nat] [q; (j - 1)%nat]).
  2:{ unfold j. destruct (Nat.ltb_spec (p + 1) n1), (Nat.leb_spec 1 (n1 - 1 - p)); try reflexivity; lia. }
  2:{ intros _. unfold j. f_equal. f_equal. lia. }
  rewrite (nbr_cond_eq o valid (1 <=? p)%nat (j + 1 <? n1)%nat [q; (n1 - 1 - (p - 1))%nat] [q; (j + 1)%nat]).
  2:{ unfold j. destruct (Nat.leb_spec 1 p), (Nat.ltb_spec (n1 - 1 - p + 1) n1); try reflexivity; lia. }
  2:{ intros Ht. apply Nat.ltb_lt in Ht. unfold j in *. f_equal. f_equal. lia. }
  apply (bl_cell_cyclic (qrot 0 1)). exact qrot1_angle.
Qed.

(* the same statement with numpy.rot90 on the right: the density is covariant *)
Theorem tcd_bl_quarter1_covariant h1 h2 p q : (p < n1)%nat ->
  tcd_bl K Omega (rot90_shape [n0; n1] 0 1 1) h2 h1 o' valid' [p; q]
  = rot90 [n0; n1] 0 1 1 (tcd_bl K Omega [n0; n1] h1 h2 o valid) [p; q].
Proof. exact (tcd_bl_quarter1 h1 h2 p q). Qed.
End K1.


(* ---------- k = 2 (half turn) and k = 3 ---------- *)
Lemma bl_cell_half (T : vec -> vec) h1 h2 v0 v1 v2 v3 v4 :
  (forall a b c, bl_angle K Omega (T a) (T b) (T c) = bl_angle K Omega a b c) ->
  bl_cell h1 h2 (T v0) (option_map T v3) (option_map T v4) (option_map T v1) (option_map T v2)
  = bl_cell h1 h2 v0 v1 v2 v3 v4.
Proof.
  intros HT. unfold bl_cell. cbv zeta.
  destruct v1, v2, v3, v4; cbn [option_map tri fst snd Nat.add Nat.ltb Nat.leb]; rewrite ?HT;
    try reflexivity; rewrite !(Fdiv_def HK); f_equal; try ring; f_equal; ring.
Qed.
Lemma bl_cell_cyclic3 (T : vec -> vec) h1 h2 v0 v1 v2 v3 v4 :
  (forall a b c, bl_angle K Omega (T a) (T b) (T c) = bl_angle K Omega a b c) ->
  bl_cell h2 h1 (T v0) (option_map T v2) (option_map T v3) (option_map T v4) (option_map T v1)
  = bl_cell h1 h2 v0 v1 v2 v3 v4.
Proof.
  intros HT. unfold bl_cell. cbv zeta.
  destruct v1, v2, v3, v4; cbn [option_map tri fst snd Nat.add Nat.ltb Nat.leb]; rewrite ?HT;
    try reflexivity; rewrite !(Fdiv_def HK); f_equal; try ring; f_equal; ring.
Qed.
Lemma qrot2_angle (a b c : vec) :
  bl_angle K Omega (qrot (fopp 1) 0 a) (qrot (fopp 1) 0 b) (qrot (fopp 1) 0 c) = bl_angle K Omega a b c.
Proof.
  unfold bl_angle. destruct a as [[a1 a2] a3], b as [[b1 b2] b3], c as [[c1 c2] c3].
  f_equal; unfold qrot, triple3, dot3, cross3, vx, vy, vz; cbn [fst snd]; ring.
Qed.
Lemma qrot3_angle (a b c : vec) :
  bl_angle K Omega (qrot 0 (fopp 1) a) (qrot 0 (fopp 1) b) (qrot 0 (fopp 1) c) = bl_angle K Omega a b c.
Proof.
  unfold bl_angle. destruct a as [[a1 a2] a3], b as [[b1 b2] b3], c as [[c1 c2] c3].
  f_equal; unfold qrot, triple3, dot3, cross3, vx, vy, vz; cbn [fst snd]; ring.
Qed.

Section K2.
Variables (n0 n1 : nat) (o : idx -> K) (valid : idx -> bool).
Let o' : idx -> K := rot_comp K (fst (kturn K 2)) (snd (kturn K 2)) 0 1 (rot90 [n0; n1; 3%nat] 0 1 2 o).
Let valid' : idx -> bool := rot90 [n0; n1] 0 1 2 valid.
Lemma vec_at_rot2 x y : vec_at K o' [x; y] = qrot (fopp 1) 0 (vec_at K o [(n0 - 1 - x)%nat; (n1 - 1 - y)%nat]).
Proof. reflexivity. Qed.
Lemma valid_rot2 x y : valid' [x; y] = valid [(n0 - 1 - x)%nat; (n1 - 1 - y)%nat].
Proof. reflexivity. Qed.
Lemma nbr_rot2 e x y :
  nbr K o' valid' e [x; y] = option_map (qrot (fopp 1) 0) (nbr K o valid e [(n0 - 1 - x)%nat; (n1 - 1 - y)%nat]).
Proof. unfold nbr. rewrite valid_rot2. destruct (e && _); [rewrite vec_at_rot2|]; reflexivity. Qed.

Theorem tcd_bl_quarter2 h1 h2 p q : (p < n0)%nat -> (q < n1)%nat ->
  tcd_bl K Omega [n0; n1] h1 h2 o' valid' [p; q]
  = tcd_bl K Omega [n0; n1] h1 h2 o valid [(n0 - 1 - p)%nat; (n1 - 1 - q)%nat].
Proof.
  intros Hp Hq. rewrite !tcd_bl_cell. rewrite valid_rot2.
  destruct (valid [(n0 - 1 - p)%nat; (n1 - 1 - q)%nat]); [|reflexivity].
  rewrite vec_at_rot2, !nbr_rot2. cbn [nth].
  set (i := (n0 - 1 - p)%nat). set (j := (n1 - 1 - q)%nat).
  rewrite (nbr_cond_eq o valid (p + 1 <? n0)%nat (1 <=? i)%nat [(n0 - 1 - (p + 1))%nat; j] [(i - 1)%nat; j]).
  2:{ unfold i. destruct (Nat.ltb_spec (p + 1) n0), (Nat.leb_spec 1 (n0 - 1 - p)); try reflexivity; lia. }
  2:{ intros _. unfold i. f_equal. lia. }
  rewrite (nbr_cond_eq o valid (q + 1 <? n1)%nat (1 <=? j)%nat [i; (n1 - 1 - (q + 1))%nat] [i; (j - 1)%nat]).
  2:{ unfold j. destruct (Nat.ltb_spec (q + 1) n1), (Nat.leb_spec 1 (n1 - 1 - q)); try reflexivity; lia. }
  2:{ intros _. unfold j. f_equal. f_equal. lia. }
  rewrite (nbr_cond_eq o valid (1 <=? p)%nat (i + 1 <? n0)%nat [(n0 - 1 - (p - 1))%nat; j] [(i + 1)%nat; j]).
  2:{ unfold i. destruct (Nat.leb_spec 1 p), (Nat.ltb_spec (n0 - 1 - p + 1) n0); try reflexivity; lia. }
  2:{ intros Ht. apply Nat.ltb_lt in Ht. unfold i in *. f_equal. lia. }
  rewrite (nbr_cond_eq o valid (1 <=? q)%nat (j + 1 <? n1)%nat [i; (n1 - 1 - (q - 1))%nat] [i; (j + 1)%nat]).
  2:{ unfold j. destruct (Nat.leb_spec 1 q), (Nat.ltb_spec (n1 - 1 - q + 1) n1); try reflexivity; lia. }
  2:{ intros Ht. apply Nat.ltb_lt in Ht. unfold j in *. f_equal. f_equal. lia. }
  apply (bl_cell_half (qrot (fopp 1) 0)). exact qrot2_angle.
Qed.
Theorem tcd_bl_quarter2_covariant h1 h2 p q : (p < n0)%nat -> (q < n1)%nat ->
  tcd_bl K Omega (rot90_shape [n0; n1] 0 1 2) h1 h2 o' valid' [p; q]
  = rot90 [n0; n1] 0 1 2 (tcd_bl K Omega [n0; n1] h1 h2 o valid) [p; q].
Proof. exact (tcd_bl_quarter2 h1 h2 p q). Qed.
End K2.

Section K3.
Variables (n0 n1 : nat) (o : idx -> K) (valid : idx -> bool).
Let o' : idx -> K := rot_comp K (fst (kturn K 3)) (snd (kturn K 3)) 0 1 (rot90 [n0; n1; 3%nat] 0 1 3 o).
Let valid' : idx -> bool := rot90 [n0; n1] 0 1 3 valid.
Lemma vec_at_rot3 x y : vec_at K o' [x; y] = qrot 0 (fopp 1) (vec_at K o [(n0 - 1 - y)%nat; x]).
Proof. reflexivity. Qed.
Lemma valid_rot3 x y : valid' [x; y] = valid [(n0 - 1 - y)%nat; x].
Proof. reflexivity. Qed.
Lemma nbr_rot3 e x y :
  nbr K o' valid' e [x; y] = option_map (qrot 0 (fopp 1)) (nbr K o valid e [(n0 - 1 - y)%nat; x]).
Proof. unfold nbr. rewrite valid_rot3. destruct (e && _); [rewrite vec_at_rot3|]; reflexivity. Qed.

Theorem tcd_bl_quarter3 h1 h2 p q : (q < n0)%nat ->
  tcd_bl K Omega [n1; n0] h2 h1 o' valid' [p; q]
  = tcd_bl K Omega [n0; n1] h1 h2 o valid [(n0 - 1 - q)%nat; p].
Proof.
  intros Hq. rewrite !tcd_bl_cell. rewrite valid_rot3.
  destruct (valid [(n0 - 1 - q)%nat; p]); [|reflexivity].
  rewrite vec_at_rot3, !nbr_rot3. cbn [nth].
  set (i := (n0 - 1 - q)%nat).
  rewrite (nbr_cond_eq o valid (q + 1 <? n0)%nat (1 <=? i)%nat [(n0 - 1 - (q + 1))%nat; p] [(i - 1)%nat; p]).
  2:{ unfold i. destruct (Nat.ltb_spec (q + 1) n0), (Nat.leb_spec 1 (n0 - 1 - q)); try reflexivity; lia. }
  2:{ intros _. unfold i. f_equal. lia. }
  rewrite (nbr_cond_eq o valid (1 <=? q)%nat (i + 1 <? n0)%nat [(n0 - 1 - (q - 1))%nat; p] [(i + 1)%nat; p]).
  2:{ unfold i. destruct (Nat.leb_spec 1 q), (Nat.ltb_spec (n0 - 1 - q + 1) n0); try reflexivity; lia. }
  2:{ intros Ht. apply Nat.ltb_lt in Ht. unfold i in *. f_equal. lia. }
  apply (bl_cell_cyclic3 (qrot 0 (fopp 1))). exact qrot3_angle.
Qed.
Theorem tcd_bl_quarter3_covariant h1 h2 p q : (q < n0)%nat ->
  tcd_bl K Omega (rot90_shape [n0; n1] 0 1 3) h2 h1 o' valid' [p; q]
  = rot90 [n0; n1] 0 1 3 (tcd_bl K Omega [n0; n1] h1 h2 o valid) [p; q].
Proof. exact (tcd_bl_quarter3 h1 h2 p q). Qed.
End K3.

End Quarter.

(* a concrete masked 2 x 3 lattice at Qc, with Omega(d12,d23,d31,tau) := tau + d12*d23 (an arbitrary,
   not even odd, function): the rotated field's density is the rot90 image of the density *)
From Coq Require Import Qcanon.
Definition ex_o : idx -> Qc :=
  of_list (Q2Qc 0) [2; 3; 3]%nat (qcl [1; 0; 0;  0; 1; 0;  0; 0; 1;  (3#5); (4#5); 0;  0; (3#5); (-4#5);  (1#3); (2#3); (2#3)]%Q).
Definition ex_valid : idx -> bool := of_list true [2; 3]%nat [true; true; false; true; true; true].
Definition ex_Om (a b c t : Qc) : Qc := (t + a * b)%Qc.
Definition quarter_example : bool :=
  let K := QcOps in
  let o1 := rot_comp K (fst (kturn K 1)) (snd (kturn K 1)) 0 1 (rot90 [2; 3; 3]%nat 0 1 1 ex_o) in
  let v1 := rot90 [2; 3]%nat 0 1 1 ex_valid in
  qclist_eqb (to_list [3; 2]%nat (tcd_bl K ex_Om [3; 2]%nat (qc 2) (qc (1#2)) o1 v1))
             (to_list [3; 2]%nat (rot90 [2; 3]%nat 0 1 1 (tcd_bl K ex_Om [2; 3]%nat (qc (1#2)) (qc 2) ex_o ex_valid)))
  && negb (qclist_eqb (to_list [2; 3]%nat (tcd_bl K ex_Om [2; 3]%nat (qc (1#2)) (qc 2) ex_o ex_valid))
                      (qcl [0; 0; 0; 0; 0; 0]%Q)).
Lemma quarter_example_ok : quarter_example = true.
Proof. vm_compute. reflexivity. Qed.
