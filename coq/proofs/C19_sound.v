(* C19: soundness of check_C19 - an accepted case certifies that the OBSERVED output of the
   tools.py functions is within the stated tolerance of the model's value on the recorded input
   (shapes, cell counts and mesh corners by equality), so the C19 theorems apply to the
   observation itself. *)
From Coq Require Import Qcanon Lqa.
From DF Require Import Prelude FieldK NDArray Diff Integrate Region Mesh Tools ListLemmas QLemmas
  CheckSound Check_C19 C08_arrays C19_vec C19_density C19_cont C19_angle.
Open Scope Q_scope.

Ltac split_andb :=
  repeat match goal with
         | H : _ && _ = true |- _ => apply andb_true_iff in H; destruct H
         end.

(* check_C19 = tables_complete && check_C19_core *)
Lemma check_core c : check_C19 c = true -> check_C19_core c = true.
Proof. unfold check_C19. intro H. apply andb_true_iff in H. exact (proj2 H). Qed.

Lemma check_tables c : check_C19 c = true -> tables_complete c = true.
Proof. unfold check_C19. intro H. apply andb_true_iff in H. exact (proj1 H). Qed.

Ltac to_core := let H := fresh in intro H; apply check_core in H; revert H; cbn [check_C19_core].

Definition within (e a b : Q) : Prop := Qabs (a - b) <= e.

(* the arrays the checker builds from the recorded lists *)
Definition varr (sh : list nat) (o : list Q) : idx -> Qc := of_list (f0 QcOps) (sh ++ [3%nat]) (qcl o).
Definition sarr (sh : list nat) (q : list Q) : idx -> Qc := of_list (f0 QcOps) sh (qcl q).
Definition marr (sh : list nat) (valid : list bool) : idx -> bool := of_list true sh valid.

(* an accepted list comparison against the C-order listing of an array: every in-range cell is close *)
Lemma close_list_array_sound t sc sh (r : idx -> Qc) (obs : list Q) :
  close_list t sc (to_list sh r) (qcl obs) = true ->
  length obs = nprod sh /\
  forall i, inb sh i = true -> within (t * sc) (this (r i)) (this (nth (ravel sh i) (qcl obs) 0%Qc)).
Proof.
  unfold close_list. intro H. apply qc_close_list_sound in H. destruct H as [Hl Hn].
  rewrite to_list_length in Hl. split.
  - unfold qcl in Hl. rewrite map_length in Hl. symmetry. exact Hl.
  - intros i Hi. unfold within. rewrite <- (nth_to_list sh r i 0%Qc Hi).
    apply Hn. rewrite to_list_length. apply ravel_lt. exact Hi.
Qed.

(* ---------- continuous density ---------- *)
Lemma check_tcd_cont_sound sh h1 h2 per1 per2 c4 o valid obs :
  check_C19 (CTcdCont sh h1 h2 per1 per2 c4 o valid obs) = true ->
  length sh = 2%nat /\ length o = nprod (sh ++ [3%nat]) /\ length valid = nprod sh /\
  length obs = nprod sh /\
  forall i, inb sh i = true ->
    within (tol9 * (16 * Qabs c4 * hmin2 h1 h2))
           (this (tcd_cont QcOps (qc c4) sh (qc h1) (qc h2) per1 per2 (varr sh o) (marr sh valid) i))
           (this (nth (ravel sh i) (qcl obs) 0%Qc)).
Proof.
  to_core. cbv zeta. intro H. split_andb.
  match goal with Hc : close_list _ _ _ _ = true |- _ => apply close_list_array_sound in Hc; destruct Hc as [Hl Hn] end.
  repeat split; try (apply Nat.eqb_eq; assumption); [exact Hl | exact Hn].
Qed.

(* ---------- Berg-Luescher density ---------- *)
Lemma check_tcd_bl_sound sh h1 h2 o valid table obs :
  check_C19 (CTcdBL sh h1 h2 o valid table obs) = true ->
  length sh = 2%nat /\ length o = nprod (sh ++ [3%nat]) /\ length valid = nprod sh /\
  length obs = nprod sh /\
  forall i, inb sh i = true ->
    within (tol9 * (4 * hmin2 h1 h2))
           (this (tcd_bl QcOps (lookup4 table) sh (qc h1) (qc h2) (varr sh o) (marr sh valid) i))
           (this (nth (ravel sh i) (qcl obs) 0%Qc)).
Proof.
  to_core. cbv zeta. intro H. split_andb.
  match goal with Hc : close_list _ _ _ _ = true |- _ => apply close_list_array_sound in Hc; destruct Hc as [Hl Hn] end.
  repeat split; try (apply Nat.eqb_eq; assumption); [exact Hl | exact Hn].
Qed.

(* ---------- charge ---------- *)
Definition charge_scale (dV : Q) (q : list Q) : Q := Qabs dV * qsum (map Qabs q) + 1.

Lemma check_charge_sound absolute sh dV q obs :
  check_C19 (CCharge absolute sh dV q obs) = true ->
  length q = nprod sh /\
  within (tol9 * charge_scale dV q)
         (this (charge QcOps qc_abs absolute sh (qc dV) (sarr sh q))) (this (qc obs)).
Proof.
  to_core. cbv zeta. intro H. split_andb. split.
  - apply Nat.eqb_eq. assumption.
  - unfold within, charge_scale. apply qc_close_sound. assumption.
Qed.

(* ---------- neighbouring-cell angles ---------- *)
Lemma check_angle_sound sh ax deg deg_factor o acos_table obs_shape obs :
  check_C19 (CAngle sh ax deg deg_factor o acos_table obs_shape obs) = true ->
  length o = nprod (sh ++ [3%nat]) /\ obs_shape = angle_shape sh ax /\
  length obs = nprod (angle_shape sh ax) /\
  forall i, inb (angle_shape sh ax) i = true ->
    within (tol6 * (if deg then 180 else 1))
           (this (angle_arr QcOps (lookup1 acos_table) qc_clip (fun x => Qcmult x (qc deg_factor)) ax deg
                            (varr sh o) i))
           (this (nth (ravel (angle_shape sh ax) i) (qcl obs) 0%Qc)).
Proof.
  to_core. cbv zeta. intro H. split_andb.
  match goal with Hc : close_list _ _ _ _ = true |- _ => apply close_list_array_sound in Hc; destruct Hc as [Hl Hn] end.
  repeat split.
  - apply Nat.eqb_eq. assumption.
  - symmetry. apply natlist_eqb_sound. assumption.
  - exact Hl.
  - exact Hn.
Qed.

(* ---------- the shortened mesh ---------- *)
Definition src_mesh (p1 p2 : list Q) (n_ : list Z) : res mesh :=
  do r <- mk_region p1 p2 None None (1 # 1000000000000); mk_mesh_n r n_.

Lemma check_angle_mesh_sound p1 p2 n_ ax lo hi k :
  check_C19 (CAngleMesh p1 p2 n_ ax (Some (lo, hi, k))) = true ->
  exists m a, src_mesh p1 p2 n_ = OK m /\ angle_mesh m ax = OK a /\
              Forall2 Qeq (pmin (reg a)) lo /\ Forall2 Qeq (pmax (reg a)) hi /\ n a = k.
Proof.
  to_core. fold (src_mesh p1 p2 n_).
  destruct (src_mesh p1 p2 n_) as [m|e]; [|discriminate].
  destruct (angle_mesh m ax) as [a|e] eqn:Ea; [|discriminate].
  intro H. split_andb. exists m, a. split; [reflexivity|]. split; [exact Ea|]. repeat split.
  - apply qlist_eqb_sound_gen. assumption.
  - apply qlist_eqb_sound_gen. assumption.
  - apply zlist_eqb_sound_gen. assumption.
Qed.

Lemma check_angle_mesh_reject_sound p1 p2 n_ ax :
  check_C19 (CAngleMesh p1 p2 n_ ax None) = true ->
  exists m e, src_mesh p1 p2 n_ = OK m /\ angle_mesh m ax = Err e.
Proof.
  to_core. fold (src_mesh p1 p2 n_).
  destruct (src_mesh p1 p2 n_) as [m|e]; [|discriminate].
  destruct (angle_mesh m ax) as [a|e] eqn:Ea; [discriminate|].
  intros _. exists m, e. split; [reflexivity | exact Ea].
Qed.

(* ---------- emergent field ---------- *)
Definition emergent_scale (h m : list Q) : Q :=
  16 * (1 + qsum (map (fun x => Qabs x * Qabs x * Qabs x) m)) / (qlist_min h * qlist_min h).

Lemma check_emergent_sound sh h per m valid obs :
  check_C19 (CEmergent sh h per m valid obs) = true ->
  length sh = 3%nat /\ length m = nprod (sh ++ [3%nat]) /\ length valid = nprod sh /\
  length obs = nprod (sh ++ [3%nat]) /\
  forall i, inb (sh ++ [3%nat]) i = true ->
    within (tol9 * emergent_scale h m)
           (this (emergent QcOps sh (qcl h) per (varr sh m) (marr sh valid) i))
           (this (nth (ravel (sh ++ [3%nat]) i) (qcl obs) 0%Qc)).
Proof.
  to_core. cbv zeta. intro H. split_andb.
  match goal with Hc : close_list _ _ _ _ = true |- _ => apply close_list_array_sound in Hc; destruct Hc as [Hl Hn] end.
  repeat split; try (apply Nat.eqb_eq; assumption); [exact Hl | exact Hn].
Qed.

(* ---------- Bloch-point numbers: each observed integer is the rounding of the model's cumulative
   number moved by at most 1e-6 one way or the other ---------- *)
Definition round_near (x : Qc) (z : Z) : Prop :=
  z = Qround_half_even (this x - tol6) \/ z = Qround_half_even (this x + tol6).

Lemma round_admissible_sound x z : round_admissible x z = true -> round_near x z.
Proof.
  unfold round_admissible, round_near. intro H. apply orb_true_iff in H.
  destruct H as [H|H]; apply Z.eqb_eq in H; [left | right]; exact H.
Qed.

Lemma check_bps_sound sh h per dir c4 o valid obs_numbers :
  check_C19 (CBps sh h per dir c4 o valid obs_numbers) = true ->
  length sh = 3%nat /\ length o = nprod (sh ++ [3%nat]) /\ length valid = nprod sh /\
  Forall2 round_near
          (bp_cum QcOps (qc c4) (qc (nth dir h 0))
                  (bp_profile QcOps sh (qcl h) per dir (varr sh o) (marr sh valid)))
          obs_numbers.
Proof.
  to_core. cbv zeta. intro H. split_andb.
  repeat split; try (apply Nat.eqb_eq; assumption).
  match goal with Hc : forallb2 _ _ _ = true |- _ => revert Hc end.
  apply forallb2_Forall2_gen. exact round_admissible_sound.
Qed.

(* ---------- demag tensor ---------- *)
Definition N6_at (pi4 : Q) (cell_ : list Q) (ftab gtab : list q3v) (p : list Q) : list Qc :=
  N6 QcOps (lookup3 ftab) (lookup3 gtab) (qc pi4)
     (qc (nth 0 cell_ 0)) (qc (nth 1 cell_ 0)) (qc (nth 2 cell_ 0))
     (qc (nth 0 p 0)) (qc (nth 1 p 0)) (qc (nth 2 p 0)).

Definition six_close (l : list Qc) (ob : list Q) : Prop :=
  length ob = 6%nat /\
  forall c, (c < 6)%nat -> within (tol6 * 1) (this (nth c l 0%Qc)) (this (nth c (qcl ob) 0%Qc)).

Lemma check_demag_sound pi4 cell_ pts ftab gtab obs :
  check_C19 (CDemagN pi4 cell_ pts ftab gtab obs) = true ->
  length cell_ = 3%nat /\
  Forall2 (fun p ob => six_close (N6_at pi4 cell_ ftab gtab p) ob) pts obs.
Proof.
  to_core. cbv zeta. intro H. split_andb. split; [apply Nat.eqb_eq; assumption|].
  match goal with Hc : forallb2 _ _ _ = true |- _ => revert Hc end.
  apply forallb2_Forall2_gen. intros p ob Hc. unfold close_list in Hc.
  apply qc_close_list_sound in Hc. destruct Hc as [Hl Hn]. fold (N6_at pi4 cell_ ftab gtab p) in Hl, Hn.
  change (length (N6_at pi4 cell_ ftab gtab p)) with 6%nat in Hl, Hn.
  split.
  - unfold qcl in Hl. rewrite map_length in Hl. symmetry. exact Hl.
  - exact Hn.
Qed.

(* ================= transfer theorems ================= *)

(* the observed angle (radians) at cell i is within 1e-6 of the recorded arccos of the clipped dot
   product of the cell's vector with its next neighbour along the chosen direction *)
Theorem accepted_angle_value sh ax deg_factor o acos_table obs_shape obs i :
  check_C19 (CAngle sh ax false deg_factor o acos_table obs_shape obs) = true ->
  inb (angle_shape sh ax) i = true ->
  within (tol6 * 1)
    (this (lookup1 acos_table (qc_clip (dot3 QcOps (vec_at QcOps (varr sh o) i)
                 (vec_at QcOps (varr sh o) (set_nth ax (nth ax i 0%nat + 1)%nat i))))))
    (this (nth (ravel (angle_shape sh ax) i) (qcl obs) 0%Qc)).
Proof.
  intros H Hi. apply check_angle_sound in H. destruct H as (_ & _ & _ & Hn).
  specialize (Hn i Hi). rewrite angle_value in Hn. exact Hn.
Qed.

(* the observed shape: one cell fewer along the chosen direction, the others unchanged *)
Theorem accepted_angle_shape sh ax deg deg_factor o acos_table obs_shape obs :
  check_C19 (CAngle sh ax deg deg_factor o acos_table obs_shape obs) = true ->
  (ax < length sh)%nat ->
  nth ax obs_shape 0%nat = (nth ax sh 0%nat - 1)%nat /\
  (forall b, b <> ax -> nth b obs_shape 0%nat = nth b sh 0%nat) /\
  length obs = nprod obs_shape.
Proof.
  intros H Hax. apply check_angle_sound in H. destruct H as (_ & -> & Hl & _).
  destruct (angle_shape_axis sh ax Hax) as [A B]. split; [exact A|]. split; [exact B | exact Hl].
Qed.

(* two accepted charges, of a density and of the reversed density: the observed values add up to
   zero within the two tolerances *)
Lemma Q2Qc_opp (x : Q) : Q2Qc (- x) = (- Q2Qc x)%Qc.
Proof.
  apply Qc_is_canon. unfold Qcopp, Q2Qc, this. rewrite !Qred_correct. reflexivity.
Qed.

Lemma nth_qcl_opp q : forall k, nth k (qcl (map Qopp q)) 0%Qc = (- nth k (qcl q) 0%Qc)%Qc.
Proof.
  induction q as [|x q IH]; intros [|k]; cbn [qcl map nth]; try (apply Qc_is_canon; reflexivity).
  - apply Q2Qc_opp.
  - apply IH.
Qed.

Lemma sarr_opp sh q i : sarr sh (map Qopp q) i = @fopp QcOps (sarr sh q i).
Proof. unfold sarr, of_list. apply nth_qcl_opp. Qed.

Theorem accepted_charge_reversal sh dV q obs1 obs2 :
  check_C19 (CCharge false sh dV q obs1) = true ->
  check_C19 (CCharge false sh dV (map Qopp q) obs2) = true ->
  Qabs (obs1 + obs2) <= tol9 * charge_scale dV q + tol9 * charge_scale dV (map Qopp q).
Proof.
  intros H1 H2. apply check_charge_sound in H1, H2. destruct H1 as [_ H1], H2 as [_ H2].
  rewrite (charge_ext QcOps qc_abs false sh (qc dV) _ (fun i => @fopp QcOps (sarr sh q i)) (sarr_opp sh q)) in H2.
  rewrite (charge_neg QcOps QcLaws qc_abs sh (qc dV) (sarr sh q)) in H2.
  unfold within in *.
  set (c := charge QcOps qc_abs false sh (qc dV) (sarr sh q)) in *.
  assert (E1 : this (qc obs1) == obs1) by (apply Qred_correct).
  assert (E2 : this (qc obs2) == obs2) by (apply Qred_correct).
  assert (E3 : this (@fopp QcOps c) == - this c) by (apply Qred_correct).
  rewrite E1 in H1. rewrite E2, E3 in H2.
  apply Qabs_Qle_condition in H1, H2. apply Qabs_Qle_condition.
  destruct H1, H2. split; lra.
Qed.

(* non-vacuity: concrete accepted cases *)
Example accepted_charge_instance :
  check_C19 (CCharge false [2]%nat (1#2) [1; 3] 2) = true /\
  check_C19 (CCharge false [2]%nat (1#2) (map Qopp [1; 3]) (-2)) = true.
Proof. vm_compute. split; reflexivity. Qed.

Example accepted_angle_instance :
  check_C19 (CAngle [2]%nat 0 false 1 [1; 0; 0; 0; 1; 0] [(0, 11#7)] [1]%nat [11#7]) = true.
Proof. vm_compute. reflexivity. Qed.

(* ---------- rotation invariance on two OBSERVED Berg-Luescher densities ---------- *)
(* the density at an in-range cell reads the orientation array at in-range cells only *)
Lemma tcd_bl_inrange_ext (K : FOps) Omega n0 n1 h1 h2 (o o' : idx -> K) valid i j :
  (i < n0)%nat -> (j < n1)%nat ->
  (forall a b, (a < n0)%nat -> (b < n1)%nat -> vec_at K o [a; b] = vec_at K o' [a; b]) ->
  tcd_bl K Omega [n0; n1] h1 h2 o valid [i; j] = tcd_bl K Omega [n0; n1] h1 h2 o' valid [i; j].
Proof.
  intros Hi Hj HE.
  assert (N : forall e a b, (e = true -> (a < n0)%nat /\ (b < n1)%nat) ->
                            nbr K o valid e [a; b] = nbr K o' valid e [a; b]).
  { intros e a b He. unfold nbr. destruct e; [|reflexivity]. destruct (He eq_refl) as [Ha Hb].
    rewrite (HE a b Ha Hb). reflexivity. }
  unfold tcd_bl. cbv zeta. cbn [nth].
  rewrite (HE i j Hi Hj).
  rewrite (N (i + 1 <? n0)%nat (i + 1)%nat j) by (intro E; apply Nat.ltb_lt in E; lia).
  rewrite (N (j + 1 <? n1)%nat i (j + 1)%nat) by (intro E; apply Nat.ltb_lt in E; lia).
  rewrite (N (1 <=? i)%nat (i - 1)%nat j) by (intro E; apply Nat.leb_le in E; lia).
  rewrite (N (1 <=? j)%nat i (j - 1)%nat) by (intro E; apply Nat.leb_le in E; lia).
  reflexivity.
Qed.

Lemma within_chain e1 e2 m a b : within e1 m a -> within e2 m b -> Qabs (a - b) <= e1 + e2.
Proof.
  unfold within. intros H1 H2. apply Qabs_Qle_condition in H1, H2. apply Qabs_Qle_condition.
  destruct H1, H2. split; lra.
Qed.

(* two accepted observations, the second of the field whose vectors are the first's turned by a proper
   rotation M (cell by cell, in-range cells only; same mask, same recorded solid angles): the two
   OBSERVED densities agree within the two tolerances at every cell *)
Theorem accepted_lattice_rotation n0 n1 h1 h2 o o' valid table obs obs' (M : mat3 QcOps) i j :
  check_C19 (CTcdBL [n0; n1] h1 h2 o valid table obs) = true ->
  check_C19 (CTcdBL [n0; n1] h1 h2 o' valid table obs') = true ->
  col_orthogonal QcOps M -> det3 QcOps M = f1 QcOps ->
  (forall a b, (a < n0)%nat -> (b < n1)%nat ->
     vec_at QcOps (varr [n0; n1] o') [a; b] = mv QcOps M (vec_at QcOps (varr [n0; n1] o) [a; b])) ->
  (i < n0)%nat -> (j < n1)%nat ->
  Qabs (this (nth (ravel [n0; n1] [i; j]) (qcl obs) 0%Qc) - this (nth (ravel [n0; n1] [i; j]) (qcl obs') 0%Qc))
  <= tol9 * (4 * hmin2 h1 h2) + tol9 * (4 * hmin2 h1 h2).
Proof.
  intros H1 H2 HO HD HR Hi Hj.
  apply check_tcd_bl_sound in H1, H2.
  destruct H1 as (_ & _ & _ & _ & H1), H2 as (_ & _ & _ & _ & H2).
  assert (Hin : inb [n0; n1] [i; j] = true).
  { cbn [inb]. apply Nat.ltb_lt in Hi, Hj. rewrite Hi, Hj. reflexivity. }
  specialize (H1 _ Hin). specialize (H2 _ Hin).
  rewrite (tcd_bl_inrange_ext QcOps (lookup4 table) n0 n1 (qc h1) (qc h2) (varr [n0; n1] o')
             (amap QcOps (mv QcOps M) (varr [n0; n1] o)) (marr [n0; n1] valid) i j Hi Hj) in H2.
  - rewrite (tcd_bl_rot QcOps QcLaws (lookup4 table) M [n0; n1] (qc h1) (qc h2) (varr [n0; n1] o)
               (marr [n0; n1] valid) [i; j] HO HD) in H2.
    exact (within_chain _ _ _ _ _ H1 H2).
  - intros a b Ha Hb. rewrite vec_at_amap. apply HR; assumption.
Qed.

(* ---------- coordinate relabelling on two OBSERVED demag tensors ---------- *)
(* the yy component observed for cell (dx,dy,dz) at (x,y,z) and the xx component observed for the
   cyclically relabelled problem (same recorded Newell tables) agree within the two tolerances *)
Theorem accepted_demag_relabel pi4 dx dy dz x y z ftab gtab ob1 ob2 :
  check_C19 (CDemagN pi4 [dx; dy; dz] [[x; y; z]] ftab gtab [ob1]) = true ->
  check_C19 (CDemagN pi4 [dy; dz; dx] [[y; z; x]] ftab gtab [ob2]) = true ->
  Qabs (this (nth 1 (qcl ob1) 0%Qc) - this (nth 0 (qcl ob2) 0%Qc)) <= tol6 * 1 + tol6 * 1.
Proof.
  intros H1 H2. apply check_demag_sound in H1, H2. destruct H1 as [_ H1], H2 as [_ H2].
  inversion H1 as [|? ? ? ? [_ A] _]; subst. inversion H2 as [|? ? ? ? [_ B] _]; subst.
  specialize (A 1%nat ltac:(lia)). specialize (B 0%nat ltac:(lia)).
  unfold N6_at in A, B. cbn [nth] in A, B.
  assert (A' : within (tol6 * 1)
                 (this (nth 0 (N6 QcOps (lookup3 ftab) (lookup3 gtab) (qc pi4) (qc dy) (qc dz) (qc dx)
                                  (qc y) (qc z) (qc x)) 0%Qc))
                 (this (nth 1 (qcl ob1) 0%Qc))).
  { destruct (N6_relabel QcOps (lookup3 ftab) (lookup3 gtab) (qc pi4) (qc dx) (qc dy) (qc dz)
                         (qc x) (qc y) (qc z)) as [E _].
    change (nth 0 (N6 QcOps (lookup3 ftab) (lookup3 gtab) (qc pi4) (qc dy) (qc dz) (qc dx)
                      (qc y) (qc z) (qc x)) 0%Qc)
      with (nth 0 (N6 QcOps (lookup3 ftab) (lookup3 gtab) (qc pi4) (qc dy) (qc dz) (qc dx)
                      (qc y) (qc z) (qc x)) (f0 QcOps)).
    rewrite <- E. exact A. }
  exact (within_chain _ _ _ _ _ A' B).
Qed.

(* non-vacuity of the rotation transfer: a 2x2 lattice and its quarter turn about z, with the
   recorded solid angles of the two octant triangles; every hypothesis of accepted_lattice_rotation holds *)
Definition ex_o1 : list Q := [1;0;0; 0;1;0; 0;0;1; 1;0;0].
Definition ex_o2 : list Q := [0;1;0; -1;0;0; 0;0;1; 0;1;0].
Definition ex_tb : list q4 := [(0,0,0,-1,-(1#8)); (0,0,0,1,1#8); (0,1,0,0,0)].
Definition ex_M : mat3 QcOps := ((qc 0, qc (-1), qc 0), (qc 1, qc 0, qc 0), (qc 0, qc 0, qc 1)).

Example accepted_lattice_rotation_instance :
  check_C19 (CTcdBL [2;2]%nat 1 1 ex_o1 [true;true;true;true] ex_tb [-(1#4); 0; 0; 1#4]) = true /\
  check_C19 (CTcdBL [2;2]%nat 1 1 ex_o2 [true;true;true;true] ex_tb [-(1#4); 0; 0; 1#4]) = true /\
  col_orthogonal QcOps ex_M /\ det3 QcOps ex_M = f1 QcOps /\
  (forall a b, (a < 2)%nat -> (b < 2)%nat ->
     vec_at QcOps (varr [2;2]%nat ex_o2) [a; b] = mv QcOps ex_M (vec_at QcOps (varr [2;2]%nat ex_o1) [a; b])).
Proof.
  split; [vm_compute; reflexivity|]. split; [vm_compute; reflexivity|].
  split; [repeat split; apply Qc_is_canon; vm_compute; reflexivity|].
  split; [apply Qc_is_canon; vm_compute; reflexivity|].
  intros a b Ha Hb.
  destruct a as [|[|a]]; [| |lia]; (destruct b as [|[|b]]; [| |lia]);
    unfold vec_at, mv, dot3; repeat f_equal; apply Qc_is_canon; vm_compute; reflexivity.
Qed.

(* with empty Newell tables the demag case is now REJECTED (before the completeness conjunct it was
   accepted with an all-zero observation) *)
Example empty_tables_rejected :
  check_C19 (CDemagN (88#7) [1; 2; 3] [[1; 2; 3]] [] [] [[0;0;0;0;0;0]]) = false /\
  check_C19_core (CDemagN (88#7) [1; 2; 3] [[1; 2; 3]] [] [] [[0;0;0;0;0;0]]) = true /\
  check_C19 (CTcdBL [2;2]%nat 1 1 ex_o1 [true;true;true;true] [] [0; 0; 0; 0]) = false /\
  check_C19 (CAngle [2]%nat 0 false 1 [1; 0; 0; 0; 1; 0] [] [1]%nat [0]) = false.
Proof. vm_compute. repeat split; reflexivity. Qed.

(* uniform in-range orientation: the OBSERVED Berg-Luescher density is zero within the tolerance
   (the recorded solid angles vanish on degenerate triangles) *)
Theorem accepted_lattice_uniform n0 n1 h1 h2 o valid table obs (v : vec QcOps) i j :
  check_C19 (CTcdBL [n0; n1] h1 h2 o valid table obs) = true ->
  (forall d1 d2 d3, lookup4 table d1 d2 d3 (f0 QcOps) = f0 QcOps) ->
  (forall a b, (a < n0)%nat -> (b < n1)%nat -> vec_at QcOps (varr [n0; n1] o) [a; b] = v) ->
  (i < n0)%nat -> (j < n1)%nat ->
  Qabs (this (nth (ravel [n0; n1] [i; j]) (qcl obs) 0%Qc)) <= tol9 * (4 * hmin2 h1 h2).
Proof.
  intros H HZ HU Hi Hj. apply check_tcd_bl_sound in H. destruct H as (_ & _ & _ & _ & H).
  assert (Hin : inb [n0; n1] [i; j] = true).
  { cbn [inb]. apply Nat.ltb_lt in Hi, Hj. rewrite Hi, Hj. reflexivity. }
  specialize (H _ Hin).
  rewrite (tcd_bl_inrange_ext QcOps (lookup4 table) n0 n1 (qc h1) (qc h2) (varr [n0; n1] o)
             (amap QcOps (fun _ => v) (varr [n0; n1] o)) (marr [n0; n1] valid) i j Hi Hj) in H.
  - rewrite (tcd_bl_uniform QcOps QcLaws (lookup4 table) [n0; n1] (qc h1) (qc h2) _ (marr [n0; n1] valid) v [i; j] HZ) in H.
    + unfold within in H. apply Qabs_Qle_condition in H. apply Qabs_Qle_condition.
      change (this (f0 QcOps)) with 0 in H. destruct H. split; lra.
    + intro k. apply vec_at_amap.
  - intros a b Ha Hb. rewrite vec_at_amap. apply HU; assumption.
Qed.

(* ================= completeness of the recorded tables ================= *)
Lemma In_indices sh i : inb sh i = true -> In i (indices sh).
Proof.
  intro H. rewrite <- (nth_ravel_indices sh i [] H). apply nth_In.
  rewrite indices_length. apply ravel_lt. exact H.
Qed.

(* what the completeness conjunct certifies, per kind of case *)
Definition tables_ok (c : c19_case) : Prop :=
  match c with
  | CTcdBL sh h1 h2 o valid table obs =>
      forall ij, inb sh ij = true ->
      forall a b c d, In (a, b, c, d) (bl_keys sh (varr sh o) (marr sh valid) ij) -> has4 table a b c d = true
  | CAngle sh ax deg deg_factor o acos_table obs_shape obs =>
      forall i, inb (angle_shape sh ax) i = true -> has1 acos_table (angle_key ax (varr sh o) i) = true
  | CDemagN pi4 cell_ pts ftab gtab obs =>
      forall p, In p pts ->
        (forall a b c, In (a, b, c) (demag_fkeys (qc (nth 0 cell_ 0)) (qc (nth 1 cell_ 0)) (qc (nth 2 cell_ 0))
                                        (qc (nth 0 p 0)) (qc (nth 1 p 0)) (qc (nth 2 p 0))) ->
                       has3 ftab a b c = true) /\
        (forall a b c, In (a, b, c) (demag_gkeys (qc (nth 0 cell_ 0)) (qc (nth 1 cell_ 0)) (qc (nth 2 cell_ 0))
                                        (qc (nth 0 p 0)) (qc (nth 1 p 0)) (qc (nth 2 p 0))) ->
                       has3 gtab a b c = true)
  | _ => True
  end.

Theorem check_tables_complete c : check_C19 c = true -> tables_ok c.
Proof.
  intro H. apply check_tables in H. destruct c; cbn [tables_ok]; try exact I; cbn [tables_complete] in H; cbv zeta in H.
  - intros ij Hij a b c d Hk. rewrite forallb_forall in H. specialize (H ij (In_indices _ _ Hij)).
    rewrite forallb_forall in H. exact (H (a, b, c, d) Hk).
  - intros i Hi. rewrite forallb_forall in H. exact (H i (In_indices _ _ Hi)).
  - intros p Hp. rewrite forallb_forall in H. specialize (H p Hp).
    apply andb_true_iff in H. destruct H as [Hf Hg]. rewrite forallb_forall in Hf, Hg. split.
    + intros a b c Hk. exact (Hf (a, b, c) Hk).
    + intros a b c Hk. exact (Hg (a, b, c) Hk).
Qed.

(* a present key is read from a recorded entry (never the default 0 of an absent key) *)
Lemma has1_lookup1 t a : has1 t a = true ->
  exists k v, In (k, v) t /\ k == this a /\ lookup1 t a = Q2Qc v.
Proof.
  induction t as [|[k v] t IH]; cbn [has1 lookup1]; [discriminate|].
  destruct (Qeq_bool k (this a)) eqn:E; cbn [orb].
  - intros _. exists k, v. split; [left; reflexivity|]. split; [apply Qeq_bool_eq; exact E | reflexivity].
  - intro H. destruct (IH H) as (k' & v' & Hin & Hk & Hl). exists k', v'. split; [right; exact Hin|]. split; assumption.
Qed.

Lemma has3_lookup3 t a b c : has3 t a b c = true ->
  exists ka kb kc v, In (ka, kb, kc, v) t /\ ka == this a /\ kb == this b /\ kc == this c /\
                     lookup3 t a b c = Q2Qc v.
Proof.
  induction t as [|[[[ka kb] kc] v] t IH]; cbn [has3 lookup3]; [discriminate|].
  destruct (Qeq_bool ka (this a) && Qeq_bool kb (this b) && Qeq_bool kc (this c)) eqn:E; cbn [orb].
  - intros _. apply andb_true_iff in E. destruct E as [E E3]. apply andb_true_iff in E. destruct E as [E1 E2].
    exists ka, kb, kc, v. split; [left; reflexivity|].
    repeat split; try (apply Qeq_bool_eq; assumption).
  - intro H. destruct (IH H) as (ka' & kb' & kc' & v' & Hin & H1 & H2 & H3 & Hl).
    exists ka', kb', kc', v'. split; [right; exact Hin|]. repeat split; assumption.
Qed.

Lemma has4_lookup4 t a b c d : has4 t a b c d = true ->
  exists ka kb kc kd v, In (ka, kb, kc, kd, v) t /\ ka == this a /\ kb == this b /\ kc == this c /\
                        kd == this d /\ lookup4 t a b c d = Q2Qc v.
Proof.
  induction t as [|[[[[ka kb] kc] kd] v] t IH]; cbn [has4 lookup4]; [discriminate|].
  destruct (Qeq_bool ka (this a) && Qeq_bool kb (this b) && Qeq_bool kc (this c) && Qeq_bool kd (this d)) eqn:E;
    cbn [orb].
  - intros _. apply andb_true_iff in E. destruct E as [E E4]. apply andb_true_iff in E. destruct E as [E E3].
    apply andb_true_iff in E. destruct E as [E1 E2].
    exists ka, kb, kc, kd, v. split; [left; reflexivity|].
    repeat split; try (apply Qeq_bool_eq; assumption).
  - intro H. destruct (IH H) as (ka' & kb' & kc' & kd' & v' & Hin & H1 & H2 & H3 & H4 & Hl).
    exists ka', kb', kc', kd', v'. split; [right; exact Hin|]. repeat split; assumption.
Qed.

(* the key lists are the model's own reads: the model values depend on the tabled function through
   the listed keys only *)
Theorem tcd_bl_reads_keys (Om Om' : Qc -> Qc -> Qc -> Qc -> Qc) sh h1 h2 (o : idx -> Qc) valid ij :
  (forall a b c d, In (a, b, c, d) (bl_keys sh o valid ij) -> Om a b c d = Om' a b c d) ->
  tcd_bl QcOps Om sh h1 h2 o valid ij = tcd_bl QcOps Om' sh h1 h2 o valid ij.
Proof.
  unfold tcd_bl, bl_keys. cbv zeta.
  destruct (valid [nth 0 ij 0%nat; nth 1 ij 0%nat]); [|reflexivity].
  generalize (vec_at QcOps o [nth 0 ij 0%nat; nth 1 ij 0%nat]) as v0.
  generalize (nbr QcOps o valid (nth 0 ij 0 + 1 <? nth 0 sh 0)%nat [(nth 0 ij 0 + 1)%nat; nth 1 ij 0%nat]) as v1.
  generalize (nbr QcOps o valid (nth 1 ij 0 + 1 <? nth 1 sh 0)%nat [nth 0 ij 0%nat; (nth 1 ij 0 + 1)%nat]) as v2.
  generalize (nbr QcOps o valid (1 <=? nth 0 ij 0)%nat [(nth 0 ij 0 - 1)%nat; nth 1 ij 0%nat]) as v3.
  generalize (nbr QcOps o valid (1 <=? nth 1 ij 0)%nat [nth 0 ij 0%nat; (nth 1 ij 0 - 1)%nat]) as v4.
  intros v4 v3 v2 v1 v0 H.
  assert (T : forall a b, (forall p q r s, In (p, q, r, s) (tri_keys v0 a b) -> Om p q r s = Om' p q r s) ->
                          tri QcOps Om v0 a b = tri QcOps Om' v0 a b).
  { intros a b Hab. destruct a as [x|], b as [y|]; cbn [tri]; try reflexivity.
    unfold bl_angle. rewrite (Hab _ _ _ _ (or_introl eq_refl)). reflexivity. }
  rewrite (T v1 v2), (T v2 v3), (T v3 v4), (T v4 v1); [reflexivity| | | |];
    intros p q r s Hin; apply H; repeat (apply in_or_app; (left; exact Hin) || right); try exact Hin.
Qed.

Theorem angle_reads_key (acosf degf : Qc -> Qc) ax deg (o : idx -> Qc) i :
  angle_arr QcOps acosf qc_clip degf ax deg o i
  = (if deg then degf (acosf (angle_key ax o i)) else acosf (angle_key ax o i)).
Proof. reflexivity. Qed.

Lemma fold_left_ext_in {A B} (f g : A -> B -> A) l : forall acc,
  (forall a x, In x l -> f a x = g a x) -> fold_left f l acc = fold_left g l acc.
Proof.
  induction l as [|x l IH]; intros acc H; [reflexivity|]. cbn [fold_left].
  rewrite (H acc x (or_introl eq_refl)). apply IH. intros a y Hy. apply H. right. exact Hy.
Qed.

Theorem N_sum_reads_keys (F_ F' : Qc -> Qc -> Qc -> Qc) x y z dx dy dz :
  (forall a b c, In (a, b, c) (N_keys x y z dx dy dz) -> F_ a b c = F' a b c) ->
  N_sum QcOps F_ x y z dx dy dz = N_sum QcOps F' x y z dx dy dz.
Proof.
  intro H. unfold N_sum. apply fold_left_ext_in. intros acc i Hi.
  rewrite (H _ _ _ (in_map _ bits6 i Hi)). reflexivity.
Qed.

Theorem N6_reads_keys (fN fN' gN gN' : Qc -> Qc -> Qc -> Qc) pi4 dx dy dz x y z :
  (forall a b c, In (a, b, c) (demag_fkeys dx dy dz x y z) -> fN a b c = fN' a b c) ->
  (forall a b c, In (a, b, c) (demag_gkeys dx dy dz x y z) -> gN a b c = gN' a b c) ->
  N6 QcOps fN gN pi4 dx dy dz x y z = N6 QcOps fN' gN' pi4 dx dy dz x y z.
Proof.
  intros Hf Hg. unfold N6, N_element, demag_fkeys, demag_gkeys in *.
  rewrite (N_sum_reads_keys fN fN' x y z dx dy dz) by (intros; apply Hf; apply in_or_app; left; assumption).
  rewrite (N_sum_reads_keys fN fN' y z x dy dz dx)
    by (intros; apply Hf; apply in_or_app; right; apply in_or_app; left; assumption).
  rewrite (N_sum_reads_keys fN fN' z x y dz dx dy)
    by (intros; apply Hf; apply in_or_app; right; apply in_or_app; right; assumption).
  rewrite (N_sum_reads_keys gN gN' x y z dx dy dz) by (intros; apply Hg; apply in_or_app; left; assumption).
  rewrite (N_sum_reads_keys gN gN' x z y dx dz dy)
    by (intros; apply Hg; apply in_or_app; right; apply in_or_app; left; assumption).
  rewrite (N_sum_reads_keys gN gN' y z x dy dz dx)
    by (intros; apply Hg; apply in_or_app; right; apply in_or_app; right; assumption).
  reflexivity.
Qed.
