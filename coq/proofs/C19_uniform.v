(* C19: every derivative of a uniform field vanishes - for all validity masks, all runs, open and
   periodic directions, order 1 and 2 (order 2 against the generated stencil constants of
   Constants_gen: a changed coefficient whose row no longer sums to zero breaks these proofs) -
   hence the continuous charge density and the emergent field of a uniform field are zero. *)
From Coq Require Import Field.
From DF Require Import Prelude Constants_gen FieldK NDArray Diff Integrate Tools ListLemmas C04_proofs
     C04_ring C19_vec C19_density C19_cont.

Section Uniform.
Variable K : FOps.
Hypothesis HK : field_theory (f0 K) (f1 K) (@fadd K) (@fmul K) (@fsub K) (@fopp K) (@fdiv K) (@finv K) eq.
Add Field Kfield19d : HK.
Notation "0" := (f0 K).
Notation "1" := (f1 K).
Infix "+" := fadd. Infix "*" := fmul. Infix "-" := fsub. Infix "/" := fdiv.
Notation vec := (Tools.vec K).

Lemma fdiv0 (x y : K) : x = 0 -> x / y = 0.
Proof. intros ->. rewrite (Fdiv_def HK). ring. Qed.

Lemma nth_repeat_lt {A} (v d : A) L k : (k < L)%nat -> nth k (repeat v L) d = v.
Proof. revert k. induction L as [|L IH]; intros [|k] H; simpl; try lia; [reflexivity | apply IH; lia]. Qed.
Lemma nth_repeat0 L k : nth k (repeat 0 L) 0 = 0.
Proof. revert k. induction L as [|L IH]; intros [|k]; simpl; auto. Qed.
Lemma repeat_snoc {A} (v : A) k : repeat v k ++ [v] = repeat v (S k).
Proof. induction k as [|k IH]; simpl; [reflexivity | rewrite IH; reflexivity]. Qed.
Lemma map_const_repeat {A B} (c : B) (l : list A) : map (fun _ => c) l = repeat c (length l).
Proof. induction l as [|x l IH]; simpl; [reflexivity | rewrite IH; reflexivity]. Qed.
Lemma map_zero_iota (g : nat -> K) k n : (forall j, (k <= j < k + n)%nat -> g j = 0) ->
  map g (iota k n) = repeat 0 n.
Proof.
  revert k. induction n as [|n IH]; intros k H; simpl; [reflexivity|].
  rewrite H by lia. f_equal. apply IH. intros j Hj. apply H. lia.
Qed.

(* --- the stencils on constant data --- *)
Lemma d1_at_const v h L j : (2 <= L)%nat -> (j < L)%nat -> d1_at K (repeat v L) h j = 0.
Proof.
  intros HL Hj. unfold d1_at. rewrite repeat_length.
  destruct (L <? 3)%nat eqn:E3.
  - apply fdiv0. rewrite !nth_repeat_lt by lia. ring.
  - apply Nat.ltb_ge in E3. destruct (j =? 0)%nat eqn:E0.
    + apply fdiv0. rewrite !nth_repeat_lt by lia. unfold three, four, f2. ring.
    + apply Nat.eqb_neq in E0. destruct (j =? L - 1)%nat eqn:E1.
      * apply fdiv0. rewrite !nth_repeat_lt by lia. unfold three, four, f2. ring.
      * apply Nat.eqb_neq in E1. apply fdiv0. rewrite !nth_repeat_lt by lia. ring.
Qed.

(* against the generated coefficient tuples: each row sums to zero *)
Lemma d2_at_const v h L j : (3 <= L)%nat -> (j < L)%nat -> d2_at K (repeat v L) h j = 0.
Proof.
  intros HL Hj. unfold d2_at. rewrite repeat_length.
  destruct (L <? 4)%nat eqn:E4; destruct (j =? 0)%nat eqn:E0; try destruct (j =? L - 1)%nat eqn:E1;
    try apply Nat.ltb_ge in E4; try apply Nat.eqb_neq in E0; try apply Nat.eqb_neq in E1;
    apply fdiv0; rewrite !nth_repeat_lt by lia; norm_stencil; ring.
Qed.

Lemma d_run_const1 v h L : d_run K 1 (repeat v L) h = repeat 0 L.
Proof.
  unfold d_run. rewrite repeat_length. destruct (L <? 1 + 1)%nat eqn:E.
  - rewrite map_const_repeat, repeat_length. reflexivity.
  - apply Nat.ltb_ge in E. apply map_zero_iota. intros j Hj. apply d1_at_const; lia.
Qed.
Lemma d_run_const2 v h L : d_run K 2 (repeat v L) h = repeat 0 L.
Proof.
  unfold d_run. rewrite repeat_length. destruct (L <? 2 + 1)%nat eqn:E.
  - rewrite map_const_repeat, repeat_length. reflexivity.
  - apply Nat.ltb_ge in E. apply map_zero_iota. intros j Hj. apply d2_at_const; lia.
Qed.
Lemma d_run_const order v h L : order = 1%nat \/ order = 2%nat -> d_run K order (repeat v L) h = repeat 0 L.
Proof. intros [-> | ->]; [apply d_run_const1 | apply d_run_const2]. Qed.

(* --- every run of every mask --- *)
Lemma sdc_aux_const order v h k n valid : order = 1%nat \/ order = 2%nat -> length valid = n ->
  sdc_aux K order h (repeat v k) (repeat v n) valid = repeat 0 (k + n).
Proof.
  intros Ho. revert k valid. induction n as [|n IH]; intros k [|b valid] Hl; simpl in Hl; try discriminate.
  - simpl. rewrite d_run_const by exact Ho. f_equal. lia.
  - destruct b; cbn [repeat sdc_aux].
    + rewrite repeat_snoc. rewrite IH by lia. f_equal. lia.
    + rewrite d_run_const by exact Ho. change (@nil K) with (repeat v 0).
      rewrite IH by lia. simpl plus.
      replace (k + S n)%nat with (k + (1 + n))%nat by lia. rewrite !repeat_app. reflexivity.
Qed.

Lemma sdc_const order v h n valid : order = 1%nat \/ order = 2%nat -> length valid = n ->
  sdc K order h (repeat v n) valid = repeat 0 n.
Proof. intros Ho Hl. unfold sdc. change (@nil K) with (repeat v 0). rewrite sdc_aux_const by assumption. reflexivity. Qed.

Lemma wrap1_repeat {A} (d v : A) n : (0 < n)%nat -> wrap1 d (repeat v n) = repeat v (n + 2).
Proof.
  intros Hn. destruct n as [|n]; [lia|]. unfold wrap1. cbn [repeat hd].
  assert (HL : last (v :: repeat v n) d = v).
  { clear Hn. induction n as [|n IH]; [reflexivity|]. exact IH. }
  rewrite HL. change ((v :: repeat v n) ++ [v]) with (repeat v (S n) ++ [v]). rewrite repeat_snoc.
  replace (S n + 2)%nat with (S (S (S n))) by lia. reflexivity.
Qed.
Lemma removelast_repeat {A} (v : A) n : removelast (repeat v (S n)) = repeat v n.
Proof. induction n as [|n IH]; [reflexivity|]. change (repeat v (S (S n))) with (v :: repeat v (S n)).
  change (removelast (v :: repeat v (S n))) with (v :: removelast (repeat v (S n))). rewrite IH. reflexivity. Qed.
Lemma crop1_repeat {A} (v : A) n : crop1 (repeat v (n + 2)) = repeat v n.
Proof. unfold crop1. replace (n + 2)%nat with (S (S n)) by lia. cbn [repeat tl]. apply removelast_repeat. Qed.

(* a line of a uniform field: open or periodic, restricted to valid cells or not *)
Theorem diff_line_const order v h per restrict n valid :
  order = 1%nat \/ order = 2%nat -> length valid = n ->
  diff_line K order h per restrict (repeat v n) valid = repeat 0 n.
Proof.
  intros Ho Hl. unfold diff_line.
  set (valid' := if restrict then valid else map (fun _ => true) valid).
  assert (Hl' : length valid' = n) by (unfold valid'; destruct restrict; [exact Hl | rewrite map_length; exact Hl]).
  destruct per; [|apply sdc_const; assumption].
  destruct n as [|n].
  - destruct valid'; [|discriminate]. change (wrap1 0 (repeat v 0)) with (repeat v 0).
    change (wrap1 true []) with (@nil bool). rewrite sdc_const by (try exact Ho; reflexivity). reflexivity.
  - rewrite wrap1_repeat by lia. rewrite sdc_const; [apply crop1_repeat | exact Ho |].
    destruct valid' as [|b t]; [discriminate|]. unfold wrap1. simpl. rewrite app_length. simpl in *. lia.
Qed.

(* --- n-d: the derivative of a uniform 3-component array vanishes at every cell --- *)
Theorem diff_nd_uniform sh ax order h per valid (o : idx -> K) (v : vec) i c :
  order = 1%nat \/ order = 2%nat ->
  (forall j cc, o (j ++ [cc]) = vcomp K cc v) ->
  (ax < length i)%nat -> length i = length sh ->
  diff_nd K sh 3 ax order h per true o valid (i ++ [c]) = 0.
Proof.
  intros Ho HU Ha Hl. rewrite (diff_nd_comp K sh ax order h per valid o i c Ha Hl).
  rewrite (map_ext _ (fun _ => vcomp K c v)) by (intros j; apply HU).
  rewrite map_const_repeat, iota_length.
  rewrite diff_line_const by (try exact Ho; rewrite map_length, iota_length; reflexivity).
  apply nth_repeat0.
Qed.

(* the continuous topological charge density of a uniform field is zero: every mask, open/periodic *)
Theorem tcd_cont_uniform c4 sh h1 h2 per1 per2 (o : idx -> K) valid (v : vec) i :
  (forall j cc, o (j ++ [cc]) = vcomp K cc v) -> length sh = 2%nat -> length i = 2%nat ->
  tcd_cont K c4 sh h1 h2 per1 per2 o valid i = 0.
Proof.
  intros HU Hs Hi. unfold tcd_cont. cbv zeta. unfold vec_at.
  rewrite !(diff_nd_uniform sh _ 1 _ _ valid o v i _ (or_introl eq_refl) HU) by lia.
  unfold dot3, cross3, vx, vy, vz. cbn [fst snd]. ring.
Qed.

(* --- emergent field: zero whenever the field is uniform (through the tabulated derivatives) --- *)
Lemma indices_last sh k x : In x (indices (sh ++ [k])) ->
  exists i c, x = i ++ [c] /\ length i = length sh.
Proof.
  revert x. induction sh as [|a sh IH]; intros x Hx.
  - simpl in Hx. apply in_flat_map in Hx. destruct Hx as (c & _ & Hc). simpl in Hc.
    destruct Hc as [<- | []]. exists [], c. split; reflexivity.
  - change ((a :: sh) ++ [k]) with (a :: (sh ++ [k])) in Hx. cbn [indices] in Hx.
    apply in_flat_map in Hx. destruct Hx as (p & _ & Hp). apply in_map_iff in Hp.
    destruct Hp as (y & <- & Hy). destruct (IH y Hy) as (i & c & -> & Hl).
    exists (p :: i), c. split; [reflexivity | simpl; lia].
Qed.

Lemma memo_zero sh (f : idx -> K) : (forall x, In x (indices sh) -> f x = 0) -> forall i, memo K sh f i = 0.
Proof.
  intros H i. unfold memo, of_list, to_list.
  destruct (nth_in_or_default (ravel sh i) (map f (indices sh)) 0) as [Hin | ->]; [|reflexivity].
  apply in_map_iff in Hin. destruct Hin as (x & Hx & Hi). rewrite <- Hx. apply H. exact Hi.
Qed.

Theorem emergent_uniform sh h per (m : idx -> K) valid (v : vec) i :
  (forall j cc, m (j ++ [cc]) = vcomp K cc v) -> length sh = 3%nat ->
  emergent K sh h per m valid i = 0.
Proof.
  intros HU Hs. unfold emergent. cbv zeta.
  assert (HZ : forall ax, (ax < 3)%nat -> forall j,
            memo K (sh ++ [3%nat]) (diff_nd K sh 3 ax 1 (nth ax h 0) (nth ax per false) true m valid) j = 0).
  { intros ax Hax. apply memo_zero. intros x Hx. destruct (indices_last sh 3 x Hx) as (i0 & c & -> & Hl).
    apply (diff_nd_uniform sh ax 1 _ _ valid m v i0 c (or_introl eq_refl) HU); lia. }
  unfold emergent_pt, vec_at. rewrite !HZ by lia.
  unfold vcomp, dot3, cross3, vx, vy, vz. cbn [fst snd].
  destruct (last i 0%nat) as [|[|?]]; ring.
Qed.

End Uniform.
