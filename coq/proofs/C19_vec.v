(* C19: 3-vector algebra over an arbitrary field: dot/cross/triple products under matrices,
   rotations (orthogonal, det 1), reversal, scaling. *)
From Coq Require Import Field.
From DF Require Import Prelude FieldK NDArray Diff Integrate Tools.

Section Vec.
Variable K : FOps.
Hypothesis HK : field_theory (f0 K) (f1 K) (@fadd K) (@fmul K) (@fsub K) (@fopp K) (@fdiv K) (@finv K) eq.
Add Field Kfield19a : HK.
Notation "0" := (f0 K).
Notation "1" := (f1 K).
Infix "+" := fadd. Infix "*" := fmul. Infix "-" := fsub. Infix "/" := fdiv.
Notation vec := (Tools.vec K).
Notation mat3 := (Tools.mat3 K).
Notation dot3 := (Tools.dot3 K).
Notation cross3 := (Tools.cross3 K).
Notation triple3 := (Tools.triple3 K).
Notation vscale := (Tools.vscale K).
Notation vneg := (Tools.vneg K).
Notation vadd := (Tools.vadd K).
Notation vsub := (Tools.vsub K).
Notation mv := (Tools.mv K).
Notation det3 := (Tools.det3 K).
Notation mrow1 := (Tools.mrow1 K).
Notation mrow2 := (Tools.mrow2 K).
Notation mrow3 := (Tools.mrow3 K).
Notation mcol1 := (Tools.mcol1 K).
Notation mcol2 := (Tools.mcol2 K).
Notation mcol3 := (Tools.mcol3 K).
Notation vx := (Tools.vx K).
Notation vy := (Tools.vy K).
Notation vz := (Tools.vz K).
Notation col_orthogonal := (Tools.col_orthogonal K).
Notation orthogonal := (Tools.orthogonal K).

Ltac vdestruct :=
  repeat match goal with
         | v : Tools.vec K |- _ => destruct v as [[? ?] ?]
         | M : Tools.mat3 K |- _ => destruct M as [[? ?] ?]
         end.
Ltac vunfold :=
  unfold Tools.det3, Tools.triple3, Tools.mv, Tools.dot3, Tools.cross3, Tools.vscale, Tools.vneg, Tools.vadd,
         Tools.vsub, Tools.mrow1, Tools.mrow2, Tools.mrow3, Tools.mcol1, Tools.mcol2, Tools.mcol3,
         Tools.vx, Tools.vy, Tools.vz in *; simpl in *.

(* (M a).(M b x M c) = det M * a.(b x c), for EVERY matrix M *)
Lemma triple3_mv (M : mat3) (a b c : vec) :
  triple3 (mv M a) (mv M b) (mv M c) = det3 M * triple3 a b c.
Proof. vdestruct. vunfold. ring. Qed.

(* dot products are invariant when the columns of M are orthonormal (M^T M = I) *)
Lemma dot3_mv_expand (M : mat3) (a b : vec) :
  dot3 (mv M a) (mv M b)
  = vx a * vx b * dot3 (mcol1 M) (mcol1 M) + vy a * vy b * dot3 (mcol2 M) (mcol2 M)
    + vz a * vz b * dot3 (mcol3 M) (mcol3 M)
    + (vx a * vy b + vy a * vx b) * dot3 (mcol1 M) (mcol2 M)
    + (vx a * vz b + vz a * vx b) * dot3 (mcol1 M) (mcol3 M)
    + (vy a * vz b + vz a * vy b) * dot3 (mcol2 M) (mcol3 M).
Proof. vdestruct. vunfold. ring. Qed.

Lemma dot3_mv (M : mat3) (a b : vec) : col_orthogonal M -> dot3 (mv M a) (mv M b) = dot3 a b.
Proof.
  intros (H1 & H2 & H3 & H4 & H5 & H6). rewrite dot3_mv_expand, H1, H2, H3, H4, H5, H6.
  vdestruct. vunfold. ring.
Qed.

(* the pointwise core of the continuous density: n.(a x b) with all three vectors transformed *)
Lemma density_core_mv (c4 : K) (M : mat3) (n a b : vec) :
  c4 * dot3 (mv M n) (cross3 (mv M a) (mv M b)) = det3 M * (c4 * dot3 n (cross3 a b)).
Proof. change (dot3 (mv M n) (cross3 (mv M a) (mv M b))) with (triple3 (mv M n) (mv M a) (mv M b)).
  rewrite triple3_mv. unfold Tools.triple3. ring. Qed.

(* reversal *)
Lemma dot3_neg (a b : vec) : dot3 (vneg a) (vneg b) = dot3 a b.
Proof. vdestruct. vunfold. ring. Qed.
Lemma triple3_neg (a b c : vec) : triple3 (vneg a) (vneg b) (vneg c) = fopp (triple3 a b c).
Proof. vdestruct. vunfold. ring. Qed.

(* scaling: homogeneous of degree 3 / 2 *)
Lemma triple3_scale (s t u : K) (a b c : vec) :
  triple3 (vscale s a) (vscale t b) (vscale u c) = s * t * u * triple3 a b c.
Proof. vdestruct. vunfold. ring. Qed.
Lemma dot3_scale (s t : K) (a b : vec) : dot3 (vscale s a) (vscale t b) = s * t * dot3 a b.
Proof. vdestruct. vunfold. ring. Qed.

(* degenerate triples *)
Lemma triple3_same_23 (a b : vec) : triple3 a b b = 0.
Proof. vdestruct. vunfold. ring. Qed.
Lemma triple3_same_12 (a b : vec) : triple3 a a b = 0.
Proof. vdestruct. vunfold. ring. Qed.
Lemma triple3_zero_2 (a b : vec) : triple3 a (vzero K) b = 0.
Proof. vdestruct. unfold Tools.vzero. vunfold. ring. Qed.
Lemma triple3_zero_3 (a b : vec) : triple3 a b (vzero K) = 0.
Proof. vdestruct. unfold Tools.vzero. vunfold. ring. Qed.
(* cyclic symmetry and antisymmetry *)
Lemma triple3_cyclic (a b c : vec) : triple3 a b c = triple3 b c a.
Proof. vdestruct. vunfold. ring. Qed.
Lemma triple3_swap (a b c : vec) : triple3 a c b = fopp (triple3 a b c).
Proof. vdestruct. vunfold. ring. Qed.
Lemma dot3_comm (a b : vec) : dot3 a b = dot3 b a.
Proof. vdestruct. vunfold. ring. Qed.

(* -I is orthogonal with det -1; the identity has det 1 *)
Definition mneg : mat3 := ((fopp 1, 0, 0), (0, fopp 1, 0), (0, 0, fopp 1)).
Lemma mv_mneg (v : vec) : mv mneg v = vneg v.
Proof. vdestruct. unfold mneg. vunfold. f_equal; [f_equal|]; ring. Qed.
Lemma det3_mneg : det3 mneg = fopp 1.
Proof. unfold mneg. vunfold. ring. Qed.

(* Berg-Luescher angle of a triangle: invariant under rotations, for ANY Omega *)
Lemma bl_angle_rot (Omega : K -> K -> K -> K -> K) (M : mat3) (a b c : vec) :
  col_orthogonal M -> det3 M = 1 ->
  bl_angle K Omega (mv M a) (mv M b) (mv M c) = bl_angle K Omega a b c.
Proof.
  intros HO HD. unfold Tools.bl_angle. rewrite !dot3_mv by exact HO. rewrite triple3_mv, HD.
  f_equal. ring.
Qed.

(* reversal: needs Omega odd in the triple product *)
Lemma bl_angle_neg (Omega : K -> K -> K -> K -> K) (a b c : vec) :
  (forall d1 d2 d3 t, Omega d1 d2 d3 (fopp t) = fopp (Omega d1 d2 d3 t)) ->
  bl_angle K Omega (vneg a) (vneg b) (vneg c) = fopp (bl_angle K Omega a b c).
Proof. intros HOdd. unfold Tools.bl_angle. rewrite !dot3_neg, triple3_neg. apply HOdd. Qed.

(* equal vectors: the triangle is degenerate; needs Omega(.,.,.,0) = 0 (the code's explicit test) *)
Lemma bl_angle_uniform (Omega : K -> K -> K -> K -> K) (a : vec) :
  (forall d1 d2 d3, Omega d1 d2 d3 0 = 0) -> bl_angle K Omega a a a = 0.
Proof. intros H0. unfold Tools.bl_angle. rewrite triple3_same_12. apply H0. Qed.

End Vec.
