(* Proofs for C20 (matplotlib plots): array plumbing, placement, hiding, components. *)
From DF Require Import Prelude Constants_gen Region Mesh Plot QLemmas ListLemmas C01_axis C01_lattice.
Open Scope Q_scope.

(* ------------------------------------------------------------------ transpose *)
Section Transpose.
Variable V : Type.

Lemma transpose_rows_shape k0 k1 (a : nat -> nat -> V) :
  length (transpose_rows k0 k1 a) = k1 /\
  forall r, (r < k1)%nat -> length (nth r (transpose_rows k0 k1 a) []) = k0.
Proof.
  unfold transpose_rows. split.
  - now rewrite map_length, iota_length.
  - intros r Hr. rewrite (nth_map_iota (fun r => map (fun c => a c r) (iota 0 k0))) by exact Hr.
    now rewrite map_length, iota_length.
Qed.

Lemma transpose_rows_nth k0 k1 (a : nat -> nat -> V) r c d :
  (r < k1)%nat -> (c < k0)%nat ->
  nth c (nth r (transpose_rows k0 k1 a) []) d = a c r.
Proof.
  intros Hr Hc. unfold transpose_rows.
  rewrite (nth_map_iota (fun r => map (fun c => a c r) (iota 0 k0))) by exact Hr.
  now rewrite (nth_map_iota (fun c => a c r)) by exact Hc.
Qed.
End Transpose.
