(* Proofs for C20 (matplotlib plots): array plumbing, placement, hiding, components. *)
From DF Require Import Prelude Constants_gen Region Mesh Plot QLemmas ListLemmas C01_axis C01_lattice.
Open Scope Q_scope.

(* ------------------------------------------------------------------ transpose *)
Section Transpose.
Variable V : Type.

Lemma transpose_rows_shape k0 k1 (a : nat -> nat -> V) :
  length (transpose_rows k0 k1 a) = k1 /\
  forall r, (r < k1)%nat -> length (nth r (transpose_rows k0 k1 a) []) = k0.
Proof.
  unfold transpose_rows. split.
  - now rewrite map_length, iota_length.
  - intros r Hr. rewrite (nth_map_iota (fun r => map (fun c => a c r) (iota 0 k0))) by exact Hr.
    now rewrite map_length, iota_length.
Qed.

Lemma transpose_rows_nth k0 k1 (a : nat -> nat -> V) r c d :
  (r < k1)%nat -> (c < k0)%nat ->
  nth c (nth r (transpose_rows k0 k1 a) []) d = a c r.
Proof.
  intros Hr Hc. unfold transpose_rows.
  rewrite (nth_map_iota (fun r => map (fun c => a c r) (iota 0 k0))) by exact Hr.
  now rewrite (nth_map_iota (fun c => a c r)) by exact Hc.
Qed.
End Transpose.

(* ------------------------------------------------------------------ scalar / contour array *)
Lemma scalar_values_shape f flt :
  length (scalar_values f flt) = n1 f /\
  forall r, (r < n1 f)%nat -> length (nth r (scalar_values f flt) []) = n0 f.
Proof. apply transpose_rows_shape. Qed.

Lemma scalar_values_nth f flt r c :
  (r < n1 f)%nat -> (c < n0 f)%nat ->
  nth c (nth r (scalar_values f flt) []) None =
  if hidden f flt c r then None else Some (fval f 0 c r).
Proof.
  intros Hr Hc. unfold scalar_values. rewrite transpose_rows_nth by assumption. reflexivity.
Qed.

(* default filter: a cell is handed over as NaN iff it is invalid *)
Lemma scalar_default_hidden_iff f r c :
  (r < n1 f)%nat -> (c < n0 f)%nat ->
  (nth c (nth r (scalar_values f None) []) None = None <-> fvalid f c r = false) /\
  (fvalid f c r = true -> nth c (nth r (scalar_values f None) []) None = Some (fval f 0 c r)).
Proof.
  intros Hr Hc. rewrite scalar_values_nth by assumption. simpl.
  destruct (fvalid f c r); simpl; split; try split; intros; try reflexivity; try discriminate.
Qed.

(* explicit filter: a cell is NaN iff the (resampled) filter is zero there ... *)
Lemma scalar_filter_hidden_iff f a r c :
  (r < n1 f)%nat -> (c < n0 f)%nat ->
  (nth c (nth r (scalar_values f (Some a)) []) None = None <->
   resample_aux a (n0 f) (n1 f) c r == 0).
Proof.
  intros Hr Hc. rewrite scalar_values_nth by assumption. simpl.
  destruct (Qeq_bool (resample_aux a (n0 f) (n1 f) c r) 0) eqn:E.
  - split; [intros _; now apply Qeq_bool_iff | reflexivity].
  - split; [discriminate | intros H; apply Qeq_bool_iff in H; congruence].
Qed.

(* ... so the full statement "NaN iff invalid OR filtered" holds under the guard that the filter
   vanishes on the invalid cells, *)
Lemma scalar_hidden_partial f a r c :
  (r < n1 f)%nat -> (c < n0 f)%nat ->
  (fvalid f c r = false -> resample_aux a (n0 f) (n1 f) c r == 0) ->
  (nth c (nth r (scalar_values f (Some a)) []) None = None <->
   (fvalid f c r = false \/ resample_aux a (n0 f) (n1 f) c r == 0)).
Proof.
  intros Hr Hc G. rewrite scalar_filter_hidden_iff by assumption. tauto.
Qed.

(* ... and is false of the code in general: witness = the known finding *)
Definition witness_field : pfield :=
  mkPF (mkRegion [0; 0] [4; 2] ["x"%string; "y"%string] ["m"%string; "m"%string] (1 # 1000000000000))
       [4%nat; 2%nat] 1 [] [] [0; 1; 2; 3; 4; 5; 6; 7]
       [true; true; false; true; true; true; true; true].
Definition witness_filter : aux := mkAux [4%nat; 2%nat] [1; 1; 1; 1; 1; 1; 1; 1].

Lemma scalar_hidden_refuted :
  exists f a r c, (r < n1 f)%nat /\ (c < n0 f)%nat /\ fvalid f c r = false /\
    exists im, plot_scalar f MDefault (Some a) = OK im /\
               nth c (nth r (im_rows im) []) None = Some (fval f 0 c r).
Proof.
  exists witness_field, witness_filter, 0%nat, 1%nat.
  repeat split; try (vm_compute; lia); try reflexivity.
  eexists. split; [vm_compute; reflexivity|]. vm_compute. reflexivity.
Qed.

(* ------------------------------------------------------------------ placement (imshow) *)
Lemma pow10_pos k : 0 < pow10 k.
Proof.
  unfold pow10. destruct (0 <=? k)%Z eqn:E.
  - apply inject_Z_pos. apply Z.pow_pos_nonneg; lia.
  - apply Qinv_lt_0_compat. apply inject_Z_pos. apply Z.pow_pos_nonneg; lia.
Qed.

Lemma setup_multiplier_pos r mu m p : setup_multiplier r mu = OK (m, p) -> 0 < m.
Proof.
  unfold setup_multiplier. destruct mu as [| k | q].
  - destruct (si_max_multiplier (edges r)) as [k|]; simpl; [|discriminate].
    destruct (si_prefix k); [|discriminate]. intros H; inversion H. apply pow10_pos.
  - destruct (si_prefix k); [|discriminate]. intros H; inversion H. apply pow10_pos.
  - discriminate.
Qed.

(* one axis: the column painted over x is the cell that contains x*m *)
Lemma displayed_axis lo hi (k : nat) m x x0 x1 :
  lo < hi -> (0 < k)%nat -> 0 < m ->
  x0 == lo / m -> x1 == hi / m ->
  lo <= x * m -> x * m < hi ->
  let c := displayed_index x0 x1 k x in
  let cl := cell_of lo hi (Z.of_nat k) in
  (0 <= c < Z.of_nat k)%Z /\ lo + inject_Z c * cl <= x * m /\ x * m < lo + (inject_Z c + 1) * cl.
Proof.
  intros Hlh Hk Hm E0 E1 Hlo Hhi c cl.
  assert (Kp : 0 < inject_Z (Z.of_nat k)) by (apply inject_Z_pos; lia).
  pose proof (cell_pos lo hi (Z.of_nat k) Hlh ltac:(lia)) as Hc. fold cl in Hc.
  pose proof (cell_times_n lo hi (Z.of_nat k) ltac:(lia)) as Hn. fold cl in Hn.
  set (t := (x * m - lo) / cl).
  assert (Et : (x - x0) / ((x1 - x0) / inject_Z (Z.of_nat k)) == t).
  { unfold t. rewrite E0, E1. unfold cl, cell_of. field.
    repeat split; lra. }
  assert (Ec : c = Qfloor t) by (unfold c, displayed_index; now rewrite Et).
  pose proof (Qfloor_bounds t) as [B1 B2]. rewrite <- Ec in B1, B2.
  assert (T0 : 0 <= t) by (unfold t; apply Qle_shift_div_l; [exact Hc | lra]).
  assert (T1 : t < inject_Z (Z.of_nat k)) by (unfold t; apply Qlt_shift_div_r; [exact Hc | lra]).
  assert (Tm : t * cl == x * m - lo) by (unfold t; field; lra).
  split; [|split].
  - split.
    + rewrite Ec. apply Qfloor_resp_le in T0. exact T0.
    + apply Z.lt_nge. intros Hge. apply (Qlt_irrefl t).
      eapply Qlt_le_trans; [exact T1|]. eapply Qle_trans; [|exact B1].
      rewrite <- Zle_Qle. exact Hge.
  - assert (inject_Z c * cl <= t * cl) by (apply Qmult_le_compat_r; [exact B1 | lra]). lra.
  - assert (t * cl < (inject_Z c + 1) * cl) by (apply Qmult_lt_compat_r; [exact Hc | exact B2]). lra.
Qed.

Lemma ext_axis lo hi m : lo < hi -> 0 < m ->
  let l := 0 - (0 - lo) * (1 / m) in let h := l + (hi - lo) * (1 / m) in
  Qmin l h == lo / m /\ Qmax l h == hi / m.
Proof.
  intros Hlh Hm l h.
  assert (El : l == lo / m) by (unfold l; field; lra).
  assert (Eh : h == hi / m) by (unfold h, l; field; lra).
  assert (Hi : 0 < / m) by (apply Qinv_lt_0_compat; exact Hm).
  assert (Hlt : l <= h).
  { rewrite El, Eh. unfold Qdiv. apply Qlt_le_weak. apply Qmult_lt_compat_r; assumption. }
  split.
  - rewrite (Q.min_l _ _ Hlt). exact El.
  - rewrite (Q.max_r _ _ Hlt). exact Eh.
Qed.

Lemma plot_scalar_inv f mu flt im :
  plot_scalar f mu flt = OK im ->
  exists m p, setup_multiplier (preg f) mu = OK (m, p) /\ 0 < m /\ ndim (preg f) = 2%nat /\ (pnv f <= 1)%nat /\
    im_rows im = scalar_values f flt /\ im_extent im = extent (preg f) m /\
    im_labels im = axis_labels (preg f) p.
Proof.
  unfold plot_scalar, mpl_init.
  destruct (ndim (preg f) =? 2)%nat eqn:En; simpl; [|discriminate].
  destruct (1 <? pnv f)%nat eqn:Ev; [discriminate|].
  destruct (filter_ok flt); simpl; [|discriminate].
  destruct (setup_multiplier (preg f) mu) as [[m p]|] eqn:Es; simpl; [|discriminate].
  intros H; inversion H; subst; simpl.
  exists m, p. repeat split; try reflexivity.
  - eapply setup_multiplier_pos; exact Es.
  - now apply Nat.eqb_eq.
  - apply Nat.ltb_ge in Ev. exact Ev.
Qed.

(* the value painted over the plot position (x, y) is the value of the cell containing
   (x*m, y*m); nothing (NaN) iff that cell is hidden *)
Lemma scalar_position f mu flt im lo0 lo1 hi0 hi1 :
  plot_scalar f mu flt = OK im ->
  pmin (preg f) = [lo0; lo1] -> pmax (preg f) = [hi0; hi1] ->
  lo0 < hi0 -> lo1 < hi1 -> (0 < n0 f)%nat -> (0 < n1 f)%nat ->
  exists m p, setup_multiplier (preg f) mu = OK (m, p) /\ 0 < m /\
  forall x y, lo0 <= x * m -> x * m < hi0 -> lo1 <= y * m -> y * m < hi1 ->
  exists i j, (i < n0 f)%nat /\ (j < n1 f)%nat /\
    (let c0 := cell_of lo0 hi0 (Z.of_nat (n0 f)) in
     lo0 + inject_Z (Z.of_nat i) * c0 <= x * m /\ x * m < lo0 + (inject_Z (Z.of_nat i) + 1) * c0) /\
    (let c1 := cell_of lo1 hi1 (Z.of_nat (n1 f)) in
     lo1 + inject_Z (Z.of_nat j) * c1 <= y * m /\ y * m < lo1 + (inject_Z (Z.of_nat j) + 1) * c1) /\
    displayed_cell (im_rows im) (im_extent im) None x y =
      if hidden f flt i j then None else Some (fval f 0 i j).
Proof.
  intros Hp Hmin Hmax H0 H1 Hn0 Hn1.
  destruct (plot_scalar_inv _ _ _ _ Hp) as (m & p & Es & Hm & _ & _ & Er & Ee & _).
  exists m, p. split; [exact Es|]. split; [exact Hm|].
  intros x y Hx0 Hx1 Hy0 Hy1.
  destruct (ext_axis lo0 hi0 m H0 Hm) as [Ea0 Eb0].
  destruct (ext_axis lo1 hi1 m H1 Hm) as [Ea1 Eb1].
  pose proof (displayed_axis lo0 hi0 (n0 f) m x _ _ H0 Hn0 Hm Ea0 Eb0 Hx0 Hx1) as (Rc & Cc1 & Cc2).
  pose proof (displayed_axis lo1 hi1 (n1 f) m y _ _ H1 Hn1 Hm Ea1 Eb1 Hy0 Hy1) as (Rr & Cr1 & Cr2).
  set (c := displayed_index _ _ (n0 f) x) in *.
  set (r := displayed_index _ _ (n1 f) y) in *.
  exists (Z.to_nat c), (Z.to_nat r).
  assert (Ic : (Z.to_nat c < n0 f)%nat) by lia.
  assert (Ir : (Z.to_nat r < n1 f)%nat) by lia.
  rewrite !Z2Nat.id by lia.
  split; [exact Ic|]. split; [exact Ir|]. split; [split; assumption|]. split; [split; assumption|].
  rewrite <- (scalar_values_nth f flt _ _ Ir Ic).
  unfold displayed_cell. rewrite Er, Ee.
  destruct (scalar_values_shape f flt) as [L1 L2].
  rewrite L1, (L2 0%nat Hn1).
  unfold extent, edges, edges_of. rewrite Hmin, Hmax. simpl.
  reflexivity.
Qed.

(* ------------------------------------------------------------------ vector (quiver) *)
Lemma ravel_transpose_nth {V} k0 k1 (a : nat -> nat -> V) r c d :
  (r < k1)%nat -> (c < k0)%nat ->
  nth (arrow_index k0 r c) (ravel_rows (transpose_rows k0 k1 a)) d = a c r.
Proof.
  intros Hr Hc. unfold ravel_rows, transpose_rows, arrow_index.
  rewrite <- flat_map_concat_map.
  rewrite (nth_flat_map_const (fun r => map (fun c => a c r) (iota 0 k0)) (iota 0 k1) k0 r c 0%nat d).
  - rewrite nth_iota by exact Hr. simpl. now rewrite (nth_map_iota (fun c => a c r)) by exact Hc.
  - intros x. now rewrite map_length, iota_length.
  - now rewrite iota_length.
  - exact Hc.
Qed.

(* the arrow of cell (i, j): NaN iff the cell is invalid (for a mapped component), else the
   field's own component; a missing component is drawn as 0 *)
Lemma arrow_values_nth f k i j :
  (i < n0 f)%nat -> (j < n1 f)%nat ->
  nth (arrow_index (n0 f) j i) (arrow_values f k) None =
  match k with
  | Some k => if fvalid f i j then Some (fval f k i j) else None
  | None => Some 0
  end.
Proof.
  intros Hi Hj. unfold arrow_values. rewrite ravel_transpose_nth by assumption.
  destruct k as [k|]; [|reflexivity]. unfold nan_where. now destruct (fvalid f i j).
Qed.

(* meshgrid: arrow (i, j) sits at (xs[i], ys[j]) *)
Lemma meshgrid_x_nth (xs ys : list Q) i j d :
  (i < length xs)%nat -> (j < length ys)%nat ->
  nth (arrow_index (length xs) j i) (ravel_rows (map (fun _ => xs) ys)) d = nth i xs d.
Proof.
  intros Hi Hj. unfold ravel_rows, arrow_index. rewrite <- flat_map_concat_map.
  now rewrite (nth_flat_map_const (fun _ : Q => xs) ys (length xs) j i 0 d).
Qed.
Lemma meshgrid_y_nth (xs ys : list Q) i j d :
  (i < length xs)%nat -> (j < length ys)%nat ->
  nth (arrow_index (length xs) j i) (ravel_rows (map (fun y => map (fun _ => y) xs) ys)) d = nth j ys d.
Proof.
  intros Hi Hj. unfold ravel_rows, arrow_index. rewrite <- flat_map_concat_map.
  rewrite (nth_flat_map_const (fun y : Q => map (fun _ => y) xs) ys (length xs) j i d d);
    [| intros; now rewrite map_length | exact Hj | exact Hi].
  clear Hj. revert i Hi. induction xs as [|h t IH]; intros i Hi; simpl in *; [lia|].
  destruct i; [reflexivity|]. apply IH. lia.
Qed.

(* coordinates handed over = cell centres divided by the multiplier *)
Lemma centres_nth r k a m i lo hi :
  nth a (pmin r) 0 = lo -> nth a (pmax r) 0 = hi -> lo < hi -> (i < k)%nat ->
  length (centres r k a m) = k /\
  nth i (centres r k a m) 0 ==
    (lo + (inject_Z (Z.of_nat i) + (1 # 2)) * cell_of lo hi (Z.of_nat k)) / m.
Proof.
  intros El Eh Hlh Hi. unfold centres. rewrite El, Eh. split.
  - rewrite map_length, cells_axis_length by lia. lia.
  - rewrite (nth_indep _ 0 (0 / m)) by (rewrite map_length, cells_axis_length by lia; lia).
    rewrite (map_nth (fun x => x / m)).
    pose proof (cells_are_centres lo hi (Z.of_nat k) (Z.of_nat i) Hlh ltac:(lia) ltac:(lia)) as H.
    rewrite Nat2Z.id in H. rewrite H.
    rewrite (centre_formula lo hi (Z.of_nat k)). reflexivity.
Qed.

(* component chosen through the reversed mapping really is mapped to that axis *)
Lemma rev_lookup_sound d m k : rev_lookup d m = Some k -> In (k, Some d) m.
Proof.
  induction m as [|[k' v] t IH]; simpl; [discriminate|].
  destruct (rev_lookup d t) as [k''|] eqn:E.
  - intros H; inversion H; subst. right. now apply IH.
  - destruct v as [d'|]; [|discriminate].
    destruct (String.eqb d d') eqn:Es; [|discriminate].
    apply String.eqb_eq in Es. subst. intros H; inversion H; subst. now left.
Qed.

(* and it is the only candidate when no two components are mapped to the same axis *)
Lemma rev_lookup_complete d m k :
  In (k, Some d) m -> (forall k1 k2, In (k1, Some d) m -> In (k2, Some d) m -> k1 = k2) ->
  rev_lookup d m = Some k.
Proof.
  intros Hin Hu. destruct (rev_lookup d m) as [k'|] eqn:E.
  - f_equal. apply Hu; [now apply rev_lookup_sound | exact Hin].
  - exfalso. clear Hu. induction m as [|[k0 v] t IH]; simpl in *; [exact Hin|].
    destruct (rev_lookup d t) eqn:E'; [discriminate|].
    destruct Hin as [H | H].
    + inversion H; subst. now rewrite String.eqb_refl in E.
    + now apply IH.
Qed.

Lemma arrow_names_default f :
  pmap f <> [] -> arrow_names f None = OK (r_dim f 0, r_dim f 1).
Proof. unfold arrow_names. destruct (pmap f); [congruence | reflexivity]. Qed.

Lemma arrow_names_given f a b : arrow_names f (Some [a; b]) = OK (a, b).
Proof. reflexivity. Qed.

(* ------------------------------------------------------------------ refusals *)
Lemma refuse_ndim f : ndim (preg f) <> 2%nat ->
  (forall mu flt, plot_scalar f mu flt = Err RuntimeE) /\
  (forall mu flt, plot_contour f mu flt = Err RuntimeE) /\
  (forall mu arg uc cf, plot_vector f mu arg uc cf = Err RuntimeE) /\
  (forall mu flt lf clim tabs, plot_lightness f mu flt lf clim tabs = Err RuntimeE) /\
  (forall mu flt, plot_call f mu flt = Err RuntimeE).
Proof.
  intros H. apply Nat.eqb_neq in H.
  repeat split; intros;
    unfold plot_scalar, plot_contour, plot_vector, plot_lightness, plot_lightness_with, plot_call, mpl_init;
    rewrite H; reflexivity.
Qed.

Lemma refuse_nvdim f : ndim (preg f) = 2%nat ->
  ((1 < pnv f)%nat -> forall mu flt, plot_scalar f mu flt = Err RuntimeE) /\
  (pnv f <> 1%nat -> forall mu flt, plot_contour f mu flt = Err RuntimeE) /\
  ((3 < pnv f)%nat -> forall mu flt lf clim tabs, plot_lightness f mu flt lf clim tabs = Err RuntimeE).
Proof.
  intros H. apply Nat.eqb_eq in H.
  repeat split; intros Hv; intros;
    unfold plot_scalar, plot_contour, plot_lightness, plot_lightness_with, mpl_init; rewrite H; simpl.
  - apply Nat.ltb_lt in Hv. now rewrite Hv.
  - apply Nat.eqb_neq in Hv. now rewrite Hv.
  - apply Nat.ltb_lt in Hv. now rewrite Hv.
Qed.

(* ------------------------------------------------------------------ labels *)
Lemma scalar_labels f mu flt im :
  plot_scalar f mu flt = OK im ->
  exists m p, setup_multiplier (preg f) mu = OK (m, p) /\
    im_labels im =
      ((nth 0 (dims (preg f)) "" ++ " (" ++ p ++ nth 0 (units (preg f)) "" ++ ")")%string,
       (nth 1 (dims (preg f)) "" ++ " (" ++ p ++ nth 1 (units (preg f)) "" ++ ")")%string).
Proof.
  intros H. destruct (plot_scalar_inv _ _ _ _ H) as (m & p & Es & _ & _ & _ & _ & _ & El).
  exists m, p. split; [exact Es|]. rewrite El. reflexivity.
Qed.

Lemma explicit_si_multiplier r k p : si_prefix k = Some p ->
  setup_multiplier r (MSI k) = OK (pow10 (3 * k), p).
Proof. intros H. unfold setup_multiplier. now rewrite H. Qed.

(* ------------------------------------------------------------------ lightness *)
Section LightnessStructure.
Variable hls : Q -> Q -> Q -> list Q.

(* pixel (row r, column c) of the RGBA image: transparent black iff the cell is hidden, else the
   colour of hue = angle / 2 pi and the clim-normalised lightness, opaque *)
Lemma lightness_rgba_nth k0 k1 tp hue light clim hid r c :
  (r < k1)%nat -> (c < k0)%nat ->
  nth c (nth r (lightness_rgba hls k0 k1 tp hue light clim hid) []) [] =
  if hid c r then [0; 0; 0; 0]
  else hls (normalise_from 0 tp 0 1 (hue c r))
           (nth (c * k1 + r) (normalise_auto (fst clim) (snd clim) light) 0) 1 ++ [1].
Proof. intros Hr Hc. unfold lightness_rgba. now rewrite transpose_rows_nth. Qed.
End LightnessStructure.

Lemma hue_is_angle_over_twopi tp v : ~ tp == 0 -> normalise_from 0 tp 0 1 v == v / tp.
Proof. intros H. unfold normalise_from. field. lra. Qed.
