(* C20: soundness of check_C20 -- an accepted case certifies that the data read back from the
   matplotlib artists (OBSERVED) is the plotting model's data on the recorded field, so the C20
   theorems apply to the observation itself. *)
From DF Require Import Prelude Constants_gen Region Mesh Plot ListLemmas CheckSound Check_C20 C20_plot.
Open Scope Q_scope.

Ltac split_andb :=
  repeat match goal with
         | H : _ && _ = true |- _ => apply andb_true_iff in H; destruct H
         end.

(* ------------------------------------------------------------------ combinators *)
Lemma In_iota_lt k n x : (k <= x < k + n)%nat -> In x (iota k n).
Proof.
  revert k; induction n as [|n IH]; intros k H; simpl; [lia|].
  destruct (Nat.eq_dec k x); [now left | right; apply IH; lia].
Qed.

Lemma all_cells_sound k0 k1 p : all_cells k0 k1 p = true ->
  forall i j, (i < k0)%nat -> (j < k1)%nat -> p i j = true.
Proof.
  unfold all_cells. intros H i j Hi Hj.
  rewrite forallb_forall in H. specialize (H i (In_iota_lt 0 k0 i ltac:(lia))).
  rewrite forallb_forall in H. apply H. apply In_iota_lt. lia.
Qed.

Lemma existsb_id_In (l : list bool) : existsb (fun h => h) l = true -> In true l.
Proof. intro H. apply existsb_exists in H. destruct H as (x & Hx & E). now subst. Qed.

Lemma existsb_negb_In (l : list bool) : existsb negb l = true -> In false l.
Proof. intro H. apply existsb_exists in H. destruct H as (x & Hx & E). destruct x; [discriminate | exact Hx]. Qed.

(* equality of handed-over entries: NaN = NaN, numbers as rationals *)
Definition oq_eq (a b : option Q) : Prop :=
  match a, b with None, None => True | Some u, Some v => u == v | _, _ => False end.

Lemma opt_rows_eqb_sound a b : opt_rows_eqb a b = true -> Forall2 (Forall2 oq_eq) a b.
Proof.
  unfold opt_rows_eqb. apply forallb2_Forall2_gen. intros r1 r2. apply forallb2_Forall2_gen.
  intros [u|] [v|]; simpl; intro H; try discriminate; [now apply Qeq_bool_eq | exact I].
Qed.

Lemma Forall2_nth_nil {A B} (R : A -> B -> Prop) (l1 : list (list A)) (l2 : list (list B)) r :
  Forall2 (Forall2 R) l1 l2 -> Forall2 R (nth r l1 []) (nth r l2 []).
Proof.
  intro H. revert r. induction H as [|x y l1 l2 Hxy _ IH]; intros [|r]; simpl; auto.
Qed.

Lemma Forall2_oq_nth l1 l2 c : Forall2 oq_eq l1 l2 -> oq_eq (nth c l1 None) (nth c l2 None).
Proof. intro H. revert c. induction H as [|x y l1 l2 Hxy _ IH]; intros [|c]; simpl; auto. Qed.

Lemma labels_eqb_sound l x y : labels_eqb l x y = true -> l = (x, y).
Proof.
  unfold labels_eqb. intro H. split_andb. destruct l as [a b]; simpl in *.
  f_equal; now apply String.eqb_eq.
Qed.

Lemma extent_close_sound r m a b : extent_close r m a b = true ->
  length a = 4%nat /\ length b = 4%nat /\
  Qabs (nth 0 a 0 - nth 0 b 0) <= coord_tol * axis_scale r 0 m /\
  Qabs (nth 1 a 0 - nth 1 b 0) <= coord_tol * axis_scale r 0 m /\
  Qabs (nth 2 a 0 - nth 2 b 0) <= coord_tol * axis_scale r 1 m /\
  Qabs (nth 3 a 0 - nth 3 b 0) <= coord_tol * axis_scale r 1 m.
Proof.
  unfold extent_close.
  destruct a as [|a0 [|a1 [|a2 [|a3 [|? ?]]]]]; try discriminate;
  destruct b as [|b0 [|b1 [|b2 [|b3 [|? ?]]]]]; try discriminate.
  intro H. split_andb. cbn [nth length].
  repeat split; now apply qclose_sound.
Qed.

Lemma coords_close_sound s a b : coords_close s a b = true ->
  length a = length b /\ forall i, (i < length a)%nat -> Qabs (nth i a 0 - nth i b 0) <= coord_tol * s.
Proof.
  unfold coords_close. intro H. apply (forallb2_nth _ a b 0 0) in H. destruct H as [Hl Hn].
  split; [exact Hl|]. intros i Hi. apply qclose_sound. now apply Hn.
Qed.

(* ------------------------------------------------------------------ multiplier candidates *)
Lemma check_C20_cands c : check_C20 c = true ->
  exists mu, In mu (mu_cands (preg (fst (case_field_mu c))) (snd (case_field_mu c))) /\
             check_C20_core (with_mu c mu) = true.
Proof. unfold check_C20. intro H. apply existsb_exists in H. exact H. Qed.

Lemma mu_cands_SI r k : mu_cands r (MSI k) = [MSI k].
Proof. reflexivity. Qed.
Lemma mu_cands_other r q : mu_cands r (MOther q) = [MOther q].
Proof. reflexivity. Qed.

(* explicit multiplier: the accepted case is the core comparison itself *)
Lemma check_C20_explicit c : (forall fm, case_field_mu c = (fm, MDefault) -> False) ->
  check_C20 c = true -> check_C20_core c = true.
Proof.
  intros Hn H. apply check_C20_cands in H. destruct H as (mu & Hin & Hc).
  destruct c; cbn [case_field_mu fst snd] in *;
    (destruct mu0; [exfalso; eapply Hn; reflexivity | |]; simpl in Hin; destruct Hin as [<-|[]]; exact Hc).
Qed.

(* ------------------------------------------------------------------ observed rows *)
Definition rows_spec (f : pfield) (k : nat) (flt : option aux) (rows : list (list (option Q))) : Prop :=
  length rows = n1 f /\
  (forall r, (r < n1 f)%nat -> length (nth r rows []) = n0 f) /\
  forall i j, (i < n0 f)%nat -> (j < n1 f)%nat ->
    match nth i (nth j rows []) None with
    | None => In true (hidden_cands f flt i j)
    | Some v => In false (hidden_cands f flt i j) /\ v == fval f k i j
    end.

Lemma rows_ok_sound f k flt rows : rows_ok f k flt rows = true -> rows_spec f k flt rows.
Proof.
  unfold rows_ok, rows_spec. intro H. split_andb.
  match goal with Hl : (length rows =? _)%nat = true |- _ => apply Nat.eqb_eq in Hl; rename Hl into HL end.
  split; [exact HL|]. split.
  - intros r Hr. match goal with Hf : forallb _ rows = true |- _ => rewrite forallb_forall in Hf; rename Hf into HF end.
    apply Nat.eqb_eq. apply HF. apply nth_In. lia.
  - intros i j Hi Hj.
    match goal with Ha : all_cells _ _ _ = true |- _ => pose proof (all_cells_sound _ _ _ Ha i j Hi Hj) as Hc end.
    cbv beta in Hc. destruct (nth i (nth j rows []) None) as [v|].
    + split_andb. split; [now apply existsb_negb_In | now apply Qeq_bool_eq].
    + now apply existsb_id_In.
Qed.

(* default filter: no freedom -- the observed array IS scalar_values, entry by entry *)
Lemma rows_spec_default f k rows r c : rows_spec f k None rows -> (r < n1 f)%nat -> (c < n0 f)%nat ->
  oq_eq (nth c (nth r rows []) None) (if fvalid f c r then Some (fval f k c r) else None).
Proof.
  intros (_ & _ & H) Hr Hc. specialize (H c r Hc Hr). cbn [hidden_cands] in H.
  destruct (nth c (nth r rows []) None) as [v|].
  - destruct H as [[E|[]] Hv]. destruct (fvalid f c r); [exact Hv | discriminate].
  - destruct H as [E|[]]. destruct (fvalid f c r); [discriminate | exact I].
Qed.

(* ------------------------------------------------------------------ scalar / contour *)
Lemma core_scalar_sound f mu flt rows ext xs ys xl yl :
  check_C20_core (CScalar false f mu flt (Some (rows, ext, xs, ys, xl, yl))) = true ->
  exists im, plot_scalar f mu flt = OK im /\
    rows_spec f 0 flt rows /\
    (no_tie f flt = true -> Forall2 (Forall2 oq_eq) (im_rows im) rows) /\
    im_labels im = (xl, yl) /\
    length ext = 4%nat /\
    Qabs (nth 0 (im_extent im) 0 - nth 0 ext 0) <= coord_tol * axis_scale (preg f) 0 (mult_of (preg f) mu) /\
    Qabs (nth 1 (im_extent im) 0 - nth 1 ext 0) <= coord_tol * axis_scale (preg f) 0 (mult_of (preg f) mu) /\
    Qabs (nth 2 (im_extent im) 0 - nth 2 ext 0) <= coord_tol * axis_scale (preg f) 1 (mult_of (preg f) mu) /\
    Qabs (nth 3 (im_extent im) 0 - nth 3 ext 0) <= coord_tol * axis_scale (preg f) 1 (mult_of (preg f) mu).
Proof.
  cbn [check_C20_core]. destruct (plot_scalar f mu flt) as [im|e]; [|discriminate].
  intro H. split_andb. exists im. split; [reflexivity|].
  split; [now apply rows_ok_sound|]. split.
  - intro Hn. match goal with Ho : negb _ || _ = true |- _ => rewrite Hn in Ho; simpl in Ho; now apply opt_rows_eqb_sound end.
  - split; [now apply labels_eqb_sound|].
    match goal with He : extent_close _ _ _ _ = true |- _ => apply extent_close_sound in He; destruct He as (_ & L & B) end.
    split; [exact L | exact B].
Qed.

Lemma core_contour_sound f mu flt rows ext xs ys xl yl :
  check_C20_core (CScalar true f mu flt (Some (rows, ext, xs, ys, xl, yl))) = true ->
  exists im, plot_contour f mu flt = OK im /\
    rows_spec f 0 flt rows /\
    (no_tie f flt = true -> Forall2 (Forall2 oq_eq) (im_rows im) rows) /\
    im_labels im = (xl, yl) /\
    length (im_x im) = length xs /\ length (im_y im) = length ys /\
    (forall i, (i < length xs)%nat ->
       Qabs (nth i (im_x im) 0 - nth i xs 0) <= coord_tol * axis_scale (preg f) 0 (mult_of (preg f) mu)) /\
    (forall j, (j < length ys)%nat ->
       Qabs (nth j (im_y im) 0 - nth j ys 0) <= coord_tol * axis_scale (preg f) 1 (mult_of (preg f) mu)).
Proof.
  cbn [check_C20_core]. destruct (plot_contour f mu flt) as [im|e]; [|discriminate].
  intro H. split_andb. exists im. split; [reflexivity|].
  split; [now apply rows_ok_sound|]. split.
  - intro Hn. match goal with Ho : negb _ || _ = true |- _ => rewrite Hn in Ho; simpl in Ho; now apply opt_rows_eqb_sound end.
  - split; [now apply labels_eqb_sound|].
    repeat match goal with He : coords_close _ _ _ = true |- _ => apply coords_close_sound in He; destruct He as [? ?] end.
    repeat split; try assumption.
    + intros i Hi. match goal with Hx : forall i, (i < length (im_x im))%nat -> _ |- _ => apply Hx end. congruence.
    + intros j Hj. match goal with Hy : forall i, (i < length (im_y im))%nat -> _ |- _ => apply Hy end. congruence.
Qed.

(* a recorded refusal is accepted only when the model refuses too *)
Lemma core_scalar_refusal ct f mu flt :
  check_C20_core (CScalar ct f mu flt None) = true ->
  exists e, (if ct then plot_contour f mu flt else plot_scalar f mu flt) = Err e.
Proof.
  cbn [check_C20_core]. destruct (if ct then plot_contour f mu flt else plot_scalar f mu flt) as [im|e];
    [discriminate | intros _; now exists e].
Qed.

(* whatever multiplier candidate was used, the observed scalar / contour array obeys rows_spec *)
Lemma check_scalar_rows ct f mu flt rows ext xs ys xl yl :
  check_C20 (CScalar ct f mu flt (Some (rows, ext, xs, ys, xl, yl))) = true -> rows_spec f 0 flt rows.
Proof.
  intro H. apply check_C20_cands in H. destruct H as (mu' & _ & Hc). cbn [with_mu] in Hc.
  destruct ct.
  - apply core_contour_sound in Hc. destruct Hc as (im & _ & R & _). exact R.
  - apply core_scalar_sound in Hc. destruct Hc as (im & _ & R & _). exact R.
Qed.

(* TRANSFER (C20_hidden_default on the observation): with the default filter the entry read back
   from the artist at row r, column c is NaN iff cell (c, r) is invalid, else the field's value *)
Theorem accepted_scalar_default ct f mu rows ext xs ys xl yl r c :
  check_C20 (CScalar ct f mu None (Some (rows, ext, xs, ys, xl, yl))) = true ->
  (r < n1 f)%nat -> (c < n0 f)%nat ->
  length rows = n1 f /\ length (nth r rows []) = n0 f /\
  oq_eq (nth c (nth r rows []) None) (nth c (nth r (scalar_values f None) []) None) /\
  (nth c (nth r rows []) None = None <-> fvalid f c r = false) /\
  (fvalid f c r = true -> exists v, nth c (nth r rows []) None = Some v /\ v == fval f 0 c r).
Proof.
  intros H Hr Hc. apply check_scalar_rows in H.
  pose proof (rows_spec_default f 0 rows r c H Hr Hc) as E.
  destruct H as (L1 & L2 & _).
  split; [exact L1|]. split; [now apply L2|].
  rewrite scalar_values_nth by assumption. cbn [hidden].
  destruct (fvalid f c r); cbn [negb]; (split; [exact E|]);
    destruct (nth c (nth r rows []) None) as [v|]; simpl in E; try contradiction.
  - split; [split; discriminate|]. intros _. now exists v.
  - split; [split; reflexivity|]. discriminate.
Qed.

(* TRANSFER (explicit filter): an observed NaN is justified by an admissible nearest filter cell
   with value 0, an observed number by one with a non-zero value, and the number is the field's *)
Theorem accepted_scalar_filter ct f mu a rows ext xs ys xl yl r c :
  check_C20 (CScalar ct f mu (Some a) (Some (rows, ext, xs, ys, xl, yl))) = true ->
  (r < n1 f)%nat -> (c < n0 f)%nat ->
  match nth c (nth r rows []) None with
  | None => exists v, In v (resample_cands a (n0 f) (n1 f) c r) /\ v == 0
  | Some w => (exists v, In v (resample_cands a (n0 f) (n1 f) c r) /\ ~ v == 0) /\ w == fval f 0 c r
  end.
Proof.
  intros H Hr Hc. apply check_scalar_rows in H. destruct H as (_ & _ & H).
  specialize (H c r Hc Hr). cbn [hidden_cands] in H.
  destruct (nth c (nth r rows []) None) as [w|].
  - destruct H as [Hin Hw]. split; [|exact Hw].
    apply in_map_iff in Hin. destruct Hin as (v & E & Hv). exists v. split; [exact Hv|].
    intro Z. apply Qeq_bool_iff in Z. congruence.
  - apply in_map_iff in H. destruct H as (v & E & Hv). exists v. split; [exact Hv | now apply Qeq_bool_eq].
Qed.

Lemma oq_eq_sym a b : oq_eq a b -> oq_eq b a.
Proof. destruct a, b; simpl; auto. intro H. now symmetry. Qed.

Lemma displayed_cell_oq a b ext x y : Forall2 (Forall2 oq_eq) a b ->
  oq_eq (displayed_cell a ext None x y) (displayed_cell b ext None x y).
Proof.
  intro H. unfold displayed_cell.
  rewrite (Forall2_length_gen _ _ _ H).
  rewrite (Forall2_length_gen _ _ _ (Forall2_nth_nil oq_eq a b 0 H)).
  apply Forall2_oq_nth. apply Forall2_nth_nil. exact H.
Qed.

(* TRANSFER (C20_scalar_position on the observation): the OBSERVED image array, painted by imshow
   over the model's extent (the observed extent is within coord_tol of it, core_scalar_sound), shows
   at plot position (x, y) the value of the mesh cell containing (x*m, y*m); NaN iff hidden *)
Theorem accepted_scalar_position f mu flt rows ext xs ys xl yl lo0 lo1 hi0 hi1 :
  check_C20 (CScalar false f mu flt (Some (rows, ext, xs, ys, xl, yl))) = true ->
  no_tie f flt = true ->
  pmin (preg f) = [lo0; lo1] -> pmax (preg f) = [hi0; hi1] ->
  lo0 < hi0 -> lo1 < hi1 -> (0 < n0 f)%nat -> (0 < n1 f)%nat ->
  exists mu' im m p, In mu' (mu_cands (preg f) mu) /\ plot_scalar f mu' flt = OK im /\
  setup_multiplier (preg f) mu' = OK (m, p) /\ 0 < m /\ (xl, yl) = axis_labels (preg f) p /\
  forall x y, lo0 <= x * m -> x * m < hi0 -> lo1 <= y * m -> y * m < hi1 ->
  exists i j, (i < n0 f)%nat /\ (j < n1 f)%nat /\
    (let c0 := cell_of lo0 hi0 (Z.of_nat (n0 f)) in
     lo0 + inject_Z (Z.of_nat i) * c0 <= x * m /\ x * m < lo0 + (inject_Z (Z.of_nat i) + 1) * c0) /\
    (let c1 := cell_of lo1 hi1 (Z.of_nat (n1 f)) in
     lo1 + inject_Z (Z.of_nat j) * c1 <= y * m /\ y * m < lo1 + (inject_Z (Z.of_nat j) + 1) * c1) /\
    oq_eq (displayed_cell rows (im_extent im) None x y)
          (if hidden f flt i j then None else Some (fval f 0 i j)).
Proof.
  intros H Hnt Hmin Hmax H0 H1 Hn0 Hn1.
  apply check_C20_cands in H. destruct H as (mu' & Hin & Hc). cbn [with_mu case_field_mu fst snd] in *.
  apply core_scalar_sound in Hc. destruct Hc as (im & Hp & _ & F2 & Hl & _).
  specialize (F2 Hnt).
  destruct (scalar_position f mu' flt im lo0 lo1 hi0 hi1 Hp Hmin Hmax H0 H1 Hn0 Hn1) as (m & p & Es & Hm & Hpos).
  exists mu', im, m, p. split; [exact Hin|]. split; [exact Hp|]. split; [exact Es|]. split; [exact Hm|].
  split.
  - destruct (plot_scalar_inv _ _ _ _ Hp) as (m2 & p2 & Es2 & _ & _ & _ & _ & _ & El).
    rewrite Es in Es2. inversion Es2; subst. rewrite <- Hl. exact El.
  - intros x y Hx0 Hx1 Hy0 Hy1.
    destruct (Hpos x y Hx0 Hx1 Hy0 Hy1) as (i & j & Hi & Hj & C0 & C1 & E).
    exists i, j. split; [exact Hi|]. split; [exact Hj|]. split; [exact C0|]. split; [exact C1|].
    rewrite <- E. apply oq_eq_sym. apply displayed_cell_oq. exact F2.
Qed.

Lemma no_tie_default f : no_tie f None = true.
Proof.
  unfold no_tie, all_cells. apply forallb_forall. intros i _. apply forallb_forall. intros j _. reflexivity.
Qed.

(* non-vacuity: a concrete accepted case (4x2 scalar field with one invalid cell, default multiplier) *)
Definition witness_rows : list (list (option Q)) :=
  [[Some 0; None; Some 4; Some 6]; [Some 1; Some 3; Some 5; Some 7]].
Example accepted_scalar_instance :
  check_C20 (CScalar false witness_field MDefault None
               (Some (witness_rows, [0; 4; 0; 2], [], [], "x (m)"%string, "y (m)"%string))) = true
  /\ no_tie witness_field None = true.
Proof. split; vm_compute; reflexivity. Qed.

(* ------------------------------------------------------------------ vector (quiver) *)
Definition quiver_spec (f : pfield) (m : Q) (q : quiver_out) (ox oy ou ov : list Q) (omask : list bool) : Prop :=
  let k := (n0 f * n1 f)%nat in
  length ox = k /\ length oy = k /\ length ou = k /\ length ov = k /\ length omask = k /\
  length (qv_x q) = k /\ length (qv_y q) = k /\
  (forall a, (a < k)%nat -> Qabs (nth a (qv_x q) 0 - nth a ox 0) <= coord_tol * axis_scale (preg f) 0 m) /\
  (forall a, (a < k)%nat -> Qabs (nth a (qv_y q) 0 - nth a oy 0) <= coord_tol * axis_scale (preg f) 1 m) /\
  (forall a, (a < k)%nat ->
     arrow_hidden q a = nth a omask false /\
     (nth a omask false = false ->
      exists u v, nth a (qv_u q) None = Some u /\ nth a (qv_v q) None = Some v /\
                  u == nth a ou 0 /\ v == nth a ov 0)).

Lemma quiver_ok_sound f m q ox oy ou ov omask oc :
  quiver_ok f m q (ox, oy, ou, ov, omask, oc) = true -> quiver_spec f m q ox oy ou ov omask.
Proof.
  unfold quiver_ok, quiver_spec. intro H. split_andb.
  repeat match goal with Hl : (_ =? _)%nat = true |- _ => apply Nat.eqb_eq in Hl end.
  repeat match goal with He : coords_close _ _ _ = true |- _ => apply coords_close_sound in He; destruct He as [? ?] end.
  match goal with Hf : forallb _ (iota 0 _) = true |- _ => rewrite forallb_forall in Hf; rename Hf into HF end.
  repeat split; try assumption; try congruence.
  - intros a Ha. match goal with Hx : forall i, (i < length (qv_x q))%nat -> _ |- _ => apply Hx end. congruence.
  - intros a Ha. match goal with Hy : forall i, (i < length (qv_y q))%nat -> _ |- _ => apply Hy end. congruence.
  - specialize (HF a (In_iota_lt 0 (n0 f * n1 f) a ltac:(lia))). split_andb. now apply Bool.eqb_prop.
  - intro Hm. specialize (HF a (In_iota_lt 0 (n0 f * n1 f) a ltac:(lia))). split_andb.
    match goal with Ho : nth a omask false || _ = true |- _ => rewrite Hm in Ho; simpl in Ho; rename Ho into HO end.
    destruct (nth a (qv_u q) None) as [u|]; [|discriminate].
    destruct (nth a (qv_v q) None) as [v|]; [|discriminate].
    split_andb. exists u, v. repeat split; now apply Qeq_bool_eq.
Qed.

Lemma plot_vector_inv f mu arg uc cf q :
  plot_vector f mu arg uc cf = OK q ->
  exists m p nx ny ax ay,
    setup_multiplier (preg f) mu = OK (m, p) /\ arrow_names f arg = OK (nx, ny) /\
    comp_index f nx = OK ax /\ comp_index f ny = OK ay /\ (ax <> None \/ ay <> None) /\
    qv_u q = arrow_values f ax /\ qv_v q = arrow_values f ay /\
    qv_x q = ravel_rows (map (fun _ => centres (preg f) (n0 f) 0 m) (centres (preg f) (n1 f) 1 m)) /\
    qv_y q = ravel_rows (map (fun y => map (fun _ => y) (centres (preg f) (n0 f) 0 m)) (centres (preg f) (n1 f) 1 m)) /\
    qv_labels q = axis_labels (preg f) p.
Proof.
  unfold plot_vector.
  destruct (mpl_init f); cbn [bind]; [|discriminate].
  destruct (match arg with None => (length (pmap f) =? 0)%nat | Some _ => false end); [discriminate|].
  destruct (setup_multiplier (preg f) mu) as [[m p]|]; cbn [bind]; [|discriminate].
  destruct (arrow_names f arg) as [[nx ny]|] eqn:En; cbn [bind fst snd]; [|discriminate].
  destruct (comp_index f nx) as [ax|] eqn:Ex; cbn [bind]; [|discriminate].
  destruct (comp_index f ny) as [ay|] eqn:Ey; cbn [bind]; [|discriminate].
  intro H. exists m, p, nx, ny, ax, ay.
  destruct ax as [kx|]; [| destruct ay as [ky|]; [|discriminate]];
    repeat match type of H with (if ?b then _ else _) = _ => destruct b; [discriminate|] end;
    inversion H; subst; cbn [qv_u qv_v qv_x qv_y qv_labels];
    repeat split; try reflexivity; try assumption; try (left; discriminate); try (right; discriminate).
Qed.

Definition comp_val (f : pfield) (k : option nat) (i j : nat) : Q :=
  match k with Some k => fval f k i j | None => 0 end.

(* TRANSFER (C20_vector_components on the observation): the arrow read back from the Quiver artist
   at index j*n0 + i is masked iff cell (i, j) is invalid; otherwise its U, V are the field's own
   components selected by the vdims argument / the reversed mapping (a missing one is 0) *)
Theorem accepted_vector_components f mu arg uc cf ox oy ou ov omask oc xl yl :
  check_C20 (CVector f mu arg uc cf (Some ((ox, oy, ou, ov, omask, oc), xl, yl))) = true ->
  exists nx ny ax ay,
    arrow_names f arg = OK (nx, ny) /\ comp_index f nx = OK ax /\ comp_index f ny = OK ay /\
    length ou = (n0 f * n1 f)%nat /\ length ov = (n0 f * n1 f)%nat /\ length omask = (n0 f * n1 f)%nat /\
    forall i j, (i < n0 f)%nat -> (j < n1 f)%nat ->
      nth (arrow_index (n0 f) j i) omask false = negb (fvalid f i j) /\
      (fvalid f i j = true ->
       nth (arrow_index (n0 f) j i) ou 0 == comp_val f ax i j /\
       nth (arrow_index (n0 f) j i) ov 0 == comp_val f ay i j).
Proof.
  intro H. apply check_C20_cands in H. destruct H as (mu' & _ & Hc). cbn [with_mu check_C20_core] in Hc.
  destruct (plot_vector f mu' arg uc cf) as [q|] eqn:Hp; [|discriminate].
  split_andb.
  match goal with Hq : quiver_ok _ _ _ _ = true |- _ => apply quiver_ok_sound in Hq; rename Hq into HQ end.
  destruct (plot_vector_inv _ _ _ _ _ _ Hp) as (m & p & nx & ny & ax & ay & _ & En & Ex & Ey & Hne & Eu & Ev & _).
  destruct HQ as (_ & _ & Lu & Lv & Lm & _ & _ & _ & _ & HA).
  exists nx, ny, ax, ay. repeat (split; [assumption|]).
  intros i j Hi Hj.
  assert (Ha : (arrow_index (n0 f) j i < n0 f * n1 f)%nat) by (unfold arrow_index; nia).
  destruct (HA _ Ha) as [Hh Hv]. clear HA.
  unfold arrow_hidden in Hh. rewrite Eu, Ev in Hh, Hv.
  rewrite !arrow_values_nth in Hh, Hv by assumption.
  destruct (fvalid f i j); cbn [negb].
  - assert (Hm : nth (arrow_index (n0 f) j i) omask false = false)
      by (rewrite <- Hh; destruct ax, ay; reflexivity).
    split; [exact Hm|]. intros _. destruct (Hv Hm) as (u & v & E1 & E2 & Q1 & Q2).
    split; [rewrite <- Q1 | rewrite <- Q2]; unfold comp_val.
    + destruct ax; inversion E1; reflexivity.
    + destruct ay; inversion E2; reflexivity.
  - split; [|discriminate]. rewrite <- Hh.
    destruct ax as [kx|], ay as [ky|]; try reflexivity. destruct Hne as [N|N]; congruence.
Qed.

Lemma mult_of_ok r mu m p : setup_multiplier r mu = OK (m, p) -> mult_of r mu = m.
Proof. unfold mult_of. now intros ->. Qed.

(* TRANSFER (C20_vector_grid + C20_centres on the observation): the observed arrow of cell (i, j)
   sits within coord_tol (relative to the axis scale) of (centre_i / m, centre_j / m) *)
Theorem accepted_vector_positions f mu arg uc cf ox oy ou ov omask oc xl yl lo0 lo1 hi0 hi1 :
  check_C20 (CVector f mu arg uc cf (Some ((ox, oy, ou, ov, omask, oc), xl, yl))) = true ->
  nth 0 (pmin (preg f)) 0 = lo0 -> nth 0 (pmax (preg f)) 0 = hi0 -> lo0 < hi0 ->
  nth 1 (pmin (preg f)) 0 = lo1 -> nth 1 (pmax (preg f)) 0 = hi1 -> lo1 < hi1 ->
  exists mu' m p, In mu' (mu_cands (preg f) mu) /\ setup_multiplier (preg f) mu' = OK (m, p) /\
    (xl, yl) = axis_labels (preg f) p /\
    forall i j, (i < n0 f)%nat -> (j < n1 f)%nat ->
      Qabs (nth i (centres (preg f) (n0 f) 0 m) 0 - nth (arrow_index (n0 f) j i) ox 0)
        <= coord_tol * axis_scale (preg f) 0 m /\
      Qabs (nth j (centres (preg f) (n1 f) 1 m) 0 - nth (arrow_index (n0 f) j i) oy 0)
        <= coord_tol * axis_scale (preg f) 1 m /\
      nth i (centres (preg f) (n0 f) 0 m) 0 ==
        (lo0 + (inject_Z (Z.of_nat i) + (1 # 2)) * cell_of lo0 hi0 (Z.of_nat (n0 f))) / m /\
      nth j (centres (preg f) (n1 f) 1 m) 0 ==
        (lo1 + (inject_Z (Z.of_nat j) + (1 # 2)) * cell_of lo1 hi1 (Z.of_nat (n1 f))) / m.
Proof.
  intros H E0l E0h H0 E1l E1h H1.
  apply check_C20_cands in H. destruct H as (mu' & Hin & Hc). cbn [with_mu check_C20_core case_field_mu fst snd] in *.
  destruct (plot_vector f mu' arg uc cf) as [q|] eqn:Hp; [|discriminate].
  split_andb.
  match goal with Hq : quiver_ok _ _ _ _ = true |- _ => apply quiver_ok_sound in Hq; rename Hq into HQ end.
  match goal with Hl : labels_eqb _ _ _ = true |- _ => apply labels_eqb_sound in Hl; rename Hl into HL end.
  destruct (plot_vector_inv _ _ _ _ _ _ Hp) as (m & p & nx & ny & ax & ay & Es & _ & _ & _ & _ & _ & _ & Eqx & Eqy & El).
  rewrite (mult_of_ok _ _ _ _ Es) in HQ.
  destruct HQ as (_ & _ & _ & _ & _ & _ & _ & HX & HY & _).
  exists mu', m, p. split; [exact Hin|]. split; [exact Es|]. split; [now rewrite <- HL, El|].
  intros i j Hi Hj.
  assert (Ha : (arrow_index (n0 f) j i < n0 f * n1 f)%nat) by (unfold arrow_index; nia).
  destruct (centres_nth (preg f) (n0 f) 0 m i lo0 hi0 E0l E0h H0 Hi) as [L0 C0].
  destruct (centres_nth (preg f) (n1 f) 1 m j lo1 hi1 E1l E1h H1 Hj) as [L1 C1].
  specialize (HX _ Ha). specialize (HY _ Ha). rewrite Eqx in HX. rewrite Eqy in HY.
  rewrite <- L0 in HX at 1. rewrite <- L0 in HY at 1.
  rewrite meshgrid_x_nth in HX by lia. rewrite meshgrid_y_nth in HY by lia.
  repeat split; assumption.
Qed.

Lemma core_vector_refusal f mu arg uc cf :
  check_C20_core (CVector f mu arg uc cf None) = true -> exists e, plot_vector f mu arg uc cf = Err e.
Proof.
  cbn [check_C20_core]. destruct (plot_vector f mu arg uc cf) as [q|e]; [discriminate | intros _; now exists e].
Qed.

(* ------------------------------------------------------------------ field.mpl() *)
Lemma core_call_sound f mu flt oimg oq xl yl :
  check_C20_core (CCall f mu flt (Some (oimg, oq, xl, yl))) = true ->
  exists co, plot_call f mu flt = OK co /\ ca_labels co = (xl, yl) /\
    match ca_image co, oimg with
    | None, None => True
    | Some (ks, _, ext), Some (orows, oext) =>
        (exists k, In k ks /\ rows_spec f k flt orows) /\ extent_close (preg f) (mult_of (preg f) mu) ext oext = true
    | _, _ => False
    end /\
    match ca_quiver co, oq with
    | None, None => True
    | Some q, Some (ox, oy, ou, ov, omask, oc) => quiver_spec f (mult_of (preg f) mu) q ox oy ou ov omask
    | _, _ => False
    end.
Proof.
  cbn [check_C20_core]. destruct (plot_call f mu flt) as [co|e]; [|discriminate].
  intro H. split_andb. exists co. split; [reflexivity|]. split; [now apply labels_eqb_sound|]. split.
  - destruct (ca_image co) as [[[ks rowsf] ext]|], oimg as [[orows oext]|]; try discriminate; [|exact I].
    split_andb. split; [|assumption].
    match goal with He : existsb _ ks = true |- _ => apply existsb_exists in He; destruct He as (k & Hk & Hr) end.
    exists k. split; [exact Hk | now apply rows_ok_sound].
  - destruct (ca_quiver co) as [q|], oq as [[[[[[ox oy] ou] ov] omask] oc]|]; try discriminate; [|exact I].
    now apply (quiver_ok_sound _ _ _ _ _ _ _ _ oc).
Qed.

Lemma core_call_refusal f mu flt :
  check_C20_core (CCall f mu flt None) = true -> exists e, plot_call f mu flt = Err e.
Proof.
  cbn [check_C20_core]. destruct (plot_call f mu flt) as [q|e]; [discriminate | intros _; now exists e].
Qed.

(* ------------------------------------------------------------------ lightness *)
Lemma rgba_cell_close_sound a b : rgba_cell_close a b = true ->
  length a = 4%nat /\ length b = 4%nat /\
  forall c, (c < 4)%nat -> Qabs (nth c a 0 - nth c b 0) <= rgba_tol * 1.
Proof.
  unfold rgba_cell_close. intro H. split_andb.
  match goal with Hl : (_ =? _)%nat = true |- _ => apply Nat.eqb_eq in Hl; rename Hl into HL end.
  match goal with Hf : forallb2 _ _ _ = true |- _ => apply (forallb2_nth _ a b 0 0) in Hf; destruct Hf as [E Hn] end.
  split; [exact HL|]. split; [congruence|]. intros c Hc. apply qclose_sound. apply Hn. lia.
Qed.

Definition light_spec (f : pfield) (flt : option aux) (m : Q) (l : light_out) (rows : list (list (list Q)))
           (ext : list Q) (xl yl : string) : Prop :=
  length rows = n1 f /\ (forall r, (r < n1 f)%nat -> length (nth r rows []) = n0 f) /\
  li_labels l = (xl, yl) /\ extent_close (preg f) m (li_extent l) ext = true /\
  forall i j, (i < n0 f)%nat -> (j < n1 f)%nat ->
    let o := nth i (nth j rows []) [] in
    length o = 4%nat /\
    ((In true (hidden_cands f flt i j) /\ forall c, (c < 4)%nat -> Qabs (nth c o 0) <= rgba_tol * 1) \/
     (In false (hidden_cands f flt i j) /\
      forall c, (c < 4)%nat -> Qabs (nth c (nth i (nth j (li_rgba l) []) []) 0 - nth c o 0) <= rgba_tol * 1)).

Lemma light_ok_sound f flt m l rows ext xl yl :
  light_ok f flt m l rows ext xl yl = true -> light_spec f flt m l rows ext xl yl.
Proof.
  unfold light_ok, light_spec. intro H. split_andb.
  match goal with Hl : (length rows =? _)%nat = true |- _ => apply Nat.eqb_eq in Hl; rename Hl into HL end.
  split; [exact HL|]. split; [|split; [now apply labels_eqb_sound|split; [assumption|]]].
  - intros r Hr. match goal with Hf : forallb _ rows = true |- _ => rewrite forallb_forall in Hf; rename Hf into HF end.
    apply Nat.eqb_eq. apply HF. apply nth_In. lia.
  - intros i j Hi Hj. cbv zeta. set (o := nth i (nth j rows []) []).
    match goal with Ha : all_cells _ _ _ = true |- _ => pose proof (all_cells_sound _ _ _ Ha i j Hi Hj) as Hc end.
    cbv beta zeta in Hc. fold o in Hc. apply orb_true_iff in Hc. destruct Hc as [Hc|Hc]; split_andb;
      match goal with Hr : rgba_cell_close _ o = true |- _ => apply rgba_cell_close_sound in Hr; destruct Hr as (_ & Lo & Hn) end;
      (split; [exact Lo|]).
    + left. split; [now apply existsb_id_In|]. intros c Hc. specialize (Hn c Hc).
      assert (E : nth c [0; 0; 0; 0] 0 - nth c o 0 == - nth c o 0)
        by (destruct c as [|[|[|[|c]]]]; simpl; try lia; ring).
      rewrite E, Qabs_opp in Hn. exact Hn.
    + right. split; [now apply existsb_negb_In | exact Hn].
Qed.

Lemma core_light_sound f mu flt lf clim tabs rows ext xl yl :
  check_C20_core (CLight f mu flt lf clim tabs (Some (rows, ext, xl, yl))) = true ->
  exists ls l, plot_lightness_with (fun _ _ => false) f mu flt lf clim tabs = OK ls /\ In l ls /\
    norm_tab_ok f tabs = true /\ light_spec f flt (mult_of (preg f) mu) l rows ext xl yl.
Proof.
  cbn [check_C20_core]. destruct (plot_lightness_with _ f mu flt lf clim tabs) as [ls|e]; [|discriminate].
  intro H. split_andb.
  match goal with He : existsb _ ls = true |- _ => apply existsb_exists in He; destruct He as (l & Hl & Ho) end.
  exists ls, l. split; [reflexivity|]. split; [exact Hl|]. split; [assumption|]. now apply light_ok_sound.
Qed.

Lemma core_light_refusal f mu flt lf clim tabs :
  check_C20_core (CLight f mu flt lf clim tabs None) = true ->
  exists e, plot_lightness_with (fun _ _ => false) f mu flt lf clim tabs = Err e.
Proof.
  cbn [check_C20_core]. destruct (plot_lightness_with _ f mu flt lf clim tabs) as [q|e];
    [discriminate | intros _; now exists e].
Qed.

(* ------------------------------------------------------------------ refusals *)
(* TRANSFER (C20_refuse_ndim on the observation): on a field whose mesh is not two-dimensional an
   accepted record can only be a refusal -- the implementation raised, for every plot kind *)
Theorem accepted_refusal_ndim c : ndim (preg (fst (case_field_mu c))) <> 2%nat -> check_C20 c = true ->
  match c with
  | CScalar _ _ _ _ obs => obs = None
  | CVector _ _ _ _ _ obs => obs = None
  | CLight _ _ _ _ _ _ obs => obs = None
  | CCall _ _ _ obs => obs = None
  end.
Proof.
  intros Hn H. apply check_C20_cands in H. destruct H as (mu' & _ & Hc).
  destruct (refuse_ndim _ Hn) as (R1 & R2 & R3 & _ & R5).
  destruct c as [ct f mu flt obs | f mu arg uc cf obs | f mu flt lf clim tabs obs | f mu flt obs];
    cbn [case_field_mu fst with_mu check_C20_core] in *.
  - destruct ct; [rewrite R2 in Hc | rewrite R1 in Hc]; destruct obs; [discriminate | reflexivity | discriminate | reflexivity].
  - rewrite R3 in Hc. destruct obs; [discriminate | reflexivity].
  - assert (R4 : plot_lightness_with (fun _ _ => false) f mu' flt lf clim tabs = Err RuntimeE).
    { unfold plot_lightness_with, mpl_init. apply Nat.eqb_neq in Hn. rewrite Hn. reflexivity. }
    rewrite R4 in Hc. destruct obs; [discriminate | reflexivity].
  - rewrite R5 in Hc. destruct obs; [discriminate | reflexivity].
Qed.

(* ... and conversely an observed picture certifies that the model produced one *)
Theorem accepted_scalar_not_refused f mu flt o :
  check_C20 (CScalar false f mu flt (Some o)) = true ->
  ndim (preg f) = 2%nat /\ (pnv f <= 1)%nat.
Proof.
  intro H. apply check_C20_cands in H. destruct H as (mu' & _ & Hc). cbn [with_mu check_C20_core] in Hc.
  destruct (plot_scalar f mu' flt) as [im|] eqn:Hp; [|discriminate].
  destruct (plot_scalar_inv _ _ _ _ Hp) as (m & p & _ & _ & Hd & Hv & _). split; assumption.
Qed.

Example accepted_refusal_instance :
  check_C20 (CScalar false (mkPF (mkRegion [0] [4] ["x"%string] ["m"%string] (1 # 1000000000000))
                                 [4%nat] 1 [] [] [0; 1; 2; 3] [true; true; true; true]) MDefault None None) = true.
Proof. vm_compute. reflexivity. Qed.

Definition witness_vfield : pfield :=
  mkPF (mkRegion [0; 0] [4; 2] ["x"%string; "y"%string] ["m"%string; "m"%string] (1 # 1000000000000))
       [2%nat; 1%nat] 2 ["a"%string; "b"%string] [("a"%string, Some "x"%string); ("b"%string, Some "y"%string)]
       [1; 2; 3; 4] [true; false].
(* a concrete accepted quiver read-back: arrow 0 = (1, 2) at (1, 1), arrow 1 masked (invalid cell) *)
Example accepted_vector_instance :
  check_C20 (CVector witness_vfield MDefault None false None
     (Some (([1; 3], [1; 1], [1; 0], [2; 0], [false; true], None), "x (m)"%string, "y (m)"%string))) = true.
Proof. vm_compute. reflexivity. Qed.

(* ------------------------------------------------------------------ records and shards *)
Lemma check_top_sound l : check_C20_top l = true -> forall c, In c l -> check_C20 c = true.
Proof. unfold check_C20_top. intro H. now apply forallb_forall. Qed.

Lemma shard_verdict (cases : list c20_top) k :
  failing k (map check_C20_top cases) = [] ->
  forall l c, In l cases -> In c l -> check_C20 c = true.
Proof.
  intros H l c Hl Hc. apply (check_top_sound l); [|exact Hc].
  exact (failing_nil_all check_C20_top cases k H l Hl).
Qed.

Lemma core_vector_sound f mu arg uc cf ox oy ou ov omask oc xl yl :
  check_C20_core (CVector f mu arg uc cf (Some ((ox, oy, ou, ov, omask, oc), xl, yl))) = true ->
  exists q, plot_vector f mu arg uc cf = OK q /\ qv_labels q = (xl, yl) /\
    quiver_spec f (mult_of (preg f) mu) q ox oy ou ov omask /\
    (oc = None -> qv_color q = false) /\
    (forall cs, oc = Some cs -> qv_color q = true /\ length cs = (n0 f * n1 f)%nat).
Proof.
  cbn [check_C20_core]. destruct (plot_vector f mu arg uc cf) as [q|e]; [|discriminate].
  intro H. split_andb. exists q. split; [reflexivity|]. split; [now apply labels_eqb_sound|].
  split; [now apply (quiver_ok_sound _ _ _ _ _ _ _ _ oc)|].
  match goal with Hq : quiver_ok _ _ _ _ = true |- _ => unfold quiver_ok in Hq; rename Hq into HQ end.
  split_andb. split.
  - intros ->. match goal with Hn : negb (qv_color q) = true |- _ => now apply negb_true_iff in Hn end.
  - intros cs ->. split_andb. split; [assumption | now apply Nat.eqb_eq].
Qed.

(* a recorded refusal (obs = None) is accepted only when the model refuses too; the exception class
   is not part of the record, so only "some error" is certified *)
Lemma core_refusals :
  (forall ct f mu flt, check_C20_core (CScalar ct f mu flt None) = true ->
     exists e, (if ct then plot_contour f mu flt else plot_scalar f mu flt) = Err e) /\
  (forall f mu arg uc cf, check_C20_core (CVector f mu arg uc cf None) = true ->
     exists e, plot_vector f mu arg uc cf = Err e) /\
  (forall f mu flt lf clim tabs, check_C20_core (CLight f mu flt lf clim tabs None) = true ->
     exists e, plot_lightness_with (fun _ _ => false) f mu flt lf clim tabs = Err e) /\
  (forall f mu flt, check_C20_core (CCall f mu flt None) = true -> exists e, plot_call f mu flt = Err e).
Proof.
  split; [exact core_scalar_refusal|]. split; [exact core_vector_refusal|].
  split; [exact core_light_refusal | exact core_call_refusal].
Qed.
