(* Soundness of the comparison combinators the correspondence checkers are built from:
   a comparison that evaluates to true certifies the stated relation.  Used by the
   per-property C*_sound.v files to turn "the checker accepted this observed output"
   into "this observed output is an instance of the theorem". *)
From Coq Require Import Qcanon.
From DF Require Import Prelude FieldK ListLemmas.

Lemma forallb2_Forall2_gen {A B} (f : A -> B -> bool) (R : A -> B -> Prop) :
  (forall x y, f x y = true -> R x y) -> forall l1 l2, forallb2 f l1 l2 = true -> Forall2 R l1 l2.
Proof.
  intros H. induction l1 as [|x l1 IH]; intros [|y l2]; simpl; intro E; try discriminate; [constructor|].
  apply andb_true_iff in E. destruct E as [E1 E2]. constructor; auto.
Qed.

Lemma Forall2_eq_gen {A} (l1 l2 : list A) : Forall2 eq l1 l2 -> l1 = l2.
Proof. induction 1; [reflexivity | subst; reflexivity]. Qed.

Lemma Forall2_nth_gen {A B} (R : A -> B -> Prop) l1 l2 d1 d2 :
  Forall2 R l1 l2 -> forall i, (i < length l1)%nat -> R (nth i l1 d1) (nth i l2 d2).
Proof.
  induction 1 as [|x y l1 l2 Hxy _ IH]; intros [|i] Hi; simpl in *; try lia; auto.
  apply IH. lia.
Qed.

Lemma Forall2_length_gen {A B} (R : A -> B -> Prop) l1 l2 : Forall2 R l1 l2 -> length l1 = length l2.
Proof. induction 1; simpl; congruence. Qed.

(* canonical rationals: boolean equality is Leibniz equality *)
Lemma qc_eqb_sound (a b : Qc) : qc_eqb a b = true -> a = b.
Proof. unfold qc_eqb. intro H. apply Qc_is_canon. apply Qeq_bool_eq. exact H. Qed.

Lemma qc_eqb_complete (a b : Qc) : a = b -> qc_eqb a b = true.
Proof. intros ->. unfold qc_eqb. apply Qeq_bool_iff. reflexivity. Qed.

Lemma qclist_eqb_sound l1 l2 : qclist_eqb l1 l2 = true -> l1 = l2.
Proof.
  intro H. apply Forall2_eq_gen. revert H. apply forallb2_Forall2_gen. exact qc_eqb_sound.
Qed.

Lemma qclist_eqb_refl l : qclist_eqb l l = true.
Proof. induction l as [|x l IH]; simpl; [reflexivity|]. unfold qclist_eqb in *. simpl.
       rewrite qc_eqb_complete by reflexivity. exact IH. Qed.

Lemma qlist_eqb_sound_gen l1 l2 : qlist_eqb l1 l2 = true -> Forall2 Qeq l1 l2.
Proof. apply forallb2_Forall2_gen. intros x y. apply Qeq_bool_eq. Qed.

Lemma zlist_eqb_sound_gen l1 l2 : zlist_eqb l1 l2 = true -> l1 = l2.
Proof. intro H. apply Forall2_eq_gen. revert H. apply forallb2_Forall2_gen. intros x y. apply Z.eqb_eq. Qed.

Lemma natlist_eqb_sound l1 l2 : natlist_eqb l1 l2 = true -> l1 = l2.
Proof. intro H. apply Forall2_eq_gen. revert H. apply forallb2_Forall2_gen. intros x y. apply Nat.eqb_eq. Qed.

Lemma boollist_eqb_sound l1 l2 : boollist_eqb l1 l2 = true -> l1 = l2.
Proof. intro H. apply Forall2_eq_gen. revert H. apply forallb2_Forall2_gen. intros x y. apply Bool.eqb_prop. Qed.

Lemma strlist_eqb_sound_gen l1 l2 : strlist_eqb l1 l2 = true -> l1 = l2.
Proof. intro H. apply Forall2_eq_gen. revert H. apply forallb2_Forall2_gen. intros x y. apply String.eqb_eq. Qed.

(* scale regime: an accepted comparison bounds the distance *)
Lemma qclose_sound tol scale a b : qclose tol scale a b = true -> (Qabs (a - b) <= tol * scale)%Q.
Proof. unfold qclose. apply Qle_bool_imp_le. Qed.

Lemma qc_close_sound tol scale (a b : Qc) :
  qc_close tol scale a b = true -> (Qabs (this a - this b) <= tol * scale)%Q.
Proof. unfold qc_close. apply qclose_sound. Qed.

Lemma qc_close_list_sound tol scale l1 l2 :
  forallb2 (qc_close tol scale) l1 l2 = true ->
  length l1 = length l2 /\
  forall i, (i < length l1)%nat ->
    (Qabs (this (nth i l1 0%Qc) - this (nth i l2 0%Qc)) <= tol * scale)%Q.
Proof.
  intro H. split; [eapply forallb2_length; exact H|].
  intros i Hi.
  apply (Forall2_nth_gen (fun a b => (Qabs (this a - this b) <= tol * scale)%Q) l1 l2 0%Qc 0%Qc); [|exact Hi].
  revert H. apply forallb2_Forall2_gen. intros x y. apply qc_close_sound.
Qed.

(* the shard verdict: an empty list of failing indices means every case evaluated to true *)
Lemma failing_nil_all {A} (chk : A -> bool) (cases : list A) k :
  failing k (map chk cases) = [] -> forall c, In c cases -> chk c = true.
Proof.
  intros H c Hc. apply failing_nil in H. rewrite forallb_forall in H.
  apply H. apply in_map. exact Hc.
Qed.
