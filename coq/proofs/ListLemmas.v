(* Structural lemmas on map2/map3/forallb2/ziota/failing used by all proofs. *)
From DF Require Import Prelude.

Lemma map2_length {A B C} (f : A -> B -> C) l1 l2 :
  length (map2 f l1 l2) = Nat.min (length l1) (length l2).
Proof. revert l2; induction l1 as [|a l1 IH]; intros [|b l2]; simpl; auto. Qed.

Lemma map3_length {A B C D} (f : A -> B -> C -> D) l1 l2 l3 :
  length (map3 f l1 l2 l3) = Nat.min (length l1) (Nat.min (length l2) (length l3)).
Proof. revert l2 l3; induction l1 as [|a l1 IH]; intros [|b l2] [|c l3]; simpl; auto. Qed.

Lemma nth_map2 {A B C} (f : A -> B -> C) l1 l2 a d d1 d2 :
  (a < length l1)%nat -> (a < length l2)%nat ->
  nth a (map2 f l1 l2) d = f (nth a l1 d1) (nth a l2 d2).
Proof.
  revert l2 a; induction l1 as [|x l1 IH]; intros [|y l2] [|a]; simpl; intros H1 H2; try lia; auto.
  apply IH; lia.
Qed.

Lemma nth_map3 {A B C D} (f : A -> B -> C -> D) l1 l2 l3 a d d1 d2 d3 :
  (a < length l1)%nat -> (a < length l2)%nat -> (a < length l3)%nat ->
  nth a (map3 f l1 l2 l3) d = f (nth a l1 d1) (nth a l2 d2) (nth a l3 d3).
Proof.
  revert l2 l3 a; induction l1 as [|x l1 IH]; intros [|y l2] [|z l3] [|a]; simpl; intros H1 H2 H3; try lia; auto.
  apply IH; lia.
Qed.

Lemma nth_combine {A B} (l1 : list A) (l2 : list B) a d1 d2 :
  length l1 = length l2 ->
  nth a (combine l1 l2) (d1, d2) = (nth a l1 d1, nth a l2 d2).
Proof.
  revert l2 a; induction l1 as [|x l1 IH]; intros [|y l2] [|a]; simpl; intros H; try discriminate; auto.
Qed.

Lemma forallb2_length {A B} (f : A -> B -> bool) l1 l2 :
  forallb2 f l1 l2 = true -> length l1 = length l2.
Proof.
  revert l2; induction l1 as [|a l1 IH]; intros [|b l2]; simpl; intro H; try discriminate; auto.
  apply andb_true_iff in H. f_equal. apply IH. tauto.
Qed.

Lemma forallb2_nth {A B} (f : A -> B -> bool) l1 l2 d1 d2 :
  forallb2 f l1 l2 = true <->
  length l1 = length l2 /\ forall a, (a < length l1)%nat -> f (nth a l1 d1) (nth a l2 d2) = true.
Proof.
  revert l2; induction l1 as [|x l1 IH]; intros [|y l2]; simpl.
  - split; [intros _; split; [reflexivity | intros a Ha; lia] | reflexivity].
  - split; [discriminate | intros [H _]; discriminate].
  - split; [discriminate | intros [H _]; discriminate].
  - rewrite andb_true_iff, IH. split.
    + intros [Hf [Hl Hn]]. split; [congruence|]. intros [|a] Ha; [exact Hf | apply Hn; lia].
    + intros [Hl Hn]. split; [exact (Hn 0%nat ltac:(lia)) | split; [congruence|]].
      intros a Ha. apply (Hn (S a)). lia.
Qed.

Lemma forallb_id_nth (l : list bool) :
  forallb (fun b => b) l = true <-> forall a, (a < length l)%nat -> nth a l true = true.
Proof.
  induction l as [|x l IH]; simpl.
  - split; [intros _ a Ha; lia | reflexivity].
  - rewrite andb_true_iff, IH. split.
    + intros [Hx Hl] [|a] Ha; [exact Hx | apply Hl; lia].
    + intros H. split; [exact (H 0%nat ltac:(lia)) | intros a Ha; apply (H (S a)); lia].
Qed.

Lemma ziota_length k n : length (ziota k n) = n.
Proof. revert k; induction n as [|n IH]; intros k; simpl; auto. Qed.

Lemma nth_ziota k n a d : (a < n)%nat -> nth a (ziota k n) d = (k + Z.of_nat a)%Z.
Proof.
  revert k a; induction n as [|n IH]; intros k [|a] H; simpl; try lia.
  rewrite IH by lia. lia.
Qed.

Lemma In_ziota k n x : In x (ziota k n) <-> (k <= x < k + Z.of_nat n)%Z.
Proof.
  revert k; induction n as [|n IH]; intros k; simpl.
  - split; [tauto | lia].
  - rewrite IH. lia.
Qed.

Lemma failing_nil k l : failing k l = [] <-> forallb (fun b => b) l = true.
Proof.
  revert k; induction l as [|b l IH]; intros k; simpl; [tauto|].
  destruct b; simpl; [apply IH|]. split; discriminate.
Qed.

Lemma nth_ext_Z (l1 l2 : list Z) :
  length l1 = length l2 -> (forall a, (a < length l1)%nat -> nth a l1 0%Z = nth a l2 0%Z) -> l1 = l2.
Proof. intros Hl Hn. apply (nth_ext l1 l2 0%Z 0%Z Hl Hn). Qed.

Lemma iota_length k n : length (iota k n) = n.
Proof. revert k; induction n as [|n IH]; intros k; simpl; auto. Qed.

Lemma nth_iota k n a d : (a < n)%nat -> nth a (iota k n) d = (k + a)%nat.
Proof.
  revert k a; induction n as [|n IH]; intros k [|a] H; simpl; try lia.
  rewrite IH by lia. lia.
Qed.

Lemma nth_map_iota {A} (f : nat -> A) n a d : (a < n)%nat -> nth a (map f (iota 0 n)) d = f a.
Proof.
  intros H. rewrite (nth_indep _ d (f 0%nat)) by (rewrite map_length, iota_length; exact H).
  rewrite (map_nth f (iota 0 n) 0%nat a), nth_iota by exact H. reflexivity.
Qed.

Lemma map_const_nth {A B} (l : list A) (c : B) j : nth j (map (fun _ => c) l) c = c.
Proof. revert j; induction l as [|x l IH]; intros [|j]; simpl; auto. Qed.
