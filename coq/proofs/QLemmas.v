(* Rational helper lemmas: floor characterisation, boolean reflections. *)
From DF Require Import Prelude.
Open Scope Q_scope.

Lemma Qfloor_unique (x : Q) (z : Z) :
  inject_Z z <= x -> x < inject_Z (z + 1) -> Qfloor x = z.
Proof.
  intros H1 H2.
  assert (A : (z <= Qfloor x)%Z).
  { rewrite <- (Qfloor_Z z). apply Qfloor_resp_le. exact H1. }
  assert (B : (Qfloor x < z + 1)%Z).
  { rewrite Zlt_Qlt. eapply Qle_lt_trans; [apply Qfloor_le | exact H2]. }
  lia.
Qed.

Lemma Qfloor_bounds (x : Q) : inject_Z (Qfloor x) <= x /\ x < inject_Z (Qfloor x) + 1.
Proof.
  split; [apply Qfloor_le|].
  pose proof (Qlt_floor x) as H. rewrite inject_Z_plus in H. exact H.
Qed.

Lemma Qltb_true a b : Qltb a b = true <-> a < b.
Proof.
  unfold Qltb. rewrite negb_true_iff. split; intro H.
  - apply Qnot_le_lt. intro C. apply Qle_bool_iff in C. congruence.
  - destruct (Qle_bool b a) eqn:E; [|reflexivity]. apply Qle_bool_iff in E.
    exfalso. exact (Qlt_not_le _ _ H E).
Qed.

Lemma Qltb_false a b : Qltb a b = false <-> b <= a.
Proof.
  unfold Qltb. rewrite negb_false_iff. apply Qle_bool_iff.
Qed.

Lemma Qleb_true a b : Qle_bool a b = true <-> a <= b.
Proof. apply Qle_bool_iff. Qed.

Lemma Qleb_false a b : Qle_bool a b = false <-> b < a.
Proof.
  split; intro H.
  - apply Qnot_le_lt. intro C. apply Qle_bool_iff in C. congruence.
  - destruct (Qle_bool a b) eqn:E; [|reflexivity]. apply Qle_bool_iff in E.
    exfalso. exact (Qlt_not_le _ _ H E).
Qed.

Lemma inject_Z_pos k : (0 < k)%Z -> 0 < inject_Z k.
Proof. intro H. change 0 with (inject_Z 0). rewrite <- Zlt_Qlt. exact H. Qed.

Lemma Qdiv_pos a b : 0 < a -> 0 < b -> 0 < a / b.
Proof. intros Ha Hb. apply Qlt_shift_div_l; [exact Hb|]. lra. Qed.

Lemma Qabs_nonneg_mult r x : 0 <= r -> 0 <= r * Qabs x.
Proof. intro H. apply Qmult_le_0_compat; [exact H | apply Qabs_nonneg]. Qed.
