(* C01 — Mesh cells tile the region; index<->coordinate maps are mutually inverse.
   This file holds ONLY statements, each closed by [exact] of a lemma proved in proofs/,
   followed by Print Assumptions. *)
From DF Require Import Prelude Constants_gen Region Mesh C01_axis C01_nd C01_lattice C01_tiling Check_C01 C01_sound C01_sound2 C07_accept C01_bycell C01_bycell2.
Open Scope Q_scope.

(* centres are pmin + (i + 1/2) * cell, cell = edges / n *)
Theorem C01_centres : forall m : mesh, wf_mesh m -> forall i : list Z,
  length i = length (pmin (reg m)) ->
  (forall a, (a < length (pmin (reg m)))%nat -> (0 <= nth a i 0 < nth a (n m) 1)%Z) ->
  exists p, index2point m i = OK p /\ length p = length (pmin (reg m)) /\
    forall a, (a < length (pmin (reg m)))%nat ->
      nth a p 0 == nth a (pmin (reg m)) 0 + (inject_Z (nth a i 0%Z) + (1 # 2)) * nth a (cell m) 0.
Proof. exact index2point_accepts. Qed.
Print Assumptions C01_centres.

Theorem C01_cell_is_edges_over_n (lo hi : Q) (k : Z) :
  lo < hi -> (0 < k)%Z -> 0 < cell_of lo hi k /\ inject_Z k * cell_of lo hi k == hi - lo.
Proof. exact (cell_is_edges_over_n lo hi k). Qed.
Print Assumptions C01_cell_is_edges_over_n.

(* index -> centre -> index *)
Theorem C01_roundtrip : forall m : mesh, wf_mesh m -> forall (i : list Z) (p : list Q),
  index2point m i = OK p -> point2index m p = OK i.
Proof. exact roundtrip. Qed.
Print Assumptions C01_roundtrip.

(* every accepted point maps to an in-range index whose cell contains it:
   up to the region tolerance in general; sharply (lower face inclusive) inside the
   half-open region; the upper face belongs to the last cell *)
Theorem C01_cell_contains : forall m : mesh, wf_mesh m -> forall (p : list Q) (i : list Z),
  point2index m p = OK i ->
  length i = length (pmin (reg m)) /\
  forall a, (a < length (pmin (reg m)))%nat ->
    let lo := nth a (pmin (reg m)) 0 in let hi := nth a (pmax (reg m)) 0 in
    let c := nth a (cell m) 0 in let x := nth a p 0 in let j := nth a i 0%Z in
    let t := tau (tf (reg m)) (reg_atol (reg m)) x in
    (0 <= j < nth a (n m) 1)%Z /\
    lo + inject_Z j * c - t <= x /\ x <= lo + (inject_Z j + 1) * c + t /\
    (lo <= x -> x < hi -> lo + inject_Z j * c <= x /\ x < lo + (inject_Z j + 1) * c) /\
    (hi <= x -> j = (nth a (n m) 1 - 1)%Z).
Proof. exact cell_contains. Qed.
Print Assumptions C01_cell_contains.

(* rejection of out-of-range indices and of points beyond the tolerance band *)
Theorem C01_reject_index : forall m : mesh, wf_mesh m -> forall i : list Z,
  length i <> length (pmin (reg m)) \/
  (exists a, (a < length (pmin (reg m)))%nat /\ ~ (0 <= nth a i 0 < nth a (n m) 1)%Z) ->
  is_ok (index2point m i) = false.
Proof. exact index_rejected. Qed.
Print Assumptions C01_reject_index.

Theorem C01_reject_point : forall m : mesh, wf_mesh m -> forall p : list Q,
  length p <> length (pmin (reg m)) \/
  (exists a, (a < length (pmin (reg m)))%nat /\
     let t := tau (tf (reg m)) (reg_atol (reg m)) (nth a p 0) in
     (nth a p 0 < nth a (pmin (reg m)) 0 - t \/ nth a (pmax (reg m)) 0 + t < nth a p 0)) ->
  is_ok (point2index m p) = false.
Proof. exact point_rejected. Qed.
Print Assumptions C01_reject_point.

(* the half-open cells tile each axis: exactly one cell contains a point of [lo, hi) *)
Theorem C01_tiling_axis (lo hi : Q) (k : Z) (p : Q) :
  lo < hi -> (0 < k)%Z -> lo <= p -> p < hi ->
  let c := cell_of lo hi k in
  exists i, ((0 <= i < k)%Z /\ lo + inject_Z i * c <= p /\ p < lo + (inject_Z i + 1) * c) /\
    forall j, (0 <= j < k)%Z -> lo + inject_Z j * c <= p -> p < lo + (inject_Z j + 1) * c -> j = i.
Proof. exact (tiling_axis lo hi k p). Qed.
Print Assumptions C01_tiling_axis.

(* the cell volumes add up to the region volume: prod n * prod cell == prod edges *)
Theorem C01_volume_tiling : forall los his ks,
  Forall2 (fun a b => a < b) los his -> length ks = length los -> Forall (fun k => 0 < k)%Z ks ->
  inject_Z (zprod ks) * qprod (map3 cell_of los his ks) == qprod (map2 Qminus his los).
Proof. exact volume_tiling. Qed.
Print Assumptions C01_volume_tiling.

(* iteration order: prod n indices, first dimension fastest; position i0 + n0*(i1 + n1*(...)) holds index i *)
Theorem C01_cell_count : forall ns, length (indices_xfast ns) = nprod (nsizes ns).
Proof. exact indices_xfast_length. Qed.
Print Assumptions C01_cell_count.

Theorem C01_iteration_order : forall ns i, in_range ns i ->
  nth (Z.to_nat (ravel_xfast ns i)) (indices_xfast ns) [] = i.
Proof. exact nth_ravel_xfast. Qed.
Print Assumptions C01_iteration_order.

Theorem C01_iteration_in_range : forall ns i, Forall (fun k => 0 <= k)%Z ns ->
  In i (indices_xfast ns) -> in_range ns i.
Proof. exact indices_xfast_in_range. Qed.
Print Assumptions C01_iteration_in_range.

(* per-axis lists: the j-th entry of `cells` is the j-th cell centre, of `vertices` the j-th face *)
Theorem C01_cells_view : forall lo hi k j, lo < hi -> (0 < k)%Z -> (0 <= j < k)%Z ->
  nth (Z.to_nat j) (cells_axis lo hi k) 0 == i2p1 lo (cell_of lo hi k) j.
Proof. exact cells_are_centres. Qed.
Print Assumptions C01_cells_view.

Theorem C01_vertices_view : forall lo hi k j, lo < hi -> (0 < k)%Z -> (0 <= j <= k)%Z ->
  nth (Z.to_nat j) (vertices_axis lo hi k) 0 == lo + inject_Z j * cell_of lo hi k.
Proof. exact vertices_are_faces. Qed.
Print Assumptions C01_vertices_view.

(* mesh by cell size (per axis; the n-d constructor applies these tests to every axis):
   a whole number of cells is accepted with that count; whatever is accepted is a whole number of
   cells up to the documented 0.1 % tolerance; remainders strictly inside (tol, cell - tol) are rejected *)
Theorem C01_by_cell_exact_multiple : forall x e tol, 0 < x -> 0 <= tol -> forall m, (1 <= m)%Z ->
  e == inject_Z m * x -> bad_rem tol x e = false /\ Qround_half_even (e / x) = m.
Proof. exact bycell_exact_multiple. Qed.
Print Assumptions C01_by_cell_exact_multiple.

Theorem C01_by_cell_accept_close : forall x e tol, 0 < x -> 0 <= tol -> 2 * tol < x -> bad_rem tol x e = false ->
  Qabs (e - inject_Z (Qround_half_even (e / x)) * x) <= tol.
Proof. exact bycell_accept_close. Qed.
Print Assumptions C01_by_cell_accept_close.

Theorem C01_by_cell_reject : forall x e tol, tol < Qremainder e x -> Qremainder e x < x - tol ->
  bad_rem tol x e = true.
Proof. exact bycell_reject. Qed.
Print Assumptions C01_by_cell_reject.

(* non-vacuity: a concrete mesh satisfies wf_mesh and exercises the maps *)
Example C01_nonvacuous :
  let r := mkRegion [0; (-1)] [4; 2] ["x"%string; "y"%string] ["m"%string; "m"%string] (1 # 1000000000000) in
  let m := mkMesh r [4; 6]%Z "" [] in
  wf_mesh m /\ (exists p, index2point m [3; 0]%Z = OK p /\ qlist_eqb p [7 # 2; (-3) # 4] = true) /\
  point2index m [4; (-1)] = OK [3; 0]%Z.
Proof. exact nonvacuous_mesh. Qed.
Print Assumptions C01_nonvacuous.

(* n-dimensional tiling: every point of the half-open region lies in exactly one cell —
   the one point2index returns *)
Theorem C01_tiling_exists : forall m : mesh, wf_mesh m -> forall p : list Q,
  in_half_open m p -> exists i, point2index m p = OK i /\ in_cell m i p.
Proof. exact tiling_exists. Qed.
Print Assumptions C01_tiling_exists.

Theorem C01_tiling_unique : forall m : mesh, wf_mesh m -> forall (p : list Q) (i j : list Z),
  in_cell m i p -> in_cell m j p -> i = j.
Proof. exact tiling_unique. Qed.
Print Assumptions C01_tiling_unique.

(* ---- what the constructors accept is well-formed: every theorem above (stated for wf_mesh m)
   applies to every mesh Region(p1, p2) / Mesh(region, n) accept.  The bound on the number of
   dimensions concerns only the DEFAULT dimension names: the model writes them "x<digit>", which is
   the implementation's f"x{i}" up to ten dimensions. *)
Theorem C01_region_constructor_wf : forall p1 p2 ds us tf_ r,
  mk_region p1 p2 ds us tf_ = OK r -> 0 <= tf_ ->
  (ds = None -> (length p1 <= 10)%nat) -> wf_region r.
Proof. exact mk_region_wf. Qed.
Print Assumptions C01_region_constructor_wf.
Theorem C01_mesh_constructor_wf : forall r n_ m, wf_region r -> mk_mesh_n r n_ = OK m -> wf_mesh m.
Proof. exact mk_mesh_n_wf. Qed.
Print Assumptions C01_mesh_constructor_wf.
Theorem C01_build_wf : forall p1 p2 n_ tf_ m,
  build p1 p2 n_ tf_ = OK m -> 0 <= tf_ -> (length p1 <= 10)%nat -> wf_mesh m.
Proof. exact build_wf. Qed.
Print Assumptions C01_build_wf.

(* ---- the tie, proved (exact regime): a shard case that evaluates to true certifies that the
   OBSERVED output is the model's value on the observed input *)
Theorem C01_check_index2point_sound : forall p1 p2 n_ tf_ i q,
  check_C01 (CI2P true p1 p2 n_ tf_ i (Some q)) = true ->
  exists m p, build p1 p2 n_ tf_ = OK m /\ index2point m i = OK p /\ Forall2 Qeq p q.
Proof. exact check_i2p_sound. Qed.
Print Assumptions C01_check_index2point_sound.
Theorem C01_check_index2point_reject_sound : forall p1 p2 n_ tf_ i,
  check_C01 (CI2P true p1 p2 n_ tf_ i None) = true ->
  exists m e, build p1 p2 n_ tf_ = OK m /\ index2point m i = Err e.
Proof. exact check_i2p_reject_sound. Qed.
Print Assumptions C01_check_index2point_reject_sound.
Theorem C01_check_point2index_sound : forall p1 p2 n_ tf_ p obs_in j,
  check_C01 (CP2I true p1 p2 n_ tf_ p obs_in (Some j)) = true ->
  exists m, build p1 p2 n_ tf_ = OK m /\ point2index m p = OK j /\ contains_pt (reg m) p = obs_in.
Proof. exact check_p2i_sound. Qed.
Print Assumptions C01_check_point2index_sound.
(* transfer: an accepted observed centre belongs to a well-formed mesh and maps back to its index *)
Theorem C01_accepted_centre_roundtrip : forall p1 p2 n_ tf_ i q,
  check_C01 (CI2P true p1 p2 n_ tf_ i (Some q)) = true -> 0 <= tf_ -> (length p1 <= 10)%nat ->
  exists m p, build p1 p2 n_ tf_ = OK m /\ wf_mesh m /\ index2point m i = OK p /\
              Forall2 Qeq p q /\ point2index m p = OK i.
Proof. exact accepted_centre_roundtrip. Qed.
Print Assumptions C01_accepted_centre_roundtrip.
Example C01_accepted_centre_instance :
  check_C01 (CI2P true [0; 0] [4; 3] [4; 2]%Z (1 # 1000000000000) [3; 0]%Z (Some [7 # 2; 3 # 4])) = true.
Proof. exact accepted_centre_instance. Qed.
Print Assumptions C01_accepted_centre_instance.

(* ---- the n-d by-cell constructor, both directions.  Accepted whenever every edge is a whole
   number of cells (with those counts); whatever it accepts sits on the region, has the rounded
   count in every direction, and every edge is a whole number of cells up to the documented
   tolerance (0.1 % of the smallest cell length). *)
Theorem C01_by_cell_constructor_accepts : forall (r : region) (c : list Q) (ks : list Z),
  wf_region r -> length c = ndim r -> length ks = ndim r ->
  (forall a, (a < ndim r)%nat ->
     0 < nth a c 0 /\ (0 < nth a ks 0)%Z /\
     nth a (pmax r) 0 - nth a (pmin r) 0 == inject_Z (nth a ks 0%Z) * nth a c 0) ->
  mesh_by_cell r c = OK (mkMesh r ks "" []).
Proof. exact mesh_by_cell_accepts. Qed.
Print Assumptions C01_by_cell_constructor_accepts.
Theorem C01_by_cell_constructor_sound : forall (r : region) (c : list Q) (m : mesh),
  wf_region r -> mesh_by_cell r c = OK m ->
  reg m = r /\ length c = ndim r /\ length (n m) = ndim r /\
  forall a, (a < ndim r)%nat ->
    0 < nth a c 0 /\
    nth a (n m) 0%Z = Qround_half_even ((nth a (pmax r) 0 - nth a (pmin r) 0) / nth a c 0) /\
    Qabs ((nth a (pmax r) 0 - nth a (pmin r) 0) - inject_Z (nth a (n m) 0%Z) * nth a c 0) <= bycell_tol c.
Proof. exact mesh_by_cell_sound. Qed.
Print Assumptions C01_by_cell_constructor_sound.

(* the by-cell constructor establishes wf_mesh (in particular: at least one cell per direction) as soon
   as its tolerance (0.1 % of the smallest cell length) is smaller than every edge ... *)
Theorem C01_by_cell_constructor_wf : forall (r : region) (c : list Q) (m : mesh),
  wf_region r -> mesh_by_cell r c = OK m ->
  (forall a, (a < ndim r)%nat -> bycell_tol c < nth a (pmax r) 0 - nth a (pmin r) 0) ->
  wf_mesh m.
Proof. exact mesh_by_cell_wf. Qed.
Print Assumptions C01_by_cell_constructor_wf.
(* ... and the guard is needed, in the model exactly as in the implementation (replayed: Region(p1=0, p2=1,
   tolerance_factor=2000) with cell=1000 gives a mesh with n = [0]): with a tolerance factor of a thousand
   or more the "cell exceeds the region" test passes by tolerance and a zero-cell mesh is returned.
   tolerance_factor is outside C01's quantifier; recorded in DESIGN.md 9.6 as an observation. *)
Theorem C01_by_cell_degenerate_witness :
  exists r c m, wf_region r /\ mesh_by_cell r c = OK m /\ n m = [0%Z].
Proof. exact by_cell_degenerate_witness. Qed.
Print Assumptions C01_by_cell_degenerate_witness.

(* transfer of C01_cell_contains to the observation: the OBSERVED index returned by point2index is in range
   and its cell contains the probe point (tolerance form; sharp half-open form inside the region; the upper
   face belongs to the last cell), and the observed `p in region` is the model's *)
Theorem C01_accepted_point_in_cell : forall p1 p2 n_ tf_ p obs_in j,
  check_C01 (CP2I true p1 p2 n_ tf_ p obs_in (Some j)) = true -> 0 <= tf_ -> (length p1 <= 10)%nat ->
  exists m, build p1 p2 n_ tf_ = OK m /\ wf_mesh m /\ contains_pt (reg m) p = obs_in /\
  length j = length (pmin (reg m)) /\
  forall a, (a < length (pmin (reg m)))%nat ->
    let lo := nth a (pmin (reg m)) 0 in let hi := nth a (pmax (reg m)) 0 in
    let c := nth a (cell m) 0 in let x := nth a p 0 in let k := nth a j 0%Z in
    let t := tau (tf (reg m)) (reg_atol (reg m)) x in
    (0 <= k < nth a (n m) 1)%Z /\
    lo + inject_Z k * c - t <= x /\ x <= lo + (inject_Z k + 1) * c + t /\
    (lo <= x -> x < hi -> lo + inject_Z k * c <= x /\ x < lo + (inject_Z k + 1) * c) /\
    (hi <= x -> k = (nth a (n m) 1 - 1)%Z).
Proof. exact accepted_point_in_cell. Qed.
Print Assumptions C01_accepted_point_in_cell.
Example C01_accepted_point_instance :
  check_C01 (CP2I true [0; 0] [4; 3] [4; 2]%Z (1 # 1000000000000) [7 # 2; 3 # 2] true (Some [3; 1]%Z)) = true.
Proof. exact accepted_point_instance. Qed.
Print Assumptions C01_accepted_point_instance.

(* the lattice case (exact regime): observed cell count, iteration order, cell centres and coordinate field
   are the model's; hence the OBSERVED iteration has prod n entries and holds index i at position
   i0 + n0*(i1 + n1*(...)) (first dimension fastest) *)
Theorem C01_check_lattice_sound : forall p1 p2 n_ obs_len obs_indices obs_points obs_cells obs_vertices obs_coord,
  check_C01 (CLattice true p1 p2 n_ obs_len obs_indices obs_points obs_cells obs_vertices obs_coord) = true ->
  exists m, build p1 p2 n_ (1 # 1000000000000) = OK m /\
    mesh_len m = obs_len /\
    obs_indices = indices_xfast (n m) /\
    Forall2 (Forall2 Qeq)
      (map (fun i => match index2point m i with OK p => p | Err _ => [] end) (indices_xfast (n m))) obs_points /\
    Forall2 (Forall2 Qeq)
      (map (fun i => match index2point m i with OK p => p | Err _ => [] end) (indices_xfast (n m))) obs_coord.
Proof. exact check_lattice_sound. Qed.
Print Assumptions C01_check_lattice_sound.
Theorem C01_accepted_iteration_order : forall p1 p2 n_ obs_len obs_indices obs_points obs_cells obs_vertices obs_coord,
  check_C01 (CLattice true p1 p2 n_ obs_len obs_indices obs_points obs_cells obs_vertices obs_coord) = true ->
  exists m, build p1 p2 n_ (1 # 1000000000000) = OK m /\
    length obs_indices = nprod (nsizes (n m)) /\
    forall i, in_range (n m) i -> nth (Z.to_nat (ravel_xfast (n m) i)) obs_indices [] = i.
Proof. exact accepted_iteration_order. Qed.
Print Assumptions C01_accepted_iteration_order.
Theorem C01_shard_verdict : forall cases k,
  failing k (map check_C01 cases) = [] -> forall c, In c cases -> check_C01 c = true.
Proof. exact (CheckSound.failing_nil_all check_C01). Qed.
Print Assumptions C01_shard_verdict.

(* the by-cell case on the observation: the OBSERVED counts of Mesh(region, cell=c) are the rounded edge/cell
   ratios and every edge is a whole number of observed cells up to the documented tolerance; an observed
   refusal is the model's refusal *)
Theorem C01_check_by_cell_sound : forall ex p1 p2 c tf_ k,
  check_C01 (CByCell ex p1 p2 c tf_ (Some k)) = true ->
  exists r m, mk_region p1 p2 None None tf_ = OK r /\ mesh_by_cell r c = OK m /\ n m = k.
Proof. exact check_bycell_sound. Qed.
Print Assumptions C01_check_by_cell_sound.
Theorem C01_check_by_cell_reject_sound : forall ex p1 p2 c tf_,
  check_C01 (CByCell ex p1 p2 c tf_ None) = true ->
  exists r e, mk_region p1 p2 None None tf_ = OK r /\ mesh_by_cell r c = Err e.
Proof. exact check_bycell_reject_sound. Qed.
Print Assumptions C01_check_by_cell_reject_sound.
Theorem C01_accepted_by_cell_counts : forall ex p1 p2 c tf_ k,
  check_C01 (CByCell ex p1 p2 c tf_ (Some k)) = true -> 0 <= tf_ -> (length p1 <= 10)%nat ->
  exists r, mk_region p1 p2 None None tf_ = OK r /\ wf_region r /\
    length c = ndim r /\ length k = ndim r /\
    forall a, (a < ndim r)%nat ->
      0 < nth a c 0 /\
      nth a k 0%Z = Qround_half_even ((nth a (pmax r) 0 - nth a (pmin r) 0) / nth a c 0) /\
      Qabs ((nth a (pmax r) 0 - nth a (pmin r) 0) - inject_Z (nth a k 0%Z) * nth a c 0) <= bycell_tol c.
Proof. exact accepted_by_cell_counts. Qed.
Print Assumptions C01_accepted_by_cell_counts.
Example C01_accepted_by_cell_instance :
  check_C01 (CByCell true [0; 0] [4; 3] [1 # 2; 1] (1 # 1000000000000) (Some [8; 3]%Z)) = true.
Proof. exact accepted_by_cell_instance. Qed.
Print Assumptions C01_accepted_by_cell_instance.

(* the region case: observed pmin / pmax are the model's for either corner order; hence the OBSERVED corners are
   strictly ordered on every axis and have the dimension of the input *)
Theorem C01_check_region_sound : forall p1 p2 lo hi,
  check_C01 (CRegion p1 p2 (Some (lo, hi))) = true ->
  exists r, mk_region p1 p2 None None (1 # 1000000000000) = OK r /\
    Forall2 Qeq (pmin r) lo /\ Forall2 Qeq (pmax r) hi.
Proof. exact check_region_sound. Qed.
Print Assumptions C01_check_region_sound.
Theorem C01_accepted_region_ordered : forall p1 p2 lo hi,
  check_C01 (CRegion p1 p2 (Some (lo, hi))) = true -> (length p1 <= 10)%nat ->
  Forall2 (fun x y => x < y) lo hi /\ length lo = length p1 /\ length hi = length p1.
Proof. exact accepted_region_ordered. Qed.
Print Assumptions C01_accepted_region_ordered.
