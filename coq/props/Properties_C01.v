(* C01 — Mesh cells tile the region; index<->coordinate maps are mutually inverse.
   This file holds ONLY statements, each closed by [exact] of a lemma proved in proofs/,
   followed by Print Assumptions. *)
From DF Require Import Prelude Constants_gen Region Mesh C01_axis C01_nd.
Open Scope Q_scope.

(* centres are pmin + (i + 1/2) * cell, cell = edges / n *)
Theorem C01_centres : forall m : mesh, wf_mesh m -> forall i : list Z,
  length i = length (pmin (reg m)) ->
  (forall a, (a < length (pmin (reg m)))%nat -> (0 <= nth a i 0 < nth a (n m) 1)%Z) ->
  exists p, index2point m i = OK p /\ length p = length (pmin (reg m)) /\
    forall a, (a < length (pmin (reg m)))%nat ->
      nth a p 0 == nth a (pmin (reg m)) 0 + (inject_Z (nth a i 0%Z) + (1 # 2)) * nth a (cell m) 0.
Proof. exact index2point_accepts. Qed.
Print Assumptions C01_centres.

Theorem C01_cell_is_edges_over_n (lo hi : Q) (k : Z) :
  lo < hi -> (0 < k)%Z -> 0 < cell_of lo hi k /\ inject_Z k * cell_of lo hi k == hi - lo.
Proof. exact (cell_is_edges_over_n lo hi k). Qed.
Print Assumptions C01_cell_is_edges_over_n.

(* index -> centre -> index *)
Theorem C01_roundtrip : forall m : mesh, wf_mesh m -> forall (i : list Z) (p : list Q),
  index2point m i = OK p -> point2index m p = OK i.
Proof. exact roundtrip. Qed.
Print Assumptions C01_roundtrip.

(* every accepted point maps to an in-range index whose cell contains it:
   up to the region tolerance in general; sharply (lower face inclusive) inside the
   half-open region; the upper face belongs to the last cell *)
Theorem C01_cell_contains : forall m : mesh, wf_mesh m -> forall (p : list Q) (i : list Z),
  point2index m p = OK i ->
  length i = length (pmin (reg m)) /\
  forall a, (a < length (pmin (reg m)))%nat ->
    let lo := nth a (pmin (reg m)) 0 in let hi := nth a (pmax (reg m)) 0 in
    let c := nth a (cell m) 0 in let x := nth a p 0 in let j := nth a i 0%Z in
    let t := tau (tf (reg m)) (reg_atol (reg m)) x in
    (0 <= j < nth a (n m) 1)%Z /\
    lo + inject_Z j * c - t <= x /\ x <= lo + (inject_Z j + 1) * c + t /\
    (lo <= x -> x < hi -> lo + inject_Z j * c <= x /\ x < lo + (inject_Z j + 1) * c) /\
    (hi <= x -> j = (nth a (n m) 1 - 1)%Z).
Proof. exact cell_contains. Qed.
Print Assumptions C01_cell_contains.

(* rejection of out-of-range indices and of points beyond the tolerance band *)
Theorem C01_reject_index : forall m : mesh, wf_mesh m -> forall i : list Z,
  length i <> length (pmin (reg m)) \/
  (exists a, (a < length (pmin (reg m)))%nat /\ ~ (0 <= nth a i 0 < nth a (n m) 1)%Z) ->
  is_ok (index2point m i) = false.
Proof. exact index_rejected. Qed.
Print Assumptions C01_reject_index.

Theorem C01_reject_point : forall m : mesh, wf_mesh m -> forall p : list Q,
  length p <> length (pmin (reg m)) \/
  (exists a, (a < length (pmin (reg m)))%nat /\
     let t := tau (tf (reg m)) (reg_atol (reg m)) (nth a p 0) in
     (nth a p 0 < nth a (pmin (reg m)) 0 - t \/ nth a (pmax (reg m)) 0 + t < nth a p 0)) ->
  is_ok (point2index m p) = false.
Proof. exact point_rejected. Qed.
Print Assumptions C01_reject_point.

(* the half-open cells tile each axis: exactly one cell contains a point of [lo, hi) *)
Theorem C01_tiling_axis (lo hi : Q) (k : Z) (p : Q) :
  lo < hi -> (0 < k)%Z -> lo <= p -> p < hi ->
  let c := cell_of lo hi k in
  exists i, ((0 <= i < k)%Z /\ lo + inject_Z i * c <= p /\ p < lo + (inject_Z i + 1) * c) /\
    forall j, (0 <= j < k)%Z -> lo + inject_Z j * c <= p -> p < lo + (inject_Z j + 1) * c -> j = i.
Proof. exact (tiling_axis lo hi k p). Qed.
Print Assumptions C01_tiling_axis.
