(* C02 — a field holds exactly the value its specification assigns to every cell.
   ONLY statements, each closed by [exact] of a lemma proved in proofs/, followed by Print Assumptions.
   The value type V is arbitrary (values are placed, never computed with): the theorems hold for
   int, float, complex and bool fields alike. *)
From DF Require Import Prelude Constants_gen Region Mesh FieldCore QLemmas ListLemmas C01_axis C01_nd C01_lattice C02_core.
Open Scope Q_scope.

(* --- number: broadcast to every cell and component; a non-zero number is rejected for vector fields --- *)
Theorem C02_constant : forall (V : Type) (is_zero : V -> bool) (nv : nat) (v : V),
  ((nv <= 1)%nat \/ is_zero v = true ->
     exists a, as_array_const is_zero nv v = OK a /\ forall i : zidx, a i = repeat v nv /\ length (a i) = nv) /\
  ((1 < nv)%nat /\ is_zero v = false -> is_ok (as_array_const is_zero nv v) = false).
Proof. exact const_spec. Qed.
Print Assumptions C02_constant.

(* --- array-like: whatever is accepted has trailing length nvdim, is broadcastable to (n.., nvdim),
       and each cell holds the (broadcast) entries of the array --- *)
Theorem C02_array : forall (V : Type) (vzero : V) (m : mesh) (nv : nat) (sh : list Z) (data : list V) a,
  ((nv =? 1)%nat && zlist_eqb sh (n m) = false) ->
  as_array_arr vzero m nv sh data = OK a ->
  last_z sh = Z.of_nat nv /\ bcast_ok sh (shape_of m nv) = true /\
  forall i, a i = map (fun k => nda_at vzero sh data (bcast_idx sh (i ++ [k]))) (ziota 0 nv).
Proof. exact arr_accepted. Qed.
Print Assumptions C02_array.

(* for an array of the full shape broadcasting is the identity: entry [i ++ [k]] of the array *)
Theorem C02_array_full_index : forall (sh i : list Z),
  length i = length sh -> (forall a, (a < length sh)%nat -> (0 <= nth a i 0 < nth a sh 1)%Z) ->
  bcast_idx sh i = i.
Proof. exact bcast_idx_full. Qed.
Print Assumptions C02_array_full_index.

Theorem C02_array_full_shape_ok : forall sh : list Z, bcast_ok sh sh = true.
Proof. exact bcast_ok_refl. Qed.
Print Assumptions C02_array_full_shape_ok.

(* scalar shortcut: an array of shape n for nvdim = 1 *)
Theorem C02_array_shape_n : forall (V : Type) (vzero : V) (m : mesh) (data : list V),
  n m <> [] ->
  exists a, as_array_arr vzero m 1 (n m) data = OK a /\ forall i, a i = [nda_at vzero (n m) data i].
Proof. exact arr_shortcut. Qed.
Print Assumptions C02_array_shape_n.

(* --- callable: evaluated at the centre of every cell (the point Mesh.index2point returns) --- *)
Theorem C02_function : forall (V : Type) (m : mesh) (nv : nat) (f : list Q -> list V) a,
  as_array_fun m nv f = OK a ->
  (forall i, a i = f (centre m i)) /\
  (forall i, In i (indices_xfast (n m)) -> length (a i) = nv).
Proof. exact fun_accepted. Qed.
Print Assumptions C02_function.

Theorem C02_function_accepts : forall (V : Type) (m : mesh) (nv : nat) (f : list Q -> list V),
  (forall i, In i (indices_xfast (n m)) -> length (f (centre m i)) = nv) ->
  exists a, as_array_fun m nv f = OK a /\ forall i, a i = f (centre m i).
Proof. exact fun_spec. Qed.
Print Assumptions C02_function_accepts.

Theorem C02_centre_is_index2point : forall (m : mesh) (i : zidx),
  wf_mesh m -> in_range (n m) i -> index2point m i = OK (centre m i).
Proof. exact centre_is_index2point. Qed.
Print Assumptions C02_centre_is_index2point.

(* --- dictionary: the code's reversed overwrite loop equals "first listed subregion wins, then the
       default"; [blocks] lists the index blocks of the subregions that have a key, in the order in
       which the mesh lists them --- *)
Theorem C02_dict_loop_is_first_match : forall (V : Type) (bs : list (block V)) (a0 : oarr V) (i : zidx),
  paint bs a0 i = match first_block bs i with
                  | Some b => Some (b_arr b (map2 Z.sub i (b_lo b)))
                  | None => a0 i
                  end.
Proof. exact paint_first. Qed.
Print Assumptions C02_dict_loop_is_first_match.

Theorem C02_dict_first_wins : forall (V : Type) (vzero : V) (is_zero : V -> bool) (m : mesh) (nv : nat)
    (items : list (string * sspec V)) (d : ddefault V) a,
  as_array_dict vzero is_zero m nv items d = OK a ->
  exists bs, blocks vzero is_zero m nv items = OK bs /\
    Forall2 (fun rs b => mk_block vzero is_zero m nv (fst rs) (snd rs) = OK b) (keyed m items) bs /\
    forall i, In i (indices_xfast (n m)) ->
      match first_block bs i with
      | Some b => a i = b_arr b (map2 Z.sub i (b_lo b))
      | None =>
          match d with
          | DNone => False
          | DFill s => exists f, fill_array vzero m nv s = OK f /\ a i = f i
          | DCall f => a i = f (centre m i) /\ length (a i) = nv
          | DSample src => sample src (centre m i) = OK (a i) /\ length (a i) = nv
          end
      end.
Proof. exact dict_first_wins. Qed.
Print Assumptions C02_dict_first_wins.

Theorem C02_dict_missing_default : forall (V : Type) (vzero : V) (is_zero : V -> bool) (m : mesh) (nv : nat)
    (items : list (string * sspec V)) bs i,
  blocks vzero is_zero m nv items = OK bs -> In i (indices_xfast (n m)) -> first_block bs i = None ->
  is_ok (as_array_dict vzero is_zero m nv items DNone) = false.
Proof. exact dict_missing_default. Qed.
Print Assumptions C02_dict_missing_default.

(* --- source field: per axis, with the target centre q inside the source axis [lo, hi]:
       the cell chosen by the model contains q (closed), and so does ANY cell whose centre is at
       minimal distance from q, whatever the tie rule of the library --- *)
Theorem C02_source_pick_contains : forall (lo hi : Q) (k : Z), lo < hi -> (0 < k)%Z ->
  forall q, lo <= q -> q <= hi ->
  let c := cell_of lo hi k in let j := p2i1 lo c k q in
  (0 <= j < k)%Z /\ lo + inject_Z j * c <= q /\ q <= lo + (inject_Z j + 1) * c.
Proof. exact pick_contains. Qed.
Print Assumptions C02_source_pick_contains.

Theorem C02_source_nearest_contains : forall (lo hi : Q) (k : Z), lo < hi -> (0 < k)%Z ->
  forall q i, lo <= q -> q <= hi -> (0 <= i < k)%Z ->
  let c := cell_of lo hi k in
  (forall j, (0 <= j < k)%Z -> Qabs (i2p1 lo c i - q) <= Qabs (i2p1 lo c j - q)) ->
  lo + inject_Z i * c <= q /\ q <= lo + (inject_Z i + 1) * c.
Proof. exact nearest_contains. Qed.
Print Assumptions C02_source_nearest_contains.

(* --- sampling, component access, iteration --- *)
Theorem C02_sampling : forall (V : Type) (f : fstate V) (p : list Q) (v : list V),
  sample f p = OK v -> exists i, point2index (fmesh f) p = OK i /\ v = farr f i.
Proof. exact sample_spec. Qed.
Print Assumptions C02_sampling.

Theorem C02_sampling_centre : forall (V : Type) (f : fstate V) (i : zidx),
  wf_mesh (fmesh f) -> in_range (n (fmesh f)) i -> sample f (centre (fmesh f) i) = OK (farr f i).
Proof. exact sample_centre. Qed.
Print Assumptions C02_sampling_centre.

Theorem C02_sampling_outside : forall (V : Type) (f : fstate V) (p : list Q),
  is_ok (point2index (fmesh f) p) = false -> is_ok (sample f p) = false.
Proof. exact sample_outside. Qed.
Print Assumptions C02_sampling_outside.

Theorem C02_component : forall (V : Type) (vzero : V) (f : fstate V) (label : string) (l : list string) (k : nat),
  fvdims f = Some l -> index_of label l = Some k ->
  exists g, component vzero f label = OK g /\ fmesh g = fmesh f /\ fnv g = 1%nat /\
            forall i, farr g i = [nth k (farr f i) vzero].
Proof. exact component_spec. Qed.
Print Assumptions C02_component.

Theorem C02_component_unknown : forall (V : Type) (vzero : V) (f : fstate V) (label : string),
  (fvdims f = None \/ exists l, fvdims f = Some l /\ index_of label l = None) ->
  is_ok (component vzero f label) = false.
Proof. exact component_unknown. Qed.
Print Assumptions C02_component_unknown.

Theorem C02_iteration : forall (V : Type) (f : fstate V),
  wf_mesh (fmesh f) ->
  iterate f = map (fun i => OK (farr f i)) (indices_xfast (n (fmesh f))).
Proof. exact iterate_spec. Qed.
Print Assumptions C02_iteration.

(* --- line: k points, the first is p1, the last is p2, equal steps, all inside any box that holds
       p1 and p2 (so every point can be sampled), squared distance from p1 = (i/(k-1))^2 |p2-p1|^2 --- *)
Theorem C02_line_count : forall p1 p2 k, length (line_points p1 p2 k) = Z.to_nat k.
Proof. exact line_points_length. Qed.
Print Assumptions C02_line_count.

Theorem C02_line_nth : forall p1 p2 k j, (j < Z.to_nat k)%nat ->
  nth j (line_points p1 p2 k) [] = line_point p1 p2 k (Z.of_nat j).
Proof. exact line_points_nth. Qed.
Print Assumptions C02_line_nth.

Theorem C02_line_first : forall p1 p2 k a, (a < length p1)%nat -> length p2 = length p1 ->
  nth a (line_point p1 p2 k 0) 0 == nth a p1 0.
Proof. exact line_first. Qed.
Print Assumptions C02_line_first.

Theorem C02_line_last : forall p1 p2 k a, (a < length p1)%nat -> length p2 = length p1 -> (2 <= k)%Z ->
  nth a (line_point p1 p2 k (k - 1)) 0 == nth a p2 0.
Proof. exact line_last. Qed.
Print Assumptions C02_line_last.

Theorem C02_line_equidistant : forall p1 p2 k i a, (a < length p1)%nat -> length p2 = length p1 ->
  nth a (line_point p1 p2 k (i + 1)) 0 - nth a (line_point p1 p2 k i) 0 ==
  (nth a p2 0 - nth a p1 0) / inject_Z (k - 1).
Proof. exact line_step. Qed.
Print Assumptions C02_line_equidistant.

Theorem C02_line_inside : forall p1 p2 k i a lo hi, (a < length p1)%nat -> length p2 = length p1 -> (2 <= k)%Z ->
  (0 <= i <= k - 1)%Z ->
  lo <= nth a p1 0 <= hi -> lo <= nth a p2 0 <= hi ->
  lo <= nth a (line_point p1 p2 k i) 0 <= hi.
Proof. exact line_inside. Qed.
Print Assumptions C02_line_inside.

Theorem C02_line_distance : forall p1 p2 k i, length p2 = length p1 -> (2 <= k)%Z ->
  dist2 (line_point p1 p2 k i) p1 ==
  (inject_Z i / inject_Z (k - 1)) * (inject_Z i / inject_Z (k - 1)) * dist2 p2 p1.
Proof. exact line_dist2. Qed.
Print Assumptions C02_line_distance.

(* --- rejections; a rejected specification leaves the existing field unchanged --- *)
Theorem C02_reject_wrong_length : forall (V : Type) (vzero : V) (m : mesh) (nv : nat) (sh : list Z) (data : list V),
  ((nv =? 1)%nat && zlist_eqb sh (n m) = false) -> last_z sh <> Z.of_nat nv ->
  is_ok (as_array_arr vzero m nv sh data) = false.
Proof. exact arr_wrong_length. Qed.
Print Assumptions C02_reject_wrong_length.

Theorem C02_reject_wrong_shape : forall (V : Type) (vzero : V) (m : mesh) (nv : nat) (sh : list Z) (data : list V),
  ((nv =? 1)%nat && zlist_eqb sh (n m) = false) -> bcast_ok sh (shape_of m nv) = false ->
  is_ok (as_array_arr vzero m nv sh data) = false.
Proof. exact arr_wrong_shape. Qed.
Print Assumptions C02_reject_wrong_shape.

Theorem C02_reject_callable_length : forall (V : Type) (m : mesh) (nv : nat) (f : list Q -> list V) i,
  In i (indices_xfast (n m)) -> length (f (centre m i)) <> nv ->
  is_ok (as_array_fun m nv f) = false.
Proof. exact fun_wrong_length. Qed.
Print Assumptions C02_reject_callable_length.

Theorem C02_reject_type : forall (V : Type) (vzero : V) (is_zero : V -> bool) (m : mesh) (nv : nat),
  is_ok (as_array_simple vzero is_zero m nv SBad) = false.
Proof. exact bad_rejected. Qed.
Print Assumptions C02_reject_type.

Theorem C02_reject_keeps_state : forall (V : Type) (vzero : V) (is_zero : V -> bool) (f : fstate V) (s : spec V),
  is_ok (set_array vzero is_zero f s) = false -> assign vzero is_zero f s = f.
Proof. exact reject_keeps_state. Qed.
Print Assumptions C02_reject_keeps_state.

Theorem C02_accept_replaces_array_only : forall (V : Type) (vzero : V) (is_zero : V -> bool) (f f' : fstate V) (s : spec V),
  set_array vzero is_zero f s = OK f' ->
  assign vzero is_zero f s = f' /\ fmesh f' = fmesh f /\ fnv f' = fnv f /\ fvdims f' = fvdims f /\
  as_array vzero is_zero (fmesh f) (fnv f) s = OK (farr f').
Proof. exact accept_sets_array. Qed.
Print Assumptions C02_accept_replaces_array_only.

(* non-vacuity: a concrete well-formed mesh, an in-range cell, a sampled centre *)
Example C02_nonvacuous :
  let r := mkRegion [0; (-1)] [4; 2] ["x"%string; "y"%string] ["m"%string; "m"%string] (1 # 1000000000000) in
  let m := mkMesh r [4; 6]%Z "" [] in
  let f := mkF m 1 (fun i => [nth 0 i 0%Z]) None in
  wf_mesh m /\ in_range (n m) [3; 0]%Z /\ sample f [4; (-1)] = OK [3%Z] /\
  (exists a, as_array_fun m 2 (fun p => p) = OK a /\ qlist_eqb (a [3; 0]%Z) [7 # 2; (-3) # 4] = true).
Proof. exact nonvacuous_field. Qed.
