(* C02 — a field holds exactly the value its specification assigns to every cell.
   ONLY statements, each closed by [exact] of a lemma proved in proofs/, followed by Print Assumptions.
   The value type V is arbitrary (values are placed, never computed with): the theorems hold for
   int, float, complex and bool fields alike. *)
From DF Require Import Prelude Constants_gen Region Mesh FieldCore QLemmas ListLemmas C01_axis C01_nd C01_lattice C02_core C02_geom CheckSound Check_C02 C02_sound.
Open Scope Q_scope.

(* --- number: broadcast to every cell and component; a non-zero number is rejected for vector fields --- *)
Theorem C02_constant : forall (V : Type) (is_zero : V -> bool) (nv : nat) (v : V),
  ((nv <= 1)%nat \/ is_zero v = true ->
     exists a, as_array_const is_zero nv v = OK a /\ forall i : zidx, a i = repeat v nv /\ length (a i) = nv) /\
  ((1 < nv)%nat /\ is_zero v = false -> is_ok (as_array_const is_zero nv v) = false).
Proof. exact const_spec. Qed.
Print Assumptions C02_constant.

(* --- array-like: whatever is accepted has trailing length nvdim, is broadcastable to (n.., nvdim),
       and each cell holds the (broadcast) entries of the array --- *)
Theorem C02_array : forall (V : Type) (vzero : V) (m : mesh) (nv : nat) (sh : list Z) (data : list V) a,
  ((nv =? 1)%nat && zlist_eqb sh (n m) = false) ->
  as_array_arr vzero m nv sh data = OK a ->
  last_z sh = Z.of_nat nv /\ bcast_ok (eff_shape m nv sh) (shape_of m nv) = true /\
  forall i, a i = map (fun k => nda_at vzero (eff_shape m nv sh) data
                                  (bcast_idx (eff_shape m nv sh) (i ++ [k]))) (ziota 0 nv).
Proof. exact arr_accepted. Qed.
Print Assumptions C02_array.

(* [eff_shape]: numpy drops excess leading axes of length 1; without excess axes it is the shape itself *)
Theorem C02_array_eff_shape : forall (m : mesh) (nv : nat) (sh : list Z),
  (length sh <= length (shape_of m nv))%nat -> eff_shape m nv sh = sh.
Proof. exact eff_shape_same. Qed.
Print Assumptions C02_array_eff_shape.

(* for an array of the full shape broadcasting is the identity: entry [i ++ [k]] of the array *)
Theorem C02_array_full_index : forall (sh i : list Z),
  length i = length sh -> (forall a, (a < length sh)%nat -> (0 <= nth a i 0 < nth a sh 1)%Z) ->
  bcast_idx sh i = i.
Proof. exact bcast_idx_full. Qed.
Print Assumptions C02_array_full_index.

Theorem C02_array_full_shape_ok : forall sh : list Z, bcast_ok sh sh = true.
Proof. exact bcast_ok_refl. Qed.
Print Assumptions C02_array_full_shape_ok.

(* scalar shortcut: an array of shape n for nvdim = 1 *)
Theorem C02_array_shape_n : forall (V : Type) (vzero : V) (m : mesh) (data : list V),
  n m <> [] ->
  exists a, as_array_arr vzero m 1 (n m) data = OK a /\ forall i, a i = [nda_at vzero (n m) data i].
Proof. exact arr_shortcut. Qed.
Print Assumptions C02_array_shape_n.

(* --- callable: evaluated at the centre of every cell (the point Mesh.index2point returns) --- *)
Theorem C02_function : forall (V : Type) (m : mesh) (nv : nat) (f : list Q -> list V) a,
  as_array_fun m nv f = OK a ->
  (forall i, a i = f (centre m i)) /\
  (forall i, In i (indices_xfast (n m)) -> length (a i) = nv).
Proof. exact fun_accepted. Qed.
Print Assumptions C02_function.

Theorem C02_function_accepts : forall (V : Type) (m : mesh) (nv : nat) (f : list Q -> list V),
  (forall i, In i (indices_xfast (n m)) -> length (f (centre m i)) = nv) ->
  exists a, as_array_fun m nv f = OK a /\ forall i, a i = f (centre m i).
Proof. exact fun_spec. Qed.
Print Assumptions C02_function_accepts.

Theorem C02_centre_is_index2point : forall (m : mesh) (i : zidx),
  wf_mesh m -> in_range (n m) i -> index2point m i = OK (centre m i).
Proof. exact centre_is_index2point. Qed.
Print Assumptions C02_centre_is_index2point.

(* --- dictionary: the code's reversed overwrite loop equals "first listed subregion wins, then the
       default"; [blocks] lists the index blocks of the subregions that have a key, in the order in
       which the mesh lists them --- *)
Theorem C02_dict_loop_is_first_match : forall (V : Type) (bs : list (block V)) (a0 : oarr V) (i : zidx),
  paint bs a0 i = match first_block bs i with
                  | Some b => Some (b_arr b (map2 Z.sub i (b_lo b)))
                  | None => a0 i
                  end.
Proof. exact paint_first. Qed.
Print Assumptions C02_dict_loop_is_first_match.

Theorem C02_dict_first_wins : forall (V : Type) (vzero : V) (is_zero : V -> bool) (m : mesh) (nv : nat)
    (items : list (string * sspec V)) (d : ddefault V) a,
  as_array_dict vzero is_zero m nv items d = OK a ->
  exists bs, blocks vzero is_zero m nv items = OK bs /\
    Forall2 (fun rs b => mk_block vzero is_zero m nv (fst rs) (snd rs) = OK b) (keyed m items) bs /\
    forall i, In i (indices_xfast (n m)) ->
      match first_block bs i with
      | Some b => a i = b_arr b (map2 Z.sub i (b_lo b))
      | None =>
          match d with
          | DNone => False
          | DFill s => exists f, fill_array vzero m nv s = OK f /\ a i = f i
          | DCall f => a i = f (centre m i) /\ length (a i) = nv
          | DSample src => sample src (centre m i) = OK (a i) /\ length (a i) = nv
          end
      end.
Proof. exact dict_first_wins. Qed.
Print Assumptions C02_dict_first_wins.

Theorem C02_dict_missing_default : forall (V : Type) (vzero : V) (is_zero : V -> bool) (m : mesh) (nv : nat)
    (items : list (string * sspec V)) bs i,
  blocks vzero is_zero m nv items = OK bs -> In i (indices_xfast (n m)) -> first_block bs i = None ->
  is_ok (as_array_dict vzero is_zero m nv items DNone) = false.
Proof. exact dict_missing_default. Qed.
Print Assumptions C02_dict_missing_default.

(* --- source field: per axis, with the target centre q inside the source axis [lo, hi]:
       the cell chosen by the model contains q (closed), and so does ANY cell whose centre is at
       minimal distance from q, whatever the tie rule of the library --- *)
Theorem C02_source_pick_contains : forall (lo hi : Q) (k : Z), lo < hi -> (0 < k)%Z ->
  forall q, lo <= q -> q <= hi ->
  let c := cell_of lo hi k in let j := p2i1 lo c k q in
  (0 <= j < k)%Z /\ lo + inject_Z j * c <= q /\ q <= lo + (inject_Z j + 1) * c.
Proof. exact pick_contains. Qed.
Print Assumptions C02_source_pick_contains.

Theorem C02_source_nearest_contains : forall (lo hi : Q) (k : Z), lo < hi -> (0 < k)%Z ->
  forall q i, lo <= q -> q <= hi -> (0 <= i < k)%Z ->
  let c := cell_of lo hi k in
  (forall j, (0 <= j < k)%Z -> Qabs (i2p1 lo c i - q) <= Qabs (i2p1 lo c j - q)) ->
  lo + inject_Z i * c <= q /\ q <= lo + (inject_Z i + 1) * c.
Proof. exact nearest_contains. Qed.
Print Assumptions C02_source_nearest_contains.

(* --- sampling, component access, iteration --- *)
Theorem C02_sampling : forall (V : Type) (f : fstate V) (p : list Q) (v : list V),
  sample f p = OK v -> exists i, point2index (fmesh f) p = OK i /\ v = farr f i.
Proof. exact sample_spec. Qed.
Print Assumptions C02_sampling.

Theorem C02_sampling_centre : forall (V : Type) (f : fstate V) (i : zidx),
  wf_mesh (fmesh f) -> in_range (n (fmesh f)) i -> sample f (centre (fmesh f) i) = OK (farr f i).
Proof. exact sample_centre. Qed.
Print Assumptions C02_sampling_centre.

Theorem C02_sampling_outside : forall (V : Type) (f : fstate V) (p : list Q),
  is_ok (point2index (fmesh f) p) = false -> is_ok (sample f p) = false.
Proof. exact sample_outside. Qed.
Print Assumptions C02_sampling_outside.

Theorem C02_component : forall (V : Type) (vzero : V) (f : fstate V) (label : string) (l : list string) (k : nat),
  fvdims f = Some l -> index_of label l = Some k ->
  exists g, component vzero f label = OK g /\ fmesh g = fmesh f /\ fnv g = 1%nat /\
            forall i, farr g i = [nth k (farr f i) vzero].
Proof. exact component_spec. Qed.
Print Assumptions C02_component.

Theorem C02_component_unknown : forall (V : Type) (vzero : V) (f : fstate V) (label : string),
  (fvdims f = None \/ exists l, fvdims f = Some l /\ index_of label l = None) ->
  is_ok (component vzero f label) = false.
Proof. exact component_unknown. Qed.
Print Assumptions C02_component_unknown.

Theorem C02_iteration : forall (V : Type) (f : fstate V),
  wf_mesh (fmesh f) ->
  iterate f = map (fun i => OK (farr f i)) (indices_xfast (n (fmesh f))).
Proof. exact iterate_spec. Qed.
Print Assumptions C02_iteration.

(* --- line: k points, the first is p1, the last is p2, equal steps, all inside any box that holds
       p1 and p2 (so every point can be sampled), squared distance from p1 = (i/(k-1))^2 |p2-p1|^2 --- *)
Theorem C02_line_count : forall p1 p2 k, length (line_points p1 p2 k) = Z.to_nat k.
Proof. exact line_points_length. Qed.
Print Assumptions C02_line_count.

Theorem C02_line_nth : forall p1 p2 k j, (j < Z.to_nat k)%nat ->
  nth j (line_points p1 p2 k) [] = line_point p1 p2 k (Z.of_nat j).
Proof. exact line_points_nth. Qed.
Print Assumptions C02_line_nth.

Theorem C02_line_first : forall p1 p2 k a, (a < length p1)%nat -> length p2 = length p1 ->
  nth a (line_point p1 p2 k 0) 0 == nth a p1 0.
Proof. exact line_first. Qed.
Print Assumptions C02_line_first.

Theorem C02_line_last : forall p1 p2 k a, (a < length p1)%nat -> length p2 = length p1 -> (2 <= k)%Z ->
  nth a (line_point p1 p2 k (k - 1)) 0 == nth a p2 0.
Proof. exact line_last. Qed.
Print Assumptions C02_line_last.

Theorem C02_line_equidistant : forall p1 p2 k i a, (a < length p1)%nat -> length p2 = length p1 ->
  nth a (line_point p1 p2 k (i + 1)) 0 - nth a (line_point p1 p2 k i) 0 ==
  (nth a p2 0 - nth a p1 0) / inject_Z (k - 1).
Proof. exact line_step. Qed.
Print Assumptions C02_line_equidistant.

Theorem C02_line_inside : forall p1 p2 k i a lo hi, (a < length p1)%nat -> length p2 = length p1 -> (2 <= k)%Z ->
  (0 <= i <= k - 1)%Z ->
  lo <= nth a p1 0 <= hi -> lo <= nth a p2 0 <= hi ->
  lo <= nth a (line_point p1 p2 k i) 0 <= hi.
Proof. exact line_inside. Qed.
Print Assumptions C02_line_inside.

Theorem C02_line_distance : forall p1 p2 k i, length p2 = length p1 -> (2 <= k)%Z ->
  dist2 (line_point p1 p2 k i) p1 ==
  (inject_Z i / inject_Z (k - 1)) * (inject_Z i / inject_Z (k - 1)) * dist2 p2 p1.
Proof. exact line_dist2. Qed.
Print Assumptions C02_line_distance.

(* --- rejections; a rejected specification leaves the existing field unchanged --- *)
Theorem C02_reject_wrong_length : forall (V : Type) (vzero : V) (m : mesh) (nv : nat) (sh : list Z) (data : list V),
  ((nv =? 1)%nat && zlist_eqb sh (n m) = false) -> last_z sh <> Z.of_nat nv ->
  is_ok (as_array_arr vzero m nv sh data) = false.
Proof. exact arr_wrong_length. Qed.
Print Assumptions C02_reject_wrong_length.

Theorem C02_reject_wrong_shape : forall (V : Type) (vzero : V) (m : mesh) (nv : nat) (sh : list Z) (data : list V),
  ((nv =? 1)%nat && zlist_eqb sh (n m) = false) -> bcast_ok (eff_shape m nv sh) (shape_of m nv) = false ->
  is_ok (as_array_arr vzero m nv sh data) = false.
Proof. exact arr_wrong_shape. Qed.
Print Assumptions C02_reject_wrong_shape.

Theorem C02_reject_callable_length : forall (V : Type) (m : mesh) (nv : nat) (f : list Q -> list V) i,
  In i (indices_xfast (n m)) -> length (f (centre m i)) <> nv ->
  is_ok (as_array_fun m nv f) = false.
Proof. exact fun_wrong_length. Qed.
Print Assumptions C02_reject_callable_length.

Theorem C02_reject_type : forall (V : Type) (vzero : V) (is_zero : V -> bool) (m : mesh) (nv : nat),
  is_ok (as_array_simple vzero is_zero m nv SBad) = false.
Proof. exact bad_rejected. Qed.
Print Assumptions C02_reject_type.

Theorem C02_reject_keeps_state : forall (V : Type) (vzero : V) (is_zero : V -> bool) (f : fstate V) (s : spec V),
  is_ok (set_array vzero is_zero f s) = false -> assign vzero is_zero f s = f.
Proof. exact reject_keeps_state. Qed.
Print Assumptions C02_reject_keeps_state.

Theorem C02_accept_replaces_array_only : forall (V : Type) (vzero : V) (is_zero : V -> bool) (f f' : fstate V) (s : spec V),
  set_array vzero is_zero f s = OK f' ->
  assign vzero is_zero f s = f' /\ fmesh f' = fmesh f /\ fnv f' = fnv f /\ fvdims f' = fvdims f /\
  as_array vzero is_zero (fmesh f) (fnv f) s = OK (farr f').
Proof. exact accept_sets_array. Qed.
Print Assumptions C02_accept_replaces_array_only.

(* ===== phase 2: the statements in the property's own geometric words ===== *)

(* [aligned m r a b]: r is a union of cells of m (corners pmin + a*cell, pmin + b*cell, 0 <= a < b <= n);
   [centre_in m i r]: the centre of cell i lies in the closed region r;
   [inside_box m p]: p has the mesh's dimension and pmin <= p <= pmax on every axis *)

(* Mesh.region2slices of a lattice-aligned subregion is the index block [a, b-1] ... *)
Theorem C02_subregion_block : forall (m : mesh), wf_mesh m -> forall (r : region) (a b : list Z),
  aligned m r a b -> region2block m r = OK (a, map (fun z => (z - 1)%Z) b).
Proof. exact region2block_aligned. Qed.
Print Assumptions C02_subregion_block.

(* ... and a cell index lies in that block iff the cell CENTRE lies in the subregion *)
Theorem C02_block_iff_centre_in_subregion : forall (m : mesh), wf_mesh m -> forall (r : region) (a b : list Z),
  aligned m r a b -> forall i, length i = length (pmin (reg m)) ->
  (in_block a (map (fun z => (z - 1)%Z) b) i = true <-> centre_in m i r).
Proof. exact block_iff_centre. Qed.
Print Assumptions C02_block_iff_centre_in_subregion.

(* the submesh mesh[subregion] is the subregion with b - a cells, and the centre of its cell i - a is
   the centre of cell i of the mesh: a callable sub-value is evaluated at the mesh's cell centres *)
Theorem C02_submesh_centres : forall (m : mesh), wf_mesh m -> forall (r : region) (a b : list Z),
  aligned m r a b -> forall sm, mesh_by_cell r (cell m) = OK sm ->
  reg sm = r /\ n sm = map2 Z.sub b a /\
  forall i, length i = length (pmin (reg m)) -> forall x, (x < length (pmin (reg m)))%nat ->
    nth x (centre sm (map2 Z.sub i a)) 0 == nth x (centre m i) 0.
Proof. exact submesh_spec. Qed.
Print Assumptions C02_submesh_centres.

(* the dictionary rule: the first-listed subregion (among those with a key) CONTAINING the cell centre
   decides, its sub-value being evaluated on the submesh (same centres); otherwise the default;
   with neither the specification is rejected (C02_dict_missing_default) *)
Theorem C02_dict_first_containing : forall (V : Type) (vzero : V) (is_zero : V -> bool) (m : mesh) (nv : nat)
    (items : list (string * sspec V)) (d : ddefault V) arr,
  wf_mesh m ->
  (forall rs, In rs (keyed m items) -> exists a b, aligned m (fst rs) a b) ->
  as_array_dict vzero is_zero m nv items d = OK arr ->
  forall i, In i (indices_xfast (n m)) ->
    (exists l1 r sv l2 sm sub a b,
        keyed m items = l1 ++ (r, sv) :: l2 /\
        (forall rs, In rs l1 -> ~ centre_in m i (fst rs)) /\ centre_in m i r /\
        aligned m r a b /\ mesh_by_cell r (cell m) = OK sm /\
        as_array_simple vzero is_zero sm nv sv = OK sub /\
        arr i = sub (map2 Z.sub i a) /\
        forall x, (x < length (pmin (reg m)))%nat ->
          nth x (centre sm (map2 Z.sub i a)) 0 == nth x (centre m i) 0)
    \/
    ((forall rs, In rs (keyed m items) -> ~ centre_in m i (fst rs)) /\ default_rule V vzero m nv d arr i).
Proof. exact dict_first_containing. Qed.
Print Assumptions C02_dict_first_containing.

(* source field on an arbitrary containing mesh, n-d: every target cell receives the value of a source
   cell whose closed extent contains the target cell centre *)
Theorem C02_source_field : forall (V : Type) (t : mesh) (nv : nat) (src : fstate V) a (i : zidx),
  wf_mesh t -> wf_mesh (fmesh src) ->
  length (pmin (reg (fmesh src))) = length (pmin (reg t)) ->
  (forall x, (x < length (pmin (reg t)))%nat ->
     nth x (pmin (reg (fmesh src))) 0 <= nth x (pmin (reg t)) 0 /\
     nth x (pmax (reg t)) 0 <= nth x (pmax (reg (fmesh src))) 0) ->
  as_array_field t nv src = OK a -> in_range (n t) i ->
  exists j, a i = farr src j /\ length j = length (pmin (reg t)) /\
    forall x, (x < length (pmin (reg t)))%nat ->
      let s := fmesh src in
      let lo := nth x (pmin (reg s)) 0 in let c := nth x (cell s) 0 in let q := nth x (centre t i) 0 in
      (0 <= nth x j 0 < nth x (n s) 1)%Z /\
      lo + inject_Z (nth x j 0%Z) * c <= q /\ q <= lo + (inject_Z (nth x j 0%Z) + 1) * c.
Proof. exact @source_field_cell. Qed.
Print Assumptions C02_source_field.

(* ... and this does not depend on the library's tie rule: ANY n-d index whose centre is nearest on
   every axis is such a cell *)
Theorem C02_source_any_nearest_pick : forall (s : mesh), wf_mesh s -> forall (q : list Q) (jl : zidx),
  inside_box s q -> length jl = length (pmin (reg s)) ->
  (forall x, (x < length (pmin (reg s)))%nat ->
     let lo := nth x (pmin (reg s)) 0 in let c := nth x (cell s) 0 in
     (0 <= nth x jl 0 < nth x (n s) 1)%Z /\
     forall j, (0 <= j < nth x (n s) 1)%Z ->
       Qabs (i2p1 lo c (nth x jl 0%Z) - nth x q 0) <= Qabs (i2p1 lo c j - nth x q 0)) ->
  forall x, (x < length (pmin (reg s)))%nat ->
    let lo := nth x (pmin (reg s)) 0 in let c := nth x (cell s) 0 in
    lo + inject_Z (nth x jl 0%Z) * c <= nth x q 0 /\ nth x q 0 <= lo + (inject_Z (nth x jl 0%Z) + 1) * c.
Proof. exact source_nearest_contains_nd. Qed.
Print Assumptions C02_source_any_nearest_pick.

Theorem C02_target_centres_in_source : forall (t s : mesh) (i : zidx),
  wf_mesh t -> length (pmin (reg s)) = length (pmin (reg t)) ->
  (forall x, (x < length (pmin (reg t)))%nat ->
     nth x (pmin (reg s)) 0 <= nth x (pmin (reg t)) 0 /\ nth x (pmax (reg t)) 0 <= nth x (pmax (reg s)) 0) ->
  in_range (n t) i -> inside_box s (centre t i).
Proof. exact target_centres_in_source. Qed.
Print Assumptions C02_target_centres_in_source.

(* every point of the closed region is accepted by point2index (sampling never fails inside) *)
Theorem C02_inside_point_indexed : forall (m : mesh), wf_mesh m -> forall p,
  inside_box m p -> point2index m p = OK (nearest_idx m p).
Proof. exact p2i_ok. Qed.
Print Assumptions C02_inside_point_indexed.

(* line, n-d: all points lie inside the region when p1 and p2 do (convexity) ... *)
Theorem C02_line_points_inside : forall (m : mesh) p1 p2 k p,
  inside_box m p1 -> inside_box m p2 -> (2 <= k)%Z -> In p (line_points p1 p2 k) -> inside_box m p.
Proof. exact line_points_inside_nd. Qed.
Print Assumptions C02_line_points_inside.

(* ... whatever field.line returns: the requested points and, point by point, the samples there *)
Theorem C02_line_values : forall (V : Type) (f : fstate V) p1 p2 k l,
  field_line f p1 p2 k = OK l ->
  (2 <= k)%Z /\ contains_pt (reg (fmesh f)) p1 = true /\ contains_pt (reg (fmesh f)) p2 = true /\
  l_points l = line_points p1 p2 k /\
  Forall2 (fun p v => sample f p = OK v) (l_points l) (l_values l) /\
  l_r2 l = map (fun p => dist2 p (hd [] (l_points l))) (l_points l).
Proof. exact line_values. Qed.
Print Assumptions C02_line_values.

(* ... and for end points inside the region and k >= 2 the line IS returned: k points, each value the
   stored value of the cell point2index assigns to the point (C01: the cell containing it) *)
Theorem C02_line_accepted : forall (V : Type) (f : fstate V) p1 p2 k,
  wf_mesh (fmesh f) -> inside_box (fmesh f) p1 -> inside_box (fmesh f) p2 -> (2 <= k)%Z ->
  exists l, field_line f p1 p2 k = OK l /\ l_points l = line_points p1 p2 k /\
            length (l_values l) = Z.to_nat k /\
            Forall2 (fun p v => exists i, point2index (fmesh f) p = OK i /\ v = farr f i)
                    (l_points l) (l_values l).
Proof. exact line_accepts. Qed.
Print Assumptions C02_line_accepted.

(* non-vacuity of [aligned] / [inside_box]: a 2 x 2 block of a 4 x 6 mesh *)
Example C02_nonvacuous_aligned :
  let r := mkRegion [0; (-1)] [4; 2] ["x"%string; "y"%string] ["m"%string; "m"%string] (1 # 1000000000000) in
  let m := mkMesh r [4; 6]%Z "" [] in
  let s := mkRegion [1; (-1)] [3; 0] ["x"%string; "y"%string] ["m"%string; "m"%string] (1 # 1000000000000) in
  wf_mesh m /\ aligned m s [1; 0]%Z [3; 2]%Z /\
  region2block m s = OK ([1; 0]%Z, [2; 1]%Z) /\
  inside_box m [4; (-1)] /\ inside_box m [0; 2].
Proof. exact nonvacuous_aligned. Qed.
Print Assumptions C02_nonvacuous_aligned.

(* non-vacuity: a concrete well-formed mesh, an in-range cell, a sampled centre *)
Example C02_nonvacuous :
  let r := mkRegion [0; (-1)] [4; 2] ["x"%string; "y"%string] ["m"%string; "m"%string] (1 # 1000000000000) in
  let m := mkMesh r [4; 6]%Z "" [] in
  let f := mkF m 1 (fun i => [nth 0 i 0%Z]) None in
  wf_mesh m /\ in_range (n m) [3; 0]%Z /\ sample f [4; (-1)] = OK [3%Z] /\
  (exists a, as_array_fun m 2 (fun p => p) = OK a /\ qlist_eqb (a [3; 0]%Z) [7 # 2; (-3) # 4] = true).
Proof. exact nonvacuous_field. Qed.
Print Assumptions C02_nonvacuous.

(* ===== the tie, proved: soundness of the correspondence checker check_C02 =====
   A shard case that evaluates to true certifies that the OBSERVED output is the model's value on the
   recorded input: [cv_eq] (both components equal as rationals) in the exact regime, [cv_near scale]
   (within rel_tol * scale per component) in the scale regime; [cvl_rel exact scale] is the list form. *)

(* the mesh the checker builds from a recorded description is well-formed, so every theorem above stated
   for wf_mesh applies to it (the bound on the dimension concerns the default axis names only) *)
Theorem C02_check_mesh_wf : forall p1 p2 n_ tf_ dims_ subs_ m,
  build_mesh (MeshD p1 p2 n_ tf_ dims_ subs_) = OK m -> 0 <= tf_ ->
  (dims_ = None -> (length p1 <= 10)%nat) -> wf_mesh m.
Proof. exact build_mesh_wf. Qed.
Print Assumptions C02_check_mesh_wf.
Theorem C02_check_field_wf : forall p1 p2 n_ tf_ dims_ subs_ nv s vd f,
  mk (MeshD p1 p2 n_ tf_ dims_ subs_) nv s vd = OK (OK f) -> 0 <= tf_ ->
  (dims_ = None -> (length p1 <= 10)%nat) ->
  wf_mesh (fmesh f) /\ fnv f = nv /\ build_mesh (MeshD p1 p2 n_ tf_ dims_ subs_) = OK (fmesh f).
Proof. exact mk_wf. Qed.
Print Assumptions C02_check_field_wf.

Theorem C02_check_init_sound : forall exact sc d nv s o,
  check_C02 (CInit exact sc d nv s (Some o)) = true ->
  exists f, mk d nv s None = OK (OK f) /\
    length o = length (flat (fmesh f) (farr f)) /\
    (cvl_rel exact sc (flat (fmesh f) (farr f)) o \/
     exists sd snv sdata src, s = VSimple (VField sd snv sdata) /\ build_src sd snv sdata = OK src /\
                              field_adm (fmesh f) nv src o = true).
Proof. exact check_init_sound. Qed.
Print Assumptions C02_check_init_sound.
Theorem C02_check_init_plain_sound : forall exact sc d nv s o,
  check_C02 (CInit exact sc d nv s (Some o)) = true ->
  (forall sd snv sdata, s <> VSimple (VField sd snv sdata)) ->
  exists f, mk d nv s None = OK (OK f) /\ cvl_rel exact sc (flat (fmesh f) (farr f)) o.
Proof. exact check_init_plain_sound. Qed.
Print Assumptions C02_check_init_plain_sound.
Theorem C02_check_init_reject_sound : forall exact sc d nv s,
  check_C02 (CInit exact sc d nv s None) = true -> exists e, mk d nv s None = OK (Err e).
Proof. exact check_init_reject_sound. Qed.
Print Assumptions C02_check_init_reject_sound.
Theorem C02_check_assign_sound : forall d nv s0 s1 obs_ok obs_after,
  check_C02 (CAssign d nv s0 s1 obs_ok obs_after) = true ->
  exists f sp1, mk d nv s0 None = OK (OK f) /\ to_spec s1 = OK sp1 /\
    is_ok (set_array cv0 cv_is_zero f sp1) = obs_ok /\
    Forall2 cv_eq (flat (fmesh (assign cv0 cv_is_zero f sp1)) (farr (assign cv0 cv_is_zero f sp1))) obs_after.
Proof. exact check_assign_sound. Qed.
Print Assumptions C02_check_assign_sound.
Theorem C02_check_sample_sound : forall exact sc d nv s p o,
  check_C02 (CSample exact sc d nv s p (Some o)) = true ->
  exists f v, mk d nv s None = OK (OK f) /\ sample f p = OK v /\ cvl_rel exact sc v o.
Proof. exact check_sample_sound. Qed.
Print Assumptions C02_check_sample_sound.
Theorem C02_check_sample_reject_sound : forall exact sc d nv s p,
  check_C02 (CSample exact sc d nv s p None) = true ->
  exists f e, mk d nv s None = OK (OK f) /\ sample f p = Err e.
Proof. exact check_sample_reject_sound. Qed.
Print Assumptions C02_check_sample_reject_sound.
Theorem C02_check_component_sound : forall d nv s vd label o,
  check_C02 (CComp d nv s vd label (Some o)) = true ->
  exists f g, mk d nv s vd = OK (OK f) /\ component cv0 f label = OK g /\ fnv g = 1%nat /\
    Forall2 cv_eq (flat (fmesh g) (farr g)) o.
Proof. exact check_comp_sound. Qed.
Print Assumptions C02_check_component_sound.
Theorem C02_check_component_reject_sound : forall d nv s vd label,
  check_C02 (CComp d nv s vd label None) = true ->
  exists f e, mk d nv s vd = OK (OK f) /\ component cv0 f label = Err e.
Proof. exact check_comp_reject_sound. Qed.
Print Assumptions C02_check_component_reject_sound.
Theorem C02_check_iteration_sound : forall d nv s obs,
  check_C02 (CIter d nv s obs) = true ->
  exists f, mk d nv s None = OK (OK f) /\
    Forall2 (fun r o => exists v, r = OK v /\ Forall2 cv_eq v o) (iterate f) obs.
Proof. exact check_iter_sound. Qed.
Print Assumptions C02_check_iteration_sound.
(* [r_rel r2max r r2]: 0 <= r and |r*r - r2| <= rel_tol * r2max *)
Theorem C02_check_line_sound : forall d nv s p1 p2 k pts vals rs,
  check_C02 (CLine d nv s p1 p2 k (Some (pts, vals, rs))) = true ->
  exists f l, mk d nv s None = OK (OK f) /\ field_line f p1 p2 k = OK l /\
    Forall2 (Forall2 Qeq) (l_points l) pts /\
    Forall2 (Forall2 cv_eq) (l_values l) vals /\
    Forall2 (r_rel (dist2 p1 p2)) rs (l_r2 l).
Proof. exact check_line_sound. Qed.
Print Assumptions C02_check_line_sound.
Theorem C02_check_line_reject_sound : forall d nv s p1 p2 k,
  check_C02 (CLine d nv s p1 p2 k None) = true ->
  exists f e, mk d nv s None = OK (OK f) /\ field_line f p1 p2 k = Err e.
Proof. exact check_line_reject_sound. Qed.
Print Assumptions C02_check_line_reject_sound.
Theorem C02_check_line_scale_sound : forall tol d nv s p1 p2 k opts ovals,
  check_C02 (CLineS tol d nv s p1 p2 k (Some (opts, ovals))) = true ->
  exists f pts, mk d nv s None = OK (OK f) /\ mesh_line (fmesh f) p1 p2 k = OK pts /\
    Forall2 (Forall2 (fun a b => Qabs (a - b) <= tol * 1)) pts opts /\
    Forall2 (fun q v => length q = length (pmin (reg (fmesh f))) /\
                        exists j, In j (cands_tol tol (fmesh f) q) /\ Forall2 cv_eq (farr f j) v) opts ovals.
Proof. exact check_line_scale_sound. Qed.
Print Assumptions C02_check_line_scale_sound.
(* the source-field alternative of CInit: every observed cell row is the stored value of a candidate
   source cell, and per axis every candidate's closed extent contains the point *)
Theorem C02_check_source_adm_sound : forall m nv src obs,
  field_adm m nv src obs = true ->
  (length obs = length (indices_c (n m)) * nv)%nat /\
  Forall2 (fun i row => exists j, In j (cands (fmesh src) (centre m i)) /\ Forall2 cv_eq (farr src j) row)
          (indices_c (n m)) (chunks nv (length (indices_c (n m))) obs).
Proof. exact field_adm_sound. Qed.
Print Assumptions C02_check_source_adm_sound.
Theorem C02_check_source_candidate_contains : forall lo hi k q i, lo < hi -> (0 < k)%Z -> lo <= q -> q <= hi ->
  let c := cell_of lo hi k in
  In i (cand1 lo c k q) ->
  (0 <= i < k)%Z /\ lo + inject_Z i * c <= q /\ q <= lo + (inject_Z i + 1) * c.
Proof. exact cand1_contains. Qed.
Print Assumptions C02_check_source_candidate_contains.
(* a whole shard: no failing index means every case was accepted *)
Theorem C02_shard_verdict : forall cases k,
  failing k (map check_C02 cases) = [] -> forall c, In c cases -> check_C02 c = true.
Proof. exact (failing_nil_all check_C02). Qed.
Print Assumptions C02_shard_verdict.

(* ===== transfer: the C02 statements about the OBSERVED output itself ===== *)
(* the observed field(point) is the stored value of the cell point2index assigns to the point *)
Theorem C02_accepted_sample_cell : forall exact sc d nv s p o,
  check_C02 (CSample exact sc d nv s p (Some o)) = true ->
  exists f i, mk d nv s None = OK (OK f) /\ point2index (fmesh f) p = OK i /\ cvl_rel exact sc (farr f i) o.
Proof. exact accepted_sample_cell. Qed.
Print Assumptions C02_accepted_sample_cell.
Theorem C02_accepted_sample_reject : forall exact sc d nv s p,
  check_C02 (CSample exact sc d nv s p None) = true ->
  exists f, mk d nv s None = OK (OK f) /\ is_ok (point2index (fmesh f) p) = false.
Proof. exact accepted_sample_reject. Qed.
Print Assumptions C02_accepted_sample_reject.
(* the observed list(field) is the stored cell values in x-fastest order, on a well-formed mesh *)
Theorem C02_accepted_iteration : forall p1 p2 n_ tf_ dims_ subs_ nv s obs,
  check_C02 (CIter (MeshD p1 p2 n_ tf_ dims_ subs_) nv s obs) = true ->
  0 <= tf_ -> (dims_ = None -> (length p1 <= 10)%nat) ->
  exists f, mk (MeshD p1 p2 n_ tf_ dims_ subs_) nv s None = OK (OK f) /\ wf_mesh (fmesh f) /\
    Forall2 (fun i o => Forall2 cv_eq (farr f i) o) (indices_xfast (n (fmesh f))) obs.
Proof. exact accepted_iteration. Qed.
Print Assumptions C02_accepted_iteration.
(* an observed rejected assignment left the observed array as it was ... *)
Theorem C02_accepted_reject_keeps_state : forall d nv s0 s1 obs_after,
  check_C02 (CAssign d nv s0 s1 false obs_after) = true ->
  exists f, mk d nv s0 None = OK (OK f) /\ Forall2 cv_eq (flat (fmesh f) (farr f)) obs_after.
Proof. exact accepted_reject_keeps_state. Qed.
Print Assumptions C02_accepted_reject_keeps_state.
(* ... and an observed accepted one holds _as_array of the new value on the same mesh and nvdim *)
Theorem C02_accepted_assign_replaces : forall d nv s0 s1 obs_after,
  check_C02 (CAssign d nv s0 s1 true obs_after) = true ->
  exists f sp1 a, mk d nv s0 None = OK (OK f) /\ to_spec s1 = OK sp1 /\
    as_array cv0 cv_is_zero (fmesh f) (fnv f) sp1 = OK a /\
    Forall2 cv_eq (flat (fmesh f) a) obs_after.
Proof. exact accepted_assign_replaces. Qed.
Print Assumptions C02_accepted_assign_replaces.
(* callable value: the observed array holds, cell by cell in C order, the callable at the cell centre *)
Theorem C02_accepted_init_function : forall exact sc d nv fn o,
  check_C02 (CInit exact sc d nv (VSimple (VFun fn)) (Some o)) = true ->
  exists f, mk d nv (VSimple (VFun fn)) None = OK (OK f) /\ build_mesh d = OK (fmesh f) /\
    cvl_rel exact sc (flat_map (fun i => eval_fun fn (centre (fmesh f) i)) (indices_c (n (fmesh f)))) o.
Proof. exact accepted_init_function. Qed.
Print Assumptions C02_accepted_init_function.
(* number: it was admissible (scalar field or zero) and every observed entry is the number *)
Theorem C02_accepted_init_constant : forall d nv v o,
  check_C02 (CInit true 0 d nv (VSimple (VConst v)) (Some o)) = true ->
  ((nv <= 1)%nat \/ cv_is_zero v = true) /\ Forall (cv_eq v) o.
Proof. exact accepted_init_constant. Qed.
Print Assumptions C02_accepted_init_constant.
(* component: the observed scalar array holds component k = vdims.index(label) of every cell *)
Theorem C02_accepted_component : forall d nv s vd label o,
  check_C02 (CComp d nv s vd label (Some o)) = true ->
  exists f l k, mk d nv s vd = OK (OK f) /\ fvdims f = Some l /\ index_of label l = Some k /\
    Forall2 cv_eq (map (fun i => nth k (farr f i) cv0) (indices_c (n (fmesh f)))) o.
Proof. exact accepted_component. Qed.
Print Assumptions C02_accepted_component.
Theorem C02_accepted_component_unknown : forall d nv s vd label,
  check_C02 (CComp d nv s vd label None) = true ->
  exists f, mk d nv s vd = OK (OK f) /\
    (fvdims f = None \/ exists l, fvdims f = Some l /\ index_of label l = None).
Proof. exact accepted_component_unknown. Qed.
Print Assumptions C02_accepted_component_unknown.
(* line: the observed points are the k equidistant points and each observed value is the stored value
   of the cell point2index assigns to its point *)
Theorem C02_accepted_line : forall d nv s p1 p2 k pts vals rs,
  check_C02 (CLine d nv s p1 p2 k (Some (pts, vals, rs))) = true ->
  exists f, mk d nv s None = OK (OK f) /\ (2 <= k)%Z /\
    contains_pt (reg (fmesh f)) p1 = true /\ contains_pt (reg (fmesh f)) p2 = true /\
    Forall2 (Forall2 Qeq) (line_points p1 p2 k) pts /\
    Forall2 (fun p v => exists i w, point2index (fmesh f) p = OK i /\ w = farr f i /\ Forall2 cv_eq w v)
            (line_points p1 p2 k) vals /\
    length pts = Z.to_nat k /\ length vals = Z.to_nat k.
Proof. exact accepted_line. Qed.
Print Assumptions C02_accepted_line.
(* non-vacuity: concrete accepted cases on a 4 x 2 mesh, value 1 + x + 2y *)
Example C02_accepted_sample_instance :
  check_C02 (CSample true 0 demo_mesh 1 (VSimple (VFun demo_fun)) [3; 1] (Some [(15 # 2, 0)])) = true.
Proof. exact accepted_sample_instance. Qed.
Print Assumptions C02_accepted_sample_instance.
Example C02_accepted_init_instance :
  check_C02 (CInit true 0 demo_mesh 1 (VSimple (VFun demo_fun))
               (Some [(5 # 2, 0); (9 # 2, 0); (7 # 2, 0); (11 # 2, 0); (9 # 2, 0); (13 # 2, 0); (11 # 2, 0); (15 # 2, 0)])) = true.
Proof. exact accepted_init_instance. Qed.
Print Assumptions C02_accepted_init_instance.
Example C02_accepted_iteration_instance :
  check_C02 (CIter demo_mesh 1 (VSimple (VConst (3, 1)))
               [[(3, 1)]; [(3, 1)]; [(3, 1)]; [(3, 1)]; [(3, 1)]; [(3, 1)]; [(3, 1)]; [(3, 1)]]) = true.
Proof. exact accepted_iteration_instance. Qed.
Print Assumptions C02_accepted_iteration_instance.
