(* C03 — Field algebra is cell-wise numpy algebra on one mesh; operands stay untouched. *)
From DF Require Import Prelude FieldK Region Mesh Ops C03_proofs.

Theorem C03_pure_identity : forall (K : FOps) (e : expr K) i,
  alias_of e = Some i -> strip_pos e = Leaf i.
Proof. exact alias_of_strip. Qed.
Print Assumptions C03_pure_identity.
