(* C03 — Field algebra is cell-wise numpy algebra on one mesh; operands stay untouched.
   Statements only.  K is an arbitrary commutative ring of cell values (ring_theory hypothesis: every
   field, in particular the reals and the complex numbers), un / bin are arbitrary cell functions
   (numpy's non-algebraic ufuncs), expression trees have arbitrary depth, meshes any number of cells. *)
From Coq Require Import Qcanon.
From DF Require Import Prelude FieldK Region Mesh Ops C03_proofs C03_more.

Definition RLaws (K : FOps) : Prop :=
  ring_theory (f0 K) (f1 K) (@fadd K) (@fmul K) (@fsub K) (@fopp K) eq.

(* the evaluator (model of the operator code) computes, in every cell, the plain cell-wise value of the
   expression under numpy broadcasting of the component axis; the result lives on the common mesh and is
   valid exactly where all field operands are valid *)
Theorem C03_cellwise : forall (K : FOps) un bin, RLaws K ->
  forall (rho : list (field K)) N m e f,
  Forall (wf_leaf K N m) rho -> consts_ok K N e ->
  eval K un bin rho e = OK (VF f) ->
  fmesh f = m /\ length (farr f) = N /\ length (fvalid f) = N /\
  forall c, (c < N)%nat ->
    nth c (farr f) [] = den K un bin rho e c /\ nth c (fvalid f) true = den_valid K rho e c.
Proof. exact cellwise. Qed.
Print Assumptions C03_cellwise.

Example C03_cellwise_nonvacuous :
  exists f, eval QcOps (fun _ x => x) (fun _ x _ => x) [wf1; wf2]
                 (Bin (Alg Sub) (Const (@CVec QcOps false [Q2Qc 1; Q2Qc 2])) (Bin (Alg Mul) (Leaf 0) (Un Neg (Leaf 1)))) = OK (VF f)
            /\ Forall (wf_leaf QcOps 1 wmesh) [wf1; wf2].
Proof. eexists. split; [vm_compute; reflexivity|]. repeat constructor. Qed.
Print Assumptions C03_cellwise_nonvacuous.

(* fields on different meshes are rejected (allclose for the operators / ufuncs, == for <<) *)
Theorem C03_reject_other_mesh : forall (K : FOps) un bin o (f g : field K),
  arithmetic o = true -> mesh_allclose (fmesh f) (fmesh g) <> OK true ->
  is_ok (eval_bin K un bin o f (VF g)) = false.
Proof. exact reject_other_mesh. Qed.
Print Assumptions C03_reject_other_mesh.

Theorem C03_reject_other_mesh_stack : forall (K : FOps) un bin (f g : field K),
  mesh_eqb (fmesh f) (fmesh g) = false -> eval_bin K un bin Stack f (VF g) = Err ValueE.
Proof. exact reject_other_mesh_stack. Qed.
Print Assumptions C03_reject_other_mesh_stack.

(* incompatible component counts (different, none of them 1) are rejected *)
Theorem C03_reject_component_count : forall (K : FOps) un bin (a : aop) (f g : field K),
  fnv f <> fnv g -> fnv f <> 1%nat -> fnv g <> 1%nat ->
  is_ok (eval_bin K un bin (Alg a) f (VF g)) = false /\
  is_ok (eval_bin K un bin (Uf2 (CAlg a)) f (VF g)) = false /\
  is_ok (eval_bin K un bin Dot f (VF g)) = false /\
  is_ok (eval_bin K un bin Cross f (VF g)) = false /\
  is_ok (eval_bin K un bin Angle f (VF g)) = false.
Proof. exact reject_component_count. Qed.
Print Assumptions C03_reject_component_count.

Theorem C03_reject_unsupported_operand : forall (K : FOps) un bin (f : field K) np x g,
  eval_bin K un bin Dot f (VC (CNum np x)) = Err TypeE /\
  eval_bin K un bin Cross f (VC (CNum np x)) = Err TypeE /\
  eval_rbin K bin (Alg Pow) (CNum false x) g = Err TypeE.
Proof. exact reject_unsupported. Qed.
Print Assumptions C03_reject_unsupported_operand.

(* a*b and b*a (a+b and b+a) are the same field -- values, validity, mesh, labels, mapping -- whenever
   a scalar meets a vector or both operands carry the same labels ... *)
Theorem C03_commutative_partial : forall (K : FOps) bin, RLaws K ->
  forall (a : aop) (f g r : field K),
  (a = Add \/ a = Mul) -> fmesh f = fmesh g -> (1 <= fnv f)%nat -> (1 <= fnv g)%nat ->
  (fnv f = fnv g -> fvdims f = fvdims g /\ fvmap f = fvmap g) ->
  apply_op K (alg K bin a) f (VF g) = OK r -> apply_op K (alg K bin a) g (VF f) = OK r.
Proof. exact commutative. Qed.
Print Assumptions C03_commutative_partial.

(* ... and the unrestricted statement is false of the code: two vector fields with different labels
   (known finding C03-commutative-distinct-labels; the values still agree) *)
Theorem C03_commutative_refuted :
  exists (f g r1 r2 : field QcOps),
    fmesh f = fmesh g /\
    apply_op QcOps (@fmul QcOps) f (VF g) = OK r1 /\ apply_op QcOps (@fmul QcOps) g (VF f) = OK r2 /\
    farr r1 = farr r2 /\ fvdims r1 <> fvdims r2.
Proof. exact commutative_labels_refuted. Qed.
Print Assumptions C03_commutative_refuted.

(* stacking the components of a field reproduces its values and validity *)
Theorem C03_stack_components : forall (K : FOps) un bin, RLaws K ->
  forall (rho : list (field K)) N m i j f r,
  Forall (wf_leaf K N m) rho -> nth_error rho i = Some f ->
  Forall (fun cell => length cell = S j) (farr f) ->
  eval K un bin rho (stack_from K (Leaf i) j) = OK (VF r) ->
  farr r = farr f /\ fvalid r = fvalid f /\ fmesh r = fmesh f.
Proof. exact stack_components. Qed.
Print Assumptions C03_stack_components.

Example C03_stack_components_nonvacuous :
  exists r, eval QcOps (fun _ x => x) (fun _ x _ => x) [wf1] (stack_from QcOps (Leaf 0) 1) = OK (VF r).
Proof. eexists. vm_compute. reflexivity. Qed.
Print Assumptions C03_stack_components_nonvacuous.

(* operands stay untouched: evaluation is a function of the operands (no state), and the only
   expressions that hand an operand object back are +(+(...f)) *)
Theorem C03_pure_identity : forall (K : FOps) (e : expr K) i,
  alias_of e = Some i -> strip_pos e = Leaf i.
Proof. exact alias_of_strip. Qed.
Print Assumptions C03_pure_identity.

Theorem C03_pure_alias_is_operand : forall (K : FOps) un bin (rho : list (field K)) e i v,
  alias_of e = Some i -> eval K un bin rho e = OK v -> exists f, nth_error rho i = Some f /\ v = VF f.
Proof. exact alias_is_operand. Qed.
Print Assumptions C03_pure_alias_is_operand.
