(* C03 — Field algebra is cell-wise numpy algebra on one mesh; operands stay untouched.
   Statements only.  K is an arbitrary commutative ring of cell values (ring_theory hypothesis: every
   field, in particular the reals and the complex numbers), un / bin are arbitrary cell functions
   (numpy's non-algebraic ufuncs), expression trees have arbitrary depth, meshes any number of cells. *)
From Coq Require Import Qcanon.
From DF Require Import Prelude FieldK Region Mesh Ops C03_proofs C03_more ListLemmas CheckSound Check_C03 C03_sound.

Definition RLaws (K : FOps) : Prop :=
  ring_theory (f0 K) (f1 K) (@fadd K) (@fmul K) (@fsub K) (@fopp K) eq.

(* the evaluator (model of the operator code) computes, in every cell, the plain cell-wise value of the
   expression under numpy broadcasting of the component axis; the result lives on the common mesh and is
   valid exactly where all field operands are valid *)
Theorem C03_cellwise : forall (K : FOps) un bin, RLaws K ->
  forall (rho : list (field K)) N m e f,
  Forall (wf_leaf K N m) rho -> consts_ok K N e ->
  eval K un bin rho e = OK (VF f) ->
  fmesh f = m /\ length (farr f) = N /\ length (fvalid f) = N /\
  forall c, (c < N)%nat ->
    nth c (farr f) [] = den K un bin rho e c /\ nth c (fvalid f) true = den_valid K rho e c.
Proof. exact cellwise. Qed.
Print Assumptions C03_cellwise.

Example C03_cellwise_nonvacuous :
  exists f, eval QcOps (fun _ x => x) (fun _ x _ => x) [wf1; wf2]
                 (Bin (Alg Sub) (Const (@CVec QcOps false [Q2Qc 1; Q2Qc 2])) (Bin (Alg Mul) (Leaf 0) (Un Neg (Leaf 1)))) = OK (VF f)
            /\ Forall (wf_leaf QcOps 1 wmesh) [wf1; wf2].
Proof. eexists. split; [vm_compute; reflexivity|]. repeat constructor. Qed.
Print Assumptions C03_cellwise_nonvacuous.

(* fields on different meshes are rejected (allclose for the operators / ufuncs, == for <<) *)
Theorem C03_reject_other_mesh : forall (K : FOps) un bin o (f g : field K),
  arithmetic o = true -> mesh_allclose (fmesh f) (fmesh g) <> OK true ->
  is_ok (eval_bin K un bin o f (VF g)) = false.
Proof. exact reject_other_mesh. Qed.
Print Assumptions C03_reject_other_mesh.

Theorem C03_reject_other_mesh_stack : forall (K : FOps) un bin (f g : field K),
  mesh_eqb (fmesh f) (fmesh g) = false -> eval_bin K un bin Stack f (VF g) = Err ValueE.
Proof. exact reject_other_mesh_stack. Qed.
Print Assumptions C03_reject_other_mesh_stack.

(* incompatible component counts (different, none of them 1) are rejected *)
Theorem C03_reject_component_count : forall (K : FOps) un bin (a : aop) (f g : field K),
  fnv f <> fnv g -> fnv f <> 1%nat -> fnv g <> 1%nat ->
  is_ok (eval_bin K un bin (Alg a) f (VF g)) = false /\
  is_ok (eval_bin K un bin (Uf2 (CAlg a)) f (VF g)) = false /\
  is_ok (eval_bin K un bin Dot f (VF g)) = false /\
  is_ok (eval_bin K un bin Cross f (VF g)) = false /\
  is_ok (eval_bin K un bin Angle f (VF g)) = false.
Proof. exact reject_component_count. Qed.
Print Assumptions C03_reject_component_count.

Theorem C03_reject_unsupported_operand : forall (K : FOps) un bin (f : field K) np x g,
  eval_bin K un bin Dot f (VC (CNum np x)) = Err TypeE /\
  eval_bin K un bin Cross f (VC (CNum np x)) = Err TypeE /\
  eval_rbin K bin (Alg Pow) (CNum false x) g = Err TypeE.
Proof. exact reject_unsupported. Qed.
Print Assumptions C03_reject_unsupported_operand.

(* a*b and b*a (a+b and b+a) are the same field -- values, validity, mesh, labels, mapping -- whenever
   a scalar meets a vector or both operands carry the same labels ... *)
Theorem C03_commutative_partial : forall (K : FOps) bin, RLaws K ->
  forall (a : aop) (f g r : field K),
  (a = Add \/ a = Mul) -> fmesh f = fmesh g -> (1 <= fnv f)%nat -> (1 <= fnv g)%nat ->
  (fnv f = fnv g -> fvdims f = fvdims g /\ fvmap f = fvmap g) ->
  apply_op K (alg K bin a) f (VF g) = OK r -> apply_op K (alg K bin a) g (VF f) = OK r.
Proof. exact commutative. Qed.
Print Assumptions C03_commutative_partial.

(* ... and the unrestricted statement is false of the code: two vector fields with different labels
   (known finding C03-commutative-distinct-labels; the values still agree) *)
Theorem C03_commutative_refuted :
  exists (f g r1 r2 : field QcOps),
    fmesh f = fmesh g /\
    apply_op QcOps (@fmul QcOps) f (VF g) = OK r1 /\ apply_op QcOps (@fmul QcOps) g (VF f) = OK r2 /\
    farr r1 = farr r2 /\ fvdims r1 <> fvdims r2.
Proof. exact commutative_labels_refuted. Qed.
Print Assumptions C03_commutative_refuted.

(* stacking the components of a field reproduces its values and validity *)
Theorem C03_stack_components : forall (K : FOps) un bin, RLaws K ->
  forall (rho : list (field K)) N m i j f r,
  Forall (wf_leaf K N m) rho -> nth_error rho i = Some f ->
  Forall (fun cell => length cell = S j) (farr f) ->
  eval K un bin rho (stack_from K (Leaf i) j) = OK (VF r) ->
  farr r = farr f /\ fvalid r = fvalid f /\ fmesh r = fmesh f.
Proof. exact stack_components. Qed.
Print Assumptions C03_stack_components.

Example C03_stack_components_nonvacuous :
  exists r, eval QcOps (fun _ x => x) (fun _ x _ => x) [wf1] (stack_from QcOps (Leaf 0) 1) = OK (VF r).
Proof. eexists. vm_compute. reflexivity. Qed.
Print Assumptions C03_stack_components_nonvacuous.

(* operands stay untouched: evaluation is a function of the operands (no state), and the only
   expressions that hand an operand object back are +(+(...f)) *)
Theorem C03_pure_identity : forall (K : FOps) (e : expr K) i,
  alias_of e = Some i -> strip_pos e = Leaf i.
Proof. exact alias_of_strip. Qed.
Print Assumptions C03_pure_identity.

Theorem C03_pure_alias_is_operand : forall (K : FOps) un bin (rho : list (field K)) e i v,
  alias_of e = Some i -> eval K un bin rho e = OK v -> exists f, nth_error rho i = Some f /\ v = VF f.
Proof. exact alias_is_operand. Qed.
Print Assumptions C03_pure_alias_is_operand.

(* ---------- soundness of the correspondence checker check_C03 and transfer of the theorems above to
   the OBSERVED outputs (proofs/C03_sound.v).  model_eval = the evaluator on the recorded operands at
   the complex rationals; cells_within tol = every component within |re|+|im| distance tol. ---------- *)
(* the implementation raised and the case was accepted: the model rejects the expression *)
Theorem C03_check_rejected_sound : forall tol mls fls e t1 t2 oa,
  check_C03 (CExpr tol mls fls e t1 t2 None oa) = true ->
  exists er, model_eval tol mls fls e t1 t2 = Err er.
Proof. exact check_expr_rej_sound. Qed.
Print Assumptions C03_check_rejected_sound.

(* the implementation returned a field and the case was accepted: the model returns a field with the same
   mesh (Mesh.__eq__), component count, validity, labels, mapping (as a set), identity, and an array
   within the case tolerance of the observed one *)
Theorem C03_check_accepted_sound : forall tol mls fls e t1 t2 mi nv cells valid vd vm oa,
  check_C03 (CExpr tol mls fls e t1 t2 (Some (mi, nv, cells, valid, vd, vm)) oa) = true ->
  exists f, model_eval tol mls fls e t1 t2 = OK (VF f) /\
    mesh_same (fmesh f) (nth mi (map build_mesh mls) dmesh) /\
    fnv f = nv /\
    Forall (fun v => length v = nv) (farr f) /\
    cells_within tol (farr f) (cells_cq cells) /\
    fvalid f = valid /\ fvdims f = vd /\ vmap_same (fvmap f) vm /\
    alias_of e = oa.
Proof. exact check_expr_ok_sound. Qed.
Print Assumptions C03_check_accepted_sound.

(* exact regime (case tolerance 0): the observed array IS the model's array *)
Theorem C03_check_accepted_exact : forall tol mls fls e t1 t2 mi nv cells valid vd vm oa,
  (tol <= 0)%Q ->
  check_C03 (CExpr tol mls fls e t1 t2 (Some (mi, nv, cells, valid, vd, vm)) oa) = true ->
  exists f, model_eval tol mls fls e t1 t2 = OK (VF f) /\
    mesh_same (fmesh f) (nth mi (map build_mesh mls) dmesh) /\
    fnv f = nv /\ farr f = cells_cq cells /\ fvalid f = valid /\ fvdims f = vd /\
    vmap_same (fvmap f) vm /\ alias_of e = oa.
Proof. exact check_expr_ok_exact. Qed.
Print Assumptions C03_check_accepted_exact.

(* accept / reject agree *)
Theorem C03_check_verdict : forall tol mls fls e t1 t2 obs oa,
  check_C03 (CExpr tol mls fls e t1 t2 obs oa) = true ->
  (obs = None <-> is_ok (model_eval tol mls fls e t1 t2) = false).
Proof. exact check_expr_verdict. Qed.
Print Assumptions C03_check_verdict.

(* a whole shard: no failing index means every case was accepted *)
Theorem C03_shard_verdict : forall cases k,
  failing k (map check_C03 cases) = [] -> forall c, In c cases -> check_C03 c = true.
Proof. exact shard_verdict. Qed.
Print Assumptions C03_shard_verdict.

(* the well-formedness hypothesis of C03_cellwise / C03_stack_components is established by a decidable
   test on the recorded operand literals (same mesh number, N cells, N validity flags) *)
Theorem C03_recorded_operands_wf : forall mls fls N mi,
  forallb (lit_wfb N mi) fls = true ->
  Forall (wf_leaf CQ N (nth mi (map build_mesh mls) dmesh)) (env_fields mls fls).
Proof. exact env_wf. Qed.
Print Assumptions C03_recorded_operands_wf.

(* transfer of C03_cellwise: every OBSERVED cell is within the case tolerance of the plain cell-wise value
   of the expression on the recorded operands, the OBSERVED validity is the AND over the field operands ... *)
Theorem C03_accepted_cellwise : forall tol mls fls e t1 t2 mi nv cells valid vd vm oa N mi0,
  check_C03 (CExpr tol mls fls e t1 t2 (Some (mi, nv, cells, valid, vd, vm)) oa) = true ->
  forallb (lit_wfb N mi0) fls = true -> consts_ok CQ N e ->
  mesh_same (nth mi0 (map build_mesh mls) dmesh) (nth mi (map build_mesh mls) dmesh) /\
  length cells = N /\ length valid = N /\
  forall c, (c < N)%nat ->
    vec_within tol (den CQ (un_cq tol t1) (lookup2 tol t2) (env_fields mls fls) e c) (nth c (cells_cq cells) []) /\
    nth c valid true = den_valid CQ (env_fields mls fls) e c.
Proof. exact accepted_cellwise. Qed.
Print Assumptions C03_accepted_cellwise.

(* ... and in the exact regime every observed cell IS that value *)
Theorem C03_accepted_cellwise_exact : forall tol mls fls e t1 t2 mi nv cells valid vd vm oa N mi0,
  (tol <= 0)%Q ->
  check_C03 (CExpr tol mls fls e t1 t2 (Some (mi, nv, cells, valid, vd, vm)) oa) = true ->
  forallb (lit_wfb N mi0) fls = true -> consts_ok CQ N e ->
  length cells = N /\ length valid = N /\
  forall c, (c < N)%nat ->
    nth c (cells_cq cells) [] = den CQ (un_cq tol t1) (lookup2 tol t2) (env_fields mls fls) e c /\
    nth c valid true = den_valid CQ (env_fields mls fls) e c.
Proof. exact accepted_cellwise_exact. Qed.
Print Assumptions C03_accepted_cellwise_exact.

Example C03_accepted_cellwise_instance :
  check_C03 (CExpr 0 [xm1] [xf0; xf1] xe1 [] []
               (Some (0%nat, 1%nat, [[((-5), 0)]; [((-3), (-2))]], [true; false], None, [])%Q) None) = true
  /\ forallb (lit_wfb 2 0) [xf0; xf1] = true /\ consts_ok CQ 2 xe1.
Proof. exact accepted_cellwise_instance. Qed.
Print Assumptions C03_accepted_cellwise_instance.

Example C03_rejected_instance :
  check_C03 (CExpr 0 [xm1] [xf0; xf1] xe1 [] []
               (Some (0%nat, 1%nat, [[((-5), 0)]; [((-3), 2)]], [true; false], None, [])%Q) None) = false.
Proof. exact rejected_instance. Qed.
Print Assumptions C03_rejected_instance.

(* transfer of C03_pure_identity / C03_pure_alias_is_operand: when the implementation handed back operand
   object number i, the expression is +(+(... f_i)) and the observed field has operand i's recorded component
   count, validity, labels, mapping and array *)
Theorem C03_accepted_alias_is_operand : forall tol mls fls e t1 t2 mi nv cells valid vd vm i,
  check_C03 (CExpr tol mls fls e t1 t2 (Some (mi, nv, cells, valid, vd, vm)) (Some i)) = true ->
  strip_pos e = Leaf i /\
  exists mi' cells' vm', nth_error fls i = Some (mi', nv, cells', valid, vd, vm') /\
    cells_within tol (cells_cq cells') (cells_cq cells) /\ vmap_same vm' vm.
Proof. exact accepted_alias_is_operand. Qed.
Print Assumptions C03_accepted_alias_is_operand.

Example C03_accepted_alias_instance :
  check_C03 (CExpr 0 [xm1] [xf0; xf1] (Un Pos (Un Pos (Leaf 0))) [] [] (Some xf0) (Some 0%nat)) = true.
Proof. exact accepted_alias_instance. Qed.
Print Assumptions C03_accepted_alias_instance.

(* transfer of C03_reject_other_mesh(_stack) / C03_reject_component_count: in an accepted case the
   implementation raised *)
Theorem C03_accepted_other_mesh_raises : forall tol mls fls o i j fi fj t1 t2 obs oa,
  nth_error fls i = Some fi -> nth_error fls j = Some fj -> arithmetic o = true ->
  mesh_allclose (fmesh (build_field (map build_mesh mls) fi)) (fmesh (build_field (map build_mesh mls) fj)) <> OK true ->
  check_C03 (CExpr tol mls fls (Bin o (Leaf i) (Leaf j)) t1 t2 obs oa) = true -> obs = None.
Proof. exact accepted_other_mesh_raises. Qed.
Print Assumptions C03_accepted_other_mesh_raises.

Theorem C03_accepted_other_mesh_stack_raises : forall tol mls fls i j fi fj t1 t2 obs oa,
  nth_error fls i = Some fi -> nth_error fls j = Some fj ->
  mesh_eqb (fmesh (build_field (map build_mesh mls) fi)) (fmesh (build_field (map build_mesh mls) fj)) = false ->
  check_C03 (CExpr tol mls fls (Bin Stack (Leaf i) (Leaf j)) t1 t2 obs oa) = true -> obs = None.
Proof. exact accepted_other_mesh_stack_raises. Qed.
Print Assumptions C03_accepted_other_mesh_stack_raises.

Theorem C03_accepted_component_count_raises : forall tol mls fls (a : aop) o i j fi fj t1 t2 obs oa,
  nth_error fls i = Some fi -> nth_error fls j = Some fj ->
  In o [Alg a; Uf2 (CAlg a); Dot; Cross; Angle] ->
  fnv (build_field (map build_mesh mls) fi) <> fnv (build_field (map build_mesh mls) fj) ->
  fnv (build_field (map build_mesh mls) fi) <> 1%nat -> fnv (build_field (map build_mesh mls) fj) <> 1%nat ->
  check_C03 (CExpr tol mls fls (Bin o (Leaf i) (Leaf j)) t1 t2 obs oa) = true -> obs = None.
Proof. exact accepted_component_count_raises. Qed.
Print Assumptions C03_accepted_component_count_raises.

Example C03_accepted_other_mesh_instance :
  check_C03 (CExpr 0 [xm1; xm2] [xf0; xf3] (Bin (Alg Add) (Leaf 0) (Leaf 1)) [] [] None None) = true
  /\ mesh_allclose (fmesh (build_field (map build_mesh [xm1; xm2]) xf0))
                   (fmesh (build_field (map build_mesh [xm1; xm2]) xf3)) <> OK true.
Proof. exact accepted_other_mesh_instance. Qed.
Print Assumptions C03_accepted_other_mesh_instance.

(* transfer of C03_stack_components: the OBSERVED result of f.c0 << ... << f.cj has operand f's recorded
   array and validity *)
Theorem C03_accepted_stack_components :
  forall tol mls fls i j t1 t2 mi nv cells valid vd vm oa N mi0 mi' nv' cells' valid' vd' vm',
  (tol <= 0)%Q ->
  check_C03 (CExpr tol mls fls (stack_from CQ (Leaf i) j) t1 t2 (Some (mi, nv, cells, valid, vd, vm)) oa) = true ->
  forallb (lit_wfb N mi0) fls = true ->
  nth_error fls i = Some (mi', nv', cells', valid', vd', vm') ->
  Forall (fun cell => length cell = S j) cells' ->
  cells_cq cells = cells_cq cells' /\ valid = valid'.
Proof. exact accepted_stack_components. Qed.
Print Assumptions C03_accepted_stack_components.

Example C03_accepted_stack_instance :
  check_C03 (CExpr 0 [xm1] [xf0; xf2] (stack_from CQ (Leaf 1) 1) [] []
               (Some (0%nat, 2%nat, [[(3, 0); (4, 0)]; [((5 # 2), 1); (7, 0)]], [true; false],
                      Some ["x"%string; "y"%string], [])%Q) None) = true
  /\ forallb (lit_wfb 2 0) [xf0; xf2] = true.
Proof. exact accepted_stack_instance. Qed.
Print Assumptions C03_accepted_stack_instance.

(* transfer of C03_commutative_partial: both operand orders of + (of * ) accepted, possibly with different
   tolerances and tables -- either both raised, or the two OBSERVED fields have the same component count,
   validity, labels, mapping (as a set) and arrays within the sum of the tolerances (equal when both are 0) *)
Theorem C03_accepted_commutative : forall tolA tolB mls fls (a : aop) i j fi fj t1A t2A t1B t2B oA oB aA aB,
  (a = Add \/ a = Mul) ->
  nth_error fls i = Some fi -> nth_error fls j = Some fj ->
  fmesh (build_field (map build_mesh mls) fi) = fmesh (build_field (map build_mesh mls) fj) ->
  (1 <= fnv (build_field (map build_mesh mls) fi))%nat -> (1 <= fnv (build_field (map build_mesh mls) fj))%nat ->
  (fnv (build_field (map build_mesh mls) fi) = fnv (build_field (map build_mesh mls) fj) ->
   fvdims (build_field (map build_mesh mls) fi) = fvdims (build_field (map build_mesh mls) fj) /\
   fvmap (build_field (map build_mesh mls) fi) = fvmap (build_field (map build_mesh mls) fj)) ->
  check_C03 (CExpr tolA mls fls (Bin (Alg a) (Leaf i) (Leaf j)) t1A t2A oA aA) = true ->
  check_C03 (CExpr tolB mls fls (Bin (Alg a) (Leaf j) (Leaf i)) t1B t2B oB aB) = true ->
  match oA, oB with
  | None, None => True
  | Some (_, nv1, c1, v1, vd1, vm1), Some (_, nv2, c2, v2, vd2, vm2) =>
      nv1 = nv2 /\ v1 = v2 /\ vd1 = vd2 /\ vmap_same vm1 vm2 /\
      cells_within (tolA + tolB) (cells_cq c1) (cells_cq c2) /\
      ((tolA <= 0)%Q -> (tolB <= 0)%Q -> cells_cq c1 = cells_cq c2)
  | _, _ => False
  end.
Proof. exact accepted_commutative. Qed.
Print Assumptions C03_accepted_commutative.

Example C03_accepted_commutative_instance :
  let obs := Some (0%nat, 2%nat, [[(3, 0); (4, 0)]; [(5, 2); (14, 0)]], [true; false],
                   Some ["a"%string; "b"%string], [])%Q in
  check_C03 (CExpr 0 [xm1] [xf0; xf2] (Bin (Alg Mul) (Leaf 0) (Leaf 1)) [] [] obs None) = true /\
  check_C03 (CExpr 0 [xm1] [xf0; xf2] (Bin (Alg Mul) (Leaf 1) (Leaf 0)) [] [] obs None) = true.
Proof. exact accepted_commutative_instance. Qed.
Print Assumptions C03_accepted_commutative_instance.
